/-
  Proofs/RRuleNth.lean — the nth-weekday mask of `_iterinfo.rebuild` (lines 1238-1253, with the range
  guard of the D-C01b fix): one `(weekday, n)` inside one `(first, last)` range marks exactly the day
  of the range that has that weekday and is the `n`-th such day from the start (`n > 0`) or from the
  end (`n < 0`); nothing raises and no other entry changes.
-/
import DateutilVerif.Proofs.RRuleEaster
import DateutilVerif.Proofs.Range

namespace RRule
open Cal

/-- `j` is the `n`-th day of its weekday inside `[first, last]`, counted from the start or the end -/
def nthAt (first last j n : Int) : Prop :=
  if n > 0 then (j - first) / 7 + 1 = n else -((last - j) / 7 + 1) = n

instance (first last j n : Int) : Decidable (nthAt first last j n) := by unfold nthAt; exact inferInstance

variable {r : Rule} {y : Int} {info : Info}

theorem markNth_spec (f : YearFacts r y info) (first last : Int) (h0 : 0 ≤ first) (hl : last < info.yearlen)
    (mask : List Int) (hlen : (mask.length : Int) = info.yearlen) (wn : Int × Int)
    (hw : 0 ≤ wn.1 ∧ wn.1 ≤ 6) (hn : wn.2 ≠ 0) :
    ∃ mask', markNth info.wdaymask first last mask wn = .ok mask' ∧ mask'.length = mask.length ∧
      ∀ j : Int, 0 ≤ j → j < info.yearlen →
        Py.getIdx mask' j =
          (if first ≤ j ∧ j ≤ last ∧ weekdayOfOrd (info.yearordinal + j) = wn.1 ∧ nthAt first last j wn.2
           then .ok 1 else Py.getIdx mask j) := by
  have hylen : info.yearlen ≤ 366 := by rw [f.yearlen]; unfold daysInYear; split <;> omega
  obtain ⟨wday, n⟩ := wn
  dsimp only at hw hn ⊢
  have hwd : ∀ i j : Int, weekdayOfOrd (info.yearordinal + j) =
      (weekdayOfOrd (info.yearordinal + i) + (j - i)) % 7 := by
    intro i j
    have e : info.yearordinal + j = info.yearordinal + i + (j - i) := by omega
    rw [e, weekdayOfOrd_add]
  unfold markNth
  dsimp only
  by_cases hneg : n < 0
  · rw [if_pos hneg]
    by_cases hi : last + (n + 1) * 7 < first
    · rw [if_pos hi]
      refine ⟨mask, rfl, rfl, ?_⟩
      intro j hj0 hj1
      rw [if_neg]
      rintro ⟨h1, h2, _, h4⟩
      unfold nthAt at h4; rw [if_neg (by omega)] at h4
      omega
    · rw [if_neg hi]
      have hir : 0 ≤ last + (n + 1) * 7 ∧ last + (n + 1) * 7 < 379 := by omega
      rw [wdaymask_date f _ hir.1 hir.2]
      dsimp only
      have hrange := weekdayOfOrd_range (info.yearordinal + (last + (n + 1) * 7))
      rw [Py.fmod_pos _ (by omega : (0 : Int) < 7)]
      generalize hw0 : weekdayOfOrd (info.yearordinal + (last + (n + 1) * 7)) = w0 at hrange
      have hwd' := hwd (last + (n + 1) * 7)
      rw [hw0] at hwd'
      by_cases hin : first ≤ last + (n + 1) * 7 - (w0 - wday) % 7 ∧ last + (n + 1) * 7 - (w0 - wday) % 7 ≤ last
      · rw [if_pos hin]
        obtain ⟨m1, hm1, hl1, _⟩ := getIdx_set mask (last + (n + 1) * 7 - (w0 - wday) % 7) 0 1
          (by omega) (by omega)
        refine ⟨m1, hm1, hl1, ?_⟩
        intro j hj0 hj1
        obtain ⟨m1', hm1', _, hg⟩ := getIdx_set mask (last + (n + 1) * 7 - (w0 - wday) % 7) j 1
          (by omega) (by omega)
        rw [hm1] at hm1'; injection hm1' with e; subst e
        rw [hg]
        by_cases c : j = last + (n + 1) * 7 - (w0 - wday) % 7
        · rw [if_pos c, if_pos]
          refine ⟨by omega, by omega, ?_, ?_⟩
          · rw [hwd' j]; omega
          · unfold nthAt; rw [if_neg (by omega)]; omega
        · rw [if_neg c, if_neg]
          rintro ⟨h1, h2, h3, h4⟩
          unfold nthAt at h4; rw [if_neg (by omega)] at h4
          rw [hwd' j] at h3
          omega
      · rw [if_neg hin]
        refine ⟨mask, rfl, rfl, ?_⟩
        intro j hj0 hj1
        rw [if_neg]
        rintro ⟨h1, h2, h3, h4⟩
        unfold nthAt at h4; rw [if_neg (by omega)] at h4
        rw [hwd' j] at h3
        omega
  · rw [if_neg hneg]
    have hpos : 0 < n := by omega
    by_cases hi : first + (n - 1) * 7 > last
    · rw [if_pos hi]
      refine ⟨mask, rfl, rfl, ?_⟩
      intro j hj0 hj1
      rw [if_neg]
      rintro ⟨h1, h2, _, h4⟩
      unfold nthAt at h4; rw [if_pos hpos] at h4
      omega
    · rw [if_neg hi]
      have hir : 0 ≤ first + (n - 1) * 7 ∧ first + (n - 1) * 7 < 379 := by omega
      rw [wdaymask_date f _ hir.1 hir.2]
      dsimp only
      have hrange := weekdayOfOrd_range (info.yearordinal + (first + (n - 1) * 7))
      rw [Py.fmod_pos _ (by omega : (0 : Int) < 7)]
      generalize hw0 : weekdayOfOrd (info.yearordinal + (first + (n - 1) * 7)) = w0 at hrange
      have hwd' := hwd (first + (n - 1) * 7)
      rw [hw0] at hwd'
      by_cases hin : first ≤ first + (n - 1) * 7 + (7 - w0 + wday) % 7 ∧ first + (n - 1) * 7 + (7 - w0 + wday) % 7 ≤ last
      · rw [if_pos hin]
        obtain ⟨m1, hm1, hl1, _⟩ := getIdx_set mask (first + (n - 1) * 7 + (7 - w0 + wday) % 7) 0 1
          (by omega) (by omega)
        refine ⟨m1, hm1, hl1, ?_⟩
        intro j hj0 hj1
        obtain ⟨m1', hm1', _, hg⟩ := getIdx_set mask (first + (n - 1) * 7 + (7 - w0 + wday) % 7) j 1
          (by omega) (by omega)
        rw [hm1] at hm1'; injection hm1' with e; subst e
        rw [hg]
        by_cases c : j = first + (n - 1) * 7 + (7 - w0 + wday) % 7
        · rw [if_pos c, if_pos]
          refine ⟨by omega, by omega, ?_, ?_⟩
          · rw [hwd' j]; omega
          · unfold nthAt; rw [if_pos hpos]; omega
        · rw [if_neg c, if_neg]
          rintro ⟨h1, h2, h3, h4⟩
          unfold nthAt at h4; rw [if_pos hpos] at h4
          rw [hwd' j] at h3
          omega
      · rw [if_neg hin]
        refine ⟨mask, rfl, rfl, ?_⟩
        intro j hj0 hj1
        rw [if_neg]
        rintro ⟨h1, h2, h3, h4⟩
        unfold nthAt at h4; rw [if_pos hpos] at h4
        rw [hwd' j] at h3
        omega

/-- the condition under which the pair `wn` marks index `j` -/
def marks (info : Info) (first last j : Int) (wn : Int × Int) : Prop :=
  first ≤ j ∧ j ≤ last ∧ weekdayOfOrd (info.yearordinal + j) = wn.1 ∧ nthAt first last j wn.2

instance (info : Info) (first last j : Int) (wn : Int × Int) : Decidable (marks info first last j wn) := by
  unfold marks; exact inferInstance

/-- all pairs of BYDAY inside one range -/
theorem markNth_fold (f : YearFacts r y info) (first last : Int) (h0 : 0 ≤ first) (hl : last < info.yearlen) :
    ∀ (nwl : List (Int × Int)) (mask : List Int), (mask.length : Int) = info.yearlen →
    (∀ wn ∈ nwl, (0 ≤ wn.1 ∧ wn.1 ≤ 6) ∧ wn.2 ≠ 0) →
    ∃ mask', nwl.foldlM (markNth info.wdaymask first last) mask = .ok mask' ∧ mask'.length = mask.length ∧
      ∀ j : Int, 0 ≤ j → j < info.yearlen →
        Py.getIdx mask' j = (if ∃ wn ∈ nwl, marks info first last j wn then .ok 1 else Py.getIdx mask j) := by
  intro nwl
  induction nwl with
  | nil => intro mask _ _; exact ⟨mask, rfl, rfl, by intro j _ _; simp⟩
  | cons wn wns ih =>
    intro mask hlen hok
    have hwn := hok wn (List.mem_cons_self ..)
    obtain ⟨m1, h1, hl1, hg1⟩ := markNth_spec f first last h0 hl mask hlen wn hwn.1 hwn.2
    obtain ⟨m2, h2, hl2, hg2⟩ := ih m1 (by rw [hl1]; exact hlen) (fun w hw => hok w (List.mem_cons_of_mem _ hw))
    refine ⟨m2, ?_, by rw [hl2, hl1], ?_⟩
    · rw [List.foldlM_cons, h1]; exact h2
    · intro j hj0 hj1
      rw [hg2 j hj0 hj1, hg1 j hj0 hj1]
      by_cases c1 : ∃ w ∈ wns, marks info first last j w
      · rw [if_pos c1, if_pos]
        obtain ⟨w, hw, hm⟩ := c1
        exact ⟨w, List.mem_cons_of_mem _ hw, hm⟩
      · rw [if_neg c1]
        by_cases c2 : first ≤ j ∧ j ≤ last ∧ weekdayOfOrd (info.yearordinal + j) = wn.1 ∧ nthAt first last j wn.2
        · rw [if_pos c2, if_pos ⟨wn, List.mem_cons_self .., c2⟩]
        · rw [if_neg c2, if_neg]
          rintro ⟨w, hw, hm⟩
          rcases List.mem_cons.mp hw with rfl | hw
          · exact c2 hm
          · exact c1 ⟨w, hw, hm⟩

def sliceOK (leap : Bool) (m : Int) : Bool :=
  Py.slice (Tables.mrangeOf leap) (some (m - 1)) (some (m + 1)) none ==
    .ok [dbmTable m + (if m > 2 && leap then 1 else 0), dbmTable (m + 1) + (if m + 1 > 2 && leap then 1 else 0)]

theorem slice_table : ∀ leap : Bool, ∀ k : Fin 12, sliceOK leap (1 + (k.val : Int)) = true := by decide +kernel

theorem mrange_slice (leap : Bool) (m : Int) (h1 : 1 ≤ m) (h2 : m ≤ 12) :
    Py.slice (Tables.mrangeOf leap) (some (m - 1)) (some (m + 1)) none =
      .ok [dbmTable m + (if m > 2 && leap then 1 else 0), dbmTable (m + 1) + (if m + 1 > 2 && leap then 1 else 0)] := by
  have := allRange_lift 1 12 (sliceOK leap) (slice_table leap) m h1 (by omega)
  simpa [sliceOK] using this

/-- **the nth-weekday mask of a MONTHLY rule**: building it raises nothing, and index `j` is marked
    exactly when its date lies in the cursor's month, has the weekday of one of the BYDAY pairs and is
    the `n`-th such weekday of the month counted from the start (`n > 0`) or the end (`n < 0`) -/
theorem nwdaymask_monthly (f : YearFacts r y info) (hf : r.freq = 1) (nwl : List (Int × Int)) (hne : nwl ≠ [])
    (hnw : r.bynweekday = some nwl) (hok : ∀ wn ∈ nwl, (0 ≤ wn.1 ∧ wn.1 ≤ 6) ∧ wn.2 ≠ 0)
    (month : Int) (hm1 : 1 ≤ month) (hm12 : month ≤ 12) :
    ∃ mask, buildNwdaymask r info.yearlen info.mrange info.wdaymask month = .ok (some mask) ∧
      (mask.length : Int) = info.yearlen ∧
      ∀ j : Int, 0 ≤ j → j < info.yearlen →
        Py.getIdx mask j = .ok (if ∃ wn ∈ nwl, marks info (daysBeforeMonth y month)
            (daysBeforeMonth y month + daysInMonth y month - 1) j wn then 1 else 0) := by
  have hyl := f.yearlen
  have hylen : 365 ≤ info.yearlen ∧ info.yearlen ≤ 366 := by rw [hyl]; unfold daysInYear; split <;> omega
  unfold buildNwdaymask
  rw [hnw]
  cases nwl with
  | nil => exact absurd rfl hne
  | cons nw0 nws =>
    simp only [bind, Except.bind]
    rw [if_neg (by simp [hf]), if_pos (by simp [hf]), f.mrange, mrange_slice _ month hm1 hm12]
    have hs := daysBeforeMonth_succ y month hm1 hm12
    have hb := daysInMonth_bounds y month
    have hdbm0 := daysBeforeMonth_mono y 1 month (by omega) hm1 (by omega)
    rw [daysBeforeMonth_1] at hdbm0
    have hdbm1 := daysBeforeMonth_mono y (month + 1) 13 (by omega) (by omega) (by omega)
    rw [daysBeforeMonth_13, ← hyl] at hdbm1
    have e1 : dbmTable month + (if (decide (month > 2) && isLeap y) = true then 1 else 0) = daysBeforeMonth y month := rfl
    have e2 : dbmTable (month + 1) + (if (decide (month + 1 > 2) && isLeap y) = true then 1 else 0) - 1 =
        daysBeforeMonth y month + daysInMonth y month - 1 := by
      have : dbmTable (month + 1) + (if (decide (month + 1 > 2) && isLeap y) = true then 1 else 0) =
          daysBeforeMonth y (month + 1) := rfl
      rw [this, hs]
    have hlen0 : ((List.replicate info.yearlen.toNat (0 : Int)).length : Int) = info.yearlen := by
      rw [List.length_replicate]; omega
    obtain ⟨mask, h1, hl2, h3⟩ := markNth_fold f (daysBeforeMonth y month)
      (daysBeforeMonth y month + daysInMonth y month - 1) hdbm0 (by omega) (nw0 :: nws) _ hlen0 hok
    simp only [pure, Except.pure, List.isEmpty_cons, Bool.false_eq_true, ↓reduceIte, List.foldlM_cons,
      List.foldlM_nil, bind, Except.bind, e1, e2] at h1 ⊢
    rw [h1]
    refine ⟨mask, rfl, by rw [hl2]; exact hlen0, ?_⟩
    intro j hj0 hj1
    rw [h3 j hj0 hj1]
    split
    · rfl
    · rw [getIdx_int _ j hj0 (by rw [hlen0]; exact hj1)]
      simp

end RRule
