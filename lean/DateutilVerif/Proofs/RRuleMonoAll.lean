/-
  Proofs/RRuleMonoAll.lean — strict monotonicity for all seven frequencies.
-/
import DateutilVerif.Proofs.RRuleMonoSub

namespace RRule
open Cal

/-- the initial state of a sub-daily rule satisfies the invariant -/
theorem init_subInv (r : Rule) (ok : RuleOk r) (hf : 4 ≤ r.freq ∧ r.freq ≤ 6) (hv : r.dtstart.Valid) (st : State)
    (h : init r = .ok st) : SubInv r st := by
  unfold DT.Valid ValidDate at hv
  unfold init at h
  simp only [bind, Except.bind] at h
  split at h
  · cases h
  · rename_i info hre
    rw [if_neg (by omega)] at h
    split at h
    · simp only [pure, Except.pure] at h
      injection h with h; subst h
      exact ⟨rebuild_facts r _ _ info hre, hv.1.2.2, ⟨List.Pairwise.nil, by simp⟩,
             ⟨hv.2.1, hv.2.2.1⟩, ⟨hv.2.2.2.1, hv.2.2.2.2.1⟩, ⟨hv.2.2.2.2.2.1, hv.2.2.2.2.2.2.1⟩,
             by simp, by simp, by simp⟩
    · split at h
      · cases h
      · rename_i ts hts
        simp only [pure, Except.pure] at h
        injection h with h; subst h
        obtain ⟨t1, t2, t3, t4⟩ := gettimeset_spec r ok hf _ _ _ ts hts
        exact ⟨rebuild_facts r _ _ info hre, hv.1.2.2, t1,
               ⟨hv.2.1, hv.2.2.1⟩, ⟨hv.2.2.2.1, hv.2.2.2.2.1⟩, ⟨hv.2.2.2.2.2.1, hv.2.2.2.2.2.2.1⟩,
               t2, t3, t4⟩

theorem sub_next (r : Rule) (ok : RuleOk r) (hf : 4 ≤ r.freq ∧ r.freq ≤ 6) (st st' : State) (inv : SubInv r st)
    (h : (step r st).2 = .ok st') : SubInv r st' ∧ loSub r st + unitSecs r ≤ loSub r st' := by
  obtain ⟨c, fl, hadv⟩ := step_next r st st' h
  unfold unitSecs
  by_cases f4 : r.freq = 4
  · rw [if_pos f4]; exact hourly_next r ok f4 st st' inv c fl hadv
  · by_cases f5 : r.freq = 5
    · rw [if_neg f4, if_pos f5]; exact minutely_next r ok f5 st st' inv c fl hadv
    · rw [if_neg f4, if_neg f5]; exact secondly_next r ok (by omega) st st' inv c fl hadv

/-- **the yielded sequence is strictly increasing** — every rule the constructor accepts for a valid
    start with INTERVAL ≥ 1, all seven frequencies, any BY parts (also inside the known-defect classes),
    any COUNT / UNTIL, any number of periods. -/
theorem iter_strictMono_all (a : Args) (r : Rule) (h : construct a = .ok r) (hi : 1 ≤ a.interval)
    (hw : 0 ≤ a.wkst.getD 0 ∧ a.wkst.getD 0 ≤ 6) (hv : a.dtstart.Valid)
    (hf : 0 ≤ a.freq ∧ a.freq ≤ 6) (n : Nat) :
    (iter r n).1.Pairwise secsLt := by
  by_cases hcal : a.freq ≤ 3
  · exact iter_strictMono_calendar a r h hi hw hv ⟨hf.1, hcal⟩ n
  · have ok := construct_ruleOk a r h hi hw
    have hfr : r.freq = a.freq := (construct_fields a r h).1
    have hds : r.dtstart = { a.dtstart with us := 0 } := (construct_fields a r h).2.2.2.2.2.2.1
    have hv' : r.dtstart.Valid := by
      rw [hds]; unfold DT.Valid at hv ⊢; dsimp only
      exact ⟨hv.1, hv.2.1, hv.2.2.1, hv.2.2.2.1, hv.2.2.2.2.1, hv.2.2.2.2.2.1, hv.2.2.2.2.2.2.1, by omega, by omega⟩
    have hfr' : 4 ≤ r.freq ∧ r.freq ≤ 6 := by omega
    have hu : 1 ≤ unitSecs r := by
      unfold unitSecs
      split
      · omega
      · split <;> omega
    unfold iter
    split
    · exact List.Pairwise.nil
    · rename_i st hinit
      have inv := init_subInv r ok hfr' hv' st hinit
      refine (run_pairwise r (SubInv r) (loSub r) ?_ ?_ ?_ n st inv).1
      · intro st inv x hx; exact ((sub_items r hfr' st inv).1 x hx).1
      · intro st inv; exact (sub_items r hfr' st inv).2
      · intro st st' inv hst
        obtain ⟨inv', hle⟩ := sub_next r ok hfr' st st' inv hst
        refine ⟨inv', by omega, ?_⟩
        intro x hx
        have := ((sub_items r hfr' st inv).1 x hx).2
        omega

end RRule
