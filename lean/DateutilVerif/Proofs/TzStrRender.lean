/-
  Proofs/TzStrRender.lean — from the STRING to the zone: `tzstr (render sp) posix` for every
  well-formed spelling, and the POSIX spec it denotes.
-/
import DateutilVerif.Proofs.TzStrParseAll
import DateutilVerif.Proofs.TzStrDefs
import DateutilVerif.Spec.Posix

namespace TzStr
open Posix

def RuleSp.rule : RuleSp → Rule
  | .M m w d => .M m.val w.val d.val
  | .J n => .J n.val
  | .N n => .N n.val

theorem attr_eq_attrOf (r : RuleSp) (t : Option Int) : r.attr t = C08.attrOf r.rule t := by
  cases r <;> rfl

/-- `delta` reads the time only through its default -/
theorem delta_time_default (x : Attr) (isend : Bool) (s d : Int) :
    delta { x with time := some (x.time.getD 7200) } isend s d = delta x isend s d := by
  unfold delta
  simp

/-- the sign flip of `tzstr.__init__` for GMT / UTC -/
def flipOf (sp : Spelling) (posix : Bool) : Bool := (sp.std == "GMT" || sp.std == "UTC") && !posix

def Spelling.stdVal (sp : Spelling) (posix : Bool) : Int :=
  if flipOf sp posix then sp.stdOff.val * (-1) else sp.stdOff.val

def Spelling.dstVal (sp : Spelling) (posix : Bool) : Int :=
  match sp.dstOff with
  | some o => o.val
  | none => sp.stdVal posix + 3600

/-- the POSIX specification a spelling denotes -/
def specOf (sp : Spelling) (posix : Bool) : Spec :=
  { stdOff := sp.stdVal posix, dstOff := sp.dstVal posix,
    startRule := sp.startRule.rule, startTime := (sp.startTime.map TimeSp.val).getD 7200,
    endRule := sp.endRule.rule, endTime := (sp.endTime.map TimeSp.val).getD 7200 }

/-- **tzstr_render (partial).**  For every well-formed spelling — arbitrary letter abbreviations,
    optional sign, each of the three offset spellings for the standard and the optional daylight
    offset, `Mm.w.d` / `Jn` / `n` rules with arbitrary digit tokens, optional `/time` in each of its
    four spellings — `tzstr` of the rendered STRING succeeds and builds the zone of the POSIX spec
    `specOf`.  Hypotheses beyond `WellFormed`: the offsets are representable timedeltas (`tdCheck`;
    true for all digit tokens of the stated lengths) and the two `_delta` constructions succeed with
    a truthy start delta (always true for `Mm.w.d` rules: `delta_M`; for `Jn` / `n` it needs the day
    number in range, which is the `ydayidx` scan and is left as a hypothesis). -/
theorem tzstr_render_partial (sp : Spelling) (posix : Bool) (wf : WellFormed sp)
    (hb1 : tdCheck (sp.stdVal posix) = .ok ()) (hb2 : tdCheck (sp.dstVal posix) = .ok ())
    (sd ed : Delta)
    (hsd : delta (sp.startRule.attr (sp.startTime.map TimeSp.val)) false (sp.stdVal posix) (sp.dstVal posix) = .ok sd)
    (htr : sd.truthy = true)
    (hed : delta (sp.endRule.attr (sp.endTime.map TimeSp.val)) true (sp.stdVal posix) (sp.dstVal posix) = .ok ed) :
    ∃ z, tzstr (render sp) posix = .ok z ∧ z.hasdst = true ∧ z.stdOff = (specOf sp posix).stdOff ∧
      z.dstOff = (specOf sp posix).dstOff ∧ z.start = some sd ∧ z.«end» = some ed ∧
      delta (C08.attrOf (specOf sp posix).startRule (some (specOf sp posix).startTime)) false
        (specOf sp posix).stdOff (specOf sp posix).dstOff = .ok sd ∧
      delta (C08.attrOf (specOf sp posix).endRule (some (specOf sp posix).endTime)) true
        (specOf sp posix).stdOff (specOf sp posix).dstOff = .ok ed ∧
      z.stdAbbr = some sp.std ∧ z.dstAbbr = some sp.dst := by
  have hdne := isEmpty_false_of sp.dst wf.dst.1
  have hstd : (if flipOf sp posix then (some sp.stdOff.val).map (· * (-1)) else some sp.stdOff.val)
      = some (sp.stdVal posix) := by
    unfold Spelling.stdVal; split <;> rfl
  refine ⟨{ stdAbbr := some sp.std, dstAbbr := some sp.dst, stdOff := sp.stdVal posix, dstOff := sp.dstVal posix,
            start := some sd, «end» := some ed, hasdst := true }, ?_, rfl, rfl, rfl, rfl, rfl, ?_, ?_, rfl, rfl⟩
  · unfold tzstr
    rw [parse_render sp wf]
    simp only [bind, Except.bind, Spelling.res, Bool.false_eq_true, if_false]
    have hflip : ((some sp.std == some "GMT" || some sp.std == some "UTC") && !posix) = flipOf sp posix := by
      unfold flipOf; simp
    simp only [hflip, hstd, Option.getD_some, hb1, hdne, Bool.not_false, Option.isSome_some, Bool.and_self]
    cases hd : sp.dstOff with
    | none =>
        have e : sp.dstVal posix = sp.stdVal posix + 3600 := by unfold Spelling.dstVal; rw [hd]
        simp only [Option.map_none, if_true, pure, Except.pure, Bool.not_true, Bool.false_eq_true, if_false, ← e,
          hsd, htr, hed]
    | some o =>
        have e : sp.dstVal posix = o.val := by unfold Spelling.dstVal; rw [hd]
        simp only [Option.map_some, ← e, hb2, pure, Except.pure, Bool.not_true, Bool.false_eq_true, if_false, ← e,
          hsd, htr, hed]
  · show delta (C08.attrOf sp.startRule.rule (some ((sp.startTime.map TimeSp.val).getD 7200))) false
      (sp.stdVal posix) (sp.dstVal posix) = .ok sd
    rw [← attr_eq_attrOf]
    have e : sp.startRule.attr (some ((sp.startTime.map TimeSp.val).getD 7200)) =
        { (sp.startRule.attr (sp.startTime.map TimeSp.val)) with
          time := some ((sp.startRule.attr (sp.startTime.map TimeSp.val)).time.getD 7200) } := by
      cases sp.startRule <;> rfl
    rw [e, delta_time_default]; exact hsd
  · show delta (C08.attrOf sp.endRule.rule (some ((sp.endTime.map TimeSp.val).getD 7200))) true
      (sp.stdVal posix) (sp.dstVal posix) = .ok ed
    rw [← attr_eq_attrOf]
    have e : sp.endRule.attr (some ((sp.endTime.map TimeSp.val).getD 7200)) =
        { (sp.endRule.attr (sp.endTime.map TimeSp.val)) with
          time := some ((sp.endRule.attr (sp.endTime.map TimeSp.val)).time.getD 7200) } := by
      cases sp.endRule <;> rfl
    rw [e, delta_time_default]; exact hed

/-- for `Mm.w.d` rules the `_delta` hypotheses hold outright -/
theorem delta_M (m w d : Num) (t : Option Int) (isend : Bool) (s dd : Int) :
    ∃ x, delta ((RuleSp.M m w d).attr t) isend s dd = .ok x ∧ x.truthy = true := by
  refine ⟨_, rfl, ?_⟩
  simp [Delta.truthy]

end TzStr
