/- Proofs/IsoDatetime.lean — the inverse law stated on datetimes: the fields every form shows for a valid
   datetime (isocalendar / yday / six microsecond digits) are well-formed and denote the datetime truncated
   to the form's precision. -/
import DateutilVerif.Proofs.IsoSound
set_option linter.unusedSimpArgs false
namespace Iso
open Cal IsoSpec Py

/-- the ISO year of a date in 0001..9999 is in 1..9999 -/
theorem isoYear_range (y m d : Int) (hv : ValidDate y m d) :
    1 ≤ (isoCalendar y m d).1 ∧ (isoCalendar y m d).1 ≤ 9999 := by
  obtain ⟨e, w1', w53, d1, d7, hs⟩ := weekdate_roundtrip y m d hv.2.2
  have hp := toOrdinal_pos y m d hv.1 hv.2.2
  have hm := toOrdinal_le_max y m d hv
  generalize (isoCalendar y m d).1 = iy at *
  generalize (isoCalendar y m d).2.1 = w at *
  generalize (isoCalendar y m d).2.2 = wd at *
  have st := w1_step iy
  unfold isoWeeksInYear at hs
  have fa := w1_facts iy
  have fb := w1_facts (iy + 1)
  constructor
  · by_cases c : 1 ≤ iy
    · exact c
    · exfalso
      by_cases c0 : iy = 0
      · subst c0
        have : isoWeek1Monday (0 + 1) = 1 := by decide
        omega
      · have := dby_mono (iy + 1) 0 (by omega)
        have e0 : daysBeforeYear 0 = -366 := by decide
        omega
  · by_cases c : iy ≤ 9999
    · exact c
    · exfalso
      unfold maxOrdinal at hm
      by_cases c0 : iy = 10000
      · subst c0
        have : isoWeek1Monday 10000 = 3652062 := by decide
        omega
      · have := dby_mono 10001 iy (by omega)
        have e0 : daysBeforeYear 10001 = 3652425 := by decide
        omega

/-- the fields a date form shows for the date `y-m-d` -/
def dateFieldsOf (df : DateForm) (y m d : Int) : Fields :=
  match df with
  | .weekExtD | .weekBasD | .weekExt | .weekBas =>
      { year := (isoCalendar y m d).1.toNat, a := (isoCalendar y m d).2.1.toNat, b := (isoCalendar y m d).2.2.toNat }
  | .ordExt | .ordBas => { year := y.toNat, a := (yday y m d).toNat }
  | _ => { year := y.toNat, a := m.toNat, b := d.toNat }

theorem dateFieldsOf_ok (df : DateForm) (hc : df.complete = true) (y m d : Int) (hv : ValidDate y m d) :
    dateWF true df (dateFieldsOf df y m d) = true ∧
    dateOrdinal df (dateFieldsOf df y m d) = toOrdinal y m d := by
  obtain ⟨hy1, hy2, hymd⟩ := hv
  have hv : ValidDate y m d := ⟨hy1, hy2, hymd⟩
  obtain ⟨m1, m12, d1, dd⟩ := hymd
  have hb := daysInMonth_bounds y m
  cases df <;> simp only [DateForm.complete] at hc <;> try (exact absurd hc (by decide))
  · -- calExt
    have ey : ((y.toNat : Nat) : Int) = y := Int.toNat_of_nonneg (by omega)
    have em : ((m.toNat : Nat) : Int) = m := Int.toNat_of_nonneg (by omega)
    have ed : ((d.toNat : Nat) : Int) = d := Int.toNat_of_nonneg (by omega)
    simp only [dateFieldsOf, dateWF, dateOrdinal, decide_eq_true_eq, ey, em, ed]
    exact ⟨hv, trivial⟩
  · have ey : ((y.toNat : Nat) : Int) = y := Int.toNat_of_nonneg (by omega)
    have em : ((m.toNat : Nat) : Int) = m := Int.toNat_of_nonneg (by omega)
    have ed : ((d.toNat : Nat) : Int) = d := Int.toNat_of_nonneg (by omega)
    simp only [dateFieldsOf, dateWF, dateOrdinal, decide_eq_true_eq, ey, em, ed]
    exact ⟨hv, trivial⟩
  · -- weekExtD
    obtain ⟨e, w1', w53, wd1, wd7, hs⟩ := weekdate_roundtrip y m d hv.2.2
    obtain ⟨i1, i2⟩ := isoYear_range y m d hv
    have e1 : (((isoCalendar y m d).1.toNat : Nat) : Int) = (isoCalendar y m d).1 := Int.toNat_of_nonneg (by omega)
    have e2 : (((isoCalendar y m d).2.1.toNat : Nat) : Int) = (isoCalendar y m d).2.1 := Int.toNat_of_nonneg (by omega)
    have e3 : (((isoCalendar y m d).2.2.toNat : Nat) : Int) = (isoCalendar y m d).2.2 := Int.toNat_of_nonneg (by omega)
    simp only [dateFieldsOf, dateWF, dateOrdinal, decide_eq_true_eq, Bool.and_eq_true, Bool.or_eq_true,
      Bool.not_eq_true', e1, e2, e3]
    exact ⟨⟨decide_eq_true (by omega), Or.inr hs⟩, e⟩
  · obtain ⟨e, w1', w53, wd1, wd7, hs⟩ := weekdate_roundtrip y m d hv.2.2
    obtain ⟨i1, i2⟩ := isoYear_range y m d hv
    have e1 : (((isoCalendar y m d).1.toNat : Nat) : Int) = (isoCalendar y m d).1 := Int.toNat_of_nonneg (by omega)
    have e2 : (((isoCalendar y m d).2.1.toNat : Nat) : Int) = (isoCalendar y m d).2.1 := Int.toNat_of_nonneg (by omega)
    have e3 : (((isoCalendar y m d).2.2.toNat : Nat) : Int) = (isoCalendar y m d).2.2 := Int.toNat_of_nonneg (by omega)
    simp only [dateFieldsOf, dateWF, dateOrdinal, decide_eq_true_eq, Bool.and_eq_true, Bool.or_eq_true,
      Bool.not_eq_true', e1, e2, e3]
    exact ⟨⟨decide_eq_true (by omega), Or.inr hs⟩, e⟩
  · -- ordExt
    have ⟨o1, o2⟩ := ordinal_in_year y m d hv.2.2
    have s := daysBeforeYear_succ y
    have hyd : yday y m d = toOrdinal y m d - daysBeforeYear y := by unfold yday toOrdinal; omega
    have ey : ((y.toNat : Nat) : Int) = y := Int.toNat_of_nonneg (by omega)
    have ea : (((yday y m d).toNat : Nat) : Int) = yday y m d := Int.toNat_of_nonneg (by omega)
    have hdy : daysInYear y = daysBeforeYear (y + 1) - daysBeforeYear y := by omega
    simp only [dateFieldsOf, dateWF, dateOrdinal, decide_eq_true_eq, ey, ea, toOrdinal_jan]
    exact ⟨by omega, by omega⟩
  · have ⟨o1, o2⟩ := ordinal_in_year y m d hv.2.2
    have s := daysBeforeYear_succ y
    have hyd : yday y m d = toOrdinal y m d - daysBeforeYear y := by unfold yday toOrdinal; omega
    have ey : ((y.toNat : Nat) : Int) = y := Int.toNat_of_nonneg (by omega)
    have ea : (((yday y m d).toNat : Nat) : Int) = yday y m d := Int.toNat_of_nonneg (by omega)
    have hdy : daysInYear y = daysBeforeYear (y + 1) - daysBeforeYear y := by omega
    simp only [dateFieldsOf, dateWF, dateOrdinal, decide_eq_true_eq, ey, ea, toOrdinal_jan]
    exact ⟨by omega, by omega⟩


/-- the six decimal digits of a microsecond value -/
def digits6 (us : Nat) : List Nat :=
  [us / 100000 % 10, us / 10000 % 10, us / 1000 % 10, us / 100 % 10, us / 10 % 10, us % 10]

/-- rendering `k ≤ 6` fraction digits truncates the microseconds to that precision -/
theorem fracMicros_take (us k : Nat) (hus : us < 1000000) (h1 : 1 ≤ k) (h6 : k ≤ 6) :
    fracMicros ((digits6 us).take k) = us - us % 10 ^ (6 - k) := by
  have : k = 1 ∨ k = 2 ∨ k = 3 ∨ k = 4 ∨ k = 5 ∨ k = 6 := by omega
  rcases this with rfl | rfl | rfl | rfl | rfl | rfl <;> simp [fracMicros, digits6] <;> omega

/-- digits beyond the sixth are ignored -/
theorem fracMicros_extra (us : Nat) (extra : List Nat) (hus : us < 1000000) :
    fracMicros (digits6 us ++ extra) = us := by
  simp [fracMicros, digits6]; omega

/-- the fields a form shows for the datetime `t`, with fraction digits `frac` and offset fields `xo` -/
def dtFields (df : DateForm) (t : DT) (frac : List Nat) (xo : Fields) : Fields :=
  mergeF (dateFieldsOf df t.y t.m t.d)
    { year := 0, hh := t.hh.toNat, mm := t.mm.toNat, ss := t.ss.toNat, frac := frac } xo

/-- `t` truncated to what the time form shows -/
def truncDT (tf : TimeForm) (frac : List Nat) (t : DT) : DT :=
  { t with mm := if tf.hasM then t.mm else 0, ss := if tf.hasS then t.ss else 0,
           us := if tf.hasFrac then (fracMicros frac : Nat) else 0 }

theorem isoparse_inverts_datetime_core (t : DT) (ht : t.Valid) (df : DateForm) (hc : df.complete = true)
    (tf : TimeForm) (htf : tf ≠ .none) (frac : List Nat)
    (hfrac : tf.hasFrac = true → frac ≠ [] ∧ ∀ d ∈ frac, d ≤ 9)
    (o : OffForm) (xo : Fields) (how : offWF o xo = true) (sep : Nat) (hsep : df = .ordBas → isDigit sep = false)
    (cfg : Option Nat) (hcfg : cfg = none ∨ cfg = some sep) :
    isoparse cfg (render ⟨df, tf, o, sep⟩ (dtFields df t frac xo)) =
      .ok ⟨truncDT tf frac t, offDenote o xo⟩ := by
  obtain ⟨hv, a1, a2, a3, a4, a5, a6, a7, a8⟩ := ht
  obtain ⟨hwf, hord⟩ := dateFieldsOf_ok df hc t.y t.m t.d hv
  have hfo := fromOrdinal_toOrdinal t.y t.m t.d hv.1 hv.2.2
  have hd : UncommonOK df (dateFieldsOf df t.y t.m t.d) (t.y, t.m, t.d) [] :=
    ⟨hwf, by rw [hord]; exact toOrdinal_pos _ _ _ hv.1 hv.2.2, by rw [hord]; exact toOrdinal_le_max _ _ _ hv,
     by rw [hord, hfo], fun hn => by rw [hc] at hn⟩
  obtain ⟨xt, hxt⟩ : ∃ xt : Fields,
      xt = { year := 0, hh := t.hh.toNat, mm := t.mm.toNat, ss := t.ss.toNat, frac := frac } := ⟨_, rfl⟩
  have hdt : dtFields df t frac xo = mergeF (dateFieldsOf df t.y t.m t.d) xt xo := by rw [hxt]; rfl
  have hscan : TimeScan tf xt := by
    rw [hxt]
    exact ⟨htf, by show t.hh.toNat < 100; omega, by show t.mm.toNat < 100; omega,
      by show t.ss.toNat < 100; omega, hfrac⟩
  have hsh1 : (timeShown tf xt).1 = t.hh.toNat := by
    rw [hxt]; cases tf <;> first | exact absurd rfl htf | rfl
  have hsh2 : (timeShown tf xt).2.1 = if tf.hasM then t.mm.toNat else 0 := by rw [hxt]; rfl
  have hsh3 : (timeShown tf xt).2.2.1 = if tf.hasS then t.ss.toNat else 0 := by rw [hxt]; rfl
  have hsh4 : (timeShown tf xt).2.2.2 = if tf.hasFrac then fracMicros frac else 0 := by rw [hxt]; rfl
  have hW := final_time df _ tf xt o xo sep t.y t.m t.d [] hd hc hscan how
    (Or.inl ⟨by rw [hsh1]; omega, by rw [hsh2]; split <;> omega, by rw [hsh3]; split <;> omega⟩)
  rw [hdt]
  have hr := isoparse_render_core ⟨df, tf, o, sep⟩ _ cfg hW (fun _ h => hsep h) hcfg
  rw [hr]
  congr 1
  have h24 : ¬ (timeShown tf xt).1 = 24 := by rw [hsh1]; omega
  have hden : denoteOrdinal ⟨df, tf, o, sep⟩ (mergeF (dateFieldsOf df t.y t.m t.d) xt xo) = toOrdinal t.y t.m t.d := by
    rw [denoteOrdinal_merge, if_neg h24, hord]; omega
  simp only [denote, hden, timeShown_merge, offDenote_merge, hfo, truncDT]
  have h24' : ¬ t.hh.toNat = 24 := by omega
  have e1 : ((t.hh.toNat : Nat) : Int) = t.hh := Int.toNat_of_nonneg a1
  have e2 : ((t.mm.toNat : Nat) : Int) = t.mm := Int.toNat_of_nonneg a3
  have e3 : ((t.ss.toNat : Nat) : Int) = t.ss := Int.toNat_of_nonneg a5
  simp only [hsh1, hsh2, hsh3, hsh4, h24', if_false, e1]
  cases t
  simp only at *
  cases hM : tf.hasM <;> cases hS : tf.hasS <;> cases hF : tf.hasFrac <;> simp [e2, e3]
end Iso
