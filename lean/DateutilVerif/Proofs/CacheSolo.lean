/-
  Proofs/CacheSolo.lean — one thread of the cached-iterator machine run alone while every other
  thread is parked outside the critical section (the single-threaded use of a cached rule:
  queries run to completion, `next()` calls on kept iterators).  Used by the histories of C10.
-/
import DateutilVerif.Proofs.CacheGlobal

namespace Cache
open Queries Py

@[simp] theorem finish_q (sh : Shared) (it : Iter) : (finish sh it).q = it.q := rfl
@[simp] theorem finish_yielded (sh : Shared) (it : Iter) : (finish sh it).yielded = it.yielded := rfl
@[simp] theorem crashWith_q (it : Iter) (e : PyErr) : (crashWith it e).q = it.q := rfl
@[simp] theorem crashWith_yielded (it : Iter) (e : PyErr) : (crashWith it e).yielded = it.yielded := rfl
@[simp] theorem receive_q (sh : Shared) (it : Iter) (x : Int) (n : PC) : (receive sh it x n).q = it.q := by
  unfold receive; simp only []; split <;> rfl
@[simp] theorem receive_yielded (sh : Shared) (it : Iter) (x : Int) (n : PC) :
    (receive sh it x n).yielded = it.yielded ++ [x] := by
  unfold receive; simp only []; split <;> rfl

theorem receive_pc (sh : Shared) (it : Iter) (x : Int) (n : PC) :
    (receive sh it x n).pc = n ∨ (receive sh it x n).pc = .done := by
  unfold receive; simp only []; split
  · right; rfl
  · left; rfl

theorem receive_parked (sh : Shared) (it : Iter) (x : Int) (n : PC) (hn : n.inCrit = false) :
    (receive sh it x n).pc.inCrit = false := by
  rcases receive_pc sh it x n with e | e <;> rw [e]
  · exact hn
  · rfl

/-- after a `yield` the thread is outside the critical section -/
theorem yield_parked {sh sh' : Shared} {t : Tid} {it it' : Iter}
    (h : stepIter sh t it = some (sh', it')) (hpc : it.pc = .l145 ∨ it.pc = .l148 ∨ it.pc = .listIter) :
    it'.pc.inCrit = false := by
  unfold stepIter at h
  rcases hpc with hpc | hpc | hpc <;> rw [hpc] at h <;> simp only [Option.some.injEq, Prod.mk.injEq] at h <;>
    obtain ⟨_, rfl⟩ := h
  · split
    · exact receive_parked _ _ _ _ rfl
    · rfl
  · split
    · exact receive_parked _ _ _ _ rfl
    · rfl
  · split
    · rfl
    · exact receive_parked _ _ _ _ rfl

/-- a statement never changes the consumer's query, and changes what it has received only by
    appending one value at a `yield` (lines 145, 148, or the list iterator) -/
theorem stepIter_q {sh sh' : Shared} {t : Tid} {it it' : Iter}
    (h : stepIter sh t it = some (sh', it')) :
    it'.q = it.q ∧ (it'.yielded = it.yielded ∨
      (∃ x, it'.yielded = it.yielded ++ [x] ∧ (it.pc = .l145 ∨ it.pc = .l148 ∨ it.pc = .listIter))) := by
  unfold stepIter at h
  split at h
  all_goals rename_i hpc
  all_goals try (
    simp only [Option.some.injEq, Prod.mk.injEq] at h
    obtain ⟨_, rfl⟩ := h
    refine ⟨by (repeat' split) <;> simp, ?_⟩
    (repeat' split) <;> simp [hpc])
  · split at h
    · cases h
    · simp only [Option.some.injEq, Prod.mk.injEq] at h
      obtain ⟨_, rfl⟩ := h
      simp
  · unfold step138 at h
    split at h
    · simp only [Option.some.injEq, Prod.mk.injEq] at h
      obtain ⟨_, rfl⟩ := h
      simp
    · split at h
      · simp only [Option.some.injEq, Prod.mk.injEq] at h
        obtain ⟨_, rfl⟩ := h
        simp
      · split at h <;> (
          simp only [Option.some.injEq, Prod.mk.injEq] at h
          obtain ⟨_, rfl⟩ := h
          simp [raiseTo])
  · cases h

/-- thread `t` may run: the invariant holds and every OTHER thread is outside the critical section -/
structure Solo (s : State) (t : Tid) : Prop where
  inv : Inv s
  parked : ∀ (t' : Tid) (it' : Iter), t' ≠ t → s.its[t']? = some it' → it'.pc.inCrit = false

theorem solo_enabled {s : State} {t : Tid} {it : Iter} (hs : Solo s t) (hit : s.its[t]? = some it)
    (hnd : it.pc ≠ .done) : ∃ s', step s t = some s' := by
  unfold step
  rw [hit]
  simp only []
  cases hst : stepIter s.sh t it with
  | some p => exact ⟨_, rfl⟩
  | none =>
    exfalso
    rcases stepIter_none hst with hd | ⟨h132, hl⟩
    · exact hnd hd
    · cases hlock : s.sh.lock with
      | none => exact hl hlock
      | some o =>
        obtain ⟨ito, hito⟩ := hs.inv.owner o hlock
        have hcrit := (hs.inv.lockinv o ito hito).mpr hlock
        by_cases e : o = t
        · subst e
          rw [hit] at hito; cases hito
          rw [h132] at hcrit; simp [PC.inCrit] at hcrit
        · rw [hs.parked o ito e hito] at hcrit; cases hcrit

theorem solo_step {s s' : State} {t : Tid} (hs : Solo s t) (h : step s t = some s') :
    Solo s' t ∧ s'.sh.src = s.sh.src ∧ s'.its.length = s.its.length ∧
    (∀ t', t' ≠ t → s'.its[t']? = s.its[t']?) ∧
    (∀ it, s.its[t]? = some it → ∃ it', s'.its[t]? = some it' ∧ it'.q = it.q ∧
        mu s.sh.src.length it' < mu s.sh.src.length it ∧
        (it'.yielded = it.yielded ∨ (∃ x, it'.yielded = it.yielded ++ [x] ∧ it'.pc.inCrit = false))) := by
  have hi' := inv_step' hs.inv h
  have hsrc := (measure_step hs.inv h).2
  obtain ⟨it, sh', it', hit, hst, rfl⟩ := step_eq h
  have hother : ∀ t', t' ≠ t → (s.its.set t it')[t']? = s.its[t']? :=
    fun t' e => List.getElem?_set_ne (Ne.symm e)
  refine ⟨⟨hi', ?_⟩, hsrc, by simp, hother, ?_⟩
  · intro t' it2 e h2
    simp only [] at h2
    rw [hother t' e] at h2
    exact hs.parked t' it2 e h2
  · intro it0 hit0
    rw [hit] at hit0; cases hit0
    have hq := stepIter_q hst
    refine ⟨it', getElem?_set_self' hit, hq.1, stepIter_mu hst hs.inv.sinv (hs.inv.linv t it hit), ?_⟩
    rcases hq.2 with h | ⟨x, hx, hpc⟩
    · exact Or.inl h
    · exact Or.inr ⟨x, hx, yield_parked hst hpc⟩

/-- adding a thread that has not started keeps the invariant -/
theorem inv_add {s : State} (hi : Inv s) (q : Query) :
    Inv { s with its := s.its ++ [{ q := q }] } := by
  have hget : ∀ (t : Tid) (it : Iter), (s.its ++ [({ q := q } : Iter)])[t]? = some it →
      s.its[t]? = some it ∨ (t = s.its.length ∧ it = { q := q }) := by
    intro t it h
    by_cases hlt : t < s.its.length
    · rw [List.getElem?_append_left hlt] at h; exact Or.inl h
    · have hge : s.its.length ≤ t := Nat.le_of_not_lt hlt
      rw [List.getElem?_append_right hge] at h
      by_cases e : t - s.its.length = 0
      · rw [e] at h; simp at h; exact Or.inr ⟨Nat.le_antisymm (Nat.le_of_sub_eq_zero e) hge, h.symm⟩
      · have : ([({ q := q } : Iter)])[t - s.its.length]? = none := by
          apply List.getElem?_eq_none
          simp only [List.length_cons, List.length_nil]
          exact Nat.pos_of_ne_zero e
        rw [this] at h; cases h
  refine ⟨hi.sinv, ?_, ?_, ?_⟩
  · intro t it h
    rcases hget t it h with h | ⟨_, rfl⟩
    · exact hi.linv t it h
    · exact ⟨rfl, rfl, rfl⟩
  · intro t it h
    rcases hget t it h with h | ⟨rfl, rfl⟩
    · exact hi.lockinv t it h
    · simp only [PC.inCrit, Bool.false_eq_true, false_iff]
      intro hl
      obtain ⟨ito, hito⟩ := hi.owner _ hl
      rw [List.getElem?_eq_none (Nat.le_refl _)] at hito; cases hito
  · intro t hl
    obtain ⟨ito, hito⟩ := hi.owner t hl
    have hlt : t < s.its.length := by
      by_cases hc : t < s.its.length
      · exact hc
      · rw [List.getElem?_eq_none (Nat.le_of_not_lt hc)] at hito; cases hito
    exact ⟨ito, by simp only []; rw [List.getElem?_append_left hlt]; exact hito⟩

/-- adding any thread that satisfies its own invariant and is outside the critical section keeps the invariant -/
theorem inv_add_iter {s : State} (hi : Inv s) (it0 : Iter) (hl0 : LInv s.sh it0) (hp0 : it0.pc.inCrit = false) :
    Inv { s with its := s.its ++ [it0] } := by
  have hget : ∀ (t : Tid) (it : Iter), (s.its ++ [it0])[t]? = some it →
      s.its[t]? = some it ∨ (t = s.its.length ∧ it = it0) := by
    intro t it h
    by_cases hlt : t < s.its.length
    · rw [List.getElem?_append_left hlt] at h; exact Or.inl h
    · have hge : s.its.length ≤ t := Nat.le_of_not_lt hlt
      rw [List.getElem?_append_right hge] at h
      by_cases e : t - s.its.length = 0
      · rw [e] at h; simp at h; exact Or.inr ⟨Nat.le_antisymm (Nat.le_of_sub_eq_zero e) hge, h.symm⟩
      · have : ([it0])[t - s.its.length]? = none := by
          apply List.getElem?_eq_none
          simp only [List.length_cons, List.length_nil]
          exact Nat.pos_of_ne_zero e
        rw [this] at h; cases h
  refine ⟨hi.sinv, ?_, ?_, ?_⟩
  · intro t it h
    rcases hget t it h with h | ⟨_, rfl⟩
    · exact hi.linv t it h
    · exact hl0
  · intro t it h
    rcases hget t it h with h | ⟨rfl, rfl⟩
    · exact hi.lockinv t it h
    · rw [hp0]
      simp only [Bool.false_eq_true, false_iff]
      intro hl
      obtain ⟨ito, hito⟩ := hi.owner _ hl
      rw [List.getElem?_eq_none (Nat.le_refl _)] at hito; cases hito
  · intro t hl
    obtain ⟨ito, hito⟩ := hi.owner t hl
    have hlt : t < s.its.length := by
      by_cases hc : t < s.its.length
      · exact hc
      · rw [List.getElem?_eq_none (Nat.le_of_not_lt hc)] at hito; cases hito
    exact ⟨ito, by simp only []; rw [List.getElem?_append_left hlt]; exact hito⟩

/-- every thread's measure is below the fuel the history machine gives it -/
theorem mu_bound {sh : Shared} {it : Iter} (hs : SInv sh) (hl : LInv sh it) :
    mu sh.src.length it ≤ (sh.src.length + 1) * 40 + 46 := by
  obtain ⟨_, hl⟩ := hl
  have e3 := hs.cache_len_le
  unfold mu
  cases hpc : it.pc <;> rw [hpc] at hl <;> simp only [] at hl ⊢
  case listIter =>
    have : (it.yielded ++ it.pending).length = sh.src.length := by rw [hl.1]
    simp only [List.length_append] at this
    omega
  all_goals omega

end Cache
