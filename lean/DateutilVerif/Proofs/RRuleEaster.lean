/-
  Proofs/RRuleEaster.lean — the BYEASTER mask of `_iterinfo.rebuild`, on the supported class
  (offsets −80..250, years 1583..4099 where C19 ties `easter.easter` to Meeus/Jones/Butcher):
  no index wraps or overflows, and `eastermask[j] = 1` exactly when the date at index `j` is
  Easter Sunday of that year plus one of the offsets.
-/
import DateutilVerif.Proofs.RRuleDayset
import DateutilVerif.Properties.C19
import DateutilVerif.Spec.RRule

namespace RRule
open Cal

theorem getIdx_int (l : List Int) (j : Int) (h0 : 0 ≤ j) (h1 : j < l.length) :
    Py.getIdx l j = .ok (l[j.toNat]'(by omega)) := by
  unfold Py.getIdx
  dsimp only
  rw [if_neg (show ¬ j < 0 by omega), if_neg (by omega), List.getElem?_eq_getElem (by omega)]

theorem getIdx_set (l : List Int) (k j : Int) (v : Int) (hk : 0 ≤ k ∧ k < l.length) (hj : 0 ≤ j ∧ j < l.length) :
    ∃ l', setIdx l k v = .ok l' ∧ l'.length = l.length ∧
      Py.getIdx l' j = (if j = k then .ok v else Py.getIdx l j) := by
  refine ⟨l.set k.toNat v, ?_, by simp, ?_⟩
  · unfold setIdx; dsimp only
    rw [if_neg (show ¬ k < 0 by omega), if_neg (by omega)]
  · rw [getIdx_int _ j hj.1 (by rw [List.length_set]; exact hj.2), getIdx_int l j hj.1 hj.2, List.getElem_set]
    by_cases c : j = k
    · subst c; rw [if_pos rfl, if_pos rfl]
    · rw [if_neg (by omega), if_neg c]

/-- setting a list of in-range indices to 1 -/
theorem foldl_setIdx (base : Int) : ∀ (offs : List Int) (mask : List Int),
    (∀ o ∈ offs, 0 ≤ base + o ∧ base + o < mask.length) →
    ∃ mask', offs.foldlM (fun m off => setIdx m (base + off) 1) mask = .ok mask' ∧ mask'.length = mask.length ∧
      ∀ j : Int, 0 ≤ j → j < (mask.length : Int) →
        Py.getIdx mask' j = (if (j - base) ∈ offs then .ok 1 else Py.getIdx mask j) := by
  intro offs
  induction offs with
  | nil => intro mask _; exact ⟨mask, rfl, rfl, by intro j _ _; simp⟩
  | cons o os ih =>
    intro mask hb
    have ho := hb o (List.mem_cons_self ..)
    obtain ⟨m1, h1, hl1, _⟩ := getIdx_set mask (base + o) 0 1 ho ⟨by omega, by omega⟩
    obtain ⟨m2, h2, hl2, hg2⟩ := ih m1 (by intro o' ho'; rw [hl1]; exact hb o' (List.mem_cons_of_mem _ ho'))
    refine ⟨m2, ?_, by rw [hl2, hl1], ?_⟩
    · rw [List.foldlM_cons, h1]; exact h2
    · intro j hj0 hj1
      rw [hg2 j hj0 (by rw [hl1]; exact hj1)]
      obtain ⟨m1', h1', _, hg1⟩ := getIdx_set mask (base + o) j 1 ho ⟨hj0, hj1⟩
      rw [h1] at h1'; injection h1' with h1'; subst h1'
      rw [hg1]
      by_cases c1 : (j - base) ∈ os
      · rw [if_pos c1, if_pos (List.mem_cons_of_mem _ c1)]
      · rw [if_neg c1]
        by_cases c2 : j = base + o
        · rw [if_pos c2, if_pos (List.mem_cons.mpr (Or.inl (by omega)))]
        · rw [if_neg c2, if_neg (by
            intro hm; rcases List.mem_cons.mp hm with h | h
            · omega
            · exact c1 h)]

/-- **the Easter mask**: for years 1583..4099 and offsets −80..250 `buildEastermask` succeeds without
    wrap-around, and marks exactly the indices whose date is Easter Sunday + an offset -/
theorem eastermask_spec (byeaster : List Int) (y : Int) (hy1 : 1583 ≤ y) (hy2 : y ≤ 4099)
    (hoff : ∀ o ∈ byeaster, -80 ≤ o ∧ o ≤ 250) :
    ∃ mask, buildEastermask byeaster y (daysInYear y) (toOrdinal y 1 1) = .ok mask ∧
      ∀ j, 0 ≤ j → j < daysInYear y + 7 →
        Py.getIdx mask j = .ok (if (toOrdinal y 1 1 + j - Spec.RRule.easterOrd y) ∈ byeaster then 1 else 0) := by
  have hw := C19.western_eq_mjb y hy1 hy2
  unfold C19.westernOK at hw
  split at hw
  · rename_i y' m d he
    simp only [Bool.and_eq_true, beq_iff_eq, decide_eq_true_eq, Bool.or_eq_true, Prod.mk.injEq] at hw
    obtain ⟨⟨⟨⟨hyy, hmd⟩, hv⟩, _⟩, hrange⟩ := hw
    subst hyy
    have hidx := index_range y' m d hv
    -- Easter lies between 22 March and 25 April: index 80..115
    have hlo : 80 ≤ toOrdinal y' m d - toOrdinal y' 1 1 ∧ toOrdinal y' m d - toOrdinal y' 1 1 ≤ 115 := by
      unfold toOrdinal daysBeforeMonth
      rw [show dbmTable 1 = 0 from rfl]
      rcases hrange with ⟨hm, hd⟩ | ⟨hm, hd⟩
      · subst hm; obtain ⟨_, _, _, hd2⟩ := hv
        have : daysInMonth y' 3 = 31 := by unfold daysInMonth; rfl
        simp only [show dbmTable 3 = 59 from rfl]; split <;> split <;> simp_all <;> omega
      · subst hm; obtain ⟨_, _, hd1, _⟩ := hv
        simp only [show dbmTable 4 = 90 from rfl]; split <;> split <;> simp_all <;> omega
    have hyl : 365 ≤ daysInYear y' := by unfold daysInYear; split <;> omega
    have heo : Spec.RRule.easterOrd y' = toOrdinal y' m d := by
      unfold Spec.RRule.easterOrd; rw [← hmd]
    unfold buildEastermask
    simp only [bind, Except.bind, he]
    have hvd : Cal.validDate y' m d = true := by
      unfold validDate; rw [decide_eq_true_eq]; exact ⟨by omega, by omega, hv⟩
    rw [if_neg (by simp [hvd])]
    have hlen : (List.replicate (daysInYear y' + 7).toNat (0 : Int)).length = (daysInYear y' + 7).toNat := by simp
    obtain ⟨mask, hm1, hm2, hm3⟩ := foldl_setIdx (toOrdinal y' m d - toOrdinal y' 1 1) byeaster
      (List.replicate (daysInYear y' + 7).toNat 0)
      (by intro o ho; have := hoff o ho; rw [hlen]; omega)
    refine ⟨mask, hm1, ?_⟩
    intro j hj0 hj1
    rw [hm3 j hj0 (by rw [hlen]; omega), heo]
    have e : j - (toOrdinal y' m d - toOrdinal y' 1 1) = toOrdinal y' 1 1 + j - toOrdinal y' m d := by omega
    rw [e]
    split
    · rfl
    · unfold Py.getIdx
      dsimp only
      rw [hlen, if_neg (show ¬ j < 0 by omega), if_neg (by omega)]
      rw [List.getElem?_replicate, if_pos (by omega)]
  · cases hw

end RRule
