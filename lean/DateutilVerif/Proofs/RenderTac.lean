/-
  Proofs/RenderTac.lean — the simp set that runs the token scan symbolically, and the facts about the
  fixed (non-numeric) tokens of the renderings under the stock parserinfo.
-/
import DateutilVerif.Proofs.RenderBase

namespace PM
open Py PT

/-- unfold to the dumped tables, then compute -/
macro "tbl" : tactic =>
  `(tactic| (simp only [Info.hmsOf, Info.weekdayOf, Info.monthOf, Info.ampmOf, Info.isJump, Info.isPertain,
                        Info.isUtczone, Info.tzoffsetOf, Info.default, couldBeTzname]; decide))

/-- run `_parse` / `_build_*` symbolically -/
macro "psimp" "[" ts:Lean.Parser.Tactic.simpLemma,* "]" : tactic =>
  `(tactic| simp +decide [parseResult, parseTokens, parseTry, parseLoop, parseStep, parseNumericToken, findHmsIdx,
      numHourMin, numSix, numEight, numHms, numColon, numSep, numJump, numAmpmOrDay, dayOrFail, sepSecond, sepThird,
      stepMonth, stepAmpm, stepTzname, stepTzoffset, tzOffsetDigits, tzParenName, assignHms, ampmValid, adjustAmpm,
      Ymd.appendTok, Ymd.appendDec, Ymd.appendNat, Ymd.appendCore, Ymd.couldBeDay, Ymd.resolve, Ymd.resolveRest,
      Ymd.resolveFromStridxs, completeStrids, Ymd.strids, Ymd.nlab, Ymd.at, getIdx, monthrange,
      validate, recombineSkipped, buildNaive, clipDay, dtReplace, shiftBareWeekday, weekdayShift, buildTzaware,
      fixedZone, nameTruthy, Res.len, fieldOr, fieldBig, intMax, tk,
      tokAt, tokIs, hmsAtIs, Except.map, bind, Except.bind, pure, Except.pure, throw, throwThe, MonadExceptOf.throw,
      parseMinSec_int, rem1_int, convertyear_cs, pyInt_dtok, Dec.gtNat, Dec.ltNat, Dec.geNat, Dec.leNat,
      isAsciiDigit, $ts,*])

/-- the same, also using every hypothesis -/
macro "psimpa" "[" ts:Lean.Parser.Tactic.simpLemma,* "]" : tactic =>
  `(tactic| simp +decide [parseResult, parseTokens, parseTry, parseLoop, parseStep, parseNumericToken, findHmsIdx,
      numHourMin, numSix, numEight, numHms, numColon, numSep, numJump, numAmpmOrDay, dayOrFail, sepSecond, sepThird,
      stepMonth, stepAmpm, stepTzname, stepTzoffset, tzOffsetDigits, tzParenName, assignHms, ampmValid, adjustAmpm,
      Ymd.appendTok, Ymd.appendDec, Ymd.appendNat, Ymd.appendCore, Ymd.couldBeDay, Ymd.resolve, Ymd.resolveRest,
      Ymd.resolveFromStridxs, completeStrids, Ymd.strids, Ymd.nlab, Ymd.at, getIdx, monthrange,
      validate, recombineSkipped, buildNaive, clipDay, dtReplace, shiftBareWeekday, weekdayShift, buildTzaware,
      fixedZone, nameTruthy, Res.len, fieldOr, fieldBig, intMax, tk,
      tokAt, tokIs, hmsAtIs, Except.map, bind, Except.bind, pure, Except.pure, throw, throwThe, MonadExceptOf.throw,
      parseMinSec_int, rem1_int, convertyear_cs, pyInt_dtok, Dec.gtNat, Dec.ltNat, Dec.geNat, Dec.leNat,
      isAsciiDigit, $ts,*, *])

/-! ### fixed tokens under the stock parserinfo -/
section
variable (df yf : Bool) (year century : Int)
local notation "I" => Info.default df yf year century

-- separators that are jump words: ` `, `-`, `/`, `.`, `,`, `T`
theorem jump_facts (t : Token) (h : t ∈ [[' '], ['-'], ['/'], ['.'], [','], ['T'], ['t']]) :
    (I).weekdayOf t = none ∧ (I).monthOf t = none ∧ (I).ampmOf t = none ∧ (I).hmsOf t = none ∧ (I).isJump t = true := by
  simp only [List.mem_cons, List.mem_nil_iff, or_false] at h
  rcases h with rfl | rfl | rfl | rfl | rfl | rfl | rfl <;> refine ⟨?_, ?_, ?_, ?_, ?_⟩ <;> tbl

-- punctuation that is in no table: `:`, `+`, `(`, `)`
theorem plain_facts (t : Token) (h : t ∈ [[':'], ['+'], ['('], [')']]) :
    (I).weekdayOf t = none ∧ (I).monthOf t = none ∧ (I).ampmOf t = none ∧ (I).hmsOf t = none ∧ (I).isJump t = false := by
  simp only [List.mem_cons, List.mem_nil_iff, or_false] at h
  rcases h with rfl | rfl | rfl | rfl <;> refine ⟨?_, ?_, ?_, ?_, ?_⟩ <;> tbl

@[simp] theorem wd_sp : (I).weekdayOf [' '] = none := (jump_facts df yf year century _ (by simp)).1
@[simp] theorem mo_sp : (I).monthOf [' '] = none := (jump_facts df yf year century _ (by simp)).2.1
@[simp] theorem ap_sp : (I).ampmOf [' '] = none := (jump_facts df yf year century _ (by simp)).2.2.1
@[simp] theorem hms_sp : (I).hmsOf [' '] = none := (jump_facts df yf year century _ (by simp)).2.2.2.1
@[simp] theorem jp_sp : (I).isJump [' '] = true := (jump_facts df yf year century _ (by simp)).2.2.2.2
@[simp] theorem wd_T : (I).weekdayOf ['T'] = none := (jump_facts df yf year century _ (by simp)).1
@[simp] theorem mo_T : (I).monthOf ['T'] = none := (jump_facts df yf year century _ (by simp)).2.1
@[simp] theorem ap_T : (I).ampmOf ['T'] = none := (jump_facts df yf year century _ (by simp)).2.2.1
@[simp] theorem hms_T : (I).hmsOf ['T'] = none := (jump_facts df yf year century _ (by simp)).2.2.2.1
@[simp] theorem jp_T : (I).isJump ['T'] = true := (jump_facts df yf year century _ (by simp)).2.2.2.2
@[simp] theorem wd_dash : (I).weekdayOf ['-'] = none := (jump_facts df yf year century _ (by simp)).1
@[simp] theorem mo_dash : (I).monthOf ['-'] = none := (jump_facts df yf year century _ (by simp)).2.1
@[simp] theorem ap_dash : (I).ampmOf ['-'] = none := (jump_facts df yf year century _ (by simp)).2.2.1
@[simp] theorem hms_dash : (I).hmsOf ['-'] = none := (jump_facts df yf year century _ (by simp)).2.2.2.1
@[simp] theorem jp_dash : (I).isJump ['-'] = true := (jump_facts df yf year century _ (by simp)).2.2.2.2
@[simp] theorem wd_slash : (I).weekdayOf ['/'] = none := (jump_facts df yf year century _ (by simp)).1
@[simp] theorem mo_slash : (I).monthOf ['/'] = none := (jump_facts df yf year century _ (by simp)).2.1
@[simp] theorem ap_slash : (I).ampmOf ['/'] = none := (jump_facts df yf year century _ (by simp)).2.2.1
@[simp] theorem hms_slash : (I).hmsOf ['/'] = none := (jump_facts df yf year century _ (by simp)).2.2.2.1
@[simp] theorem jp_slash : (I).isJump ['/'] = true := (jump_facts df yf year century _ (by simp)).2.2.2.2
@[simp] theorem wd_dot : (I).weekdayOf ['.'] = none := (jump_facts df yf year century _ (by simp)).1
@[simp] theorem mo_dot : (I).monthOf ['.'] = none := (jump_facts df yf year century _ (by simp)).2.1
@[simp] theorem ap_dot : (I).ampmOf ['.'] = none := (jump_facts df yf year century _ (by simp)).2.2.1
@[simp] theorem hms_dot : (I).hmsOf ['.'] = none := (jump_facts df yf year century _ (by simp)).2.2.2.1
@[simp] theorem jp_dot : (I).isJump ['.'] = true := (jump_facts df yf year century _ (by simp)).2.2.2.2
@[simp] theorem wd_comma : (I).weekdayOf [','] = none := (jump_facts df yf year century _ (by simp)).1
@[simp] theorem mo_comma : (I).monthOf [','] = none := (jump_facts df yf year century _ (by simp)).2.1
@[simp] theorem ap_comma : (I).ampmOf [','] = none := (jump_facts df yf year century _ (by simp)).2.2.1
@[simp] theorem hms_comma : (I).hmsOf [','] = none := (jump_facts df yf year century _ (by simp)).2.2.2.1
@[simp] theorem jp_comma : (I).isJump [','] = true := (jump_facts df yf year century _ (by simp)).2.2.2.2
@[simp] theorem wd_colon : (I).weekdayOf [':'] = none := (plain_facts df yf year century _ (by simp)).1
@[simp] theorem mo_colon : (I).monthOf [':'] = none := (plain_facts df yf year century _ (by simp)).2.1
@[simp] theorem ap_colon : (I).ampmOf [':'] = none := (plain_facts df yf year century _ (by simp)).2.2.1
@[simp] theorem hms_colon : (I).hmsOf [':'] = none := (plain_facts df yf year century _ (by simp)).2.2.2.1
@[simp] theorem jp_colon : (I).isJump [':'] = false := (plain_facts df yf year century _ (by simp)).2.2.2.2
@[simp] theorem wd_plus : (I).weekdayOf ['+'] = none := (plain_facts df yf year century _ (by simp)).1
@[simp] theorem mo_plus : (I).monthOf ['+'] = none := (plain_facts df yf year century _ (by simp)).2.1
@[simp] theorem ap_plus : (I).ampmOf ['+'] = none := (plain_facts df yf year century _ (by simp)).2.2.1
@[simp] theorem hms_plus : (I).hmsOf ['+'] = none := (plain_facts df yf year century _ (by simp)).2.2.2.1
@[simp] theorem jp_plus : (I).isJump ['+'] = false := (plain_facts df yf year century _ (by simp)).2.2.2.2

-- zone words
@[simp] theorem wd_Z : (I).weekdayOf ['Z'] = none := by tbl
@[simp] theorem mo_Z : (I).monthOf ['Z'] = none := by tbl
@[simp] theorem ap_Z : (I).ampmOf ['Z'] = none := by tbl
@[simp] theorem hms_Z : (I).hmsOf ['Z'] = none := by tbl
@[simp] theorem tzo_Z : (I).tzoffsetOf ['Z'] = none := by
  simp only [Info.tzoffsetOf, Info.default]; rfl
@[simp] theorem utc_Z : (I).isUtczone ['Z'] = true := by tbl
@[simp] theorem wd_UTC : (I).weekdayOf ['U', 'T', 'C'] = none := by tbl
@[simp] theorem mo_UTC : (I).monthOf ['U', 'T', 'C'] = none := by tbl
@[simp] theorem ap_UTC : (I).ampmOf ['U', 'T', 'C'] = none := by tbl
@[simp] theorem hms_UTC : (I).hmsOf ['U', 'T', 'C'] = none := by tbl
@[simp] theorem tzo_UTC : (I).tzoffsetOf ['U', 'T', 'C'] = none := by
  simp only [Info.tzoffsetOf, Info.default]; rfl
@[simp] theorem utc_UTC : (I).isUtczone ['U', 'T', 'C'] = true := by tbl
@[simp] theorem cbt_Z (h : Option Nat) : couldBeTzname (I) h none none ['Z'] = h.isSome := by
  cases h <;> simp [couldBeTzname, Info.default] <;> decide
@[simp] theorem cbt_UTC (h : Option Nat) : couldBeTzname (I) h none none ['U', 'T', 'C'] = h.isSome := by
  cases h <;> simp [couldBeTzname, Info.default] <;> decide
@[simp] theorem cbt_none (a : Option Token) (b : Option Int) (t : Token) : couldBeTzname (I) none a b t = false := by
  simp [couldBeTzname]
theorem cbt_false (t : Token) (h : (t.all isAsciiUpper || (Gen.PI_UTCZONE.map tk).contains t) = false)
    (hr : Option Nat) (a : Option Token) (b : Option Int) : couldBeTzname (I) hr a b t = false := by
  simp only [couldBeTzname, Info.default]
  rw [h]; simp
@[simp] theorem cbt_sp (hr : Option Nat) (a : Option Token) (b : Option Int) : couldBeTzname (I) hr a b [' '] = false :=
  cbt_false df yf year century _ (by decide) hr a b
@[simp] theorem cbt_plus (hr : Option Nat) (a : Option Token) (b : Option Int) : couldBeTzname (I) hr a b ['+'] = false :=
  cbt_false df yf year century _ (by decide) hr a b
@[simp] theorem cbt_minus (hr : Option Nat) (a : Option Token) (b : Option Int) : couldBeTzname (I) hr a b ['-'] = false :=
  cbt_false df yf year century _ (by decide) hr a b
@[simp] theorem cbt_colon (hr : Option Nat) (a : Option Token) (b : Option Int) : couldBeTzname (I) hr a b [':'] = false :=
  cbt_false df yf year century _ (by decide) hr a b
@[simp] theorem cbt_comma (hr : Option Nat) (a : Option Token) (b : Option Int) : couldBeTzname (I) hr a b [','] = false :=
  cbt_false df yf year century _ (by decide) hr a b
@[simp] theorem dayfirst_default : (I).dayfirst = df := rfl
@[simp] theorem yearfirst_default : (I).yearfirst = yf := rfl
@[simp] theorem century_default : (I).century = century := rfl
@[simp] theorem year_default : (I).year = year := rfl
end

section
variable (cls : Char → CClass) [AsciiOK cls]
@[simp] theorem fl_sp : floatOk cls [' '] = false := by rw [floatOk_ascii cls _ (by decide)]; decide
@[simp] theorem fl_T : floatOk cls ['T'] = false := by rw [floatOk_ascii cls _ (by decide)]; decide
@[simp] theorem fl_dash : floatOk cls ['-'] = false := by rw [floatOk_ascii cls _ (by decide)]; decide
@[simp] theorem fl_slash : floatOk cls ['/'] = false := by rw [floatOk_ascii cls _ (by decide)]; decide
@[simp] theorem fl_dot : floatOk cls ['.'] = false := by rw [floatOk_ascii cls _ (by decide)]; decide
@[simp] theorem fl_comma : floatOk cls [','] = false := by rw [floatOk_ascii cls _ (by decide)]; decide
@[simp] theorem fl_colon : floatOk cls [':'] = false := by rw [floatOk_ascii cls _ (by decide)]; decide
@[simp] theorem fl_plus : floatOk cls ['+'] = false := by rw [floatOk_ascii cls _ (by decide)]; decide
@[simp] theorem fl_Z : floatOk cls ['Z'] = false := by rw [floatOk_ascii cls _ (by decide)]; decide
@[simp] theorem fl_UTC : floatOk cls ['U', 'T', 'C'] = false := by rw [floatOk_ascii cls _ (by decide)]; decide
end

end PM
