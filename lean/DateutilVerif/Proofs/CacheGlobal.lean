/-
  Proofs/CacheGlobal.lean — the global invariant of the cached-iterator machine, enabledness,
  and the termination measure (C11).
-/
import DateutilVerif.Proofs.CacheStep

namespace Cache
open Queries Py

/-- the invariant of a whole state: shared part, every thread, lock discipline -/
structure Inv (s : State) : Prop where
  sinv : SInv s.sh
  linv : ∀ (t : Tid) (it : Iter), s.its[t]? = some it → LInv s.sh it
  lockinv : ∀ (t : Tid) (it : Iter), s.its[t]? = some it → (it.pc.inCrit = true ↔ s.sh.lock = some t)
  owner : ∀ (t : Tid), s.sh.lock = some t → ∃ it : Iter, s.its[t]? = some it

theorem step_eq {s s' : State} {t : Tid} (h : step s t = some s') :
    ∃ it sh' it', s.its[t]? = some it ∧ stepIter s.sh t it = some (sh', it') ∧
      s' = { sh := sh', its := s.its.set t it' } := by
  unfold step at h
  split at h
  · cases h
  · rename_i it hit
    split at h
    · cases h
    · rename_i sh' it' hst
      simp only [Option.some.injEq] at h
      exact ⟨it, sh', it', hit, hst, h.symm⟩

theorem getElem?_set_self' {α} {l : List α} {t : Nat} {a b : α} (h : l[t]? = some a) : (l.set t b)[t]? = some b := by
  have hlt : t < l.length := by
    by_cases hc : t < l.length
    · exact hc
    · rw [List.getElem?_eq_none (by omega)] at h; cases h
  simp [List.getElem?_set, hlt]

theorem inv_step' {s s' : State} {t : Tid} (hi : Inv s) (h : step s t = some s') : Inv s' := by
  obtain ⟨it, sh', it', hit, hst, rfl⟩ := step_eq h
  have hl := hi.linv t it hit
  have ⟨hs', hm⟩ := stepIter_sinv hst hi.sinv hl
  have hl' := stepIter_linv hst hi.sinv hl
  have ⟨hk1, hk2⟩ := stepIter_lock hst (hi.lockinv t it hit)
  refine ⟨hs', ?_, ?_, ?_⟩
  · intro t2 it2 h2
    simp only [] at h2 ⊢
    by_cases e : t2 = t
    · subst e
      rw [getElem?_set_self' hit] at h2
      cases h2; exact hl'
    · rw [List.getElem?_set_ne (Ne.symm e)] at h2
      exact LInv_mono hm (hi.linv t2 it2 h2)
  · intro t2 it2 h2
    simp only [] at h2 ⊢
    by_cases e : t2 = t
    · subst e
      rw [getElem?_set_self' hit] at h2
      cases h2; exact hk1
    · rw [List.getElem?_set_ne (Ne.symm e)] at h2
      rw [hk2 t2 e]
      exact hi.lockinv t2 it2 h2
  · intro t2 h2
    simp only [] at h2 ⊢
    by_cases e : t2 = t
    · subst e
      exact ⟨it', getElem?_set_self' hit⟩
    · rw [List.getElem?_set_ne (Ne.symm e)]
      exact hi.owner t2 ((hk2 t2 e).mp h2)

theorem inv_init (src : List Int) (qs : List Query) (e : Option PyErr := none) : Inv (init src qs e) := by
  refine ⟨⟨rfl, Nat.zero_le _, ?_, ?_, ?_⟩, ?_, ?_, ?_⟩
  · intro n h; cases h
  · intro h; cases h
  · intro h; cases h
  · intro t it h
    simp only [init, List.getElem?_map, Option.map_eq_some_iff] at h
    obtain ⟨q, _, rfl⟩ := h
    exact ⟨rfl, rfl, rfl⟩
  · intro t it h
    simp only [init, List.getElem?_map, Option.map_eq_some_iff] at h
    obtain ⟨q, _, rfl⟩ := h
    simp [PC.inCrit, init, initShared]
  · intro t h; cases h

/-! ### enabledness -/

theorem stepIter_none {sh : Shared} {t : Tid} {it : Iter} (h : stepIter sh t it = none) :
    it.pc = .done ∨ (it.pc = .l132 ∧ sh.lock ≠ none) := by
  unfold stepIter at h
  split at h
  all_goals try (cases h)
  · rename_i hpc
    split at h
    · rename_i o ho
      exact Or.inr ⟨hpc, by rw [ho]; simp⟩
    · cases h
  · rename_i hpc
    unfold step138 at h
    split at h
    · cases h
    · split at h
      · cases h
      · split at h <;> cases h
  · rename_i hpc; exact Or.inl hpc

/-! ### the termination measure -/

/-- statements a thread can still execute, at most (N = length of the underlying sequence) -/
def mu (N : Nat) (it : Iter) : Nat :=
  match it.pc with
  | .done => 0
  | .listIter => it.pending.length + 1
  | .l147 => 3 * (N - it.i) + 3
  | .l148 => 3 * (N - it.i) + 2
  | .l149 => 3 * (N - it.i) + 1
  | .l130 => (N + 1 - it.i) * 40 + 36
  | .l131 => (N + 1 - it.i) * 40 + 35
  | .l132 => (N + 1 - it.i) * 40 + 34
  | .l133 => (N + 1 - it.i) * 40 + 33
  | .l134 => (N + 1 - it.i) * 40 + 32
  | .l135 => (N + 1 - it.i) * 40 + 31
  | .l136 => (N + 1 - it.i) * 40 + 31
  | .l137 => (N + 1 - it.i) * 40 + 9 + 2 * (10 - it.j)
  | .l138 => (N + 1 - it.i) * 40 + 8 + 2 * (10 - it.j)
  | .l139 => (N + 1 - it.i) * 40 + 8
  | .l140 => (N + 1 - it.i) * 40 + 7
  | .l141 => (N + 1 - it.i) * 40 + 6
  | .l142 => (N + 1 - it.i) * 40 + 5
  | .l144 => (N + 1 - it.i) * 40 + 4
  | .l145 => (N + 1 - it.i) * 40 + 3
  | .l146 => (N + 1 - it.i) * 40 + 2
  | .l129 => (N + 1) * 40 + 37
  | .l128 => (N + 1) * 40 + 38
  | .l127 => (N + 1) * 40 + 39
  | .l126 => (N + 1) * 40 + 40
  | .l125 => (N + 1) * 40 + 41
  | .l111 => (N + 1) * 40 + 42
  | .l108 => (N + 1) * 40 + 43
  | .l107 => (N + 1) * 40 + 43
  | .l106 => (N + 1) * 40 + 44
  | .entry => (N + 1) * 40 + 45
  | .start => (N + 1) * 40 + 46

def measure (s : State) : Nat := (s.its.map (mu s.sh.src.length)).sum

theorem sum_map_set_lt {α} (f : α → Nat) (l : List α) (t : Nat) (a a' : α) (h : l[t]? = some a)
    (hlt : f a' < f a) : ((l.set t a').map f).sum < (l.map f).sum := by
  induction l generalizing t with
  | nil => simp at h
  | cons x xs ih =>
    cases t with
    | zero =>
      simp only [List.getElem?_cons_zero, Option.some.injEq] at h
      subst h
      simp only [List.set_cons_zero, List.map_cons, List.sum_cons]; omega
    | succ t =>
      simp only [List.getElem?_cons_succ] at h
      have := ih t h
      simp only [List.set_cons_succ, List.map_cons, List.sum_cons]; omega

theorem receive_mu {sh : Shared} {it : Iter} {x : Int} {next : PC} (N : Nat) :
    mu N (receive sh it x next) = 0 ∨
    (receive sh it x next).pc = next ∧ (receive sh it x next).i = it.i ∧ (receive sh it x next).j = it.j
      ∧ (receive sh it x next).pending = it.pending := by
  unfold receive
  simp only []
  split
  · left; simp [finish, mu]
  · right; simp

theorem stepIter_mu {sh sh' : Shared} {t : Tid} {it it' : Iter}
    (h : stepIter sh t it = some (sh', it')) (hs : SInv sh) (hl : LInv sh it) :
    mu sh.src.length it' < mu sh.src.length it := by
  obtain ⟨hc, hl⟩ := hl
  have e3 := @SInv.cache_len_le sh hs
  unfold stepIter at h
  split at h
  all_goals rename_i hpc
  all_goals rw [hpc] at hl
  all_goals simp only [] at hl
  all_goals try (
    simp only [Option.some.injEq, Prod.mk.injEq] at h
    obtain ⟨rfl, rfl⟩ := h
    try unfold Y at hl
    generalize hm : mu sh.src.length it = m
    unfold mu at hm
    rw [hpc] at hm
    simp only [] at hm
    subst hm
    (repeat' split) <;> simp only [mu, finish, crashWith] <;> omega)
  · -- listIter
    simp only [Option.some.injEq, Prod.mk.injEq] at h
    obtain ⟨rfl, rfl⟩ := h
    have hm : mu sh.src.length it = it.pending.length + 1 := by unfold mu; rw [hpc]
    rw [hm]
    split
    · simp [finish, mu]
    · rename_i x rest hp
      rcases receive_mu (sh := sh) (it := { it with pending := rest }) (x := x) (next := .listIter) sh.src.length with h0 | ⟨h1, _, _, h4⟩
      · rw [h0]; omega
      · unfold mu; rw [h1]; simp only []; rw [h4, hp]; simp
  · -- l132
    split at h
    · cases h
    · simp only [Option.some.injEq, Prod.mk.injEq] at h
      obtain ⟨rfl, rfl⟩ := h
      have hm : mu sh.src.length it = (sh.src.length + 1 - it.i) * 40 + 34 := by unfold mu; rw [hpc]
      rw [hm]; simp only [mu]; omega
  · -- l138
    have hm : mu sh.src.length it = (sh.src.length + 1 - it.i) * 40 + 8 + 2 * (10 - it.j) := by unfold mu; rw [hpc]
    unfold step138 at h
    split at h
    · simp only [Option.some.injEq, Prod.mk.injEq] at h
      obtain ⟨rfl, rfl⟩ := h
      rw [hm]; simp only [mu]; omega
    · split at h
      · simp only [Option.some.injEq, Prod.mk.injEq] at h
        obtain ⟨rfl, rfl⟩ := h
        rw [hm]; simp only [mu]; omega
      · split at h <;> (
          simp only [Option.some.injEq, Prod.mk.injEq] at h
          obtain ⟨rfl, rfl⟩ := h
          rw [hm]; simp only [mu, raiseTo]; omega)
  · -- l145
    simp only [Option.some.injEq, Prod.mk.injEq] at h
    obtain ⟨rfl, rfl⟩ := h
    have hm : mu sh.src.length it = (sh.src.length + 1 - it.i) * 40 + 3 := by unfold mu; rw [hpc]
    rw [hm]
    split
    · rename_i x hx
      rcases receive_mu (sh := sh) (it := it) (x := x) (next := .l146) sh.src.length with h0 | ⟨h1, h2, _, _⟩
      · rw [h0]; omega
      · unfold mu; rw [h1]; simp only []; rw [h2]; omega
    · simp [crashWith, mu]
  · -- l148
    simp only [Option.some.injEq, Prod.mk.injEq] at h
    obtain ⟨rfl, rfl⟩ := h
    have hm : mu sh.src.length it = 3 * (sh.src.length - it.i) + 2 := by unfold mu; rw [hpc]
    rw [hm]
    split
    · rename_i x hx
      rcases receive_mu (sh := sh) (it := it) (x := x) (next := .l149) sh.src.length with h0 | ⟨h1, h2, _, _⟩
      · rw [h0]; omega
      · unfold mu; rw [h1]; simp only []; rw [h2]; omega
    · simp [crashWith, mu]
  · cases h

theorem measure_step {s s' : State} {t : Tid} (hi : Inv s) (h : step s t = some s') :
    measure s' < measure s ∧ s'.sh.src = s.sh.src := by
  obtain ⟨it, sh', it', hit, hst, rfl⟩ := step_eq h
  have hl := hi.linv t it hit
  have ⟨_, hm⟩ := stepIter_sinv hst hi.sinv hl
  have hmu := stepIter_mu hst hi.sinv hl
  refine ⟨?_, hm.src_eq⟩
  unfold measure
  simp only []
  rw [hm.src_eq]
  exact sum_map_set_lt _ _ t it it' hit hmu

end Cache
