/-
  Proofs/ParserGenLoop.lean — the `while i < len_l:` loop of `parser._parse` re-translated from /repo's
  parser/_parser.py (Generated/ParserOps.lean: `Gen.P.parseLoop`, a fuel-bounded recursion over the translated body
  `Gen.P.parseStep`) computes what the model's `PM.parseLoop` (structural recursion over the indices, with a counter of
  indices already consumed) computes: the same token list, result record, `_ymd` and skip list, or the same exception —
  and never runs out of fuel when given at least as much as there are tokens left.
-/
import DateutilVerif.Proofs.ParserGenStep
import DateutilVerif.Proofs.ParserWrites

namespace PGen
open PM Py
set_option linter.unusedSimpArgs false

theorem parseStep_len (cls : Char → CClass) (info : Info) (fuzzy : Bool) (lenL i : Nat) (st : PState) (r : Nat × PState)
    (h : PM.parseStep cls info fuzzy lenL i st = .ok r) : r.2.l.length = st.l.length := by
  rcases PM.parseStep_writes cls info fuzzy lenL i st r h with h1 | ⟨_, _, _, _, _, _, h2⟩
  · rw [h1]
  · rw [h2, List.length_set]

/-- indices already consumed are stepped over without running the body -/
theorem parseLoop_skip (cls : Char → CClass) (info : Info) (fuzzy : Bool) (lenL : Nat) :
    ∀ (s fuel i : Nat) (st : PState), s ≤ fuel →
      PM.parseLoop cls info fuzzy lenL fuel i s st = PM.parseLoop cls info fuzzy lenL (fuel - s) (i + s) 0 st := by
  intro s
  induction s with
  | zero => intro fuel i st _; simp
  | succ s ih =>
    intro fuel i st h
    cases fuel with
    | zero => omega
    | succ f =>
      rw [PM.parseLoop, ih f (i + 1) st (by omega)]
      have e1 : f + 1 - (s + 1) = f - s := by omega
      have e2 : i + (s + 1) = i + 1 + s := by omega
      rw [e1, e2]

theorem parseLoop_skip_all (cls : Char → CClass) (info : Info) (fuzzy : Bool) (lenL : Nat) :
    ∀ (fuel s i : Nat) (st : PState), fuel ≤ s → PM.parseLoop cls info fuzzy lenL fuel i s st = .ok st := by
  intro fuel
  induction fuel with
  | zero => intro s i st _; rfl
  | succ f ih =>
    intro s i st h
    cases s with
    | zero => omega
    | succ s => rw [PM.parseLoop, ih s (i + 1) st (by omega)]

/-- what `_parse` reads from the loop's state afterwards (the final index is not used) -/
def loopOut (r : List Token × Nat × Res × Ymd × List Nat) : PState :=
  { l := r.1, res := r.2.2.1, ymd := r.2.2.2.1, skipped := r.2.2.2.2 }

theorem parseLoop_eq (cls : Char → CClass) (info : Info) (fuzzy : Bool) (hc : 100 ≤ info.century) :
    ∀ (fuel : Nat) (st : PState) (i : Nat), st.l.length - i ≤ fuel →
      (Gen.P.parseLoop fuel cls info st.l i st.l.length st.res st.ymd st.skipped fuzzy).map loopOut =
        PM.parseLoop cls info fuzzy st.l.length (st.l.length - i) i 0 st := by
  intro fuel
  induction fuel with
  | zero =>
    intro st i h
    have hi : ¬ (i < st.l.length) := by omega
    have hm : st.l.length - i = 0 := by omega
    rw [Gen.P.parseLoop, hm]
    simp only [hi, if_false]
    rfl
  | succ f ih =>
    intro st i h
    rw [Gen.P.parseLoop]
    by_cases hi : i < st.l.length
    · simp only [hi, if_true]
      obtain ⟨m, hm⟩ : ∃ m, st.l.length - i = m + 1 := ⟨st.l.length - i - 1, by omega⟩
      rw [hm, PM.parseLoop]
      have hs := parseStep_eq cls info fuzzy st.l i st.res st.ymd st.skipped hc
      rw [hs]
      cases hp : PM.parseStep cls info fuzzy st.l.length i { l := st.l, res := st.res, ymd := st.ymd, skipped := st.skipped } with
      | error e => rfl
      | ok r =>
        have hp' : PM.parseStep cls info fuzzy st.l.length i st = .ok r := hp
        obtain ⟨adv, st'⟩ := r
        have hlen : st'.l.length = st.l.length := parseStep_len cls info fuzzy _ i st (adv, st') hp'
        simp only [Except.map, bind_ok]
        have hih := ih st' (i + adv + 1) (by omega)
        rw [hlen] at hih
        show Except.map loopOut (Gen.P.parseLoop f cls info st'.l (i + adv + 1) st.l.length st'.res st'.ymd st'.skipped fuzzy) = _
        rw [hih]
        by_cases ha : adv ≤ m
        · rw [parseLoop_skip cls info fuzzy _ adv m (i + 1) st' ha]
          have e1 : st.l.length - (i + adv + 1) = m - adv := by omega
          have e2 : i + adv + 1 = i + 1 + adv := by omega
          rw [e1, e2]
        · rw [parseLoop_skip_all cls info fuzzy _ m adv (i + 1) st' (by omega)]
          have e1 : st.l.length - (i + adv + 1) = 0 := by omega
          rw [e1]; rfl
    · simp only [hi, if_false]
      have hm : st.l.length - i = 0 := by omega
      rw [hm]; rfl

end PGen
