/-
  Proofs/RRuleEasterYearly.lean — YEARLY with BYEASTER on the supported class (offsets −80..250, years
  1583..4099): the filter with the Easter mask, `rebuild`, the bridge and the instance of the refinement.
-/
import DateutilVerif.Proofs.RRuleNthYM

namespace RRule
open Cal

/-- BYEASTER is the only computed mask (plain BYDAY allowed) -/
structure EasterRule (r : Rule) : Prop where
  byweekno : truthy r.byweekno = false
  bynweekday : truthy r.bynweekday = false
  byeaster : truthy r.byeaster = true

variable {r : Rule} {y : Int} {info : Info}

/-- the BY-filter with an Easter mask, inside the year -/
theorem dayFiltered_easter (he : EasterRule r) (f : YearFacts r y info) (mask : List Int)
    (hnw : info.nwdaymask = none) (hm : info.eastermask = some mask) (i : Int) (h0 : 0 ≤ i) (h1 : i < info.yearlen)
    (hlen : info.yearlen ≤ (mask.length : Int)) :
    dayFiltered r info i =
      .ok (!(simpleOk r (info.yearordinal + i) && (mask[i.toNat]'(by omega) != 0))) := by
  have hlen' : info.yearlen ≤ 366 := by rw [f.yearlen]; unfold daysInYear; split <;> omega
  have hdate := date_of_index y i f.year_lo h0 (by rw [← f.yearlen]; omega)
  rw [← f.yearordinal] at hdate
  have hmask : Py.getIdx mask i = .ok (mask[i.toNat]'(by omega)) := getIdx_int mask i h0 (by omega)
  unfold dayFiltered
  rw [mmask_date f i h0 (by omega), wdaymask_date f i h0 (by omega), mdaymask_date f i h0 (by omega),
      nmdaymask_date f i h0 (by omega), hnw, hm]
  simp only [maskMiss, he.byweekno, he.byeaster, Bool.false_eq_true, ↓reduceIte, hmask]
  have c' : i < daysInYear y := by rw [← f.yearlen]; exact h1
  have hyd : (decide (i < info.yearlen) && !memO (i + 1) r.byyearday && !memO (-info.yearlen + i) r.byyearday ||
      decide (i ≥ info.yearlen) && !memO (i + 1 - info.yearlen) r.byyearday &&
        !memO (-info.nextyearlen + i - info.yearlen) r.byyearday) =
      !(memO (info.yearordinal + i - toOrdinal (fromOrdinal (info.yearordinal + i)).1 1 1 + 1) r.byyearday ||
        memO (info.yearordinal + i - toOrdinal (fromOrdinal (info.yearordinal + i)).1 1 1 + 1 -
              daysInYear (fromOrdinal (info.yearordinal + i)).1 - 1) r.byyearday) := by
    rw [hdate, if_pos c']
    have e1 : info.yearordinal + i - toOrdinal y 1 1 + 1 = i + 1 := by rw [f.yearordinal]; omega
    have e2 : i + 1 - daysInYear y - 1 = -info.yearlen + i := by rw [f.yearlen]; omega
    dsimp only
    rw [e1, e2]
    have c2 : ¬ (i ≥ info.yearlen) := by omega
    simp [h1, c2]
  unfold simpleOk
  rw [hyd]
  generalize memO (info.yearordinal + i - toOrdinal (fromOrdinal (info.yearordinal + i)).1 1 1 + 1) r.byyearday = ya
  generalize memO (info.yearordinal + i - toOrdinal (fromOrdinal (info.yearordinal + i)).1 1 1 + 1 -
              daysInYear (fromOrdinal (info.yearordinal + i)).1 - 1) r.byyearday = yb
  generalize (fromOrdinal (info.yearordinal + i)).2.1 = mo
  generalize (fromOrdinal (info.yearordinal + i)).2.2 = dd
  generalize (fromOrdinal (info.yearordinal + i)).1 = yy
  generalize weekdayOfOrd (info.yearordinal + i) = wd
  generalize (mask[i.toNat]'(by omega)) = mv
  have hbne : (mv != 0) = !(mv == 0) := rfl
  rw [hbne]
  generalize (mv == 0) = mz
  cases truthy r.bymonth <;> cases memO mo r.bymonth <;> cases truthy r.byweekday <;>
    cases memO wd r.byweekday <;> cases r.bymonthday.isEmpty <;> cases r.bynmonthday.isEmpty <;>
    cases r.bymonthday.contains dd <;> cases r.bynmonthday.contains (dd - daysInMonth yy mo - 1) <;>
    cases truthy r.byyearday <;> cases ya <;> cases yb <;> cases mz <;> rfl

/-- `rebuild` of an Easter rule: succeeds for years 1583..4099 with supported offsets -/
theorem rebuild_easter (he : EasterRule r) (el : List Int) (hel : r.byeaster = some el)
    (hoff : ∀ o ∈ el, -80 ≤ o ∧ o ≤ 250) (y m : Int) (hy1 : 1583 ≤ y) (hy2 : y ≤ 4099) :
    ∃ info mask, rebuild r y m = .ok info ∧ info.nwdaymask = none ∧ info.eastermask = some mask ∧
      ∀ j : Int, 0 ≤ j → j < info.yearlen + 7 →
        Py.getIdx mask j = .ok (if (info.yearordinal + j - Spec.RRule.easterOrd y) ∈ el then 1 else 0) := by
  have hw : wnomaskOf r y (baseInfo y) = .ok none := by
    unfold wnomaskOf; have := he.byweekno
    split
    · rename_i h; rw [h] at this; simp [truthy] at this
    · rfl
  have hnwd : ∀ (yl : Int) (mr wd : List Int), buildNwdaymask r yl mr wd m = .ok none := by
    intro yl mr wd
    unfold buildNwdaymask
    have := he.bynweekday
    split
    · rename_i h; rw [h] at this; simp [truthy] at this
    · rfl
  obtain ⟨mask, h1, h2⟩ := eastermask_spec el y hy1 hy2 hoff
  have hne : ∃ e es, el = e :: es := by
    have := he.byeaster; rw [hel] at this
    cases el with
    | nil => simp [truthy] at this
    | cons e es => exact ⟨e, es, rfl⟩
  obtain ⟨e, es, hees⟩ := hne
  have hem : eastermaskOf r y (baseInfo y) = .ok (some mask) := by
    unfold eastermaskOf
    rw [hel, hees]
    dsimp only
    have hbi : (baseInfo y).yearlen = daysInYear y := by simp only [baseInfo, daysInYear]
    have hbo : (baseInfo y).yearordinal = toOrdinal y 1 1 := rfl
    rw [hbi, hbo, ← hees, h1]
  unfold rebuild
  rw [if_neg (by omega), hw]
  dsimp only
  rw [hnwd]
  dsimp only
  rw [hem]
  refine ⟨_, mask, rfl, rfl, rfl, ?_⟩
  intro j hj0 hj1
  have hbi : (baseInfo y).yearlen = daysInYear y := by simp only [baseInfo, daysInYear]
  exact h2 j hj0 (by rw [← hbi]; exact hj1)

/-- YEARLY argument sets with BYEASTER offsets of the supported class -/
structure EasterYArgs (a : Args) : Prop where
  freq : a.freq = 0
  interval : 1 ≤ a.interval
  valid : a.dtstart.Valid
  byweekno : a.byweekno = none
  monthday_nz : ∀ x ∈ a.bymonthday.getD [], x ≠ 0
  plain : ∀ w ∈ a.byweekday.getD [], w.2 = 0
  easter : ∃ el, a.byeaster = some el ∧ el ≠ [] ∧ ∀ o ∈ el, -80 ≤ o ∧ o ≤ 250

variable {a : Args}

def eastersOf (a : Args) : List Int := sortBy ltInt (a.byeaster.getD [])

theorem ey_noDay (ea : EasterYArgs a) : noDayParts a = false := by
  obtain ⟨el, hel, _, _⟩ := ea.easter
  unfold noDayParts; simp [hel]

theorem ey_easters (ea : EasterYArgs a) :
    (∀ o, o ∈ eastersOf a ↔ o ∈ a.byeaster.getD []) ∧ (∀ o ∈ eastersOf a, -80 ≤ o ∧ o ≤ 250) ∧
    truthy (some (eastersOf a)) = true := by
  obtain ⟨el, hel, hne, hoff⟩ := ea.easter
  have hmem : ∀ o, o ∈ eastersOf a ↔ o ∈ el := by
    intro o; unfold eastersOf; rw [hel, Option.getD_some, mem_sortBy]
  refine ⟨by rw [hel]; exact hmem, fun o ho => hoff o ((hmem o).mp ho), ?_⟩
  rw [truthy_eq_not_isEmpty]
  cases hq : eastersOf a with
  | nil =>
    exfalso
    cases el with
    | nil => exact hne rfl
    | cons x xs => have := (hmem x).mpr (List.mem_cons_self ..); rw [hq] at this; simp at this
  | cons _ _ => rfl

/-- the normalised rule, up to the three unit lists -/
abbrev easterRuleOf (a : Args) (bh bm bs : Option (List Int)) : Rule :=
  { freq := a.freq, interval := a.interval, wkst := a.wkst.getD 0,
    dtstart := { a.dtstart with us := 0 }, tz := a.tz, count := a.count, untilDT := a.untilDT,
    bysetpos := a.bysetpos, bymonth := a.bymonth.map sortedSet, bymonthday := bymonthdayOf a,
    bynmonthday := bynmonthdayOf a, byyearday := a.byyearday.map sortedSet,
    byeaster := some (eastersOf a), byweekno := none,
    byweekday := byweekdayOf a, bynweekday := bynweekdayOf a,
    byhour := bh, byminute := bm, bysecond := bs,
    timeset := some (Spec.RRule.timesOf a none none none) }

theorem ey_rule (ea : EasterYArgs a) (h : construct a = .ok r) : ∃ bh bm bs, r = easterRuleOf a bh bm bs := by
  have hts := construct_timeset a r h (by rw [ea.freq]; omega)
  obtain ⟨sp, bh, bm, bs, ts, h1, h2, h3, h4, h5, rfl⟩ := construct_ok a r h
  dsimp only at hts
  subst hts
  have hsp := (normBysetpos_ok a sp h1).1
  subst hsp
  obtain ⟨el, hel, _, _⟩ := ea.easter
  refine ⟨bh, bm, bs, ?_⟩
  have hbm : bymonthOf a = a.bymonth.map sortedSet := by unfold bymonthOf; simp [ey_noDay ea]
  have hes : a.byeaster.map (sortBy ltInt) = some (eastersOf a) := by unfold eastersOf; rw [hel]; rfl
  simp [easterRuleOf, hbm, hes, ea.byweekno]

/-- the same argument set without the parts that `YMArgs` excludes (for the BYDAY lemmas) -/
def stripE (a : Args) : Args := { a with byweekno := none, byeaster := none, bymonthday := none }

theorem ey_strip (ea : EasterYArgs a) : YMArgs (stripE a) :=
  { freq := Or.inl ea.freq, interval := ea.interval, valid := ea.valid, byweekno := rfl, byeaster := rfl,
    monthday_nz := by intro x hx; simp [stripE] at hx, plain := ea.plain }

theorem ey_weekdayArg (ea : EasterYArgs a) : weekdayArg a = a.byweekday := by
  unfold weekdayArg; simp [ea.freq]

theorem byweekdayOf_stripE (ea : EasterYArgs a) : byweekdayOf (stripE a) = byweekdayOf a := by
  unfold byweekdayOf
  rw [ey_weekdayArg ea, ym_weekdayArg (ey_strip ea)]
  rfl

theorem ey_nwd (ea : EasterYArgs a) : truthy (bynweekdayOf a) = false := by
  unfold bynweekdayOf
  rw [ey_weekdayArg ea]
  cases hl : a.byweekday with
  | none => rfl
  | some l =>
    dsimp only
    have hnth : nthWeekdays a l = [] := by
      unfold nthWeekdays
      have : l.filter (fun w => !(w.2 == 0 || decide (a.freq > 1))) = [] := by
        apply List.filter_eq_nil_iff.mpr
        intro w hw
        have := ea.plain w (by rw [hl]; exact hw)
        simp [this]
      rw [this]; rfl
    rw [hnth]
    split
    · rfl
    · rfl

theorem ey_cuts (ea : EasterYArgs a) (h : construct a = .ok r) : CutsAgree a r := by
  obtain ⟨bh, bm, bs, hr⟩ := ey_rule ea h
  rw [hr]; exact ⟨rfl, rfl, rfl⟩

theorem ey_easterRule (ea : EasterYArgs a) (h : construct a = .ok r) : EasterRule r := by
  obtain ⟨bh, bm, bs, hr⟩ := ey_rule ea h
  rw [hr]; exact ⟨rfl, ey_nwd ea, (ey_easters ea).2.2⟩

/-- **bridge**: inside the year `y`, calendar predicate ∧ "Easter + offset" is `dateOk` -/
theorem ey_bridge (ea : EasterYArgs a) (h : construct a = .ok r) (info : Info) (y j : Int)
    (hy : 1 ≤ y) (hj0 : 0 ≤ j) (hj1 : j < daysInYear y) (hyo : info.yearordinal = toOrdinal y 1 1) :
    (simpleOk r (info.yearordinal + j) &&
      decide ((info.yearordinal + j - Spec.RRule.easterOrd y) ∈ eastersOf a)) =
      Spec.RRule.dateOk a (info.yearordinal + j) := by
  obtain ⟨bh, bm, bs, hr⟩ := ey_rule ea h
  obtain ⟨el, hel, hne, _⟩ := ea.easter
  obtain ⟨hmem, _, _⟩ := ey_easters ea
  rw [hel, Option.getD_some] at hmem
  have hfo := date_of_yday y j hy hj0 hj1
  rw [← hyo] at hfo
  have hpos : 1 ≤ info.yearordinal + j := by
    rw [hyo]
    have := toOrdinal_pos y 1 1 hy ⟨by omega, by omega, by omega, by have := daysInMonth_bounds y 1; omega⟩
    omega
  obtain ⟨_, hvd, _⟩ := toOrdinal_fromOrdinal (info.yearordinal + j) hpos
  rw [hfo] at hvd
  obtain ⟨_, _, hd1, hd2⟩ := hvd
  dsimp only at hd1 hd2
  rw [hr]
  unfold simpleOk Spec.RRule.dateOk
  rw [hfo]
  dsimp only
  have hnd : Spec.RRule.noDayParts a = noDayParts a := rfl
  have hmonths : Spec.RRule.months a = a.bymonth.getD [] := by
    unfold Spec.RRule.months; cases a.bymonth <;> simp [hnd, ey_noDay ea]
  have hmda : monthdayArg a = a.bymonthday := by unfold monthdayArg; simp [ey_noDay ea]
  have hmd : Spec.RRule.monthdays a = a.bymonthday.getD [] := by
    unfold Spec.RRule.monthdays; simp [hnd, ey_noDay ea]
  have hmc := monthday_clause_core a (by rw [hmda]; exact ea.monthday_nz)
    (monthDayOfYday (isLeap y) j).2
    ((monthDayOfYday (isLeap y) j).2 - daysInMonth y (monthOfYday (isLeap y) j) - 1) (by omega) (by omega)
  rw [hmda] at hmc
  have hwds : Spec.RRule.weekdays a = a.byweekday.getD [] := by
    unfold Spec.RRule.weekdays; simp [hnd, ey_noDay ea]
  have hwc := weekday_clause_ym (ey_strip ea) (weekdayOfOrd (info.yearordinal + j))
    (fun wn => Spec.RRule.nthOk a (info.yearordinal + j) y (monthOfYday (isLeap y) j) wn.2)
  rw [byweekdayOf_stripE ea] at hwc
  have hwc' : (!truthy (byweekdayOf a) || memO (weekdayOfOrd (info.yearordinal + j)) (byweekdayOf a)) =
      ((a.byweekday.getD []).isEmpty || (a.byweekday.getD []).any (fun wn =>
        wn.1 == weekdayOfOrd (info.yearordinal + j) &&
          (wn.2 == 0 || decide (a.freq > 1) ||
            Spec.RRule.nthOk a (info.yearordinal + j) y (monthOfYday (isLeap y) j) wn.2))) := hwc
  rw [hmonths, hmd, hwds, ea.byweekno, hel, month_clause, hwc', hmc]
  have htn : truthy (none : Option (List Int)) = false := rfl
  have hmn : ∀ w, memO w (none : Option (List Int)) = false := fun _ => rfl
  simp only [htn, hmn, List.isEmpty_nil, Bool.not_true, Bool.or_false, Bool.not_false, Bool.true_or, Bool.and_true,
    Bool.or_self, List.contains_nil]
  have hec : decide ((info.yearordinal + j - Spec.RRule.easterOrd y) ∈ eastersOf a) =
      (match some el with
       | some (x :: xs) => (x :: xs).contains (info.yearordinal + j - Spec.RRule.easterOrd y)
       | _ => true) := by
    cases el with
    | nil => exact absurd rfl hne
    | cons x xs =>
      dsimp only
      rw [Bool.eq_iff_iff, decide_eq_true_eq, List.contains_iff_mem, hmem]
  rw [hec]
  generalize ((a.bymonth.getD []).isEmpty || (a.bymonth.getD []).contains (monthOfYday (isLeap y) j)) = b1
  generalize ((a.byweekday.getD []).isEmpty || _) = b3
  generalize ((a.bymonthday.getD []).isEmpty || _ || _) = b4
  cases el with
  | nil => exact absurd rfl hne
  | cons x0 xs0 =>
    dsimp only
    generalize (x0 :: xs0).contains (info.yearordinal + j - Spec.RRule.easterOrd y) = b2
    rcases a.byyearday with _ | (_ | ⟨x, xs⟩)
    · cases b1 <;> cases b2 <;> cases b3 <;> cases b4 <;> rfl
    · cases b1 <;> cases b2 <;> cases b3 <;> cases b4 <;> rfl
    · rw [yearday_clause (some (x :: xs))]
      dsimp only
      cases b1 <;> cases b2 <;> cases b3 <;> cases b4 <;> simp

/-- "the model state at the start of period `k`" -/
structure EasterGood (a : Args) (r : Rule) (k : Nat) (st : State) : Prop where
  facts : YearFacts r st.cur.year st.info
  timeset : st.timeset = Spec.RRule.timesOf a none none none
  year : st.cur.year = a.dtstart.y + k * a.interval
  nwd : st.info.nwdaymask = none
  mask : ∃ mask, st.info.eastermask = some mask ∧
    ∀ j : Int, 0 ≤ j → j < st.info.yearlen + 7 →
      Py.getIdx mask j = .ok (if (st.info.yearordinal + j - Spec.RRule.easterOrd st.cur.year) ∈ eastersOf a then 1 else 0)

theorem getIdx_ok_len (l : List Int) (j : Int) (v : Int) (h0 : 0 ≤ j) (h : Py.getIdx l j = .ok v) : j < l.length := by
  unfold Py.getIdx at h
  dsimp only at h
  rw [if_neg (show ¬ j < 0 by omega)] at h
  split at h
  · cases h
  · rename_i hc; omega

theorem ey_results (ea : EasterYArgs a) (h : construct a = .ok r) (k : Nat) (st : State) (hg : EasterGood a r k st) :
    ∃ fl pre cands, periodResults r st = .ok (cands, none, fl) ∧ Spec.RRule.sel a (k : Int) = pre ++ cands ∧
      (∀ x ∈ pre, x.micros < Spec.RRule.startMicros a ∧ Spec.RRule.afterUntil a x = false) ∧
      (∀ x ∈ cands, 0 ≤ x.ord ∧ x.ord ≤ maxOrdinal) := by
  have he := ey_easterRule ea h
  obtain ⟨bh, bm, bs, hr⟩ := ey_rule ea h
  have hfreq : r.freq = 0 := by rw [hr]; exact ea.freq
  have hsp := construct_bysetpos a r h
  have htsok : TsOk st.timeset := by
    have := construct_timeset_ok a r h (by rw [ea.freq]; omega)
    rw [hr] at this; rw [hg.timeset]; exact this
  have hyo := hg.facts.yearordinal
  have hyl := hg.facts.yearlen
  have hy1 := hg.facts.year_lo
  have hy2 := hg.facts.year_hi
  have hylen : 365 ≤ st.info.yearlen := by rw [hyl]; unfold daysInYear; split <;> omega
  have hpos : 1 ≤ toOrdinal st.cur.year 1 1 :=
    toOrdinal_pos _ _ _ hy1 ⟨by omega, by omega, by omega, by have := daysInMonth_bounds st.cur.year 1; omega⟩
  have hend := year_end_le st.cur.year hy2
  have hd : dayset r st.info st.cur = .ok (intRange 0 st.info.yearlen) := dayset_yearly st.cur hfreq
  obtain ⟨mask, hmask, hmspec⟩ := hg.mask
  have hmlen : st.info.yearlen ≤ (mask.length : Int) := by
    have := getIdx_ok_len mask (st.info.yearlen + 6) _ (by omega) (hmspec (st.info.yearlen + 6) (by omega) (by omega))
    omega
  have hfil : ∀ i, 0 ≤ i → i < st.info.yearlen →
      dayFiltered r st.info i = .ok (!(Spec.RRule.dateOk a (st.info.yearordinal + i))) := by
    intro i hi0 hi1
    rw [dayFiltered_easter he hg.facts mask hg.nwd hmask i hi0 hi1 hmlen]
    have hgi := hmspec i hi0 (by omega)
    rw [getIdx_int mask i hi0 (by omega)] at hgi
    injection hgi with hgi
    have hbr := ey_bridge ea h st.info st.cur.year i hy1 hi0 (by rw [← hyl]; exact hi1) hyo
    rw [← hbr, hgi]
    congr 2
    by_cases c : (st.info.yearordinal + i - Spec.RRule.easterOrd st.cur.year) ∈ eastersOf a
    · rw [if_pos c, decide_eq_true c]; rfl
    · rw [if_neg c, decide_eq_false c]; rfl
  obtain ⟨fl, hres⟩ := periodResults_range_P st (Spec.RRule.dateOk a) hfil (by rw [hsp.1]; exact hsp.2) htsok hd
    (by rw [hyo]; omega) (by rw [hyo, hyl]; exact hend)
  have hspan : Spec.RRule.periodSpan a (k * a.interval) =
      (st.info.yearordinal + 0, st.info.yearordinal + st.info.yearlen, none, none, none) := by
    unfold Spec.RRule.periodSpan
    rw [if_pos (by simp [ea.freq])]
    dsimp only
    rw [← hg.year, hyo, hyl, toOrdinal_next_year]; simp
  refine ⟨fl, [], Spec.RRule.sel a (k : Int), ?_, rfl, by simp, ?_⟩
  · rw [hres, hg.timeset, sel_span_sp a k _ _ hspan, hsp.1]
  · intro x hx
    rw [sel_span_sp a k _ _ hspan] at hx
    have := sel_bounds _ _ _ _ x (applySetpos_subset _ _ x hx)
    rw [hyo, hyl] at this; omega

theorem ey_rebuild (ea : EasterYArgs a) (h : construct a = .ok r) (y m : Int) (hy1 : 1583 ≤ y) (hy2 : y ≤ 4099) :
    ∃ info mask, rebuild r y m = .ok info ∧ info.nwdaymask = none ∧ info.eastermask = some mask ∧
      ∀ j : Int, 0 ≤ j → j < info.yearlen + 7 →
        Py.getIdx mask j = .ok (if (info.yearordinal + j - Spec.RRule.easterOrd y) ∈ eastersOf a then 1 else 0) := by
  have he := ey_easterRule ea h
  obtain ⟨bh, bm, bs, hr⟩ := ey_rule ea h
  have hel : r.byeaster = some (eastersOf a) := by rw [hr]
  exact rebuild_easter he _ hel (ey_easters ea).2.1 y m hy1 hy2

theorem ey_next (ea : EasterYArgs a) (h : construct a = .ok r) (k : Nat) (st : State) (fl : Bool)
    (c : Option Int) (hg : EasterGood a r k st) (hlo : 1583 ≤ a.dtstart.y)
    (hy : a.dtstart.y + (k + 1 : Nat) * a.interval ≤ 4099) :
    ∃ st', advance r { st with count := c } fl = .ok st' ∧ EasterGood a r (k + 1) st' := by
  obtain ⟨bh, bm, bs, hr⟩ := ey_rule ea h
  have hfreq : r.freq = 0 := by rw [hr]; exact ea.freq
  have hint : r.interval = a.interval := by rw [hr]
  have hi := ea.interval
  have hyr := hg.year
  have ek : ((k + 1 : Nat) : Int) * a.interval = k * a.interval + a.interval := by
    push_cast; rw [Int.add_mul]; omega
  have hk0 : (0 : Int) ≤ k * a.interval := Int.mul_nonneg (by omega) (by omega)
  have hle : st.cur.year + r.interval ≤ 4099 := by rw [hint]; omega
  obtain ⟨info, mask, hre, h2, h3, h4⟩ := ey_rebuild ea h (st.cur.year + r.interval) st.cur.month
    (by rw [hint]; omega) hle
  have hadv : advance r { st with count := c } fl =
      .ok { cur := { st.cur with year := st.cur.year + r.interval }, info := info,
            timeset := st.timeset, count := c } := by
    unfold advance
    dsimp only
    rw [if_pos (by simp [hfreq]), if_neg (by omega), hre]
  exact ⟨_, hadv, ⟨rebuild_facts r _ _ info hre, hg.timeset, by dsimp only; rw [hyr, hint]; omega, h2, mask, h3, h4⟩⟩

theorem ey_init (ea : EasterYArgs a) (h : construct a = .ok r) (hlo : 1583 ≤ a.dtstart.y) (hhi : a.dtstart.y ≤ 4099) :
    ∃ st0, init r = .ok st0 ∧ EasterGood a r 0 st0 ∧ st0.count = r.count := by
  obtain ⟨bh, bm, bs, hr⟩ := ey_rule ea h
  have hfreq : r.freq = 0 := by rw [hr]; exact ea.freq
  obtain ⟨info, mask, hre, h2, h3, h4⟩ := ey_rebuild ea h a.dtstart.y a.dtstart.m hlo hhi
  have hd : r.dtstart = { a.dtstart with us := 0 } := by rw [hr]
  have hf : r.freq < 4 := by omega
  have hts : r.timeset = some (Spec.RRule.timesOf a none none none) := by rw [hr]
  refine ⟨{ cur := { year := a.dtstart.y, month := a.dtstart.m, day := a.dtstart.d, hour := a.dtstart.hh,
                     minute := a.dtstart.mm, second := a.dtstart.ss, weekday := r.dtstart.weekday },
            info := info, timeset := Spec.RRule.timesOf a none none none, count := r.count }, ?_, ?_, rfl⟩
  · unfold init
    simp only [hd, bind, Except.bind, hre, hts, pure, Except.pure]
    rw [if_pos hf]
    rfl
  · exact ⟨rebuild_facts r _ _ info hre, rfl, by dsimp only; omega, h2, mask, h3, h4⟩

/-- **`iter_eq_spec`, YEARLY with BYEASTER on the supported class** (the complement of D-C01d: offsets
    −80..250; years 1583..4099, where C19 ties `easter.easter` to Meeus/Jones/Butcher): FREQ=YEARLY,
    INTERVAL ≥ 1, a valid start, any BYMONTH / BYMONTHDAY (non-zero) / BYYEARDAY / plain BYDAY / BYHOUR / BYMINUTE /
    BYSECOND / BYSETPOS, any COUNT / UNTIL, no nth BYDAY / BYWEEKNO: exactly the specification's recurrence set. -/
theorem iter_eq_spec_yearly_easter (ea : EasterYArgs a) (h : construct a = .ok r) (n : Nat)
    (hlo : 1583 ≤ a.dtstart.y) (hy : a.dtstart.y + n * a.interval ≤ 4099) :
    (iter r n).1 = Spec.RRule.occ a n := by
  have hi := ea.interval
  have hmono : ∀ k : Nat, k ≤ n → (k : Int) * a.interval ≤ n * a.interval := by
    intro k hk; exact Int.mul_le_mul_of_nonneg_right (by omega) (by omega)
  have hn0 : (0 : Int) ≤ n * a.interval := Int.mul_nonneg (by omega) (by omega)
  have sim : Simulation a r n (EasterGood a r) := {
    agree := ey_cuts ea h
    results := fun k st _ hg => ey_results ea h k st hg
    next := fun k st fl c hk hg => ey_next ea h k st fl c hg hlo (by have := hmono (k + 1) (by omega); omega) }
  obtain ⟨st0, hinit, hg0, hc0⟩ := ey_init ea h hlo (by omega)
  exact iter_refines sim st0 hinit hg0 hc0 n (by omega)

end RRule
