/-
  Proofs/RRuleWeeklyWTail.lean — the 7-day TAIL of the week-number mask of `_iterinfo.rebuild`, which a WEEKLY period
  beginning in late December reads: for `yearlen ≤ j` inside the week that began in the old year (`j` before the next
  index that falls on the week start) the entry is marked iff the date's week number (or its number counted from the
  end of its week-year) is listed — on the complement of D-C01c, as inside the year (`buildWnomask_spec`).
  Two zones: the old year's last week running over the year end (marked by the main loop through `markWeek`), and the
  new year's week 1 beginning in the old year (the `if 1 in byweekno` block).
-/
import DateutilVerif.Proofs.RRuleWFilter

namespace RRule
open Cal

/-- the week number of one of the first seven days of the next year -/
theorem weekOf_tail (w y j : Int) (hw : 0 ≤ w ∧ w ≤ 6) (hy : 1 ≤ y) (hj0 : daysInYear y ≤ j)
    (hj1 : j < daysInYear y + 7) :
    ∃ Q Nn, (Nn = 52 ∨ Nn = 53) ∧
      Spec.RRule.week1Start w (y + 1) = Spec.RRule.week1Start w y + 7 * Q ∧
      (toOrdinal y 1 1 + j < Spec.RRule.week1Start w (y + 1) →
        Spec.RRule.weekOf w (toOrdinal y 1 1 + j) = ((toOrdinal y 1 1 + j - Spec.RRule.week1Start w y) / 7 + 1, Q)) ∧
      (Spec.RRule.week1Start w (y + 1) ≤ toOrdinal y 1 1 + j →
        Spec.RRule.weekOf w (toOrdinal y 1 1 + j) =
          ((toOrdinal y 1 1 + j - Spec.RRule.week1Start w (y + 1)) / 7 + 1, Nn)) := by
  obtain ⟨Q, hQ, hQ2⟩ := weeks_in_year w y hw
  obtain ⟨Nn, hNn, hNn2⟩ := weeks_in_year w (y + 1) hw
  have e1 := week1Start_eq w y
  have e2 := week1Start_eq w (y + 1)
  have e3 := week1Start_eq w (y + 1 + 1)
  have r1 := w1off_range w (weekdayOfOrd (toOrdinal y 1 1))
  have r2 := w1off_range w (weekdayOfOrd (toOrdinal (y + 1) 1 1))
  have r3 := w1off_range w (weekdayOfOrd (toOrdinal (y + 1 + 1) 1 1))
  have hn := toOrdinal_next_year y
  have hn2 := toOrdinal_next_year (y + 1)
  have hl2 : daysInYear (y + 1) = 365 ∨ daysInYear (y + 1) = 366 := by unfold daysInYear; split <;> omega
  have hl1 : daysInYear y = 365 ∨ daysInYear y = 366 := by unfold daysInYear; split <;> omega
  have hfo := date_of_index y j hy (by omega) hj1
  rw [if_neg (by omega)] at hfo
  have e0 : y + 1 - 1 = y := by omega
  refine ⟨Q, Nn, hNn2, by omega, ?_, ?_⟩
  · intro h
    unfold Spec.RRule.weekOf
    rw [hfo]; dsimp only
    rw [if_neg (by omega), if_neg (by omega), e0]
    ext <;> dsimp only <;> omega
  · intro h
    unfold Spec.RRule.weekOf
    rw [hfo]; dsimp only
    rw [if_neg (by omega), if_pos (by omega)]
    ext <;> dsimp only <;> omega

variable {r : Rule} {y : Int} {info : Info}

/-- **the tail of the week-number mask**: beyond the year end, up to the next week start, an index is marked iff the
    date's week number, or its week number counted from the end of its week-year, is listed (complement of D-C01c) -/
theorem buildWnomask_tail (f : YearFacts r y info) (wkst : Int) (hw : 0 ≤ wkst ∧ wkst ≤ 6) (bw : List Int)
    (hc : WnoOk bw) :
    ∃ mask, buildWnomask wkst bw y info.yearlen info.yearweekday info.wdaymask = .ok mask ∧
      (mask.length : Int) = info.yearlen + 7 ∧
      ∀ j : Int, info.yearlen ≤ j →
        j < info.yearlen + (wkst - weekdayOfOrd (info.yearordinal + info.yearlen)) % 7 →
        Py.getIdx mask j = .ok (if weekClause wkst bw (info.yearordinal + j) = true then 1 else 0) := by
  have hl : info.yearlen = 365 ∨ info.yearlen = 366 := by rw [f.yearlen]; unfold daysInYear; split <;> omega
  have hd := weekdayOfOrd_range (toOrdinal y 1 1)
  rw [← f.yearweekday] at hd
  obtain ⟨v1, v2, v3, v4, v5, v6⟩ := wno_vals wkst info.yearweekday hw ⟨hd.1, by omega⟩
  obtain ⟨n1, n2, n3⟩ := numweeks_year f wkst hw
  have hws := week1Start_weekday wkst y hw
  have hnext := week1Start_eq wkst (y + 1)
  rw [toOrdinal_next_year, ← f.yearordinal, ← f.yearlen] at hnext
  have hr2 := w1off_range wkst (weekdayOfOrd (info.yearordinal + info.yearlen))
  have hwd' := weekdayOfOrd_range (info.yearordinal + info.yearlen)
  have hlc := lnumweeks_cases wkst bw y info.yearlen info.yearweekday (no1wkstOf wkst info.yearweekday)
  rw [buildWnomask_unfold]
  generalize lnumweeksOf wkst bw y info.yearlen info.yearweekday (no1wkstOf wkst info.yearweekday) = ln at *
  generalize numweeksOf wkst info.yearweekday info.yearlen = Q at *
  generalize backOf wkst info.yearweekday = B at *
  generalize no1wkstOf wkst info.yearweekday = N1 at *
  generalize w1off wkst info.yearweekday = S at *
  have hlen0 : ((List.replicate (info.yearlen + 7).toNat (0 : Int)).length : Int) = info.yearlen + 7 := by
    rw [List.length_replicate]; omega
  have hg0 : ∀ j : Int, 0 ≤ j → j < info.yearlen + 7 →
      Py.getIdx (List.replicate (info.yearlen + 7).toNat (0 : Int)) j = .ok 0 := by
    intro j h0 h1
    rw [getIdx_int _ j h0 (by omega), List.getElem_replicate]
  have hws' : weekdayOfOrd (info.yearordinal + (N1 - B)) = wkst := by rw [v1, ← n1]; exact hws
  obtain ⟨m1, hm1, hl1, hg1⟩ := weekLoop_spec f wkst hw N1 Q B ⟨v2, v3⟩ v6 hws' (by omega) bw _ hlen0
  rw [hm1]
  dsimp only
  have hl1' : (m1.length : Int) = info.yearlen + 7 := by rw [hl1]; exact hlen0
  -- next year's week 1
  have h2 : ∃ m2, (if bw.contains 1 = true ∧ N1 + Q * 7 - B < info.yearlen
        then markWeek info.wdaymask wkst 7 m1 (N1 + Q * 7 - B) else .ok m1) = .ok m2 ∧
      (m2.length : Int) = info.yearlen + 7 ∧
      ∀ j : Int, 0 ≤ j → j < info.yearlen + 7 →
        Py.getIdx m2 j = (if (bw.contains 1 = true ∧ N1 + Q * 7 - B < info.yearlen) ∧
            N1 + Q * 7 - B ≤ j ∧ j < N1 + Q * 7 - B + 7 then .ok 1 else Py.getIdx m1 j) := by
    by_cases c : bw.contains 1 = true ∧ N1 + Q * 7 - B < info.yearlen
    · rw [if_pos c]
      obtain ⟨m2, hm2, hl2, hg2⟩ := markWeek_week f wkst hw (N1 + Q * 7 - B) m1 (by omega) (by omega) (by omega)
      refine ⟨m2, hm2, by rw [hl2]; exact hl1', ?_⟩
      intro j hj0 hj1
      rw [hg2 j hj0 (by omega)]
      have hwd : weekdayOfOrd (info.yearordinal + (N1 + Q * 7 - B)) = wkst := by
        have e : info.yearordinal + (N1 + Q * 7 - B) = info.yearordinal + (N1 - B) + 7 * Q := by omega
        rw [e, weekdayOfOrd_add, hws']; omega
      rw [hwd]
      have e7 : (wkst - wkst - 1) % 7 + 1 = 7 := by omega
      rw [e7]
      by_cases c2 : N1 + Q * 7 - B ≤ j ∧ j < N1 + Q * 7 - B + 7
      · rw [if_pos c2, if_pos ⟨c, c2⟩]
      · rw [if_neg c2, if_neg (fun h => c2 h.2)]
    · rw [if_neg c]
      refine ⟨m1, rfl, hl1', ?_⟩
      intro j _ _
      rw [if_neg (fun h => c h.1)]
  obtain ⟨m2, hm2, hl2, hg2⟩ := h2
  rw [hm2]
  dsimp only
  -- last year's last week
  have h3 : ∃ m3, (if N1 ≠ 0 ∧ bw.contains ln = true
        then (intRange 0 N1).foldlM (fun mask i => setIdx mask i 1) m2 else .ok m2) = .ok m3 ∧
      (m3.length : Int) = info.yearlen + 7 ∧
      ∀ j : Int, 0 ≤ j → j < info.yearlen + 7 →
        Py.getIdx m3 j = (if (N1 ≠ 0 ∧ bw.contains ln = true) ∧ j < N1 then .ok 1 else Py.getIdx m2 j) := by
    by_cases c : N1 ≠ 0 ∧ bw.contains ln = true
    · rw [if_pos c]
      obtain ⟨m3, hm3, hl3, hg3⟩ := setRange_spec N1 m2 ⟨v2, by omega⟩
      refine ⟨m3, hm3, by rw [hl3]; exact hl2, ?_⟩
      intro j hj0 hj1
      rw [hg3 j hj0 (by omega)]
      by_cases c2 : j < N1
      · rw [if_pos c2, if_pos ⟨c, c2⟩]
      · rw [if_neg c2, if_neg (fun h => c2 h.2)]
    · rw [if_neg c]
      refine ⟨m2, rfl, hl2, ?_⟩
      intro j _ _
      rw [if_neg (fun h => c h.1)]
  obtain ⟨m3, hm3, hl3, hg3⟩ := h3
  refine ⟨m3, hm3, hl3, ?_⟩
  intro j hjlo hjhi
  have hj0 : 0 ≤ j := by omega
  have hj1 : j < info.yearlen + 7 := by omega
  rw [hg3 j hj0 hj1, hg2 j hj0 hj1, hg1 j hj0 hj1, hg0 j hj0 hj1]
  -- the specification's side
  obtain ⟨Q', Nn, hNn, hQ', z2, z3⟩ := weekOf_tail wkst y j hw f.year_lo (by rw [← f.yearlen]; exact hjlo)
    (by rw [← f.yearlen]; exact hj1)
  rw [← f.yearordinal] at z2 z3
  have hQQ : Q' = Q := by omega
  subst hQQ
  have hmem : ∀ x : Int, bw.contains x = true ↔ x ∈ bw := fun x => List.contains_iff_mem
  unfold w1off at hnext
  unfold weekClause
  rw [if_neg (show ¬ ((N1 ≠ 0 ∧ bw.contains ln = true) ∧ j < N1) by rintro ⟨_, h⟩; omega)]
  by_cases zd : info.yearordinal + j < Spec.RRule.week1Start wkst (y + 1)
  · -- the old year's last week
    rw [z2 zd]
    dsimp only
    have hS : S ≤ j ∧ j < S + 7 * Q' := by omega
    have e : (info.yearordinal + j - Spec.RRule.week1Start wkst y) / 7 + 1 = (j - S) / 7 + 1 := by
      rw [n1]; congr 2; omega
    rw [e]
    rw [if_neg (show ¬ ((bw.contains 1 = true ∧ N1 + Q' * 7 - B < info.yearlen) ∧
          N1 + Q' * 7 - B ≤ j ∧ j < N1 + Q' * 7 - B + 7) by rintro ⟨_, h, _⟩; omega)]
    have hin : ∀ n' : Int, inWeek (N1 - B) n' j ↔ n' = (j - S) / 7 + 1 := by
      intro n'; unfold inWeek; rw [v1]; omega
    have hiff : (∃ n ∈ bw, 0 < normWeek Q' n ∧ normWeek Q' n ≤ Q' ∧ inWeek (N1 - B) (normWeek Q' n) j) ↔
        (bw.contains ((j - S) / 7 + 1) || bw.contains ((j - S) / 7 + 1 - Q' - 1)) = true := by
      rw [Bool.or_eq_true, hmem, hmem]
      constructor
      · rintro ⟨n, hn, h1, h2, h3⟩
        rw [hin] at h3
        unfold normWeek at h1 h2 h3
        by_cases cn : n < 0
        · rw [if_pos cn] at h1 h2 h3
          right
          have : (j - S) / 7 + 1 - Q' - 1 = n := by omega
          rw [this]; exact hn
        · rw [if_neg cn] at h1 h2 h3
          left; rw [← h3]; exact hn
      · rintro (h | h)
        · refine ⟨_, h, ?_⟩
          have : normWeek Q' ((j - S) / 7 + 1) = (j - S) / 7 + 1 := by unfold normWeek; rw [if_neg (by omega)]
          rw [this, hin]
          exact ⟨by omega, by omega, rfl⟩
        · refine ⟨_, h, ?_⟩
          have : normWeek Q' ((j - S) / 7 + 1 - Q' - 1) = (j - S) / 7 + 1 := by
            unfold normWeek; rw [if_pos (by omega)]; omega
          rw [this, hin]
          exact ⟨by omega, by omega, rfl⟩
    by_cases c1 : ∃ n ∈ bw, 0 < normWeek Q' n ∧ normWeek Q' n ≤ Q' ∧ inWeek (N1 - B) (normWeek Q' n) j
    · rw [if_pos c1, if_pos (hiff.mp c1)]
    · rw [if_neg c1, if_neg (fun h => c1 (hiff.mpr h))]
  · -- the new year's week 1, begun in the old year
    rw [z3 (by omega)]
    dsimp only
    have hS : S + 7 * Q' ≤ j ∧ j < S + 7 * Q' + 7 ∧ S + 7 * Q' < info.yearlen := by
      split at hnext <;> omega
    have e1 : (info.yearordinal + j - Spec.RRule.week1Start wkst (y + 1)) / 7 + 1 = 1 := by omega
    rw [e1]
    have e : (1 : Int) - Nn - 1 = -Nn := by omega
    rw [e]
    have c1 : ¬ ∃ n ∈ bw, 0 < normWeek Q' n ∧ normWeek Q' n ≤ Q' ∧ inWeek (N1 - B) (normWeek Q' n) j := by
      rintro ⟨n, _, h1, h2, h3, h4⟩; rw [v1] at h4; omega
    rw [if_neg c1]
    by_cases c1' : (1 : Int) ∈ bw
    · rw [if_pos ⟨⟨(hmem 1).mpr c1', by omega⟩, by omega, by omega⟩]
      have : (bw.contains 1 || bw.contains (-Nn)) = true := by rw [(hmem 1).mpr c1']; simp
      rw [if_pos this]
    · have hn1 : ¬ (bw.contains 1 = true) := by rw [hmem]; exact c1'
      rw [if_neg (fun h => hn1 h.1.1)]
      have hnn : ¬ (bw.contains (-Nn) = true) := by
        rw [hmem]; rcases hNn with h | h <;> rw [h]
        · exact fun h => c1' (hc.first (Or.inl h))
        · exact fun h => c1' (hc.first (Or.inr h))
      have : ¬ ((bw.contains 1 || bw.contains (-Nn)) = true) := by
        rw [Bool.or_eq_true]; exact fun h => h.elim hn1 hnn
      rw [if_neg this]

open RRule.Tables in
/-- the BY-filter with a week-number mask, over the year and its 7-day tail -/
theorem dayFiltered_weekno7 (hr : WeeknoRule r) (f : YearFacts r y info) (mask : List Int)
    (hnw : info.nwdaymask = none) (hm : info.wnomask = some mask) (i : Int) (h0 : 0 ≤ i) (h1 : i < info.yearlen + 7)
    (hlen : info.yearlen + 7 ≤ (mask.length : Int)) :
    dayFiltered r info i =
      .ok (!(simpleOk r (info.yearordinal + i) && (mask[i.toNat]'(by omega) != 0))) := by
  have hlen' : info.yearlen ≤ 366 := by rw [f.yearlen]; unfold daysInYear; split <;> omega
  have hdate := date_of_index y i f.year_lo h0 (by rw [← f.yearlen]; exact h1)
  rw [← f.yearordinal] at hdate
  have hmask : Py.getIdx mask i = .ok (mask[i.toNat]'(by omega)) := getIdx_int mask i h0 (by omega)
  unfold dayFiltered
  rw [mmask_date f i h0 h1, wdaymask_date f i h0 (by omega), mdaymask_date f i h0 h1,
      nmdaymask_date f i h0 h1, hnw, hm]
  simp only [maskMiss, hr.byweekno, hr.byeaster, Bool.false_eq_true, ↓reduceIte, hmask]
  have hyd : (decide (i < info.yearlen) && !memO (i + 1) r.byyearday && !memO (-info.yearlen + i) r.byyearday ||
      decide (i ≥ info.yearlen) && !memO (i + 1 - info.yearlen) r.byyearday &&
        !memO (-info.nextyearlen + i - info.yearlen) r.byyearday) =
      !(memO (info.yearordinal + i - toOrdinal (fromOrdinal (info.yearordinal + i)).1 1 1 + 1) r.byyearday ||
        memO (info.yearordinal + i - toOrdinal (fromOrdinal (info.yearordinal + i)).1 1 1 + 1 -
              daysInYear (fromOrdinal (info.yearordinal + i)).1 - 1) r.byyearday) := by
    rw [hdate]
    by_cases c : i < info.yearlen
    · have c' : i < daysInYear y := by rw [← f.yearlen]; exact c
      rw [if_pos c']
      have e1 : info.yearordinal + i - toOrdinal y 1 1 + 1 = i + 1 := by rw [f.yearordinal]; omega
      have e2 : i + 1 - daysInYear y - 1 = -info.yearlen + i := by rw [f.yearlen]; omega
      dsimp only
      rw [e1, e2]
      have c2 : ¬ (i ≥ info.yearlen) := by omega
      simp [c, c2]
    · have c' : ¬ i < daysInYear y := by rw [← f.yearlen]; exact c
      rw [if_neg c']
      dsimp only
      have e1 : info.yearordinal + i - toOrdinal (y + 1) 1 1 + 1 = i + 1 - info.yearlen := by
        rw [toOrdinal_next_year, f.yearordinal, f.yearlen]; omega
      have e2 : i + 1 - info.yearlen - daysInYear (y + 1) - 1 = -info.nextyearlen + i - info.yearlen := by
        rw [f.nextyearlen]; omega
      rw [e1, e2]
      have c2 : i ≥ info.yearlen := by omega
      simp [c, c2]
  unfold simpleOk
  rw [hyd]
  generalize memO (info.yearordinal + i - toOrdinal (fromOrdinal (info.yearordinal + i)).1 1 1 + 1) r.byyearday = ya
  generalize memO (info.yearordinal + i - toOrdinal (fromOrdinal (info.yearordinal + i)).1 1 1 + 1 -
              daysInYear (fromOrdinal (info.yearordinal + i)).1 - 1) r.byyearday = yb
  generalize (fromOrdinal (info.yearordinal + i)).2.1 = mo
  generalize (fromOrdinal (info.yearordinal + i)).2.2 = dd
  generalize (fromOrdinal (info.yearordinal + i)).1 = yy
  generalize weekdayOfOrd (info.yearordinal + i) = wd
  generalize (mask[i.toNat]'(by omega)) = mv
  have hbne : (mv != 0) = !(mv == 0) := rfl
  rw [hbne]
  generalize (mv == 0) = mz
  cases truthy r.bymonth <;> cases memO mo r.bymonth <;> cases truthy r.byweekday <;>
    cases memO wd r.byweekday <;> cases r.bymonthday.isEmpty <;> cases r.bynmonthday.isEmpty <;>
    cases r.bymonthday.contains dd <;> cases r.bynmonthday.contains (dd - daysInMonth yy mo - 1) <;>
    cases truthy r.byyearday <;> cases ya <;> cases yb <;> cases mz <;> rfl

/-- how far a WEEKLY period beginning in this year can read: to the first week start on or after next Jan 1 -/
def readEnd (r : Rule) (info : Info) : Int :=
  info.yearlen + (r.wkst - weekdayOfOrd (info.yearordinal + info.yearlen)) % 7

/-- what `rebuild` establishes for a `WRule`, including the readable part of the mask's tail -/
def WInvT (r : Rule) (info : Info) : Prop :=
  info.nwdaymask = none ∧
  (truthy r.byweekno = false → info.wnomask = none) ∧
  (truthy r.byweekno = true → ∃ mask, info.wnomask = some mask ∧ (mask.length : Int) = info.yearlen + 7 ∧
    ∀ j : Int, 0 ≤ j → j < readEnd r info →
      Py.getIdx mask j = .ok (if weekClause r.wkst (r.byweekno.getD []) (info.yearordinal + j) = true then 1 else 0))

theorem rebuild_wT (hw : WRule r) (y m : Int) (hy1 : 1 ≤ y) (hy2 : y ≤ 9999) :
    ∃ info, rebuild r y m = .ok info ∧ WInvT r info := by
  rcases hw.weekno with h | ⟨h, wl, hwl, hok, hk⟩
  · obtain ⟨info, hre, h1, h2, _⟩ := rebuild_simple r (hw.simple h) y m hy1 hy2
    refine ⟨info, hre, ?_⟩
    unfold WInvT
    exact ⟨h1, fun _ => h2, fun h' => by rw [h] at h'; cases h'⟩
  · have hr := hw.weeknoRule h
    have hnwd : ∀ (yl : Int) (mr wd : List Int), buildNwdaymask r yl mr wd m = .ok none := by
      intro yl mr wd
      unfold buildNwdaymask
      have := hr.bynweekday
      split
      · rename_i h; rw [h] at this; simp [truthy] at this
      · rfl
    have he : eastermaskOf r y (baseInfo y) = .ok none := by
      unfold eastermaskOf; have := hr.byeaster
      split
      · rename_i h; rw [h] at this; simp [truthy] at this
      · rfl
    have hf := baseInfo_facts r y hy1 hy2
    obtain ⟨mask, h1, h2, h3⟩ := buildWnomask_spec hf r.wkst hk wl hok
    obtain ⟨mask', h1', _, h3'⟩ := buildWnomask_tail hf r.wkst hk wl hok
    rw [h1] at h1'
    injection h1' with h1'
    subst h1'
    have hne : ∃ w ws, wl = w :: ws := by
      have := hr.byweekno; rw [hwl] at this
      cases wl with
      | nil => simp [truthy] at this
      | cons w ws => exact ⟨w, ws, rfl⟩
    obtain ⟨w, ws, hwws⟩ := hne
    have hwm : wnomaskOf r y (baseInfo y) = .ok (some mask) := by
      unfold wnomaskOf
      rw [hwl, hwws]
      dsimp only
      rw [← hwws, h1]
    refine ⟨{ baseInfo y with wnomask := some mask, nwdaymask := none, eastermask := none }, ?_, ?_⟩
    · unfold rebuild
      rw [if_neg (by omega), hwm]
      dsimp only
      rw [hnwd]
      dsimp only
      rw [he]
    · unfold WInvT
      refine ⟨rfl, fun h' => (by rw [h] at h'; cases h'), fun _ => ⟨mask, rfl, h2, ?_⟩⟩
      intro j hj0 hj1
      rw [hwl, Option.getD_some]
      by_cases c : j < (baseInfo y).yearlen
      · exact h3 j hj0 c
      · exact h3' j (by omega) hj1

theorem dayFiltered_wT (hw : WRule r) (f : YearFacts r y info) (inv : WInvT r info) (i : Int) (h0 : 0 ≤ i)
    (h1 : i < readEnd r info) :
    dayFiltered r info i = .ok (!(simpleOk r (info.yearordinal + i) && wclause r (info.yearordinal + i))) := by
  have h7 : i < info.yearlen + 7 := by unfold readEnd at h1; omega
  unfold wclause
  by_cases h : truthy r.byweekno = true
  · obtain ⟨mask, hm, hlen, hspec⟩ := inv.2.2 h
    rw [dayFiltered_weekno7 (hw.weeknoRule h) f mask inv.1 hm i h0 h7 (by omega), if_pos h]
    have hgi := hspec i h0 h1
    rw [getIdx_int mask i h0 (by omega)] at hgi
    injection hgi with hgi
    rw [hgi]
    congr 2
    by_cases c : weekClause r.wkst (r.byweekno.getD []) (info.yearordinal + i) = true
    · rw [if_pos c, c]; rfl
    · rw [if_neg c]
      have : weekClause r.wkst (r.byweekno.getD []) (info.yearordinal + i) = false := by
        cases hq : weekClause r.wkst (r.byweekno.getD []) (info.yearordinal + i) with
        | false => rfl
        | true => exact absurd hq c
      rw [this]; rfl
  · have h' : truthy r.byweekno = false := by
      cases hq : truthy r.byweekno with
      | false => rfl
      | true => exact absurd hq h
    rw [dayFiltered_simple (hw.simple h') f inv.1 i h0 h7, if_neg h, Bool.and_true]

/-- `fixDay` for a `WRule`: succeeds while the cursor's day number stays in range, and keeps `WInvT` -/
theorem fixDay_ok_wT (hw : WRule r) (st : State) (b : Bool)
    (hm1 : 1 ≤ st.cur.month) (hm12 : st.cur.month ≤ 12) (hd1 : 1 ≤ st.cur.day)
    (hy1 : 1 ≤ st.cur.year) (hy : st.cur.year ≤ 9999) (hle : curOrd st.cur ≤ maxOrdinal)
    (inv : WInvT r st.info) :
    ∃ st', fixDay r st b = .ok st' ∧ WInvT r st'.info := by
  unfold fixDay
  dsimp only
  split
  · split
    · obtain ⟨⟨y, m, d⟩, hroll⟩ := rollDays_total st.cur.day.toNat st.cur.year st.cur.month st.cur.day
        hm1 hm12 hd1 (by omega) hy hle
      have sp := rollDays_spec st.cur.day.toNat _ _ _ y m d hm1 hm12 hd1 (by omega) hroll
      obtain ⟨info, hre, hinv⟩ := rebuild_wT hw y m (by omega) (by omega)
      rw [hroll]; dsimp only
      rw [hre]
      exact ⟨_, rfl, hinv⟩
    · exact ⟨_, rfl, inv⟩
  · exact ⟨_, rfl, inv⟩

end RRule
