/-
  Proofs/RRuleEMinutelyBH.lean — Proofs/RRuleMinutelyBH.lean with BYEASTER (complement of D-C01d: offsets
  −80..250, visited days inside 1583..4099, no BYWEEKNO) instead of "no BYEASTER": the same refinement over the
  BY-filter abstraction of Proofs/RRuleEFilter.lean.  The lemmas of Proofs/RRuleMinutelyBH.lean that do not
  mention the argument class are used from there.
-/
import DateutilVerif.Proofs.RRuleEFilter
import DateutilVerif.Proofs.RRuleMinutelyBH
import DateutilVerif.Proofs.RRuleEMinutely

namespace RRule
open Cal

structure MinutelyBHEArgs (a : Args) : Prop where
  freq : a.freq = 5
  interval : 1 ≤ a.interval
  valid : a.dtstart.Valid
  byweekno : a.byweekno = none
  easter : ∃ el, a.byeaster = some el ∧ el ≠ [] ∧ ∀ o ∈ el, -80 ≤ o ∧ o ≤ 250
  monthday_nz : ∀ x ∈ a.bymonthday.getD [], x ≠ 0
  hours : ∃ l, a.byhour = some l ∧ l ≠ []
  byminute : a.byminute = none
  seconds_ok : ∀ x ∈ a.bysecond.getD [], 0 ≤ x ∧ x ≤ 59
  reach : reachableHourM a

variable {a : Args} {r : Rule}

theorem mhe_dw (ma : MinutelyBHEArgs a) : DWArgs (asDailyE a) :=
  ⟨Or.inr rfl, ma.interval, ma.valid, ma.byweekno, rfl, ma.monthday_nz⟩

abbrev minutelyBHERuleOf (a : Args) (bs : Option (List Int)) : Rule :=
  { freq := a.freq, interval := a.interval, wkst := a.wkst.getD 0,
    dtstart := { a.dtstart with us := 0 }, tz := a.tz, count := a.count, untilDT := a.untilDT,
    bysetpos := a.bysetpos, bymonth := a.bymonth.map sortedSet, bymonthday := bymonthdayOf a,
    bynmonthday := bynmonthdayOf a, byyearday := a.byyearday.map sortedSet,
    byeaster := a.byeaster.map (sortBy ltInt), byweekno := none,
    byweekday := byweekdayOf a, bynweekday := bynweekdayOf a,
    byhour := a.byhour.map sortedSet, byminute := none, bysecond := bs, timeset := none }

theorem mhe_rule (ma : MinutelyBHEArgs a) (h : construct a = .ok r) :
    ∃ bs, r = minutelyBHERuleOf a bs ∧ normUnit a.freq 6 a.interval a.dtstart.ss a.bysecond 60 = .ok bs := by
  obtain ⟨sp, bh, bm, bs, ts, h1, h2, h3, h4, h5, rfl⟩ := construct_ok a r h
  have hsp := (normBysetpos_ok a sp h1).1
  subst hsp
  obtain ⟨l, hl, _⟩ := ma.hours
  have hbh : bh = a.byhour.map sortedSet := by
    unfold normUnit at h2
    rw [hl] at h2
    dsimp only at h2
    rw [if_neg (by simp [ma.freq])] at h2
    injection h2 with h2; rw [hl]; exact h2.symm
  have hbm : bm = none := by
    unfold normUnit at h3
    rw [ma.byminute] at h3
    dsimp only at h3
    rw [if_neg (by rw [ma.freq]; omega)] at h3
    injection h3 with h3; exact h3.symm
  have hts : ts = none := by
    unfold timesetOf at h5
    rw [if_pos (by rw [ma.freq]; omega)] at h5
    injection h5 with h5; exact h5.symm
  subst hbh hbm hts
  have hne0 : (a.freq == 0) = false := by simp [ma.freq]
  exact ⟨bs, by simp [minutelyBHERuleOf, hne0, ma.byweekno, bymonthOf], h4⟩

theorem mhe_cuts (ma : MinutelyBHEArgs a) (h : construct a = .ok r) : CutsAgree a r := by
  obtain ⟨bs, hr, _⟩ := mhe_rule ma h
  rw [hr]; exact ⟨rfl, rfl, rfl⟩

theorem mhe_erule (ma : MinutelyBHEArgs a) (h : construct a = .ok r) : ERule r := by
  have hd := construct_nth_demoted a r h (by rw [ma.freq]; omega)
  obtain ⟨bs, hr, _⟩ := mhe_rule ma h
  rw [hr] at hd ⊢
  refine erule_of a _ ma.easter rfl rfl ?_
  dsimp only at hd ⊢
  rcases hd with hd | hd <;> rw [hd] <;> rfl

theorem mhe_bridge (ma : MinutelyBHEArgs a) (h : construct a = .ok r) (ord : Int) (ho : 1 ≤ ord) :
    (simpleOk r ord && eclause r ord) = Spec.RRule.dateOk a ord := by
  obtain ⟨bs, hr, _⟩ := mhe_rule ma h
  rw [hr]
  exact eOk_eq_dateOk a _ (by rw [ma.freq]; omega) (mhe_dw ma) ma.easter rfl rfl rfl rfl rfl rfl ord ho

/-- the minute's time set: the model's `mtimeset`, and the specification's (empty when the hour is not listed) -/
theorem mtimeset_mh_e (ma : MinutelyBHEArgs a) (h : construct a = .ok r) (hour minute : Int)
    (h0 : 0 ≤ hour) (h1 : hour ≤ 23) (m0 : 0 ≤ minute) (m1 : minute ≤ 59) :
    ∃ prod, mtimeset r hour minute = .ok prod ∧ TsOk prod ∧
      Spec.RRule.timesOf a (some hour) (some minute) none = (if (hoursOf a).contains hour then prod else []) := by
  obtain ⟨bs, hr, h4⟩ := mhe_rule ma h
  obtain ⟨l, hl, _⟩ := ma.hours
  have n4 := normUnit_nodup _ _ _ _ _ _ _ h4
  have m4 := normUnit_mem _ _ _ _ _ _ _ (by rw [ma.freq]; omega) h4
  have hv := ma.valid
  unfold DT.Valid at hv
  have hvs : ∀ x ∈ bs.getD [], 0 ≤ x ∧ x ≤ 59 := by
    intro x hx
    have := (m4 x).mp hx
    cases hb : a.bysecond with
    | none => rw [hb] at this; simp at this; omega
    | some l => rw [hb] at this; exact ma.seconds_ok x (by rw [hb]; exact this)
  have hvalid : ∀ t ∈ productHMS [hour] [minute] (bs.getD []), ValidHMS t := by
    intro t ht
    rw [mem_productHMS] at ht
    obtain ⟨a1, a2, a3⟩ := ht
    simp at a1 a2
    have := hvs _ a3
    unfold ValidHMS; omega
  have hspec : Spec.RRule.timesOf a (some hour) (some minute) none =
      (if (hoursOf a).contains hour
       then productHMS [hour] [minute] (specUnit a.bysecond a.dtstart.ss 60) else []) := by
    unfold Spec.RRule.timesOf Spec.RRule.restrict Spec.RRule.hours Spec.RRule.minutes Spec.RRule.seconds
      productHMS specUnit hoursOf
    rw [hl, ma.byminute]
    dsimp only
    rw [List.filter_filter, if_neg (show ¬ a.freq < 5 by rw [ma.freq]; omega), filter_eq_minute minute m0 m1]
    have hf : (intRange 0 24).filter (fun x => (x == hour) && l.contains x) =
        (if l.contains hour then [hour] else []) := by
      have : ∀ x, ((x == hour) && l.contains x) = ((x == hour) && l.contains hour) := by
        intro x
        by_cases c : x = hour
        · subst c; rfl
        · have : (x == hour) = false := by rw [beq_eq_false_iff_ne]; exact c
          rw [this]; rfl
      simp only [this]
      by_cases c : l.contains hour = true
      · simp only [c, Bool.and_true, ↓reduceIte]; exact filter_eq_hour hour h0 h1
      · have c' : l.contains hour = false := by
          cases hq : l.contains hour with
          | false => rfl
          | true => exact absurd hq c
        simp only [c', Bool.and_false, Bool.false_eq_true, ↓reduceIte]
        exact List.filter_eq_nil_iff.mpr (by intro x _; exact Bool.false_ne_true)
    rw [hf, if_pos (by rw [ma.freq]; omega : a.freq < 6)]
    by_cases c : l.contains hour = true
    · simp only [c, ↓reduceIte, Option.getD_some]
      cases a.bysecond <;> rfl
    · have c' : l.contains hour = false := by
        cases hq : l.contains hour with
        | false => rfl
        | true => exact absurd hq c
      simp only [c', Bool.false_eq_true, ↓reduceIte, Option.getD_some, List.flatMap_nil]
  have hsorted := productHMS_sorted [hour] [minute] _ (by simp) (by simp)
    (specUnit_sorted a.bysecond a.dtstart.ss 60)
  have hsu : ∀ (arg : Option (List Int)) (start bound x : Int), 0 ≤ x → x < bound →
      (x ∈ specUnit arg start bound ↔ x ∈ (match arg with | some l => l | none => [start])) := by
    intro arg start bound x h0 h1
    unfold specUnit
    cases arg with
    | none => rfl
    | some l =>
      simp only [List.mem_filter, mem_intRange, List.contains_iff_mem]
      constructor
      · exact fun h => h.2
      · exact fun h => ⟨⟨h0, h1⟩, h⟩
  have hsu' : ∀ (arg : Option (List Int)) (start bound x : Int), x ∈ specUnit arg start bound →
      x ∈ (match arg with | some l => l | none => [start]) := by
    intro arg start bound x hx
    unfold specUnit at hx
    cases arg with
    | none => exact hx
    | some l =>
      simp only [List.mem_filter, List.contains_iff_mem] at hx
      exact hx.2
  have heq : sortBy ltHMS (productHMS [hour] [minute] (bs.getD [])) =
      productHMS [hour] [minute] (specUnit a.bysecond a.dtstart.ss 60) := by
    apply sorted_ext strictHMS
    · exact sortBy_pairwise strictHMS _ (fun _ _ => trivial) (productHMS_nodup _ _ _ (by simp) (by simp) n4)
    · exact hsorted
    · intro t
      rw [mem_sortBy, mem_productHMS, mem_productHMS]
      constructor
      · rintro ⟨a1, a2, a3⟩
        have v3 := hvs _ a3
        exact ⟨a1, a2, (hsu _ _ 60 _ v3.1 (by omega)).mpr ((m4 _).mp a3)⟩
      · rintro ⟨a1, a2, a3⟩
        exact ⟨a1, a2, (m4 _).mpr (hsu' _ _ _ _ a3)⟩
  refine ⟨productHMS [hour] [minute] (specUnit a.bysecond a.dtstart.ss 60), ?_, ?_, hspec⟩
  · unfold mtimeset buildTimeset
    rw [hr]
    dsimp only
    rw [checkTimes_of_valid _ hvalid]
    dsimp only
    rw [heq]
  · rw [← heq]
    refine ⟨sortBy_pairwise strictHMS _ (fun _ _ => trivial) (productHMS_nodup _ _ _ (by simp) (by simp) n4), ?_⟩
    intro t ht
    rw [mem_sortBy] at ht
    exact hvalid t ht

theorem timesOf_mh_ok_e (ma : MinutelyBHEArgs a) (h : construct a = .ok r) (hour minute : Int)
    (h0 : 0 ≤ hour) (h1 : hour ≤ 23) (m0 : 0 ≤ minute) (m1 : minute ≤ 59) :
    TsOk (Spec.RRule.timesOf a (some hour) (some minute) none) := by
  obtain ⟨prod, _, hok, hspec⟩ := mtimeset_mh_e ma h hour minute h0 h1 m0 m1
  rw [hspec]; split
  · exact hok
  · exact tsOk_nil

theorem mhe_span (ma : MinutelyBHEArgs a) (ord hour minute : Int) (k : Nat) (h0 : 0 ≤ hour) (h1 : hour ≤ 23)
    (m0 : 0 ≤ minute) (m1 : minute ≤ 59)
    (hu : (ord * 24 + hour) * 60 + minute =
      (Spec.RRule.startOrd a * 24 + a.dtstart.hh) * 60 + a.dtstart.mm + k * a.interval) :
    Spec.RRule.periodSpan a (k * a.interval) = (ord, ord + 1, some hour, some minute, none) := by
  unfold Spec.RRule.periodSpan
  rw [if_neg (by simp [ma.freq]), if_neg (by simp [ma.freq]), if_neg (by simp [ma.freq]),
      if_neg (by simp [ma.freq]), if_neg (by simp [ma.freq]), if_pos (by simp [ma.freq])]
  dsimp only
  rw [← hu]
  have e1 : ((ord * 24 + hour) * 60 + minute) / 1440 = ord := by omega
  have e2 : ((ord * 24 + hour) * 60 + minute) / 60 % 24 = hour := by omega
  have e3 : ((ord * 24 + hour) * 60 + minute) % 60 = minute := by omega
  rw [e1, e2, e3]

theorem mhe_results (ma : MinutelyBHEArgs a) (h : construct a = .ok r) (k : Nat) (st : State)
    (hg : MinutelyEGood a r k st) (hle : curOrd st.cur ≤ maxOrdinal) :
    ∃ fl, periodResults r st = .ok (Spec.RRule.sel a (k : Int), none, fl) ∧
      (fl = true → Spec.RRule.dateOk a (curOrd st.cur) = false) ∧
      ∀ x ∈ Spec.RRule.sel a (k : Int), 0 ≤ x.ord ∧ x.ord ≤ maxOrdinal := by
  have hw := mhe_erule ma h
  obtain ⟨bs, hr, _⟩ := mhe_rule ma h
  have hfreq : r.freq = 5 := by rw [hr]; exact ma.freq
  have hsp := construct_bysetpos a r h
  have htsok : TsOk st.timeset := by
    rw [hg.timeset]; exact timesOf_mh_ok_e ma h _ _ hg.hour.1 hg.hour.2 hg.minute.1 hg.minute.2
  have hpos : 1 ≤ curOrd st.cur := toOrdinal_pos _ _ _ hg.facts.year_lo hg.valid
  obtain ⟨fl, hres, hflag⟩ := periodResults_day_e hw st hg.facts hg.inv hg.valid (by omega)
    (by rw [hsp.1]; exact hsp.2) htsok hle
  have hbridge : (intRange (curOrd st.cur) (curOrd st.cur + 1)).filter (fun o => simpleOk r o && eclause r o) =
      (intRange (curOrd st.cur) (curOrd st.cur + 1)).filter (Spec.RRule.dateOk a) := by
    apply List.filter_congr
    intro o ho
    exact mhe_bridge ma h o (by have := (mem_intRange _ _ _).mp ho; omega)
  have hspan := mhe_span ma (curOrd st.cur) st.cur.hour st.cur.minute k hg.hour.1 hg.hour.2 hg.minute.1 hg.minute.2 hg.idx
  have hsel := sel_span_gen a k _ _ _ _ _ hspan
  refine ⟨fl, ?_, ?_, ?_⟩
  · rw [hres, hg.timeset, hsel, hbridge, hsp.1]
  · intro hf
    rw [← mhe_bridge ma h _ hpos]
    exact hflag hf
  · intro x hx
    rw [hsel] at hx
    have := sel_bounds _ _ _ _ x (applySetpos_subset _ _ x hx)
    omega

/-- a grid minute whose hour is not listed selects nothing -/
theorem mhe_skip_hour (ma : MinutelyBHEArgs a) (h : construct a = .ok r) (j : Nat) (ord hour minute : Int)
    (h0 : 0 ≤ hour) (h1 : hour ≤ 23) (m0 : 0 ≤ minute) (m1 : minute ≤ 59)
    (hu : (ord * 24 + hour) * 60 + minute =
      (Spec.RRule.startOrd a * 24 + a.dtstart.hh) * 60 + a.dtstart.mm + j * a.interval)
    (hno : (hoursOf a).contains hour = false) : Spec.RRule.sel a (j : Int) = [] := by
  obtain ⟨prod, _, _, hspec⟩ := mtimeset_mh_e ma h hour minute h0 h1 m0 m1
  rw [hno] at hspec
  simp only [Bool.false_eq_true, ↓reduceIte] at hspec
  rw [sel_span_gen a j _ _ _ _ _ (mhe_span ma ord hour minute j h0 h1 m0 m1 hu), hspec]
  have : ∀ (l : List Int), l.flatMap (fun o => ([].map (mkInst o) : List Inst)) = [] := by
    intro l; induction l with
    | nil => rfl
    | cons x xs ih => rw [List.flatMap_cons, ih]; rfl
  rw [this]
  exact applySetpos_nil _

/-- a grid minute on a day that is not in the set selects nothing -/
theorem mhe_skip_day (ma : MinutelyBHEArgs a) (k : Nat) (st : State) (hg : MinutelyEGood a r k st)
    (hno : Spec.RRule.dateOk a (curOrd st.cur) = false) (j : Nat) (hkj : k < j)
    (hj : ((j : Int) - k) * a.interval ≤ 1439 - (st.cur.hour * 60 + st.cur.minute)) :
    Spec.RRule.sel a (j : Int) = [] := by
  have hi := ma.interval
  have hh := hg.hour
  have hmm := hg.minute
  have hpos : (0 : Int) ≤ ((j : Int) - k) * a.interval := Int.mul_nonneg (by omega) (by omega)
  generalize hM : st.cur.hour * 60 + st.cur.minute + ((j : Int) - k) * a.interval = M at *
  have hu : (curOrd st.cur * 24 + M / 60) * 60 + M % 60 =
      (Spec.RRule.startOrd a * 24 + a.dtstart.hh) * 60 + a.dtstart.mm + j * a.interval := by
    have := hg.idx
    have e : (j : Int) * a.interval = k * a.interval + ((j : Int) - k) * a.interval := by
      rw [← Int.add_mul]; congr 1; omega
    rw [e]; omega
  have hspan := mhe_span ma (curOrd st.cur) (M / 60) (M % 60) j (by omega) (by omega) (by omega) (by omega) hu
  rw [sel_span_gen a j _ _ _ _ _ hspan, intRange_one]
  simp only [List.filter_cons, hno, Bool.false_eq_true, ↓reduceIte, List.filter_nil, List.flatMap_nil]
  exact applySetpos_nil _


/-- one `advance`: the optional jump `X = s0·interval` inside the day, then the reachability loop to the least grid
    minute whose hour is listed, `t ≤ 1440` steps further -/
theorem mhe_advance_core (ma : MinutelyBHEArgs a) (h : construct a = .ok r) (k : Nat) (st : State) (fl : Bool)
    (c : Option Int) (hg : MinutelyEGood a r k st) (s0 : Nat) (X : Int) (hX : X = s0 * a.interval)
    (hX0 : 0 ≤ X) (hXle : X ≤ 1439 - (st.cur.hour * 60 + st.cur.minute))
    (hmin0 : (if fl = true then st.cur.minute +
        Py.fdiv (1439 - (st.cur.hour * 60 + st.cur.minute)) r.interval * r.interval else st.cur.minute) =
      st.cur.minute + X)
    (hle : curOrd st.cur * 1440 + 1439 + 1440 * a.interval < (emaxOrd + 1) * 1440) :
    ∃ (st' : State) (t : Nat), 1 ≤ t ∧ t ≤ 1440 ∧ advance r { st with count := c } fl = .ok st' ∧
      MinutelyEGood a r (k + s0 + t) st' ∧
      ∀ t' : Nat, 1 ≤ t' → t' < t →
        (hoursOf a).contains ((st.cur.hour * 60 + st.cur.minute + X + t' * a.interval) / 60 % 24) = false := by
  have hw := mhe_erule ma h
  obtain ⟨bs, hr, _⟩ := mhe_rule ma h
  obtain ⟨l, hl, hlne⟩ := ma.hours
  have hfreq : r.freq = 5 := by rw [hr]; exact ma.freq
  have hint : r.interval = a.interval := by rw [hr]
  have hbh : r.byhour = some (sortedSet l) := by rw [hr]; dsimp only; rw [hl]; rfl
  have hbm : r.byminute = none := by rw [hr]
  have hi := ma.interval
  obtain ⟨hm1, hm12, hd1, hd2⟩ := hg.valid
  have hh := hg.hour
  have hmm := hg.minute
  have hidx := hg.idx
  have htr : truthy (some (sortedSet l)) = true := by
    rw [truthy_eq_not_isEmpty, isEmpty_sortedSet]
    cases l with
    | nil => exact absurd rfl hlne
    | cons _ _ => rfl
  have hho : hoursOf a = l := by unfold hoursOf; rw [hl]; rfl
  have ek0 : ((k + s0 : Nat) : Int) * a.interval = k * a.interval + X := by
    rw [hX]; push_cast; rw [Int.add_mul]
  -- the loop's bound
  obtain ⟨reps, hreps⟩ := reps_pos r.interval 1440 (by omega)
  have hgpos : (0 : Int) < ((Int.gcd r.interval 1440 : Nat) : Int) := by
    have : 0 < Int.gcd r.interval 1440 := Int.gcd_pos_of_ne_zero_right _ (by omega)
    omega
  have hrepsv : ((reps + 1 : Nat) : Int) = 1440 / ((Int.gcd a.interval 1440 : Nat) : Int) := by
    rw [← hint, ← Py.fdiv_pos _ hgpos, ← hreps]
    have : 0 ≤ Py.fdiv 1440 ((Int.gcd r.interval 1440 : Nat) : Int) := by
      rw [Py.fdiv_pos _ hgpos]; exact Int.ediv_nonneg (by omega) (by omega)
    omega
  -- a listed hour is met within the bound
  have hreach : ∃ t : Nat, 1 ≤ t ∧ t ≤ reps + 1 ∧
      (sortedSet l).contains ((st.cur.hour * 60 + (st.cur.minute + X) + t * r.interval) / 60 % 24) = true := by
    have hr' := ma.reach
    unfold reachableHourM at hr'
    rw [List.any_eq_true] at hr'
    obtain ⟨j, _, hj⟩ := hr'
    rw [hl, Option.getD_some] at hj
    obtain ⟨t, ht1, ht2, z, hz⟩ := orbit_window a.interval 1440 (by omega) (k + s0) j
    refine ⟨t, ht1, by omega, ?_⟩
    rw [contains_sortedSet, hint]
    have e : ((k + s0 + t : Nat) : Int) * a.interval = k * a.interval + X + (t : Int) * a.interval := by
      rw [hX]; push_cast; rw [Int.add_mul, Int.add_mul]
    have e2 : st.cur.hour * 60 + (st.cur.minute + X) + (t : Int) * a.interval =
        a.dtstart.hh * 60 + a.dtstart.mm + (j : Int) * a.interval +
          1440 * (z - (curOrd st.cur - Spec.RRule.startOrd a)) := by
      rw [e] at hz; omega
    rw [e2]
    generalize a.dtstart.hh * 60 + a.dtstart.mm + (j : Int) * a.interval = V at hj ⊢
    generalize z - (curOrd st.cur - Spec.RRule.startOrd a) = zz
    have : (V + 1440 * zz) / 60 % 24 = V / 60 % 24 := by omega
    rw [this]; exact hj
  obtain ⟨t, ht1, ht2, ht3, ht4, ht5⟩ := minutelyLoop_bh r (by rw [hint]; exact hi) (sortedSet l) hbm hbh htr
    (reps + 1) (st.cur.minute + X) st.cur.hour st.cur.day false (by omega) hh.1 hh.2 hreach
  rw [hint] at ht3 ht4 ht5
  obtain ⟨D, hD⟩ : ∃ D, D = st.cur.hour * 60 + (st.cur.minute + X) + (t : Int) * a.interval := ⟨_, rfl⟩
  rw [← hD] at ht3 ht5
  have hti : (0 : Int) ≤ (t : Int) * a.interval := Int.mul_nonneg (by omega) (by omega)
  have hti2 : (t : Int) * a.interval ≤ 1440 * a.interval := by
    have hP : 1440 / ((Int.gcd a.interval 1440 : Nat) : Int) ≤ 1440 := by
      rw [← hint]
      exact Int.ediv_le_self _ (by omega)
    exact Int.mul_le_mul_of_nonneg_right (by omega) (by omega)
  have ht1440 : t ≤ 1440 := by
    have hP : 1440 / ((Int.gcd a.interval 1440 : Nat) : Int) ≤ 1440 := by
      rw [← hint]
      exact Int.ediv_le_self _ (by omega)
    omega
  obtain ⟨nd, hnd⟩ : ∃ nd, nd = D / 1440 := ⟨_, rfl⟩
  obtain ⟨hr', hhr'⟩ : ∃ hr', hr' = D / 60 % 24 := ⟨_, rfl⟩
  obtain ⟨mi', hmi'⟩ : ∃ mi', mi' = D % 60 := ⟨_, rfl⟩
  have hDn : 0 ≤ D := by omega
  have hdm : nd * 1440 + hr' * 60 + mi' = D ∧ 0 ≤ mi' ∧ mi' ≤ 59 ∧ 0 ≤ hr' ∧ hr' ≤ 23 ∧ 0 ≤ nd := by omega
  obtain ⟨d1, d2, d3, d4, d5, d6⟩ := hdm
  rw [← hhr'] at ht3
  have hin : (hoursOf a).contains hr' = true := by rw [hho, ← contains_sortedSet]; exact ht3
  obtain ⟨prod, hts, _, hspec⟩ := mtimeset_mh_e ma h hr' mi' d4 d5 d2 d3
  rw [hin] at hspec
  simp only [↓reduceIte] at hspec
  have ek : ((k + s0 + t : Nat) : Int) * a.interval = k * a.interval + X + (t : Int) * a.interval := by
    rw [hX]; push_cast; rw [Int.add_mul, Int.add_mul]
  have hadv : ∃ st', advance r { st with count := c } fl = .ok st' ∧ MinutelyEGood a r (k + s0 + t) st' := by
    unfold advance
    dsimp only
    rw [if_neg (by simp [hfreq]), if_neg (by simp [hfreq]), if_neg (by simp [hfreq]), if_neg (by simp [hfreq]),
        if_neg (by simp [hfreq]), if_pos (by simp [hfreq]), hmin0, hreps, ht5]
    dsimp only
    rw [← hmi', ← hhr', ← hnd]
    unfold gettimeset
    rw [if_neg (by simp [hfreq]), if_pos (by simp [hfreq]), hts]
    dsimp only
    by_cases hz : nd = 0
    · subst hz
      simp only [ne_eq, not_true_eq_false, decide_false, Bool.or_false, Int.add_zero]
      rw [fixDay_false]
      refine ⟨_, rfl, ⟨hg.facts, hg.inv, hg.valid, ⟨d4, d5⟩, ⟨d2, d3⟩, ?_, by dsimp only; rw [hspec]⟩⟩
      dsimp only
      have : curOrd { st.cur with day := st.cur.day, hour := hr', minute := mi' } = curOrd st.cur := rfl
      rw [this, ek]; omega
    · simp only [ne_eq, hz, not_false_eq_true, decide_true, Bool.or_true]
      have hcur : curOrd { st.cur with day := st.cur.day + nd, hour := hr', minute := mi' } = curOrd st.cur + nd := by
        unfold curOrd toOrdinal; dsimp only; omega
      obtain ⟨st', hfix, hnw'⟩ := fixDay_ok_e hw
        { cur := { st.cur with day := st.cur.day + nd, hour := hr', minute := mi' }, info := st.info,
          timeset := prod, count := c }
        true hg.facts hm1 hm12 (by dsimp only; omega) (by dsimp only; rw [hcur]; omega) hg.inv
      have sp := fixDay_spec r _ st' hfix hm1 hm12 (by dsimp only; omega) hg.facts
      obtain ⟨e, v, f', eh, em, _, _, ts⟩ := sp
      refine ⟨st', hfix, ⟨f', hnw', v, by rw [eh]; exact ⟨d4, d5⟩, by rw [em]; exact ⟨d2, d3⟩, ?_,
        by rw [ts, eh, em]; dsimp only; rw [hspec]⟩⟩
      rw [e, eh, em]
      dsimp only
      rw [hcur, ek]; omega
  obtain ⟨st', hadv', hg'⟩ := hadv
  refine ⟨st', t, ht1, ht1440, hadv', hg', ?_⟩
  intro t' a1 a2
  have := ht4 t' a1 a2
  rw [contains_sortedSet] at this
  rw [hho]
  have e : st.cur.hour * 60 + st.cur.minute + X + (t' : Int) * a.interval =
      st.cur.hour * 60 + (st.cur.minute + X) + (t' : Int) * a.interval := by omega
  rw [e]; exact this

theorem mhe_next (ma : MinutelyBHEArgs a) (h : construct a = .ok r) (k : Nat) (st : State) (fl : Bool)
    (c : Option Int) (hg : MinutelyEGood a r k st)
    (hfl : fl = true → Spec.RRule.dateOk a (curOrd st.cur) = false)
    (hle : curOrd st.cur * 1440 + 1439 + 1440 * a.interval < (emaxOrd + 1) * 1440) :
    ∃ st' k', advance r { st with count := c } fl = .ok st' ∧ k < k' ∧ k' ≤ k + 2880 ∧ MinutelyEGood a r k' st' ∧
      ∀ j : Nat, k < j → j < k' → Spec.RRule.sel a (j : Int) = [] := by
  obtain ⟨bs, hr, _⟩ := mhe_rule ma h
  have hint : r.interval = a.interval := by rw [hr]
  have hi := ma.interval
  have hh := hg.hour
  have hmm := hg.minute
  have htail : ∀ (s0 : Nat) (X : Int), X = s0 * a.interval → 0 ≤ X →
      X ≤ 1439 - (st.cur.hour * 60 + st.cur.minute) → ∀ (s : Nat),
      (∀ t : Nat, 1 ≤ t → t < s →
        (hoursOf a).contains ((st.cur.hour * 60 + st.cur.minute + X + t * a.interval) / 60 % 24) = false) →
      ∀ j : Nat, k + s0 < j → j < k + s0 + s → Spec.RRule.sel a (j : Int) = [] := by
    intro s0 X hX hX0 hXle s hmin j hj1 hj2
    have ht := hmin (j - k - s0) (by omega) (by omega)
    have ecast : (((j - k - s0 : Nat)) : Int) = (j : Int) - k - s0 := by omega
    rw [ecast] at ht
    have hpos : (0 : Int) ≤ ((j : Int) - k - s0) * a.interval := Int.mul_nonneg (by omega) (by omega)
    generalize hV : st.cur.hour * 60 + st.cur.minute + X + ((j : Int) - k - s0) * a.interval = V at ht
    apply mhe_skip_hour ma h j (curOrd st.cur + V / 1440) (V / 60 % 24) (V % 60)
      (by omega) (by omega) (by omega) (by omega) ?_ ht
    have := hg.idx
    have e : (j : Int) * a.interval = k * a.interval + X + ((j : Int) - k - s0) * a.interval := by
      rw [hX, ← Int.add_mul, ← Int.add_mul]; congr 1; omega
    rw [e]; omega
  cases fl with
  | false =>
    obtain ⟨st', s, hs1, hs2, hadv, hg', hmin⟩ := mhe_advance_core ma h k st false c hg 0 0 (by simp) (by omega)
      (by omega) (by simp) hle
    refine ⟨st', k + 0 + s, hadv, by omega, by omega, hg', ?_⟩
    intro j h1 h2
    exact htail 0 0 (by simp) (by omega) (by omega) s hmin j (by omega) (by omega)
  | true =>
    generalize hR : 1439 - (st.cur.hour * 60 + st.cur.minute) = R at *
    have hR0 : 0 ≤ R := by omega
    have hq0 : 0 ≤ R / a.interval := Int.ediv_nonneg hR0 (by omega)
    have hqX : R / a.interval * a.interval ≤ R := Int.ediv_mul_le _ (by omega)
    have hq1 : R / a.interval * 1 ≤ R / a.interval * a.interval := Int.mul_le_mul_of_nonneg_left hi hq0
    have hcast : ((R / a.interval).toNat : Int) = R / a.interval := Int.toNat_of_nonneg hq0
    obtain ⟨st', s, hs1, hs2, hadv, hg', hmin⟩ := mhe_advance_core ma h k st true c hg (R / a.interval).toNat
      (R / a.interval * a.interval) (by rw [hcast]) (Int.mul_nonneg hq0 (by omega)) (by rw [hR]; exact hqX)
      (by simp only [↓reduceIte]; rw [hR, Py.fdiv_pos _ (by omega), hint]) hle
    refine ⟨st', k + (R / a.interval).toNat + s, hadv, by omega, by omega, hg', ?_⟩
    intro j h1 h2
    by_cases hc : j ≤ k + (R / a.interval).toNat
    · apply mhe_skip_day ma k st hg (hfl rfl) j h1
      have hjq : (j : Int) - k ≤ R / a.interval := by omega
      have := Int.mul_le_mul_of_nonneg_right hjq (show (0 : Int) ≤ a.interval by omega)
      omega
    · exact htail _ _ (by rw [hcast]) (Int.mul_nonneg hq0 (by omega)) hqX s hmin j (by omega) h2

theorem mhe_init (ma : MinutelyBHEArgs a) (h : construct a = .ok r) (hlo : 1583 ≤ a.dtstart.y)
    (hhi : Spec.RRule.startOrd a ≤ emaxOrd) :
    ∃ st0, init r = .ok st0 ∧ MinutelyEGood a r 0 st0 ∧ st0.count = r.count := by
  have hw := mhe_erule ma h
  have hv := ma.valid
  unfold DT.Valid ValidDate at hv
  obtain ⟨info, hre, hnw⟩ := rebuild_e hw a.dtstart.y a.dtstart.m hlo (start_year_hi a ma.valid hhi)
  obtain ⟨bs, hr, _⟩ := mhe_rule ma h
  obtain ⟨l, hl, hlne⟩ := ma.hours
  have hd : r.dtstart = { a.dtstart with us := 0 } := by rw [hr]
  have hf : r.freq = 5 := by rw [hr]; exact ma.freq
  have hbh : r.byhour = some (sortedSet l) := by rw [hr]; dsimp only; rw [hl]; rfl
  have hbm : r.byminute = none := by rw [hr]
  have htr : truthy (some (sortedSet l)) = true := by
    rw [truthy_eq_not_isEmpty, isEmpty_sortedSet]
    cases l with
    | nil => exact absurd rfl hlne
    | cons _ _ => rfl
  have htn : truthy (none : Option (List Int)) = false := rfl
  obtain ⟨prod, hts, _, hspec⟩ := mtimeset_mh_e ma h a.dtstart.hh a.dtstart.mm hv.2.1 hv.2.2.1 hv.2.2.2.1 hv.2.2.2.2.1
  have hmem : (sortedSet l).contains a.dtstart.hh = (hoursOf a).contains a.dtstart.hh := by
    rw [contains_sortedSet]; unfold hoursOf; rw [hl]; rfl
  refine ⟨{ cur := { year := a.dtstart.y, month := a.dtstart.m, day := a.dtstart.d, hour := a.dtstart.hh,
                     minute := a.dtstart.mm, second := a.dtstart.ss, weekday := r.dtstart.weekday },
            info := info, timeset := Spec.RRule.timesOf a (some a.dtstart.hh) (some a.dtstart.mm) none,
            count := r.count }, ?_, ?_, rfl⟩
  · unfold init gettimeset
    simp only [hd, bind, Except.bind, hre, hf, hbh, hbm, htr, htn, memO, hmem, pure, Except.pure]
    rw [hspec]
    by_cases c : a.dtstart.hh ∈ hoursOf a
    · simp [c, hts]
    · simp [c]
  · refine ⟨rebuild_facts r _ _ info hre, hnw, hv.1.2.2, ⟨hv.2.1, hv.2.2.1⟩, ⟨hv.2.2.2.1, hv.2.2.2.2.1⟩, ?_, rfl⟩
    unfold curOrd Spec.RRule.startOrd DT.ordinal; simp

/-- **`iter_eq_spec_minutely_byhour_easter`**: `iter_eq_spec_minutely_byhour` with BYEASTER instead of "no
    BYEASTER" — offsets −80..250 (the complement of D-C01d), no BYWEEKNO, a start in a year ≥ 1583 and every
    visited day not after 31 December 4099 (where C19 ties `easter.easter` to Meeus/Jones/Butcher); everything
    else as there, `n ≤ m ≤ 2880·n`. -/
theorem iter_eq_spec_minutely_byhour_easter (ma : MinutelyBHEArgs a) (h : construct a = .ok r) (n : Nat)
    (hlo : 1583 ≤ a.dtstart.y)
    (hle : (Spec.RRule.startOrd a * 24 + a.dtstart.hh) * 60 + a.dtstart.mm + (2880 * n + 1440) * a.interval + 1439 <
      (Cal.toOrdinal 4099 12 31 + 1) * 1440) :
    ∃ m, n ≤ m ∧ m ≤ 2880 * n ∧ (iter r n).1 = Spec.RRule.occ a m := by
  have hi := ma.interval
  have hmx := emaxOrd_le
  have hE : Cal.toOrdinal 4099 12 31 = emaxOrd := rfl
  rw [hE] at hle
  have hnn : (0 : Int) ≤ ((2880 * n + 1440 : Int)) * a.interval := Int.mul_nonneg (by omega) (by omega)
  have hbound : ∀ k : Nat, k < 2880 * n → ∀ st, MinutelyEGood a r k st →
      curOrd st.cur * 1440 + 1439 + 1440 * a.interval < (emaxOrd + 1) * 1440 := by
    intro k hk st hg
    have := hg.idx
    have hh := hg.hour
    have hmm := hg.minute
    have hmono : (k : Int) * a.interval ≤ (2880 * (n : Int)) * a.interval :=
      Int.mul_le_mul_of_nonneg_right (by omega) (by omega)
    have e' : ((2880 : Int) * n + 1440) * a.interval = (2880 * (n : Int)) * a.interval + 1440 * a.interval := by
      rw [Int.add_mul]
    rw [e'] at hle
    omega
  have sim : SkipSim a r (2880 * n) 2880 (MinutelyEGood a r) := {
    agree := mhe_cuts ma h
    step := by
      intro k st hk hg
      have hb := hbound k hk st hg
      have hi2 : a.interval ≤ 1440 * a.interval := by omega
      obtain ⟨fl, hres, hflag, hbnd⟩ := mhe_results ma h k st hg (by omega)
      refine ⟨fl, [], Spec.RRule.sel a (k : Int), hres, rfl, by simp, hbnd, ?_⟩
      intro c
      exact mhe_next ma h k st fl c hg hflag hb }
  have hv := ma.valid
  unfold DT.Valid at hv
  obtain ⟨st0, hinit, hg0, hc0⟩ := mhe_init ma h hlo (by omega)
  exact iter_refines_skip sim (by omega) st0 hinit hg0 hc0 n (by omega)

-- non-vacuity: the hypotheses are satisfiable
example : MinutelyBHEArgs { freq := 5, dtstart := ⟨2024, 1, 1, 10, 0, 0, 0⟩, byeaster := some [0, 1],
                            byhour := some [10, 16] } :=
  { freq := rfl, interval := (by decide), valid := (by decide), byweekno := rfl,
    easter := ⟨[0, 1], rfl, by simp, by intro o ho; simp at ho; omega⟩,
    monthday_nz := (by intro x hx; simp at hx), hours := ⟨[10, 16], rfl, by simp⟩, byminute := rfl,
    seconds_ok := (by intro x hx; simp at hx), reach := List.any_eq_true.mpr ⟨0, List.mem_range.mpr (by omega), by decide⟩ }

end RRule
