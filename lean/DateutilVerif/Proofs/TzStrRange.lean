/-
  Proofs/TzStrRange.lean — a `tzstr` zone (Model/TzStr.lean) as a `RangeZone` (Model/Zones.lean),
  the calendar facts relating `yearOf` to year starts, and "daylight time by the year's pair"
  = POSIX `isDstAt` when the transitions of the neighbouring years lie inside their own years.
-/
import DateutilVerif.Model.TzStr
import DateutilVerif.Spec.Posix
import DateutilVerif.Proofs.RangeZone
import DateutilVerif.Proofs.Calendar

namespace TZ
open Cal

/-- seconds between ordinal 0 (Model/TzStr, Spec/Posix) and the epoch (Model/Zones) -/
def epochShift : Int := 719163 * 86400

def abbrBytes (o : Option String) : List UInt8 := (o.getD "").toUTF8.toList

/-- the `tzrangebase` view of a tzstr / tzrange zone.  `transitions(year)` raising (years 1 and
    9999, where the weekday search may leave datetime's range) is outside every theorem's domain and
    is mapped to `none` here. -/
def ofTzStr (z : TzStr.Zone) : RangeZone :=
  { stdOff := z.stdOff, dstOff := z.dstOff, hasdst := z.hasdst,
    transitions := fun y => match TzStr.transitions z y with
      | .ok (some (a, b)) => some (a - epochShift, b - epochShift)
      | _ => none,
    stdAbbr := abbrBytes z.stdAbbr, dstAbbr := abbrBytes z.dstAbbr }

/-- UTC instant (seconds since ordinal 0) at which year `y` starts -/
def ys (y : Int) : Int := toOrdinal y 1 1 * 86400

theorem yearOf_shift (t : Int) : yearOf t = (fromOrdinal ((t + epochShift) / 86400)).1 := by
  unfold yearOf epochShift
  rw [Py.fdiv_pos t (by omega : (0 : Int) < 86400)]
  congr 2
  omega

theorem valid11 (y : Int) : ValidYMD y 1 1 := by
  have := daysInMonth_bounds y 1
  exact ⟨by omega, by omega, by omega, by omega⟩

theorem ystart_mono (y y' : Int) (h : y ≤ y') : toOrdinal y 1 1 ≤ toOrdinal y' 1 1 := by
  by_cases e : y = y'
  · subst e; exact Int.le_refl _
  · exact Int.le_of_lt (toOrdinal_lt_of_lex y 1 1 y' 1 1 (valid11 y) (valid11 y') (Or.inl (by omega)))

/-- the year of an ordinal is the unique `y` whose year contains it -/
theorem year_of_ordinal (n y : Int) (h1 : 1 ≤ n) :
    (fromOrdinal n).1 = y ↔ (toOrdinal y 1 1 ≤ n ∧ n < toOrdinal (y + 1) 1 1) := by
  obtain ⟨e, hv, _⟩ := toOrdinal_fromOrdinal n h1
  generalize (fromOrdinal n).1 = Y at *
  generalize (fromOrdinal n).2.1 = m at *
  generalize (fromOrdinal n).2.2 = d at *
  have lo : toOrdinal Y 1 1 ≤ n := by
    rw [← e]
    by_cases c : m = 1 ∧ d = 1
    · rw [c.1, c.2]; exact Int.le_refl _
    · exact Int.le_of_lt (toOrdinal_lt_of_lex Y 1 1 Y m d (valid11 Y) hv
        (Or.inr ⟨rfl, by obtain ⟨a, _, c', _⟩ := hv; omega⟩))
  have hi : n < toOrdinal (Y + 1) 1 1 := by
    rw [← e]; exact toOrdinal_lt_of_lex Y m d (Y + 1) 1 1 hv (valid11 _) (Or.inl (by omega))
  constructor
  · intro h; subst h; exact ⟨lo, hi⟩
  · intro ⟨a, b⟩
    by_cases c1 : Y < y
    · have := ystart_mono (Y + 1) y (by omega); omega
    by_cases c2 : y < Y
    · have := ystart_mono (y + 1) Y (by omega); omega
    omega

theorem fromOrdinal_year_nonpos (n : Int) (h : n ≤ 0) : (fromOrdinal n).1 ≤ 1 := by
  unfold fromOrdinal
  simp only []
  generalize hn400 : (n - 1) / 146097 = n400
  generalize hr : (n - 1) % 146097 = r
  generalize hn100 : r / 36524 = n100
  generalize hr2 : r % 36524 = r2
  generalize hn4 : r2 / 1461 = n4
  generalize hr3 : r2 % 1461 = r3
  generalize hn1 : r3 / 365 = n1
  split <;> simp only [] <;> omega

/-- `yearOf t = y` ⇔ the instant lies in year `y` (UTC, seconds since ordinal 0) -/
theorem yearOf_iff (t y : Int) (h : 86400 ≤ t + epochShift) :
    yearOf t = y ↔ (ys y ≤ t + epochShift ∧ t + epochShift < ys (y + 1)) := by
  rw [yearOf_shift, year_of_ordinal _ _ (by omega)]
  unfold ys
  constructor <;> intro ⟨a, b⟩ <;> constructor <;> omega

open Posix in
/-- both transitions of year `y` lie inside year `y` (UTC) -/
def Inside (s : Posix.Spec) (y : Int) : Prop :=
  ys y ≤ startUtc s y ∧ startUtc s y < ys (y + 1) ∧ ys y ≤ endUtc s y ∧ endUtc s y < ys (y + 1)

open Posix in
/-- **the year's pair decides like POSIX.**  `T` lies in year `Y`; in `Y−1`, `Y`, `Y+1` the
    transitions lie inside their own years and come in the same order.  Then "daylight by the pair
    of year `Y`" (either order: `[start, end)` or the complement of `[end, start)`) is POSIX's
    `isDstAt`. -/
theorem naive_eq_posix (s : Posix.Spec) (Y T : Int) (hT1 : ys Y ≤ T) (hT2 : T < ys (Y + 1))
    (hyear : (fromOrdinal (T / 86400)).1 = Y)
    (i0 : Inside s (Y - 1)) (i1 : Inside s Y) (i2 : Inside s (Y + 1))
    (o0 : startUtc s (Y - 1) < endUtc s (Y - 1) ↔ startUtc s Y < endUtc s Y)
    (o2 : startUtc s (Y + 1) < endUtc s (Y + 1) ↔ startUtc s Y < endUtc s Y) :
    RangeZone.naiveIsdst T (startUtc s Y, endUtc s Y) = isDstAt s T := by
  unfold isDstAt
  simp only [hyear]
  unfold inDstOfYear RangeZone.naiveIsdst
  have e : Y - 1 + 1 = Y := by omega
  obtain ⟨a0, a1, a2, a3⟩ := i0
  obtain ⟨b0, b1, b2, b3⟩ := i1
  obtain ⟨c0, c1, c2, c3⟩ := i2
  rw [e] at a1 a3
  simp only [e]
  by_cases hN : startUtc s Y < endUtc s Y
  · have h0 := o0.mpr hN
    have h2 := o2.mpr hN
    simp only [hN, h0, h2, if_true]
    rw [Bool.eq_iff_iff]
    simp only [Bool.and_eq_true, decide_eq_true_eq, Bool.or_eq_true]
    omega
  · have h0 : ¬ startUtc s (Y - 1) < endUtc s (Y - 1) := fun h => hN (o0.mp h)
    have h2 : ¬ startUtc s (Y + 1) < endUtc s (Y + 1) := fun h => hN (o2.mp h)
    simp only [hN, h0, h2, if_false]
    rw [Bool.eq_iff_iff]
    simp only [← Bool.decide_and, decide_eq_true_eq, Bool.or_eq_true, Bool.not_eq_true', decide_eq_false_iff_not]
    have := ystart_mono (Y + 1) (Y + 1 + 1) (by omega)
    unfold ys at *
    omega

open Posix in
/-- both transitions of year `y` lie inside year `y` with a margin `m` at both ends -/
def InsideM (s : Posix.Spec) (y m : Int) : Prop :=
  ys y + m ≤ startUtc s y ∧ startUtc s y + m ≤ ys (y + 1) ∧
  ys y + m ≤ endUtc s y ∧ endUtc s y + m ≤ ys (y + 1)

theorem InsideM.inside {s : Posix.Spec} {y m : Int} (h : InsideM s y m) (hm : 0 < m) : Inside s y := by
  obtain ⟨a, b, c, d⟩ := h
  exact ⟨by omega, by omega, by omega, by omega⟩

theorem naiveIsdst_shift (x a b k : Int) :
    RangeZone.naiveIsdst (x - k) (a - k, b - k) = RangeZone.naiveIsdst x (a, b) := by
  unfold RangeZone.naiveIsdst
  simp only
  rw [Bool.eq_iff_iff]
  by_cases c : a < b
  · have c' : a - k < b - k := by omega
    simp only [c, c', if_true, Bool.and_eq_true, decide_eq_true_eq]; omega
  · have c' : ¬ a - k < b - k := by omega
    simp only [c, c', if_false, ← Bool.decide_and, Bool.not_eq_true', decide_eq_false_iff_not]; omega

open Posix in
/-- **the wall-clock year's pair decides like the UTC year's pair.**  `T` lies in year `Y`, the
    wall reading `T + o` (`o` the standard or the daylight offset) in year `Y−1`, `Y` or `Y+1`; in
    all three years the transitions keep a margin `m ≥ |std|, |dst|, saving` from the year ends and
    come in the same order.  Then the pair of the wall-clock year makes, at that reading, the same
    naive decision and the same repeated-interval decision as the pair of year `Y`. -/
theorem decisions_cohere (s : Posix.Spec) (m Y T o : Int) (hT1 : ys Y ≤ T) (hT2 : T < ys (Y + 1))
    (hsav : s.stdOff < s.dstOff) (ho : o = s.stdOff ∨ o = s.dstOff)
    (m1 : -m ≤ s.stdOff) (m2 : s.stdOff ≤ m) (m3 : -m ≤ s.dstOff) (m4 : s.dstOff ≤ m)
    (m5 : s.dstOff - s.stdOff ≤ m)
    (i0 : InsideM s (Y - 1) m) (i1 : InsideM s Y m) (i2 : InsideM s (Y + 1) m)
    (o0 : startUtc s (Y - 1) < endUtc s (Y - 1) ↔ startUtc s Y < endUtc s Y)
    (o2 : startUtc s (Y + 1) < endUtc s (Y + 1) ↔ startUtc s Y < endUtc s Y) :
    ∃ y', (ys y' ≤ T + o ∧ T + o < ys (y' + 1)) ∧ (y' = Y - 1 ∨ y' = Y ∨ y' = Y + 1) ∧
      RangeZone.naiveIsdst (T + o) (startUtc s y' + s.stdOff, endUtc s y' + s.stdOff) =
        RangeZone.naiveIsdst (T + o) (startUtc s Y + s.stdOff, endUtc s Y + s.stdOff) ∧
      (decide (endUtc s y' + s.stdOff ≤ T + o) && decide (T + o < endUtc s y' + s.stdOff + (s.dstOff - s.stdOff))) =
        (decide (endUtc s Y + s.stdOff ≤ T + o) && decide (T + o < endUtc s Y + s.stdOff + (s.dstOff - s.stdOff))) := by
  have e : Y - 1 + 1 = Y := by omega
  obtain ⟨a0, a1, a2, a3⟩ := i0
  obtain ⟨b0, b1, b2, b3⟩ := i1
  obtain ⟨c0, c1, c2, c3⟩ := i2
  rw [e] at a1 a3
  by_cases hlo : T + o < ys Y
  · refine ⟨Y - 1, ⟨by omega, by rw [e]; exact hlo⟩, Or.inl rfl, ?_, ?_⟩
    · unfold RangeZone.naiveIsdst
      simp only
      rw [Bool.eq_iff_iff]
      by_cases hN : startUtc s Y < endUtc s Y
      · have h0 := o0.mpr hN
        have h0' : startUtc s (Y - 1) + s.stdOff < endUtc s (Y - 1) + s.stdOff := by omega
        have hN' : startUtc s Y + s.stdOff < endUtc s Y + s.stdOff := by omega
        simp only [h0', hN', if_true, Bool.and_eq_true, decide_eq_true_eq]
        rcases ho with h | h <;> subst h <;> omega
      · have h0 : ¬ startUtc s (Y - 1) < endUtc s (Y - 1) := fun h => hN (o0.mp h)
        have h0' : ¬ startUtc s (Y - 1) + s.stdOff < endUtc s (Y - 1) + s.stdOff := by omega
        have hN' : ¬ startUtc s Y + s.stdOff < endUtc s Y + s.stdOff := by omega
        simp only [h0', hN', if_false, ← Bool.decide_and, Bool.not_eq_true', decide_eq_false_iff_not]
        rcases ho with h | h <;> subst h <;> omega
    · rw [Bool.eq_iff_iff]
      simp only [Bool.and_eq_true, decide_eq_true_eq]
      rcases ho with h | h <;> subst h <;> omega
  by_cases hhi : ys (Y + 1) ≤ T + o
  · refine ⟨Y + 1, ⟨hhi, by rcases ho with h | h <;> subst h <;> omega⟩, Or.inr (Or.inr rfl), ?_, ?_⟩
    · unfold RangeZone.naiveIsdst
      simp only
      rw [Bool.eq_iff_iff]
      by_cases hN : startUtc s Y < endUtc s Y
      · have h2 := o2.mpr hN
        have h2' : startUtc s (Y + 1) + s.stdOff < endUtc s (Y + 1) + s.stdOff := by omega
        have hN' : startUtc s Y + s.stdOff < endUtc s Y + s.stdOff := by omega
        simp only [h2', hN', if_true, Bool.and_eq_true, decide_eq_true_eq]
        rcases ho with h | h <;> subst h <;> omega
      · have h2 : ¬ startUtc s (Y + 1) < endUtc s (Y + 1) := fun h => hN (o2.mp h)
        have h2' : ¬ startUtc s (Y + 1) + s.stdOff < endUtc s (Y + 1) + s.stdOff := by omega
        have hN' : ¬ startUtc s Y + s.stdOff < endUtc s Y + s.stdOff := by omega
        simp only [h2', hN', if_false, ← Bool.decide_and, Bool.not_eq_true', decide_eq_false_iff_not]
        rcases ho with h | h <;> subst h <;> omega
    · rw [Bool.eq_iff_iff]
      simp only [Bool.and_eq_true, decide_eq_true_eq]
      rcases ho with h | h <;> subst h <;> omega
  · exact ⟨Y, ⟨by omega, by omega⟩, Or.inr (Or.inl rfl), rfl, rfl⟩

theorem amb_shift (x b sav k : Int) :
    (decide (b - k ≤ x - k) && decide (x - k < b - k + sav)) = (decide (b ≤ x) && decide (x < b + sav)) := by
  rw [Bool.eq_iff_iff]; simp only [Bool.and_eq_true, decide_eq_true_eq]; omega

theorem ys_ge (y : Int) (h : 1 ≤ y) : 86400 ≤ ys y := by
  have := ystart_mono 1 y h
  have e : toOrdinal 1 1 1 = 1 := by decide
  unfold ys; omega

end TZ
