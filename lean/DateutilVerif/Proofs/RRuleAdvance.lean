/-
  Proofs/RRuleAdvance.lean — the period advance of the four calendar frequencies: `advance` maps
  the cursor of period `k` to the cursor of period `k+1` (year + interval; month index + interval;
  day ordinal + interval with the month roll; week start + 7·interval), keeps the cursor a valid
  date, and re-establishes the year facts of `rebuild`.
-/
import DateutilVerif.Proofs.RRuleMasks

namespace RRule
open Cal

/-- linear day number of the cursor (also meaningful while `day` overflows its month) -/
def curOrd (c : Cursor) : Int := toOrdinal c.year c.month c.day

theorem curOrd_day (c : Cursor) (d : Int) : curOrd { c with day := d } = curOrd c + (d - c.day) := by
  unfold curOrd toOrdinal; dsimp only; omega

/-- the `while day > daysinmonth` loop keeps the linear day number and ends on a valid date -/
theorem rollDays_spec : ∀ (n : Nat) (y m d y' m' d' : Int),
    1 ≤ m → m ≤ 12 → 1 ≤ d → d ≤ n → rollDays n y m d = some (y', m', d') →
    toOrdinal y' m' d' = toOrdinal y m d ∧ ValidYMD y' m' d' ∧ y ≤ y' ∧ y' ≤ max y 9999 := by
  intro n
  induction n with
  | zero => intro y m d y' m' d' _ _ h1 h2; omega
  | succ k ih =>
    intro y m d y' m' d' hm1 hm12 hd1 hdn h
    unfold rollDays at h
    have hb := daysInMonth_bounds y m
    split at h
    · rename_i hgt
      have hs := daysBeforeMonth_succ y m hm1 hm12
      dsimp only at h
      split at h
      · rename_i h13
        have hm : m = 12 := by
          have : (m + 1 == 13) = true := h13
          simp at this; omega
        subst hm
        split at h
        · cases h
        · rename_i hy
          have := ih (y + 1) 1 (d - daysInMonth y 12) y' m' d' (by omega) (by omega) (by omega) (by omega) h
          obtain ⟨e, v, hle, hhi⟩ := this
          refine ⟨?_, v, by omega, by omega⟩
          rw [e]
          unfold toOrdinal
          rw [daysBeforeYear_succ, daysBeforeMonth_1, ← daysBeforeMonth_13 y]
          have : (12 : Int) + 1 = 13 := by omega
          rw [this] at hs
          omega
      · rename_i h13
        have hm : m + 1 ≤ 12 := by
          have : ¬ ((m + 1 == 13) = true) := h13
          simp at this; omega
        have := ih y (m + 1) (d - daysInMonth y m) y' m' d' (by omega) hm (by omega) (by omega) h
        obtain ⟨e, v, hle, hhi⟩ := this
        refine ⟨?_, v, hle, hhi⟩
        rw [e]; unfold toOrdinal; omega
    · rename_i hle
      injection h with h
      injection h with h1 h
      injection h with h2 h3
      subst h1; subst h2; subst h3
      exact ⟨rfl, ⟨hm1, hm12, hd1, by omega⟩, by omega, by omega⟩

/-- what `fixDay … true` does to a cursor whose month is valid and whose day is ≥ 1 -/
theorem fixDay_spec (r : Rule) (st st' : State) (h : fixDay r st true = .ok st')
    (hm1 : 1 ≤ st.cur.month) (hm12 : st.cur.month ≤ 12) (hd1 : 1 ≤ st.cur.day)
    (f : YearFacts r st.cur.year st.info) :
    curOrd st'.cur = curOrd st.cur ∧ ValidYMD st'.cur.year st'.cur.month st'.cur.day ∧
    YearFacts r st'.cur.year st'.info ∧
    st'.cur.hour = st.cur.hour ∧ st'.cur.minute = st.cur.minute ∧ st'.cur.second = st.cur.second ∧
    st'.cur.weekday = st.cur.weekday ∧ st'.timeset = st.timeset := by
  unfold fixDay at h
  dsimp only at h
  have hb := daysInMonth_bounds st.cur.year st.cur.month
  split at h
  · rename_i h28
    split at h
    · split at h
      · cases h
      · rename_i y m d hroll
        split at h
        · cases h
        · rename_i info hre
          injection h with h
          subst h
          have := rollDays_spec st.cur.day.toNat _ _ _ y m d hm1 hm12 hd1 (by omega) hroll
          exact ⟨this.1, this.2.1, rebuild_facts r y m info hre, rfl, rfl, rfl, rfl, rfl⟩
    · rename_i hle
      injection h with h
      subst h
      exact ⟨rfl, ⟨hm1, hm12, hd1, by omega⟩, f, rfl, rfl, rfl, rfl, rfl⟩
  · rename_i h28
    injection h with h
    subst h
    have : st.cur.day ≤ 28 := by simpa using h28
    exact ⟨rfl, ⟨hm1, hm12, hd1, by omega⟩, f, rfl, rfl, rfl, rfl, rfl⟩

/-- **YEARLY**: the cursor of period `k+1` is the year `interval` later; month / day untouched -/
theorem advance_yearly (r : Rule) (st st' : State) (b : Bool) (hf : r.freq = 0)
    (h : advance r st b = .ok st') :
    st'.cur = { st.cur with year := st.cur.year + r.interval } ∧
    YearFacts r (st.cur.year + r.interval) st'.info ∧ st'.timeset = st.timeset := by
  unfold advance at h
  dsimp only at h
  rw [if_pos (by simp [hf])] at h
  split at h
  · cases h
  · split at h
    · cases h
    · rename_i info hre
      injection h with h; subst h
      exact ⟨rfl, rebuild_facts r _ _ info hre, rfl⟩

/-- **MONTHLY**: the month index `year·12 + (month−1)` grows by `interval`, the month stays in 1..12 -/
theorem advance_monthly (r : Rule) (st st' : State) (b : Bool) (hf : r.freq = 1)
    (hi : 1 ≤ r.interval) (hm1 : 1 ≤ st.cur.month) (hm12 : st.cur.month ≤ 12)
    (h : advance r st b = .ok st') :
    st'.cur.year * 12 + (st'.cur.month - 1) = st.cur.year * 12 + (st.cur.month - 1) + r.interval ∧
    1 ≤ st'.cur.month ∧ st'.cur.month ≤ 12 ∧ st'.cur.day = st.cur.day ∧
    YearFacts r st'.cur.year st'.info ∧ st'.timeset = st.timeset := by
  unfold advance at h
  dsimp only at h
  rw [if_neg (by simp [hf]), if_pos (by simp [hf])] at h
  split at h
  · rename_i hgt
    simp only [Py.divmod, Py.fdiv_pos _ (by omega : (0:Int) < 12), Py.fmod_pos _ (by omega : (0:Int) < 12)] at h
    by_cases c : (st.cur.month + r.interval) % 12 = 0
    · have c' : ((st.cur.month + r.interval) % 12 == 0) = true := by simp [c]
      simp only [c', ↓reduceIte] at h
      split at h
      · cases h
      · split at h
        · cases h
        · rename_i info hre
          injection h with h; subst h
          refine ⟨?_, ?_, ?_, rfl, rebuild_facts r _ _ info hre, rfl⟩ <;> dsimp only <;> omega
    · have c' : ((st.cur.month + r.interval) % 12 == 0) = false := by simp [c]
      simp only [c', Bool.false_eq_true, ↓reduceIte] at h
      split at h
      · cases h
      · split at h
        · cases h
        · rename_i info hre
          injection h with h; subst h
          refine ⟨?_, ?_, ?_, rfl, rebuild_facts r _ _ info hre, rfl⟩ <;> dsimp only <;> omega
  · rename_i hle
    split at h
    · cases h
    · rename_i info hre
      injection h with h; subst h
      exact ⟨by dsimp only; omega, by dsimp only; omega, by dsimp only; omega, rfl, rebuild_facts r _ _ info hre, rfl⟩

/-- **DAILY**: the cursor's day number grows by `interval`; the cursor stays a valid date -/
theorem advance_daily (r : Rule) (st st' : State) (b : Bool) (hf : r.freq = 3)
    (hi : 1 ≤ r.interval) (hv : ValidYMD st.cur.year st.cur.month st.cur.day)
    (f : YearFacts r st.cur.year st.info) (h : advance r st b = .ok st') :
    curOrd st'.cur = curOrd st.cur + r.interval ∧ ValidYMD st'.cur.year st'.cur.month st'.cur.day ∧
    YearFacts r st'.cur.year st'.info ∧ st'.timeset = st.timeset := by
  unfold advance at h
  dsimp only at h
  rw [if_neg (by simp [hf]), if_neg (by simp [hf]), if_neg (by simp [hf]), if_pos (by simp [hf])] at h
  obtain ⟨hm1, hm12, hd1, _⟩ := hv
  have := fixDay_spec r _ st' h hm1 hm12 (by dsimp only; omega) f
  obtain ⟨e, v, f', _, _, _, _, ts⟩ := this
  refine ⟨?_, v, f', ts⟩
  rw [e]; unfold curOrd toOrdinal; dsimp only; omega

/-- **WEEKLY**: the cursor moves to the start (weekday `wkst`) of the week `interval` weeks after
    the week containing it -/
theorem advance_weekly (r : Rule) (st st' : State) (b : Bool) (hf : r.freq = 2)
    (hi : 1 ≤ r.interval) (hv : ValidYMD st.cur.year st.cur.month st.cur.day)
    (hw : 0 ≤ r.wkst ∧ r.wkst ≤ 6) (hcw : 0 ≤ st.cur.weekday ∧ st.cur.weekday ≤ 6)
    (f : YearFacts r st.cur.year st.info) (h : advance r st b = .ok st') :
    curOrd st'.cur = curOrd st.cur - (st.cur.weekday - r.wkst) % 7 + 7 * r.interval ∧
    ValidYMD st'.cur.year st'.cur.month st'.cur.day ∧ st'.cur.weekday = r.wkst ∧
    YearFacts r st'.cur.year st'.info ∧ st'.timeset = st.timeset := by
  unfold advance at h
  dsimp only at h
  rw [if_neg (by simp [hf]), if_neg (by simp [hf]), if_pos (by simp [hf])] at h
  obtain ⟨hm1, hm12, hd1, _⟩ := hv
  have := fixDay_spec r _ st' h hm1 hm12 (by dsimp only; split <;> omega) f
  obtain ⟨e, v, f', _, _, _, wd, ts⟩ := this
  refine ⟨?_, v, wd, f', ts⟩
  rw [e]; unfold curOrd toOrdinal; dsimp only
  split <;> omega

end RRule
