/-
  Proofs/RDScale.lean — the translated `__mul__` (dyadic factor), `__div__` (power of two) and `normalized()` equal the
  hand model of Model/RDScale.lean; the truncated quotient.
-/
import DateutilVerif.Proofs.RDGenEq
import DateutilVerif.Model.RDScale

namespace RDG
open RDM

theorem mulDy_eq (self : RD) (f : RDPy.Dy) : Gen.mulDy self f = .ok (RDM.mulDyadic self f.m f.k) := by
  unfold Gen.mulDy
  simp only []
  rw [initKw_plain _ self.weekday rfl rfl rfl]
  unfold RDM.mulDyadic RDM.scaleField RDPy.truncDy RDPy.intMulDy
  simp only [bind_ok, Int.zero_mul, Int.add_zero]

theorem divPow2_eq (self : RD) (p : RDPy.Pow2) : Gen.divPow2 self p = .ok (RDM.divPow2 self p.neg p.k) := by
  unfold Gen.divPow2
  simp only []
  rw [mulDy_eq]
  rfl

theorem normalized_eq (self : RD) : Gen.normalized self = .ok (RDM.normalizedInt self) := by
  unfold Gen.normalized
  simp only []
  rw [initKw_plain _ self.weekday rfl rfl rfl]
  unfold RDM.normalizedInt
  simp only [bind_ok, Int.zero_mul, Int.add_zero, Int.sub_self, Int.mul_zero]

/-- the truncated quotient: `a = q·b + r` with the remainder on `a`'s side of zero and smaller than `b` -/
theorem tquot_spec (a b : Int) (hb : 0 < b) :
    (0 ≤ a → 0 ≤ a - RDPy.tquot a b * b ∧ a - RDPy.tquot a b * b < b) ∧
    (a < 0 → -b < a - RDPy.tquot a b * b ∧ a - RDPy.tquot a b * b ≤ 0) := by
  unfold RDPy.tquot
  constructor
  · intro h
    rw [if_pos h]
    have h1 := Int.emod_nonneg a (Int.ne_of_gt hb)
    have h2 := Int.emod_lt_of_pos a hb
    have h3 := Int.emod_add_mul_ediv a b
    have h4 : a / b * b = b * (a / b) := Int.mul_comm _ _
    omega
  · intro h
    rw [if_neg (by omega)]
    have h1 := Int.emod_nonneg (-a) (Int.ne_of_gt hb)
    have h2 := Int.emod_lt_of_pos (-a) hb
    have h3 := Int.emod_add_mul_ediv (-a) b
    have h4 : -(-a / b) * b = -(b * (-a / b)) := by rw [Int.neg_mul, Int.mul_comm]
    omega

theorem tquot_exact (a b : Int) (hb : 0 < b) (h : a % b = 0) : RDPy.tquot a b * b = a := by
  have hd : b ∣ a := Int.dvd_of_emod_eq_zero h
  obtain ⟨c, hc⟩ := hd
  unfold RDPy.tquot
  split
  · rw [hc, Int.mul_ediv_cancel_left _ (Int.ne_of_gt hb), Int.mul_comm]
  · have : -a = b * (-c) := by rw [hc, Int.mul_neg]
    rw [this, Int.mul_ediv_cancel_left _ (Int.ne_of_gt hb), Int.neg_neg, Int.mul_comm, hc]

theorem tquot_one (a : Int) : RDPy.tquot a 1 = a := by
  unfold RDPy.tquot; split <;> simp

end RDG
