/- Proofs/Time.lean — `toMicros` / `ofMicros` are inverse; comparison is comparison of `toMicros`. -/
import DateutilVerif.Base.Time
import DateutilVerif.Proofs.Calendar

namespace DT

theorem timeMicros_range (t : DT) (h : t.Valid) : 0 ≤ t.timeMicros ∧ t.timeMicros < usPerDay := by
  obtain ⟨_, h1, h2, h3, h4, h5, h6, h7, h8⟩ := h
  unfold timeMicros usPerDay
  omega

theorem ofMicros_toMicros (t : DT) (h : t.Valid) : ofMicros t.toMicros = t := by
  have hr := timeMicros_range t h
  obtain ⟨⟨hy1, hy2, hv⟩, h1, h2, h3, h4, h5, h6, h7, h8⟩ := h
  have hq : t.toMicros / usPerDay = t.ordinal := by
    unfold toMicros usPerDay at *; omega
  have hm : t.toMicros % usPerDay = t.timeMicros := by
    unfold toMicros usPerDay at *; omega
  unfold ofMicros
  simp only [hq, hm]
  have hf := Cal.fromOrdinal_toOrdinal t.y t.m t.d hy1 hv
  unfold ordinal
  rw [hf]
  cases t
  simp only [timeMicros] at *
  congr 1 <;> omega

theorem toMicros_ofMicros (x : Int) (h : usPerDay ≤ x) : (ofMicros x).toMicros = x := by
  have hord : 1 ≤ x / usPerDay := by unfold usPerDay at *; omega
  have ⟨e, _, _⟩ := Cal.toOrdinal_fromOrdinal (x / usPerDay) hord
  unfold ofMicros toMicros ordinal timeMicros
  simp only []
  rw [e]
  unfold usPerDay at *
  omega

theorem ofMicros_valid (x : Int) (h1 : minMicros ≤ x) (h2 : x ≤ maxMicros) : (ofMicros x).Valid := by
  have hord : 1 ≤ x / usPerDay := by unfold minMicros usPerDay at *; omega
  have hord2 : x / usPerDay ≤ Cal.maxOrdinal := by unfold maxMicros Cal.maxOrdinal usPerDay at *; omega
  have ⟨e, v, y1⟩ := Cal.toOrdinal_fromOrdinal (x / usPerDay) hord
  have hy : (Cal.fromOrdinal (x / usPerDay)).1 ≤ 9999 := by
    apply Classical.byContradiction
    intro hc
    have := Cal.toOrdinal_lt_of_lex 9999 12 31 _ _ _ (by decide) v (Or.inl (by omega))
    have e9 : Cal.toOrdinal 9999 12 31 = 3652059 := by decide
    unfold Cal.maxOrdinal at hord2
    omega
  unfold ofMicros Valid Cal.ValidDate
  simp only []
  refine ⟨⟨y1, hy, v⟩, ?_⟩
  unfold usPerDay
  omega

end DT
