/-
  Proofs/ICal.lean — lemmas for C17: cache transparency, `before(x, inc=True)` on onset lists,
  latest-onset selection, and the VTIMEZONE = range-zone theorem inside one yearly cycle.
-/
import DateutilVerif.Model.ICal

namespace ICal


/-- every cached pair equals the uncached answer -/
def CacheInv (comps : List ZComp) (c : Cache) : Prop :=
  ∀ e ∈ c, e.2 = findCompIdx comps e.1.1 e.1.2

theorem findCompCached_spec (comps : List ZComp) (c : Cache) (w : Int) (fold : Bool) (h : CacheInv comps c) :
    (findCompCached comps c w fold).1 = findCompIdx comps w fold ∧
    CacheInv comps (findCompCached comps c w fold).2 ∧ (findCompCached comps c w fold).2.length ≤ max c.length 10 := by
  unfold findCompCached
  by_cases h1 : (comps.length == 1) = true
  · simp only [h1, if_true]
    refine ⟨?_, h, by omega⟩
    unfold findCompIdx; simp [h1]
  · have h1' : (comps.length == 1) = false := by simpa using h1
    simp only [h1', Bool.false_eq_true, ↓reduceIte]
    cases hf : c.find? (fun e => e.1 == (w, fold)) with
    | some e =>
      simp only []
      have hm := List.mem_of_find?_eq_some hf
      have hp := List.find?_some hf
      simp only [beq_iff_eq] at hp
      refine ⟨?_, h, by omega⟩
      have := h e hm
      rw [hp] at this
      exact this
    | none =>
      simp only []
      have hnew : CacheInv comps (((w, fold), findCompIdx comps w fold) :: c) := by
        intro e he
        cases he with
        | head => rfl
        | tail _ he => exact h e he
      refine ⟨trivial, ?_, ?_⟩
      · split
        · intro e he
          exact hnew e (List.dropLast_subset _ he)
        · exact hnew
      · split
        · simp [List.length_dropLast]; omega
        · rename_i hlen
          simp at hlen ⊢
          omega

/-- run a whole query history through the cache -/
def runCached (comps : List ZComp) (qs : List (Int × Bool)) (c : Cache) : List Nat × Cache :=
  qs.foldl (fun acc q => let r := findCompCached comps acc.2 q.1 q.2; (acc.1 ++ [r.1], r.2)) ([], c)

theorem runCached_aux (comps : List ZComp) (qs : List (Int × Bool)) (pre : List Nat) (c : Cache) (h : CacheInv comps c) :
    (qs.foldl (fun acc q => let r := findCompCached comps acc.2 q.1 q.2; (acc.1 ++ [r.1], r.2)) (pre, c)).1
      = pre ++ qs.map (fun q => findCompIdx comps q.1 q.2) := by
  induction qs generalizing pre c with
  | nil => simp
  | cons q qs ih =>
    have sp := findCompCached_spec comps c q.1 q.2 h
    simp only [List.foldl_cons, List.map_cons]
    rw [ih _ _ sp.2.1, sp.1]
    simp


theorem lastLE_foldl (l : List Int) (x : Int) (acc : Option Int) :
    l.foldl (fun acc o => if o ≤ x then some o else acc) acc =
      (match (l.filter (· ≤ x)).getLast? with | some o => some o | none => acc) := by
  induction l generalizing acc with
  | nil => simp
  | cons a l ih =>
    simp only [List.foldl_cons]
    rw [ih]
    by_cases ha : a ≤ x
    · simp only [ha, if_true, List.filter_cons, decide_true]
      cases h : (l.filter (· ≤ x)).getLast? with
      | none =>
        have : l.filter (· ≤ x) = [] := by simpa using h
        simp [this]
      | some o =>
        have hne : l.filter (· ≤ x) ≠ [] := by intro hc; simp [hc] at h
        simp [List.getLast?_cons, h]
    · simp [ha]

/-- `rrule.before(x, inc=True)` on an onset list: the LAST listed onset ≤ x -/
theorem lastLE_eq (l : List Int) (x : Int) : lastLE l x = (l.filter (· ≤ x)).getLast? := by
  unfold lastLE
  rw [lastLE_foldl]
  cases (l.filter (· ≤ x)).getLast? <;> rfl

theorem lastLE_some (l : List Int) (x o : Int) (h : lastLE l x = some o) : o ∈ l ∧ o ≤ x := by
  rw [lastLE_eq] at h
  have := List.mem_of_getLast? h
  simpa using this

theorem lastLE_none (l : List Int) (x : Int) : lastLE l x = none ↔ ∀ o ∈ l, x < o := by
  rw [lastLE_eq]
  simp

/-- on a sorted onset list the answer is the greatest onset ≤ x -/
theorem lastLE_max (l : List Int) (x o : Int) (hs : l.Pairwise (· ≤ ·)) (h : lastLE l x = some o) :
    ∀ o' ∈ l, o' ≤ x → o' ≤ o := by
  rw [lastLE_eq] at h
  intro o' ho' hx
  have hm : o' ∈ l.filter (· ≤ x) := by simp [ho', hx]
  have hsf : (l.filter (· ≤ x)).Pairwise (· ≤ ·) := hs.filter _
  generalize l.filter (· ≤ x) = f at *
  induction f with
  | nil => simp at hm
  | cons a f ih =>
    cases f with
    | nil => simp at h hm; omega
    | cons b f =>
      simp only [List.getLast?_cons_cons] at h
      cases hm with
      | head =>
        have hb : o ∈ (b :: f) := List.mem_of_getLast? h
        have := (List.pairwise_cons.mp hsf).1 o hb
        exact this
      | tail _ hm => exact ih h hm (List.pairwise_cons.mp hsf).2

/-- **latest-onset selection, two components**: the later of the two latest onsets wins, the
    first component on a tie; with no onset reached, the first STANDARD component, else the first. -/
theorem select_two (a b : ZComp) (w : Int) (fold : Bool) :
    findCompIdx [a, b] w fold =
      (match findCompdt a w fold, findCompdt b w fold with
       | some da, some db => if da < db then 1 else 0
       | some _, none => 0
       | none, some _ => 1
       | none, none => if !a.isdst then 0 else if !b.isdst then 1 else 0) := by
  unfold findCompIdx
  simp only [List.length_cons, List.length_nil, List.zipIdx, List.foldl_cons, List.foldl_nil, selStep]
  cases ha : findCompdt a w fold <;> cases hb : findCompdt b w fold <;> simp [List.findIdx?_cons]
  · cases a.isdst <;> cases b.isdst <;> simp
  · rename_i da db
    by_cases h : da < db <;> simp [h]


/-- the interval semantics of a range zone inside one cycle `[on, nextOn)`: daylight time on
    `[on, off)`, and on the repeated hour `[off, off+saving)` for `fold = 0` -/
def cycleIsDst (off saving w : Int) (fold : Bool) : Bool :=
  decide (w < off) || (decide (w < off + saving) && !fold)

/-- **VTIMEZONE = range zone inside a cycle.** STANDARD component (onsets `S`, in daylight wall time)
    listed first, DAYLIGHT component (onsets `D`, in standard wall time) second; for every wall time of
    the cycle and either fold the selected component is the DAYLIGHT one exactly when the range zone
    says daylight time. `H1–H3` say "the onsets in force are this cycle's transitions" in terms of
    `before(x, inc=True)`. -/
theorem two_comp_cycle (S D : List Int) (stdOff dstOff on off nextOn w : Int) (fold : Bool)
    (hsav : stdOff < dstOff) (h1 : on < off) (h2 : off + (dstOff - stdOff) ≤ nextOn)
    (hw1 : on ≤ w) (hw2 : w < nextOn)
    (H1 : ∀ x, on ≤ x → x < nextOn → lastLE D x = some on)
    (H2 : ∀ x, on ≤ x → x < off + (dstOff - stdOff) → ∀ p, lastLE S x = some p → p < on)
    (H3 : ∀ x, off + (dstOff - stdOff) ≤ x → x < nextOn + (dstOff - stdOff) → lastLE S x = some (off + (dstOff - stdOff))) :
    let comps := [{ tzoffsetfrom := dstOff, tzoffsetto := stdOff, isdst := false, onsets := S : ZComp },
                  { tzoffsetfrom := stdOff, tzoffsetto := dstOff, isdst := true, onsets := D : ZComp }]
    findCompIdx comps w fold = (if cycleIsDst off (dstOff - stdOff) w fold then 1 else 0) ∧
    utcoffset comps w fold = (if cycleIsDst off (dstOff - stdOff) w fold then dstOff else stdOff) ∧
    dst comps w fold = (if cycleIsDst off (dstOff - stdOff) w fold then dstOff - stdOff else 0) := by
  intro comps
  have key : findCompIdx comps w fold = (if cycleIsDst off (dstOff - stdOff) w fold then 1 else 0) := by
    simp only [comps]
    rw [select_two]
    simp only [findCompdt, ZComp.diff]
    have hneg : (stdOff - dstOff < 0) = True := by simp; omega
    have hpos : ¬ (dstOff - stdOff < 0) := by omega
    simp only [hneg, decide_true, Bool.true_and, hpos, decide_false, Bool.false_and, Bool.false_eq_true, if_false]
    rw [H1 w hw1 hw2]
    unfold cycleIsDst
    cases fold with
    | false =>
      simp only [Bool.false_eq_true, if_false, Bool.not_false, Bool.and_true]
      by_cases c : w < off + (dstOff - stdOff)
      · have hc : (decide (w < off) || decide (w < off + (dstOff - stdOff))) = true := by simp [c]
        rw [hc]
        cases hs : lastLE S w with
        | none => simp
        | some p => have := H2 w hw1 c p hs; simp [this]
      · have hc : (decide (w < off) || decide (w < off + (dstOff - stdOff))) = false := by simp; omega
        rw [hc, H3 w (by omega) (by omega)]
        simp; omega
    | true =>
      simp only [if_true, Bool.not_true, Bool.and_false, Bool.or_false]
      have e : w - (stdOff - dstOff) = w + (dstOff - stdOff) := by omega
      rw [e]
      by_cases c : w < off
      · simp only [c, decide_true, if_true]
        cases hs : lastLE S (w + (dstOff - stdOff)) with
        | none => simp
        | some p => have := H2 _ (by omega) (by omega) p hs; simp [this]
      · simp only [c, decide_false, Bool.false_eq_true, if_false]
        rw [H3 _ (by omega) (by omega)]
        simp; omega
  refine ⟨key, ?_, ?_⟩
  · unfold utcoffset; rw [key]; split <;> simp [comps]
  · unfold dst; rw [key]; split <;> simp [comps, ZComp.diff]


/-- `tzrangebase._isdst` for one year's transitions `(on, off)` (both on the standard side) -/
def rangeIsDst (on off saving w : Int) (fold : Bool) : Bool :=
  let naive := if on < off then decide (on ≤ w ∧ w < off) else !(decide (off ≤ w ∧ w < on))
  if !naive && decide (off ≤ w ∧ w < off + saving) then !fold else naive

/-- inside the year of `on` the range zone's decision is the cycle's interval semantics -/
theorem range_eq_cycle_same_year (on off saving w : Int) (fold : Bool) (h1 : on < off) (hs : 0 < saving) (hw : on ≤ w) :
    rangeIsDst on off saving w fold = cycleIsDst off saving w fold := by
  unfold rangeIsDst cycleIsDst
  simp only [h1, if_true]
  rw [Bool.eq_iff_iff]
  cases fold <;> simp <;> omega

/-- in the following year, before that year's own start, the range zone says standard time, as the cycle does -/
theorem range_eq_cycle_next_year (off nextOn nextOff saving w : Int) (fold : Bool) (h1 : nextOn < nextOff)
    (hs : 0 < saving) (hw1 : off + saving ≤ w) (hw2 : w < nextOn) :
    rangeIsDst nextOn nextOff saving w fold = cycleIsDst off saving w fold := by
  unfold rangeIsDst cycleIsDst
  simp only [h1, if_true]
  rw [Bool.eq_iff_iff]
  cases fold <;> simp <;> omega

end ICal
