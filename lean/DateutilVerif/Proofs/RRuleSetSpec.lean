/-
  Proofs/RRuleSetSpec.lean — facts about the specification side of C10 (`sortDedup`), extensionality
  of strictly increasing lists, the cursors of the initial heaps, and admissibility of `selFirstMin`.
-/
import DateutilVerif.Proofs.RRuleSet

namespace RSet

theorem insertDedup_spec (x : Int) (l : List Int) (h : l.Pairwise (· < ·)) :
    (insertDedup x l).Pairwise (· < ·) ∧ ∀ y, y ∈ insertDedup x l ↔ y = x ∨ y ∈ l := by
  induction l with
  | nil => simp [insertDedup]
  | cons a l ih =>
    have ⟨ha, hl⟩ := List.pairwise_cons.mp h
    have ⟨ih1, ih2⟩ := ih hl
    unfold insertDedup
    by_cases h1 : x < a
    · rw [if_pos h1]
      refine ⟨?_, fun y => by simp⟩
      rw [List.pairwise_cons]
      refine ⟨fun b hb => ?_, h⟩
      rcases List.mem_cons.mp hb with rfl | hb
      · exact h1
      · have := ha b hb; omega
    · rw [if_neg h1]
      by_cases h2 : x = a
      · rw [if_pos h2]
        refine ⟨h, fun y => ?_⟩
        subst h2; simp
      · rw [if_neg h2]
        refine ⟨?_, fun y => ?_⟩
        · rw [List.pairwise_cons]
          refine ⟨fun b hb => ?_, ih1⟩
          rcases (ih2 b).mp hb with rfl | hb
          · omega
          · exact ha b hb
        · rw [List.mem_cons, ih2 y, List.mem_cons]
          constructor
          · rintro (h | h | h)
            · exact Or.inr (Or.inl h)
            · exact Or.inl h
            · exact Or.inr (Or.inr h)
          · rintro (h | h | h)
            · exact Or.inr (Or.inl h)
            · exact Or.inl h
            · exact Or.inr (Or.inr h)

theorem sortDedup_spec (l : List Int) :
    (sortDedup l).Pairwise (· < ·) ∧ ∀ y, y ∈ sortDedup l ↔ y ∈ l := by
  induction l with
  | nil => simp [sortDedup]
  | cons a l ih =>
    have ⟨h1, h2⟩ := insertDedup_spec a (sortDedup l) ih.1
    refine ⟨h1, fun y => ?_⟩
    show y ∈ insertDedup a (sortDedup l) ↔ _
    rw [h2 y, ih.2 y, List.mem_cons]

/-- strictly increasing lists with the same members are equal -/
theorem sorted_ext : ∀ (l1 l2 : List Int), l1.Pairwise (· < ·) → l2.Pairwise (· < ·) →
    (∀ x, x ∈ l1 ↔ x ∈ l2) → l1 = l2 := by
  intro l1
  induction l1 with
  | nil =>
    intro l2 _ _ h
    cases l2 with
    | nil => rfl
    | cons b l2 => have := (h b).mpr (by simp); cases this
  | cons a l1 ih =>
    intro l2 h1 h2 h
    cases l2 with
    | nil => have := (h a).mp (by simp); cases this
    | cons b l2 =>
      have ⟨ha, hl1⟩ := List.pairwise_cons.mp h1
      have ⟨hb, hl2⟩ := List.pairwise_cons.mp h2
      have hab : a = b := by
        have h3 := (h a).mp (by simp)
        have h4 := (h b).mpr (by simp)
        rcases List.mem_cons.mp h3 with e | h3
        · exact e
        · rcases List.mem_cons.mp h4 with e | h4
          · exact e.symm
          · have := hb a h3; have := ha b h4; omega
      subst hab
      congr 1
      apply ih l2 hl1 hl2
      intro x
      constructor
      · intro hx
        have := (h x).mp (by simp [hx])
        rcases List.mem_cons.mp this with e | h5
        · have := ha x hx; omega
        · exact h5
      · intro hx
        have := (h x).mpr (by simp [hx])
        rcases List.mem_cons.mp this with e | h5
        · have := hb x hx; omega
        · exact h5

/-! ### the initial heaps -/

theorem mem_elemsOf_mk (l : List (List Int)) (x : Int) :
    x ∈ elemsOf (l.filterMap mkCursor) ↔ x ∈ l.flatten := by
  induction l with
  | nil => simp [elemsOf]
  | cons s l ih =>
    cases s with
    | nil => simpa [mkCursor, List.filterMap_cons] using ih
    | cons a s =>
      simp only [List.filterMap_cons, mkCursor, List.flatten_cons, List.mem_append]
      rw [← ih]
      simp [elemsOf, Cursor.elems, or_assoc]

theorem total_mk (l : List (List Int)) : total (l.filterMap mkCursor) = totalLen l := by
  induction l with
  | nil => rfl
  | cons s l ih =>
    cases s with
    | nil => simpa [mkCursor, List.filterMap_cons, totalLen] using ih
    | cons a s =>
      simp only [List.filterMap_cons, mkCursor, totalLen, List.map_cons, List.sum_cons] at ih ⊢
      simp only [total, List.map_cons, List.sum_cons, Cursor.elems] at ih ⊢
      rw [ih]

theorem sorted_mk (l : List (List Int)) (h : ∀ s ∈ l, s.Pairwise (· ≤ ·)) :
    HSorted (l.filterMap mkCursor) := by
  intro c hc
  rw [List.mem_filterMap] at hc
  obtain ⟨s, hs, hm⟩ := hc
  cases s with
  | nil => simp [mkCursor] at hm
  | cons a s =>
    simp only [mkCursor, Option.some.injEq] at hm
    subst hm
    exact h _ hs

/-! ### `selFirstMin` is an admissible discipline (non-vacuity of `Admissible`) -/

theorem selFirstMin_adm : Admissible selFirstMin := by
  have key : ∀ hp : List Cursor, (hp = [] ∧ selFirstMin hp = none) ∨
      ∃ c rest, selFirstMin hp = some (c, rest) ∧ (c :: rest).Perm hp ∧ ∀ d ∈ rest, c.dt ≤ d.dt := by
    intro hp
    induction hp with
    | nil => exact Or.inl ⟨rfl, rfl⟩
    | cons c cs ih =>
      right
      unfold selFirstMin
      rcases ih with ⟨rfl, hn⟩ | ⟨m, rest, hs, hp, hm⟩
      · rw [hn]; exact ⟨c, [], rfl, List.Perm.refl _, by simp⟩
      · rw [hs]
        simp only []
        by_cases hle : c.dt ≤ m.dt
        · rw [if_pos hle]
          refine ⟨c, cs, rfl, List.Perm.refl _, fun d hd => ?_⟩
          rcases List.mem_cons.mp (hp.mem_iff.mpr hd) with rfl | hd'
          · exact hle
          · exact Int.le_trans hle (hm d hd')
        · rw [if_neg hle]
          refine ⟨m, c :: rest, rfl, ?_, fun d hd => ?_⟩
          · exact (List.Perm.swap c m rest).trans (List.Perm.cons c hp)
          · rcases List.mem_cons.mp hd with rfl | hd'
            · omega
            · exact hm d hd'
  refine ⟨fun hp hne => ?_, fun hp c rest h => ?_, fun hp c rest h => ?_⟩
  · rcases key hp with ⟨e, _⟩ | ⟨c, rest, hs, _, _⟩
    · exact absurd e hne
    · rw [hs]; simp
  · rcases key hp with ⟨_, hn⟩ | ⟨c', rest', hs, hp', _⟩
    · rw [hn] at h; cases h
    · rw [hs] at h; cases h; exact hp'
  · rcases key hp with ⟨_, hn⟩ | ⟨c', rest', hs, _, hm⟩
    · rw [hn] at h; cases h
    · rw [hs] at h; cases h; exact hm

end RSet
