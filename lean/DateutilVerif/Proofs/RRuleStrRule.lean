/-
  Proofs/RRuleStrRule.lean — from the printed arguments back to the RULE: C13's text round trip composed with
  C01's constructor (`RRule.construct`, `RRule.origArgs`, `construct_origArgs`).
-/
import DateutilVerif.Proofs.RRuleOrig
import DateutilVerif.Proofs.RRuleStrWhole

namespace RRuleStr
open RRule (Args Rule construct origArgs construct_origArgs constructW resolveW)

def sixOf (d : DT) : Nat × Nat × Nat × Nat × Nat × Nat :=
  (d.y.toNat, d.m.toNat, d.d.toNat, d.hh.toNat, d.mm.toNat, d.ss.toNat)

/-- what `rrule.__str__` reads off a rule whose `_original_rule ∪ {freq, dtstart, interval, wkst, count, until}` is `o`
    (C01's `origArgs`) when `calendar.firstweekday()` is `k` at the time of the call: a recorded weekday `(wd, 0)` is the
    plain `WD`, `(wd, n)` is `WD(n)` -/
def strInOf (k : Int) (o : Args) : StrIn :=
  { dtstart := some (sixOf o.dtstart), freq := o.freq.toNat, interval := o.interval, wkst := o.wkst.getD 0,
    count := o.count, untilV := o.untilDT.map sixOf,
    orig := { bysetpos := o.bysetpos, bymonth := o.bymonth, bymonthday := o.bymonthday, byyearday := o.byyearday,
              byeaster := o.byeaster, byweekno := o.byweekno,
              byweekday := o.byweekday.map (fun l => l.map (fun w => (w.1, if w.2 == 0 then none else some w.2))),
              byhour := o.byhour, byminute := o.byminute, bysecond := o.bysecond },
    fwd := k }

/-- the keyword arguments `rrulestr` hands to `rrule()` (`pa`), as C01 arguments.  The two date VALUES are taken from `o`:
    that `parser.parse` reads the compact texts `showDT …` back as the datetimes they were printed from is C02's domain and is
    tied here by the correspondence and the oracle only (`compact_roundtrip` is about the driver's display helper). -/
def backArgs (o : Args) (pa : RArgs) : Args :=
  { freq := pa.freq.getD 0, dtstart := o.dtstart, tz := o.tz, interval := pa.interval.getD 1, wkst := pa.wkst,
    count := pa.count, untilDT := pa.untilV.bind (fun _ => o.untilDT),
    bysetpos := pa.bysetpos, bymonth := pa.bymonth, bymonthday := pa.bymonthday, byyearday := pa.byyearday,
    byeaster := pa.byeaster, byweekno := pa.byweekno,
    byweekday := pa.byweekday.map (fun l => l.map (fun w => (w.1, w.2.getD 0))),
    byhour := pa.byhour, byminute := pa.byminute, bysecond := pa.bysecond }

/-- no BY argument of `o` is an empty sequence — the rules D-C13-empty-by-list is NOT about -/
structure NoEmptyBy (o : Args) : Prop where
  bysetpos : o.bysetpos ≠ some []
  bymonth : o.bymonth ≠ some []
  bymonthday : o.bymonthday ≠ some []
  byyearday : o.byyearday ≠ some []
  byeaster : o.byeaster ≠ some []
  byweekno : o.byweekno ≠ some []
  byweekday : o.byweekday ≠ some []
  byhour : o.byhour ≠ some []
  byminute : o.byminute ≠ some []
  bysecond : o.bysecond ≠ some []

theorem normL_of_ne {α : Type} (v : Option (List α)) (h : v ≠ some []) : normL v = v := by
  rcases v with _ | _ | _
  · rfl
  · exact absurd rfl h
  · rfl

theorem construct_wkst (o : Args) (w : Option Int) (h : w.getD 0 = o.wkst.getD 0) :
    construct { o with wkst := w } = construct o := by
  cases o with
  | mk freq dtstart tz interval wkst count untilDT bysetpos bymonth bymonthday byyearday byeaster byweekno byweekday byhour byminute bysecond =>
    cases w <;> cases wkst <;> simp at h <;> (try subst h) <;> rfl

/-- printing (under ambient first weekday `k`) and reparsing gives the constructor the same arguments again, up to the
    spelling of the defaults (`interval` 1 is not printed; `wkst` MO is not printed when the ambient first weekday is Monday) -/
theorem backArgs_argsOf (po : ParseOpts) (k : Int) (o : Args) (hf : 0 ≤ o.freq) (hne : NoEmptyBy o) :
    backArgs o (argsOf po (strInOf k o)) =
      { o with wkst := if (o.wkst.getD 0 != 0 || k != 0) then some (o.wkst.getD 0) else none } := by
  have hw : ∀ l : List (Int × Int),
      (l.map (fun w => (w.1, if w.2 == 0 then (none : Option Int) else some w.2))).map (fun w => (w.1, w.2.getD 0)) = l := by
    intro l
    induction l with
    | nil => rfl
    | cons w l ih =>
      simp only [List.map_cons, ih]
      congr 1
      obtain ⟨a, b⟩ := w
      by_cases hb : b = 0 <;> simp [hb]
  have hbw : normL (o.byweekday.map (fun l => l.map (fun w => (w.1, if w.2 == 0 then (none : Option Int) else some w.2)))) =
      o.byweekday.map (fun l => l.map (fun w => (w.1, if w.2 == 0 then (none : Option Int) else some w.2))) := by
    apply normL_of_ne
    cases hb : o.byweekday with
    | none => simp
    | some l =>
      cases l with
      | nil => exact absurd hb hne.byweekday
      | cons => simp
  cases o with
  | mk freq dtstart tz interval wkst count untilDT bysetpos bymonth bymonthday byyearday byeaster byweekno byweekday byhour byminute bysecond =>
    simp only [backArgs, argsOf, strInOf] at hbw ⊢
    rw [hbw, normL_of_ne _ hne.bysetpos, normL_of_ne _ hne.bymonth, normL_of_ne _ hne.bymonthday, normL_of_ne _ hne.byyearday,
      normL_of_ne _ hne.byeaster, normL_of_ne _ hne.byweekno, normL_of_ne _ hne.byhour, normL_of_ne _ hne.byminute,
      normL_of_ne _ hne.bysecond]
    have h1 : ((freq.toNat : Int)) = freq := Int.toNat_of_nonneg hf
    have h2 : (if (interval != 1) = true then some interval else none).getD 1 = interval := by
      by_cases hi : interval = 1 <;> simp [hi]
    have h3 : (Option.map (fun t => (showDT t, po)) (Option.map sixOf untilDT)).bind (fun _ => untilDT) = untilDT := by
      cases untilDT <;> rfl
    have h4 : Option.map (fun l => List.map (fun w : Int × Option Int => (w.1, w.2.getD 0)) l)
        (Option.map (fun l => List.map (fun w : Int × Int => (w.1, if w.2 == 0 then (none : Option Int) else some w.2)) l) byweekday) = byweekday := by
      cases byweekday with
      | none => rfl
      | some l => simp only [Option.map_some]; rw [hw l]
    simp only [Option.getD_some, h1, h3, h4]
    by_cases hi : interval = 1 <;> simp [hi]

/-- **from the text back to the rule.**  Let `r` be the rule `rrule(**a)` builds (C01's `construct`), `o = origArgs a r`
    what it records (`_original_rule` and the scalar attributes), and `str(r)` = `toStr (strInOf 0 o)` (ambient first weekday
    Monday, the interpreter's default).  Then `rrulestr(str(r))`
    (any `ignoretz` / `tzinfos` / `cache`, no unfold / forceset / compatible) is a single rule whose keyword arguments `pa`,
    handed to the constructor again, build exactly `r` — hence the same occurrences (C01: `iter` is a function of `r`).
    Hypotheses, all explicit:
    * `NoEmptyBy o` — no BY argument is an empty sequence: this is exactly the class of D-C13-empty-by-list, where the
      statement is FALSE on the real code;
    * `a.bysetpos ≠ some []` — C01's `construct_origArgs` has it (an empty bysetpos is dropped from `_original_rule`);
    * `Printable (strInOf 0 o)`, `0 ≤ o.freq` — frequency and weekday numbers in range;
    * the DATE VALUES: `backArgs` takes dtstart / until from `o`, i.e. it assumes `parser.parse(showDT t)` is the datetime `t`
      was printed from — that step is C02's (`parser.parse`), tied here by the correspondence and the oracle only. -/
theorem parse_toStr_constructs_same_rule (a : Args) (r : Rule) (h : construct a = .ok r) (hsp : a.bysetpos ≠ some [])
    (hne : NoEmptyBy (origArgs a r)) (hpr : Printable (strInOf 0 (origArgs a r))) (hf : 0 ≤ (origArgs a r).freq)
    (o : Opts) (hu : o.unfold = false) (hfs : o.forceset = false) (hc : o.compatible = false) (kw : Bool) :
    ∃ pa dt, parseRfc (toStr (strInOf 0 (origArgs a r))) o kw = .ok (.rule pa (some dt) o.cache) ∧
      construct (backArgs (origArgs a r) pa) = .ok r := by
  refine ⟨argsOf o.po (strInOf 0 (origArgs a r)), (showDT (sixOf (origArgs a r).dtstart), [], o.po), ?_, ?_⟩
  · exact parseRfc_toStr _ hpr _ rfl o hu hfs hc kw
  · rw [backArgs_argsOf o.po 0 _ hf hne, construct_wkst _ _ (by
      by_cases hw : (origArgs a r).wkst.getD 0 = 0 <;> simp [hw])]
    exact construct_origArgs a r h hsp

/-! ### the ambient first weekday (`calendar.firstweekday()`) made explicit -/

/-- **the round trip when the text is written under ambient first weekday `k` and read under `k'`**
    (`calendar.setfirstweekday`; 0 is the interpreter's default).  `r = rrule(**a)` built under ambient `k`
    (`constructW k a`); `str(r)` is taken under the same `k` (since the repair of D-C13-ambient-wkst it prints `WKST=` whenever
    `_wkst ≠ 0` OR `k ≠ 0`); the reparsed arguments are handed to the constructor under ambient `k'`.  The rule comes back
    whenever the text carries WKST (`r.wkst ≠ 0 ∨ k ≠ 0`) — then the reading side's ambient value is irrelevant — or the
    reading side's week starts on Monday as well (`k' = 0`).  (Hypotheses otherwise as in `parse_toStr_constructs_same_rule`.) -/
theorem parse_toStr_constructs_same_rule_cross (k k' : Int) (a : Args) (r : Rule) (h : constructW k a = .ok r)
    (hsp : a.bysetpos ≠ some [])
    (hne : NoEmptyBy (origArgs (resolveW k a) r)) (hpr : Printable (strInOf k (origArgs (resolveW k a) r)))
    (hf : 0 ≤ (origArgs (resolveW k a) r).freq) (hw : r.wkst ≠ 0 ∨ k ≠ 0 ∨ k' = 0)
    (o : Opts) (hu : o.unfold = false) (hfs : o.forceset = false) (hc : o.compatible = false) (kw : Bool) :
    ∃ pa dt, parseRfc (toStr (strInOf k (origArgs (resolveW k a) r))) o kw = .ok (.rule pa (some dt) o.cache) ∧
      constructW k' (backArgs (origArgs (resolveW k a) r) pa) = .ok r := by
  have h' : construct (resolveW k a) = .ok r := h
  have hsp' : (resolveW k a).bysetpos ≠ some [] := hsp
  refine ⟨argsOf o.po (strInOf k (origArgs (resolveW k a) r)), (showDT (sixOf (origArgs (resolveW k a) r).dtstart), [], o.po), ?_, ?_⟩
  · exact parseRfc_toStr _ hpr _ rfl o hu hfs hc kw
  · show construct (resolveW k' (backArgs _ _)) = _
    rw [backArgs_argsOf o.po k _ hf hne]
    have hwk : (origArgs (resolveW k a) r).wkst = some r.wkst := rfl
    show construct { origArgs (resolveW k a) r with
        wkst := some ((if ((origArgs (resolveW k a) r).wkst.getD 0 != 0 || k != 0) then some ((origArgs (resolveW k a) r).wkst.getD 0) else none).getD k') } = _
    rw [construct_wkst _ _ (by
      rw [hwk]
      simp only [Option.getD_some]
      by_cases h0 : r.wkst = 0
      · by_cases hk : k = 0
        · rcases hw with hw | hw | hw
          · exact absurd h0 hw
          · exact absurd hk hw
          · subst hw; simp [h0, hk]
        · simp [h0, hk]
      · simp [h0])]
    exact construct_origArgs _ r h' hsp'

/-- **the round trip under an ambient first weekday `k`**, written and read under the SAME `k` — with NO hypothesis on the
    week start (before the repair of D-C13-ambient-wkst it needed `r.wkst ≠ 0 ∨ k = 0`: `__str__` omitted `WKST` whenever
    `_wkst == 0`, so a Monday-week rule was rebuilt with the ambient week start). -/
theorem parse_toStr_constructs_same_rule_ambient (k : Int) (a : Args) (r : Rule) (h : constructW k a = .ok r)
    (hsp : a.bysetpos ≠ some [])
    (hne : NoEmptyBy (origArgs (resolveW k a) r)) (hpr : Printable (strInOf k (origArgs (resolveW k a) r)))
    (hf : 0 ≤ (origArgs (resolveW k a) r).freq)
    (o : Opts) (hu : o.unfold = false) (hfs : o.forceset = false) (hc : o.compatible = false) (kw : Bool) :
    ∃ pa dt, parseRfc (toStr (strInOf k (origArgs (resolveW k a) r))) o kw = .ok (.rule pa (some dt) o.cache) ∧
      constructW k (backArgs (origArgs (resolveW k a) r) pa) = .ok r :=
  parse_toStr_constructs_same_rule_cross k k a r h hsp hne hpr hf
    (by by_cases hk : k = 0 <;> simp [hk]) o hu hfs hc kw

/-! ### occurrences (C13 ∘ C01's iteration model), naive start -/

/-- the keyword arguments `rrulestr` hands to `rrule()` for a text whose DTSTART line has NO zone (no TZID parameter, no `Z`):
    as `backArgs`, with the start's zone tag NAIVE (`tz := 0`) — what the reparsed start really is, whatever the rule's was -/
def backArgsNaive (o : Args) (pa : RArgs) : Args := { backArgs o pa with tz := 0 }

theorem construct_tz {a : Args} {r : Rule} (h : construct a = .ok r) : r.tz = a.tz := by
  obtain ⟨_, _, _, _, _, _, _, _, _, _, hr⟩ := RRule.construct_ok a r h
  rw [hr]

/-- **same occurrences**: for a rule with a NAIVE start built under ambient first weekday `k`, `rrulestr(str(rule))` (read under
    the same `k`) hands the constructor arguments — with a naive start, as the DTSTART text carries no zone — that build a
    rule `r'` whose iteration (C01's `iter` / `iterDT`: the values yielded during the first `fuel` periods and how the
    generator ended) equals the rule's for EVERY fuel: the same occurrences in the same order, the same end. -/
theorem same_occurrences_ambient (k : Int) (a : Args) (r : Rule) (h : constructW k a = .ok r) (hnaive : a.tz = 0)
    (hsp : a.bysetpos ≠ some [])
    (hne : NoEmptyBy (origArgs (resolveW k a) r)) (hpr : Printable (strInOf k (origArgs (resolveW k a) r)))
    (hf : 0 ≤ (origArgs (resolveW k a) r).freq)
    (o : Opts) (hu : o.unfold = false) (hfs : o.forceset = false) (hc : o.compatible = false) (kw : Bool) :
    ∃ pa r', parseRfc (toStr (strInOf k (origArgs (resolveW k a) r))) o kw =
        .ok (.rule pa (some (showDT (sixOf r.dtstart), [], o.po)) o.cache) ∧
      constructW k (backArgsNaive (origArgs (resolveW k a) r) pa) = .ok r' ∧
      ∀ fuel, RRule.iter r' fuel = RRule.iter r fuel ∧ RRule.iterDT r' fuel = RRule.iterDT r fuel := by
  obtain ⟨pa, dt, hp, hc'⟩ := parse_toStr_constructs_same_rule_ambient k a r h hsp hne hpr hf o hu hfs hc kw
  have hp2 := parseRfc_toStr _ hpr _ rfl o hu hfs hc kw
  rw [hp2] at hp
  simp only [Except.ok.injEq, Parsed.rule.injEq] at hp
  obtain ⟨hpa, hdt, _⟩ := hp
  have htz : (origArgs (resolveW k a) r).tz = 0 := by
    show r.tz = 0
    rw [construct_tz (a := resolveW k a) h]; exact hnaive
  have hb : backArgsNaive (origArgs (resolveW k a) r) pa = backArgs (origArgs (resolveW k a) r) pa := by
    unfold backArgsNaive
    have : (backArgs (origArgs (resolveW k a) r) pa).tz = 0 := htz
    cases hba : backArgs (origArgs (resolveW k a) r) pa
    rw [hba] at this
    simp only at this
    subst this
    rfl
  refine ⟨pa, r, ?_, by rw [hb]; exact hc', fun _ => ⟨rfl, rfl⟩⟩
  rw [hp2, ← hpa]
  rfl

/-- the former counterexample of D-C13-ambient-wkst, now a regression fact: a WEEKLY rule with an explicit `wkst=MO`, built,
    printed and reparsed under `calendar.setfirstweekday(6)`, comes back with week start 0 and is the same rule (before
    the repair the third component was `(0, 6, false)`) -/
def ambientWitness : Args :=
  { freq := 2, dtstart := ⟨1997, 8, 5, 9, 0, 0, 0⟩, interval := 2, wkst := some 0, count := some 4,
    byweekday := some [(1, 0), (6, 0)] }

theorem ambient_wkst_witness_roundtrips :
    (do let r ← constructW 6 ambientWitness
        let o := origArgs (resolveW 6 ambientWitness) r
        let r' ← constructW 6 (backArgs o (argsOf {} (strInOf 6 o)))
        pure (r.wkst, r'.wkst, (argsOf {} (strInOf 6 o)).wkst, decide (r' = r))) = .ok (0, 0, some 0, true) := by decide +kernel

/-- … while a text written under the default first weekday (no `WKST=`) and read under another one is still rebuilt with the
    reader's week start: the text of a Monday-week rule written under `k = 0` is ambient-dependent on the reading side
    (RFC 5545: WKST defaults to MO; `rrule()` documents `calendar.firstweekday()` instead) -/
theorem cross_ambient_counterexample :
    (do let r ← constructW 0 ambientWitness
        let o := origArgs (resolveW 0 ambientWitness) r
        let r' ← constructW 6 (backArgs o (argsOf {} (strInOf 0 o)))
        pure (r.wkst, r'.wkst, decide (r' = r))) = .ok (0, 6, false) := by decide +kernel

end RRuleStr
