/-
  Proofs/RRuleNthWYearly.lean — YEARLY (no BYMONTH) with nth BYDAY counted inside the year TOGETHER with BYWEEKNO
  (nth members only = outside D-C01a; BYWEEKNO on the complement of D-C01c): both computed masks, filter
  `simpleOk ∧ nth clause ∧ week clause`.  Argument side reduced to `NthYArgs` by dropping BYWEEKNO (`stripWno`).
-/
import DateutilVerif.Proofs.RRuleNthWMonthly
import DateutilVerif.Proofs.RRuleNthYearly

namespace RRule
open Cal

/-- YEARLY without BYMONTH, BYDAY of nth weekdays only, BYWEEKNO on the complement of D-C01c -/
structure NthWYArgs (a : Args) : Prop where
  freq : a.freq = 0
  interval : 1 ≤ a.interval
  valid : a.dtstart.Valid
  wkst : 0 ≤ a.wkst.getD 0 ∧ a.wkst.getD 0 ≤ 6
  byeaster : a.byeaster = none
  monthday_nz : ∀ x ∈ a.bymonthday.getD [], x ≠ 0
  bymonth : a.bymonth = none
  weekdays : ∃ l, a.byweekday = some l ∧ l ≠ [] ∧ ∀ w ∈ l, (0 ≤ w.1 ∧ w.1 ≤ 6) ∧ w.2 ≠ 0
  weekno : ∃ wl, a.byweekno = some wl ∧ wl ≠ [] ∧ WnoOk wl

variable {a : Args} {r : Rule}

theorem nwy_strip (na : NthWYArgs a) : NthYArgs (stripWno a) :=
  ⟨na.freq, na.interval, na.valid, rfl, na.byeaster, na.monthday_nz, na.bymonth, na.weekdays⟩

theorem nwy_noDay (na : NthWYArgs a) : noDayParts a = false := by
  obtain ⟨l, hl, _, _⟩ := na.weekdays
  unfold noDayParts; simp [hl]

/-- `rebuild` of a YEARLY rule (no BYMONTH) with nth weekdays and BYWEEKNO: both masks -/
theorem rebuild_nth_w_yearly (hn : NthWRule r) (hf : r.freq = 0) (hbm : truthy r.bymonth = false)
    (nwl : List (Int × Int)) (hne : nwl ≠ [])
    (hnw : r.bynweekday = some nwl) (hok : ∀ wn ∈ nwl, (0 ≤ wn.1 ∧ wn.1 ≤ 6) ∧ wn.2 ≠ 0)
    (wl : List Int) (hwl : r.byweekno = some wl) (hc : WnoOk wl) (hwk : 0 ≤ r.wkst ∧ r.wkst ≤ 6)
    (y m : Int) (hy1 : 1 ≤ y) (hy2 : y ≤ 9999) :
    ∃ info nmask wmask, rebuild r y m = .ok info ∧
      info.nwdaymask = some nmask ∧ (nmask.length : Int) = info.yearlen ∧
      (∀ j : Int, 0 ≤ j → j < info.yearlen →
        Py.getIdx nmask j = .ok (if ∃ wn ∈ nwl, marks info 0 (info.yearlen - 1) j wn then 1 else 0)) ∧
      info.wnomask = some wmask ∧ (wmask.length : Int) = info.yearlen + 7 ∧
      (∀ j : Int, 0 ≤ j → j < info.yearlen →
        Py.getIdx wmask j = .ok (if weekClause r.wkst wl (info.yearordinal + j) = true then 1 else 0)) := by
  have he : eastermaskOf r y (baseInfo y) = .ok none := by
    unfold eastermaskOf; have := hn.byeaster
    split
    · rename_i h; rw [h] at this; simp [truthy] at this
    · rfl
  have hf0 := baseInfo_facts r y hy1 hy2
  obtain ⟨wmask, w1, w2, w3⟩ := buildWnomask_spec hf0 r.wkst hwk wl hc
  have hne' : ∃ w ws, wl = w :: ws := by
    have := hn.byweekno; rw [hwl] at this
    cases wl with
    | nil => simp [truthy] at this
    | cons w ws => exact ⟨w, ws, rfl⟩
  obtain ⟨w, ws, hwws⟩ := hne'
  have hw : wnomaskOf r y (baseInfo y) = .ok (some wmask) := by
    unfold wnomaskOf
    rw [hwl, hwws]
    dsimp only
    rw [← hwws, w1]
  obtain ⟨nmask, n1, n2, n3⟩ := nwdaymask_yearly hf0 hf hbm nwl hne hnw hok m
  unfold rebuild
  rw [if_neg (by omega), hw]
  dsimp only
  rw [n1]
  dsimp only
  rw [he]
  exact ⟨_, nmask, wmask, rfl, rfl, n2, n3, rfl, w2, w3⟩

theorem nwy_rule (na : NthWYArgs a) (h : construct a = .ok r) :
    ∃ bh bm bs, r = { nthRuleOf (stripWno a) bh bm bs with byweekno := some (weeknosOf a) } := by
  have h0 := construct_stripWno a r h (nwy_noDay na) (nthy_noDay (nwy_strip na))
  obtain ⟨bh, bm, bs, hr0⟩ := nthy_rule (nwy_strip na) h0
  obtain ⟨wl, hwl, _, _⟩ := na.weekno
  obtain ⟨sp, bh', bm', bs', ts, _, _, _, _, _, hr⟩ := construct_ok a r h
  have hbw : r.byweekno = some (weeknosOf a) := by rw [hr]; unfold weeknosOf; rw [hwl]; rfl
  refine ⟨bh, bm, bs, ?_⟩
  have : r = { ({ r with byweekno := none } : Rule) with byweekno := r.byweekno } := rfl
  rw [this, hr0, hbw]

theorem nwy_cuts (na : NthWYArgs a) (h : construct a = .ok r) : CutsAgree a r := by
  obtain ⟨bh, bm, bs, hr⟩ := nwy_rule na h
  rw [hr]; exact ⟨rfl, rfl, rfl⟩

theorem nwy_weeknos (na : NthWYArgs a) : WnoOk (weeknosOf a) ∧ truthy (some (weeknosOf a)) = true := by
  obtain ⟨wl, hwl, hne, hok⟩ := na.weekno
  have hmem : ∀ o, o ∈ weeknosOf a ↔ o ∈ wl := by
    intro o; unfold weeknosOf; rw [hwl, Option.getD_some, mem_sortedSet]
  refine ⟨⟨?_, ?_⟩, ?_⟩
  · intro h; simp only [hmem] at h ⊢; exact hok.last h
  · intro h; simp only [hmem] at h ⊢; exact hok.first h
  · rw [truthy_eq_not_isEmpty]; unfold weeknosOf
    rw [hwl, Option.getD_some, isEmpty_sortedSet]
    cases wl with
    | nil => exact absurd rfl hne
    | cons _ _ => rfl

theorem nwy_nthWRule (na : NthWYArgs a) (h : construct a = .ok r) : NthWRule r := by
  obtain ⟨bh, bm, bs, hr⟩ := nwy_rule na h
  rw [hr]; exact ⟨(nwy_weeknos na).2, rfl, rfl⟩

/-- **bridge**: inside the year `y`, calendar predicate ∧ nth mark ∧ week clause is `dateOk` -/
theorem nwy_bridge (na : NthWYArgs a) (h : construct a = .ok r) (info : Info) (y j : Int)
    (hy : 1 ≤ y) (hj0 : 0 ≤ j) (hj1 : j < daysInYear y) (hyo : info.yearordinal = toOrdinal y 1 1)
    (hyl : info.yearlen = daysInYear y) :
    (simpleOk r (info.yearordinal + j) &&
      decide (∃ wn ∈ nwlOf (stripWno a), marks info 0 (info.yearlen - 1) j wn) &&
      weekClause r.wkst (weeknosOf a) (info.yearordinal + j)) = Spec.RRule.dateOk a (info.yearordinal + j) := by
  have h0 := construct_stripWno a r h (nwy_noDay na) (nthy_noDay (nwy_strip na))
  have hb := nthy_bridge (nwy_strip na) h0 info y j hy hj0 hj1 hyo hyl
  have hs : simpleOk ({ r with byweekno := none } : Rule) (info.yearordinal + j) =
      simpleOk r (info.yearordinal + j) := rfl
  rw [hs] at hb
  obtain ⟨bh, bm, bs, hr⟩ := nwy_rule na h
  have hbw : r.byweekno = a.byweekno.map sortedSet := by
    obtain ⟨wl, hwl, _, _⟩ := na.weekno
    rw [hr]; unfold weeknosOf; rw [hwl]; rfl
  have hwk : r.wkst = a.wkst.getD 0 := by rw [hr]; rfl
  have hw := wclause_eq_specW a r hbw hwk (info.yearordinal + j)
  unfold wclause at hw
  have htr : truthy r.byweekno = true := (nwy_nthWRule na h).byweekno
  rw [if_pos htr] at hw
  have hg : r.byweekno.getD [] = weeknosOf a := by rw [hr]; rfl
  rw [hg] at hw
  rw [dateOk_stripWno a (nwy_noDay na) (nthy_noDay (nwy_strip na)), hb, hw]

/-- "the model state at the start of period `k`" -/
structure NthWYGood (a : Args) (r : Rule) (k : Nat) (st : State) : Prop where
  facts : YearFacts r st.cur.year st.info
  timeset : st.timeset = Spec.RRule.timesOf a none none none
  year : st.cur.year = a.dtstart.y + k * a.interval
  masks : ∃ nmask wmask, st.info.nwdaymask = some nmask ∧ (nmask.length : Int) = st.info.yearlen ∧
    (∀ j : Int, 0 ≤ j → j < st.info.yearlen →
      Py.getIdx nmask j = .ok (if ∃ wn ∈ nwlOf (stripWno a), marks st.info 0 (st.info.yearlen - 1) j wn then 1 else 0)) ∧
    st.info.wnomask = some wmask ∧ (wmask.length : Int) = st.info.yearlen + 7 ∧
    (∀ j : Int, 0 ≤ j → j < st.info.yearlen →
      Py.getIdx wmask j = .ok (if weekClause r.wkst (weeknosOf a) (st.info.yearordinal + j) = true then 1 else 0))

theorem nwy_rebuild (na : NthWYArgs a) (h : construct a = .ok r) (y m : Int) (hy1 : 1 ≤ y) (hy2 : y ≤ 9999) :
    ∃ info nmask wmask, rebuild r y m = .ok info ∧
      info.nwdaymask = some nmask ∧ (nmask.length : Int) = info.yearlen ∧
      (∀ j : Int, 0 ≤ j → j < info.yearlen →
        Py.getIdx nmask j = .ok (if ∃ wn ∈ nwlOf (stripWno a), marks info 0 (info.yearlen - 1) j wn then 1 else 0)) ∧
      info.wnomask = some wmask ∧ (wmask.length : Int) = info.yearlen + 7 ∧
      (∀ j : Int, 0 ≤ j → j < info.yearlen →
        Py.getIdx wmask j = .ok (if weekClause r.wkst (weeknosOf a) (info.yearordinal + j) = true then 1 else 0)) := by
  have hn := nwy_nthWRule na h
  obtain ⟨bh, bm, bs, hr⟩ := nwy_rule na h
  have hfreq : r.freq = 0 := by rw [hr]; exact na.freq
  have hnw : r.bynweekday = some (nwlOf (stripWno a)) := by rw [hr]
  have hwl : r.byweekno = some (weeknosOf a) := by rw [hr]
  have hwk : 0 ≤ r.wkst ∧ r.wkst ≤ 6 := by rw [hr]; exact na.wkst
  have hbm : truthy r.bymonth = false := by
    rw [hr]; show truthy ((stripWno a).bymonth.map sortedSet) = false
    show truthy (a.bymonth.map sortedSet) = false
    rw [na.bymonth]; rfl
  obtain ⟨hne, _, hok, _, _⟩ := nthy_nwl (nwy_strip na)
  exact rebuild_nth_w_yearly hn hfreq hbm _ hne hnw hok _ hwl (nwy_weeknos na).1 hwk y m hy1 hy2

theorem nwy_results (na : NthWYArgs a) (h : construct a = .ok r) (k : Nat) (st : State) (hg : NthWYGood a r k st) :
    ∃ fl pre cands, periodResults r st = .ok (cands, none, fl) ∧ Spec.RRule.sel a (k : Int) = pre ++ cands ∧
      (∀ x ∈ pre, x.micros < Spec.RRule.startMicros a ∧ Spec.RRule.afterUntil a x = false) ∧
      (∀ x ∈ cands, 0 ≤ x.ord ∧ x.ord ≤ maxOrdinal) := by
  have hn := nwy_nthWRule na h
  obtain ⟨bh, bm, bs, hr⟩ := nwy_rule na h
  have hfreq : r.freq = 0 := by rw [hr]; exact na.freq
  have hsp := construct_bysetpos a r h
  have htsok : TsOk st.timeset := by
    have := construct_timeset_ok a r h (by rw [na.freq]; omega)
    rw [hr] at this; rw [hg.timeset]; exact this
  have hyo := hg.facts.yearordinal
  have hyl := hg.facts.yearlen
  have hy1 := hg.facts.year_lo
  have hy2 := hg.facts.year_hi
  have hpos : 1 ≤ toOrdinal st.cur.year 1 1 :=
    toOrdinal_pos _ _ _ hy1 ⟨by omega, by omega, by omega, by have := daysInMonth_bounds st.cur.year 1; omega⟩
  have hend := year_end_le st.cur.year hy2
  have hd : dayset r st.info st.cur = .ok (intRange 0 st.info.yearlen) := dayset_yearly st.cur hfreq
  obtain ⟨nmask, wmask, hmask, hmlen, hmspec, hwmask, hwlen, hwspec⟩ := hg.masks
  have hfil : ∀ i, 0 ≤ i → i < st.info.yearlen →
      dayFiltered r st.info i = .ok (!(Spec.RRule.dateOk a (st.info.yearordinal + i))) := by
    intro i hi0 hi1
    rw [dayFiltered_nth_w hn hg.facts nmask wmask hmask hwmask i hi0 hi1 hmlen (by omega)]
    have hgi := hmspec i hi0 hi1
    rw [getIdx_int nmask i hi0 (by omega)] at hgi
    injection hgi with hgi
    have hwi := hwspec i hi0 hi1
    rw [getIdx_int wmask i hi0 (by omega)] at hwi
    injection hwi with hwi
    have hbr := nwy_bridge na h st.info st.cur.year i hy1 hi0 (by rw [← hyl]; exact hi1) hyo hyl
    rw [← hbr, hgi, hwi]
    congr 2
    by_cases c : ∃ wn ∈ nwlOf (stripWno a), marks st.info 0 (st.info.yearlen - 1) i wn
    · rw [if_pos c]
      cases hq : weekClause r.wkst (weeknosOf a) (st.info.yearordinal + i) <;> simp [c]
    · rw [if_neg c]
      cases hq : weekClause r.wkst (weeknosOf a) (st.info.yearordinal + i) <;> simp [c]
  obtain ⟨fl, hres⟩ := periodResults_range_P st (Spec.RRule.dateOk a) hfil (by rw [hsp.1]; exact hsp.2) htsok hd
    (by rw [hyo]; omega) (by rw [hyo, hyl]; exact hend)
  have hspan : Spec.RRule.periodSpan a (k * a.interval) =
      (st.info.yearordinal + 0, st.info.yearordinal + st.info.yearlen, none, none, none) := by
    unfold Spec.RRule.periodSpan
    rw [if_pos (by simp [na.freq])]
    dsimp only
    rw [← hg.year, hyo, hyl, toOrdinal_next_year]; simp
  refine ⟨fl, [], Spec.RRule.sel a (k : Int), ?_, rfl, by simp, ?_⟩
  · rw [hres, hg.timeset, sel_span_sp a k _ _ hspan, hsp.1]
  · intro x hx
    rw [sel_span_sp a k _ _ hspan] at hx
    have := sel_bounds _ _ _ _ x (applySetpos_subset _ _ x hx)
    rw [hyo, hyl] at this; omega

theorem nwy_next (na : NthWYArgs a) (h : construct a = .ok r) (k : Nat) (st : State) (fl : Bool)
    (c : Option Int) (hg : NthWYGood a r k st) (hy : a.dtstart.y + (k + 1 : Nat) * a.interval ≤ 9999) :
    ∃ st', advance r { st with count := c } fl = .ok st' ∧ NthWYGood a r (k + 1) st' := by
  obtain ⟨bh, bm, bs, hr⟩ := nwy_rule na h
  have hfreq : r.freq = 0 := by rw [hr]; exact na.freq
  have hint : r.interval = a.interval := by rw [hr]; rfl
  have hi := na.interval
  have hy1 := hg.facts.year_lo
  have hyr := hg.year
  have ek : ((k + 1 : Nat) : Int) * a.interval = k * a.interval + a.interval := by
    push_cast; rw [Int.add_mul]; omega
  have hle : st.cur.year + r.interval ≤ 9999 := by rw [hint]; omega
  obtain ⟨info, nmask, wmask, hre, rest⟩ := nwy_rebuild na h (st.cur.year + r.interval) st.cur.month (by omega) hle
  have hadv : advance r { st with count := c } fl =
      .ok { cur := { st.cur with year := st.cur.year + r.interval }, info := info,
            timeset := st.timeset, count := c } := by
    unfold advance
    dsimp only
    rw [if_pos (by simp [hfreq]), if_neg (by omega), hre]
  exact ⟨_, hadv, ⟨rebuild_facts r _ _ info hre, hg.timeset, by dsimp only; rw [hyr, hint]; omega, nmask, wmask, rest⟩⟩

theorem nwy_init (na : NthWYArgs a) (h : construct a = .ok r) :
    ∃ st0, init r = .ok st0 ∧ NthWYGood a r 0 st0 ∧ st0.count = r.count := by
  obtain ⟨bh, bm, bs, hr⟩ := nwy_rule na h
  have hfreq : r.freq = 0 := by rw [hr]; exact na.freq
  have hv := na.valid
  unfold DT.Valid ValidDate at hv
  obtain ⟨info, nmask, wmask, hre, rest⟩ := nwy_rebuild na h a.dtstart.y a.dtstart.m hv.1.1 hv.1.2.1
  have hd : r.dtstart = { a.dtstart with us := 0 } := by rw [hr]; rfl
  have hf : r.freq < 4 := by omega
  have hts : r.timeset = some (Spec.RRule.timesOf a none none none) := by rw [hr]; rfl
  refine ⟨{ cur := { year := a.dtstart.y, month := a.dtstart.m, day := a.dtstart.d, hour := a.dtstart.hh,
                     minute := a.dtstart.mm, second := a.dtstart.ss, weekday := r.dtstart.weekday },
            info := info, timeset := Spec.RRule.timesOf a none none none, count := r.count }, ?_, ?_, rfl⟩
  · unfold init
    simp only [hd, bind, Except.bind, hre, hts, pure, Except.pure]
    rw [if_pos hf]
    rfl
  · exact ⟨rebuild_facts r _ _ info hre, rfl, by dsimp only; omega, nmask, wmask, rest⟩

/-- **`iter_eq_spec`, YEARLY (no BYMONTH) with nth weekdays counted inside the year and BYWEEKNO** (nth members only;
    BYWEEKNO on the complement of D-C01c; a week start 0..6) -/
theorem iter_eq_spec_yearly_nth_weekno (na : NthWYArgs a) (h : construct a = .ok r) (n : Nat)
    (hy : a.dtstart.y + n * a.interval ≤ 9999) :
    (iter r n).1 = Spec.RRule.occ a n := by
  have hi := na.interval
  have hmono : ∀ k : Nat, k ≤ n → (k : Int) * a.interval ≤ n * a.interval := by
    intro k hk; exact Int.mul_le_mul_of_nonneg_right (by omega) (by omega)
  have sim : Simulation a r n (NthWYGood a r) := {
    agree := nwy_cuts na h
    results := fun k st _ hg => nwy_results na h k st hg
    next := fun k st fl c hk hg => nwy_next na h k st fl c hg (by have := hmono (k + 1) (by omega); omega) }
  obtain ⟨st0, hinit, hg0, hc0⟩ := nwy_init na h
  exact iter_refines sim st0 hinit hg0 hc0 n (by omega)

-- an NthWYArgs instance: the 20th Monday of the year when it falls in week 20 or 21
example : NthWYArgs { freq := 0, dtstart := ⟨1997, 5, 19, 9, 0, 0, 0⟩, byweekday := some [(0, 20)],
                      byweekno := some [20, 21] } :=
  ⟨rfl, by decide, by decide, by decide, rfl, by intro x hx; simp at hx, rfl,
   ⟨[(0, 20)], rfl, by decide, by decide⟩, ⟨[20, 21], rfl, by decide, ⟨by decide, by decide⟩⟩⟩

end RRule
