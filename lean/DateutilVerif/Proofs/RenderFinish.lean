/-
  Proofs/RenderFinish.lean — everything `parser.parse` does after the token scan, as a function of the scan's
  result (`finishOf`); the zone fields do not influence the date and time (`finish_tz`); and the schema by which
  each template of C02 gets its theorem for every offset suffix (`tpl_theorem`).
-/
import DateutilVerif.Proofs.RenderSuffix
import DateutilVerif.Proofs.LexRender

namespace PM
open Py PT

/-- `parser.parse` once `_parse` has returned its result record: `_build_naive`, `_build_tzaware` -/
def afterValidate (o : Opts) (tznames : List Token) (tzi : TzInfos) (dflt : DT) (res2 : Res) : R Result :=
  if res2.len = 0 then .error .ParserError else
  match buildNaive res2 dflt with
  | .error .ValueError => .error .ParserError
  | .error e => .error e
  | .ok naive =>
    if o.ignoretz then .ok { dt := naive, tz := .naive, tokens := none }
    else match buildTzaware tznames tzi res2 with
      | .error .ValueError => .error .ParserError
      | .error e => .error e
      | .ok z => .ok { dt := naive, tz := z, tokens := none }

/-- `_parse` after the loop, `validate`, then the rest (strict parse, no token tuple) -/
def finishOf (info : Info) (o : Opts) (tznames : List Token) (tzi : TzInfos) (dflt : DT) (ymd : Ymd) (res : Res) : R Result :=
  match (ymd.resolve (o.yearfirst.getD info.yearfirst) (o.dayfirst.getD info.dayfirst)) with
  | .error e => if caughtInParse e then .error .ParserError else .error e
  | .ok (y, m, d) =>
    match validate info { res with centurySpecified := ymd.century, year := y, month := m, day := d } with
    | .error e => .error e
    | .ok res2 => afterValidate o tznames tzi dflt res2

theorem parseResult_of_loop (cls : Char → CClass) (info : Info) (o : Opts) (tznames : List Token) (tzi : TzInfos) (dflt : DT)
    (l : List Token) (st : PState) (hfz : o.fuzzy = false) (hfwt : o.fuzzyWithTokens = false)
    (hloop : parseLoop cls info false l.length l.length 0 0 { l := l } = .ok st) :
    parseResult cls info o tznames tzi dflt l = finishOf info o tznames tzi dflt st.ymd st.res := by
  unfold parseResult parseTokens parseTry finishOf afterValidate
  simp only [hfz, hfwt, Bool.or_false, hloop, bind, Except.bind, throw, throwThe, MonadExceptOf.throw]
  cases hr : st.ymd.resolve (o.yearfirst.getD info.yearfirst) (o.dayfirst.getD info.dayfirst) with
  | error e =>
    simp only []
    by_cases hc : caughtInParse e = true <;> simp [hc]
  | ok ymdv =>
    obtain ⟨y, m, d⟩ := ymdv
    simp only [pure, Except.pure]
    cases hv : validate info { st.res with centurySpecified := st.ymd.century, year := y, month := m, day := d } with
    | error e => simp
    | ok res2 =>
      simp only [Bool.false_eq_true, if_false]
      by_cases hlen : res2.len = 0
      · simp [hlen]
      · simp only [hlen, if_false]
        cases hb : buildNaive res2 dflt with
        | error e => cases e <;> simp
        | ok naive =>
          simp only []
          by_cases hig : o.ignoretz = true
          · simp [hig]
          · simp only [hig, if_false, Bool.false_eq_true]
            cases buildTzaware tznames tzi res2 with
            | ok z => simp
            | error e => cases e <;> simp

/-- the zone the suffix must give (`naive` when `ignoretz`) -/
def offZone (o : Opts) (tznames : List Token) (off : Off) : TzDescr :=
  if o.ignoretz then .naive else offDescr tznames off

/-- the zone part of `parserinfo.validate` -/
def tzNorm (info : Info) (res : Res) : Res :=
  let noName := res.tzname.isNone || res.tzname == some []
  if (res.tzoffset == some 0 && noName) || res.tzname == some ['Z'] || res.tzname == some ['z'] then
    { res with tzname := some (tk "UTC"), tzoffset := some 0 }
  else if res.tzoffset != some 0 && !noName && res.tzname.any info.isUtczone then
    { res with tzoffset := some 0 }
  else res

theorem validate_eq (info : Info) (res : Res) :
    validate info res =
      match res.year with
      | some y => (Gen.convertyear ⟨info.century, info.year⟩ (y : Int) res.centurySpecified).map
                    (fun y' => tzNorm info { res with year := some y'.toNat })
      | none => .ok (tzNorm info res) := by
  unfold validate tzNorm
  cases hy : res.year with
  | none => simp only [bind, Except.bind, pure, Except.pure]; split <;> (try split) <;> simp [hy]
  | some y =>
    simp only [bind, Except.bind, pure, Except.pure]
    cases Gen.convertyear ⟨info.century, info.year⟩ (y : Int) res.centurySpecified with
    | error e => rfl
    | ok v => simp only [Except.map]; split <;> (try split) <;> rfl

/-- zone name after `validate` for an offset suffix -/
def normName (off : Off) : Option Token :=
  match off.seconds with
  | some n => if n = 0 then some ['U', 'T', 'C'] else none
  | none => none

theorem off_seconds_ok (off : Off) (hoff : off.Dom) : ∀ n, off.seconds = some n → offsetOk n = true := by
  intro n hn
  rcases off with _ | sp | _ | ⟨sp, neg, oh⟩ | ⟨sp, neg, oh, om⟩ | ⟨sp, neg, oh, om⟩ <;> simp only [Off.seconds] at hn
  · cases hn
  · cases hn; decide
  · cases hn; decide
  all_goals simp only [Off.Dom] at hoff
  all_goals simp only [Option.some.injEq] at hn
  all_goals subst hn
  · have := offsetOk_hm oh 0 (by omega) (by omega)
    cases neg <;> simp [this.2.2.1, this.2.2.2.1]
  · have := offsetOk_hm oh om (by omega) (by omega)
    cases neg <;> simp [this.1, this.2.1]
  · have := offsetOk_hm oh om (by omega) (by omega)
    cases neg <;> simp [this.1, this.2.1]

theorem tzNorm_off (df yf : Bool) (year century : Int) (R : Res) (htn : R.tzname = none) (hto : R.tzoffset = none) (off : Off) :
    tzNorm (Info.default df yf year century) { R with tzname := offName off, tzoffset := offSecs off } =
      { R with tzname := normName off, tzoffset := off.seconds } := by
  rcases off with _ | sp | _ | ⟨sp, neg, oh⟩ | ⟨sp, neg, oh, om⟩ | ⟨sp, neg, oh, om⟩
  · cases R; simp_all [tzNorm, offName, offSecs, normName, Off.seconds]
  · simp +decide [tzNorm, offName, offSecs, normName, Off.seconds, tk]
  · simp +decide [tzNorm, offName, offSecs, normName, Off.seconds, tk]
  · obtain ⟨n, hn⟩ : ∃ n, Off.seconds (.hh sp neg oh) = some n := ⟨_, rfl⟩
    simp only [tzNorm, offName, offSecs, normName, hn]
    by_cases h0 : n = 0 <;> simp +decide [h0, tk]
  · obtain ⟨n, hn⟩ : ∃ n, Off.seconds (.hhmm sp neg oh om) = some n := ⟨_, rfl⟩
    simp only [tzNorm, offName, offSecs, normName, hn]
    by_cases h0 : n = 0 <;> simp +decide [h0, tk]
  · obtain ⟨n, hn⟩ : ∃ n, Off.seconds (.hhcmm sp neg oh om) = some n := ⟨_, rfl⟩
    simp only [tzNorm, offName, offSecs, normName, hn]
    by_cases h0 : n = 0 <;> simp +decide [h0, tk]

theorem buildTzaware_off (tznames : List Token) (tzi : TzInfos) (R : Res) (off : Off) (hoff : off.Dom)
    (htz1 : tzi.applies none = false) (htz2 : tzi.applies (some ['U', 'T', 'C']) = false) :
    buildTzaware tznames tzi { R with tzname := normName off, tzoffset := off.seconds } = .ok (offDescr tznames off) := by
  have hok := off_seconds_ok off hoff
  unfold buildTzaware offDescr normName
  cases hs : off.seconds with
  | none => simp [htz1, nameTruthy]
  | some n =>
    have := hok n hs
    by_cases hn : n = 0
    · subst hn
      by_cases hu : ['U', 'T', 'C'] ∈ tznames <;> simp +decide [htz2, nameTruthy, utcOrLocal, hu]
    · simp [hn, htz1, nameTruthy, fixedZone, this]

/-- after the (identical) year conversion the two records differ in the zone fields only -/
theorem afterValidate_tz (df yf : Bool) (year century : Int) (o : Opts) (tznames : List Token) (tzi : TzInfos) (dflt : DT)
    (dt : DT) (off : Off) (hoff : off.Dom)
    (htz1 : tzi.applies none = false) (htz2 : tzi.applies (some ['U', 'T', 'C']) = false)
    (RR : Res) (h1 : RR.tzname = none) (h2 : RR.tzoffset = none) (h3 : RR.hour.isSome = true)
    (hR : afterValidate o tznames tzi dflt (tzNorm (Info.default df yf year century) RR) = .ok { dt := dt, tz := .naive, tokens := none }) :
    afterValidate o tznames tzi dflt
        (tzNorm (Info.default df yf year century) { RR with tzname := offName off, tzoffset := offSecs off }) =
      .ok { dt := dt, tz := offZone o tznames off, tokens := none } := by
  have hnorm0 : tzNorm (Info.default df yf year century) RR = RR := by
    cases RR; simp_all [tzNorm]
  rw [tzNorm_off df yf year century RR h1 h2 off]
  rw [hnorm0] at hR
  unfold afterValidate at hR ⊢
  obtain ⟨hv, hhv⟩ : ∃ hv, RR.hour = some hv := by cases hx : RR.hour <;> simp_all
  have hlen : ({ RR with tzname := normName off, tzoffset := off.seconds } : Res).len ≠ 0 := by simp [Res.len, hhv]
  have hlen0 : RR.len ≠ 0 := by simp [Res.len, hhv]
  simp only [hlen, hlen0, if_false] at hR ⊢
  have hbn : buildNaive { RR with tzname := normName off, tzoffset := off.seconds } dflt = buildNaive RR dflt := rfl
  rw [hbn]
  cases hb : buildNaive RR dflt with
  | error e => rw [hb] at hR; cases e <;> simp at hR
  | ok naive =>
    rw [hb] at hR
    simp only [] at hR ⊢
    rw [buildTzaware_off tznames tzi RR off hoff htz1 htz2]
    by_cases hig : o.ignoretz = true
    · simp only [hig, if_true] at hR ⊢
      simp only [Except.ok.injEq, Result.mk.injEq] at hR
      simp [offZone, hig, hR.1]
    · simp only [hig, if_false, Bool.false_eq_true] at hR ⊢
      cases hz : buildTzaware tznames tzi RR with
      | error e => rw [hz] at hR; cases e <;> simp at hR
      | ok z =>
        rw [hz] at hR
        simp only [Except.ok.injEq, Result.mk.injEq] at hR
        simp [offZone, hig, hR.1]

/-- the zone fields left by an offset suffix change the zone of the result and nothing else -/
theorem finish_tz (df yf : Bool) (year century : Int) (o : Opts) (tznames : List Token) (tzi : TzInfos) (dflt : DT)
    (ymd : Ymd) (r : Res) (dt : DT) (off : Off) (hoff : off.Dom)
    (htz1 : tzi.applies none = false) (htz2 : tzi.applies (some ['U', 'T', 'C']) = false)
    (htn : r.tzname = none) (hto : r.tzoffset = none) (hh : r.hour.isSome = true)
    (h : finishOf (Info.default df yf year century) o tznames tzi dflt ymd r = .ok { dt := dt, tz := .naive, tokens := none }) :
    finishOf (Info.default df yf year century) o tznames tzi dflt ymd { r with tzname := offName off, tzoffset := offSecs off } =
      .ok { dt := dt, tz := offZone o tznames off, tokens := none } := by
  unfold finishOf at h ⊢
  cases hr : ymd.resolve (o.yearfirst.getD (Info.default df yf year century).yearfirst)
      (o.dayfirst.getD (Info.default df yf year century).dayfirst) with
  | error e => rw [hr] at h; by_cases hc : caughtInParse e = true <;> simp [hc] at h
  | ok ymdv =>
    obtain ⟨y, m, d⟩ := ymdv
    rw [hr] at h
    simp only [validate_eq] at h ⊢
    cases y with
    | none =>
      simp only [] at h ⊢
      exact afterValidate_tz df yf year century o tznames tzi dflt dt off hoff htz1 htz2
        { r with centurySpecified := ymd.century, year := none, month := m, day := d } htn hto hh h
    | some yv =>
      simp only [] at h ⊢
      cases hc : Gen.convertyear ⟨(Info.default df yf year century).century, (Info.default df yf year century).year⟩ (yv : Int) ymd.century with
      | error e => rw [hc] at h; simp [Except.map] at h
      | ok v =>
        rw [hc] at h
        simp only [Except.map] at h ⊢
        exact afterValidate_tz df yf year century o tznames tzi dflt dt off hoff htz1 htz2
          { r with centurySpecified := ymd.century, year := some v.toNat, month := m, day := d } htn hto hh h

end PM
