/- Proofs/TzStrAbbr.lean — an invariant of the TZ-string parser model `TzStr.parse` after fix D-C08b: the abbreviations it returns
   are made of ASCII letters only (the abbreviation loop joins tokens that pass `isLetters`; nothing after the loop touches the
   abbreviations).  Before the fix the loop joined every token without one of "0123456789:,-+", so `EST+5EDT$` gave `EDT$`. -/
import DateutilVerif.Proofs.TzStrWk
set_option linter.unusedSimpArgs false
namespace TzGen
open TzStr

/-- an abbreviation slot holds nothing, or ASCII letters only -/
def AOK (o : Option String) : Prop := ∀ a, o = some a → isLetters a = true

def ResOK (r : Res) : Prop := AOK r.stdabbr ∧ AOK r.dstabbr

theorem isLetters_append (a b : String) (ha : isLetters a = true) (hb : isLetters b = true) : isLetters (a ++ b) = true := by
  unfold isLetters at *
  simp only [String.toList_append, List.all_append, ha, hb, Bool.and_self]

theorem isLetters_join (ts : List String) (h : ∀ t ∈ ts, isLetters t = true) : isLetters (String.join ts) = true := by
  induction ts with
  | nil => simp [String.join, isLetters]
  | cons a t ih =>
    rw [String.join_cons]
    exact isLetters_append _ _ (h a (by simp)) (ih (fun x hx => h x (by simp [hx])))

/-- the tokens the abbreviation scan runs over are letter tokens -/
theorem skipAbbr_letters (L : List String) (i : Nat) :
    ∀ t ∈ (L.drop i).take (skipAbbr L i - i), isLetters t = true := by
  intro t ht
  unfold skipAbbr at ht
  have e : i + ((L.drop i).takeWhile (fun t => isLetters t)).length - i = ((L.drop i).takeWhile (fun t => isLetters t)).length := by omega
  rw [e] at ht
  have : (L.drop i).take ((L.drop i).takeWhile (fun t => isLetters t)).length = (L.drop i).takeWhile (fun t => isLetters t) := by
    generalize L.drop i = M
    induction M with
    | nil => rfl
    | cons a m ih =>
      simp only [List.takeWhile_cons]
      split
      · simp [ih]
      · simp
  rw [this] at ht
  generalize L.drop i = M at ht
  induction M with
  | nil => simp at ht
  | cons a m ih =>
    simp only [List.takeWhile_cons] at ht
    split at ht
    · rename_i hp
      rcases List.mem_cons.mp ht with rfl | h
      · exact hp
      · exact ih h
    · simp at ht

theorem setAbbr_ok (r0 : Res) (abbr : String) (c : Prop) [Decidable c] (h0 : ResOK r0) (hj : isLetters abbr = true) :
    AOK (if c then { r0 with stdabbr := some abbr } else { r0 with dstabbr := some abbr }).stdabbr ∧
    AOK (if c then { r0 with stdabbr := some abbr } else { r0 with dstabbr := some abbr }).dstabbr := by
  by_cases hc : c
  · simp only [hc, if_true]
    exact ⟨fun a ha => by simp only [Option.some.injEq] at ha; subst ha; exact hj, h0.2⟩
  · simp only [hc, if_false]
    exact ⟨h0.1, fun a ha => by simp only [Option.some.injEq] at ha; subst ha; exact hj⟩

theorem step_abbrs (l : Array String) (r0 : Res) (i : Nat) (u : List Nat) (isStd : Bool) (st1 : St)
    (h : (match l[i]? with
          | some t =>
            if (t == "+" || t == "-" || firstIsDigit t) = true then do
              let (v, st') ← parseOffset l { res := r0, i := i, used := u }
              let res := if isStd then { st'.res with stdoffset := some v } else { st'.res with dstoffset := some v }
              pure { st' with res := res }
            else pure { res := r0, i := i, used := u }
          | none => pure { res := r0, i := i, used := u } : P St) = some st1) :
    st1.res.stdabbr = r0.stdabbr ∧ st1.res.dstabbr = r0.dstabbr := by
  split at h
  · split at h
    · simp only [bind, pure, Option.bind_eq_some_iff] at h
      obtain ⟨⟨v, st2⟩, hp, h⟩ := h
      have hr := parseOffset_res _ _ _ _ hp
      simp only [Option.some.injEq] at h
      subst h
      simp only [] at hr ⊢
      cases isStd <;> simp [hr]
    · simp only [pure, Option.some.injEq] at h
      subst h
      exact ⟨rfl, rfl⟩
  · simp only [pure, Option.some.injEq] at h
    subst h
    exact ⟨rfl, rfl⟩

theorem abbrLoop_abbrs (l : Array String) (fuel : Nat) (st st' : St) (h : abbrLoop l fuel st = some st') (h0 : ResOK st.res) :
    ResOK st'.res := by
  induction fuel generalizing st with
  | zero => unfold abbrLoop at h; cases h; exact h0
  | succ n ih =>
    unfold abbrLoop at h
    split at h
    · simp only [] at h
      split at h
      · have hj := isLetters_join _ (skipAbbr_letters l.toList st.i)
        split at h
        · cases h
        · rename_i st1 hstep
          have h1 : ResOK st1.res := by
            have := step_abbrs _ _ _ _ _ _ hstep
            unfold ResOK
            rw [this.1, this.2]
            exact setAbbr_ok _ _ _ h0 hj
          repeat' split at h
          all_goals (try simp only [Bool.false_eq_true, if_false, if_true] at h)
          all_goals first
            | (cases h; exact h1)
            | (exact ih _ h h1)
      · cases h; exact h0
    · cases h; exact h0

theorem parseTokens_abbrs (l0 : Array String) (res : Res) (h : parseTokens l0 = .ok (some res)) : ResOK res := by
  unfold parseTokens at h
  split at h
  · cases h
  · rename_i st0 hab
    have hinit : ResOK ({} : St).res := by
      unfold ResOK AOK
      constructor <;> intro a ha <;> cases ha
    have h0 : ResOK st0.res := abbrLoop_abbrs _ _ _ _ hab hinit
    split at h
    rename_i x l stOpt heq
    have hst : ∀ st, stOpt = some st → st.res = st0.res := by
      intro st hs; subst hs
      split at heq
      · simp only [] at heq
        split at heq <;> (simp only [Prod.mk.injEq] at heq; obtain ⟨_, h2⟩ := heq; cases h2)
        rfl
      · simp only [Prod.mk.injEq] at heq; obtain ⟨_, h2⟩ := heq; cases h2; rfl
    clear heq
    split at h
    · cases h
    · rename_i st
      have hs := hst st rfl
      have e0 : ResOK st.res := by rw [hs]; exact h0
      simp only [] at h
      split at h
      · simp only [Except.ok.injEq, Option.some.injEq] at h; subst h; exact e0
      · split at h
        · split at h
          · cases h
          · rename_i a st1 hd1
            split at h
            · cases h
            · rename_i b st2 hd2
              have r1 := (depRule_W _ _ _ _ hd1).2
              have r2 := (depRule_W _ _ _ _ hd2).2
              have e2 : ResOK st2.res := by rw [r2, r1]; exact e0
              split at h
              · by_cases hc : (l[st2.i]?.getD "" == "-" || l[st2.i]?.getD "" == "+") = true
                · simp only [hc, ↓reduceIte] at h
                  repeat' split at h
                  all_goals first
                    | (cases h; done)
                    | (simp only [Except.ok.injEq, Option.some.injEq] at h; subst h; exact e2)
                · simp only [hc, Bool.false_eq_true, ↓reduceIte] at h
                  repeat' split at h
                  all_goals first
                    | (cases h; done)
                    | (simp only [Except.ok.injEq, Option.some.injEq] at h; subst h; exact e2)
              · simp only [Except.ok.injEq, Option.some.injEq] at h; subst h; exact e2
        · split at h
          · split at h
            · cases h
            · rename_i a st1 hd1
              split at h
              · cases h
              · rename_i b st2 hd2
                have r1 := (stdRule_W _ _ _ _ hd1).2
                have r2 := (stdRule_W _ _ _ _ hd2).2
                have e2 : ResOK st2.res := by rw [r2, r1]; exact e0
                split at h
                · cases h
                · simp only [Except.ok.injEq, Option.some.injEq] at h; subst h; exact e2
          · simp only [Except.ok.injEq, Option.some.injEq] at h; subst h; exact e0

theorem parse_abbrs (s : String) (res : Res) (h : TzStr.parse s = .ok (some res)) : ResOK res := parseTokens_abbrs _ _ h

end TzGen
