/-
  Proofs/LocalZone.lean — `tzlocal` (when the C library follows a yearly rule table, `localZone`)
  has the cycle semantics `GenericZone.CycleSem`, so `GenericZone.roundtrip` applies to it.
  glibc's `localtime` itself stays an assumption: it enters only through `localNaiveIsdst`.
-/
import DateutilVerif.Proofs.GenericZone

namespace TZ
open GenericZone

/-- On a wall window where `time.localtime(…).tm_isdst` (asked the way `_naive_is_dst` asks) is
    "`w < off`" — daylight time up to the wall reading `off`, standard time after — `tzlocal`'s
    `utcoffset/dst` are the cycle semantics and its own `is_ambiguous` is the repeated interval.
    The hypothesis is needed from `lo − saving` on because `is_ambiguous` probes `dt − saving`. -/
theorem local_cycleSem (z : RangeZone) (off lo hi : Int) (hd : z.hasdst = true) (hs : 0 < z.saving)
    (hN : ∀ w, lo - z.saving ≤ w → w < hi → localNaiveIsdst z w = decide (w < off)) :
    CycleSem (localZone z) z.stdOff z.saving off lo hi ∧
    (∀ w, lo ≤ w → w < hi →
      (localZone z).isAmbiguous w = (decide (off ≤ w) && decide (w < off + z.saving))) := by
  have hamb : ∀ w, lo ≤ w → w < hi →
      localIsAmbiguous z w = (decide (off ≤ w) && decide (w < off + z.saving)) := by
    intro w h1 h2
    unfold localIsAmbiguous
    rw [hN w (by omega) h2, hN (w - z.saving) (by omega) (by omega)]
    rw [Bool.eq_iff_iff]
    by_cases a : w < off <;> by_cases c : w - z.saving < off <;> simp [a, c] <;> omega
  have hdst : z.dstOff = z.stdOff + z.saving := by unfold RangeZone.saving; omega
  refine ⟨?_, ?_⟩
  · intro w fold h1 h2
    have hi' : localIsdst z ⟨w, fold⟩ = cycleIsDst off z.saving w fold := by
      unfold localIsdst cycleIsDst
      simp only [hd, Bool.not_true, Bool.false_eq_true, if_false, hamb w h1 h2, hN w (by omega) h2]
      rw [Bool.eq_iff_iff]
      by_cases a : w < off <;> by_cases c : w < off + z.saving <;> cases fold <;> simp [a, c] <;> omega
    simp only [localZone, hi', hdst]
    trivial
  · intro w h1 h2
    unfold GenericZone.isAmbiguous
    simp only [localZone]
    exact hamb w h1 h2

/-- northern order inside one rule year: from `on` to the end of the window the naive decision
    is `w < off` -/
theorem local_naive_north (z : RangeZone) (on off lo hi : Int) (h : on < off) (hlo : on ≤ lo - z.saving)
    (htr : ∀ w, lo - z.saving ≤ w → w < hi → z.transitions (yearOf w) = some (on, off)) :
    ∀ w, lo - z.saving ≤ w → w < hi → localNaiveIsdst z w = decide (w < off) := by
  intro w h1 h2
  unfold localNaiveIsdst RangeZone.naiveIsdst
  simp only [htr w h1 h2, h, if_true]
  rw [Bool.eq_iff_iff]
  simp only [Bool.and_eq_true, decide_eq_true_eq]
  omega

/-- southern order across New Year: daylight time from `on` (this year's pair `(on, off₀)`,
    `off₀ ≤ on`) through New Year `ny` up to next year's `off` (pair `(on', off)`, `off ≤ on'`) -/
theorem local_naive_south (z : RangeZone) (on off₀ on' off ny lo hi : Int)
    (h0 : off₀ ≤ on) (h1' : off ≤ on') (hlo : on ≤ lo - z.saving) (hhi : hi ≤ on') (hny : ny ≤ off)
    (htr0 : ∀ w, lo - z.saving ≤ w → w < ny → z.transitions (yearOf w) = some (on, off₀))
    (htr1 : ∀ w, ny ≤ w → w < hi → z.transitions (yearOf w) = some (on', off)) :
    ∀ w, lo - z.saving ≤ w → w < hi → localNaiveIsdst z w = decide (w < off) := by
  intro w h1 h2
  unfold localNaiveIsdst RangeZone.naiveIsdst
  by_cases c : w < ny
  · simp only [htr0 w h1 c, show ¬ on < off₀ from by omega, if_false]
    rw [Bool.eq_iff_iff]
    simp only [← Bool.decide_and, Bool.not_eq_true', decide_eq_false_iff_not, decide_eq_true_eq]
    omega
  · simp only [htr1 w (by omega) h2, show ¬ on' < off from by omega, if_false]
    rw [Bool.eq_iff_iff]
    simp only [← Bool.decide_and, Bool.not_eq_true', decide_eq_false_iff_not, decide_eq_true_eq]
    omega

/-- **tzlocal round trip** (model level): on a window with the cycle structure, `tzlocal.fromutc`
    (the `_tzinfo` machinery with tzlocal's own `is_ambiguous`) round-trips. -/
theorem roundtrip_local (z : RangeZone) (off lo hi t : Int) (hd : z.hasdst = true) (hs : 0 < z.saving)
    (hN : ∀ w, lo - z.saving ≤ w → w < hi → localNaiveIsdst z w = decide (w < off))
    (hx1 : lo ≤ t + z.stdOff) (hx2 : t + z.stdOff < hi) (hx3 : t + z.stdOff < off → t + z.stdOff + z.saving < hi) :
    let g := localZone z
    g.utcoffset (g.fromutc t) = (g.fromutc t).wall - t ∧ g.toUtc (g.fromutc t) = t ∧
    (g.fromutc t).wall = (if t + z.stdOff < off then t + z.stdOff + z.saving else t + z.stdOff) ∧
    (g.fromutc t).fold = (decide (off ≤ t + z.stdOff) && decide (t + z.stdOff < off + z.saving)) := by
  intro g
  obtain ⟨hsem, hamb⟩ := local_cycleSem z off lo hi hd hs hN
  have h0 : g.utcoffset ⟨t, false⟩ - g.dst ⟨t, false⟩ = z.stdOff := by
    simp only [g, localZone]
    unfold RangeZone.saving
    split <;> omega
  exact GenericZone.roundtrip g z.stdOff z.saving off lo hi t hs hsem hamb h0 hx1 hx2 hx3

end TZ
