/-
  Proofs/CacheNestedInit.lean — `Nested.init` builds a `Fresh` state (C11, nested cached objects):
  induction over the construction (owned iterators appended member by member, set by set).
-/
import DateutilVerif.Proofs.CacheNestedStep

namespace Nested
open Cache Queries

/-- every member machine satisfies its invariant and all of its threads are outside the critical section -/
def Good (ms : List Cache.State) : Prop :=
  ∀ (m : Nat) (M : Cache.State), ms[m]? = some M → Inv M ∧ ∀ (t : Tid) (it : Iter), M.its[t]? = some it → it.pc.inCrit = false

/-- number of threads of member m (0 if there is no such member) -/
def lenAt (ms : List Cache.State) (m : Nat) : Nat :=
  match ms[m]? with | some M => M.its.length | none => 0

theorem lenAt_some {ms : List Cache.State} {m : Nat} {M : Cache.State} (h : ms[m]? = some M) : lenAt ms m = M.its.length := by
  unfold lenAt; rw [h]

theorem subIter_linv (sh : Shared) : LInv sh subIter := ⟨rfl, rfl, rfl⟩

theorem good_set {ms : List Cache.State} {m : Nat} {M : Cache.State} (hg : Good ms) (hM : ms[m]? = some M) :
    Good (ms.set m { M with its := M.its ++ [subIter] }) := by
  intro m' X hX
  rcases set_get _ _ _ _ _ hX with ⟨_, rfl⟩ | ⟨_, hX'⟩
  · obtain ⟨hi, hp⟩ := hg m M hM
    refine ⟨inv_add_iter hi subIter (subIter_linv _) rfl, ?_⟩
    intro t it hit
    simp only [] at hit
    by_cases hlt : t < M.its.length
    · rw [List.getElem?_append_left hlt] at hit; exact hp t it hit
    · rw [List.getElem?_append_right (Nat.le_of_not_lt hlt)] at hit
      by_cases e : t - M.its.length = 0
      · rw [e] at hit; simp at hit; rw [← hit]; rfl
      · have : ([subIter])[t - M.its.length]? = none := by
          apply List.getElem?_eq_none
          simp only [List.length_cons, List.length_nil]
          exact Nat.pos_of_ne_zero e
        rw [this] at hit; cases hit
  · exact hg m' X hX'

theorem lenAt_set (ms : List Cache.State) (m m' : Nat) (M : Cache.State) (hM : ms[m]? = some M) :
    lenAt (ms.set m { M with its := M.its ++ [subIter] }) m' = if m = m' then M.its.length + 1 else lenAt ms m' := by
  unfold lenAt
  by_cases e : m = m'
  · subst e
    rw [List.getElem?_set_self (lt_of_getElem?' hM), if_pos rfl]
    simp
  · rw [List.getElem?_set_ne e, if_neg e]

/-- the owned iterators appended for one set -/
theorem addSubs_spec : ∀ (l : List Nat) (ms : List Cache.State), Good ms →
    Good (addSubs ms l).1 ∧ (∀ m, lenAt ms m ≤ lenAt (addSubs ms l).1 m) ∧
    (∀ (k m : Nat) (tid : Tid), (addSubs ms l).2[k]? = some (m, tid) → lenAt ms m ≤ tid ∧ tid < lenAt (addSubs ms l).1 m) ∧
    (∀ (k k' m : Nat) (tid : Tid), (addSubs ms l).2[k]? = some (m, tid) → (addSubs ms l).2[k']? = some (m, tid) → k = k') := by
  intro l
  induction l with
  | nil => intro ms hg; exact ⟨hg, fun _ => Nat.le_refl _, fun k m tid h => by simp [addSubs] at h, fun k k' m tid h => by simp [addSubs] at h⟩
  | cons m rest ih =>
    intro ms hg
    unfold addSubs
    cases hM : ms[m]? with
    | none => simp only []; exact ih ms hg
    | some M =>
      simp only []
      have hg1 := good_set hg hM
      obtain ⟨g2, mono, rng, uniq⟩ := ih _ hg1
      have hlen1 : ∀ m', lenAt ms m' ≤ lenAt (ms.set m { M with its := M.its ++ [subIter] }) m' := by
        intro m'
        rw [lenAt_set ms m m' M hM]
        split
        · rename_i e; subst e; rw [lenAt_some hM]; omega
        · exact Nat.le_refl _
      have hself : lenAt (ms.set m { M with its := M.its ++ [subIter] }) m = M.its.length + 1 := by
        rw [lenAt_set ms m m M hM, if_pos rfl]
      refine ⟨g2, fun m' => Nat.le_trans (hlen1 m') (mono m'), ?_, ?_⟩
      · intro k m' tid h
        cases k with
        | zero =>
          simp only [List.getElem?_cons_zero, Option.some.injEq, Prod.mk.injEq] at h
          obtain ⟨rfl, rfl⟩ := h
          have h1 := mono m
          rw [hself] at h1
          rw [lenAt_some hM]
          exact ⟨Nat.le_refl _, Nat.lt_of_succ_le h1⟩
        | succ k =>
          simp only [List.getElem?_cons_succ] at h
          obtain ⟨h1, h2⟩ := rng k m' tid h
          have h3 := hlen1 m'
          exact ⟨by omega, h2⟩
      · intro k k' m' tid h h'
        cases k with
        | zero =>
          simp only [List.getElem?_cons_zero, Option.some.injEq, Prod.mk.injEq] at h
          obtain ⟨rfl, rfl⟩ := h
          cases k' with
          | zero => rfl
          | succ k' =>
            simp only [List.getElem?_cons_succ] at h'
            have := (rng k' m _ h').1
            rw [hself] at this
            omega
        | succ k =>
          simp only [List.getElem?_cons_succ] at h
          cases k' with
          | zero =>
            simp only [List.getElem?_cons_zero, Option.some.injEq, Prod.mk.injEq] at h'
            obtain ⟨rfl, rfl⟩ := h'
            have := (rng k m _ h).1
            rw [hself] at this
            omega
          | succ k' =>
            simp only [List.getElem?_cons_succ] at h'
            rw [uniq k k' m' tid h h']

/-- all the sets -/
theorem addSets_spec (srcOf : Nat → List Int) (direct : Nat → List Query) (nM : Nat) :
    ∀ (defs : List (List Slot × List Slot)) (ms : List Cache.State) (si0 : Nat), Good ms →
    Good (addSets srcOf direct nM ms si0 defs).1 ∧
    (∀ m, lenAt ms m ≤ lenAt (addSets srcOf direct nM ms si0 defs).1 m) ∧
    (∀ (i : Nat) (S : SetM), (addSets srcOf direct nM ms si0 defs).2[i]? = some S → S.pulls = [] ∧ Inv S.st) ∧
    (∀ (i : Nat) (S : SetM) (k m : Nat) (tid : Tid), (addSets srcOf direct nM ms si0 defs).2[i]? = some S →
        S.subs[k]? = some (m, tid) → lenAt ms m ≤ tid ∧ tid < lenAt (addSets srcOf direct nM ms si0 defs).1 m) ∧
    (∀ (i i' : Nat) (S S' : SetM) (k k' m : Nat) (tid : Tid), (addSets srcOf direct nM ms si0 defs).2[i]? = some S →
        (addSets srcOf direct nM ms si0 defs).2[i']? = some S' → S.subs[k]? = some (m, tid) → S'.subs[k']? = some (m, tid) →
        i = i' ∧ k = k') := by
  intro defs
  induction defs with
  | nil =>
    intro ms si0 hg
    exact ⟨hg, fun _ => Nat.le_refl _, fun i S h => by simp [addSets] at h, fun i S k m tid h => by simp [addSets] at h,
      fun i i' S S' k k' m tid h => by simp [addSets] at h⟩
  | cons d rest ih =>
    intro ms si0 hg
    unfold addSets
    simp only []
    obtain ⟨g1, mono1, rng1, uniq1⟩ := addSubs_spec (subMembers d.1 d.2) ms hg
    obtain ⟨g2, mono2, fresh2, rng2, uniq2⟩ := ih (addSubs ms (subMembers d.1 d.2)).1 (si0 + 1) g1
    refine ⟨g2, fun m => Nat.le_trans (mono1 m) (mono2 m), ?_, ?_, ?_⟩
    · intro i S h
      cases i with
      | zero =>
        simp only [List.getElem?_cons_zero, Option.some.injEq] at h
        subst h
        exact ⟨rfl, inv_init _ _⟩
      | succ i => simp only [List.getElem?_cons_succ] at h; exact fresh2 i S h
    · intro i S k m tid h hk
      cases i with
      | zero =>
        simp only [List.getElem?_cons_zero, Option.some.injEq] at h
        subst h
        obtain ⟨h1, h2⟩ := rng1 k m tid hk
        have h3 := mono2 m
        exact ⟨h1, Nat.lt_of_lt_of_le h2 h3⟩
      | succ i =>
        simp only [List.getElem?_cons_succ] at h
        obtain ⟨h1, h2⟩ := rng2 i S k m tid h hk
        have h3 := mono1 m
        exact ⟨by omega, h2⟩
    · intro i i' S S' k k' m tid h h' hk hk'
      cases i with
      | zero =>
        simp only [List.getElem?_cons_zero, Option.some.injEq] at h
        subst h
        cases i' with
        | zero =>
          simp only [List.getElem?_cons_zero, Option.some.injEq] at h'
          subst h'
          exact ⟨rfl, uniq1 k k' m tid hk hk'⟩
        | succ i' =>
          simp only [List.getElem?_cons_succ] at h'
          have a := (rng1 k m tid hk).2
          have b := (rng2 i' S' k' m tid h' hk').1
          exact absurd a (Nat.not_lt.mpr b)
      | succ i =>
        simp only [List.getElem?_cons_succ] at h
        cases i' with
        | zero =>
          simp only [List.getElem?_cons_zero, Option.some.injEq] at h'
          subst h'
          have a := (rng1 k' m tid hk').2
          have b := (rng2 i S k m tid h hk).1
          exact absurd a (Nat.not_lt.mpr b)
        | succ i' =>
          simp only [List.getElem?_cons_succ] at h'
          obtain ⟨e1, e2⟩ := uniq2 i i' S S' k k' m tid h h' hk hk'
          exact ⟨by rw [e1], e2⟩

/-- **`Nested.init` builds a fresh state** (one lock per object) -/
theorem fresh_init (memberSrcs : List (List Int)) (setDefs : List (List Slot × List Slot)) (qs : List (Nat × Query)) :
    Fresh (init memberSrcs setDefs qs false).1 := by
  unfold init
  simp only []
  have hg0 : Good ((List.range memberSrcs.length).map (fun m =>
      Cache.init (memberSrcs.getD m []) ((qs.filter (fun p => p.1 == m)).map (·.2)))) := by
    intro m M hM
    simp only [List.getElem?_map, Option.map_eq_some_iff] at hM
    obtain ⟨m', _, rfl⟩ := hM
    refine ⟨inv_init _ _, ?_⟩
    intro t it hit
    simp only [Cache.init, List.getElem?_map, Option.map_eq_some_iff] at hit
    obtain ⟨q, _, rfl⟩ := hit
    rfl
  obtain ⟨g, _, fresh, rng, uniq⟩ := addSets_spec (fun m => memberSrcs.getD m [])
    (fun obj => (qs.filter (fun p => p.1 == obj)).map (·.2)) memberSrcs.length setDefs _ 0 hg0
  refine ⟨rfl, fun m M hM => (g m M hM).1, fun si S hS => (fresh si S hS).2, fun si S hS => (fresh si S hS).1, ?_, uniq⟩
  intro si S k m tid M it hS hk hM hit
  exact (g m M hM).2 tid it hit

end Nested
