/-
  Proofs/RRuleFilter.lean — the BY-filter of `rrule._iter` (lines 840-852) in calendar terms, for
  rules without BYWEEKNO / nth-BYDAY / BYEASTER (the three computed masks): the day at mask index
  `i` survives exactly when the date `yearordinal + i` satisfies BYMONTH, BYDAY (plain),
  BYMONTHDAY (positive or counted from the month's end) and BYYEARDAY (positive or from the
  year's end) — over the whole year and its 7-day tail.
-/
import DateutilVerif.Proofs.RRuleDayset
import DateutilVerif.Proofs.RRuleLists

namespace RRule
open Cal RRule.Tables

/-- no BYWEEKNO, no nth BYDAY, no BYEASTER -/
structure SimpleRule (r : Rule) : Prop where
  byweekno : truthy r.byweekno = false
  bynweekday : truthy r.bynweekday = false
  byeaster : truthy r.byeaster = false

/-- the date-level parts of a simple rule, on the calendar -/
def simpleOk (r : Rule) (ord : Int) : Bool :=
  (!truthy r.bymonth || memO (fromOrdinal ord).2.1 r.bymonth) &&
  (!truthy r.byweekday || memO (weekdayOfOrd ord) r.byweekday) &&
  (!(!r.bymonthday.isEmpty || !r.bynmonthday.isEmpty) ||
     r.bymonthday.contains (fromOrdinal ord).2.2 ||
     r.bynmonthday.contains ((fromOrdinal ord).2.2 -
        daysInMonth (fromOrdinal ord).1 (fromOrdinal ord).2.1 - 1)) &&
  (!truthy r.byyearday ||
     memO (ord - toOrdinal (fromOrdinal ord).1 1 1 + 1) r.byyearday ||
     memO (ord - toOrdinal (fromOrdinal ord).1 1 1 + 1 - daysInYear (fromOrdinal ord).1 - 1) r.byyearday)

theorem orR_ok (b : Bool) (k : Unit → Py.R Bool) : orR (.ok b) k = if b then .ok true else k () := by
  cases b <;> rfl

theorem buildNwdaymask_simple (r : Rule) (hs : SimpleRule r) (yl : Int) (mr wd : List Int) (m : Int) :
    buildNwdaymask r yl mr wd m = .ok none := by
  unfold buildNwdaymask
  have := hs.bynweekday
  split
  · rename_i h; rw [h] at this; simp [truthy] at this
  · rfl

/-- for a simple rule `rebuild` cannot fail inside 1..9999 and leaves the three computed masks unset -/
theorem rebuild_simple (r : Rule) (hs : SimpleRule r) (y m : Int) (h1 : 1 ≤ y) (h2 : y ≤ 9999) :
    ∃ info, rebuild r y m = .ok info ∧ info.nwdaymask = none ∧ info.wnomask = none ∧ info.eastermask = none := by
  unfold rebuild
  rw [if_neg (by omega)]
  have hw : wnomaskOf r y (baseInfo y) = .ok none := by
    unfold wnomaskOf; have := hs.byweekno
    split
    · rename_i h; rw [h] at this; simp [truthy] at this
    · rfl
  have he : eastermaskOf r y (baseInfo y) = .ok none := by
    unfold eastermaskOf; have := hs.byeaster
    split
    · rename_i h; rw [h] at this; simp [truthy] at this
    · rfl
  rw [hw]; dsimp only
  rw [buildNwdaymask_simple r hs]; dsimp only
  rw [he]
  exact ⟨_, rfl, rfl, rfl, rfl⟩

variable {r : Rule} {y : Int} {info : Info}

/-- **the BY-filter, in calendar terms** -/
theorem dayFiltered_simple (hs : SimpleRule r) (f : YearFacts r y info) (hnw : info.nwdaymask = none)
    (i : Int) (h0 : 0 ≤ i) (h1 : i < info.yearlen + 7) :
    dayFiltered r info i = .ok (!simpleOk r (info.yearordinal + i)) := by
  have hlen : info.yearlen ≤ 366 := by rw [f.yearlen]; unfold daysInYear; split <;> omega
  have hdate := date_of_index y i f.year_lo h0 (by rw [← f.yearlen]; exact h1)
  rw [← f.yearordinal] at hdate
  unfold dayFiltered
  rw [mmask_date f i h0 h1, wdaymask_date f i h0 (by omega), mdaymask_date f i h0 h1,
      nmdaymask_date f i h0 h1, hnw]
  simp only [maskMiss, hs.byweekno, hs.byeaster, Bool.false_eq_true, ↓reduceIte]
  -- the year-day clause in terms of the date
  have hyd : (decide (i < info.yearlen) && !memO (i + 1) r.byyearday && !memO (-info.yearlen + i) r.byyearday ||
      decide (i ≥ info.yearlen) && !memO (i + 1 - info.yearlen) r.byyearday &&
        !memO (-info.nextyearlen + i - info.yearlen) r.byyearday) =
      !(memO (info.yearordinal + i - toOrdinal (fromOrdinal (info.yearordinal + i)).1 1 1 + 1) r.byyearday ||
        memO (info.yearordinal + i - toOrdinal (fromOrdinal (info.yearordinal + i)).1 1 1 + 1 -
              daysInYear (fromOrdinal (info.yearordinal + i)).1 - 1) r.byyearday) := by
    rw [hdate]
    by_cases c : i < info.yearlen
    · have c' : i < daysInYear y := by rw [← f.yearlen]; exact c
      rw [if_pos c']
      have e1 : info.yearordinal + i - toOrdinal y 1 1 + 1 = i + 1 := by rw [f.yearordinal]; omega
      have e2 : i + 1 - daysInYear y - 1 = -info.yearlen + i := by rw [f.yearlen]; omega
      dsimp only
      rw [e1, e2]
      have c2 : ¬ (i ≥ info.yearlen) := by omega
      simp [c, c2]
    · have c' : ¬ i < daysInYear y := by rw [← f.yearlen]; exact c
      rw [if_neg c']
      dsimp only
      have e1 : info.yearordinal + i - toOrdinal (y + 1) 1 1 + 1 = i + 1 - info.yearlen := by
        rw [toOrdinal_next_year, f.yearordinal, f.yearlen]; omega
      have e2 : i + 1 - info.yearlen - daysInYear (y + 1) - 1 = -info.nextyearlen + i - info.yearlen := by
        rw [f.nextyearlen]; omega
      rw [e1, e2]
      have c2 : i ≥ info.yearlen := by omega
      simp [c, c2]
  unfold simpleOk
  rw [hyd]
  generalize memO (info.yearordinal + i - toOrdinal (fromOrdinal (info.yearordinal + i)).1 1 1 + 1) r.byyearday = ya
  generalize memO (info.yearordinal + i - toOrdinal (fromOrdinal (info.yearordinal + i)).1 1 1 + 1 -
              daysInYear (fromOrdinal (info.yearordinal + i)).1 - 1) r.byyearday = yb
  generalize (fromOrdinal (info.yearordinal + i)).2.1 = mo
  generalize (fromOrdinal (info.yearordinal + i)).2.2 = dd
  generalize (fromOrdinal (info.yearordinal + i)).1 = yy
  generalize weekdayOfOrd (info.yearordinal + i) = wd
  cases truthy r.bymonth <;> cases memO mo r.bymonth <;> cases truthy r.byweekday <;>
    cases memO wd r.byweekday <;> cases r.bymonthday.isEmpty <;> cases r.bynmonthday.isEmpty <;>
    cases r.bymonthday.contains dd <;> cases r.bynmonthday.contains (dd - daysInMonth yy mo - 1) <;>
    cases truthy r.byyearday <;> cases ya <;> cases yb <;> rfl

end RRule
