/- Proofs/Range.lean — lifting a `decide +kernel` over `Fin n` to an integer interval. -/

theorem allRange_lift (lo : Int) (n : Nat) (P : Int → Bool)
    (h : ∀ k : Fin n, P (lo + (k.val : Int)) = true) :
    ∀ y : Int, lo ≤ y → y < lo + n → P y = true := by
  intro y h1 h2
  have hk : (y - lo).toNat < n := by omega
  have := h ⟨(y - lo).toNat, hk⟩
  simp only [] at this
  have e : lo + (((y - lo).toNat : Nat) : Int) = y := by omega
  rw [e] at this; exact this
