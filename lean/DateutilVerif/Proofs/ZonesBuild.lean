/-
  Proofs/ZonesBuild.lean — `build r` is a coherent zone whose transition objects agree with the
  raw types on everything but `dstoffset`; bridge from `Spec.typeAt` (last transition ≤ t, by
  filtering) to the bisect index.
-/
import DateutilVerif.Proofs.Zones

namespace TZ
open Spec

/-- equal up to `dstoffset` -/
def Rel (a b : TType) : Prop :=
  a.off = b.off ∧ a.isdst = b.isdst ∧ a.abbr = b.abbr ∧ a.isstd = b.isstd ∧ a.isgmt = b.isgmt

theorem Rel.refl (a : TType) : Rel a a := ⟨rfl, rfl, rfl, rfl, rfl⟩
theorem Rel.trans {a b c : TType} (h1 : Rel a b) (h2 : Rel b c) : Rel a c := by
  obtain ⟨a1, a2, a3, a4, a5⟩ := h1; obtain ⟨b1, b2, b3, b4, b5⟩ := h2
  exact ⟨a1.trans b1, a2.trans b2, a3.trans b3, a4.trans b4, a5.trans b5⟩

/-- pointwise relation of two type lists -/
inductive RelL : List TType → List TType → Prop
  | nil : RelL [] []
  | cons {a b l l'} : Rel a b → RelL l l' → RelL (a :: l) (b :: l')

theorem RelL.refl : ∀ l, RelL l l
  | [] => .nil
  | a :: l => .cons (Rel.refl a) (RelL.refl l)

theorem RelL.trans {l1 l2 l3 : List TType} (h1 : RelL l1 l2) (h2 : RelL l2 l3) : RelL l1 l3 := by
  induction h1 generalizing l3 with
  | nil => cases h2; exact .nil
  | cons hab _ ih => cases h2 with
    | cons hbc t => exact .cons (hab.trans hbc) (ih t)

theorem relL_mapIdx_from (i : Nat) (d : Int) : ∀ (l : List TType) (k : Nat),
    RelL l (l.mapIdx (fun j t => if j + k = i then { t with dstoff := d } else t)) := by
  intro l
  induction l with
  | nil => intro k; exact .nil
  | cons a l ih =>
      intro k
      rw [List.mapIdx_cons]
      refine .cons ?_ ?_
      · by_cases h : 0 + k = i
        · rw [if_pos h]; exact ⟨rfl, rfl, rfl, rfl, rfl⟩
        · rw [if_neg h]; exact Rel.refl a
      · have := ih (k + 1)
        have e : (fun j t => if j + 1 + k = i then ({ t with dstoff := d } : TType) else t)
               = (fun j t => if j + (k + 1) = i then ({ t with dstoff := d } : TType) else t) := by
          funext j t; congr 1; apply propext; omega
        simpa [e, Function.comp_def] using this

theorem relL_applyAssign : ∀ (asg : List (Nat × Option Int)) (types : List TType),
    RelL types (applyAssign types asg) := by
  intro asg
  induction asg with
  | nil => intro types; exact RelL.refl _
  | cons a rest ih =>
      intro types
      obtain ⟨i, od⟩ := a
      cases od with
      | none => exact ih types
      | some d =>
          unfold applyAssign
          have h1 := relL_mapIdx_from i d types 0
          simp only [Nat.add_zero] at h1
          exact h1.trans (ih _)

theorem RelL.length {l l' : List TType} (h : RelL l l') : l.length = l'.length := by
  induction h with
  | nil => rfl
  | cons _ _ ih => simp [ih]

theorem RelL.getD {l l' : List TType} (h : RelL l l') (i : Nat) :
    Rel (l.getD i default) (l'.getD i default) := by
  induction h generalizing i with
  | nil => simp; exact Rel.refl _
  | cons hab _ ih => cases i with
    | zero => simpa using hab
    | succ k => simpa using ih k

/-- Option-lifted relation -/
def RelO : Option TType → Option TType → Prop
  | some a, some b => Rel a b
  | none, none => True
  | _, _ => False

theorem RelL.find {l l' : List TType} (h : RelL l l') :
    RelO (l.find? (fun t => t.isdst == 0)) (l'.find? (fun t => t.isdst == 0)) := by
  induction h with
  | nil => simp [RelO]
  | @cons a b l l' hab _ ih =>
      simp only [List.find?_cons]
      rw [← hab.2.1]
      cases h0 : (a.isdst == 0) with
      | true => exact hab
      | false => exact ih

theorem RelL.head {l l' : List TType} (h : RelL l l') : RelO l.head? l'.head? := by
  cases h with
  | nil => simp [RelO]
  | cons hab _ => simpa [RelO] using hab

theorem relL_final (r : Raw) : RelL r.types (finalTypes r) := relL_applyAssign _ _

/-! ### `assemble` -/

theorem dstLoop_length : ∀ (l : List (Int × Int)) (st : LoopSt), (dstLoop st l).length = l.length := by
  intro l
  induction l with
  | nil => intro st; rfl
  | cons a l ih => intro st; obtain ⟨o, d⟩ := a; simp [dstLoop, ih]

theorem scanStdDst_some : ∀ (l : List TType) (std dst : Option TType),
    (l ≠ [] ∨ std.isSome ∨ dst.isSome) → (scanStdDst l std dst).1.isSome := by
  intro l
  induction l with
  | nil =>
      intro std dst h
      rcases h with h | h | h
      · exact absurd rfl h
      · cases std <;> cases dst <;> simp_all [scanStdDst]
      · cases std <;> cases dst <;> simp_all [scanStdDst]
  | cons a l ih =>
      intro std dst _
      unfold scanStdDst
      cases hs : std with
      | some sv =>
          cases hd : dst with
          | some dv => simp
          | none =>
              by_cases h1 : a.isdst = 0
              · simp [h1]; exact ih _ _ (Or.inr (Or.inl rfl))
              · simp [h1]
          -- unreachable alternatives are closed by simp above
      | none =>
          by_cases h1 : a.isdst = 0
          · cases hd : dst with
            | some dv => simp [h1]
            | none => simp [h1]; exact ih _ _ (Or.inr (Or.inl rfl))
          · cases hd : dst with
            | some dv => simp [h1]; exact ih _ _ (Or.inr (Or.inr rfl))
            | none => simp [h1]; exact ih _ _ (Or.inr (Or.inr rfl))


theorem zip_map_map {α β γ} (f : α → β) (g : α → γ) : ∀ l : List α,
    (l.map f).zip (l.map g) = l.map (fun x => (f x, g x))
  | [] => rfl
  | a :: l => by simp [zip_map_map f g l]

theorem relO_some_left {o : Option TType} {b : TType} (h : RelO o (some b)) :
    ∃ a, o = some a ∧ Rel a b := by
  cases o with
  | none => exact absurd h (by simp [RelO])
  | some a => exact ⟨a, rfl, h⟩

/-- **`build r` is coherent and inherits WF** (for a table with at least one transition) -/
theorem build_coherent (r : Raw) (hwf : Spec.wf r = true) (hne : r.trans ≠ []) :
    ∃ b s f, firstType r = some f ∧ Rel f b ∧ Coherent (build r) b s ∧ WFz (build r) b := by
  simp only [Spec.wf, Bool.and_eq_true, Bool.not_eq_true'] at hwf
  obtain ⟨⟨_, hty⟩, hgo⟩ := hwf
  have hrel := relL_final r
  have hlen := hrel.length
  have htne : (finalTypes r).isEmpty = false := by
    cases h : finalTypes r with
    | nil => rw [h] at hlen; cases h2 : r.types with
      | nil => simp [h2] at hty
      | cons a l => simp [h2] at hlen
    | cons a l => rfl
  have hune : (r.trans.map (fun p => p.1)).isEmpty = false := by
    cases h : r.trans with
    | nil => exact absurd h hne
    | cons a l => rfl
  -- before
  have hbef : (build r).before =
      (match (finalTypes r).find? (fun t => t.isdst == 0) with
       | some t => some t
       | none => (finalTypes r).head?) := by
    simp only [build, assemble, htne, hune, Bool.or_self, Bool.false_eq_true, if_false]
    rfl
  have hrelo : RelO (firstType r) (build r).before := by
    rw [hbef]; unfold firstType
    have h1 := hrel.find; have h2 := hrel.head
    cases ha : (r.types.find? fun t => t.isdst == 0) with
    | none =>
        cases hb' : ((finalTypes r).find? fun t => t.isdst == 0) with
        | none => exact h2
        | some y => rw [ha, hb'] at h1; exact absurd h1 (by simp [RelO])
    | some x =>
        cases hb' : ((finalTypes r).find? fun t => t.isdst == 0) with
        | none => rw [ha, hb'] at h1; exact absurd h1 (by simp [RelO])
        | some y => rw [ha, hb'] at h1; exact h1
  obtain ⟨b, hb⟩ : ∃ b, (build r).before = some b := by
    rw [hbef]
    cases (finalTypes r).find? (fun t => t.isdst == 0) with
    | some t => exact ⟨t, rfl⟩
    | none => cases h : finalTypes r with
      | nil => rw [h] at htne; simp at htne
      | cons a l => exact ⟨a, rfl⟩
  rw [hb] at hrelo
  obtain ⟨f, hf, hfb⟩ := relO_some_left hrelo
  -- std
  have hstd : (build r).std.isSome := by
    simp only [build, assemble]
    cases h : finalTypes r with
    | nil => rw [h] at htne; simp at htne
    | cons a l =>
        simp only [hune, Bool.false_eq_true, if_false]
        apply scanStdDst_some
        left
        cases h2 : r.trans with
        | nil => exact absurd h2 hne
        | cons p q => simp
  obtain ⟨s, hs⟩ := Option.isSome_iff_exists.mp hstd
  have hwall : ((build r).wall0, (build r).wall1) =
      wallLists b.off (build r).utc ((build r).tts.map (fun (t : TType) => t.off)) := by
    have : (build r).before = some b := hb
    simp only [build, assemble] at this ⊢
    simp only [this]
  refine ⟨b, s, f, hf, hfb, ⟨hb, hs, ?_, ?_, ?_, ?_, ?_⟩, ?_⟩
  · simp [build, assemble]
  · simp [build, assemble, dstLoop_length]
  · simp only [build, assemble, List.length_map]
    cases h2 : r.trans with
    | nil => exact absurd h2 hne
    | cons p q => simp
  · exact congrArg Prod.fst hwall
  · exact congrArg Prod.snd hwall
  · unfold WFz
    have e : (build r).utc.zip ((build r).tts.map (fun (t : TType) => t.off)) = timeline r := by
      simp only [build, assemble, timeline, List.map_map]
      rw [zip_map_map]
      apply List.map_congr_left
      intro p _
      simp only [Function.comp]
      rw [(hrel.getD p.2).1]
    rw [e, ← hfb.1]
    rw [hf] at hgo
    exact hgo


/-! ### `Spec.typeAt` by index -/

theorem boundary_cons_succ {a : Int} {l : List Int} {x : Int} {k : Nat}
    (h : Boundary (a :: l) x (k + 1)) : a ≤ x ∧ Boundary l x k := by
  obtain ⟨h0, h1, h2⟩ := h
  refine ⟨by simpa using h1 0 (by omega), by simpa using h0, ?_, ?_⟩
  · intro i hi; simpa using h1 (i + 1) (by omega)
  · intro i hi hn; simpa using h2 (i + 1) (by omega) (by simpa using hn)

theorem boundary_cons_zero {a : Int} {l : List Int} {x : Int}
    (h : Boundary (a :: l) x 0) : x < a ∧ Boundary l x 0 := by
  obtain ⟨_, _, h2⟩ := h
  refine ⟨by simpa using h2 0 (by omega) (by simp), by omega, ?_, ?_⟩
  · intro i hi; omega
  · intro i hi hn; simpa using h2 (i + 1) (by omega) (by simpa using hn)

theorem filter_le_eq_take : ∀ (l : List (Int × Nat)) (t : Int) (c : Nat),
    Boundary (l.map (fun p => p.1)) t c → l.filter (fun p => decide (p.1 ≤ t)) = l.take c := by
  intro l
  induction l with
  | nil => intro t c _; simp
  | cons a l ih =>
      intro t c hb
      cases c with
      | zero =>
          obtain ⟨h1, h2⟩ := boundary_cons_zero (by simpa using hb)
          have := ih t 0 h2
          simp only [List.take_zero] at this ⊢
          rw [List.filter_cons, this]
          simp; omega
      | succ k =>
          obtain ⟨h1, h2⟩ := boundary_cons_succ (by simpa using hb)
          rw [List.filter_cons, ih t k h2]
          simp [h1]

theorem getLast?_take {α} (l : List α) (c : Nat) (h0 : 0 < c) (hc : c ≤ l.length) :
    (l.take c).getLast? = l[c - 1]? := by
  rw [List.getLast?_eq_getElem?, List.length_take, List.getElem?_take]
  have : min c l.length = c := by omega
  rw [this, if_pos (by omega)]

theorem getD_map_lt {α β} (g : α → β) (l : List α) (i : Nat) (h : i < l.length) (d : β) (d' : α) :
    (l.map g).getD i d = g (l.getD i d') := by
  simp [List.getD, List.getElem?_eq_getElem h]

/-- the spec's "type of the last transition ≤ t" is, up to `dstoffset`, the transition object the
    model selects for the bisect index (before the last transition) -/
theorem typeAt_rel (r : Raw) (hwf : Spec.wf r = true) {b s f : TType}
    (hf : firstType r = some f) (hfb : Rel f b) (hc : Coherent (build r) b s) (hw : WFz (build r) b)
    (t : Int) (hlt : bisectRight (build r).utc t < (build r).utc.length) :
    ∃ ty, typeAt r t = some ty ∧ Rel ty (ttOf (build r) b s (bisectRight (build r).utc t)) := by
  have hb := bisectRight_spec t (hc.utc_sorted hw)
  have hutc : (build r).utc = r.trans.map (fun p => p.1) := rfl
  have hn : (build r).utc.length = r.trans.length := by simp [hutc]
  unfold typeAt ttOf
  rw [if_neg (by omega)]
  rw [filter_le_eq_take r.trans t _ (by rw [← hutc]; exact hb)]
  by_cases h0 : bisectRight (build r).utc t = 0
  · rw [h0, if_pos rfl]
    simp only [List.take_zero, List.getLast?_nil]
    exact ⟨f, hf, hfb⟩
  · rw [if_neg h0]
    have hc1 : bisectRight (build r).utc t - 1 < r.trans.length := by omega
    rw [getLast?_take _ _ (by omega) (by omega), getElem?_eq_some_getD hc1 default]
    simp only
    have hok : (r.trans.getD (bisectRight (build r).utc t - 1) default).2 < r.types.length := by
      simp only [Spec.wf, Bool.and_eq_true] at hwf
      have hall := hwf.1.1
      simp only [Raw.ok, List.all_eq_true, decide_eq_true_eq] at hall
      apply hall
      rw [List.getD_eq_getElem?_getD, List.getElem?_eq_getElem hc1]
      simp
    rw [getElem?_eq_some_getD hok default]
    refine ⟨_, rfl, ?_⟩
    have : (build r).tts.getD (bisectRight (build r).utc t - 1) default
        = (finalTypes r).getD (r.trans.getD (bisectRight (build r).utc t - 1) default).2 default := by
      show (r.trans.map _).getD _ _ = _
      rw [getD_map_lt _ _ _ hc1 default default]
    rw [this]
    exact (relL_final r).getD _


/-- before the last recorded transition the bisect count is below the number of transitions -/
theorem bisect_lt_of_lt_last (r : Raw) {b s : TType} (hc : Coherent (build r) b s)
    (hw : WFz (build r) b) (t u : Int) (hlast : lastTime r = some u) (h : t < u) :
    bisectRight (build r).utc t < (build r).utc.length := by
  have hb := bisectRight_spec t (hc.utc_sorted hw)
  have hutc : (build r).utc = r.trans.map (fun p => p.1) := rfl
  have hle := bisectRight_le (build r).utc t
  have hpos := hc.npos
  by_cases e : bisectRight (build r).utc t = (build r).utc.length
  · have h1 := hb.2.1 ((build r).utc.length - 1) (by omega)
    have : (build r).utc.getD ((build r).utc.length - 1) 0 = u := by
      unfold lastTime at hlast
      rw [hutc, List.getD_eq_getElem?_getD, ← List.getLast?_eq_getElem?, List.getLast?_map, ]
      cases hl : r.trans.getLast? with
      | none => rw [hl] at hlast; simp at hlast
      | some p => rw [hl] at hlast; simp at hlast; simp [hlast]
    omega
  · omega

/-- the zone answers `ttinfo_std` from the last transition on; that is the data's answer exactly
    when `ttinfo_std` is the last transition's type -/
def LastStd (z : TzFile) : Prop := z.std = some (z.tts.getD (z.utc.length - 1) default)

theorem covered_of (r : Raw) {b s : TType} (hc : Coherent (build r) b s) (hw : WFz (build r) b)
    (t : Int) (h : (∃ u, lastTime r = some u ∧ t < u) ∨ LastStd (build r)) :
    Covered (build r) s (bisectRight (build r).utc t) := by
  rcases h with ⟨u, h1, h2⟩ | h
  · exact Or.inl (bisect_lt_of_lt_last r hc hw t u h1 h2)
  · right
    unfold LastStd at h
    rw [hc.hs] at h
    exact Option.some.inj h

end TZ
