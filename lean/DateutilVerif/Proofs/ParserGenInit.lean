/-
  Proofs/ParserGenInit.lean — `parserinfo.__init__` re-translated from /repo's parser/_parser.py (Generated/ParserOps.lean:
  `Gen.P.info_init`; `_convert` is the named primitive `PM.convertGroups`, `time.localtime().tm_year` a parameter):
  the instance it builds has `_year` = the current year and `_century = _year // 100 * 100`, hence `_century ≥ 100` whenever the
  current year is at least 100 — the hypothesis of the `…_partial` obligations — and for the stock class it is the model's
  `Info.default`.
-/
import DateutilVerif.Generated.ParserOps

namespace PGen
open PM Py

theorem info_init_ok (t : PPy.InfoTables) (y : Int) (df yf : Bool) :
    ∃ I, Gen.P.info_init t y df yf = .ok I ∧ I.year = y ∧ I.century = y / 100 * 100 ∧ I.dayfirst = df ∧ I.yearfirst = yf ∧
      I.weekdays = PM.convertGroups t.WEEKDAYS ∧ I.months = PM.convertGroups t.MONTHS ∧ I.hms = PM.convertGroups t.HMS ∧
      I.ampm = PM.convertGroups t.AMPM ∧ I.tzoffsets = t.TZOFFSET :=
  ⟨_, rfl, rfl, rfl, rfl, rfl, rfl, rfl, rfl, rfl, rfl⟩

/-- `__init__` establishes `_century ≥ 100` from a current year of at least 100 -/
theorem info_init_century (t : PPy.InfoTables) (y : Int) (df yf : Bool) (I : Info)
    (h : Gen.P.info_init t y df yf = .ok I) (hy : 100 ≤ y) : 100 ≤ I.century := by
  obtain ⟨I', h', _, hc, _⟩ := info_init_ok t y df yf
  rw [h] at h'
  injection h' with h'
  subst h'
  rw [hc]
  omega

/-- for the stock class `__init__` builds the model's `Info.default` -/
theorem info_init_stock (y : Int) (df yf : Bool) :
    Gen.P.info_init PPy.stockTables y df yf = .ok (Info.default df yf y (y / 100 * 100)) := by
  have h1 : List.map Prod.fst (convertGroups PPy.stockTables.JUMP) = convertFlat Gen.PI_JUMP := by decide
  have h2 : List.map Prod.fst (convertGroups PPy.stockTables.UTCZONE) = convertFlat Gen.PI_UTCZONE := by decide
  have h3 : List.map Prod.fst (convertGroups PPy.stockTables.PERTAIN) = convertFlat Gen.PI_PERTAIN := by decide
  have h4 : PPy.stockTables.UTCZONE.flatten.map tk = Gen.PI_UTCZONE.map tk := by decide
  unfold Gen.P.info_init Info.default PPy.infoOfClass
  simp only [h1, h2, h3, h4]
  rfl

end PGen
