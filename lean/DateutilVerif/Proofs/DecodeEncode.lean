/- Proofs/DecodeEncode.lean — `decode (encode r) = r` for every raw table within the format's ranges. -/
import DateutilVerif.Proofs.Encode
namespace TZ
open Spec

structure RawWF (r : Raw) : Prop where
  ntrans : r.trans.length < 2147483648
  trans_ok : ∀ p ∈ r.trans, In32 p.1 ∧ p.2 < r.types.length ∧ p.2 < 256
  types_ok : ∀ t ∈ r.types, TypeOK t
  abbr_ok : (abbrBlock r.types).length ≤ 256

theorem encode_eq (r : Raw) : encode r =
    magic ++ (List.replicate 16 0 ++
      (([(r.types.length : Int), r.types.length, 0, r.trans.length, r.types.length,
          (abbrBlock r.types).length].flatMap (fun x => be32 x)) ++
      (r.trans.flatMap (fun p => be32 p.1) ++
      (r.trans.map (fun p => UInt8.ofNat p.2) ++
      ((r.types.zip (abbrIdx 0 r.types)).flatMap recBytes ++
      (abbrBlock r.types ++
      (r.types.map (fun t => if t.isstd then (1 : UInt8) else 0) ++
       r.types.map (fun t => if t.isgmt then (1 : UInt8) else 0)))))))) := by
  simp only [encode, List.append_assoc]
  rfl

theorem types_le (r : Raw) (h : RawWF r) : r.types.length ≤ 256 := by
  have := h.abbr_ok
  have : r.types.length ≤ (abbrBlock r.types).length := by
    unfold abbrBlock
    induction r.types with
    | nil => simp
    | cons a l ih => simp only [List.flatMap_cons, List.length_append, List.length_cons]; omega
  omega

theorem decode_encode (r : Raw) (h : RawWF r) : decode (encode r) = .ok r := by
  have hn := types_le r h
  have hcc := h.abbr_ok
  have hntr := h.ntrans
  obtain ⟨hH1, hH2⟩ := be32List_flatMap (fun x : Int => x)
    [(r.types.length : Int), r.types.length, 0, r.trans.length, r.types.length, (abbrBlock r.types).length]
    (by intro p hp; simp only [List.mem_cons, List.not_mem_nil, or_false] at hp; unfold In32
        rcases hp with e | e | e | e | e | e <;> subst e <;> omega)
  have hT := fun rest => readLongs_app (fun p : Int × Nat => p.1) r.trans rest (fun p hp => (h.trans_ok p hp).1)
  have hI := fun rest => readBytes_app (r.trans.map (fun p => UInt8.ofNat p.2)) rest
  have hR := fun rest => readTtinfo_app (r.types.zip (abbrIdx 0 r.types)) rest
    (fun p hp => (h.types_ok p.1 (List.of_mem_zip hp).1).1)
  have hA := fun rest => readN_app (abbrBlock r.types) rest (abbrBlock r.types).length rfl
  have hS := fun rest => readBytes_app (r.types.map (fun t => if t.isstd then (1 : UInt8) else 0)) rest
  have hG := readBytes_app (r.types.map (fun t => if t.isgmt then (1 : UInt8) else 0)) []
  have hM := mkTypesFrom_spec r.types [] (by simpa using h.types_ok) (by simpa using h.abbr_ok)
  simp only [List.nil_append, List.length_nil, abbrBlock, List.flatMap_nil] at hM
  have hzl : (r.types.zip (abbrIdx 0 r.types)).length = r.types.length := by
    have : ∀ (l : List TType) k, (abbrIdx k l).length = l.length := by
      intro l; induction l with
      | nil => intro k; rfl
      | cons a l ih => intro k; simp [abbrIdx, ih]
    simp [List.length_zip, this]
  simp only [List.length_map, hzl, List.append_nil] at hI hR hS hG
  rw [encode_eq]
  unfold decode
  have hrep : (List.replicate 16 (0 : UInt8)).length = 16 := by simp
  have hd16 : ∀ rest : List UInt8, List.drop 16 (List.replicate 16 0 ++ rest) = rest := by
    intro rest; have := drop_app (List.replicate 16 (0 : UInt8)) rest; rwa [hrep] at this
  have hr24 : ∀ rest : List UInt8, readN (List.flatMap (fun x => be32 x)
      [(r.types.length : Int), r.types.length, 0, r.trans.length, r.types.length, (abbrBlock r.types).length] ++ rest) 24
      = (_, rest) := fun rest => readN_app _ rest 24 (by rw [hH2]; rfl)
  have ht4 : ∀ rest : List UInt8, List.take 4 (magic ++ rest) = magic := fun rest => take_app magic rest
  have hd4 : ∀ rest : List UInt8, List.drop 4 (magic ++ rest) = rest := fun rest => drop_app magic rest
  simp only [List.length_cons, List.length_nil, List.map_cons, List.map_nil] at hH1 hH2
  simp only [ht4, hd4, hd16, hr24, hH1, hH2, bind, Except.bind, pure, Except.pure,
    ne_eq, not_true_eq_false, if_false, if_true, hT, hI, hR, hA, hS, hG, Int.toNat_natCast]
  have h00 : ((0 : Int) ≥ 0) := by omega
  have hAny : ((abbrBlock r.types).any fun x => decide (x ≥ 128)) = false := by
    rw [List.any_eq_false]
    intro x hx
    simp only [abbrBlock, List.mem_flatMap, List.mem_append, List.mem_singleton] at hx
    obtain ⟨t, ht, hx⟩ := hx
    have hok := (h.types_ok t ht).2.2.2.2
    rcases hx with hx | hx
    · have := (hok x hx).2; simpa using this
    · subst hx; decide
  have hIdx : ((List.map (fun p : Int × Nat => UInt8.ofNat p.snd) r.trans).any fun i =>
      decide (i.toNat ≥ r.types.length)) = false := by
    rw [List.any_eq_false]
    intro x hx
    simp only [List.mem_map] at hx
    obtain ⟨p, hp, e⟩ := hx
    subst e
    have := h.trans_ok p hp
    simp only [toNat_ofNat, decide_eq_true_eq]; omega
  have hZip : (List.map (fun p : Int × Nat => p.fst) r.trans).zip
      (List.map (fun x => x.toNat) (List.map (fun p : Int × Nat => UInt8.ofNat p.snd) r.trans)) = r.trans := by
    have : ∀ l : List (Int × Nat), (∀ p ∈ l, p.2 < 256) →
        (l.map (fun p => p.fst)).zip ((l.map (fun p => UInt8.ofNat p.snd)).map (fun x => x.toNat)) = l := by
      intro l
      induction l with
      | nil => intro _; rfl
      | cons a l ih =>
          intro hl
          have ha := hl a (by simp)
          simp only [List.map_cons, List.zip_cons_cons, toNat_ofNat]
          rw [ih (fun p hp => hl p (by simp [hp]))]
          congr 1
          cases a; simp only [Prod.mk.injEq, true_and]; simp only at ha; omega
    exact this r.trans (fun p hp => (h.trans_ok p hp).2.2)
  have hM' : mkTypes (List.map recOf (r.types.zip (abbrIdx 0 r.types))) (abbrBlock r.types)
      (List.map (fun t => if t.isstd = true then (1 : UInt8) else 0) r.types)
      (List.map (fun t => if t.isgmt = true then (1 : UInt8) else 0) r.types) = r.types := hM
  simp only [h00, if_true, Int.zero_mul, Int.toNat_zero, List.drop_zero, hS, hG, hAny, Bool.false_eq_true,
    if_false, hM', hIdx, hZip]
end TZ
