/-
  Proofs/TzStrBridge.lean — C08's `TzStr.applyDelta` (a self-contained copy of the fragment of
  `relativedelta.__add__` that `tzrange.transitions` exercises) IS the C03 model `RDM.applyTo` of the
  corresponding relativedelta on `datetime(year, 1, 1)`: same instant (in seconds) or same exception.
  So C08's transition theorems rest on the model that C03 ties to /repo and proves against the docs.
-/
import DateutilVerif.Proofs.RDYearday
import DateutilVerif.Model.TzStr

namespace RDP
open RDM
set_option linter.unusedSimpArgs false

/-- the relativedelta that `tzstr._delta` builds for a `TzStr.Delta`:
    `relativedelta(month=, day=, weekday=wd(n), leapdays=, seconds=)` (the constructor ends in `_fix`) -/
def rdOfDelta (D : TzStr.Delta) : RD :=
  Gen.fix { month := D.month, day := D.day, weekday := D.weekday.map (fun p => (p.1, some p.2)),
            leapdays := D.leapdays, seconds := D.seconds }

theorem rdOfDelta_fields (D : TzStr.Delta) :
    let R := rdOfDelta D
    R.months = 0 ∧ R.years = 0 ∧ R.year = none ∧ R.month = D.month ∧ R.day = D.day ∧
    R.weekday = D.weekday.map (fun p => (p.1, some p.2)) ∧ R.leapdays = D.leapdays ∧
    R.hour = none ∧ R.minute = none ∧ R.second = none ∧ R.microsecond = none ∧
    usTotal R = D.seconds * 1000000 := by
  simp only []
  unfold rdOfDelta
  generalize hpre : ({ month := D.month, day := D.day, weekday := D.weekday.map (fun p => (p.1, some p.2)), leapdays := D.leapdays, seconds := D.seconds } : RD) = pre
  have q0 : pre.months = 0 := by rw [← hpre]
  have qy : pre.years = 0 := by rw [← hpre]
  have q1 : pre.microseconds = 0 := by rw [← hpre]
  have q2 : pre.seconds = D.seconds := by rw [← hpre]
  have q3 : pre.minutes = 0 := by rw [← hpre]
  have q4 : pre.hours = 0 := by rw [← hpre]
  have q5 : pre.days = 0 := by rw [← hpre]
  have cmo : cMo pre = (0, 0) := by unfold cMo; rw [q0]; exact carry_small _ _ _ (by omega)
  refine ⟨by rw [fix_mo, cmo], by rw [fix_y, cmo, qy]; rfl, by rw [fix_year, ← hpre], by rw [fix_month, ← hpre],
    by rw [fix_day, ← hpre], by rw [fix_weekday, ← hpre], by rw [fix_leapdays, ← hpre], by rw [fix_hour, ← hpre],
    by rw [fix_minute, ← hpre], by rw [fix_second, ← hpre], by rw [fix_microsecond, ← hpre], ?_⟩
  have f1 := (carry_facts pre.microseconds 999999 1000000 (by simp) (by decide)).2.1
  have f2 := (carry_facts (pre.seconds + (cU pre).2) 59 60 (by simp) (by decide)).2.1
  have f3 := (carry_facts (pre.minutes + (cS pre).2) 59 60 (by simp) (by decide)).2.1
  have f4 := (carry_facts (pre.hours + (cM pre).2) 23 24 (by simp) (by decide)).2.1
  unfold usTotal
  rw [fix_us, fix_s, fix_m, fix_h, fix_d]
  unfold cH cM cS at *
  generalize (carry (pre.hours + _) 23 24) = c4 at *
  generalize (carry (pre.minutes + _) 59 60) = c3 at *
  generalize (carry (pre.seconds + _) 59 60) = c2 at *
  unfold cU at *
  generalize (carry pre.microseconds 999999 1000000) = c1 at *
  omega

/-- `datetime(year, 1, 1)` -/
def jan1 (year : Int) : Temporal := ⟨.naive, { y := year, m := 1, d := 1 }⟩

/-- seconds since ordinal 0 of a result -/
def secondsOf (r : Temporal) : Int := r.t.toMicros / 1000000

theorem jumpDays_eq_weekdayJump (wd n cur : Int) : jumpDays wd (some n) cur = TzStr.weekdayJump cur wd n := by
  unfold jumpDays TzStr.weekdayJump orInt
  by_cases h : n = 0 <;> simp [h]

theorem inRange_iff (t : Int) :
    TzStr.inRange t = true ↔ ¬ (t * 1000000 < DT.minMicros ∨ t * 1000000 > DT.maxMicros) := by
  unfold TzStr.inRange DT.minMicros DT.maxMicros DT.usPerDay Cal.maxOrdinal
  simp only [decide_eq_true_eq]
  omega

/-- the weekday step: both sides -/
theorem weekdayStep_bridge (t : Int) (w : Option (Int × Int)) (ht : TzStr.inRange t = true) :
    TzStr.weekdayStep t w =
      (Except.bind (applyWeekday (w.map (fun p => (p.1, some p.2))) (DT.ofMicros (t * 1000000)))
        (fun r => (pure { kind := Kind.naive, t := r } : Py.R Temporal))).map secondsOf := by
  have hr := (inRange_iff t).1 ht
  have hx1 : DT.minMicros ≤ t * 1000000 := by omega
  have hx2 : t * 1000000 ≤ DT.maxMicros := by omega
  obtain ⟨hv, hord, _⟩ := ordinal_ofMicros _ hx1 hx2
  have htm := DT.toMicros_ofMicros (t * 1000000) (by unfold DT.minMicros at hx1; omega)
  cases w with
  | none =>
    simp only [TzStr.weekdayStep, Option.map, applyWeekday, Except.bind, pure, Except.pure, Except.map, secondsOf]
    rw [htm]; congr 1; omega
  | some p =>
    obtain ⟨wd, n⟩ := p
    simp only [TzStr.weekdayStep, Option.map, applyWeekday]
    rw [jumpDays_eq_weekdayJump]
    have hcur : (DT.ofMicros (t * 1000000)).weekday = Cal.weekdayOfOrd (t / 86400) := by
      unfold DT.weekday; rw [hord]; congr 1; unfold DT.usPerDay; omega
    rw [hcur]
    generalize TzStr.weekdayJump (Cal.weekdayOfOrd (t / 86400)) wd n = j
    unfold DT.addDays DT.addMicros
    simp only []
    rw [htm]
    have e : t * 1000000 + j * DT.usPerDay = (t + j * 86400) * 1000000 := by unfold DT.usPerDay; omega
    rw [e]
    by_cases hin : TzStr.inRange (t + j * 86400) = true
    · have hr' := (inRange_iff _).1 hin
      rw [if_pos hin, if_neg hr']
      simp only [Except.bind, pure, Except.pure, Except.map, secondsOf]
      rw [DT.toMicros_ofMicros _ (by unfold DT.minMicros at hr'; omega)]
      congr 1; omega
    · have hr' : (t + j * 86400) * 1000000 < DT.minMicros ∨ (t + j * 86400) * 1000000 > DT.maxMicros := by
        apply Classical.byContradiction; intro hc; exact hin ((inRange_iff _).2 hc)
      rw [if_neg hin, if_pos hr']
      rfl

/-- `TzStr.baseInstant` with the two "falsy ⇒ operand's value" choices made explicit -/
def baseInstant' (year month dayArg leapdays seconds : Int) : Py.R Int :=
  if year < 1 ∨ year > 9999 then .error .ValueError else
  if month < 1 ∨ month > 12 then .error .ValueError else
  if min (Cal.daysInMonth year month) dayArg < 1 then .error .ValueError else
  if TzStr.inRange ((Cal.toOrdinal year month (min (Cal.daysInMonth year month) dayArg) +
        (if (leapdays != 0 && decide (month > 2) && Cal.isLeap year) = true then leapdays else 0)) * 86400 + seconds) = true
  then .ok ((Cal.toOrdinal year month (min (Cal.daysInMonth year month) dayArg) +
        (if (leapdays != 0 && decide (month > 2) && Cal.isLeap year) = true then leapdays else 0)) * 86400 + seconds)
  else .error .OverflowError

theorem baseInstant_eq (year : Int) (D : TzStr.Delta) :
    TzStr.baseInstant year D = baseInstant' year (orInt D.month 1) (orInt D.day 1) D.leapdays D.seconds := by
  unfold TzStr.baseInstant baseInstant' orInt
  cases hm : D.month with
  | none =>
    cases hd : D.day with
    | none => rfl
    | some d => by_cases h : d = 0 <;> simp [h]
  | some m =>
    cases hd : D.day with
    | none => by_cases h : m = 0 <;> simp [h]
    | some d => by_cases h : m = 0 <;> by_cases h' : d = 0 <;> simp [h, h']

theorem delta_bridge (R : RD) (year month day ld secs : Int) (f7 : R.leapdays = ld)
    (f12 : usTotal R = secs * 1000000) :
    ({ y := year, m := month, d := day } : DT).toMicros + deltaMicros R (daysWithLeap R year month) =
      ((Cal.toOrdinal year month day +
          (if (ld != 0 && decide (month > 2) && Cal.isLeap year) = true then ld else 0)) * 86400 +
        secs) * 1000000 := by
  have hu : deltaMicros R (daysWithLeap R year month) =
      usTotal R + (daysWithLeap R year month - R.days) * 86400000000 := by
    unfold deltaMicros usTotal; omega
  rw [hu, f12]
  have hL : daysWithLeap R year month - R.days =
      (if (ld != 0 && decide (month > 2) && Cal.isLeap year) = true then ld else 0) := by
    unfold daysWithLeap
    rw [f7]
    by_cases h1 : ld = 0 <;> by_cases h2 : month > 2 <;> by_cases h3 : Cal.isLeap year = true <;>
      simp [h1, h2, h3] <;> omega
  rw [hL]
  generalize (if (ld != 0 && decide (month > 2) && Cal.isLeap year) = true then ld else 0) = L
  unfold DT.toMicros DT.ordinal DT.timeMicros DT.usPerDay
  simp only []
  omega

theorem bind_ok {α β : Type} (v : α) (f : α → Py.R β) : Except.bind (Except.ok v : Py.R α) f = f v := rfl
theorem bind_err {α β : Type} (e : Py.PyErr) (f : α → Py.R β) :
    Except.bind (Except.error e : Py.R α) f = Except.error e := rfl
theorem map_err {α β : Type} (e : Py.PyErr) (f : α → β) :
    Except.map f (Except.error e : Py.R α) = Except.error e := rfl

theorem addMicros_eq (b : DT) (δ x : Int) (h : b.toMicros + δ = x) :
    b.addMicros δ = if x < DT.minMicros ∨ x > DT.maxMicros then .error .OverflowError else .ok (DT.ofMicros x) := by
  subst h; rfl

theorem applyDelta_bridge (year : Int) (D : TzStr.Delta) (hy : 1 ≤ year ∧ year ≤ 9999)
    (hday : ∀ v, D.day = some v → -2147483648 ≤ v) :
    TzStr.applyDelta year D = (applyTo (rdOfDelta D) (jan1 year)).map secondsOf := by
  obtain ⟨f1, f2, f3, f4, f5, f6, f7, f8, f9, f10, f11, f12⟩ := rdOfDelta_fields D
  generalize rdOfDelta D = R at *
  have hp : promote R (jan1 year) = jan1 year := by
    unfold promote jan1; simp
  have hk : (jan1 year).kind = Kind.naive := rfl
  have ht : (jan1 year).t = { y := year, m := 1, d := 1 } := rfl
  unfold applyTo
  rewrite [hp, hk, ht]
  have hym : ymCarry R year 1 = .ok (year, orInt D.month 1) := by
    unfold ymCarry; rw [f1, f2, f3, f4]; simp [orInt]
  simp only [bind]
  rewrite [hym, bind_ok]
  simp only []
  unfold TzStr.applyDelta
  rewrite [baseInstant_eq]
  unfold baseInstant'
  rewrite [if_neg (by omega)]
  generalize hmo : orInt D.month 1 = month
  unfold applyTail
  simp only [bind]
  by_cases hm : month < 1 ∨ month > 12
  · have : monthrange1 year month = .error .ValueError := by unfold monthrange1; rw [if_neg (by omega)]
    rewrite [if_pos hm, this, bind_err, map_err]
    rfl
  · have : monthrange1 year month = .ok (Cal.daysInMonth year month) := by unfold monthrange1; rw [if_pos (by omega)]
    rewrite [if_neg hm, this, bind_ok, f5]
    generalize hdd : min (Cal.daysInMonth year month) (orInt D.day 1) = day
    have hb := Cal.daysInMonth_bounds year month
    have hdaylo : -2147483648 ≤ day := by
      have : -2147483648 ≤ orInt D.day 1 := by
        unfold orInt; cases h : D.day with
        | none => simp
        | some v => have := hday v h; simp only []; split <;> omega
      omega
    -- replace
    have hrep : replaced R Kind.naive { y := year, m := 1, d := 1 } year month day =
        if day < 1 then .error .ValueError else .ok { y := year, m := month, d := day } := by
      unfold replaced hasAbsTime
      rw [f8, f9, f10, f11]
      simp only [Option.isSome_none, Bool.or_self, Bool.false_eq_true, and_false, ↓reduceIte, Option.getD_none]
      have hfit : fitsCInt { y := year, m := month, d := day, hh := 0, mm := 0, ss := 0, us := 0 } = true := by
        unfold fitsCInt; apply decide_eq_true; simp only []; omega
      rw [if_neg (by simp [hfit])]
      have hval : DT.valid { y := year, m := month, d := day, hh := 0, mm := 0, ss := 0, us := 0 } = true ↔ ¬ day < 1 := by
        unfold DT.valid
        rw [decide_eq_true_iff]
        constructor
        · intro hv; have := hv.1.2.2.2.2.1; simp only [] at this; omega
        · intro h
          refine ⟨⟨hy.1, hy.2, ?_, ?_, ?_, ?_⟩, ?_⟩ <;> simp only [] <;> omega
      by_cases hlo : day < 1
      · rw [if_pos hlo, if_neg (fun h => (hval.1 h) hlo)]
      · rw [if_neg hlo, if_pos (hval.2 hlo)]
    rewrite [hrep]
    by_cases hlo : day < 1
    · rewrite [if_pos hlo, if_pos hlo, bind_err, map_err]
      rfl
    · rewrite [if_neg hlo, if_neg hlo, bind_ok]
      have hdelta := delta_bridge R year month day D.leapdays D.seconds f7 f12
      have had : addDelta Kind.naive { y := year, m := month, d := day } (deltaMicros R (daysWithLeap R year month)) =
          DT.addMicros { y := year, m := month, d := day } (deltaMicros R (daysWithLeap R year month)) := rfl
      rewrite [had, addMicros_eq _ _ _ hdelta]
      generalize ((Cal.toOrdinal year month day +
              (if (D.leapdays != 0 && decide (month > 2) && Cal.isLeap year) = true then D.leapdays else 0)) * 86400 +
            D.seconds) = t
      by_cases hin : TzStr.inRange t = true
      · have hr := (inRange_iff t).1 hin
        rewrite [if_pos hin, if_neg hr, bind_ok, f6]
        exact weekdayStep_bridge t D.weekday hin
      · have hr : t * 1000000 < DT.minMicros ∨ t * 1000000 > DT.maxMicros := by
          apply Classical.byContradiction; intro hc; exact hin ((inRange_iff _).2 hc)
        rewrite [if_neg hin, if_pos hr, bind_err, map_err]
        rfl

end RDP
