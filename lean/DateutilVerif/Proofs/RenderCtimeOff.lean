/-
  Proofs/RenderCtimeOff.lean — `Www Mmm dd HH:MM:SS YYYY <offset>` (ctime followed by an offset after a space; year ≥ 100), through
  the schema: the scan over the ctime tokens with an arbitrary `Suf2` suffix behind the year, `suffix_run`, `finish_tz`.
-/
import DateutilVerif.Proofs.RenderMonFinal
import DateutilVerif.Proofs.RenderSchema
import DateutilVerif.Proofs.RenderPrep

namespace PM
open Py PT

def ctimeYmd (y m d : Nat) : Ymd :=
  { vals := [m, d, y], century := decide (100 < y), mIdx := some 0, yIdx := if 100 < y then some 2 else none }
def ctimeRes (w h mi s : Nat) : Res :=
  { weekday := some w, hour := some h, minute := some mi, second := some s, microsecond := some 0 }

/-- day < 10: `Www Mmm  d HH:MM:SS YYYY` (two spaces) -/
def ctimeToks1 (W Mo : Token) (y d h mi s : Nat) : List Token :=
  [W, [' '], Mo, [' '], [' '], dtok [d], [' '], dtok [h / 10, h], [':'], dtok [mi / 10, mi], [':'], dtok [s / 10, s], [' '], y4 y]
/-- day ≥ 10 -/
def ctimeToks2 (W Mo : Token) (y d h mi s : Nat) : List Token :=
  [W, [' '], Mo, [' '], dtok [d / 10, d], [' '], dtok [h / 10, h], [':'], dtok [mi / 10, mi], [':'], dtok [s / 10, s], [' '], y4 y]

set_option maxHeartbeats 8000000 in
theorem run_ctime1 (cls : Char → CClass) [AsciiOK cls] (yf : Bool) (year century : Int) (W Mo : Token) (w y m d h mi s us : Nat)
    (hW : WdWord cls (Info.default false yf year century) W w) (hMo : MonWord cls (Info.default false yf year century) Mo m)
    (hv : (DT.mk y m d h mi s us).Valid) (hy : 100 ≤ y) (hd10 : d < 10) (suf : List Token) (hs : Suf2 (Info.default false yf year century) suf) :
    parseLoop cls (Info.default false yf year century) false (suf.length + 14) (suf.length + 14) 0 0
      { l := ctimeToks1 W Mo y d h mi s ++ suf } =
    parseLoop cls (Info.default false yf year century) false (suf.length + 14) suf.length 14 1
      { l := ctimeToks1 W Mo y d h mi s ++ suf, ymd := ctimeYmd y m d, skipped := [1, 3, 4, 12], res := ctimeRes w h mi s } := by
  obtain ⟨⟨hy1, hy2, hm1, hm2, hd1, hd2⟩, hh1, hh2, hmi1, hmi2, hs1, hs2, hu1, hu2⟩ := hv
  dsimp only at *
  have hdim := (Cal.daysInMonth_bounds (y : Int) (m : Int)).2
  mon_prep
  obtain ⟨mf, mw, mm, mh, ma, mj, mdg⟩ := hMo
  obtain ⟨wf, ww⟩ := hW
  by_cases hgt : 100 < y
  all_goals generalize suf.length = k
  all_goals (rcases hs with rfl | ⟨b, rest, rfl, b1, b2, b3⟩ <;> psimpa [ctimeToks1, y4, ctimeYmd, ctimeRes])

set_option maxHeartbeats 8000000 in
theorem run_ctime2 (cls : Char → CClass) [AsciiOK cls] (yf : Bool) (year century : Int) (W Mo : Token) (w y m d h mi s us : Nat)
    (hW : WdWord cls (Info.default false yf year century) W w) (hMo : MonWord cls (Info.default false yf year century) Mo m)
    (hv : (DT.mk y m d h mi s us).Valid) (hy : 100 ≤ y) (hd10 : ¬ d < 10) (suf : List Token) (hs : Suf2 (Info.default false yf year century) suf) :
    parseLoop cls (Info.default false yf year century) false (suf.length + 13) (suf.length + 13) 0 0
      { l := ctimeToks2 W Mo y d h mi s ++ suf } =
    parseLoop cls (Info.default false yf year century) false (suf.length + 13) suf.length 13 1
      { l := ctimeToks2 W Mo y d h mi s ++ suf, ymd := ctimeYmd y m d, skipped := [1, 3, 11], res := ctimeRes w h mi s } := by
  obtain ⟨⟨hy1, hy2, hm1, hm2, hd1, hd2⟩, hh1, hh2, hmi1, hmi2, hs1, hs2, hu1, hu2⟩ := hv
  dsimp only at *
  have hdim := (Cal.daysInMonth_bounds (y : Int) (m : Int)).2
  mon_prep
  obtain ⟨mf, mw, mm, mh, ma, mj, mdg⟩ := hMo
  obtain ⟨wf, ww⟩ := hW
  by_cases hgt : 100 < y
  all_goals generalize suf.length = k
  all_goals (rcases hs with rfl | ⟨b, rest, rfl, b1, b2, b3⟩ <;> psimpa [ctimeToks2, y4, ctimeYmd, ctimeRes])

set_option maxHeartbeats 4000000 in
theorem fin_ctime (yf : Bool) (year century : Int) (o : Opts) (tznames : List Token) (tzi : TzInfos) (ho : PlainOpts o tzi) (dflt : DT)
    (w y m d h mi s : Nat) (hv : (DT.mk y m d h mi s 0).Valid) (hy : 100 ≤ y) :
    finishOf (Info.default false yf year century) o tznames tzi dflt (ctimeYmd y m d) (ctimeRes w h mi s) =
      .ok { dt := DT.mk y m d h mi s 0, tz := .naive, tokens := none } := by
  obtain ⟨⟨hy1, hy2, hm1, hm2, hd1, hd2⟩, hh1, hh2, hmi1, hmi2, hs1, hs2, hu1, hu2⟩ := hv
  dsimp only at *
  have hdim := (Cal.daysInMonth_bounds (y : Int) (m : Int)).2
  obtain ⟨hfz, hfwt, hdf, htz1, htz2⟩ := ho
  have us : Nat := 0
  have hvalid : (DT.mk (y : Int) m d h mi s 0).valid = true := by
    unfold DT.valid
    exact decide_eq_true ⟨⟨hy1, hy2, hm1, hm2, hd1, hd2⟩, hh1, hh2, hmi1, hmi2, hs1, hs2, by simp, by simp⟩
  have by' : y < 10000 := by omega
  have n1 : ¬ (2147483647 : Int) < y := by omega
  have n2 : ¬ (2147483647 : Int) < m := by omega
  have n3 : ¬ (2147483647 : Int) < d := by omega
  have n4 : ¬ (2147483647 : Int) < h := by omega
  have n5 : ¬ (2147483647 : Int) < mi := by omega
  have n6 : ¬ (2147483647 : Int) < s := by omega
  have d31 : ¬ 31 < d := by omega
  have d0 : ¬ d = 0 := by omega
  have y31 : ¬ y ≤ 31 := by omega
  have hyI : (100 : Int) ≤ (y : Int) := by omega
  by_cases hgt : 100 < y
  all_goals psimpa [finishOf, afterValidate, ctimeYmd, ctimeRes]

/-- the offset suffix when the space in front of it has already been consumed by the number before it (`skip = 1`): the year of
    ctime is followed by a jump token, which `_parse_numeric_token` swallows without listing it as skipped -/
theorem suffix_run_skip (cls : Char → CClass) [AsciiOK cls] (df yf : Bool) (year century : Int) (pre : List Token) (r : Res) (y : Ymd)
    (sk : List Nat) (off : Off) (hoff : off.Dom) (hsp : off.Spaced) (hnn : off ≠ .naive) (lenL i : Nat) (hi : i = pre.length)
    (hl : lenL = pre.length + (offTokens off).length) (hh : r.hour.isSome = true) (htn : r.tzname = none) (hto : r.tzoffset = none) :
    parseLoop cls (Info.default df yf year century) false lenL (offTokens off).length i 1
        { l := pre ++ offTokens off, res := r, ymd := y, skipped := sk } =
      .ok { l := pre ++ offTokens off, res := { r with tzname := offName off, tzoffset := offSecs off }, ymd := y, skipped := sk } := by
  subst hi
  obtain ⟨hr, rest⟩ : ∃ hr, r.hour = some hr := by cases h : r.hour <;> simp_all
  rcases off with _ | sp | _ | ⟨sp, neg, oh⟩ | ⟨sp, neg, oh, om⟩ | ⟨sp, neg, oh, om⟩
  · exact absurd rfl hnn
  all_goals (try (simp only [Off.Spaced] at hsp; subst hsp))
  all_goals (try cases neg)
  all_goals (try simp only [Off.Dom] at hoff)
  all_goals (try (have boh : oh < 100 := by omega))
  all_goals (try (have bom : om < 100 := by omega))
  all_goals simp only [offTokens, spT, sgn, List.nil_append, List.cons_append, Bool.false_eq_true, if_false, if_true,
    List.length_cons, List.length_nil] at hl ⊢
  all_goals subst hl
  all_goals
    psimpa [add_lit, getElem?_pre, getElem?_pre0, getElem_pre, offName, offSecs, offLeadSpace, Off.seconds]

/-- the schema at token level when the core's last number has swallowed the space in front of the offset -/
theorem tok_theorem_skip (cls : Char → CClass) [AsciiOK cls] (df yf : Bool) (year century : Int) (o : Opts) (tznames : List Token)
    (tzi : TzInfos) (ho : StrictOpts o tzi) (dflt : DT) (core : List Token) (n : Nat) (hn : core.length = n)
    (rC : Res) (yC : Ymd) (skC : List Nat) (dt : DT) (off : Off) (hoff : off.Dom) (hsp : off.Spaced) (hnn : off ≠ .naive)
    (hcore : parseLoop cls (Info.default df yf year century) false ((offTokens off).length + n) ((offTokens off).length + n) 0 0
        { l := core ++ offTokens off } =
      parseLoop cls (Info.default df yf year century) false ((offTokens off).length + n) (offTokens off).length n 1
        { l := core ++ offTokens off, res := rC, ymd := yC, skipped := skC })
    (htn : rC.tzname = none) (hto : rC.tzoffset = none) (hhour : rC.hour.isSome = true)
    (hfin : finishOf (Info.default df yf year century) o tznames tzi dflt yC rC = .ok { dt := dt, tz := .naive, tokens := none }) :
    parseResult cls (Info.default df yf year century) o tznames tzi dflt (core ++ offTokens off) =
      .ok { dt := dt, tz := offZone o tznames off, tokens := none } := by
  obtain ⟨hfz, hfwt, htz1, htz2⟩ := ho
  have hlen : (core ++ offTokens off).length = (offTokens off).length + n := by simp [hn]; omega
  have hloop : parseLoop cls (Info.default df yf year century) false (core ++ offTokens off).length
      (core ++ offTokens off).length 0 0 { l := core ++ offTokens off } =
      .ok { l := core ++ offTokens off, res := { rC with tzname := offName off, tzoffset := offSecs off }, ymd := yC, skipped := skC } := by
    rw [hlen, hcore]
    exact suffix_run_skip cls df yf year century core rC yC skC off hoff hsp hnn _ n hn.symm (by rw [hn]; omega) hhour htn hto
  rw [parseResult_of_loop cls _ o tznames tzi dflt _ _ hfz hfwt hloop]
  exact finish_tz df yf year century o tznames tzi dflt yC rC dt off hoff htz1 htz2 htn hto hhour hfin

variable (cls : Char → CClass) [AsciiOK cls]

/-- **ctime followed by an offset**: `Www Mmm dd HH:MM:SS YYYY`, then nothing or any offset spelling after a space (year ≥ 100) -/
theorem parse_ctimeOff (yf : Bool) (year century : Int) (o : Opts) (tznames : List Token) (tzi : TzInfos)
    (ho : PlainOpts o tzi) (dflt : DT) (hdv : dflt.Valid) (t : DT) (ht : t.Valid) (w : Nat) (hw : w < 7) (hy : 100 ≤ t.y)
    (off : Off) (hoff : off.Dom) (hsp : off.Spaced) :
    parse cls (Info.default false yf year century) o tznames tzi dflt (renderCtimeOff w t off) =
      .ok { dt := { t with us := 0 }, tz := if o.ignoretz then .naive else offDescr tznames off, tokens := none } := by
  by_cases hnn : off = .naive
  · subst hnn
    have := parse_mon cls yf year century o tznames tzi ho dflt hdv t ht (.ctime w) ⟨hw, hy⟩ .naive trivial
    simpa [renderCtimeOff, Off.render, MonFmt.expect, offDescr, Off.seconds] using this
  obtain ⟨⟨hy1, hy2, hm1, hm2, hd1, hd2⟩, hh1, hh2, hmi1, hmi2, hs1, hs2, hu1, hu2⟩ := ht
  have hdim := (Cal.daysInMonth_bounds t.y t.m).2
  have ey : ((t.y.toNat : Nat) : Int) = t.y := Int.toNat_of_nonneg (by omega)
  have em : ((t.m.toNat : Nat) : Int) = t.m := Int.toNat_of_nonneg (by omega)
  have ed : ((t.d.toNat : Nat) : Int) = t.d := Int.toNat_of_nonneg (by omega)
  have eh : ((t.hh.toNat : Nat) : Int) = t.hh := Int.toNat_of_nonneg (by omega)
  have emi : ((t.mm.toNat : Nat) : Int) = t.mm := Int.toNat_of_nonneg (by omega)
  have es : ((t.ss.toNat : Nat) : Int) = t.ss := Int.toNat_of_nonneg (by omega)
  have hm1' : 1 ≤ t.m.toNat := by omega
  have hm2' : t.m.toNat ≤ 12 := by omega
  obtain ⟨hMoA, hAlA⟩ := monWord_abbr cls yf year century t.m.toNat hm1' hm2'
  obtain ⟨hWd, hAlW⟩ := wdWord_abbr cls yf year century w hw
  have hvTime : (DT.mk (t.y.toNat : Nat) (t.m.toNat : Nat) (t.d.toNat : Nat) (t.hh.toNat : Nat) (t.mm.toNat : Nat)
      (t.ss.toNat : Nat) ((0 : Nat) : Int)).Valid := by
    rw [ey, em, ed, eh, emi, es]
    exact ⟨⟨hy1, hy2, hm1, hm2, hd1, hd2⟩, hh1, hh2, hmi1, hmi2, hs1, hs2, by simp, by simp⟩
  have hs : StrictOpts o tzi := ⟨ho.fz, ho.fwt, ho.tz1, ho.tz2⟩
  have hy' : 100 ≤ t.y.toNat := by omega
  have hfin := fin_ctime yf year century o tznames tzi ho dflt w t.y.toNat t.m.toNat t.d.toNat t.hh.toNat t.mm.toNat t.ss.toNat hvTime hy'
  have hrest : scan cls .init (' ' :: (pad2 t.hh.toNat ++ (':' :: (pad2 t.mm.toNat ++ (':' :: (pad2 t.ss.toNat ++ (' ' :: (pad4 t.y.toNat ++ off.render)))))))) =
      [[' '], dtok [t.hh.toNat / 10, t.hh.toNat], [':'], dtok [t.mm.toNat / 10, t.mm.toNat], [':'],
       dtok [t.ss.toNat / 10, t.ss.toNat], [' '], y4 t.y.toNat] ++ offTokens off := by
    rw [lex_sp, lex_pad2 cls _ _ (numEnds_ascii cls _ _ (by decide)), lex_punct cls ':' _ (by decide),
        lex_pad2 cls _ _ (numEnds_ascii cls _ _ (by decide)), lex_punct cls ':' _ (by decide),
        lex_pad2 cls _ _ (numEnds_sp cls _), lex_sp, lex_pad4 cls _ _ (numEnds_off cls off), lex_off]
    rfl
  unfold parse lex
  by_cases hd10 : t.d.toNat < 10
  · have hlex : scan cls .init (renderCtimeOff w t off) =
        ctimeToks1 (wdAbbr w) (monAbbr t.m.toNat) t.y.toNat t.d.toNat t.hh.toNat t.mm.toNat t.ss.toNat ++ offTokens off := by
      simp only [renderCtimeOff, renderMon, hmsColon, List.append_assoc, List.singleton_append, List.cons_append, List.nil_append, sp2,
        hd10, if_true]
      rw [lex_alpha cls _ _ hAlW (wordEnds_sp cls _), lex_sp, lex_alpha cls _ _ hAlA (wordEnds_sp cls _), lex_sp,
          lex_sp, lex_digit1 cls t.d.toNat _ (numEnds_sp cls _), hrest]
      simp [ctimeToks1]
    rw [hlex]
    have := tok_theorem_skip cls false yf year century o tznames tzi hs dflt
      (ctimeToks1 (wdAbbr w) (monAbbr t.m.toNat) t.y.toNat t.d.toNat t.hh.toNat t.mm.toNat t.ss.toNat) 14 rfl
      (ctimeRes w t.hh.toNat t.mm.toNat t.ss.toNat) (ctimeYmd t.y.toNat t.m.toNat t.d.toNat) [1, 3, 4, 12]
      (DT.mk t.y.toNat t.m.toNat t.d.toNat t.hh.toNat t.mm.toNat t.ss.toNat 0) off hoff hsp hnn
      (run_ctime1 cls yf year century _ _ w _ _ _ _ _ _ 0 hWd hMoA hvTime hy' hd10 (offTokens off) (suf2_off false yf year century off hsp))
      rfl rfl rfl hfin
    rw [ey, em, ed, eh, emi, es] at this
    simpa [offZone] using this
  · have hlex : scan cls .init (renderCtimeOff w t off) =
        ctimeToks2 (wdAbbr w) (monAbbr t.m.toNat) t.y.toNat t.d.toNat t.hh.toNat t.mm.toNat t.ss.toNat ++ offTokens off := by
      simp only [renderCtimeOff, renderMon, hmsColon, List.append_assoc, List.singleton_append, List.cons_append, List.nil_append, sp2,
        hd10, if_false]
      rw [lex_alpha cls _ _ hAlW (wordEnds_sp cls _), lex_sp, lex_alpha cls _ _ hAlA (wordEnds_sp cls _), lex_sp,
          lex_pad2 cls _ _ (numEnds_sp cls _), hrest]
      simp [ctimeToks2]
    rw [hlex]
    have := tok_theorem_skip cls false yf year century o tznames tzi hs dflt
      (ctimeToks2 (wdAbbr w) (monAbbr t.m.toNat) t.y.toNat t.d.toNat t.hh.toNat t.mm.toNat t.ss.toNat) 13 rfl
      (ctimeRes w t.hh.toNat t.mm.toNat t.ss.toNat) (ctimeYmd t.y.toNat t.m.toNat t.d.toNat) [1, 3, 11]
      (DT.mk t.y.toNat t.m.toNat t.d.toNat t.hh.toNat t.mm.toNat t.ss.toNat 0) off hoff hsp hnn
      (run_ctime2 cls yf year century _ _ w _ _ _ _ _ _ 0 hWd hMoA hvTime hy' hd10 (offTokens off) (suf2_off false yf year century off hsp))
      rfl rfl rfl hfin
    rw [ey, em, ed, eh, emi, es] at this
    simpa [offZone] using this

end PM
