/-
  Proofs/FactoryStep.lean — one thread step: guarantee to the others, own invariant, global invariant.
-/
import DateutilVerif.Proofs.FactoryInv

namespace Fact

variable {kd : Kind} {res : Key → Res} {t : Tid} {g g' : Glob} {th th' : Thread}

theorem tstep_guar (hT : TI kd res t g th) (h : tstep kd res t g th = some (g', th')) : Guar kd t g g' := by
  obtain ⟨hl, hk, _, _, _, hp⟩ := hT
  cases hpc : th.pc <;> simp only [hpc, inLocked, kindOK, pcInv] at hl hk hp <;>
    simp only [tstep, hpc] at h
  case lSdWrite =>
    obtain ⟨hwn, _, ⟨i, hi, _⟩, hsn⟩ := hp
    simp only [hi, hsn, Option.some.injEq, Prod.mk.injEq] at h
    obtain ⟨rfl, rfl⟩ := h
    have hL : g.lock = some t := by simpa using hl
    refine ⟨fun k => ?_, fun hn => absurd hL hn, fun _ => .inl hL, Nat.le_refl _, fun _ h => h, fun h => h⟩
    by_cases hkk : k = th.key
    · subst hkk; exact .inr (.inl ⟨hwn, hL⟩)
    · exact .inl (by simp [upd, hkk])
  all_goals (try (split at h)) <;> (try (split at h)) <;> (try (split at h)) <;>
    (try simp only [Option.some.injEq, Prod.mk.injEq, reduceCtorEq] at h) <;>
    (try (obtain ⟨rfl, rfl⟩ := h)) <;>
    (try (exact ⟨fun _ => .inl rfl, fun _ => ⟨rfl, rfl, rfl, .inl rfl⟩, fun _ => by simp_all, Nat.le_refl _, fun _ h => h, fun h => h⟩))
  all_goals
    (constructor <;> (try intro k) <;> (try simp_all [upd]) <;> (try (split <;> simp_all)) <;> (try omega))
  all_goals (by_cases hkk : k = th.key <;> simp_all)


theorem tstep_ti (hG : GI kd g) (hT : TI kd res t g th) (h : tstep kd res t g th = some (g', th')) :
    TI kd res t g' th' := by
  obtain ⟨hl, hk, hil, htl, hsl, hp⟩ := hT
  have hwl := hG.weakLt
  have hlf := hG.lenFree
  cases hpc : th.pc <;> simp only [hpc, inLocked, kindOK, pcInv] at hl hk hp <;>
    simp only [tstep, hpc] at h
  case lSdWrite =>
    obtain ⟨hwn, hlen, ⟨i, hi, _⟩, hsn⟩ := hp
    simp only [hi, hsn, Option.some.injEq, Prod.mk.injEq] at h
    obtain ⟨rfl, rfl⟩ := h
    refine ⟨by simpa [inLocked] using hl, by simp [kindOK, hk], ?_, by simp, by simp, ?_⟩
    · intro j hj; simp only [Option.some.injEq] at hj; subst hj; exact htl _ hi
    · simp only [pcInv]; exact ⟨⟨i, rfl, by simp [upd]⟩, hlen⟩
  case gAlloc =>
    have hshared : ∀ sl i, g.shared.lookup sl = some i → i ∈ g.inited ∧ i < g.next := fun sl i h =>
      ⟨hG.sharedInited _ (lookup_mem h), hG.initedLt _ (hG.sharedInited _ (lookup_mem h))⟩
    all_goals (try (split at h)) <;> (try (split at h)) <;> (try (split at h)) <;>
      (try simp only [Option.some.injEq, Prod.mk.injEq, reduceCtorEq] at h) <;>
      (try (obtain ⟨rfl, rfl⟩ := h))
    all_goals
      (constructor <;> (try simp only [inLocked, kindOK, pcInv]) <;> (try intro k) <;> (try simp_all [upd]) <;>
        (try (split <;> simp_all)) <;> (try omega))
    all_goals first
      | exact hwl _ _
      | (intro hh; have := hil _ hh; omega)
      | (rintro rfl; omega)
      | (intro hh; simp_all; omega)
      | grind
  case gCheck =>
    have hslot : ∀ r : Res, r.slot?.isSome = true → r ≠ .none := by intro r; cases r <;> simp [Res.slot?]
    all_goals (try (split at h)) <;> (try (split at h)) <;> (try (split at h)) <;>
      (try simp only [Option.some.injEq, Prod.mk.injEq, reduceCtorEq] at h) <;>
      (try (obtain ⟨rfl, rfl⟩ := h))
    all_goals
      (constructor <;> (try simp only [inLocked, kindOK, pcInv]) <;> (try intro k) <;> (try simp_all [upd]) <;>
        (try (split <;> simp_all)) <;> (try omega))
    all_goals first
      | exact hwl _ _
      | (intro hh; have := hil _ hh; omega)
      | (rintro rfl; omega)
      | (intro hh; simp_all; omega)
      | grind
  case fAlloc =>
    have hshb : ∀ i, ((res th.key).slot?.bind fun sl => List.lookup sl g.shared) = some i → i < g.next := by
      intro i h
      cases hs : (res th.key).slot? with
      | none => simp [hs] at h
      | some sl =>
        simp only [hs, Option.bind_some] at h
        exact hG.initedLt _ (hG.sharedInited _ (lookup_mem h))
    all_goals (try (split at h)) <;> (try (split at h)) <;> (try (split at h)) <;>
      (try simp only [Option.some.injEq, Prod.mk.injEq, reduceCtorEq] at h) <;>
      (try (obtain ⟨rfl, rfl⟩ := h))
    all_goals
      (constructor <;> (try simp only [inLocked, kindOK, pcInv]) <;> (try intro k) <;> (try simp_all [upd]) <;>
        (try (split <;> simp_all)) <;> (try omega))
    all_goals first
      | exact hwl _ _
      | (intro hh; have := hil _ hh; omega)
      | (rintro rfl; omega)
      | (intro hh; simp_all; omega)
      | grind
  all_goals (try (split at h)) <;> (try (split at h)) <;> (try (split at h)) <;>
    (try simp only [Option.some.injEq, Prod.mk.injEq, reduceCtorEq] at h) <;>
    (try (obtain ⟨rfl, rfl⟩ := h))
  all_goals
    (constructor <;> (try simp only [inLocked, kindOK, pcInv]) <;> (try intro k) <;> (try simp_all [upd]) <;>
      (try (split <;> simp_all)) <;> (try omega))
  all_goals first
    | exact hwl _ _
    | (have := touch_length_le g.strong th.key ‹Id›; omega)
    | (cases hi : th.inst <;> simp_all; done)
    | (intro hh; have := hil _ hh; omega)
    | (rintro rfl; omega)
    | (intro hh; simp_all; omega)
    | grind


theorem tstep_gi (hG : GI kd g) (hT : TI kd res t g th) (h : tstep kd res t g th = some (g', th')) :
    GI kd g' := by
  obtain ⟨hl, hk, hil, htl, hsl, hp⟩ := hT
  obtain ⟨g1, g2, g3, g4, g5, g6, g7, g8, g9, g10⟩ := hG
  cases hpc : th.pc <;> simp only [hpc, inLocked, kindOK, pcInv] at hl hk hp <;>
    simp only [tstep, hpc] at h
  all_goals (try (split at h)) <;> (try (split at h)) <;> (try (split at h)) <;>
    (try simp only [Option.some.injEq, Prod.mk.injEq, reduceCtorEq] at h) <;>
    (try (obtain ⟨rfl, rfl⟩ := h)) <;>
    (try (exact ⟨g1, g2, g3, g4, g5, g6, g7, g8, g9, g10⟩))
  all_goals
    constructor <;> (try simp only []) <;> first
    | assumption
    | (intro k i hh; exact Nat.lt_succ_of_lt (g6 k i hh))
    | (intro e hh; exact Nat.lt_succ_of_lt (g7 e hh))
    | (intro r hh; exact Nat.lt_succ_of_lt (g8 r hh))
    | (intro i hh; exact Nat.lt_succ_of_lt (g9 i hh))
    | (intro i hh; exact Nat.lt_succ_of_lt (g10 i hh))
    | (intro k i hh; exact List.mem_cons_of_mem _ (g4 k i hh))
    | (intro hh; cases hh; done)
    | (intro e hh; exact touch_snd_lt g7 (hil _ (by assumption)) e hh)
    | (simp only [upd]; grind)
    | grind


/-- transfer of a thread's invariant to a changed global state -/
theorem ti_transfer {t' : Tid} {th2 : Thread} (hT : TI kd res t' g th2)
    (hlock : g'.lock = some t' ↔ g.lock = some t')
    (hkeep : g.lock = some t' → g'.strong = g.strong ∧ g'.cap = g.cap)
    (hsome : ∀ i, th2.inst = some i → g.weak th2.key = some i → g.lock = some t' →
              g'.weak th2.key = some i)
    (hnone : g.weak th2.key = none → g.lock = some t' → g'.weak th2.key = none)
    (gx : g.next ≤ g'.next) (gi : ∀ i ∈ g.inited, i ∈ g'.inited) (gs : g.single ≠ none → g'.single ≠ none) :
    TI kd res t' g' th2 := by
  obtain ⟨hl, hk, hil, htl, hsl, hp⟩ := hT
  refine ⟨by rw [hlock]; exact hl, hk, fun i h => Nat.lt_of_lt_of_le (hil i h) gx,
          fun i h => Nat.lt_of_lt_of_le (htl i h) gx, fun i h => Nat.lt_of_lt_of_le (hsl i h) gx, ?_⟩
  cases hpc : th2.pc <;> simp only [hpc, inLocked, kindOK, pcInv] at hl hk hp ⊢ <;> (try trivial)
  all_goals first
    | (have hL : g.lock = some t' := by simpa using hl
       obtain ⟨e1, e2⟩ := hkeep hL
       rw [e1, e2]
       grind)
    | grind

/-- steps of another thread preserve a thread's invariant -/
theorem ti_stable {t' : Tid} {th2 : Thread} (hT : TI kd res t' g th2) (hne : t ≠ t') (hGu : Guar kd t g g') :
    TI kd res t' g' th2 := by
  obtain ⟨gw, gn, gh, gx, gi, gs⟩ := hGu
  have hne' : ¬ (t' = t) := fun h => hne h.symm
  refine ti_transfer hT ?_ ?_ ?_ ?_ gx gi gs
  · by_cases h : g.lock = some t
    · rcases gh h with h' | h' <;> simp [h, h', hne, hne']
    · obtain ⟨_, _, _, h' | ⟨h1, h2⟩⟩ := gn h
      · rw [h']
      · simp [h1, h2, hne]
  · intro h
    have : g.lock ≠ some t := by simp [h, hne']
    exact ⟨(gn this).1, (gn this).2.1⟩
  · intro i _ hki hc
    rcases gw th2.key with h | ⟨h, _⟩ | ⟨h1, h2⟩
    · rw [h, hki]
    · rw [hki] at h; cases h
    · rw [hc] at h2; simp at h2; exact absurd h2 hne'
  · intro hkn hc2
    rcases gw th2.key with h | ⟨_, h⟩ | ⟨_, h2⟩
    · rw [h, hkn]
    · rw [hc2] at h; simp at h; exact absurd h hne'
    · rw [hc2] at h2; simp at h2; exact absurd h2 hne'


/-- own step: the strong cache stays consistent with the weak map inside the critical section and
when the lock is released -/
theorem tstep_sw (hF : g.lock = none → SW g) (hS : TS g th) (hT : TI kd res t g th)
    (h : tstep kd res t g th = some (g', th')) : TS g' th' ∧ (g'.lock = none → SW g') := by
  obtain ⟨hl, hk, _, _, _, hp⟩ := hT
  unfold TS at hS ⊢
  cases hpc : th.pc <;> simp only [hpc, inLocked, kindOK, pcInv] at hl hk hp hS <;>
    simp only [tstep, hpc] at h
  case lSdWrite =>
    obtain ⟨hwn, _, ⟨i, hi, _⟩, hsn⟩ := hp
    simp only [hi, hsn, Option.some.injEq, Prod.mk.injEq] at h
    obtain ⟨rfl, rfl⟩ := h
    have hL : g.lock = some t := by simpa using hl
    have hsw : SW g := hS trivial (by simp)
    exact ⟨fun _ _ => sw_upd hsw hwn, fun hn => by simp [hL] at hn⟩
  case gStore =>
    obtain ⟨hwn, _, i, hi, _⟩ := hp
    simp only [hi, Option.some.injEq, Prod.mk.injEq] at h
    obtain ⟨rfl, rfl⟩ := h
    have hL : g.lock = some t := by simpa using hl
    have hsw : SW g := hS trivial (by simp)
    exact ⟨fun _ _ => sw_upd hsw hwn, fun hn => by simp [hL] at hn⟩
  case cStrong =>
    simp only [Option.some.injEq, Prod.mk.injEq] at h
    obtain ⟨rfl, rfl⟩ := h
    exact ⟨fun _ _ e he => by simp at he, fun _ e he => by simp at he⟩
  case xTouch =>
    obtain ⟨⟨i, hi, hw⟩, _⟩ := hp
    simp only [hi, Option.some.injEq, Prod.mk.injEq] at h
    obtain ⟨rfl, rfl⟩ := h
    have hL : g.lock = some t := by simpa using hl
    have hsw : SW g := hS trivial (by simp)
    exact ⟨fun _ _ => sw_touch hsw hw, fun hn => by simp [hL] at hn⟩
  all_goals (try (split at h)) <;> (try (split at h)) <;> (try (split at h)) <;>
    (try simp only [Option.some.injEq, Prod.mk.injEq, reduceCtorEq] at h) <;>
    (try (obtain ⟨rfl, rfl⟩ := h))
  all_goals first
    | (refine ⟨fun h1 _ => ?_, fun hn => ?_⟩ <;> first
        | (simp [inLocked] at h1; done)
        | exact hF ‹_›
        | exact hF (by simpa using ‹_›)
        | exact hS trivial (by simp)
        | (intro e he; exact hS trivial (by simp) e (by simp_all))
        | (simp [SW]; done)
        | (simp_all; done)
        | (simp_all; done))


/-- steps of another thread keep the strong cache consistent for the lock holder -/
theorem ts_stable {t' : Tid} {th2 : Thread} (hS : TS g th2) (hT : TI kd res t' g th2) (hne : t ≠ t')
    (hGu : Guar kd t g g') : TS g' th2 := by
  intro hin hnc
  have hL : g.lock = some t' := hT.lockIff.mp hin
  have hnl : g.lock ≠ some t := by rw [hL]; intro h; cases h; exact hne rfl
  have hs := (hGu.noLock hnl).1
  have hw : ∀ k, g'.weak k = g.weak k := by
    intro k
    rcases hGu.weak k with h | ⟨_, h⟩ | ⟨_, h⟩
    · exact h
    · exact absurd h hnl
    · exact absurd h hnl
  intro e he
  rw [hs] at he
  rw [hw]
  exact hS hin hnc e he

/-- … and, while the lock is free, for everybody -/
theorem sw_free_stable (hF : g.lock = none → SW g) (hT : TI kd res t g th)
    (hown : g'.lock = none → g.lock = some t → SW g') (hGu : Guar kd t g g') : g'.lock = none → SW g' := by
  intro hn
  by_cases hL : g.lock = some t
  · exact hown hn hL
  · obtain ⟨hs, _, _, hlk⟩ := hGu.noLock hL
    have hg : g.lock = none := by
      rcases hlk with h | ⟨h, _⟩
      · rw [← h]; exact hn
      · exact h
    have hw : ∀ k, g'.weak k = g.weak k := by
      intro k
      rcases hGu.weak k with h | ⟨_, h⟩ | ⟨_, h⟩
      · exact h
      · exact absurd h hL
      · exact absurd h hL
    intro e he
    rw [hs] at he
    rw [hw]
    exact hF hg e he

end Fact
