/-
  Proofs/RRuleMonthlyW.lean — MONTHLY with BYWEEKNO on the complement of D-C01c (plain BYDAY / BYMONTHDAY allowed):
  the argument-side lemmas are those of Proofs/RRuleWeeknoYearly.lean at FREQ = MONTHLY, the refinement is the
  MONTHLY branch of Proofs/RRuleYM.lean with the week-number mask.
-/
import DateutilVerif.Proofs.RRuleWeeknoYearly
import DateutilVerif.Proofs.RRuleYM

namespace RRule
open Cal

variable {r : Rule}

/-- MONTHLY argument sets with BYWEEKNO on the complement of D-C01c -/
structure WeeknoMArgs (a : Args) : Prop where
  freq : a.freq = 1
  interval : 1 ≤ a.interval
  valid : a.dtstart.Valid
  wkst : 0 ≤ a.wkst.getD 0 ∧ a.wkst.getD 0 ≤ 6
  monthday_nz : ∀ x ∈ a.bymonthday.getD [], x ≠ 0
  byeaster : a.byeaster = none
  plain : ∀ w ∈ a.byweekday.getD [], w.2 = 0
  weekno : ∃ wl, a.byweekno = some wl ∧ wl ≠ [] ∧ WnoOk wl

variable {a : Args}


theorem wm_noDay (wa : WeeknoMArgs a) : noDayParts a = false := by
  obtain ⟨wl, hwl, _, _⟩ := wa.weekno
  unfold noDayParts; simp [hwl]

theorem wm_weeknos (wa : WeeknoMArgs a) :
    (∀ o, o ∈ weeknosOf a ↔ o ∈ a.byweekno.getD []) ∧ WnoOk (weeknosOf a) ∧ truthy (some (weeknosOf a)) = true := by
  obtain ⟨wl, hwl, hne, hok⟩ := wa.weekno
  have hmem : ∀ o, o ∈ weeknosOf a ↔ o ∈ wl := by
    intro o; unfold weeknosOf; rw [hwl, Option.getD_some, mem_sortedSet]
  refine ⟨by rw [hwl]; exact hmem, ⟨?_, ?_⟩, ?_⟩
  · intro h; simp only [hmem] at h ⊢; exact hok.last h
  · intro h; simp only [hmem] at h ⊢; exact hok.first h
  · rw [truthy_eq_not_isEmpty]; unfold weeknosOf
    rw [hwl, Option.getD_some, isEmpty_sortedSet]
    cases wl with
    | nil => exact absurd rfl hne
    | cons _ _ => rfl


theorem wm_strip (wa : WeeknoMArgs a) : YMArgs (stripW a) :=
  { freq := Or.inr wa.freq, interval := wa.interval, valid := wa.valid, byweekno := rfl, byeaster := rfl,
    monthday_nz := by intro x hx; simp [stripW] at hx, plain := wa.plain }

theorem wm_weekdayArg (wa : WeeknoMArgs a) : weekdayArg a = a.byweekday := by
  unfold weekdayArg; simp [wa.freq]

theorem byweekdayOf_stripM (wa : WeeknoMArgs a) : byweekdayOf (stripW a) = byweekdayOf a := by
  unfold byweekdayOf
  rw [wm_weekdayArg wa, ym_weekdayArg (wm_strip wa)]
  rfl

theorem wm_nwd (wa : WeeknoMArgs a) : truthy (bynweekdayOf a) = false := by
  unfold bynweekdayOf
  rw [wm_weekdayArg wa]
  cases hl : a.byweekday with
  | none => rfl
  | some l =>
    dsimp only
    have hnth : nthWeekdays a l = [] := by
      unfold nthWeekdays
      have : l.filter (fun w => !(w.2 == 0 || decide (a.freq > 1))) = [] := by
        apply List.filter_eq_nil_iff.mpr
        intro w hw
        have := wa.plain w (by rw [hl]; exact hw)
        simp [this]
      rw [this]; rfl
    rw [hnth]
    split
    · rfl
    · rfl

/-- the normalised rule, up to the three unit lists -/
abbrev weeknoMRuleOf (a : Args) (bh bm bs : Option (List Int)) : Rule :=
  { freq := a.freq, interval := a.interval, wkst := a.wkst.getD 0,
    dtstart := { a.dtstart with us := 0 }, tz := a.tz, count := a.count, untilDT := a.untilDT,
    bysetpos := a.bysetpos, bymonth := a.bymonth.map sortedSet, bymonthday := bymonthdayOf a,
    bynmonthday := bynmonthdayOf a, byyearday := a.byyearday.map sortedSet,
    byeaster := none, byweekno := some (weeknosOf a),
    byweekday := byweekdayOf a, bynweekday := bynweekdayOf a,
    byhour := bh, byminute := bm, bysecond := bs,
    timeset := some (Spec.RRule.timesOf a none none none) }

theorem wm_rule (wa : WeeknoMArgs a) (h : construct a = .ok r) : ∃ bh bm bs, r = weeknoMRuleOf a bh bm bs := by
  have hts := construct_timeset a r h (by rw [wa.freq]; omega)
  obtain ⟨sp, bh, bm, bs, ts, h1, h2, h3, h4, h5, rfl⟩ := construct_ok a r h
  dsimp only at hts
  subst hts
  have hsp := (normBysetpos_ok a sp h1).1
  subst hsp
  obtain ⟨wl, hwl, _, _⟩ := wa.weekno
  refine ⟨bh, bm, bs, ?_⟩
  have hbm : bymonthOf a = a.bymonth.map sortedSet := by unfold bymonthOf; simp [wm_noDay wa]
  have hws : a.byweekno.map sortedSet = some (weeknosOf a) := by unfold weeknosOf; rw [hwl]; rfl
  simp [weeknoMRuleOf, hbm, hws, wa.byeaster]

theorem wm_cuts (wa : WeeknoMArgs a) (h : construct a = .ok r) : CutsAgree a r := by
  obtain ⟨bh, bm, bs, hr⟩ := wm_rule wa h
  rw [hr]; exact ⟨rfl, rfl, rfl⟩

theorem wm_weeknoRule (wa : WeeknoMArgs a) (h : construct a = .ok r) : WeeknoRule r := by
  obtain ⟨bh, bm, bs, hr⟩ := wm_rule wa h
  rw [hr]; exact ⟨(wm_weeknos wa).2.2, wm_nwd wa, rfl⟩

/-- **bridge**: inside the year `y`, calendar predicate ∧ week clause is `dateOk` -/
theorem wm_bridge (wa : WeeknoMArgs a) (h : construct a = .ok r) (info : Info) (y j : Int)
    (hy : 1 ≤ y) (hj0 : 0 ≤ j) (hj1 : j < daysInYear y) (hyo : info.yearordinal = toOrdinal y 1 1) :
    (simpleOk r (info.yearordinal + j) && weekClause r.wkst (weeknosOf a) (info.yearordinal + j)) =
      Spec.RRule.dateOk a (info.yearordinal + j) := by
  obtain ⟨bh, bm, bs, hr⟩ := wm_rule wa h
  obtain ⟨wl, hwl, hne, _⟩ := wa.weekno
  have hfo := date_of_yday y j hy hj0 hj1
  rw [← hyo] at hfo
  have hpos : 1 ≤ info.yearordinal + j := by
    rw [hyo]
    have := toOrdinal_pos y 1 1 hy ⟨by omega, by omega, by omega, by have := daysInMonth_bounds y 1; omega⟩
    omega
  obtain ⟨_, hvd, _⟩ := toOrdinal_fromOrdinal (info.yearordinal + j) hpos
  rw [hfo] at hvd
  obtain ⟨_, _, hd1, hd2⟩ := hvd
  dsimp only at hd1 hd2
  rw [hr]
  unfold simpleOk Spec.RRule.dateOk
  rw [hfo]
  dsimp only
  have hnd : Spec.RRule.noDayParts a = noDayParts a := rfl
  have hmonths : Spec.RRule.months a = a.bymonth.getD [] := by
    unfold Spec.RRule.months; cases a.bymonth <;> simp [hnd, wm_noDay wa]
  have hmda : monthdayArg a = a.bymonthday := by unfold monthdayArg; simp [wm_noDay wa]
  have hmd : Spec.RRule.monthdays a = a.bymonthday.getD [] := by
    unfold Spec.RRule.monthdays; simp [hnd, wm_noDay wa]
  have hmc := monthday_clause_core a (by rw [hmda]; exact wa.monthday_nz)
    (monthDayOfYday (isLeap y) j).2
    ((monthDayOfYday (isLeap y) j).2 - daysInMonth y (monthOfYday (isLeap y) j) - 1) (by omega) (by omega)
  rw [hmda] at hmc
  have hwds : Spec.RRule.weekdays a = a.byweekday.getD [] := by
    unfold Spec.RRule.weekdays; simp [hnd, wm_noDay wa]
  have hwc := weekday_clause_ym (wm_strip wa) (weekdayOfOrd (info.yearordinal + j))
    (fun wn => Spec.RRule.nthOk a (info.yearordinal + j) y (monthOfYday (isLeap y) j) wn.2)
  rw [byweekdayOf_stripM wa] at hwc
  have hwc' : (!truthy (byweekdayOf a) || memO (weekdayOfOrd (info.yearordinal + j)) (byweekdayOf a)) =
      ((a.byweekday.getD []).isEmpty || (a.byweekday.getD []).any (fun wn =>
        wn.1 == weekdayOfOrd (info.yearordinal + j) &&
          (wn.2 == 0 || decide (a.freq > 1) ||
            Spec.RRule.nthOk a (info.yearordinal + j) y (monthOfYday (isLeap y) j) wn.2))) := hwc
  rw [hmonths, hmd, hwds, wa.byeaster, hwl, month_clause, hwc', hmc]
  have hwk : weekClause (a.wkst.getD 0) (weeknosOf a) (info.yearordinal + j) =
      (match some wl with
       | some (x :: xs) => (x :: xs).contains (Spec.RRule.weekOf (Spec.RRule.wkst a) (info.yearordinal + j)).1 ||
           (x :: xs).contains ((Spec.RRule.weekOf (Spec.RRule.wkst a) (info.yearordinal + j)).1 -
             (Spec.RRule.weekOf (Spec.RRule.wkst a) (info.yearordinal + j)).2 - 1)
       | _ => true) := by
    cases hq : wl with
    | nil => exact absurd hq hne
    | cons x xs =>
      dsimp only
      unfold weekClause weeknosOf
      rw [hwl, Option.getD_some, contains_sortedSet, contains_sortedSet, hq]
      rfl
  rw [hwk]
  have htn : truthy (none : Option (List Int)) = false := rfl
  have hmn : ∀ w, memO w (none : Option (List Int)) = false := fun _ => rfl
  simp only [htn, hmn, List.isEmpty_nil, Bool.not_true, Bool.or_false, Bool.not_false, Bool.true_or, Bool.and_true,
    Bool.or_self, List.contains_nil]
  generalize ((a.bymonth.getD []).isEmpty || (a.bymonth.getD []).contains (monthOfYday (isLeap y) j)) = b1
  generalize ((a.byweekday.getD []).isEmpty || _) = b2
  generalize ((a.bymonthday.getD []).isEmpty || _ || _) = b4
  cases hq : wl with
  | nil => exact absurd hq hne
  | cons x0 xs0 =>
    dsimp only
    generalize ((x0 :: xs0).contains _ || (x0 :: xs0).contains _) = b3
    rcases a.byyearday with _ | (_ | ⟨x, xs⟩)
    · cases b1 <;> cases b2 <;> cases b3 <;> cases b4 <;> rfl
    · cases b1 <;> cases b2 <;> cases b3 <;> cases b4 <;> rfl
    · rw [yearday_clause (some (x :: xs))]
      dsimp only
      cases b1 <;> cases b2 <;> cases b3 <;> cases b4 <;> simp

/-- "the model state at the start of period `k`" -/
structure WeeknoMGood (a : Args) (r : Rule) (k : Nat) (st : State) : Prop where
  facts : YearFacts r st.cur.year st.info
  month : 1 ≤ st.cur.month ∧ st.cur.month ≤ 12
  timeset : st.timeset = Spec.RRule.timesOf a none none none
  idx : st.cur.year * 12 + (st.cur.month - 1) = a.dtstart.y * 12 + (a.dtstart.m - 1) + k * a.interval
  nwd : st.info.nwdaymask = none
  mask : ∃ mask, st.info.wnomask = some mask ∧ (mask.length : Int) = st.info.yearlen + 7 ∧
    ∀ j : Int, 0 ≤ j → j < st.info.yearlen →
      Py.getIdx mask j = .ok (if weekClause r.wkst (weeknosOf a) (st.info.yearordinal + j) = true then 1 else 0)

theorem wm_rebuild (wa : WeeknoMArgs a) (h : construct a = .ok r) (y m : Int) (hy1 : 1 ≤ y) (hy2 : y ≤ 9999) :
    ∃ info mask, rebuild r y m = .ok info ∧ info.nwdaymask = none ∧ info.wnomask = some mask ∧
      (mask.length : Int) = info.yearlen + 7 ∧
      ∀ j : Int, 0 ≤ j → j < info.yearlen →
        Py.getIdx mask j = .ok (if weekClause r.wkst (weeknosOf a) (info.yearordinal + j) = true then 1 else 0) := by
  have hwr := wm_weeknoRule wa h
  obtain ⟨bh, bm, bs, hr⟩ := wm_rule wa h
  have hwl : r.byweekno = some (weeknosOf a) := by rw [hr]
  have hwk : 0 ≤ r.wkst ∧ r.wkst ≤ 6 := by rw [hr]; exact wa.wkst
  exact rebuild_weekno hwr _ hwl (wm_weeknos wa).2.1 hwk y m hy1 hy2

theorem wm_results (wa : WeeknoMArgs a) (h : construct a = .ok r) (k : Nat) (st : State) (hg : WeeknoMGood a r k st) :
    (∃ fl, periodResults r st = .ok (Spec.RRule.sel a (k : Int), none, fl)) ∧
    ∀ x ∈ Spec.RRule.sel a (k : Int), 0 ≤ x.ord ∧ x.ord ≤ maxOrdinal := by
  have hwr := wm_weeknoRule wa h
  obtain ⟨bh, bm, bs, hr⟩ := wm_rule wa h
  have hfreq : r.freq = 1 := by rw [hr]; exact wa.freq
  have hsp := construct_bysetpos a r h
  have htsok : TsOk st.timeset := by
    have := construct_timeset_ok a r h (by rw [wa.freq]; omega)
    rw [hr] at this; rw [hg.timeset]; exact this
  have hyo := hg.facts.yearordinal
  have hyl := hg.facts.yearlen
  have hy1 := hg.facts.year_lo
  have hy2 := hg.facts.year_hi
  have hpos : 1 ≤ toOrdinal st.cur.year 1 1 :=
    toOrdinal_pos _ _ _ hy1 ⟨by omega, by omega, by omega, by have := daysInMonth_bounds st.cur.year 1; omega⟩
  have hend := year_end_le st.cur.year hy2
  obtain ⟨mask, hmask, hmlen, hmspec⟩ := hg.mask
  have hm := hg.month
  have hb := daysInMonth_bounds st.cur.year st.cur.month
  have hd := dayset_monthly st.cur hfreq hg.facts hm.1 hm.2
  have hdbm0 := daysBeforeMonth_mono st.cur.year 1 st.cur.month (by omega) hm.1 (by omega)
  rw [daysBeforeMonth_1] at hdbm0
  have hdbm1 := daysBeforeMonth_mono st.cur.year (st.cur.month + 1) 13 (by omega) (by omega) (by omega)
  rw [daysBeforeMonth_13, daysBeforeMonth_succ _ _ hm.1 hm.2] at hdbm1
  have hfil : ∀ i, daysBeforeMonth st.cur.year st.cur.month ≤ i →
      i < daysBeforeMonth st.cur.year st.cur.month + daysInMonth st.cur.year st.cur.month →
      dayFiltered r st.info i = .ok (!(Spec.RRule.dateOk a (st.info.yearordinal + i))) := by
    intro i hi0 hi1
    have h0 : 0 ≤ i := by omega
    have h1 : i < st.info.yearlen := by rw [hyl]; omega
    rw [dayFiltered_weekno hwr hg.facts mask hg.nwd hmask i h0 h1 (by omega)]
    have hgi := hmspec i h0 h1
    rw [getIdx_int mask i h0 (by omega)] at hgi
    injection hgi with hgi
    have hbr := wm_bridge wa h st.info st.cur.year i hy1 h0 (by rw [← hyl]; exact h1) hyo
    rw [← hbr, hgi]
    congr 2
    by_cases c : weekClause r.wkst (weeknosOf a) (st.info.yearordinal + i) = true
    · rw [if_pos c, c]; rfl
    · rw [if_neg c]
      have : weekClause r.wkst (weeknosOf a) (st.info.yearordinal + i) = false := by
        cases hq : weekClause r.wkst (weeknosOf a) (st.info.yearordinal + i) with
        | false => rfl
        | true => exact absurd hq c
      rw [this]; rfl
  obtain ⟨fl, hres⟩ := periodResults_range_P st (Spec.RRule.dateOk a) hfil (by rw [hsp.1]; exact hsp.2) htsok hd
    (by rw [hyo]; omega) (by rw [hyo]; omega)
  have hspan : Spec.RRule.periodSpan a (k * a.interval) =
      (st.info.yearordinal + daysBeforeMonth st.cur.year st.cur.month,
       st.info.yearordinal + (daysBeforeMonth st.cur.year st.cur.month + daysInMonth st.cur.year st.cur.month),
       none, none, none) := by
    unfold Spec.RRule.periodSpan
    rw [if_neg (by simp [wa.freq]), if_pos (by simp [wa.freq])]
    dsimp only
    have hidx := hg.idx
    have e1 : (a.dtstart.y * 12 + (a.dtstart.m - 1) + k * a.interval) / 12 = st.cur.year := by omega
    have e2 : (a.dtstart.y * 12 + (a.dtstart.m - 1) + k * a.interval) % 12 + 1 = st.cur.month := by omega
    rw [e1, e2, hyo, month_start]
    simp only [Prod.mk.injEq, and_true, true_and]
    omega
  refine ⟨⟨fl, ?_⟩, ?_⟩
  · rw [hres, hg.timeset, sel_span_sp a k _ _ hspan, hsp.1]
  · intro x hx
    rw [sel_span_sp a k _ _ hspan] at hx
    have := sel_bounds _ _ _ _ x (applySetpos_subset _ _ x hx)
    rw [hyo] at this; omega

theorem wm_next (wa : WeeknoMArgs a) (h : construct a = .ok r) (k : Nat) (st : State) (fl : Bool)
    (c : Option Int) (hg : WeeknoMGood a r k st)
    (hm : (a.dtstart.y * 12 + (a.dtstart.m - 1) + (k + 1 : Nat) * a.interval) / 12 ≤ 9999) :
    ∃ st', advance r { st with count := c } fl = .ok st' ∧ WeeknoMGood a r (k + 1) st' := by
  obtain ⟨bh, bm, bs, hr⟩ := wm_rule wa h
  have hfreq : r.freq = 1 := by rw [hr]; exact wa.freq
  have hint : r.interval = a.interval := by rw [hr]
  have hi := wa.interval
  have hy1 := hg.facts.year_lo
  have hmth := hg.month
  have ek : ((k + 1 : Nat) : Int) * a.interval = k * a.interval + a.interval := by
    push_cast; rw [Int.add_mul]; omega
  have hidx := hg.idx
  have hex : ∃ st', advance r { st with count := c } fl = .ok st' ∧ st'.info.nwdaymask = none ∧
      ∃ mask, st'.info.wnomask = some mask ∧ (mask.length : Int) = st'.info.yearlen + 7 ∧
        ∀ j : Int, 0 ≤ j → j < st'.info.yearlen →
          Py.getIdx mask j = .ok (if weekClause r.wkst (weeknosOf a) (st'.info.yearordinal + j) = true then 1 else 0) := by
    unfold advance
    dsimp only
    rw [if_neg (by simp [hfreq]), if_pos (by simp [hfreq])]
    split
    · rename_i hgt
      simp only [Py.divmod, Py.fdiv_pos _ (by omega : (0:Int) < 12), Py.fmod_pos _ (by omega : (0:Int) < 12)]
      by_cases c0 : (st.cur.month + r.interval) % 12 = 0
      · have c' : ((st.cur.month + r.interval) % 12 == 0) = true := by simp [c0]
        simp only [c', ↓reduceIte]
        have hle : st.cur.year + (st.cur.month + r.interval) / 12 - 1 ≤ 9999 := by rw [hint]; omega
        rw [if_neg (by omega)]
        obtain ⟨info, mask, hre, h2, h3, h4, h5⟩ := wm_rebuild wa h
          (st.cur.year + (st.cur.month + r.interval) / 12 - 1) 12 (by rw [hint]; omega) hle
        rw [hre]; exact ⟨_, rfl, h2, mask, h3, h4, h5⟩
      · have c' : ((st.cur.month + r.interval) % 12 == 0) = false := by simp [c0]
        simp only [c', Bool.false_eq_true, ↓reduceIte]
        have hle : st.cur.year + (st.cur.month + r.interval) / 12 ≤ 9999 := by rw [hint]; omega
        rw [if_neg (by omega)]
        obtain ⟨info, mask, hre, h2, h3, h4, h5⟩ := wm_rebuild wa h
          (st.cur.year + (st.cur.month + r.interval) / 12) ((st.cur.month + r.interval) % 12)
          (by rw [hint]; omega) hle
        rw [hre]; exact ⟨_, rfl, h2, mask, h3, h4, h5⟩
    · obtain ⟨info, mask, hre, h2, h3, h4, h5⟩ := wm_rebuild wa h st.cur.year (st.cur.month + r.interval)
        hy1 hg.facts.year_hi
      rw [hre]; exact ⟨_, rfl, h2, mask, h3, h4, h5⟩
  obtain ⟨st', hadv, hnw, hmk⟩ := hex
  have sp := advance_monthly r { st with count := c } st' fl hfreq (by omega) hmth.1 hmth.2 hadv
  obtain ⟨e, m1, m12, _, f', ts⟩ := sp
  have e : st'.cur.year * 12 + (st'.cur.month - 1) = st.cur.year * 12 + (st.cur.month - 1) + r.interval := e
  refine ⟨st', hadv, ⟨f', ⟨m1, m12⟩, by rw [ts]; exact hg.timeset, ?_, hnw, hmk⟩⟩
  rw [e, hidx, hint]; omega

theorem wm_init (wa : WeeknoMArgs a) (h : construct a = .ok r) :
    ∃ st0, init r = .ok st0 ∧ WeeknoMGood a r 0 st0 ∧ st0.count = r.count := by
  have hv := wa.valid
  unfold DT.Valid ValidDate at hv
  obtain ⟨info, mask, hre, h2, h3, h4, h5⟩ := wm_rebuild wa h a.dtstart.y a.dtstart.m hv.1.1 hv.1.2.1
  obtain ⟨bh, bm, bs, hr⟩ := wm_rule wa h
  have hd : r.dtstart = { a.dtstart with us := 0 } := by rw [hr]
  have hf : r.freq < 4 := by rw [hr]; dsimp only; rw [wa.freq]; omega
  have hts : r.timeset = some (Spec.RRule.timesOf a none none none) := by rw [hr]
  refine ⟨{ cur := { year := a.dtstart.y, month := a.dtstart.m, day := a.dtstart.d, hour := a.dtstart.hh,
                     minute := a.dtstart.mm, second := a.dtstart.ss, weekday := r.dtstart.weekday },
            info := info, timeset := Spec.RRule.timesOf a none none none, count := r.count }, ?_, ?_, rfl⟩
  · unfold init
    simp only [hd, bind, Except.bind, hre, hts, pure, Except.pure]
    rw [if_pos hf]
    rfl
  · exact ⟨rebuild_facts r _ _ info hre, ⟨hv.1.2.2.1, hv.1.2.2.2.1⟩, rfl, by dsimp only; omega, h2, mask, h3, h4, h5⟩

/-- **`iter_eq_spec`, MONTHLY with BYWEEKNO on the complement of D-C01c**: FREQ=MONTHLY, INTERVAL ≥ 1, a valid start, any
    week start 0..6, any BYMONTH / BYMONTHDAY (non-zero) / BYYEARDAY / plain BYDAY / BYHOUR / BYMINUTE / BYSECOND /
    BYSETPOS, any COUNT / UNTIL, no nth BYDAY / BYEASTER -/
theorem iter_eq_spec_monthly_weekno (wa : WeeknoMArgs a) (h : construct a = .ok r) (n : Nat)
    (hm : (a.dtstart.y * 12 + (a.dtstart.m - 1) + n * a.interval) / 12 ≤ 9999) :
    (iter r n).1 = Spec.RRule.occ a n := by
  have hi := wa.interval
  have hmono : ∀ k : Nat, k ≤ n → (k : Int) * a.interval ≤ n * a.interval := by
    intro k hk; exact Int.mul_le_mul_of_nonneg_right (by omega) (by omega)
  have sim : Simulation a r n (WeeknoMGood a r) := {
    agree := wm_cuts wa h
    results := fun k st _ hg => by
      obtain ⟨⟨fl, hres⟩, hb⟩ := wm_results wa h k st hg
      exact ⟨fl, [], _, hres, rfl, by simp, hb⟩
    next := fun k st fl c hk hg => wm_next wa h k st fl c hg (by
      have := hmono (k + 1) (by omega)
      have : (a.dtstart.y * 12 + (a.dtstart.m - 1) + ((k + 1 : Nat) : Int) * a.interval) / 12 ≤
          (a.dtstart.y * 12 + (a.dtstart.m - 1) + n * a.interval) / 12 :=
        Int.ediv_le_ediv (by omega) (by omega)
      omega)
    }
  obtain ⟨st0, hinit, hg0, hc0⟩ := wm_init wa h
  exact iter_refines sim st0 hinit hg0 hc0 n (by omega)

end RRule
