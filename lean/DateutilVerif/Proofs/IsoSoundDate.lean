/- Proofs/IsoSoundDate.lean — inversion of the date scanners: every accepting path of `_parse_isodate_common`,
   `_parse_isodate_uncommon` and `_calculate_weekdate` reconstructs a date form and its fields. -/
import DateutilVerif.Proofs.IsoRender
import DateutilVerif.Proofs.IsoTzSound
import DateutilVerif.Proofs.IsoErrors
set_option linter.unusedSimpArgs false
namespace Iso
open Cal IsoSpec Py

theorem len_cons' (s : Bytes) (n : Nat) (h : s.length = n + 1) : ∃ a t, s = a :: t ∧ t.length = n := by
  cases s with
  | nil => simp at h
  | cons a t => exact ⟨a, t, rfl, by simpa using h⟩

theorem len2 (s : Bytes) (h : s.length = 2) : ∃ a b, s = [a, b] := by
  obtain ⟨a, t1, rfl, h1⟩ := len_cons' s 1 h
  obtain ⟨b, t2, rfl, h2⟩ := len_cons' t1 0 h1
  have : t2 = [] := List.length_eq_zero_iff.mp h2
  subst this; exact ⟨a, b, rfl⟩

/-- a field accepted by `_parse_digits` at the head of `l`: `l` starts with the printing of its value -/
theorem take_digits1 (l : Bytes) (v : Int) (h : parseDigits (l.take 1) 1 = .ok v) :
    ∃ n : Nat, n < 10 ∧ v = n ∧ l = pad1 n ++ l.drop 1 := by
  obtain ⟨hl, hd, rfl⟩ := (parseDigits_ok_iff _ _ _ (by decide)).mp h
  obtain ⟨a, t, e, ht⟩ := len_cons' _ 0 hl
  have : t = [] := List.length_eq_zero_iff.mp ht
  subst this
  rw [e] at hd; simp at hd
  have hp := pad1_digitsVal a hd
  refine ⟨digitsVal [a], hp.2, by rw [e], ?_⟩
  rw [hp.1, ← e, List.take_append_drop]

theorem take_digits2 (l : Bytes) (v : Int) (h : parseDigits (l.take 2) 2 = .ok v) :
    ∃ n : Nat, n < 100 ∧ v = n ∧ l = pad2 n ++ l.drop 2 := by
  obtain ⟨hl, hd, rfl⟩ := (parseDigits_ok_iff _ _ _ (by decide)).mp h
  obtain ⟨a, b, e⟩ := len2 _ hl
  rw [e] at hd; simp at hd
  have hp := pad2_digitsVal a b hd.1 hd.2
  refine ⟨digitsVal [a, b], hp.2, by rw [e], ?_⟩
  rw [hp.1, ← e, List.take_append_drop]

theorem take_digits3 (l : Bytes) (v : Int) (h : parseDigits (l.take 3) 3 = .ok v) :
    ∃ n : Nat, n < 1000 ∧ v = n ∧ l = pad3 n ++ l.drop 3 := by
  obtain ⟨hl, hd, rfl⟩ := (parseDigits_ok_iff _ _ _ (by decide)).mp h
  obtain ⟨a, b, c, e⟩ := len3 _ hl
  rw [e] at hd; simp at hd
  have hp := pad3_digitsVal a b c hd.1 hd.2.1 hd.2.2
  refine ⟨digitsVal [a, b, c], hp.2, by rw [e], ?_⟩
  rw [hp.1, ← e, List.take_append_drop]

theorem take_digits4 (l : Bytes) (v : Int) (h : parseDigits (l.take 4) 4 = .ok v) :
    ∃ n : Nat, n < 10000 ∧ v = n ∧ l = pad4 n ++ l.drop 4 := by
  obtain ⟨hl, hd, rfl⟩ := (parseDigits_ok_iff _ _ _ (by decide)).mp h
  obtain ⟨a, t, e, ht⟩ := len_cons' _ 3 hl
  obtain ⟨b, c, d, e2⟩ := len3 _ ht
  subst e2
  rw [e] at hd; simp at hd
  have hp := pad4_digitsVal a b c d hd.1 hd.2.1 hd.2.2.1 hd.2.2.2
  refine ⟨digitsVal [a, b, c, d], hp.2, by rw [e], ?_⟩
  rw [hp.1, ← e, List.take_append_drop]

/-- `r.take 1 == [c]` -/
theorem take1_eq (r : Bytes) (c : Nat) (h : (r.take 1 == [c]) = true) : r = c :: r.drop 1 := by
  cases r with
  | nil => simp at h
  | cons a t => simp at h; simp [h]


theorem common_inv (s : Bytes) (ymd : Int × Int × Int) (rest : Bytes)
    (h : parseIsodateCommon s = .ok (ymd, rest)) :
    ∃ (df : DateForm) (y a b : Nat), y < 10000 ∧ a < 100 ∧ b < 100 ∧
      s = renderDate df { year := y, a := a, b := b } ++ rest ∧
      ((df = .year ∧ rest = [] ∧ ymd = ((y : Int), 1, 1)) ∨
       (df = .yearMonth ∧ rest = [] ∧ ymd = ((y : Int), (a : Int), 1)) ∨
       ((df = .calExt ∨ df = .calBas) ∧ ymd = ((y : Int), (a : Int), (b : Int)))) := by
  unfold parseIsodateCommon at h
  by_cases h1 : s.length < 4
  · rw [if_pos h1] at h; cases h
  rw [if_neg h1] at h
  cases hy : parseDigits (s.take 4) 4 with
  | error e => simp [hy, bind, Except.bind] at h
  | ok yv =>
    obtain ⟨y, hy4, rfl, es⟩ := take_digits4 s yv hy
    simp only [hy, bind, Except.bind] at h
    generalize hr : s.drop 4 = r at *
    by_cases hr0 : r = []
    · rw [if_pos hr0] at h
      cases h
      exact ⟨.year, y, 1, 1, hy4, by omega, by omega, by rw [es, hr0]; simp [renderDate], Or.inl ⟨rfl, hr0, rfl⟩⟩
    rw [if_neg hr0] at h
    by_cases hsep : (r.take 1 == [cDash]) = true
    · -- extended: YYYY-MM[-DD]
      have er := take1_eq r cDash hsep
      simp only [hsep, if_true, Bool.true_and] at h
      generalize hr1 : r.drop 1 = r1 at *
      by_cases hl : r1.length < 2
      · rw [if_pos hl] at h; cases h
      rw [if_neg hl] at h
      cases hm : parseDigits (r1.take 2) 2 with
      | error e => simp [hm] at h
      | ok mv =>
        obtain ⟨a, ha, rfl, e1⟩ := take_digits2 r1 mv hm
        simp only [hm] at h
        generalize hr2 : r1.drop 2 = r2 at *
        by_cases hr20 : r2 = []
        · rw [if_pos hr20] at h
          cases h
          refine ⟨.yearMonth, y, a, 1, hy4, ha, by omega, ?_, Or.inr (Or.inl ⟨rfl, hr20, rfl⟩)⟩
          rw [es, er, e1, hr20]; simp [renderDate, cDash]
        rw [if_neg hr20] at h
        by_cases hd2 : (r2.take 1 != [cDash]) = true
        · rw [if_pos hd2] at h; cases h
        rw [if_neg hd2] at h
        have er2 : r2 = cDash :: r2.drop 1 := by
          apply take1_eq; simpa using hd2
        generalize hr3 : r2.drop 1 = r3 at *
        by_cases hl3 : r3.length < 2
        · rw [if_pos hl3] at h; cases h
        rw [if_neg hl3] at h
        cases hdd : parseDigits (r3.take 2) 2 with
        | error e => simp [hdd] at h
        | ok dv =>
          obtain ⟨b, hb, rfl, e3⟩ := take_digits2 r3 dv hdd
          simp only [hdd] at h
          generalize hr4 : r3.drop 2 = r4 at *
          cases h
          refine ⟨.calExt, y, a, b, hy4, ha, hb, ?_, Or.inr (Or.inr ⟨Or.inl rfl, rfl⟩)⟩
          rw [es, er, e1, er2, e3]; simp [renderDate, cDash]
    · -- basic: YYYYMMDD
      simp only [hsep, Bool.false_eq_true, if_false, Bool.false_and] at h
      by_cases hl : r.length < 2
      · rw [if_pos hl] at h; cases h
      rw [if_neg hl] at h
      cases hm : parseDigits (r.take 2) 2 with
      | error e => simp [hm] at h
      | ok mv =>
        obtain ⟨a, ha, rfl, e1⟩ := take_digits2 r mv hm
        simp only [hm] at h
        generalize hr2 : r.drop 2 = r2 at *
        by_cases hr20 : r2 = []
        · rw [if_pos hr20] at h; cases h
        rw [if_neg hr20] at h
        by_cases hl3 : r2.length < 2
        · rw [if_pos hl3] at h; cases h
        rw [if_neg hl3] at h
        cases hdd : parseDigits (r2.take 2) 2 with
        | error e => simp [hdd] at h
        | ok dv =>
          obtain ⟨b, hb, rfl, e3⟩ := take_digits2 r2 dv hdd
          simp only [hdd] at h
          generalize hr4 : r2.drop 2 = r4 at *
          cases h
          refine ⟨.calBas, y, a, b, hy4, ha, hb, ?_, Or.inr (Or.inr ⟨Or.inr rfl, rfl⟩)⟩
          rw [es, e1, e3]; simp [renderDate]


/-- consecutive ISO years start 52 or 53 weeks apart -/
theorem w1_step (y : Int) :
    isoWeek1Monday (y + 1) - isoWeek1Monday y = 364 ∨ isoWeek1Monday (y + 1) - isoWeek1Monday y = 371 := by
  have a := w1_facts y
  have b := w1_facts (y + 1)
  have s := daysBeforeYear_succ y
  have e : daysInYear y = 365 ∨ daysInYear y = 366 := by unfold daysInYear; split <;> simp
  omega

theorem calculateWeekdate_inv (y w d : Int) (r : Int × Int × Int) (h : calculateWeekdate y w d = .ok r) :
    1 ≤ y ∧ y ≤ 9999 ∧ 1 ≤ w ∧ w ≤ 53 ∧ 1 ≤ d ∧ d ≤ 7 ∧
    1 ≤ isoWeek1Monday y + (w - 1) * 7 + (d - 1) ∧ isoWeek1Monday y + (w - 1) * 7 + (d - 1) ≤ maxOrdinal ∧
    r = fromOrdinal (isoWeek1Monday y + (w - 1) * 7 + (d - 1)) ∧ w ≤ isoWeeksInYear y := by
  unfold calculateWeekdate at h
  by_cases hw : 0 < w ∧ w < 54
  · rw [if_neg (fun hn => hn hw)] at h
    by_cases hd : 0 < d ∧ d < 8
    · rw [if_neg (fun hn => hn hd)] at h
      unfold mkDateOrd at h
      by_cases hv : validDate y 1 4 = true
      · have hy : 1 ≤ y ∧ y ≤ 9999 := by
          simp only [validDate, decide_eq_true_eq] at hv; exact ⟨hv.1, hv.2.1⟩
        have hp := w1_pos y hy.1
        have hwm : isoWeek1Monday y ≤ maxOrdinal := by
          have f := w1_facts y
          have := dby_mono y 9999 hy.2
          have e : daysBeforeYear 9999 = 3651694 := by decide
          unfold maxOrdinal; omega
        simp only [hv, if_true, bind, Except.bind, jan4_week1, ordChecked] at h
        rw [if_neg (by omega)] at h
        simp only [] at h
        obtain ⟨o, ho⟩ : ∃ o, o = isoWeek1Monday y + (w - 1) * 7 + (d - 1) := ⟨_, rfl⟩
        rw [show isoWeek1Monday y + ((w - 1) * 7 + (d - 1)) = o by omega] at h
        rw [← ho]
        by_cases hro : o < 1 ∨ o > maxOrdinal
        · rw [if_pos hro] at h; simp [overflowToValue] at h
        · rw [if_neg hro] at h
          simp only [overflowToValue] at h
          have ho1 : 1 ≤ o := by omega
          have ⟨e, v, _⟩ := toOrdinal_fromOrdinal o ho1
          by_cases h53 : w = 53 ∧ (isoCalendar (fromOrdinal o).1 (fromOrdinal o).2.1 (fromOrdinal o).2.2).2.1 ≠ 53
          · rw [if_pos h53] at h; cases h
          · rw [if_neg h53] at h
            cases h
            refine ⟨hy.1, hy.2, by omega, by omega, by omega, by omega, ho1, by omega, rfl, ?_⟩
            have st := w1_step y
            unfold isoWeeksInYear
            by_cases hw53 : w = 53
            · -- the check passed: the date really lies in week 53 of `y`
              rcases st with st | st
              · exfalso
                apply h53
                refine ⟨hw53, ?_⟩
                have st2 := w1_step (y + 1)
                rw [show y + 1 + 1 = y + 2 by omega] at st2
                have := isoCalendar_of_week (y + 1) _ _ _ v (by rw [e]; omega)
                  (by rw [e, show y + 1 + 1 = y + 2 by omega]; omega)
                rw [this, e]; dsimp only; omega
              · omega
            · rcases st with st | st <;> omega
      · simp [hv, bind, Except.bind] at h
    · rw [if_pos hd] at h; cases h
  · rw [if_pos hw] at h; cases h


/-- what a date scanner establishes for a week / ordinal form -/
def UncommonOK (df : DateForm) (x : Fields) (ymd : Int × Int × Int) (rest : Bytes) : Prop :=
  dateWF true df x = true ∧ 1 ≤ dateOrdinal df x ∧ dateOrdinal df x ≤ maxOrdinal ∧
  ymd = fromOrdinal (dateOrdinal df x) ∧ (df.complete = false → rest = [])

theorem week_ok (df : DateForm) (hdf : df = .weekExtD ∨ df = .weekBasD) (y a b : Nat) (r : Int × Int × Int)
    (rest : Bytes) (h : calculateWeekdate y a b = .ok r) :
    UncommonOK df { year := y, a := a, b := b } r rest := by
  obtain ⟨h1, h2, h3, h4, h5, h6, h7, h8, h9, h10⟩ := calculateWeekdate_inv _ _ _ _ h
  rcases hdf with rfl | rfl
  · refine ⟨?_, h7, h8, h9, by simp [DateForm.complete]⟩
    simp only [dateWF, Bool.and_eq_true, decide_eq_true_eq, Bool.or_eq_true, Bool.not_eq_true']
    exact ⟨by omega, Or.inr h10⟩
  · refine ⟨?_, h7, h8, h9, by simp [DateForm.complete]⟩
    simp only [dateWF, Bool.and_eq_true, decide_eq_true_eq, Bool.or_eq_true, Bool.not_eq_true']
    exact ⟨by omega, Or.inr h10⟩

theorem week_ok1 (df : DateForm) (hdf : df = .weekExt ∨ df = .weekBas) (y a : Nat) (r : Int × Int × Int)
    (h : calculateWeekdate y a 1 = .ok r) :
    UncommonOK df { year := y, a := a } r [] := by
  obtain ⟨h1, h2, h3, h4, h5, h6, h7, h8, h9, h10⟩ := calculateWeekdate_inv _ _ _ _ h
  rcases hdf with rfl | rfl
  · refine ⟨?_, by simp only [dateOrdinal]; omega, by simp only [dateOrdinal]; omega,
      by rw [h9]; simp only [dateOrdinal]; congr 1; omega, fun _ => rfl⟩
    simp only [dateWF, Bool.and_eq_true, decide_eq_true_eq, Bool.or_eq_true, Bool.not_eq_true']
    exact ⟨by omega, Or.inr h10⟩
  · refine ⟨?_, by simp only [dateOrdinal]; omega, by simp only [dateOrdinal]; omega,
      by rw [h9]; simp only [dateOrdinal]; congr 1; omega, fun _ => rfl⟩
    simp only [dateWF, Bool.and_eq_true, decide_eq_true_eq, Bool.or_eq_true, Bool.not_eq_true']
    exact ⟨by omega, Or.inr h10⟩

theorem ordinal_ok (df : DateForm) (hdf : df = .ordExt ∨ df = .ordBas) (y a : Nat) (r : Int × Int × Int)
    (rest : Bytes) (t : Bytes) (h : ordinalResult y a t = .ok (r, rest)) :
    UncommonOK df { year := y, a := a } r rest ∧ rest = t := by
  unfold ordinalResult at h
  by_cases hr : (a : Int) < 1 ∨ (a : Int) > 365 + (if isLeap y then 1 else 0)
  · rw [if_pos hr] at h; cases h
  rw [if_neg hr] at h
  unfold mkDateOrd at h
  by_cases hv : validDate y 1 1 = true
  · have hy : 1 ≤ (y : Int) ∧ (y : Int) ≤ 9999 := by
      simp only [validDate, decide_eq_true_eq] at hv; exact ⟨hv.1, hv.2.1⟩
    have hp := toOrdinal_pos y 1 1 hy.1 (by simp [ValidYMD, daysInMonth])
    have hdy : daysInYear y = 365 + (if isLeap y then 1 else 0) := by
      unfold daysInYear; split <;> simp
    have hle : toOrdinal y 1 1 + ((a : Int) - 1) ≤ maxOrdinal := by
      have s := daysBeforeYear_succ y
      have := dby_mono (y + 1) 10000 (by omega)
      have e : daysBeforeYear 10000 = 3652059 := by decide
      rw [toOrdinal_jan]
      unfold maxOrdinal; omega
    simp only [hv, if_true, Except.bind, ordChecked] at h
    rw [if_neg (by omega)] at h
    simp only [] at h
    cases h
    refine ⟨?_, rfl⟩
    rcases hdf with rfl | rfl
    · refine ⟨?_, by simp only [dateOrdinal]; omega, by simp only [dateOrdinal]; exact hle, rfl,
        by simp [DateForm.complete]⟩
      simp only [dateWF, decide_eq_true_eq]; omega
    · refine ⟨?_, by simp only [dateOrdinal]; omega, by simp only [dateOrdinal]; exact hle, rfl,
        by simp [DateForm.complete]⟩
      simp only [dateWF, decide_eq_true_eq]; omega
  · simp [hv, Except.bind] at h


theorem uncommon_inv (s : Bytes) (ymd : Int × Int × Int) (rest : Bytes)
    (h : parseIsodateUncommon s = .ok (ymd, rest)) :
    ∃ df x, s = renderDate df x ++ rest ∧ UncommonOK df x ymd rest := by
  unfold parseIsodateUncommon at h
  by_cases h1 : s.length < 4
  · rw [if_pos h1] at h; cases h
  rw [if_neg h1] at h
  cases hy : parseDigits (s.take 4) 4 with
  | error e => simp [hy, bind, Except.bind] at h
  | ok yv =>
    obtain ⟨y, hy4, rfl, es⟩ := take_digits4 s yv hy
    simp only [hy, bind, Except.bind] at h
    generalize hr : s.drop 4 = r at *
    -- the part after the optional dash
    obtain ⟨hs, r1, hr1, er⟩ : ∃ (hs : Bool) (r1 : Bytes), (if (r.take 1 == [cDash]) = true then r.drop 1 else r) = r1 ∧
        (r.take 1 == [cDash]) = hs ∧ r = (if hs then [cDash] else []) ++ r1 := by
      by_cases hsep : (r.take 1 == [cDash]) = true
      · exact ⟨true, r.drop 1, by simp [hsep], hsep, by simpa using take1_eq r cDash hsep⟩
      · exact ⟨false, r, by simp [hsep], by simpa using hsep, by simp⟩
    obtain ⟨hhs, er⟩ := er
    rw [hr1, hhs] at h
    clear hr1 hhs
    by_cases hW : (r1.take 1 == [cW]) = true
    · rw [if_pos hW] at h
      have er1 := take1_eq r1 cW hW
      generalize hr2 : r1.drop 1 = r2 at *
      cases hwk : parseDigits (r2.take 2) 2 with
      | error e => simp [hwk] at h
      | ok wv =>
        obtain ⟨a, ha, rfl, e2⟩ := take_digits2 r2 wv hwk
        simp only [hwk] at h
        generalize hr3 : r2.drop 2 = r3 at *
        by_cases hr30 : r3 = []
        · rw [if_neg (fun hn => hn hr30)] at h
          subst hr30
          cases hc : calculateWeekdate y a 1 with
          | error e => simp [hc] at h
          | ok base =>
            simp only [hc] at h
            cases h
            cases hs
            · refine ⟨.weekBas, { year := y, a := a }, ?_, week_ok1 _ (Or.inr rfl) y a _ hc⟩
              rw [es, er, er1, e2]; simp [renderDate, cW]
            · refine ⟨.weekExt, { year := y, a := a }, ?_, week_ok1 _ (Or.inl rfl) y a _ hc⟩
              rw [es, er, er1, e2]; simp [renderDate, cW, cDash]
        · rw [if_pos hr30] at h
          by_cases hdash : ((r3.take 1 == [cDash]) != hs) = true
          · rw [if_pos hdash] at h; cases h
          rw [if_neg hdash] at h
          obtain ⟨r4, hr4, er3⟩ : ∃ r4 : Bytes, (if hs = true then r3.drop 1 else r3) = r4 ∧
              r3 = (if hs then [cDash] else []) ++ r4 := by
            cases hs
            · exact ⟨r3, by simp, by simp⟩
            · have : (r3.take 1 == [cDash]) = true := by simpa using hdash
              exact ⟨r3.drop 1, by simp, by simpa using take1_eq r3 cDash this⟩
          rw [hr4] at h
          cases hdn : parseDigits (r4.take 1) 1 with
          | error e => simp [hdn] at h
          | ok dv =>
            obtain ⟨b, hb, rfl, e4⟩ := take_digits1 r4 dv hdn
            simp only [hdn] at h
            generalize hr5 : r4.drop 1 = r5 at *
            cases hc : calculateWeekdate y a b with
            | error e => simp [hc] at h
            | ok base =>
              simp only [hc] at h
              cases h
              cases hs
              · refine ⟨.weekBasD, { year := y, a := a, b := b }, ?_, week_ok _ (Or.inr rfl) y a b _ _ hc⟩
                rw [es, er, er1, e2, er3, e4]; simp [renderDate, cW]
              · refine ⟨.weekExtD, { year := y, a := a, b := b }, ?_, week_ok _ (Or.inl rfl) y a b _ _ hc⟩
                rw [es, er, er1, e2, er3, e4]; simp [renderDate, cW, cDash]
    · rw [if_neg hW] at h
      by_cases hl : r1.length < 3
      · rw [if_pos hl] at h; cases h
      rw [if_neg hl] at h
      cases hod : parseDigits (r1.take 3) 3 with
      | error e => simp [hod] at h
      | ok ov =>
        obtain ⟨a, ha, rfl, e2⟩ := take_digits3 r1 ov hod
        simp only [hod] at h
        generalize hr3 : r1.drop 3 = r3 at *
        have h' : ordinalResult y a r3 = .ok (ymd, rest) := by
          unfold ordinalResult; simp only [Except.bind]; exact h
        cases hs
        · obtain ⟨ok, rfl⟩ := ordinal_ok .ordBas (Or.inr rfl) y a ymd rest r3 h'
          refine ⟨.ordBas, { year := y, a := a }, ?_, ok⟩
          rw [es, er, e2]; simp [renderDate]
        · obtain ⟨ok, rfl⟩ := ordinal_ok .ordExt (Or.inl rfl) y a ymd rest r3 h'
          refine ⟨.ordExt, { year := y, a := a }, ?_, ok⟩
          rw [es, er, e2]; simp [renderDate, cDash]


theorem toOrdinal_le_max (y m d : Int) (hv : ValidDate y m d) : toOrdinal y m d ≤ maxOrdinal := by
  have ⟨_, o2⟩ := ordinal_in_year y m d hv.2.2
  have hy := hv.2.1
  have := dby_mono (y + 1) 10000 (by omega)
  have e : daysBeforeYear 10000 = 3652059 := by decide
  unfold maxOrdinal; omega

/-- what `_parse_isodate` establishes before the date is constructed -/
def DateScan (df : DateForm) (x : Fields) (ymd : Int × Int × Int) (rest : Bytes) : Prop :=
  (df = .year ∧ rest = [] ∧ ymd = ((x.year : Int), 1, 1)) ∨
  (df = .yearMonth ∧ rest = [] ∧ ymd = ((x.year : Int), (x.a : Int), 1)) ∨
  ((df = .calExt ∨ df = .calBas) ∧ ymd = ((x.year : Int), (x.a : Int), (x.b : Int))) ∨
  UncommonOK df x ymd rest

theorem parseIsodate_inv (s : Bytes) (ymd : Int × Int × Int) (rest : Bytes)
    (h : parseIsodate s = .ok (ymd, rest)) :
    ∃ df x, s = renderDate df x ++ rest ∧ DateScan df x ymd rest := by
  unfold parseIsodate at h
  cases hc : parseIsodateCommon s with
  | ok v =>
    rw [hc] at h; simp only [] at h
    cases h
    obtain ⟨df, y, a, b, _, _, _, es, hcase⟩ := common_inv s ymd rest hc
    refine ⟨df, { year := y, a := a, b := b }, es, ?_⟩
    rcases hcase with h1 | h1 | h1
    · exact Or.inl h1
    · exact Or.inr (Or.inl h1)
    · exact Or.inr (Or.inr (Or.inl h1))
  | error e =>
    rw [hc] at h
    have := onlyVE_common s e hc
    subst this
    simp only [] at h
    obtain ⟨df, x, es, ok⟩ := uncommon_inv s ymd rest h
    exact ⟨df, x, es, Or.inr (Or.inr (Or.inr ok))⟩

/-- once `date(y, m, d)` has been constructed the scan result is a well-formed date form -/
theorem dateScan_valid (df : DateForm) (x : Fields) (y m d : Int) (rest : Bytes)
    (hs : DateScan df x (y, m, d) rest) (hv : ValidDate y m d) : UncommonOK df x (y, m, d) rest := by
  rcases hs with ⟨rfl, hr, he⟩ | ⟨rfl, hr, he⟩ | ⟨hdf, he⟩ | h
  · cases he
    refine ⟨by simp only [dateWF, decide_eq_true_eq]; obtain ⟨v1, v2, _⟩ := hv; omega, ?_, ?_, ?_, fun _ => hr⟩
    · exact toOrdinal_pos _ _ _ hv.1 hv.2.2
    · exact toOrdinal_le_max _ _ _ hv
    · simp only [dateOrdinal]; rw [fromOrdinal_toOrdinal _ _ _ hv.1 hv.2.2]
  · cases he
    refine ⟨by simp only [dateWF, decide_eq_true_eq]; obtain ⟨v1, v2, v3, v4, _⟩ := hv; omega, ?_, ?_, ?_, fun _ => hr⟩
    · exact toOrdinal_pos _ _ _ hv.1 hv.2.2
    · exact toOrdinal_le_max _ _ _ hv
    · simp only [dateOrdinal]; rw [fromOrdinal_toOrdinal _ _ _ hv.1 hv.2.2]
  · cases he
    rcases hdf with rfl | rfl
    · refine ⟨by simp only [dateWF, decide_eq_true_eq]; exact hv, ?_, ?_, ?_, by simp [DateForm.complete]⟩
      · exact toOrdinal_pos _ _ _ hv.1 hv.2.2
      · exact toOrdinal_le_max _ _ _ hv
      · simp only [dateOrdinal]; rw [fromOrdinal_toOrdinal _ _ _ hv.1 hv.2.2]
    · refine ⟨by simp only [dateWF, decide_eq_true_eq]; exact hv, ?_, ?_, ?_, by simp [DateForm.complete]⟩
      · exact toOrdinal_pos _ _ _ hv.1 hv.2.2
      · exact toOrdinal_le_max _ _ _ hv
      · simp only [dateOrdinal]; rw [fromOrdinal_toOrdinal _ _ _ hv.1 hv.2.2]
  · exact h

/-- COMPLETE soundness of `parse_isodate` -/
theorem parseIsodateEntry_sound (s : Bytes) (y m d : Int) (h : parseIsodateEntry s = .ok (y, m, d)) :
    ∃ df x, s = renderDate df x ∧ dateWF true df x = true ∧ 1 ≤ dateOrdinal df x ∧
      dateOrdinal df x ≤ maxOrdinal ∧ (y, m, d) = fromOrdinal (dateOrdinal df x) := by
  unfold parseIsodateEntry at h
  cases hp : parseIsodate s with
  | error e => simp [hp, bind, Except.bind] at h
  | ok p =>
    obtain ⟨⟨y', m', d'⟩, rest⟩ := p
    simp only [hp, bind, Except.bind] at h
    by_cases hr : rest = []
    · rw [if_neg (fun hn => hn hr)] at h
      by_cases hv : validDate y' m' d' = true
      · rw [if_pos hv] at h
        cases h
        subst hr
        obtain ⟨df, x, es, hsc⟩ := parseIsodate_inv s _ _ hp
        have hv' : ValidDate y m d := by simpa [validDate] using hv
        obtain ⟨h1, h2, h3, h4, _⟩ := dateScan_valid df x y m d [] hsc hv'
        exact ⟨df, x, by simpa using es, h1, h2, h3, h4⟩
      · rw [if_neg hv] at h; cases h
    · rw [if_pos hr] at h; cases h
end Iso
