/-
  Proofs/RRuleStrOrder.lean — the order of the `;`-separated parts of an RRULE value does not matter
  when no two parts set the same keyword argument (C13).
-/
import DateutilVerif.Proofs.RRuleStrErrors

namespace RRuleStr
open ICal (isSpace upper splitOnChar pyInt rstrip strip isDigit splitLines)

variable {po : ParseOpts}

/-- the assignment one `NAME=VALUE` pair makes, independent of the state -/
def stepU (po : ParseOpts) (pair : List Char) : Py.R Update :=
  match splitOnChar '=' pair with
  | [name, value] =>
    match handleU po (upper name) (upper value) with
    | .ok u => .ok u
    | .error _ => .error .ValueError
  | _ => .error .ValueError

theorem stepPair_eq (a : RArgs) (pair : List Char) :
    stepPair po a pair = (match stepU po pair with | .ok u => .ok (u.apply a) | .error _ => .error .ValueError) := by
  unfold stepPair stepU handle
  generalize splitOnChar '=' pair = l
  rcases l with _ | ⟨n, _ | ⟨v, _ | ⟨w, r⟩⟩⟩
  · rfl
  · rfl
  · simp only []
    cases handleU po (upper n) (upper v) <;> rfl
  · rfl

/-- assignments to different keys commute -/
theorem apply_comm (u v : Update) (a : RArgs) (h : u.field ≠ v.field) : u.apply (v.apply a) = v.apply (u.apply a) := by
  cases u <;> cases v <;> first | rfl | exact absurd rfl h

/-- the keyword a part name stands for (BYDAY and BYWEEKDAY are the same keyword) -/
def fieldOfName (name : List Char) : Option Field :=
  if name == lit "INTERVAL" then some .interval
  else if name == lit "COUNT" then some .count
  else if name == lit "BYSETPOS" then some .bysetpos
  else if name == lit "BYMONTH" then some .bymonth
  else if name == lit "BYMONTHDAY" then some .bymonthday
  else if name == lit "BYYEARDAY" then some .byyearday
  else if name == lit "BYEASTER" then some .byeaster
  else if name == lit "BYWEEKNO" then some .byweekno
  else if name == lit "BYHOUR" then some .byhour
  else if name == lit "BYMINUTE" then some .byminute
  else if name == lit "BYSECOND" then some .bysecond
  else if name == lit "FREQ" then some .freq
  else if name == lit "UNTIL" then some .untilV
  else if name == lit "WKST" then some .wkst
  else if name == lit "BYWEEKDAY" || name == lit "BYDAY" then some .byweekday
  else none

/-- close one branch of `handleU_field`: the handler either failed or made the assignment of that branch -/
macro "fin_handle " h:ident : tactic => `(tactic|
  first
    | (cases $h:ident; rfl)
    | (try simp only [bind, Except.bind] at $h:ident
       split at $h:ident <;> first | (cases $h:ident; done) | (cases $h:ident; rfl)))

theorem handleU_field {name value : List Char} {u : Update} (h : handleU po name value = .ok u) :
    fieldOfName name = some u.field := by
  unfold handleU at h
  unfold fieldOfName
  by_cases c0 : (name == lit "INTERVAL") = true
  · rw [if_pos c0] at h ⊢; fin_handle h
  rw [if_neg c0] at h ⊢
  by_cases c1 : (name == lit "COUNT") = true
  · rw [if_pos c1] at h ⊢; fin_handle h
  rw [if_neg c1] at h ⊢
  by_cases c2 : (name == lit "BYSETPOS") = true
  · rw [if_pos c2] at h ⊢; fin_handle h
  rw [if_neg c2] at h ⊢
  by_cases c3 : (name == lit "BYMONTH") = true
  · rw [if_pos c3] at h ⊢; fin_handle h
  rw [if_neg c3] at h ⊢
  by_cases c4 : (name == lit "BYMONTHDAY") = true
  · rw [if_pos c4] at h ⊢; fin_handle h
  rw [if_neg c4] at h ⊢
  by_cases c5 : (name == lit "BYYEARDAY") = true
  · rw [if_pos c5] at h ⊢; fin_handle h
  rw [if_neg c5] at h ⊢
  by_cases c6 : (name == lit "BYEASTER") = true
  · rw [if_pos c6] at h ⊢; fin_handle h
  rw [if_neg c6] at h ⊢
  by_cases c7 : (name == lit "BYWEEKNO") = true
  · rw [if_pos c7] at h ⊢; fin_handle h
  rw [if_neg c7] at h ⊢
  by_cases c8 : (name == lit "BYHOUR") = true
  · rw [if_pos c8] at h ⊢; fin_handle h
  rw [if_neg c8] at h ⊢
  by_cases c9 : (name == lit "BYMINUTE") = true
  · rw [if_pos c9] at h ⊢; fin_handle h
  rw [if_neg c9] at h ⊢
  by_cases c10 : (name == lit "BYSECOND") = true
  · rw [if_pos c10] at h ⊢; fin_handle h
  rw [if_neg c10] at h ⊢
  by_cases c11 : (name == lit "FREQ") = true
  · rw [if_pos c11] at h ⊢; fin_handle h
  rw [if_neg c11] at h ⊢
  by_cases c12 : (name == lit "UNTIL") = true
  · rw [if_pos c12] at h ⊢; fin_handle h
  rw [if_neg c12] at h ⊢
  by_cases c13 : (name == lit "WKST") = true
  · rw [if_pos c13] at h ⊢; fin_handle h
  rw [if_neg c13] at h ⊢
  by_cases c : (name == lit "BYWEEKDAY" || name == lit "BYDAY") = true
  · rw [if_pos c] at h ⊢; fin_handle h
  rw [if_neg c] at h ⊢
  cases h

/-- the keyword a `NAME=VALUE` part sets, judged by its name alone (`none`: not a pair, or an unknown name) -/
def partField (pair : List Char) : Option Field :=
  match splitOnChar '=' pair with
  | [name, _] => fieldOfName (upper name)
  | _ => none

theorem stepU_field {p : List Char} {u : Update} (h : stepU po p = .ok u) : partField p = some u.field := by
  unfold stepU at h; unfold partField
  generalize splitOnChar '=' p = l at h ⊢
  rcases l with _ | ⟨n, _ | ⟨v, _ | ⟨w, r⟩⟩⟩
  · cases h
  · cases h
  · simp only [] at h ⊢
    cases hh : handleU po (upper n) (upper v) with
    | error e => rw [hh] at h; cases h
    | ok u' => rw [hh] at h; cases h; exact handleU_field hh
  · cases h

/-- two parts do not set the same keyword -/
def Distinct (p q : List Char) : Prop := ∀ f, partField p = some f → partField q ≠ some f

instance (p q : List Char) : Decidable (Distinct p q) :=
  match h : partField p with
  | none => isTrue (fun f hf => by rw [h] at hf; cases hf)
  | some f =>
    if hq : partField q = some f then isFalse (fun hd => hd f h hq)
    else isTrue (fun g hg => by rw [h] at hg; cases hg; exact hq)

theorem Distinct.symm {p q : List Char} (h : Distinct p q) : Distinct q p :=
  fun f hq hp => h f hp hq

/-- two adjacent parts that set different keywords can be swapped -/
theorem stepPair_swap (a : RArgs) (x y : List Char) (h : Distinct x y) :
    (stepPair po a x >>= fun a' => stepPair po a' y) = (stepPair po a y >>= fun a' => stepPair po a' x) := by
  simp only [stepPair_eq]
  cases hx : stepU po x with
  | error e =>
    cases hy : stepU po y with
    | error e' => rfl
    | ok v => simp only [bind, Except.bind]
  | ok u =>
    cases hy : stepU po y with
    | error e' => simp only [bind, Except.bind]
    | ok v =>
      simp only [bind, Except.bind]
      have hne : u.field ≠ v.field := fun e => h _ (stepU_field hx) (by rw [e]; exact stepU_field hy)
      rw [apply_comm v u a hne.symm]

/-- `parts_order_irrelevant`: the loop of `_parse_rfc_rrule` over any permutation of parts that set pairwise different
    keywords ends in the same state — the same arguments when every part parses, ValueError in every order otherwise -/
theorem foldlM_stepPair_perm {ps qs : List (List Char)} (hperm : ps.Perm qs) (hd : ps.Pairwise Distinct) (a : RArgs) :
    ps.foldlM (stepPair po) a = qs.foldlM (stepPair po) a := by
  induction hperm generalizing a with
  | nil => rfl
  | cons x _ ih =>
    rw [List.foldlM_cons, List.foldlM_cons]
    cases stepPair po a x with
    | error e => rfl
    | ok a' => exact ih (List.pairwise_cons.mp hd).2 a'
  | swap x y l =>
    have hxy : Distinct y x := (List.pairwise_cons.mp hd).1 x (by simp)
    simp only [List.foldlM_cons]
    rw [← bind_assoc, ← bind_assoc, stepPair_swap a y x hxy]
  | trans h1 _ ih1 ih2 =>
    rw [ih1 hd a]
    exact ih2 ((h1.pairwise_iff (fun h => Distinct.symm h)).mp hd) a

end RRuleStr
