/-
  Proofs/RRuleDropInterval.lean — since the constructor rejects INTERVAL < 1 (`construct_interval_pos`), the all-rules
  theorems need no separate hypothesis on INTERVAL: `construct a = .ok r` already implies `1 ≤ a.interval`.
-/
import DateutilVerif.Proofs.RRuleValid

namespace RRule

/-- **the yielded sequence is strictly increasing** — every rule the constructor accepts for a valid start, all seven
    frequencies, any BY parts (also inside the known-defect classes), any COUNT / UNTIL, any number of periods -/
theorem iter_strictMono_all' (a : Args) (r : Rule) (h : construct a = .ok r)
    (hw : 0 ≤ a.wkst.getD 0 ∧ a.wkst.getD 0 ≤ 6) (hv : a.dtstart.Valid)
    (hf : 0 ≤ a.freq ∧ a.freq ≤ 6) (n : Nat) :
    (iter r n).1.Pairwise secsLt :=
  iter_strictMono_all a r h (construct_interval_pos a r h) hw hv hf n

/-- the DT-level sequence is strictly increasing, and every element is a valid datetime with whole seconds -/
theorem iterDT_strictMono_valid' (a : Args) (r : Rule) (h : construct a = .ok r)
    (hw : 0 ≤ a.wkst.getD 0 ∧ a.wkst.getD 0 ≤ 6) (hv : a.dtstart.Valid)
    (hf : 0 ≤ a.freq ∧ a.freq ≤ 6) (n : Nat) :
    (iterDT r n).1.Pairwise (fun s t => s.toMicros < t.toMicros) ∧ ∀ t ∈ (iterDT r n).1, t.Valid ∧ t.us = 0 :=
  iterDT_strictMono_valid a r h (construct_interval_pos a r h) hw hv hf n

end RRule
