/-
  Proofs/RenderIsoX.lean — the token scan on `YYYY-MM-DD<sep>HH:MM[:SS[.f…]]<offset>` (families 1 and 2 of C02).
-/
import DateutilVerif.Proofs.RenderTac

namespace PM
open Py PT

@[simp] theorem dval_pad2 (n : Nat) (h : n < 100) : dval [n / 10, n] = n := by
  simp [dval, dvalAcc]; omega
@[simp] theorem dval_pad4 (n : Nat) (h : n < 10000) : dval [n / 1000, n / 100, n / 10, n] = n := by
  simp [dval, dvalAcc]; omega

theorem off_zero_iff (a b : Nat) : ((a : Int) * 3600 + (b : Int) * 60 = 0) ↔ (a = 0 ∧ b = 0) := by omega
@[simp] theorem dval_00 : dval [0, 0] = 0 := rfl
theorem off_zero_iff'' (b : Nat) : ((b : Int) * 60 = 0) ↔ b = 0 := by omega
theorem off_zero_iff' (a : Nat) : ((a : Int) * 3600 = 0) ↔ a = 0 := by omega
theorem offsetOk_hm (a b : Nat) (ha : a ≤ 23) (hb : b ≤ 59) :
    offsetOk ((a : Int) * 3600 + (b : Int) * 60) = true ∧ offsetOk (-((a : Int) * 3600 + (b : Int) * 60)) = true ∧
    offsetOk ((a : Int) * 3600) = true ∧ offsetOk (-((a : Int) * 3600)) = true ∧
    offsetOk ((b : Int) * 60) = true ∧ offsetOk (-((b : Int) * 60)) = true := by
  unfold offsetOk
  have e : ∀ n : Int, Int.ediv n 86400 = n / 86400 := fun _ => rfl
  simp only [Bool.and_eq_true, decide_eq_true_eq, e]
  refine ⟨⟨?_, ?_⟩, ⟨?_, ?_⟩, ⟨?_, ?_⟩, ⟨?_, ?_⟩, ⟨?_, ?_⟩, ⟨?_, ?_⟩⟩ <;> omega
@[simp] theorem offsetOk_zero : offsetOk 0 = true := by decide

def spT (sp : Bool) : List Token := if sp then [[' ']] else []

/-- tokens of an offset suffix -/
def offTokens : Off → List Token
  | .naive => []
  | .z sp => spT sp ++ [['Z']]
  | .utc => [[' '], ['U', 'T', 'C']]
  | .hh sp neg h => spT sp ++ [[sgn neg], dtok [h / 10, h]]
  | .hhmm sp neg h m => spT sp ++ [[sgn neg], dtok [h / 10, h, m / 10, m]]
  | .hhcmm sp neg h m => spT sp ++ [[sgn neg], dtok [h / 10, h], [':'], dtok [m / 10, m]]

/-- `tz.UTC`, or the process-zone row when the process zone is itself called UTC (the order `_build_tzaware` tests in).
    The row carries the parsed offset (`some 0`), so `localFinal` sends it to `tz.UTC` unless `tzlocal()` is at offset zero
    for that wall time: either way the result is at offset zero (`C02.offDescr_carries_offset`; D-C02-local-zone-named-utc
    is repaired). -/
def utcOrLocal (tznames : List Token) : TzDescr :=
  if tznames.contains ['U', 'T', 'C'] then .localZone ['U', 'T', 'C'] (some 0) else .utc

/-- the zone a suffix must give -/
def offDescr (tznames : List Token) (off : Off) : TzDescr :=
  match off.seconds with
  | none => .naive
  | some n => if n = 0 then utcOrLocal tznames else .fixed none n

def isoDateTokens (y m d : Nat) (S : Token) : List Token :=
  [dtok [y / 1000, y / 100, y / 10, y], ['-'], dtok [m / 10, m], ['-'], dtok [d / 10, d], S]

/-- what the options must be for these theorems: strict parse, no `dayfirst`, `tzinfos` silent on a missing
    name and on `UTC` -/
structure PlainOpts (o : Opts) (tzi : TzInfos) : Prop where
  fz : o.fuzzy = false
  fwt : o.fuzzyWithTokens = false
  df : o.dayfirst.getD false = false
  tz1 : tzi.applies none = false
  tz2 : tzi.applies (some ['U', 'T', 'C']) = false

end PM
