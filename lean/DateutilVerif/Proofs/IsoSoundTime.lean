/- Proofs/IsoSoundTime.lean — inversion of the `_parse_isotime` loop: every accepting path reconstructs a time
   form, its fields and (through `parseTzstr_sound`) an offset form. -/
import DateutilVerif.Proofs.IsoSoundDate
set_option linter.unusedSimpArgs false
namespace Iso
open Cal IsoSpec Py

/-- how the loop ends once the numeric components are read: at the end of the string, or at a zone
    designator that `_parse_tzstr` accepts -/
def TailRes (r : Bytes) (c c' : TComps) : Prop :=
  (r = [] ∧ c' = c) ∨ (∃ tz, r ≠ [] ∧ parseTzstr r true = .ok tz ∧ c' = { c with tz := some tz })

/-- the zone-designator branch of one iteration, for `comp ≠ 0` -/
theorem tz_branch (k : Nat) (hk : k ≠ 0) (r : Bytes) (c c' : TComps) (hr : r ≠ [])
    (h : (if k = 0 then (Except.error PyErr.ValueError : R (TComps × Bytes)) else
          match parseTzstr r true with
          | .error e => .error e
          | .ok tz => .ok ({ c with tz := some tz }, [])) = .ok (c', [])) : TailRes r c c' := by
  rw [if_neg hk] at h
  cases hp : parseTzstr r true with
  | error e => simp [hp] at h
  | ok tz => simp only [hp] at h; cases h; exact Or.inr ⟨tz, hr, hp, rfl⟩

theorem step0_inv (ks : List Nat) (r : Bytes) (hs : Bool) (c c' : TComps) (hr : r ≠ [])
    (h : timeLoop (0 :: ks) r hs c = .ok (c', [])) :
    ∃ (n : Nat), n < 100 ∧ r = pad2 n ++ r.drop 2 ∧
      timeLoop ks (r.drop 2) hs { c with h := n } = .ok (c', []) := by
  unfold timeLoop at h
  rw [if_neg hr] at h
  by_cases htz : isTzStart r = true
  · rw [if_pos htz] at h; simp at h
  · rw [if_neg htz] at h
    simp [sepStep] at h
    cases hd : parseDigits (r.take 2) 2 with
    | error e => simp [hd] at h
    | ok v =>
      obtain ⟨n, hn, rfl, e⟩ := take_digits2 r v hd
      simp only [hd, setComp] at h
      exact ⟨n, hn, e, by simpa using h⟩

theorem step1_inv (ks : List Nat) (r : Bytes) (hs : Bool) (c c' : TComps)
    (h : timeLoop (1 :: ks) r hs c = .ok (c', [])) :
    TailRes r c c' ∨
    (∃ (n : Nat), n < 100 ∧ r = 58 :: (pad2 n ++ (r.drop 1).drop 2) ∧
      timeLoop ks ((r.drop 1).drop 2) true { c with m := n } = .ok (c', [])) ∨
    (∃ (n : Nat), n < 100 ∧ r = pad2 n ++ r.drop 2 ∧
      timeLoop ks (r.drop 2) hs { c with m := n } = .ok (c', [])) := by
  unfold timeLoop at h
  by_cases hr : r = []
  · rw [if_pos hr] at h; cases h; exact Or.inl (Or.inl ⟨hr, rfl⟩)
  rw [if_neg hr] at h
  by_cases htz : isTzStart r = true
  · rw [if_pos htz] at h; exact Or.inl (tz_branch 1 (by decide) r c c' hr h)
  rw [if_neg htz] at h
  by_cases hcol : r.take 1 = [cColon]
  · have er : r = 58 :: r.drop 1 := by
      have := take1_eq r cColon (by simp [hcol]); simpa [cColon] using this
    obtain ⟨r1, rfl⟩ : ∃ r1, r = 58 :: r1 := ⟨r.drop 1, er⟩
    simp [sepStep, cColon] at h
    cases hd : parseDigits (r1.take 2) 2 with
    | error e => simp [hd] at h
    | ok v =>
      obtain ⟨n, hn, rfl, e⟩ := take_digits2 r1 v hd
      simp only [hd, setComp] at h
      refine Or.inr (Or.inl ⟨n, hn, ?_, by simpa using h⟩)
      simp only [List.drop_succ_cons, List.drop_zero]; rw [← e]
  · simp [sepStep, hcol] at h
    cases hd : parseDigits (r.take 2) 2 with
    | error e => simp [hd] at h
    | ok v =>
      obtain ⟨n, hn, rfl, e⟩ := take_digits2 r v hd
      simp only [hd, setComp] at h
      exact Or.inr (Or.inr ⟨n, hn, e, by simpa using h⟩)

theorem step2t_inv (ks : List Nat) (r : Bytes) (c c' : TComps)
    (h : timeLoop (2 :: ks) r true c = .ok (c', [])) :
    TailRes r c c' ∨
    (∃ (n : Nat), n < 100 ∧ r = 58 :: (pad2 n ++ (r.drop 1).drop 2) ∧
      timeLoop ks ((r.drop 1).drop 2) true { c with s := n } = .ok (c', [])) := by
  unfold timeLoop at h
  by_cases hr : r = []
  · rw [if_pos hr] at h; cases h; exact Or.inl (Or.inl ⟨hr, rfl⟩)
  rw [if_neg hr] at h
  by_cases htz : isTzStart r = true
  · rw [if_pos htz] at h; exact Or.inl (tz_branch 2 (by decide) r c c' hr h)
  rw [if_neg htz] at h
  by_cases hcol : r.take 1 = [cColon]
  · have er : r = 58 :: r.drop 1 := by
      have := take1_eq r cColon (by simp [hcol]); simpa [cColon] using this
    obtain ⟨r1, rfl⟩ : ∃ r1, r = 58 :: r1 := ⟨r.drop 1, er⟩
    simp [sepStep, cColon] at h
    cases hd : parseDigits (r1.take 2) 2 with
    | error e => simp [hd] at h
    | ok v =>
      obtain ⟨n, hn, rfl, e⟩ := take_digits2 r1 v hd
      simp only [hd, setComp] at h
      refine Or.inr ⟨n, hn, ?_, by simpa using h⟩
      simp only [List.drop_succ_cons, List.drop_zero]; rw [← e]
  · simp [sepStep, hcol] at h

theorem step2f_inv (ks : List Nat) (r : Bytes) (c c' : TComps)
    (h : timeLoop (2 :: ks) r false c = .ok (c', [])) :
    TailRes r c c' ∨
    (∃ (n : Nat), n < 100 ∧ r = pad2 n ++ r.drop 2 ∧
      timeLoop ks (r.drop 2) false { c with s := n } = .ok (c', [])) := by
  unfold timeLoop at h
  by_cases hr : r = []
  · rw [if_pos hr] at h; cases h; exact Or.inl (Or.inl ⟨hr, rfl⟩)
  rw [if_neg hr] at h
  by_cases htz : isTzStart r = true
  · rw [if_pos htz] at h; exact Or.inl (tz_branch 2 (by decide) r c c' hr h)
  rw [if_neg htz] at h
  simp [sepStep] at h
  cases hd : parseDigits (r.take 2) 2 with
  | error e => simp [hd] at h
  | ok v =>
    obtain ⟨n, hn, rfl, e⟩ := take_digits2 r v hd
    simp only [hd, setComp] at h
    exact Or.inr ⟨n, hn, e, by simpa using h⟩


theorem takeWhile_split (p : Nat → Bool) (l : List Nat) :
    l = l.takeWhile p ++ l.drop (l.takeWhile p).length ∧ (l.takeWhile p).all p = true := by
  constructor
  · induction l with
    | nil => simp
    | cons a t ih =>
      by_cases hp : p a = true
      · simp [List.takeWhile, hp]; exact ih
      · simp [List.takeWhile, hp]
  · induction l with
    | nil => simp
    | cons a t ih =>
      by_cases hp : p a = true
      · simp [List.takeWhile, hp]
      · simp [List.takeWhile, hp]

theorem matchFraction_inv (r ds rest : Bytes) (h : matchFraction r = some (ds, rest)) :
    ∃ mark, (mark = 46 ∨ mark = 44) ∧ r = mark :: (ds ++ rest) ∧ ds ≠ [] ∧ ds.all isDigit = true := by
  cases r with
  | nil => simp [matchFraction] at h
  | cons b t =>
    simp only [matchFraction] at h
    by_cases hb : b = cDot ∨ b = cComma
    · rw [if_pos hb] at h
      by_cases hd : t.takeWhile isDigit = []
      · simp [hd] at h
      · simp only [hd, if_false, Option.some.injEq, Prod.mk.injEq] at h
        obtain ⟨rfl, rfl⟩ := h
        have sp := takeWhile_split isDigit t
        exact ⟨b, by simpa [cDot, cComma] using hb, by rw [← sp.1], hd, sp.2⟩
    · rw [if_neg hb] at h; cases h

/-- iterations 4 and 5 read nothing: with input left that is not a zone designator the loop
    ends with that input unused -/
theorem high_nontz (ks : List Nat) (hk : ∀ k ∈ ks, 4 ≤ k) (r : Bytes) (hs : Bool) (c c' : TComps)
    (rest : Bytes) (hr : r ≠ []) (htz : isTzStart r = false)
    (h : timeLoop ks r hs c = .ok (c', rest)) : rest = r := by
  induction ks with
  | nil => unfold timeLoop at h; cases h; rfl
  | cons k ks ih =>
    have hk4 : 4 ≤ k := hk k (by simp)
    unfold timeLoop at h
    rw [if_neg hr, if_neg (by simp [htz])] at h
    have h1 : ¬ (k = 1) := by omega
    have h2 : ¬ (k = 2) := by omega
    have h3 : ¬ (k < 3) := by omega
    have h4 : ¬ (k = 3) := by omega
    simp [sepStep, h1, h2, h3, h4] at h
    exact ih (fun k hk' => hk k (by simp [hk'])) h

theorem high_inv (ks : List Nat) (hk : ∀ k ∈ ks, 4 ≤ k) (r : Bytes) (hs : Bool) (c c' : TComps)
    (h : timeLoop ks r hs c = .ok (c', [])) : TailRes r c c' := by
  by_cases hr : r = []
  · subst hr
    cases ks with
    | nil => unfold timeLoop at h; cases h; exact Or.inl ⟨rfl, rfl⟩
    | cons k ks => unfold timeLoop at h; simp at h; cases h; exact Or.inl ⟨rfl, rfl⟩
  · cases ks with
    | nil => unfold timeLoop at h; cases h; exact absurd rfl hr
    | cons k ks =>
      have hk4 : 4 ≤ k := hk k (by simp)
      by_cases htz : isTzStart r = true
      · unfold timeLoop at h
        rw [if_neg hr, if_pos htz] at h
        exact tz_branch k (by omega) r c c' hr h
      · have := high_nontz (k :: ks) hk r hs c c' [] hr (by simpa using htz) h
        exact absurd this.symm hr

theorem step3_inv (ks : List Nat) (hk : ∀ k ∈ ks, 4 ≤ k) (r : Bytes) (hs : Bool) (c c' : TComps)
    (h : timeLoop (3 :: ks) r hs c = .ok (c', [])) :
    TailRes r c c' ∨
    (∃ mark ds rest, (mark = 46 ∨ mark = 44) ∧ r = mark :: (ds ++ rest) ∧ ds ≠ [] ∧ ds.all isDigit = true ∧
      TailRes rest { c with us := ((digitsVal (ds.take 6) * 10 ^ (6 - (ds.take 6).length) : Nat) : Int) } c') := by
  unfold timeLoop at h
  by_cases hr : r = []
  · rw [if_pos hr] at h; cases h; exact Or.inl (Or.inl ⟨hr, rfl⟩)
  rw [if_neg hr] at h
  by_cases htz : isTzStart r = true
  · rw [if_pos htz] at h; exact Or.inl (tz_branch 3 (by decide) r c c' hr h)
  rw [if_neg htz] at h
  simp [sepStep] at h
  cases hm : matchFraction r with
  | none =>
    simp only [hm] at h
    have := high_nontz ks hk r hs c c' [] hr (by simpa using htz) h
    exact absurd this.symm hr
  | some p =>
    obtain ⟨ds, rest⟩ := p
    simp only [hm, setComp] at h
    obtain ⟨mark, hmk, er, hne, hd⟩ := matchFraction_inv r ds rest hm
    refine Or.inr ⟨mark, ds, rest, hmk, er, hne, hd, ?_⟩
    exact high_inv ks hk rest hs _ c' (by simpa using h)


theorem map_dch_sub (ds : Bytes) (h : ds.all isDigit = true) : (ds.map (· - 48)).map dch = ds := by
  induction ds with
  | nil => rfl
  | cons a t ih =>
    simp only [List.all_cons, Bool.and_eq_true] at h
    simp only [List.map_cons, dch_of_digit a h.1, ih h.2]

theorem digits_le9 (ds : Bytes) (h : ds.all isDigit = true) : ∀ d ∈ ds.map (· - 48), d ≤ 9 := by
  intro d hd
  simp only [List.mem_map] at hd
  obtain ⟨b, hb, rfl⟩ := hd
  have := (isDigit_iff b).mp (by simpa using (List.all_eq_true.mp h) b hb)
  omega

/-- the components as the spec shows them -/
def shownComps (tf : TimeForm) (xt : Fields) : TComps :=
  { h := (timeShown tf xt).1, m := (timeShown tf xt).2.1, s := (timeShown tf xt).2.2.1,
    us := (timeShown tf xt).2.2.2 }

/-- what the time scanner has established about the numeric part -/
def TimeScan (tf : TimeForm) (xt : Fields) : Prop :=
  tf ≠ .none ∧ xt.hh < 100 ∧ xt.mm < 100 ∧ xt.ss < 100 ∧
  (tf.hasFrac = true → xt.frac ≠ [] ∧ ∀ d ∈ xt.frac, d ≤ 9)

/-- `int(us_str) * 10**(6 - len(us_str))` for `us_str = group(1)[:6]` -/
def usOf (ds : Bytes) : Int := ((digitsVal (ds.take 6) * 10 ^ (6 - (ds.take 6).length) : Nat) : Int)

theorem frac_ext (n0 n1 n2 : Nat) (hn0 : n0 < 100) (hn1 : n1 < 100) (hn2 : n2 < 100)
    (s r1 r2 r3 : Bytes) (e0 : s = pad2 n0 ++ r1) (e1 : r1 = 58 :: (pad2 n1 ++ r2)) (e2 : r2 = 58 :: (pad2 n2 ++ r3))
    (mark : Nat) (ds rest : Bytes) (hmk : mark = 46 ∨ mark = 44) (e3 : r3 = mark :: (ds ++ rest))
    (hne : ds ≠ []) (hd : ds.all isDigit = true) (c' : TComps)
    (hT : TailRes rest { h := n0, m := n1, s := n2, us := usOf ds } c') :
    ∃ (tf : TimeForm) (xt : Fields) (r : Bytes), TimeScan tf xt ∧ s = renderTime tf xt ++ r ∧
      TailRes r (shownComps tf xt) c' := by
  have hcm : fracMark (decide (mark = 44)) = mark := by
    rcases hmk with rfl | rfl <;> simp [fracMark]
  have hmd := map_dch_sub ds hd
  have h9 := digits_le9 ds hd
  refine ⟨.hmsfExt (decide (mark = 44)), { year := 0, hh := n0, mm := n1, ss := n2, frac := ds.map (· - 48) }, rest,
    ⟨by simp, hn0, hn1, hn2, fun _ => ⟨by simpa using hne, h9⟩⟩, ?_, ?_⟩
  · rw [e0, e1, e2, e3]; simp [renderTime, hcm, hmd]
  · have e : shownComps (.hmsfExt (decide (mark = 44))) { year := 0, hh := n0, mm := n1, ss := n2, frac := ds.map (· - 48) } =
        { h := n0, m := n1, s := n2, us := usOf ds } := by
      have := fracMicros_eq (ds.map (· - 48)) h9
      rw [hmd] at this
      simp only [shownComps, timeShown, TimeForm.hasM, TimeForm.hasS, TimeForm.hasFrac, if_true, ← this, usOf]
      simp
    rw [e]; exact hT

theorem frac_bas (n0 n1 n2 : Nat) (hn0 : n0 < 100) (hn1 : n1 < 100) (hn2 : n2 < 100)
    (s r1 r2 r3 : Bytes) (e0 : s = pad2 n0 ++ r1) (e1 : r1 = pad2 n1 ++ r2) (e2 : r2 = pad2 n2 ++ r3)
    (mark : Nat) (ds rest : Bytes) (hmk : mark = 46 ∨ mark = 44) (e3 : r3 = mark :: (ds ++ rest))
    (hne : ds ≠ []) (hd : ds.all isDigit = true) (c' : TComps)
    (hT : TailRes rest { h := n0, m := n1, s := n2, us := usOf ds } c') :
    ∃ (tf : TimeForm) (xt : Fields) (r : Bytes), TimeScan tf xt ∧ s = renderTime tf xt ++ r ∧
      TailRes r (shownComps tf xt) c' := by
  have hcm : fracMark (decide (mark = 44)) = mark := by
    rcases hmk with rfl | rfl <;> simp [fracMark]
  have hmd := map_dch_sub ds hd
  have h9 := digits_le9 ds hd
  refine ⟨.hmsfBas (decide (mark = 44)), { year := 0, hh := n0, mm := n1, ss := n2, frac := ds.map (· - 48) }, rest,
    ⟨by simp, hn0, hn1, hn2, fun _ => ⟨by simpa using hne, h9⟩⟩, ?_, ?_⟩
  · rw [e0, e1, e2, e3]; simp [renderTime, hcm, hmd]
  · have e : shownComps (.hmsfBas (decide (mark = 44))) { year := 0, hh := n0, mm := n1, ss := n2, frac := ds.map (· - 48) } =
        { h := n0, m := n1, s := n2, us := usOf ds } := by
      have := fracMicros_eq (ds.map (· - 48)) h9
      rw [hmd] at this
      simp only [shownComps, timeShown, TimeForm.hasM, TimeForm.hasS, TimeForm.hasFrac, if_true, ← this, usOf]
      simp
    rw [e]; exact hT

theorem timeLoop_inv (s : Bytes) (c' : TComps) (hl : ¬ s.length < 2)
    (h : timeLoop [0, 1, 2, 3, 4, 5] s false {} = .ok (c', [])) :
    ∃ (tf : TimeForm) (xt : Fields) (r : Bytes), TimeScan tf xt ∧ s = renderTime tf xt ++ r ∧
      TailRes r (shownComps tf xt) c' := by
  have hs0 : s ≠ [] := by intro e; subst e; simp at hl
  obtain ⟨n0, hn0, e0, h⟩ := step0_inv _ s false {} c' hs0 h
  generalize s.drop 2 = r1 at *
  rcases step1_inv _ r1 false _ c' h with hT | ⟨n1, hn1, e1, h⟩ | ⟨n1, hn1, e1, h⟩
  · refine ⟨.h, { year := 0, hh := n0 }, r1, ⟨by simp, hn0, by simp, by simp, by simp [TimeForm.hasFrac]⟩, ?_, ?_⟩
    · rw [e0]; simp [renderTime]
    · have e : shownComps .h { year := 0, hh := n0 } = { ({} : TComps) with h := n0 } := by
        simp [shownComps, timeShown, TimeForm.hasM, TimeForm.hasS, TimeForm.hasFrac]
      rw [e]; exact hT
  · generalize (r1.drop 1).drop 2 = r2 at *
    rcases step2t_inv _ r2 _ c' h with hT | ⟨n2, hn2, e2, h⟩
    · refine ⟨.hmExt, { year := 0, hh := n0, mm := n1 }, r2, ⟨by simp, hn0, hn1, by simp, by simp [TimeForm.hasFrac]⟩, ?_, ?_⟩
      · rw [e0, e1]; simp [renderTime]
      · have e : shownComps .hmExt { year := 0, hh := n0, mm := n1 } = { h := n0, m := n1 } := by
          simp [shownComps, timeShown, TimeForm.hasM, TimeForm.hasS, TimeForm.hasFrac]
        rw [e]; exact hT
    · generalize (r2.drop 1).drop 2 = r3 at *
      rcases step3_inv [4, 5] (by intro k hk; simp at hk; omega) r3 _ _ c' h with hT | ⟨mark, ds, rest, hmk, e3, hne, hd, hT⟩
      · refine ⟨.hmsExt, { year := 0, hh := n0, mm := n1, ss := n2 }, r3, ⟨by simp, hn0, hn1, hn2, by simp [TimeForm.hasFrac]⟩, ?_, ?_⟩
        · rw [e0, e1, e2]; simp [renderTime]
        · have e : shownComps .hmsExt { year := 0, hh := n0, mm := n1, ss := n2 } = { h := n0, m := n1, s := n2 } := by
            simp [shownComps, timeShown, TimeForm.hasM, TimeForm.hasS, TimeForm.hasFrac]
          rw [e]; exact hT
      · exact frac_ext n0 n1 n2 hn0 hn1 hn2 s r1 r2 r3 e0 e1 e2 mark ds rest hmk e3 hne hd c' hT
  · generalize r1.drop 2 = r2 at *
    rcases step2f_inv _ r2 _ c' h with hT | ⟨n2, hn2, e2, h⟩
    · refine ⟨.hmBas, { year := 0, hh := n0, mm := n1 }, r2, ⟨by simp, hn0, hn1, by simp, by simp [TimeForm.hasFrac]⟩, ?_, ?_⟩
      · rw [e0, e1]; simp [renderTime]
      · have e : shownComps .hmBas { year := 0, hh := n0, mm := n1 } = { h := n0, m := n1 } := by
          simp [shownComps, timeShown, TimeForm.hasM, TimeForm.hasS, TimeForm.hasFrac]
        rw [e]; exact hT
    · generalize r2.drop 2 = r3 at *
      rcases step3_inv [4, 5] (by intro k hk; simp at hk; omega) r3 _ _ c' h with hT | ⟨mark, ds, rest, hmk, e3, hne, hd, hT⟩
      · refine ⟨.hmsBas, { year := 0, hh := n0, mm := n1, ss := n2 }, r3, ⟨by simp, hn0, hn1, hn2, by simp [TimeForm.hasFrac]⟩, ?_, ?_⟩
        · rw [e0, e1, e2]; simp [renderTime]
        · have e : shownComps .hmsBas { year := 0, hh := n0, mm := n1, ss := n2 } = { h := n0, m := n1, s := n2 } := by
            simp [shownComps, timeShown, TimeForm.hasM, TimeForm.hasS, TimeForm.hasFrac]
          rw [e]; exact hT
      · exact frac_bas n0 n1 n2 hn0 hn1 hn2 s r1 r2 r3 e0 e1 e2 mark ds rest hmk e3 hne hd c' hT


theorem offDenote_eq (o : OffForm) (x : Fields) (ho : o ≠ .naive) :
    offDenote o x = some (offValue true o x) := by
  cases o with
  | naive => exact absurd rfl ho
  | Z => rfl
  | z => rfl
  | hh => simp only [offDenote, offValue]; split <;> simp_all
  | hhmm => simp only [offDenote, offValue]; split <;> simp_all
  | hhcmm => simp only [offDenote, offValue]; split <;> simp_all

theorem tailRes_off (r : Bytes) (c c' : TComps) (hc : c.tz = none) (h : TailRes r c c') :
    ∃ (o : OffForm) (xo : Fields), offWF o xo = true ∧ r = renderOff o xo ∧
      c' = { c with tz := offDenote o xo } := by
  rcases h with ⟨rfl, rfl⟩ | ⟨tz, _, hp, rfl⟩
  · refine ⟨.naive, { year := 0 }, rfl, rfl, ?_⟩
    cases c'; simp at hc; subst hc; rfl
  · obtain ⟨o, xo, ho, hw, er, hv⟩ := parseTzstr_sound r true tz hp
    exact ⟨o, xo, hw, er, by rw [offDenote_eq o xo ho, hv]⟩

theorem parseIsotime_inv (s : Bytes) (c : TComps) (h : parseIsotime s = .ok c) :
    ∃ (tf : TimeForm) (xt : Fields) (o : OffForm) (xo : Fields), TimeScan tf xt ∧ offWF o xo = true ∧
      s = renderTime tf xt ++ renderOff o xo ∧
      c = { shownComps tf xt with tz := offDenote o xo } ∧
      (c.h = 24 → c.m = 0 ∧ c.s = 0 ∧ c.us = 0) := by
  unfold parseIsotime at h
  by_cases hl : s.length < 2
  · rw [if_pos hl] at h; cases h
  rw [if_neg hl] at h
  cases hloop : timeLoop [0, 1, 2, 3, 4, 5] s false {} with
  | error e => simp [hloop] at h
  | ok p =>
    obtain ⟨c1, rest⟩ := p
    simp only [hloop] at h
    by_cases hrest : rest = []
    · subst hrest
      rw [if_neg (fun hn => hn rfl)] at h
      by_cases h24 : c1.h = 24 ∧ (c1.m ≠ 0 ∨ c1.s ≠ 0 ∨ c1.us ≠ 0)
      · rw [if_pos h24] at h; cases h
      · rw [if_neg h24] at h
        cases h
        obtain ⟨tf, xt, r, hscan, es, hT⟩ := timeLoop_inv s c hl hloop
        obtain ⟨o, xo, hw, er, hc⟩ := tailRes_off r _ c rfl hT
        refine ⟨tf, xt, o, xo, hscan, hw, by rw [es, er], hc, ?_⟩
        intro hh
        by_cases a : c.m = 0
        · by_cases b : c.s = 0
          · by_cases d : c.us = 0
            · exact ⟨a, b, d⟩
            · exact absurd ⟨hh, Or.inr (Or.inr d)⟩ h24
          · exact absurd ⟨hh, Or.inr (Or.inl b)⟩ h24
        · exact absurd ⟨hh, Or.inl a⟩ h24
    · rw [if_pos hrest] at h; cases h
end Iso
