/-
  Proofs/RRuleMonoThm.lean — strict monotonicity, part 3: rules built by `construct` satisfy
  `RuleOk`, `init` establishes the invariant, and the theorem for the calendar frequencies.
-/
import DateutilVerif.Proofs.RRuleMonoCal
import DateutilVerif.Proofs.RRuleConstruct

namespace RRule
open Cal

/-- every rule built by the constructor with INTERVAL ≥ 1 and a week start in 0..6 -/
theorem construct_ruleOk (a : Args) (r : Rule) (h : construct a = .ok r) (hi : 1 ≤ a.interval)
    (hw : 0 ≤ a.wkst.getD 0 ∧ a.wkst.getD 0 ≤ 6) : RuleOk r := by
  obtain ⟨sp, bh, bm, bs, ts, h1, h2, h3, h4, h5, rfl⟩ := construct_ok a r h
  have n2 := normUnit_nodup _ _ _ _ _ _ _ h2
  have n3 := normUnit_nodup _ _ _ _ _ _ _ h3
  have n4 := normUnit_nodup _ _ _ _ _ _ _ h4
  refine ⟨hi, hw, ?_, n3, n4⟩
  intro hf
  dsimp only at hf ⊢
  unfold timesetOf at h5
  rw [if_neg (by omega)] at h5
  split at h5
  · rename_i t ht
    injection h5 with h5; subst h5
    exact (buildTimeset_ok _ _ _ t n2 n3 n4 ht).1
  · cases h5

/-- the initial state of a calendar-frequency rule satisfies the invariant -/
theorem init_calInv (r : Rule) (ok : RuleOk r) (hf : r.freq ≤ 3) (hv : r.dtstart.Valid) (st : State)
    (h : init r = .ok st) : CalInv r st := by
  unfold init at h
  simp only [bind, Except.bind] at h
  split at h
  · cases h
  · rename_i info hre
    rw [if_pos (by omega)] at h
    simp only [pure, Except.pure] at h
    injection h with h; subst h
    unfold DT.Valid ValidDate at hv
    exact ⟨rebuild_facts r _ _ info hre, ⟨hv.1.2.2.1, hv.1.2.2.2.1⟩, ok.timeset (by omega),
           fun _ => hv.1.2.2, fun _ => rfl⟩

/-- **strictly increasing, calendar frequencies**: for every rule built by the constructor from a
    valid start with INTERVAL ≥ 1 (any BY parts, any COUNT/UNTIL, also inside the known-defect
    classes), the values yielded in any number of periods are strictly increasing. -/
theorem iter_strictMono_calendar (a : Args) (r : Rule) (h : construct a = .ok r) (hi : 1 ≤ a.interval)
    (hw : 0 ≤ a.wkst.getD 0 ∧ a.wkst.getD 0 ≤ 6) (hv : a.dtstart.Valid)
    (hf : 0 ≤ a.freq ∧ a.freq ≤ 3) (n : Nat) :
    (iter r n).1.Pairwise secsLt := by
  have ok := construct_ruleOk a r h hi hw
  have hfr : r.freq = a.freq := (construct_fields a r h).1
  have hds : r.dtstart = { a.dtstart with us := 0 } := (construct_fields a r h).2.2.2.2.2.2.1
  have hv' : r.dtstart.Valid := by
    rw [hds]; unfold DT.Valid at hv ⊢; dsimp only
    exact ⟨hv.1, hv.2.1, hv.2.2.1, hv.2.2.2.1, hv.2.2.2.2.1, hv.2.2.2.2.2.1, hv.2.2.2.2.2.2.1, by omega, by omega⟩
  unfold iter
  split
  · exact List.Pairwise.nil
  · rename_i st hinit
    have inv := init_calInv r ok (by omega) hv' st hinit
    have hfr' : 0 ≤ r.freq ∧ r.freq ≤ 3 := by omega
    refine (run_pairwise r (CalInv r) (fun st => loOrd r st * 86400) ?_ ?_ ?_ n st inv).1
    · intro st inv x hx
      obtain ⟨hi', _, hwin, _, _⟩ := cal_window r ok hfr' st inv
      exact (hwin x hx).1
    · intro st inv
      obtain ⟨hi', _, _, hs, _⟩ := cal_window r ok hfr' st inv
      exact hs
    · intro st st' inv hst
      obtain ⟨hi', hlt, hwin, _, hnext⟩ := cal_window r ok hfr' st inv
      obtain ⟨inv', hle⟩ := hnext st' hst
      refine ⟨inv', ?_, ?_⟩
      · apply Int.mul_le_mul_of_nonneg_right <;> omega
      · intro x hx
        have := (hwin x hx).2
        have : hi' * 86400 ≤ loOrd r st' * 86400 := by apply Int.mul_le_mul_of_nonneg_right <;> omega
        omega

end RRule
