/-
  Proofs/ParserIsoTok.lean — the zero-padded decimal renderings `pad2 n`, `pad4 n` are numeric tokens
  with value `n` for any classification that agrees with ASCII on the characters involved, and the
  stock `parserinfo` tables contain none of them (for C02 `parse_render_iso`).
-/
import DateutilVerif.Proofs.ParserIsoRun

namespace PM
open Py PT

/-- the classification agrees with Python's on the characters of the ISO-like renderings -/
structure AsciiLike (cls : Char → CClass) : Prop where
  digit : ∀ j : Fin 10, cls (Char.ofNat (48 + j.val)) = .decDigit j.val
  dash : cls '-' = .other
  colon : cls ':' = .other
  tee : cls 'T' = .alpha
  space : cls ' ' = .space

theorem asciiCls_asciiLike : AsciiLike asciiCls :=
  ⟨by decide, by decide, by decide, by decide, by decide⟩

def isAsciiDigit (c : Char) : Bool := '0' ≤ c && c ≤ '9'

def firstIsDigit (t : Token) : Bool := match t with
  | c :: _ => isAsciiDigit c
  | [] => false

theorem digit_facts : ∀ j : Fin 10,
    Char.ofNat (48 + j.val) ≠ '.' ∧ Char.ofNat (48 + j.val) ≠ '\x00' ∧
    lowerChar (Char.ofNat (48 + j.val)) = Char.ofNat (48 + j.val) ∧ isAsciiDigit (Char.ofNat (48 + j.val)) = true := by
  decide

def dj (k : Nat) : Fin 10 := ⟨k % 10, Nat.mod_lt _ (by omega)⟩

theorem digitChar_eq (k : Nat) : digitChar k = Char.ofNat (48 + (dj k).val) := rfl

theorem digitVal_digitChar (cls : Char → CClass) (h : AsciiLike cls) (k : Nat) : digitVal cls (digitChar k) = some (k % 10) := by
  unfold digitVal
  rw [digitChar_eq, h.digit (dj k)]
  rfl

theorem isNum_digitChar (cls : Char → CClass) (h : AsciiLike cls) (k : Nat) : (cls (digitChar k)).isNum = true := by
  rw [digitChar_eq, h.digit (dj k)]; rfl

theorem digitChar_ne_dot (k : Nat) : digitChar k ≠ '.' := (digit_facts (dj k)).1
theorem digitChar_ne_nul (k : Nat) : digitChar k ≠ '\x00' := (digit_facts (dj k)).2.1
theorem lower_digitChar (k : Nat) : lowerChar (digitChar k) = digitChar k := (digit_facts (dj k)).2.2.1
theorem isAsciiDigit_digitChar (k : Nat) : isAsciiDigit (digitChar k) = true := (digit_facts (dj k)).2.2.2

/-! ### tables of the stock parserinfo contain no word that starts with a digit -/

theorem contains_false_of_first (l : List Token) (t : Token) (hl : ∀ k ∈ l, firstIsDigit k = false)
    (ht : firstIsDigit t = true) : l.contains t = false := by
  rw [List.contains_eq_mem]
  simp only [decide_eq_false_iff_not]
  intro hmem
  have := hl t hmem
  rw [ht] at this
  cases this

theorem lookupLast_none_of_first {β} (tbl : List (Token × β)) (t : Token) (hl : ∀ p ∈ tbl, firstIsDigit p.1 = false)
    (ht : firstIsDigit t = true) : lookupLast tbl t = none := by
  cases h : lookupLast tbl t with
  | none => rfl
  | some v =>
    exfalso
    unfold lookupLast at h
    have gen : ∀ (l : List (Token × β)) (acc : Option β), (∀ p ∈ l, firstIsDigit p.1 = false) →
        l.foldl (fun acc (kv : Token × β) => if kv.1 = t then some kv.2 else acc) acc = acc := by
      intro l
      induction l with
      | nil => intro acc _; rfl
      | cons a r ih =>
        intro acc hl
        simp only [List.foldl_cons]
        have ha : a.1 ≠ t := by
          intro heq
          have := hl a List.mem_cons_self
          rw [heq, ht] at this
          cases this
        simp only [ha, if_false]
        exact ih acc (fun p hp => hl p (List.mem_cons_of_mem _ hp))
    rw [gen tbl none hl] at h
    cases h

theorem jump_nodigit : ∀ k ∈ convertFlat Gen.PI_JUMP, firstIsDigit k = false := by decide
theorem months_nodigit : ∀ p ∈ convertGroups Gen.PI_MONTHS, firstIsDigit p.1 = false := by decide

/-- a fact about the stock tables and a concrete token: unfold to the dumped tables, then compute -/
macro "table_decide" : tactic =>
  `(tactic| (simp only [Info.hmsOf, Info.weekdayOf, Info.monthOf, Info.ampmOf, Info.isJump, Info.default]; decide))

/-! ### `pad2`, `pad4` -/

theorem numTok_of (cls : Char → CClass) (df yf : Bool) (year century : Int) (t : Token) (n : Nat)
    (hne : t ≠ []) (hlen : t.length ≤ 4)
    (hdig : ∀ c ∈ t, ∃ k, c = digitChar k)
    (hval : digitsVal cls t 0 = some n) (hcls : AsciiLike cls) :
    NumTok cls (Info.default df yf year century) t n := by
  have hnodot : t.contains '.' = false := by
    rw [List.contains_eq_mem]
    simp only [decide_eq_false_iff_not]
    intro hm
    obtain ⟨k, hk⟩ := hdig _ hm
    exact digitChar_ne_dot k hk.symm
  have hsplit : ∀ (l : List Char), (∀ c ∈ l, ∃ k, c = digitChar k) → splitDot l = (l, none) := by
    intro l
    induction l with
    | nil => intro _; rfl
    | cons a r ih =>
      intro hl
      obtain ⟨k, hk⟩ := hl a List.mem_cons_self
      have : a ≠ '.' := by rw [hk]; exact digitChar_ne_dot k
      simp only [splitDot, this, if_false]
      rw [ih (fun c hc => hl c (List.mem_cons_of_mem _ hc))]
  have hlower : lower t = t := by
    unfold lower
    have : ∀ (l : List Char), (∀ c ∈ l, ∃ k, c = digitChar k) → l.map lowerChar = l := by
      intro l
      induction l with
      | nil => intro _; rfl
      | cons a r ih =>
        intro hl
        obtain ⟨k, hk⟩ := hl a List.mem_cons_self
        simp only [List.map_cons, ih (fun c hc => hl c (List.mem_cons_of_mem _ hc))]
        rw [hk, lower_digitChar]
    exact this t hdig
  have hfirst : firstIsDigit t = true := by
    cases t with
    | nil => exact absurd rfl hne
    | cons a r =>
      obtain ⟨k, hk⟩ := hdig a List.mem_cons_self
      simp only [firstIsDigit, hk, isAsciiDigit_digitChar]
  have hempty : t.isEmpty = false := by cases t <;> simp_all
  have hnum : numForm cls t = some ⟨n, 0⟩ := by
    unfold numForm
    rw [hsplit t hdig]
    simp [hempty, hval]
  refine ⟨?_, ?_, ?_, ?_, hnodot, ?_, ?_⟩
  · simp [floatOk, hnum]
  · simp [toDecimal, hnum]
  · unfold pyInt
    have : ¬ t.length > intMaxStrDigits := by unfold intMaxStrDigits; omega
    simp [hempty, this, hval]
  · unfold isDigitTok
    simp only [hempty, Bool.not_false, Bool.true_and, List.all_eq_true]
    intro c hc
    obtain ⟨k, hk⟩ := hdig c hc
    rw [hk]; exact isNum_digitChar cls hcls k
  · show (Info.default df yf year century).jump.contains (lower t) = false
    rw [hlower]
    exact contains_false_of_first _ _ jump_nodigit hfirst
  · show ((lookupLast (Info.default df yf year century).months (lower t)).map (· + 1)) = none
    rw [hlower, show (Info.default df yf year century).months = convertGroups Gen.PI_MONTHS from rfl,
        lookupLast_none_of_first _ _ months_nodigit hfirst]
    rfl

theorem numTok_pad2 (cls : Char → CClass) (hcls : AsciiLike cls) (df yf : Bool) (year century : Int) (n : Nat) (hn : n < 100) :
    NumTok cls (Info.default df yf year century) (pad2 n) n := by
  refine numTok_of cls df yf year century (pad2 n) n (by simp [pad2]) (by simp [pad2]) ?_ ?_ hcls
  · intro c hc
    simp only [pad2, List.mem_cons, List.mem_nil_iff, or_false] at hc
    rcases hc with rfl | rfl <;> exact ⟨_, rfl⟩
  · simp only [pad2, digitsVal, digitVal_digitChar cls hcls]
    congr 1
    omega

theorem numTok_pad4 (cls : Char → CClass) (hcls : AsciiLike cls) (df yf : Bool) (year century : Int) (n : Nat) (hn : n < 10000) :
    NumTok cls (Info.default df yf year century) (pad4 n) n := by
  refine numTok_of cls df yf year century (pad4 n) n (by simp [pad4]) (by simp [pad4]) ?_ ?_ hcls
  · intro c hc
    simp only [pad4, List.mem_cons, List.mem_nil_iff, or_false] at hc
    rcases hc with rfl | rfl | rfl | rfl <;> exact ⟨_, rfl⟩
  · simp only [pad4, digitsVal, digitVal_digitChar cls hcls]
    congr 1
    omega

theorem digRun_of (cls : Char → CClass) (hcls : AsciiLike cls) (t : List Char) (hdig : ∀ c ∈ t, ∃ k, c = digitChar k) :
    DigRun cls t := by
  intro c hc
  obtain ⟨k, hk⟩ := hdig c hc
  rw [hk]
  exact ⟨isNum_digitChar cls hcls k, digitChar_ne_nul k⟩

theorem punctOk_default (df yf : Bool) (year century : Int) : PunctOk (Info.default df yf year century) :=
  ⟨by table_decide, by table_decide⟩

theorem sepTok_T (cls : Char → CClass) (hcls : AsciiLike cls) (df yf : Bool) (year century : Int) :
    SepTok cls (Info.default df yf year century) ['T'] := by
  refine ⟨?_, by table_decide, by table_decide, by table_decide, by table_decide, by table_decide⟩
  have : digitVal cls 'T' = none := by unfold digitVal; rw [hcls.tee]
  simp [floatOk, numForm, splitDot, digitsVal, this, tk]

theorem sepTok_space (cls : Char → CClass) (hcls : AsciiLike cls) (df yf : Bool) (year century : Int) :
    SepTok cls (Info.default df yf year century) [' '] := by
  refine ⟨?_, by table_decide, by table_decide, by table_decide, by table_decide, by table_decide⟩
  have : digitVal cls ' ' = none := by unfold digitVal; rw [hcls.space]
  simp [floatOk, numForm, splitDot, digitsVal, this, tk]

end PM
