/-
  Proofs/GettzGenEq.lean — the resolution cascade RE-TRANSLATED from `GettzFunc.nocache` (Generated/GettzNocache.lean,
  harness/translate_gettz.py) equals the C18 resolution model `Gettz.resolve` (Model/GettzResolve.lean): one lemma per
  translated `for` loop (induction over the list), then the straight-line part.
-/
import DateutilVerif.Generated.GettzNocache

namespace GzG
open Gettz

/-- inner loop of the unnamed branch: found -/
theorem loop1_some (e : Env) (fn : String) : ∀ (l : List String) (fp0 p : String),
    firstExisting e fn l = some p → Gen.nocache_loop1 e fn l fp0 = .ok (true, p) := by
  intro l
  induction l with
  | nil => intro fp0 p h; simp [firstExisting] at h
  | cons a rest ih =>
    intro fp0 p h
    unfold Gen.nocache_loop1
    unfold firstExisting at h
    by_cases hf : e.isfile (join a fn) = true
    · simp only [hf, if_true] at h ⊢
      injection h with h; rw [h]
    · simp only [hf] at h ⊢
      exact ih _ p h

/-- inner loop of the unnamed branch: not found (`for … else: continue`) -/
theorem loop1_none (e : Env) (fn : String) : ∀ (l : List String) (fp0 : String),
    firstExisting e fn l = none → ∃ fp', Gen.nocache_loop1 e fn l fp0 = .ok (false, fp') := by
  intro l
  induction l with
  | nil => intro fp0 _; exact ⟨fp0, rfl⟩
  | cons a rest ih =>
    intro fp0 h
    unfold Gen.nocache_loop1
    unfold firstExisting at h
    by_cases hf : e.isfile (join a fn) = true
    · simp [hf] at h
    · simp only [hf] at h ⊢
      exact ih _ h

/-- how a loop result is read off the model's answer for the TZFILES loop -/
def wrapLocal (tz0 : Resolution) : R → LoopR Resolution
  | .ok r => if r = .localZone then .ok (false, tz0) else .ok (true, r)
  | .error x => .error x

/-- the TZFILES loop -/
theorem loop2_eq (e : Env) : ∀ (l : List String) (tz0 : Resolution),
    Gen.nocache_loop2 e l tz0 = wrapLocal tz0 (localLoop e l) := by
  intro l
  induction l with
  | nil => intro tz0; simp [Gen.nocache_loop2, localLoop, wrapLocal]
  | cons fp rest ih =>
    intro tz0
    unfold Gen.nocache_loop2 localLoop localCand
    cases ha : isabs fp with
    | true =>
      cases hf : e.isfile fp with
      | true => cases hl : e.load fp <;> simp [GzPy.tzfile, hl, hf, wrapLocal, ih]
      | false => simp [hf, ih]
    | false =>
      cases hfe : firstExisting e fp e.tzpaths with
      | none =>
        obtain ⟨fp', h'⟩ := loop1_none e fp e.tzpaths fp hfe
        simp [h', ih]
      | some p =>
        have h1 := loop1_some e fp e.tzpaths fp p hfe
        cases hf : e.isfile p with
        | true => cases hl : e.load p <;> simp [h1, GzPy.tzfile, hl, hf, wrapLocal, ih]
        | false => simp [h1, hf, ih]

/-- the TZPATHS search loop -/
theorem loop3_eq (e : Env) (name : String) : ∀ (l : List String) (tz0 : Resolution),
    Gen.nocache_loop3 e name l tz0 =
      (match searchLoop e name l with
       | .ok (some p) => .ok (true, .file p)
       | .ok none => .ok (false, tz0)
       | .error x => .error x) := by
  intro l
  induction l with
  | nil => intro tz0; simp [Gen.nocache_loop3, searchLoop]
  | cons a rest ih =>
    intro tz0
    unfold Gen.nocache_loop3 searchLoop candidate
    cases h1 : e.isfile (join a name) with
    | true => cases hl : e.load (join a name) <;> simp [GzPy.tzfile, hl, h1, ih]
    | false =>
      cases h2 : e.isfile (underscore (join a name)) with
      | true => cases hl : e.load (underscore (join a name)) <;> simp [GzPy.tzfile, hl, h1, h2, ih]
      | false => simp [h1, h2, ih]

/-- the digit loop -/
theorem loop4_eq (e : Env) (name : String) : ∀ (l : List Char) (tz0 : Resolution),
    Gen.nocache_loop4 e name l tz0 =
      (if l.any GzPy.isDigit = true then .ok (true, (GzPy.tzstrInstance e name).getD tz0) else .ok (false, tz0)) := by
  intro l
  induction l with
  | nil => intro tz0; simp [Gen.nocache_loop4]
  | cons c rest ih =>
    intro tz0
    unfold Gen.nocache_loop4
    cases hd : GzPy.isDigit c with
    | true => cases hs : GzPy.tzstrInstance e name <;> simp [hs, hd]
    | false => simp [ih, hd]

theorem hasDigit_eq (s : String) : hasDigit s = s.toList.any GzPy.isDigit := rfl

theorem isEmpty_iff (s : String) : s.isEmpty = true ↔ s = "" := by
  simp [String.isEmpty_iff]

/-- `wrapLocal` read back by the code after the TZFILES loop (`for … else: tz = tzlocal()`) -/
theorem local_after (tz0 : Resolution) (r : R) :
    (match wrapLocal tz0 r with
     | .error x_ => (.error x_ : R)
     | .ok l => if l.1 = true then .ok l.2 else .ok Resolution.localZone) = r := by
  cases r with
  | error x => rfl
  | ok v => by_cases hv : v = Resolution.localZone <;> simp [wrapLocal, hv]

theorem strip_eq (s : String) : (if GzPy.startsWithColon s = true then GzPy.dropFirst s else s) = stripColon s := by
  unfold GzPy.startsWithColon GzPy.dropFirst stripColon
  cases h : s.toList with
  | nil => simp
  | cons c cs =>
    by_cases hc : c = ':'
    · subst hc; simp
    · have hne : (some c == some ':') = false := by simp [hc]
      simp only [List.head?_cons, hne, Bool.false_eq_true, if_false]
      split
      · rename_i heq; injection heq with h1 _; exact absurd h1 hc
      · rfl

end GzG

namespace GzG
open Gettz

/-- the fall-backs, with the digit loop already rewritten -/
theorem fallback_core (e : Env) (n : String) :
    (if e.vendored n = true then (Resolution.vendored n)
     else if hasDigit n = true then (GzPy.tzstrInstance e n).getD Resolution.none
     else if n ∈ ["GMT", "UTC"] then Resolution.utc
     else if n ∈ e.tzname then Resolution.localZone else Resolution.none) = fallback e n := by
  unfold fallback GzPy.tzstrInstance
  cases hv : e.vendored n <;> cases hd : hasDigit n <;> cases ht : e.tzstrOk n <;> simp

/-- the named branch as the translation states it, for a name whose colon has been stripped (loops rewritten by the loop lemmas) -/
def coreGen (e : Env) (n : String) : R :=
    (match
        (if isabs n = true then
          if e.isfile n = true then
            match GzPy.tzfile e n with
            | Except.ok tz => (Except.ok tz : LoopJ Resolution)
            | Except.error Err.osError => Except.error Err.osError
            | Except.error Err.valueError => Except.error Err.valueError
            | Except.error Err.structError => Except.error Err.structError
          else Except.ok Resolution.none
        else
          match
            (match searchLoop e n e.tzpaths with
            | Except.ok (some p) => (Except.ok (true, Resolution.file p) : LoopR Resolution)
            | Except.ok none => Except.ok (false, Resolution.none)
            | Except.error x => Except.error x) with
          | Except.error x_ => Except.error x_
          | Except.ok l_5 =>
            if l_5.fst = true then Except.ok l_5.snd
            else
              if GzPy.vendoredGet e n = Resolution.none then
                match
                  (if hasDigit n = true then
                    (Except.ok (true, (GzPy.tzstrInstance e n).getD (GzPy.vendoredGet e n)) : LoopR Resolution)
                  else Except.ok (false, GzPy.vendoredGet e n)) with
                | Except.error x_ => Except.error x_
                | Except.ok l_7 =>
                  if l_7.fst = true then Except.ok l_7.snd
                  else
                    if n = "GMT" ∨ n = "UTC" then Except.ok Resolution.utc
                    else if n ∈ e.tzname then Except.ok Resolution.localZone else Except.ok l_7.snd
              else Except.ok (GzPy.vendoredGet e n)) with
      | Except.error x_ => (Except.error x_ : R)
      | Except.ok tz => Except.ok tz)

theorem named_core (e : Env) (n : String) :
    coreGen e n =
    (if isabs n then
      if e.isfile n then
        match e.load n with
        | .ok => .ok (.file n)
        | .osError => .error .osError
        | .valueError => .error .valueError
        | .structError => .error .structError
      else .ok .none
    else
      match searchLoop e n e.tzpaths with
      | .error err => .error err
      | .ok (some p) => .ok (.file p)
      | .ok none => .ok (fallback e n)) := by
  unfold coreGen
  cases ha : isabs n with
  | true =>
    cases hf : e.isfile n with
    | true => cases hl : e.load n <;> simp [GzPy.tzfile, hl]
    | false => simp
  | false =>
    cases hsl : searchLoop e n e.tzpaths with
    | error x => simp
    | ok o =>
      cases o with
      | some p => simp
      | none =>
        unfold fallback GzPy.vendoredGet GzPy.tzstrInstance
        cases hv : e.vendored n with
        | true => simp
        | false =>
          cases hd : hasDigit n with
          | true => cases ht : e.tzstrOk n <;> simp
          | false =>
            by_cases h1 : n = "GMT" ∨ n = "UTC"
            · simp [h1]
            · by_cases h2 : n ∈ e.tzname <;> simp [h1, h2]

/-- the whole named branch -/
theorem named_full (e : Env) (v : String) :
    (match (if GzPy.startsWithColon v = true then (Except.ok (GzPy.dropFirst v) : LoopJ String) else Except.ok v) with
     | Except.error x_ => (Except.error x_ : R)
     | Except.ok j_4 => coreGen e j_4) = resolveNamed e v := by
  have hs := strip_eq v
  have hr : resolveNamed e v = coreGen e (stripColon v) := by rw [named_core]; rfl
  rw [hr, ← hs]
  by_cases hc : GzPy.startsWithColon v = true <;> simp [hc]

theorem nocache_eq (e : Env) (name : Option String) : Gen.nocache e name = resolve e name := by
  have hloc : ∀ tz0, (match wrapLocal tz0 (localLoop e e.tzfiles) with
      | .error x_ => (.error x_ : R)
      | .ok l => if l.1 = true then .ok l.2 else .ok Resolution.localZone) = localLoop e e.tzfiles :=
    fun tz0 => local_after tz0 _
  unfold Gen.nocache resolve
  simp only [loop2_eq, loop3_eq, loop4_eq, ← hasDigit_eq]
  cases name with
  | none =>
    cases ht : e.tzVar with
    | none => simp [GzPy.truthyName, effectiveName, ht]; exact hloc _
    | some v =>
      simp [GzPy.truthyName, effectiveName, ht]
      by_cases hv : v = "" ∨ v = ":"
      · simp only [hv, if_true]; exact hloc _
      · simp only [hv, if_false]; exact named_full e v
  | some s =>
    by_cases hs : s = ""
    · subst hs
      cases ht : e.tzVar with
      | none => simp [GzPy.truthyName, effectiveName, ht]; exact hloc _
      | some v =>
        simp [GzPy.truthyName, effectiveName, ht]
        by_cases hv : v = "" ∨ v = ":"
        · simp only [hv, if_true]; exact hloc _
        · simp only [hv, if_false]; exact named_full e v
    · have he : s.isEmpty = false := by
        cases hh : s.isEmpty
        · rfl
        · exact absurd ((isEmpty_iff s).1 hh) hs
      simp [GzPy.truthyName, effectiveName, hs, he]
      by_cases hv : s = ":"
      · simp only [hv, if_true]; exact hloc _
      · simp only [hv, if_false]; exact named_full e s

end GzG
