/-
  Proofs/RRuleMinutelyLoopBM.lean — the MINUTELY reachability loop (rrule.py 960-979) WITH BYMINUTE (and optionally
  BYHOUR): each pass runs `__mod_distance` to the next grid minute whose minute-of-hour is in the BYMINUTE tuple
  (passing over grid minutes that are not), then tests the hour.  Started at minute-of-day `W = hour·60 + minute`,
  the loop stops at the LEAST `t ≥ 1` such that the grid minute `W + t·interval` has listed hour and minute, provided
  one occurs within `fuel` grid steps (every pass makes ≥ 1 grid step).
-/
import DateutilVerif.Proofs.RRuleMinutelyLoop
import DateutilVerif.Proofs.RRuleModDistance

namespace RRule
open Cal

/-- the loop's hour test on the minute-of-day count `V` (any number of days carried) -/
def okM (r : Rule) (V : Int) : Bool := !(truthy r.byhour) || memO (V / 60 % 24) r.byhour

/-- hour test and BYMINUTE membership -/
def okM2 (r : Rule) (V : Int) : Bool := okM r V && memO (V % 60) r.byminute

theorem okM_shift (r : Rule) (V c : Int) : okM r (V - 1440 * c) = okM r V := by
  unfold okM
  have e1 : (V - 1440 * c) / 60 % 24 = V / 60 % 24 := by omega
  rw [e1]

theorem okM2_shift (r : Rule) (V c : Int) : okM2 r (V - 1440 * c) = okM2 r V := by
  unfold okM2
  have e1 : (V - 1440 * c) % 60 = V % 60 := by omega
  rw [okM_shift, e1]

/-- one pass of the loop whose `__mod_distance` call returned `(nh, mi')` -/
theorem minutelyLoop_succ_bm (r : Rule) (bm : List Int) (hbm : r.byminute = some bm)
    (htr : truthy (some bm) = true) (n : Nat) (minute hour day : Int) (fx : Bool) (nh mi' : Int)
    (hstep : modDistance r.interval bm 60 60 0 minute = some (nh, mi')) (hmi : 0 ≤ mi' ∧ mi' ≤ 59)
    (V : Int) (hV : V = hour * 60 + nh * 60 + mi') :
    minutelyLoop r (n + 1) minute hour day fx =
      if okM r V = true then
        .ok (V % 60, V / 60 % 24, (if V / 1440 ≠ 0 then day + V / 1440 else day),
          (if V / 1440 ≠ 0 then true else fx))
      else minutelyLoop r n (V % 60) (V / 60 % 24) (if V / 1440 ≠ 0 then day + V / 1440 else day)
          (if V / 1440 ≠ 0 then true else fx) := by
  obtain ⟨nd, hnd⟩ : ∃ nd, nd = (hour + nh) / 24 := ⟨_, rfl⟩
  obtain ⟨hr', hhr'⟩ : ∃ hr', hr' = (hour + nh) % 24 := ⟨_, rfl⟩
  have a1 : V % 60 = mi' := by omega
  have a2 : V / 60 % 24 = hr' := by omega
  have a3 : V / 1440 = nd := by omega
  unfold okM
  rw [a1, a2, a3]
  conv => lhs; unfold minutelyLoop
  rw [hbm, htr]
  simp only [↓reduceIte, Option.getD_some, hstep, Py.divmod, Py.fdiv_pos _ (by decide : (0 : Int) < 24),
    Py.fmod_pos _ (by decide : (0 : Int) < 24)]
  rw [← hnd, ← hhr']

/-- the loop with BYMINUTE `bm` (and BYHOUR present or not) -/
theorem minutelyLoop_bm (r : Rule) (hi : 1 ≤ r.interval) (bm : List Int) (hbm : r.byminute = some bm)
    (htr : truthy (some bm) = true) :
    ∀ (n : Nat) (minute hour day : Int) (fx : Bool), 0 ≤ minute → 0 ≤ hour →
    (∃ t : Nat, 1 ≤ t ∧ t ≤ n ∧ okM2 r (hour * 60 + minute + t * r.interval) = true) →
    ∃ t : Nat, 1 ≤ t ∧ t ≤ n ∧ okM2 r (hour * 60 + minute + t * r.interval) = true ∧
      (∀ t' : Nat, 1 ≤ t' → t' < t → okM2 r (hour * 60 + minute + t' * r.interval) = false) ∧
      minutelyLoop r n minute hour day fx =
        .ok ((hour * 60 + minute + t * r.interval) % 60, (hour * 60 + minute + t * r.interval) / 60 % 24,
             day + (hour * 60 + minute + t * r.interval) / 1440,
             fx || decide ((hour * 60 + minute + t * r.interval) / 1440 ≠ 0)) := by
  intro n
  induction n with
  | zero => intro minute hour day fx _ _ ⟨t, h1, h2, _⟩; omega
  | succ n ih =>
    intro minute hour day fx hm0 h0 ⟨ts, hts1, hts2, hts3⟩
    obtain ⟨W, hW⟩ : ∃ W, W = hour * 60 + minute := ⟨_, rfl⟩
    rw [← hW] at hts3 ⊢
    have hmemO : ∀ x, memO x r.byminute = bm.contains x := by intro x; rw [hbm]; rfl
    -- the minute-of-hour of a grid minute depends on `minute` only
    have hmin : ∀ u : Nat, (W + (u : Int) * r.interval) % 60 = (minute + (u : Int) * r.interval) % 60 := by
      intro u; generalize (u : Int) * r.interval = P; omega
    have hunl : ∀ u : Nat, bm.contains ((minute + (u : Int) * r.interval) % 60) = false →
        okM2 r (W + (u : Int) * r.interval) = false := by
      intro u hu
      unfold okM2
      rw [hmemO, hmin, hu, Bool.and_false]
    have hts4 : bm.contains ((minute + (ts : Int) * r.interval) % 60) = true := by
      unfold okM2 at hts3
      rw [Bool.and_eq_true, hmemO, hmin] at hts3
      exact hts3.2
    rcases modDistance_exact r.interval bm 60 (by omega) 60 0 minute with
      ⟨s, hs1, hs2, hs3, hs4, hs5⟩ | ⟨hnone, _⟩
    · have hsts : s ≤ ts := by
        by_cases hc : s ≤ ts
        · exact hc
        · have := hs4 ts hts1 (by omega)
          rw [this] at hts4; cases hts4
      obtain ⟨V1, hV1⟩ : ∃ V1, V1 = W + (s : Int) * r.interval := ⟨_, rfl⟩
      have hsi : (0 : Int) ≤ (s : Int) * r.interval := Int.mul_nonneg (by omega) (by omega)
      rw [minutelyLoop_succ_bm r bm hbm htr n minute hour day fx _ _ hs5 (by omega) V1
        (by rw [hV1, hW]; generalize (s : Int) * r.interval = P; omega)]
      have h12 : okM2 r V1 = okM r V1 := by
        unfold okM2
        rw [hmemO, hV1, hmin, hs3, Bool.and_true]
      obtain ⟨c, hc⟩ : ∃ c, c = V1 / 1440 := ⟨_, rfl⟩
      rw [← hc]
      have hV10 : 0 ≤ V1 := by omega
      have hc0 : 0 ≤ c := by omega
      by_cases hok : okM r V1 = true
      · rw [if_pos hok]
        refine ⟨s, hs1, by omega, by rw [← hV1, h12]; exact hok, ?_, ?_⟩
        · intro t' a b; exact hunl t' (hs4 t' a b)
        · rw [← hV1, ← hc]
          by_cases hz : c = 0 <;> simp [hz]
      · rw [if_neg hok]
        have hokf : okM2 r V1 = false := by
          rw [h12]
          cases hq : okM r V1 with
          | false => rfl
          | true => exact absurd hq hok
        have hts' : ts ≠ s := by
          intro e; subst e; rw [← hV1, hokf] at hts3; cases hts3
        have key : ∀ u : Nat, V1 / 60 % 24 * 60 + V1 % 60 + (u : Int) * r.interval =
            W + ((u + s : Nat) : Int) * r.interval - 1440 * c := by
          intro u; push_cast; rw [Int.add_mul]; omega
        obtain ⟨t, ht1, ht2, ht3, ht4, ht5⟩ := ih (V1 % 60) (V1 / 60 % 24)
          (if c ≠ 0 then day + c else day) (if c ≠ 0 then true else fx) (by omega) (by omega)
          ⟨ts - s, by omega, by omega, by
            rw [key, okM2_shift]
            have e : ts - s + s = ts := by omega
            rw [e]; exact hts3⟩
        have htle : t ≤ ts - s := by
          by_cases hc' : t ≤ ts - s
          · exact hc'
          · exfalso
            have := ht4 (ts - s) (by omega) (by omega)
            rw [key, okM2_shift] at this
            have e : ts - s + s = ts := by omega
            rw [e, hts3] at this; cases this
        refine ⟨t + s, by omega, by omega, ?_, ?_, ?_⟩
        · rw [key, okM2_shift] at ht3; exact ht3
        · intro t' a b
          by_cases h1 : t' < s
          · exact hunl t' (hs4 t' a h1)
          · by_cases h2 : t' = s
            · subst h2; rw [← hV1]; exact hokf
            · have := ht4 (t' - s) (by omega) (by omega)
              rw [key, okM2_shift] at this
              have e : t' - s + s = t' := by omega
              rw [e] at this; exact this
        · rw [ht5, key]
          generalize hV : W + ((t + s : Nat) : Int) * r.interval = V
          have b1 : (V - 1440 * c) % 60 = V % 60 := by omega
          have b2 : (V - 1440 * c) / 60 % 24 = V / 60 % 24 := by omega
          have b3 : (V - 1440 * c) / 1440 = V / 1440 - c := by omega
          rw [b1, b2, b3]
          have hti : (0 : Int) ≤ (t : Int) * r.interval := Int.mul_nonneg (by omega) (by omega)
          have hVn : 0 ≤ V - 1440 * c := by rw [← hV, ← key]; omega
          have hq0 : 0 ≤ V / 1440 - c := by omega
          by_cases hz : c = 0
          · subst hz; simp
          · have hq : V / 1440 ≠ 0 := by omega
            simp [hz, hq]
            omega
    · -- `__mod_distance` cannot fall off its loop: the minutes-of-hour repeat with period ≤ 60
      exfalso
      obtain ⟨t0, ht0⟩ : ∃ t0 : Nat, t0 = if ts % 60 = 0 then 60 else ts % 60 := ⟨_, rfl⟩
      have ht01 : 1 ≤ t0 ∧ t0 ≤ 60 ∧ t0 ≤ ts ∧ (ts - t0) % 60 = 0 := by
        rw [ht0]; split <;> omega
      have hq : ((ts : Nat) : Int) = (t0 : Int) + 60 * (((ts - t0) / 60 : Nat) : Int) := by omega
      have := hnone t0 ht01.1 ht01.2.1
      have e : (minute + (ts : Int) * r.interval) % 60 = (minute + (t0 : Int) * r.interval) % 60 := by
        rw [hq, Int.add_mul, Int.mul_assoc]
        generalize (t0 : Int) * r.interval = P
        generalize (((ts - t0) / 60 : Nat) : Int) * r.interval = Q
        omega
      rw [e, this] at hts4
      cases hts4

end RRule
