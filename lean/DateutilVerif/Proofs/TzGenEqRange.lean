/- Proofs/TzGenEqRange.lean — the `tzrangebase` methods TRANSLATED from tz/_common.py equal `TZ.RangeZone` of Model/Zones.lean
   for every zone record and every datetime with microseconds. -/
import DateutilVerif.Proofs.TzGenEq
set_option linter.unusedSimpArgs false
namespace TzGen
open TZ Py DtPy

/-- a transition instant of the model (whole seconds) as the datetime the code sees -/
def Dn (a : Int) : Dt := { us := a * M, fold := false, attached := false }

theorem year_D (s f : Int) (fold att : Bool) (h0 : 0 ≤ f) (h1 : f < M) : DtPy.year (D s f fold att) = yearOf s := by
  unfold DtPy.year D
  have : (s * M + f) / M = s := by unfold M at *; omega
  simp [this]

theorem transitions_eq (z : RangeZone) (y : Int) :
    DtPy.transitions z y = (z.transitions y).map fun p => (Dn p.1, Dn p.2) := rfl

theorem naiveIsdst_eq (z : RangeZone) (x f : Int) (fold att : Bool) (a b : Int) (h0 : 0 ≤ f) (h1 : f < M) :
    Gen.tzrange_naiveIsdst z (D x f fold att) (Dn a, Dn b) = .ok (RangeZone.naiveIsdst x (a, b)) := by
  have h1' : f < 1000000 := h1
  unfold Gen.tzrange_naiveIsdst RangeZone.naiveIsdst
  simp only [D, Dn, naive, Except.bind, M]
  by_cases hab : a < b
  · have : a * 1000000 < b * 1000000 := by omega
    simp only [this, hab, if_true]
    by_cases c1 : a ≤ x <;> by_cases c2 : x < b <;>
      simp [c1, c2, show (a * 1000000 ≤ x * 1000000 + f) ↔ a ≤ x by omega, show (x * 1000000 + f < b * 1000000) ↔ x < b by omega]
  · have : ¬ (a * 1000000 < b * 1000000) := by omega
    simp only [this, hab, if_false]
    by_cases c1 : b ≤ x <;> by_cases c2 : x < a <;>
      simp [c1, c2, show (b * 1000000 ≤ x * 1000000 + f) ↔ b ≤ x by omega, show (x * 1000000 + f < a * 1000000) ↔ x < a by omega]

theorem dstBase_eq (z : RangeZone) : Gen.tzrange_dstBaseOffset z = .ok (z.saving * M) := by
  simp only [Gen.tzrange_dstBaseOffset, RangeZone.saving, tdSeconds, M]; congr 1; omega

theorem range_isAmbiguous_eq (z : RangeZone) (x f : Int) (fold att : Bool) (h0 : 0 ≤ f) (h1 : f < M) :
    Gen.tzrange_isAmbiguous z (D x f fold att) = z.isAmbiguous x := by
  have h1' : f < 1000000 := h1
  unfold Gen.tzrange_isAmbiguous RangeZone.isAmbiguous
  cases hh : z.hasdst with
  | false => simp
  | true =>
    simp only [not_true_eq_false, if_false, year_D x f fold att h0 h1, transitions_eq, Bool.not_true, Bool.false_eq_true]
    cases z.transitions (yearOf x) with
    | none => simp [DtPy.unpack2, Except.bind]
    | some p =>
      obtain ⟨on, off⟩ := p
      simp only [Option.map_some, DtPy.unpack2, Except.bind, dstBase_eq, Dn, D, naive, addTd, M]
      by_cases c1 : off ≤ x <;> by_cases c2 : x < off + z.saving <;>
        simp [c1, c2, show (off * 1000000 ≤ x * 1000000 + f) ↔ off ≤ x by omega,
          show (x * 1000000 + f < off * 1000000 + z.saving * 1000000) ↔ x < off + z.saving by omega]


theorem range_isdst_eq (z : RangeZone) (x f : Int) (fold att : Bool) (h0 : 0 ≤ f) (h1 : f < M) :
    Gen.tzrange_isdst z (D x f fold att) = z.isdst ⟨x, fold⟩ := by
  unfold Gen.tzrange_isdst RangeZone.isdst
  cases hh : z.hasdst with
  | false => simp
  | true =>
    simp only [not_true_eq_false, if_false, year_D x f fold att h0 h1, transitions_eq, Bool.not_true, Bool.false_eq_true]
    cases z.transitions (yearOf x) with
    | none => simp
    | some p =>
      obtain ⟨on, off⟩ := p
      have hn : DtPy.naive (D x f fold att) = D x f fold false := rfl
      simp only [Option.map_some, hn, naiveIsdst_eq z x f fold false on off h0 h1, Except.bind,
        range_isAmbiguous_eq z x f fold false h0 h1]
      cases hd : RangeZone.naiveIsdst x (on, off) with
      | true => simp
      | false =>
        simp only [decide_false, Bool.not_false, if_true, Bool.false_eq_true, bind, pure]
        cases z.isAmbiguous x with
        | error e => rfl
        | ok a => cases a <;> cases fold <;> simp [Except.bind, Except.pure, foldOf, D]

theorem range_utcoffset_eq (z : RangeZone) (x f : Int) (fold att : Bool) (h0 : 0 ≤ f) (h1 : f < M) :
    Gen.tzrange_utcoffset z (D x f fold att) = (z.utcoffset ⟨x, fold⟩).map (· * M) := by
  unfold Gen.tzrange_utcoffset RangeZone.utcoffset
  rw [range_isdst_eq z x f fold att h0 h1]
  cases z.isdst ⟨x, fold⟩ with
  | error e => rfl
  | ok d => cases d <;> simp [Except.bind, bind, pure, Except.pure, Except.map, tdSeconds]

theorem range_dst_eq (z : RangeZone) (x f : Int) (fold att : Bool) (h0 : 0 ≤ f) (h1 : f < M) :
    Gen.tzrange_dst z (D x f fold att) = (z.dst ⟨x, fold⟩).map (· * M) := by
  unfold Gen.tzrange_dst RangeZone.dst
  rw [range_isdst_eq z x f fold att h0 h1]
  cases z.isdst ⟨x, fold⟩ with
  | error e => rfl
  | ok d => cases d <;> simp [Except.bind, bind, pure, Except.pure, Except.map, dstBase_eq]

theorem range_tzname_eq (z : RangeZone) (x f : Int) (fold att : Bool) (h0 : 0 ≤ f) (h1 : f < M) :
    Gen.tzrange_tzname z (D x f fold att) = z.tzname ⟨x, fold⟩ := by
  unfold Gen.tzrange_tzname RangeZone.tzname
  rw [range_isdst_eq z x f fold att h0 h1]
  cases z.isdst ⟨x, fold⟩ with
  | error e => rfl
  | ok d => cases d <;> simp [Except.bind, bind, pure, Except.pure]

theorem addTd_D (x f t : Int) (fold att : Bool) : DtPy.addTd (D x f fold att) (tdSeconds t) = D (x + t) f false att := by
  simp only [DtPy.addTd, tdSeconds, D, M]; congr 1; omega

theorem addTd_Dn (a t : Int) : DtPy.addTd (Dn a) (-(tdSeconds t)) = Dn (a - t) := by
  simp only [DtPy.addTd, tdSeconds, Dn, M]; congr 1; omega

theorem range_fromutc_eq (z : RangeZone) (t f : Int) (h0 : 0 ≤ f) (h1 : f < M) :
    Gen.tzrange_fromutc z (D t f false true) = (z.fromutc t).map fun w => D w.wall f w.fold true := by
  unfold Gen.tzrange_fromutc RangeZone.fromutc
  simp only [not_true_eq_false, if_false, year_D t f false true h0 h1, transitions_eq,
    show ((D t f false true).attached = false) = False by simp [D]]
  cases z.transitions (yearOf t) with
  | none =>
    simp only [Option.map_none, range_utcoffset_eq z t f false true h0 h1, Except.bind]
    cases z.utcoffset ⟨t, false⟩ with
    | error e => rfl
    | ok o =>
      simp only [Except.map, bind, Except.bind, pure, Except.pure]
      have := addTd_D t f o false true
      simp only [tdSeconds] at this
      rw [this]
  | some p =>
    obtain ⟨on, off⟩ := p
    have hn : DtPy.naive (D t f false true) = D t f false false := rfl
    simp only [Option.map_some, addTd_Dn, hn, naiveIsdst_eq z t f false false _ _ h0 h1, Except.bind, addTd_D]
    cases hd : RangeZone.naiveIsdst t (on - z.stdOff, off - z.stdOff) with
    | true => simp [Except.map, DtPy.enfold, D, b2i]
    | false =>
      simp only [Bool.false_eq_true, if_false, decide_false, Bool.not_false, if_true,
        range_isAmbiguous_eq z _ f false true h0 h1]
      cases z.isAmbiguous (t + z.stdOff) with
      | error e => rfl
      | ok a => cases a <;> simp [Except.map, bind, Except.bind, pure, Except.pure, DtPy.enfold, D, b2i]
end TzGen
