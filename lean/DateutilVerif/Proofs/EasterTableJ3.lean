/- Proofs/EasterTableJ3.lean — `decide +kernel` over every year 4326..6325 (no sampling). -/
import DateutilVerif.Proofs.EasterDefs

namespace C19
theorem tableJ3 : ∀ k : Fin 2000, julianOK (4326 + (k.val : Int)) = true := by decide +kernel
end C19
