/-
  Proofs/RenderSuffix.lean — the token scan over an offset suffix (`Z`, ` UTC`, `±HH`, `±HHMM`, `±HH:MM`, each
  optionally after a space), whatever came before it: proved once, used by every template of C02.
-/
import DateutilVerif.Proofs.RenderIsoX

namespace PM
open Py PT

/-- `tzname`, `tzoffset` the suffix leaves in the result record, and the indices it adds to the skipped list -/
def offName : Off → Option Token
  | .z _ => some ['Z']
  | .utc => some ['U', 'T', 'C']
  | _ => none
def offSecs (off : Off) : Option Int :=
  match off with
  | .hh _ _ _ => off.seconds
  | .hhmm _ _ _ _ => off.seconds
  | .hhcmm _ _ _ _ => off.seconds
  | _ => none
def offLeadSpace : Off → Bool
  | .z sp => sp
  | .utc => true
  | .hh sp _ _ => sp
  | .hhmm sp _ _ _ => sp
  | .hhcmm sp _ _ _ => sp
  | .naive => false

theorem getElem?_pre {α} (pre s : List α) (j : Nat) : (pre ++ s)[pre.length + j]? = s[j]? := by
  rw [List.getElem?_append_right (by omega)]; congr 1; omega
theorem getElem?_pre0 {α} (pre s : List α) : (pre ++ s)[pre.length]? = s[0]? := by
  have := getElem?_pre pre s 0; simpa using this

theorem getElem_pre {α} (pre s : List α) (j : Nat) (h : pre.length + j < (pre ++ s).length) :
    (pre ++ s)[pre.length + j]'h = s[j]'(by simp at h; omega) := by
  rw [List.getElem_append_right (by omega)]; congr 1; omega

theorem add_lit (n a b : Nat) : n + a + b = n + (a + b) := Nat.add_assoc n a b

set_option maxHeartbeats 8000000 in
theorem suffix_run (cls : Char → CClass) [AsciiOK cls] (df yf : Bool) (year century : Int) (pre : List Token) (r : Res) (y : Ymd)
    (sk : List Nat) (off : Off) (hoff : off.Dom) (lenL i : Nat) (hi : i = pre.length)
    (hl : lenL = pre.length + (offTokens off).length) (hh : r.hour.isSome = true) (htn : r.tzname = none) (hto : r.tzoffset = none) :
    parseLoop cls (Info.default df yf year century) false lenL (offTokens off).length i 0
        { l := pre ++ offTokens off, res := r, ymd := y, skipped := sk } =
      .ok { l := pre ++ offTokens off, res := { r with tzname := offName off, tzoffset := offSecs off }, ymd := y,
            skipped := if offLeadSpace off then sk ++ [i] else sk } := by
  subst hi
  obtain ⟨hr, rest⟩ : ∃ hr, r.hour = some hr := by cases h : r.hour <;> simp_all
  rcases off with _ | sp | _ | ⟨sp, neg, oh⟩ | ⟨sp, neg, oh, om⟩ | ⟨sp, neg, oh, om⟩
  all_goals (try cases sp) <;> (try cases neg)
  all_goals (try simp only [Off.Dom] at hoff)
  all_goals (try (have boh : oh < 100 := by omega))
  all_goals (try (have bom : om < 100 := by omega))
  all_goals simp only [offTokens, spT, sgn, List.nil_append, List.cons_append, Bool.false_eq_true, if_false, if_true,
    List.length_cons, List.length_nil] at hl ⊢
  all_goals subst hl
  · cases r; simp_all [offTokens, offName, offSecs, offLeadSpace, parseLoop]
  all_goals
    psimpa [add_lit, getElem?_pre, getElem?_pre0, getElem_pre, offName, offSecs, offLeadSpace, Off.seconds]

end PM
