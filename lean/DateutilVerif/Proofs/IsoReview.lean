/- Proofs/IsoReview.lean — corollaries asked for by the independent review: `_parse_tzstr` for both `zero_as_utc`
   modes, the datetime-level law with the fraction tied to the microsecond, the law for a date alone. -/
import DateutilVerif.Proofs.IsoDatetime
import DateutilVerif.Proofs.IsoTzSound
set_option linter.unusedSimpArgs false
namespace Iso
open Cal IsoSpec Py

/-- F4: `_parse_tzstr` inverts every offset form for BOTH values of `zero_as_utc` -/
theorem parseTzstr_render_z (o : OffForm) (x : Fields) (z : Bool) (ho : o ≠ .naive) (hw : offWF o x = true) :
    parseTzstr (renderOff o x) z = .ok (offValue z o x) := by
  cases o with
  | naive => exact absurd rfl ho
  | Z => simp [parseTzstr, renderOff, cZ, offValue]
  | z => simp [parseTzstr, renderOff, cZ, cz, offValue]
  | hh =>
    simp [offWF] at hw
    have h2 := parseDigits_2 x.oh (by omega)
    cases hn : x.neg <;> cases z <;> by_cases h0 : x.oh = 0 <;>
      simp [offValue, hn, parseTzstr, renderOff, pad2, signByte, h2, cZ, cz, cDash, cPlus, bind, Except.bind] <;>
      tz_close
  | hhmm =>
    simp [offWF] at hw
    have h2 := parseDigits_2 x.oh (by omega)
    have h3 := parseDigits_2 x.om (by omega)
    cases hn : x.neg <;> cases z <;> by_cases h0 : x.oh = 0 <;> by_cases h1 : x.om = 0 <;>
      simp [offValue, hn, parseTzstr, renderOff, pad2, signByte, h2, h3, cZ, cz, cDash, cPlus, cColon, bind,
        Except.bind] <;>
      tz_close
  | hhcmm =>
    simp [offWF] at hw
    have h2 := parseDigits_2 x.oh (by omega)
    have h3 := parseDigits_2 x.om (by omega)
    cases hn : x.neg <;> cases z <;> by_cases h0 : x.oh = 0 <;> by_cases h1 : x.om = 0 <;>
      simp [offValue, hn, parseTzstr, renderOff, pad2, signByte, h2, h3, cZ, cz, cDash, cPlus, cColon, bind,
        Except.bind] <;>
      tz_close


theorem digits6_le9 (n : Nat) : ∀ d ∈ digits6 n, d ≤ 9 := by
  intro d hd; simp [digits6] at hd; omega

/-- `t` truncated to what a time form with `k` fraction digits shows -/
def truncDTk (tf : TimeForm) (k : Nat) (t : DT) : DT :=
  { t with mm := if tf.hasM then t.mm else 0, ss := if tf.hasS then t.ss else 0,
           us := if tf.hasFrac then t.us - t.us % 10 ^ (6 - k) else 0 }

/-- F3: the datetime-level inverse law with the fraction digits TIED to the datetime's microsecond: rendering the
    first `k ≤ 6` digits of `t.us` and parsing returns `t` with the microsecond truncated to `10^(6-k)` -/
theorem isoparse_inverts_datetime_us (t : DT) (ht : t.Valid) (df : DateForm) (hc : df.complete = true)
    (tf : TimeForm) (htf : tf ≠ .none) (k : Nat) (h1 : 1 ≤ k) (h6 : k ≤ 6)
    (o : OffForm) (xo : Fields) (how : offWF o xo = true) (sep : Nat) (hsep : df = .ordBas → isDigit sep = false)
    (cfg : Option Nat) (hcfg : cfg = none ∨ cfg = some sep) :
    isoparse cfg (render ⟨df, tf, o, sep⟩ (dtFields df t ((digits6 t.us.toNat).take k) xo)) =
      .ok ⟨truncDTk tf k t, offDenote o xo⟩ := by
  have hus : 0 ≤ t.us ∧ t.us ≤ 999999 := ⟨ht.2.2.2.2.2.2.2.1, ht.2.2.2.2.2.2.2.2⟩
  have hfrac : tf.hasFrac = true → (digits6 t.us.toNat).take k ≠ [] ∧ ∀ d ∈ (digits6 t.us.toNat).take k, d ≤ 9 := by
    intro _
    refine ⟨?_, fun d hd => digits6_le9 _ d (List.mem_of_mem_take hd)⟩
    have : k = 1 ∨ k = 2 ∨ k = 3 ∨ k = 4 ∨ k = 5 ∨ k = 6 := by omega
    rcases this with rfl | rfl | rfl | rfl | rfl | rfl <;> simp [digits6]
  rw [isoparse_inverts_datetime_core t ht df hc tf htf _ hfrac o xo how sep hsep cfg hcfg]
  congr 2
  unfold truncDT truncDTk
  have hfm := fracMicros_take t.us.toNat k (by omega) h1 h6
  have hcast : ((fracMicros ((digits6 t.us.toNat).take k) : Nat) : Int) = t.us - t.us % 10 ^ (6 - k) := by
    rw [hfm]
    have e : ((t.us.toNat : Nat) : Int) = t.us := Int.toNat_of_nonneg hus.1
    have : k = 1 ∨ k = 2 ∨ k = 3 ∨ k = 4 ∨ k = 5 ∨ k = 6 := by omega
    rcases this with rfl | rfl | rfl | rfl | rfl | rfl <;> simp <;> omega
  rw [hcast]

/-- … and with all six digits (plus any further digits, which are ignored) the datetime comes back exactly -/
theorem isoparse_inverts_datetime_exact (t : DT) (ht : t.Valid) (df : DateForm) (hc : df.complete = true)
    (tf : TimeForm) (htf : tf.hasFrac = true) (extra : List Nat) (hex : ∀ d ∈ extra, d ≤ 9)
    (o : OffForm) (xo : Fields) (how : offWF o xo = true) (sep : Nat) (hsep : df = .ordBas → isDigit sep = false)
    (cfg : Option Nat) (hcfg : cfg = none ∨ cfg = some sep) :
    isoparse cfg (render ⟨df, tf, o, sep⟩ (dtFields df t (digits6 t.us.toNat ++ extra) xo)) =
      .ok ⟨t, offDenote o xo⟩ := by
  have hus : 0 ≤ t.us ∧ t.us ≤ 999999 := ⟨ht.2.2.2.2.2.2.2.1, ht.2.2.2.2.2.2.2.2⟩
  have hne : tf ≠ .none := by intro h; subst h; simp [TimeForm.hasFrac] at htf
  have hfrac : tf.hasFrac = true → digits6 t.us.toNat ++ extra ≠ [] ∧ ∀ d ∈ digits6 t.us.toNat ++ extra, d ≤ 9 := by
    intro _
    refine ⟨by simp [digits6], fun d hd => ?_⟩
    rcases List.mem_append.mp hd with h | h
    · exact digits6_le9 _ d h
    · exact hex d h
  rw [isoparse_inverts_datetime_core t ht df hc tf hne _ hfrac o xo how sep hsep cfg hcfg]
  congr 2
  have hM : tf.hasM = true := by cases tf <;> simp_all [TimeForm.hasFrac, TimeForm.hasM]
  have hS : tf.hasS = true := by cases tf <;> simp_all [TimeForm.hasFrac, TimeForm.hasS]
  unfold truncDT
  rw [fracMicros_extra _ _ (by omega)]
  simp only [hM, hS, htf, if_true, Int.toNat_of_nonneg hus.1]

/-- a date alone: for every valid date and every complete date form fed with the date's own fields, parsing the
    rendering returns that date at midnight -/
theorem isoparse_inverts_date (y m d : Int) (hv : ValidDate y m d) (df : DateForm) (hc : df.complete = true)
    (cfg : Option Nat) :
    isoparse cfg (render ⟨df, .none, .naive, 84⟩ (dateFieldsOf df y m d)) = .ok ⟨{ y, m, d }, none⟩ := by
  obtain ⟨hwf, hord⟩ := dateFieldsOf_ok df hc y m d hv
  have hfo := fromOrdinal_toOrdinal y m d hv.1 hv.2.2
  have hd : UncommonOK df (dateFieldsOf df y m d) (y, m, d) [] :=
    ⟨hwf, by rw [hord]; exact toOrdinal_pos _ _ _ hv.1 hv.2.2, by rw [hord]; exact toOrdinal_le_max _ _ _ hv,
     by rw [hord, hfo], fun _ => rfl⟩
  obtain ⟨hW, _, hD⟩ := final_dateonly df _ y m d [] hd
  obtain ⟨e1, e2, e3⟩ := sep_irrelevant ⟨df, .none, .naive, 84⟩ (dateFieldsOf df y m d) (cfg.getD 84) rfl
  have hW' : WFields ⟨df, .none, .naive, cfg.getD 84⟩ (dateFieldsOf df y m d) := by rw [← e1] at hW; exact hW
  have := isoparse_render_core ⟨df, .none, .naive, cfg.getD 84⟩ _ cfg hW' (fun h => absurd rfl h)
    (by cases cfg <;> simp)
  rw [show render ⟨df, .none, .naive, cfg.getD 84⟩ (dateFieldsOf df y m d) =
        render ⟨df, .none, .naive, 84⟩ (dateFieldsOf df y m d) from e2] at this
  rw [this, show denote ⟨df, .none, .naive, cfg.getD 84⟩ (dateFieldsOf df y m d) =
        denote ⟨df, .none, .naive, 84⟩ (dateFieldsOf df y m d) from e3, hD]
end Iso
