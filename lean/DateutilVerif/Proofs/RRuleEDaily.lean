/-
  Proofs/RRuleEDaily.lean — DAILY with BYEASTER (complement of D-C01d: offsets −80..250, visited days inside
  1583..4099): the DAILY instance of the refinement over the BY-filter abstraction of Proofs/RRuleEFilter.lean.
-/
import DateutilVerif.Proofs.RRuleEFilter
import DateutilVerif.Proofs.RRuleHourly

namespace RRule
open Cal

/-- DAILY argument sets with BYEASTER on the complement of D-C01d, no BYWEEKNO -/
structure DailyEArgs (a : Args) : Prop where
  freq : a.freq = 3
  interval : 1 ≤ a.interval
  valid : a.dtstart.Valid
  byweekno : a.byweekno = none
  monthday_nz : ∀ x ∈ a.bymonthday.getD [], x ≠ 0
  easter : ∃ el, a.byeaster = some el ∧ el ≠ [] ∧ ∀ o ∈ el, -80 ≤ o ∧ o ≤ 250

variable {a : Args} {r : Rule}

theorem de_dw (da : DailyEArgs a) : DWArgs (asDailyE a) :=
  ⟨Or.inr rfl, da.interval, da.valid, da.byweekno, rfl, da.monthday_nz⟩

abbrev dailyERuleOf (a : Args) (bh bm bs : Option (List Int)) : Rule :=
  { freq := a.freq, interval := a.interval, wkst := a.wkst.getD 0,
    dtstart := { a.dtstart with us := 0 }, tz := a.tz, count := a.count, untilDT := a.untilDT,
    bysetpos := a.bysetpos, bymonth := a.bymonth.map sortedSet, bymonthday := bymonthdayOf a,
    bynmonthday := bynmonthdayOf a, byyearday := a.byyearday.map sortedSet,
    byeaster := a.byeaster.map (sortBy ltInt), byweekno := none,
    byweekday := byweekdayOf a, bynweekday := bynweekdayOf a,
    byhour := bh, byminute := bm, bysecond := bs,
    timeset := some (Spec.RRule.timesOf a none none none) }

theorem de_rule (da : DailyEArgs a) (h : construct a = .ok r) : ∃ bh bm bs, r = dailyERuleOf a bh bm bs := by
  have hts := construct_timeset a r h (by rw [da.freq]; omega)
  obtain ⟨sp, bh, bm, bs, ts, h1, h2, h3, h4, h5, rfl⟩ := construct_ok a r h
  dsimp only at hts
  subst hts
  have hsp := (normBysetpos_ok a sp h1).1
  subst hsp
  have hne0 : (a.freq == 0) = false := by simp [da.freq]
  exact ⟨bh, bm, bs, by simp [dailyERuleOf, hne0, da.byweekno, bymonthOf]⟩

theorem de_cuts (da : DailyEArgs a) (h : construct a = .ok r) : CutsAgree a r := by
  obtain ⟨bh, bm, bs, hr⟩ := de_rule da h
  rw [hr]; exact ⟨rfl, rfl, rfl⟩

theorem de_erule (da : DailyEArgs a) (h : construct a = .ok r) : ERule r := by
  have hd := construct_nth_demoted a r h (by rw [da.freq]; omega)
  obtain ⟨bh, bm, bs, hr⟩ := de_rule da h
  rw [hr] at hd ⊢
  refine erule_of a _ da.easter rfl rfl ?_
  dsimp only at hd ⊢
  rcases hd with hd | hd <;> rw [hd] <;> rfl

theorem de_bridge (da : DailyEArgs a) (h : construct a = .ok r) (ord : Int) (ho : 1 ≤ ord) :
    (simpleOk r ord && eclause r ord) = Spec.RRule.dateOk a ord := by
  obtain ⟨bh, bm, bs, hr⟩ := de_rule da h
  rw [hr]
  exact eOk_eq_dateOk a _ (by rw [da.freq]; omega) (de_dw da) da.easter rfl rfl rfl rfl rfl rfl ord ho

structure DailyEGood (a : Args) (r : Rule) (k : Nat) (st : State) : Prop where
  facts : YearFacts r st.cur.year st.info
  inv : EInv r st.info
  valid : ValidYMD st.cur.year st.cur.month st.cur.day
  ord : curOrd st.cur = Spec.RRule.startOrd a + k * a.interval
  timeset : st.timeset = Spec.RRule.timesOf a none none none

theorem de_span (da : DailyEArgs a) (k : Nat) :
    Spec.RRule.periodSpan a (k * a.interval) =
      (Spec.RRule.startOrd a + k * a.interval, Spec.RRule.startOrd a + k * a.interval + 1, none, none, none) := by
  unfold Spec.RRule.periodSpan; simp [da.freq]

theorem de_results (da : DailyEArgs a) (h : construct a = .ok r) (k : Nat) (st : State)
    (hg : DailyEGood a r k st) (hle : Spec.RRule.startOrd a + k * a.interval ≤ maxOrdinal) :
    (∃ fl, periodResults r st = .ok (Spec.RRule.sel a (k : Int), none, fl)) ∧
    ∀ x ∈ Spec.RRule.sel a (k : Int), 0 ≤ x.ord ∧ x.ord ≤ maxOrdinal := by
  have hw := de_erule da h
  obtain ⟨bh, bm, bs, hr⟩ := de_rule da h
  have hfreq : r.freq = 3 := by rw [hr]; exact da.freq
  have hsp := construct_bysetpos a r h
  have htsok : TsOk st.timeset := by
    have := construct_timeset_ok a r h (by rw [da.freq]; omega)
    rw [hr] at this; rw [hg.timeset]; exact this
  have hpos : 1 ≤ curOrd st.cur := toOrdinal_pos _ _ _ hg.facts.year_lo hg.valid
  have hord := hg.ord
  obtain ⟨fl, hres, _⟩ := periodResults_day_e hw st hg.facts hg.inv hg.valid (by omega)
    (by rw [hsp.1]; exact hsp.2) htsok (by omega)
  rw [hord] at hres
  have hbridge : (intRange (Spec.RRule.startOrd a + k * a.interval) (Spec.RRule.startOrd a + k * a.interval + 1)).filter
      (fun o => simpleOk r o && eclause r o) = (intRange (Spec.RRule.startOrd a + k * a.interval)
        (Spec.RRule.startOrd a + k * a.interval + 1)).filter (Spec.RRule.dateOk a) := by
    apply List.filter_congr
    intro o ho
    exact de_bridge da h o (by have := (mem_intRange _ _ _).mp ho; omega)
  refine ⟨⟨fl, ?_⟩, ?_⟩
  · rw [hres, hg.timeset, sel_span_sp a k _ _ (de_span da k), hbridge, hsp.1]
  · intro x hx
    rw [sel_span_sp a k _ _ (de_span da k)] at hx
    have := sel_bounds _ _ _ _ x (applySetpos_subset _ _ x hx)
    omega

theorem de_next (da : DailyEArgs a) (h : construct a = .ok r) (k : Nat) (st : State) (fl : Bool)
    (c : Option Int) (hg : DailyEGood a r k st)
    (hle : Spec.RRule.startOrd a + (k + 1 : Nat) * a.interval ≤ emaxOrd) :
    ∃ st', advance r { st with count := c } fl = .ok st' ∧ DailyEGood a r (k + 1) st' := by
  have hw := de_erule da h
  obtain ⟨bh, bm, bs, hr⟩ := de_rule da h
  have hfreq : r.freq = 3 := by rw [hr]; exact da.freq
  have hint : r.interval = a.interval := by rw [hr]
  have hi := da.interval
  obtain ⟨hm1, hm12, hd1, hd2⟩ := hg.valid
  have hex : ∃ st', advance r { st with count := c } fl = .ok st' ∧ EInv r st'.info := by
    unfold advance
    dsimp only
    rw [if_neg (by simp [hfreq]), if_neg (by simp [hfreq]), if_neg (by simp [hfreq]), if_pos (by simp [hfreq])]
    have hcur : curOrd { st.cur with day := st.cur.day + r.interval } ≤ emaxOrd := by
      have : curOrd { st.cur with day := st.cur.day + r.interval } = curOrd st.cur + r.interval := by
        unfold curOrd toOrdinal; dsimp only; omega
      rw [this, hg.ord, hint]
      have e : ((k + 1 : Nat) : Int) * a.interval = k * a.interval + a.interval := by
        push_cast; rw [Int.add_mul]; omega
      omega
    exact fixDay_ok_e hw
      { cur := { st.cur with day := st.cur.day + r.interval }, info := st.info, timeset := st.timeset, count := c }
      true hg.facts hm1 hm12 (by dsimp only; omega) hcur hg.inv
  obtain ⟨st', hadv, hinv⟩ := hex
  refine ⟨st', hadv, ?_⟩
  have sp := advance_daily r { st with count := c } st' fl hfreq (by omega) hg.valid hg.facts hadv
  obtain ⟨e, v, f', ts⟩ := sp
  refine ⟨f', hinv, v, ?_, ?_⟩
  · rw [e]; dsimp only; rw [hg.ord, hint]; push_cast; rw [Int.add_mul]; omega
  · rw [ts]; exact hg.timeset

theorem de_init (da : DailyEArgs a) (h : construct a = .ok r) (hlo : 1583 ≤ a.dtstart.y)
    (hhi : Spec.RRule.startOrd a ≤ emaxOrd) :
    ∃ st0, init r = .ok st0 ∧ DailyEGood a r 0 st0 ∧ st0.count = r.count := by
  have hw := de_erule da h
  have hv := da.valid
  have hy2 := start_year_hi a hv hhi
  unfold DT.Valid ValidDate at hv
  obtain ⟨info, hre, hinv⟩ := rebuild_e hw a.dtstart.y a.dtstart.m hlo hy2
  obtain ⟨bh, bm, bs, hr⟩ := de_rule da h
  have hd : r.dtstart = { a.dtstart with us := 0 } := by rw [hr]
  have hf : r.freq = 3 := by rw [hr]; exact da.freq
  have hts : r.timeset = some (Spec.RRule.timesOf a none none none) := by rw [hr]
  refine ⟨{ cur := { year := a.dtstart.y, month := a.dtstart.m, day := a.dtstart.d, hour := a.dtstart.hh,
                     minute := a.dtstart.mm, second := a.dtstart.ss, weekday := r.dtstart.weekday },
            info := info, timeset := Spec.RRule.timesOf a none none none, count := r.count }, ?_, ?_, rfl⟩
  · unfold init
    simp only [hd, bind, Except.bind, hre, hf, hts, pure, Except.pure]
    rfl
  · refine ⟨rebuild_facts r _ _ info hre, hinv, hv.1.2.2, ?_, rfl⟩
    unfold curOrd Spec.RRule.startOrd DT.ordinal; simp

/-- **`iter_eq_spec`, DAILY with BYEASTER** on the complement of D-C01d (offsets −80..250), every visited day inside
    1583..4099 (where C19 ties `easter.easter` to Meeus/Jones/Butcher): INTERVAL ≥ 1, a valid start, any BYMONTH /
    BYMONTHDAY (non-zero) / BYYEARDAY / BYDAY / BYHOUR / BYMINUTE / BYSECOND / BYSETPOS, any COUNT / UNTIL, no BYWEEKNO:
    exactly the specification's recurrence set. -/
theorem iter_eq_spec_daily_easter (ea : DailyEArgs a) (h : construct a = .ok r) (n : Nat)
    (hlo : 1583 ≤ a.dtstart.y)
    (hn : Spec.RRule.startOrd a + n * a.interval ≤ Cal.toOrdinal 4099 12 31) :
    (iter r n).1 = Spec.RRule.occ a n := by
  have hi := ea.interval
  have hn' : Spec.RRule.startOrd a + n * a.interval ≤ emaxOrd := hn
  have hmx := emaxOrd_le
  have hmono : ∀ k : Nat, k ≤ n → Spec.RRule.startOrd a + k * a.interval ≤ emaxOrd := by
    intro k hk
    have : (k : Int) * a.interval ≤ n * a.interval :=
      Int.mul_le_mul_of_nonneg_right (by omega) (by omega)
    omega
  have sim : Simulation a r n (DailyEGood a r) := {
    agree := de_cuts ea h
    results := fun k st hk hg => by
      obtain ⟨⟨fl, hres⟩, hb⟩ := de_results ea h k st hg (by have := hmono k (by omega); omega)
      exact ⟨fl, [], _, hres, rfl, by simp, hb⟩
    next := fun k st fl c hk hg => de_next ea h k st fl c hg (hmono (k + 1) (by omega))
    }
  obtain ⟨st0, hinit, hg0, hc0⟩ := de_init ea h hlo (by have := hmono 0 (by omega); simpa using this)
  exact iter_refines sim st0 hinit hg0 hc0 n (by omega)

example : DailyEArgs { freq := 3, dtstart := ⟨2024, 1, 1, 10, 0, 0, 0⟩, byeaster := some [0, 1] } :=
  { freq := rfl, interval := by decide, valid := by decide, byweekno := rfl,
    monthday_nz := by intro x hx; simp at hx,
    easter := ⟨[0, 1], rfl, by simp, by intro o ho; simp at ho; omega⟩ }

end RRule
