/-
  Proofs/RSetHistoryInv.lean — the invariant `Good` tying the history machine of a set object
  (Model/RRuleSet.lean) to its specification (Spec/RSetHistory.lean), preserved by every op that
  does not advance a stale iterator; every observation equals the specified one (C10 history_inv).
-/
import DateutilVerif.Proofs.RSetHistory
import DateutilVerif.Spec.RSetHistory

namespace RSet
open Cache Queries

/-! ### members -/

theorem insertSorted_sorted (x : Int) (l : List Int) (h : l.Pairwise (· ≤ ·)) :
    (insertSorted x l).Pairwise (· ≤ ·) ∧ ∀ y, y ∈ insertSorted x l ↔ y = x ∨ y ∈ l := by
  induction l with
  | nil => simp [insertSorted]
  | cons a l ih =>
    have ⟨ha, hl⟩ := List.pairwise_cons.mp h
    have ⟨ih1, ih2⟩ := ih hl
    unfold insertSorted
    by_cases h1 : x ≤ a
    · rw [if_pos h1]
      refine ⟨?_, fun y => by simp⟩
      rw [List.pairwise_cons]
      refine ⟨fun b hb => ?_, h⟩
      rcases List.mem_cons.mp hb with rfl | hb
      · exact h1
      · have := ha b hb; omega
    · rw [if_neg h1]
      refine ⟨?_, fun y => ?_⟩
      · rw [List.pairwise_cons]
        refine ⟨fun b hb => ?_, ih1⟩
        rcases (ih2 b).mp hb with rfl | hb
        · omega
        · exact ha b hb
      · rw [List.mem_cons, ih2 y, List.mem_cons]
        constructor
        · rintro (h | h | h)
          · exact Or.inr (Or.inl h)
          · exact Or.inl h
          · exact Or.inr (Or.inr h)
        · rintro (h | h | h)
          · exact Or.inr (Or.inl h)
          · exact Or.inl h
          · exact Or.inr (Or.inr h)

theorem sortList_sorted (l : List Int) : (sortList l).Pairwise (· ≤ ·) := by
  induction l with
  | nil => simp [sortList]
  | cons a l ih => exact (insertSorted_sorted a (sortList l) ih).1

def MSorted (m : Members) : Prop := ∀ s ∈ m.rrules ++ m.exrules, s.Pairwise (· ≤ ·)

/-- the generator of a set with sorted members yields its specification, which is strictly increasing -/
theorem members_src (m : Members) (h : MSorted m) : m.src = specL m ∧ Sorted (specL m) := by
  have hinc : ∀ s ∈ m.inc, s.Pairwise (· ≤ ·) := by
    intro s hs
    rcases List.mem_cons.mp hs with rfl | hs
    · exact sortList_sorted _
    · exact h s (by simp [hs])
  have hexc : ∀ s ∈ m.exc, s.Pairwise (· ≤ ·) := by
    intro s hs
    rcases List.mem_cons.mp hs with rfl | hs
    · exact sortList_sorted _
    · exact h s (by simp [hs])
  refine ⟨?_, ?_⟩
  · unfold Members.src specL
    have ⟨h1, _, _, h4⟩ := loop_spec selFirstMin_adm (totalLen m.inc + 1) (m.inc.filterMap mkCursor)
      (m.exc.filterMap mkCursor) none (sorted_mk _ hinc) (sorted_mk _ hexc) (by rw [total_mk]; omega)
      (fun l hl => by cases hl)
    have ⟨s1, s2⟩ := sortDedup_spec (m.inc.flatten.filter (fun x => !(m.exc.flatten.elem x)))
    unfold iter setSpec
    apply sorted_ext _ _ h1 s1
    intro x
    rw [h4 x, s2 x, mem_elemsOf_mk, mem_elemsOf_mk, List.mem_filter]
    simp [List.elem_eq_mem]
  · exact (sortDedup_spec _).1

/-! ### the invariant -/

theorem lt_of_getElem? {α} {l : List α} {j : Nat} {a : α} (h : l[j]? = some a) : j < l.length := by
  by_cases hc : j < l.length
  · exact hc
  · rw [List.getElem?_eq_none (Nat.le_of_not_lt hc)] at h; cases h


structure Good (st : RSetState) (tr : Track) : Prop where
  m_eq : st.m = tr.m
  msorted : MSorted tr.m
  gens : st.old.length = tr.muts
  hlen : st.handles.length = tr.opened.length
  src : st.cur.sh.src = specL tr.m
  older : ∀ (j : Nat) (m0 c : Nat), tr.opened[j]? = some (m0, c) → m0 ≤ tr.muts
  cinv : st.cacheOn = true → Inv st.cur ∧ Parked st.cur
  ulen : st.cacheOn = false → st.cur.sh.len = none ∨ st.cur.sh.len = some (specL tr.m).length
  hc : st.cacheOn = true → ∀ (j : Nat) (h : Handle) (c : Nat), st.handles[j]? = some h →
        tr.opened[j]? = some (tr.muts, c) →
        h.gen = tr.muts ∧ ∃ it : Iter, st.cur.its[h.tid]? = some it ∧ it.q = .iterAll ∧ it.yielded.length = c
  hd : st.cacheOn = true → ∀ (j j' : Nat) (h h' : Handle) (c c' : Nat), st.handles[j]? = some h →
        st.handles[j']? = some h' → tr.opened[j]? = some (tr.muts, c) → tr.opened[j']? = some (tr.muts, c') →
        h.tid = h'.tid → j = j'
  hu : st.cacheOn = false → ∀ (j : Nat) (h : Handle) (c : Nat), st.handles[j]? = some h →
        tr.opened[j]? = some (tr.muts, c) →
        (h.udone = true → (specL tr.m).length ≤ c) ∧
        (h.udone = false → (h.usrc = none ∧ h.upos = 0 ∧ c = 0) ∨ (h.usrc = some (specL tr.m) ∧ h.upos = c))
  /-- a bound `_iter()` generator of an uncached set carries the generation it was bound in; one bound in the current
      generation is bound to the current sequence (so the `_len` it may publish is the right one) -/
  hgen : st.cacheOn = false → ∀ (j : Nat) (h : Handle), st.handles[j]? = some h → h.usrc.isSome = true →
        h.gen ≤ st.old.length ∧ (h.gen = st.old.length → h.usrc = some (specL tr.m))
  /-- cached set: no handle is of a future generation; the handles of the CURRENT generation (whatever the bookkeeping says
      about them: an iterator created before a mutator but first advanced after it belongs to the current generation) own
      distinct plain-iterator threads of the current machine -/
  hgle : st.cacheOn = true → ∀ (j : Nat) (h : Handle), st.handles[j]? = some h → h.gen ≤ st.old.length
  hcg : st.cacheOn = true → ∀ (j : Nat) (h : Handle), st.handles[j]? = some h → h.gen = st.old.length →
        ∃ it : Iter, st.cur.its[h.tid]? = some it ∧ it.q = .iterAll
  hdg : st.cacheOn = true → ∀ (j j' : Nat) (h h' : Handle), st.handles[j]? = some h → st.handles[j']? = some h' →
        h.gen = st.old.length → h'.gen = st.old.length → h.tid = h'.tid → j = j'

theorem good_init (c : Bool) : Good (newState c) {} := by
  refine ⟨rfl, ?_, rfl, rfl, (show ([] : List Int) = specL {} by decide), ?_, ?_, ?_, ?_, ?_, ?_, ?_,
    fun _ j h hh => by simp [newState] at hh, fun _ j h hh => by simp [newState] at hh,
    fun _ j j' h h' hh => by simp [newState] at hh⟩
  · intro s hs; simp at hs
  · intro j m0 c h; simp at h
  · intro _
    exact ⟨inv_init [] [], fun t it h => by simp [newState] at h, rfl⟩
  · intro _; exact Or.inl rfl
  · intro _ j h c hh; simp [newState] at hh
  · intro _ j j' h h' c c' hh; simp [newState] at hh
  · intro _ j h c hh; simp [newState] at hh
  · intro _ j h hh; simp [newState] at hh

/-- a mutator: every kept iterator becomes stale, the object starts a fresh generation -/
theorem good_mutate {st : RSetState} {tr : Track} (hg : Good st tr) (m' : Members) (hm' : MSorted m') :
    Good (invalidate st m') { tr with m := m', muts := tr.muts + 1 } := by
  have hsrc := members_src m' hm'
  have hnot : ∀ (j c : Nat), tr.opened[j]? = some (tr.muts + 1, c) → False := by
    intro j c h
    have := hg.older j _ c h
    omega
  have hfut : ∀ (hco : st.cacheOn = true) (j : Nat) (h : Handle), st.handles[j]? = some h → h.gen = (st.cur :: st.old).length → False := by
    intro hco j h hh e
    have := hg.hgle hco j h hh
    simp only [List.length_cons] at e; omega
  refine ⟨rfl, hm', ?_, hg.hlen, hsrc.1, ?_, ?_, ?_, ?_, ?_, ?_, ?_,
    fun hco j h hh => by have := hg.hgle hco j h hh; show h.gen ≤ (st.cur :: st.old).length; simp only [List.length_cons]; omega,
    fun hco j h hh e => (hfut hco j h hh e).elim, fun hco j j' h h' hh _ e => (hfut hco j h hh e).elim⟩
  · simp [invalidate, hg.gens]
  · intro j m0 c h
    have := hg.older j m0 c h
    show m0 ≤ tr.muts + 1
    omega
  · intro _
    exact ⟨inv_init m'.src [], fun t it h => by simp [invalidate] at h, rfl⟩
  · intro _; exact Or.inl rfl
  · intro _ j h c _ ho; exact (hnot j c ho).elim
  · intro _ j j' h h' c c' _ _ ho; exact (hnot j c ho).elim
  · intro _ j h c _ ho; exact (hnot j c ho).elim
  · intro hco j h hh hb
    have := (hg.hgen hco j h hh hb).1
    refine ⟨?_, fun e => ?_⟩
    · show h.gen ≤ (st.cur :: st.old).length
      simp only [List.length_cons]; omega
    · have e' : h.gen = (st.cur :: st.old).length := e
      simp only [List.length_cons] at e'; omega

theorem runUncached_spec (sh : Shared) (q : Query) (L : List Int) (hsmall : fits q L) (hsrc : sh.src = L) (hL : Sorted L)
    (hlen : sh.len = none ∨ sh.len = some L.length) :
    (runUncached sh q).2 = some (spec q L) ∧ (runUncached sh q).1.src = L ∧
    ((runUncached sh q).1.len = none ∨ (runUncached sh q).1.len = some L.length) := by
  cases q with
  | count =>
    simp only [runUncached]
    rcases hlen with h | h
    · rw [h]; simp [spec, hsrc]
    · rw [h]; simp [spec, hsrc, h]
  | _ =>
    simp only [runUncached]
    refine ⟨by rw [hsrc, Cache.gen_eq_spec _ _ hL hsmall], by split <;> exact hsrc, ?_⟩
    split
    · exact hlen
    · right; simp [hsrc]

theorem good_query {st : RSetState} {tr : Track} (hg : Good st tr) (q : Query) (hsmall : fits q (specL tr.m)) :
    (applyOp st (.q q)).2 = some (spec q (specL tr.m)) ∧ Good (applyOp st (.q q)).1 tr := by
  have hsorted := (members_src tr.m hg.msorted).2
  cases hco : st.cacheOn with
  | true =>
    obtain ⟨hi, hp⟩ := hg.cinv hco
    have hs : Sorted st.cur.sh.src := by rw [hg.src]; exact hsorted
    obtain ⟨r1, r2, r3, r4, r5, r6⟩ := runQuery_spec hi hp hs q (by rw [hg.src]; exact hsmall)
    simp only [applyOp, hco, ↓reduceIte]
    refine ⟨by rw [r1, hg.src], ⟨hg.m_eq, hg.msorted, hg.gens, hg.hlen, r4.trans hg.src, hg.older,
      fun _ => ⟨r2, r3⟩, fun h => by simp [hco] at h, ?_, fun _ => hg.hd hco, fun h => by simp [hco] at h,
      fun h => by simp [hco] at h, fun _ => hg.hgle hco, ?_, fun _ => hg.hdg hco⟩⟩
    rotate_left
    · intro _ j h hh hgn
      obtain ⟨it, e2, e3⟩ := hg.hcg hco j h hh hgn
      exact ⟨it, (r5 h.tid (lt_of_getElem? e2)).trans e2, e3⟩
    intro _ j h c hh ho
    obtain ⟨e1, it, e2, e3, e4⟩ := hg.hc hco j h c hh ho
    refine ⟨e1, it, ?_, e3, e4⟩
    have hlt : h.tid < st.cur.its.length := by
      by_cases hc : h.tid < st.cur.its.length
      · exact hc
      · rw [List.getElem?_eq_none (Nat.le_of_not_lt hc)] at e2; cases e2
    show (runQuery st.cur q).1.its[h.tid]? = some it
    rw [r5 h.tid hlt]; exact e2
  | false =>
    obtain ⟨r1, r2, r3⟩ := runUncached_spec st.cur.sh q _ hsmall hg.src hsorted (hg.ulen hco)
    simp only [applyOp, hco, Bool.false_eq_true, ↓reduceIte]
    exact ⟨r1, ⟨hg.m_eq, hg.msorted, hg.gens, hg.hlen, r2, hg.older, fun h => by simp [hco] at h,
      fun _ => r3, fun h => by simp [hco] at h, fun h => by simp [hco] at h, fun _ => hg.hu hco, fun _ => hg.hgen hco,
      fun h => by simp [hco] at h, fun h => by simp [hco] at h, fun h => by simp [hco] at h⟩⟩

theorem getElem?_set_other {α} (l : List α) (j j' : Nat) (a : α) (h : j ≠ j') : (l.set j a)[j']? = l[j']? :=
  List.getElem?_set_ne h

/-- `list(islice(it_j, k))` on a kept iterator of the CURRENT generation of a cached set -/
theorem resumeCached_cur {st : RSetState} {tr : Track} (hg : Good st tr) (hco : st.cacheOn = true)
    (j : Nat) (h : Handle) (c k : Nat) (hh : st.handles[j]? = some h) (ho : tr.opened[j]? = some (tr.muts, c)) :
    (resumeCached st j h k).2 = some (.list (((specL tr.m).drop c).take k)) ∧
    Good (resumeCached st j h k).1
      { tr with opened := tr.opened.set j (tr.muts, c + (((specL tr.m).drop c).take k).length) } := by
  obtain ⟨hi, hp⟩ := hg.cinv hco
  obtain ⟨hgen, it, hit, hq, hyl⟩ := hg.hc hco j h c hh ho
  have hsolo : Solo st.cur h.tid := ⟨hi, fun t' it' _ h' => hp.1 t' it' h'⟩
  obtain ⟨hs', hsrc, hlen, hoth, it', hit', hq', hpk', hvals, hy'⟩ :=
    takeVals_spec h.tid k st.cur it [] hsolo hit hq (hp.1 _ it hit)
  have hcur : h.gen = st.old.length := by rw [hgen, hg.gens]
  unfold resumeCached
  simp only [hcur, ↓reduceIte]
  rw [hg.src, hyl] at hvals hy'
  simp only [List.nil_append] at hvals
  have hcrash : it'.crash = none := (hs'.inv.linv _ it' hit').1
  refine ⟨?_, ⟨hg.m_eq, hg.msorted, hg.gens, ?_, hsrc.trans hg.src, ?_, ?_, fun h => by simp [hco] at h, ?_, ?_,
    fun h => by simp [hco] at h, fun h => by simp [hco] at h, fun _ => hg.hgle hco, ?_, fun _ => hg.hdg hco⟩⟩
  rotate_right
  · intro _ j2 h2 hh2 hgn2
    by_cases e : h2.tid = h.tid
    · exact ⟨it', by rw [e]; exact hit', hq'⟩
    · obtain ⟨it2, e2, e3⟩ := hg.hcg hco j2 h2 hh2 hgn2
      exact ⟨it2, (hoth h2.tid e).trans e2, e3⟩
  · -- the observation
    show some (takeObs st.cur (takeVals st.cur h.tid k []).1 h.tid (takeVals st.cur h.tid k []).2) = _
    rw [hvals]
    unfold takeObs
    split
    · rfl
    · rw [hit']; simp only []; rw [hcrash]
  · show st.handles.length = (tr.opened.set j _).length
    rw [List.length_set]; exact hg.hlen
  · intro j' m0 c' ho'
    simp only [] at ho'
    by_cases e : j = j'
    · subst e
      rw [List.getElem?_set_self (by
        by_cases hc : j < tr.opened.length
        · exact hc
        · rw [List.getElem?_eq_none (Nat.le_of_not_lt hc)] at ho; cases ho)] at ho'
      cases ho'; exact Nat.le_refl _
    · rw [getElem?_set_other _ _ _ _ e] at ho'; exact hg.older j' m0 c' ho'
  · intro _
    refine ⟨hs'.inv, fun t' it2 h2 => ?_, (takeVals_endErr h.tid k st.cur [] hi).trans hp.2⟩
    by_cases e : t' = h.tid
    · subst e
      rw [show (takeVals st.cur h.tid k []).1.its[h.tid]? = some it' from hit'] at h2
      cases h2; exact hpk'
    · exact hs'.parked t' it2 e h2
  · intro _ j' h2 c2 hh2 ho2
    simp only [] at hh2 ho2
    by_cases e : j = j'
    · subst e
      rw [hh] at hh2; cases hh2
      rw [List.getElem?_set_self (by
        by_cases hc : j < tr.opened.length
        · exact hc
        · rw [List.getElem?_eq_none (Nat.le_of_not_lt hc)] at ho; cases ho)] at ho2
      cases ho2
      refine ⟨hgen, it', hit', hq', ?_⟩
      rw [hy', List.length_append, hyl]
    · rw [getElem?_set_other _ _ _ _ e] at ho2
      obtain ⟨e1, it2, e2, e3, e4⟩ := hg.hc hco j' h2 c2 hh2 ho2
      refine ⟨e1, it2, ?_, e3, e4⟩
      have hne : h2.tid ≠ h.tid := by
        intro heq
        exact e (hg.hd hco j' j h2 h c2 c hh2 hh ho2 ho heq).symm
      show (takeVals st.cur h.tid k []).1.its[h2.tid]? = some it2
      rw [hoth h2.tid hne]; exact e2
  · intro _ j1 j2 h1 h2 c1 c2 hh1 hh2 ho1 ho2 htid
    simp only [] at hh1 hh2 ho1 ho2
    have key : ∀ (j' c' : Nat), (tr.opened.set j (tr.muts, c + (((specL tr.m).drop c).take k).length))[j']? = some (tr.muts, c') →
        ∃ c'' : Nat, tr.opened[j']? = some (tr.muts, c'') := by
      intro j' c' h'
      by_cases e : j = j'
      · subst e; exact ⟨c, ho⟩
      · rw [getElem?_set_other _ _ _ _ e] at h'; exact ⟨c', h'⟩
    obtain ⟨c1', ho1'⟩ := key j1 c1 ho1
    obtain ⟨c2', ho2'⟩ := key j2 c2 ho2
    exact hg.hd hco j1 j2 h1 h2 c1' c2' hh1 hh2 ho1' ho2' htid

theorem set_same {α} (l : List α) (j : Nat) (a : α) (h : l[j]? = some a) : l.set j a = l := by
  induction l generalizing j with
  | nil => rfl
  | cons x xs ih =>
    cases j with
    | zero => simp only [List.getElem?_cons_zero, Option.some.injEq] at h; subst h; rfl
    | succ j => simp only [List.getElem?_cons_succ] at h; simp [List.set_cons_succ, ih j h]

theorem ite_len_src (b : Bool) (sh : Shared) (n : Nat) : (if b = true then { sh with len := some n } else sh).src = sh.src := by
  cases b <;> rfl

theorem ite_len_len (b : Bool) (sh : Shared) (n : Nat) (h : sh.len = none ∨ sh.len = some n) :
    (if b = true then { sh with len := some n } else sh).len = none ∨ (if b = true then { sh with len := some n } else sh).len = some n := by
  cases b
  · exact h
  · right; rfl

/-- `list(islice(it_j, k))` on a kept `_iter()` generator of an uncached set, created after the last mutator -/
theorem resumeUncached_cur {st : RSetState} {tr : Track} (hg : Good st tr) (hco : st.cacheOn = false)
    (j : Nat) (h : Handle) (c k : Nat) (hh : st.handles[j]? = some h) (ho : tr.opened[j]? = some (tr.muts, c)) :
    (resumeUncached st j h k).2 = some (.list (((specL tr.m).drop c).take k)) ∧
    Good (resumeUncached st j h k).1
      { tr with opened := tr.opened.set j (tr.muts, c + (((specL tr.m).drop c).take k).length) } := by
  obtain ⟨hu1, hu2⟩ := hg.hu hco j h c hh ho
  have hjlt := lt_of_getElem? ho
  unfold resumeUncached
  by_cases hstop : (k = 0 || h.udone) = true
  · rw [if_pos hstop]
    have hnil : ((specL tr.m).drop c).take k = [] := by
      simp only [Bool.or_eq_true, decide_eq_true_eq] at hstop
      rcases hstop with rfl | hd
      · simp
      · rw [List.drop_eq_nil_of_le (hu1 hd)]; simp
    rw [hnil]
    simp only [List.length_nil, Nat.add_zero]
    rw [set_same _ _ _ ho]
    exact ⟨trivial, hg⟩
  · rw [if_neg hstop]
    simp only [Bool.or_eq_true, decide_eq_true_eq, not_or, Bool.not_eq_true] at hstop
    obtain ⟨hk, hnd⟩ := hstop
    have hsrcL : h.usrc.getD st.cur.sh.src = specL tr.m ∧ h.upos = c := by
      rcases hu2 hnd with ⟨a, b, c0⟩ | ⟨a, b⟩
      · rw [a, c0, b]; exact ⟨hg.src, rfl⟩
      · rw [a, b]; exact ⟨rfl, rfl⟩
    simp only [hsrcL.1, hsrcL.2]
    generalize hv : ((specL tr.m).drop c).take k = vals
    have hvl : vals.length = min k ((specL tr.m).length - c) := by
      rw [← hv, List.length_take, List.length_drop]
    refine ⟨trivial, ⟨hg.m_eq, hg.msorted, hg.gens, ?_, ?_, ?_, fun h => by simp [hco] at h, ?_,
      fun h => by simp [hco] at h, fun h => by simp [hco] at h, ?_, ?_,
      fun h => by simp [hco] at h, fun h => by simp [hco] at h, fun h => by simp [hco] at h⟩⟩
    · show (st.handles.set j _).length = (tr.opened.set j _).length
      rw [List.length_set, List.length_set]; exact hg.hlen
    · exact (ite_len_src _ _ _).trans hg.src
    · intro j' m0 c' ho'
      simp only [] at ho'
      by_cases e : j = j'
      · subst e
        rw [List.getElem?_set_self hjlt] at ho'
        cases ho'; exact Nat.le_refl _
      · rw [getElem?_set_other _ _ _ _ e] at ho'; exact hg.older j' m0 c' ho'
    · intro _
      exact ite_len_len _ _ _ (hg.ulen hco)
    · intro _ j' h2 c2 hh2 ho2
      simp only [] at hh2 ho2
      by_cases e : j = j'
      · subst e
        rw [List.getElem?_set_self (lt_of_getElem? hh)] at hh2
        rw [List.getElem?_set_self hjlt] at ho2
        cases hh2; cases ho2
        simp only [decide_eq_true_eq, decide_eq_false_iff_not]
        refine ⟨fun hf => by omega, fun hf => Or.inr ⟨trivial, trivial⟩⟩
      · rw [getElem?_set_other _ _ _ _ e] at hh2 ho2
        exact hg.hu hco j' h2 c2 hh2 ho2
    · intro _ j' h2 hh2 hb2
      simp only [] at hh2
      by_cases e : j = j'
      · subst e
        rw [List.getElem?_set_self (lt_of_getElem? hh)] at hh2
        cases hh2
        simp only []
        cases hus : h.usrc with
        | none => simp
        | some u =>
          simp only [Option.isSome_some, ↓reduceIte]
          have := hg.hgen hco j h hh (by rw [hus]; rfl)
          exact ⟨this.1, fun _ => trivial⟩
      · rw [getElem?_set_other _ _ _ _ e] at hh2
        exact hg.hgen hco j' h2 hh2 hb2

theorem set_append_last {α} (l : List α) (a b : α) : (l ++ [a]).set l.length b = l ++ [b] := by
  induction l with
  | nil => rfl
  | cons x xs ih => simp [List.set_cons_succ, ih]

theorem getElem?_snoc_cases {α} (l : List α) (a x : α) (j : Nat) (h : (l ++ [a])[j]? = some x) :
    (j < l.length ∧ l[j]? = some x) ∨ (j = l.length ∧ x = a) := by
  by_cases hlt : j < l.length
  · rw [List.getElem?_append_left hlt] at h; exact Or.inl ⟨hlt, h⟩
  · have hge : l.length ≤ j := Nat.le_of_not_lt hlt
    rw [List.getElem?_append_right hge] at h
    by_cases e : j - l.length = 0
    · rw [e] at h; simp at h; exact Or.inr ⟨Nat.le_antisymm (Nat.le_of_sub_eq_zero e) hge, h.symm⟩
    · have : ([a])[j - l.length]? = none := by
        apply List.getElem?_eq_none
        simp only [List.length_cons, List.length_nil]
        exact Nat.pos_of_ne_zero e
      rw [this] at h; cases h

/-- `iter(s)` on a cached set at rest: a new kept iterator that has delivered nothing -/
theorem good_create_cached {st : RSetState} {tr : Track} (hg : Good st tr) (hco : st.cacheOn = true) :
    Good { st with cur := runCreate { st.cur with its := st.cur.its ++ [{ q := .iterAll }] } st.cur.its.length 8,
                   handles := st.handles ++ [{ gen := st.old.length, tid := st.cur.its.length }] }
         { tr with opened := tr.opened ++ [(tr.muts, 0)] } := by
  obtain ⟨hi, hp⟩ := hg.cinv hco
  let s0 : State := { st.cur with its := st.cur.its ++ [{ q := .iterAll }] }
  have hi0 : Inv s0 := inv_add hi .iterAll
  have hit0 : s0.its[st.cur.its.length]? = some { q := .iterAll } := getElem?_append_new _ _
  have hs0 : Solo s0 st.cur.its.length := by
    refine ⟨hi0, fun t' it' e h => ?_⟩
    rcases getElem?_snoc_cases _ _ _ _ h with ⟨_, h'⟩ | ⟨e', _⟩
    · exact hp.1 t' it' h'
    · exact absurd e' e
  obtain ⟨hs1, hsrc, hlen, hoth, it', hit', hq', hy', hpk'⟩ :=
    runCreate_spec st.cur.its.length 8 s0 _ hs0 hit0 rfl rfl
  have hold : ∀ t', t' < st.cur.its.length →
      (runCreate s0 st.cur.its.length 8).its[t']? = st.cur.its[t']? := by
    intro t' hlt
    rw [hoth t' (Nat.ne_of_lt hlt)]
    show (st.cur.its ++ [({ q := .iterAll } : Iter)])[t']? = _
    rw [List.getElem?_append_left hlt]
  refine ⟨hg.m_eq, hg.msorted, hg.gens, ?_, hsrc.trans hg.src, ?_, ?_, fun h => by simp [hco] at h, ?_, ?_,
    fun h => by simp [hco] at h, fun h => by simp [hco] at h, ?_, ?_, ?_⟩
  rotate_right 3
  · intro _ j h hh
    rcases getElem?_snoc_cases _ _ _ _ hh with ⟨_, hh'⟩ | ⟨_, e⟩
    · exact hg.hgle hco j h hh'
    · subst e; exact Nat.le_refl _
  · intro _ j h hh hgn
    rcases getElem?_snoc_cases _ _ _ _ hh with ⟨_, hh'⟩ | ⟨_, e⟩
    · obtain ⟨it2, e2, e3⟩ := hg.hcg hco j h hh' hgn
      exact ⟨it2, (hold h.tid (lt_of_getElem? e2)).trans e2, e3⟩
    · subst e; exact ⟨it', hit', hq'⟩
  · intro _ j1 j2 h1 h2 hh1 hh2 g1 g2 htid
    rcases getElem?_snoc_cases _ _ _ _ hh1 with ⟨hj1, hh1'⟩ | ⟨hj1, e1⟩ <;>
      rcases getElem?_snoc_cases _ _ _ _ hh2 with ⟨hj2, hh2'⟩ | ⟨hj2, e2⟩
    · exact hg.hdg hco j1 j2 h1 h2 hh1' hh2' g1 g2 htid
    · obtain ⟨it2, e2', _⟩ := hg.hcg hco j1 h1 hh1' g1
      have := lt_of_getElem? e2'
      subst e2; simp only [] at htid; omega
    · obtain ⟨it2, e2', _⟩ := hg.hcg hco j2 h2 hh2' g2
      have := lt_of_getElem? e2'
      subst e1; simp only [] at htid; omega
    · rw [hj1, hj2]
  · show (st.handles ++ [_]).length = (tr.opened ++ [_]).length
    simp [hg.hlen]
  · intro j m0 c ho
    rcases getElem?_snoc_cases _ _ _ _ ho with ⟨_, h'⟩ | ⟨_, e⟩
    · exact hg.older j m0 c h'
    · cases e; exact Nat.le_refl _
  · intro _
    refine ⟨hs1.inv, fun t' it2 h2 => ?_, (runCreate_endErr st.cur.its.length 8 s0 hi0).trans hp.2⟩
    by_cases e : t' = st.cur.its.length
    · subst e
      rw [show (runCreate s0 st.cur.its.length 8).its[st.cur.its.length]? = some it' from hit'] at h2
      cases h2; exact hpk'
    · exact hs1.parked t' it2 e h2
  · intro _ j h c hh ho
    rcases getElem?_snoc_cases _ _ _ _ hh with ⟨hj, hh'⟩ | ⟨hj, e⟩
    · have ho' : tr.opened[j]? = some (tr.muts, c) := by
        rcases getElem?_snoc_cases _ _ _ _ ho with ⟨_, h'⟩ | ⟨hj2, _⟩
        · exact h'
        · rw [hg.hlen] at hj; omega
      obtain ⟨e1, it2, e2, e3, e4⟩ := hg.hc hco j h c hh' ho'
      exact ⟨e1, it2, (hold h.tid (lt_of_getElem? e2)).trans e2, e3, e4⟩
    · have hc0 : c = 0 := by
        rcases getElem?_snoc_cases _ _ _ _ ho with ⟨hj2, _⟩ | ⟨_, e'⟩
        · rw [← hg.hlen] at hj2; omega
        · cases e'; rfl
      subst e
      exact ⟨hg.gens, it', hit', hq', by rw [hy', hc0]; rfl⟩
  · intro _ j1 j2 h1 h2 c1 c2 hh1 hh2 ho1 ho2 htid
    have tidlt : ∀ (j : Nat) (h : Handle) (c : Nat), j < st.handles.length → st.handles[j]? = some h →
        (tr.opened ++ [(tr.muts, 0)])[j]? = some (tr.muts, c) → h.tid < st.cur.its.length := by
      intro j h c hj hh ho
      have ho' : tr.opened[j]? = some (tr.muts, c) := by
        rcases getElem?_snoc_cases _ _ _ _ ho with ⟨_, h'⟩ | ⟨hj2, _⟩
        · exact h'
        · rw [hg.hlen] at hj; omega
      obtain ⟨_, it2, e2, _, _⟩ := hg.hc hco j h c hh ho'
      exact lt_of_getElem? e2
    rcases getElem?_snoc_cases _ _ _ _ hh1 with ⟨hj1, hh1'⟩ | ⟨hj1, e1⟩ <;>
      rcases getElem?_snoc_cases _ _ _ _ hh2 with ⟨hj2, hh2'⟩ | ⟨hj2, e2⟩
    · have ho1' : tr.opened[j1]? = some (tr.muts, c1) := by
        rcases getElem?_snoc_cases _ _ _ _ ho1 with ⟨_, h'⟩ | ⟨hx, _⟩
        · exact h'
        · rw [hg.hlen] at hj1; omega
      have ho2' : tr.opened[j2]? = some (tr.muts, c2) := by
        rcases getElem?_snoc_cases _ _ _ _ ho2 with ⟨_, h'⟩ | ⟨hx, _⟩
        · exact h'
        · rw [hg.hlen] at hj2; omega
      exact hg.hd hco j1 j2 h1 h2 c1 c2 hh1' hh2' ho1' ho2' htid
    · have := tidlt j1 h1 c1 hj1 hh1' ho1
      subst e2
      simp only [] at htid
      omega
    · have := tidlt j2 h2 c2 hj2 hh2' ho2
      subst e1
      simp only [] at htid
      omega
    · rw [hj1, hj2]

theorem good_create_uncached {st : RSetState} {tr : Track} (hg : Good st tr) (hco : st.cacheOn = false) :
    Good { st with handles := st.handles ++ [{}] } { tr with opened := tr.opened ++ [(tr.muts, 0)] } := by
  refine ⟨hg.m_eq, hg.msorted, hg.gens, ?_, hg.src, ?_, fun h => by simp [hco] at h, fun _ => hg.ulen hco,
    fun h => by simp [hco] at h, fun h => by simp [hco] at h, ?_, ?_,
    fun h => by simp [hco] at h, fun h => by simp [hco] at h, fun h => by simp [hco] at h⟩
  · show (st.handles ++ [_]).length = (tr.opened ++ [_]).length
    simp [hg.hlen]
  · intro j m0 c ho
    rcases getElem?_snoc_cases _ _ _ _ ho with ⟨_, h'⟩ | ⟨_, e⟩
    · exact hg.older j m0 c h'
    · cases e; exact Nat.le_refl _
  · intro _ j h c hh ho
    rcases getElem?_snoc_cases _ _ _ _ hh with ⟨hj, hh'⟩ | ⟨hj, e⟩
    · have ho' : tr.opened[j]? = some (tr.muts, c) := by
        rcases getElem?_snoc_cases _ _ _ _ ho with ⟨_, h'⟩ | ⟨hj2, _⟩
        · exact h'
        · rw [hg.hlen] at hj; omega
      exact hg.hu hco j h c hh' ho'
    · have hc0 : c = 0 := by
        rcases getElem?_snoc_cases _ _ _ _ ho with ⟨hj2, _⟩ | ⟨_, e'⟩
        · rw [← hg.hlen] at hj2; omega
        · cases e'; rfl
      subst e
      exact ⟨fun h => (by cases h), fun _ => Or.inl ⟨rfl, rfl, hc0⟩⟩
  · intro _ j h hh hb
    rcases getElem?_snoc_cases _ _ _ _ hh with ⟨_, hh'⟩ | ⟨_, e⟩
    · exact hg.hgen hco j h hh' hb
    · subst e; cases hb

/-- one op that does not advance a stale iterator: the observation is the specified one -/
theorem good_step {st : RSetState} {tr : Track} (hg : Good st tr) (op : Op) (hs : opSorted op)
    (hf : opFresh tr op) (hfit : opFits tr op) :
    (applyOp st op).2 = (specStep tr op).2 ∧ Good (applyOp st op).1 (specStep tr op).1 := by
  have msnoc : ∀ l, l.Pairwise (· ≤ ·) → ∀ (a b : List (List Int)), (∀ s ∈ a ++ b, s.Pairwise (· ≤ ·)) →
      (∀ s ∈ (a ++ [l]) ++ b, s.Pairwise (· ≤ ·)) ∧ (∀ s ∈ a ++ (b ++ [l]), s.Pairwise (· ≤ ·)) := by
    intro l hl a b hab
    constructor <;> intro s hs
    · simp only [List.mem_append, List.mem_singleton] at hs
      rcases hs with (h | rfl) | h
      · exact hab s (by simp [h])
      · exact hl
      · exact hab s (by simp [h])
    · simp only [List.mem_append, List.mem_singleton] at hs
      rcases hs with h | h | rfl
      · exact hab s (by simp [h])
      · exact hab s (by simp [h])
      · exact hl
  cases op with
  | addRRule l =>
    refine ⟨rfl, ?_⟩
    rw [show (applyOp st (.addRRule l)).1 = invalidate st { st.m with rrules := st.m.rrules ++ [l] } from rfl, hg.m_eq]
    exact good_mutate hg _ (msnoc l hs _ _ hg.msorted).1
  | addExRule l =>
    refine ⟨rfl, ?_⟩
    rw [show (applyOp st (.addExRule l)).1 = invalidate st { st.m with exrules := st.m.exrules ++ [l] } from rfl, hg.m_eq]
    exact good_mutate hg _ (msnoc l hs _ _ hg.msorted).2
  | addRDate d =>
    refine ⟨rfl, ?_⟩
    rw [show (applyOp st (.addRDate d)).1 = invalidate st { st.m with rdates := st.m.rdates ++ [d] } from rfl, hg.m_eq]
    exact good_mutate hg _ hg.msorted
  | addExDate d =>
    refine ⟨rfl, ?_⟩
    rw [show (applyOp st (.addExDate d)).1 = invalidate st { st.m with exdates := st.m.exdates ++ [d] } from rfl, hg.m_eq]
    exact good_mutate hg _ hg.msorted
  | q q => exact good_query hg q hfit
  | open_ k =>
    cases hco : st.cacheOn with
    | true =>
      have hg1 := good_create_cached hg hco
      have hlenj : st.handles.length = tr.opened.length := hg.hlen
      obtain ⟨r1, r2⟩ := resumeCached_cur hg1 hco st.handles.length
        { gen := st.old.length, tid := st.cur.its.length } 0 k (getElem?_append_new _ _)
        (by rw [hlenj]; exact getElem?_append_new _ _)
      simp only [applyOp, hco, ↓reduceIte, specStep]
      simp only [List.drop_zero, Nat.zero_add] at r1 r2
      rw [hco] at r1 r2
      refine ⟨r1, ?_⟩
      have e : (tr.opened ++ [(tr.muts, 0)]).set st.handles.length (tr.muts, ((specL tr.m).take k).length) =
          tr.opened ++ [(tr.muts, ((specL tr.m).take k).length)] := by
        rw [hlenj]; exact set_append_last _ _ _
      rw [e] at r2
      exact r2
    | false =>
      have hg1 := good_create_uncached hg hco
      have hlenj : st.handles.length = tr.opened.length := hg.hlen
      obtain ⟨r1, r2⟩ := resumeUncached_cur hg1 hco st.handles.length {} 0 k (getElem?_append_new _ _)
        (by rw [hlenj]; exact getElem?_append_new _ _)
      simp only [applyOp, hco, Bool.false_eq_true, ↓reduceIte, specStep]
      simp only [List.drop_zero, Nat.zero_add] at r1 r2
      rw [hco] at r1 r2
      refine ⟨r1, ?_⟩
      have e : (tr.opened ++ [(tr.muts, 0)]).set st.handles.length (tr.muts, ((specL tr.m).take k).length) =
          tr.opened ++ [(tr.muts, ((specL tr.m).take k).length)] := by
        rw [hlenj]; exact set_append_last _ _ _
      rw [e] at r2
      exact r2
  | resume j k =>
    simp only [applyOp, specStep]
    cases hh : st.handles[j]? with
    | none =>
      have : tr.opened[j]? = none := by
        apply List.getElem?_eq_none
        rw [← hg.hlen]
        by_cases hc : j < st.handles.length
        · rw [List.getElem?_eq_getElem hc] at hh; cases hh
        · exact Nat.le_of_not_lt hc
      rw [this]
      exact ⟨rfl, hg⟩
    | some h =>
      have hj : j < tr.opened.length := by rw [← hg.hlen]; exact lt_of_getElem? hh
      have ho : tr.opened[j]? = some tr.opened[j] := List.getElem?_eq_getElem hj
      rcases hmc : tr.opened[j] with ⟨m0, c⟩
      rw [hmc] at ho
      have hm0 : m0 = tr.muts := hf m0 c ho
      subst hm0
      rw [ho]
      simp only []
      cases hco : st.cacheOn with
      | true => simp only [↓reduceIte]; exact resumeCached_cur hg hco j h c k hh ho
      | false => simp only [Bool.false_eq_true, ↓reduceIte]; exact resumeUncached_cur hg hco j h c k hh ho

/-! ### iterators of earlier generations (since the repair of D-C10-stale they cannot touch the object) -/

/-- the bookkeeping entry of an iterator created before the latest mutator constrains nothing -/
theorem good_retrack {st : RSetState} {tr : Track} (hg : Good st tr) (j m0 c c' : Nat) (ho : tr.opened[j]? = some (m0, c))
    (hne : m0 ≠ tr.muts) : Good st { tr with opened := tr.opened.set j (m0, c') } := by
  have hj := lt_of_getElem? ho
  have look : ∀ (j' c2 : Nat), (tr.opened.set j (m0, c'))[j']? = some (tr.muts, c2) → tr.opened[j']? = some (tr.muts, c2) := by
    intro j' c2 h
    by_cases e : j = j'
    · subst e; rw [List.getElem?_set_self hj] at h; cases h; exact absurd rfl hne
    · rw [getElem?_set_other _ _ _ _ e] at h; exact h
  refine ⟨hg.m_eq, hg.msorted, hg.gens, ?_, hg.src, ?_, hg.cinv, hg.ulen, ?_, ?_, ?_, hg.hgen, hg.hgle, hg.hcg, hg.hdg⟩
  · show st.handles.length = (tr.opened.set j _).length
    rw [List.length_set]; exact hg.hlen
  · intro j' m1 c1 h
    simp only [] at h
    by_cases e : j = j'
    · subst e; rw [List.getElem?_set_self hj] at h; cases h; exact hg.older j m0 c ho
    · rw [getElem?_set_other _ _ _ _ e] at h; exact hg.older j' m1 c1 h
  · intro hco j' h c2 hh ho2; exact hg.hc hco j' h c2 hh (look j' c2 ho2)
  · intro hco j1 j2 h1 h2 c1 c2 hh1 hh2 ho1 ho2 ht
    exact hg.hd hco j1 j2 h1 h2 c1 c2 hh1 hh2 (look _ _ ho1) (look _ _ ho2) ht
  · intro hco j' h c2 hh ho2; exact hg.hu hco j' h c2 hh (look j' c2 ho2)

/-- an invalidated generation's machine may change freely: nothing of the object depends on it -/
theorem good_set_old {st : RSetState} {tr : Track} (hg : Good st tr) (pos : Nat) (o' : Cache.State) :
    Good { st with old := st.old.set pos o' } tr := by
  have hl : (st.old.set pos o').length = st.old.length := List.length_set
  refine ⟨hg.m_eq, hg.msorted, hl.trans hg.gens, hg.hlen, hg.src, hg.older, hg.cinv, hg.ulen, hg.hc, hg.hd, hg.hu, ?_, ?_, ?_, ?_⟩
  · intro hco j h hh hb; show h.gen ≤ (st.old.set pos o').length ∧ (h.gen = (st.old.set pos o').length → _)
    rw [hl]; exact hg.hgen hco j h hh hb
  · intro hco j h hh; show h.gen ≤ (st.old.set pos o').length; rw [hl]; exact hg.hgle hco j h hh
  · intro hco j h hh e; exact hg.hcg hco j h hh (by rw [← hl]; exact e)
  · intro hco j j' h h' hh hh' e e'; exact hg.hdg hco j j' h h' hh hh' (by rw [← hl]; exact e) (by rw [← hl]; exact e')

theorem ite_len_len' (b : Bool) (sh : Shared) (n L : Nat) (h : sh.len = none ∨ sh.len = some L) (hb : b = true → n = L) :
    (if b = true then { sh with len := some n } else sh).len = none ∨ (if b = true then { sh with len := some n } else sh).len = some L := by
  cases b
  · exact h
  · right; show some n = some L; rw [hb rfl]

/-- an `_iter()` generator of an uncached set created before the latest mutator: whatever it does, the object stays good
    (it publishes `_len` only when it was BOUND in the current generation, and then the right one) -/
theorem good_stale_uncached {st : RSetState} {tr : Track} (hg : Good st tr) (hco : st.cacheOn = false)
    (j : Nat) (h : Handle) (k m0 c : Nat) (hh : st.handles[j]? = some h) (ho : tr.opened[j]? = some (m0, c)) (hne : m0 ≠ tr.muts) :
    Good (resumeUncached st j h k).1 tr := by
  unfold resumeUncached
  by_cases hstop : (k = 0 || h.udone) = true
  · rw [if_pos hstop]; exact hg
  · rw [if_neg hstop]
    have hjlt := lt_of_getElem? hh
    have hbound : ∀ u, h.usrc = some u → h.gen ≤ st.old.length ∧ (h.gen = st.old.length → u = specL tr.m) := by
      intro u hu
      have := hg.hgen hco j h hh (by rw [hu]; rfl)
      refine ⟨this.1, fun e => ?_⟩
      have := this.2 e
      rw [hu] at this; cases this; rfl
    refine ⟨hg.m_eq, hg.msorted, hg.gens, ?_, ?_, hg.older, fun h => by simp [hco] at h, ?_,
      fun h => by simp [hco] at h, fun h => by simp [hco] at h, ?_, ?_,
      fun h => by simp [hco] at h, fun h => by simp [hco] at h, fun h => by simp [hco] at h⟩
    · show (st.handles.set j _).length = tr.opened.length
      rw [List.length_set]; exact hg.hlen
    · exact (ite_len_src _ _ _).trans hg.src
    · intro _
      apply ite_len_len' _ _ _ _ (hg.ulen hco)
      intro hb
      simp only [Bool.and_eq_true, beq_iff_eq] at hb
      cases hus : h.usrc with
      | none => simp only [Option.getD_none]; rw [hg.src]
      | some u =>
        have hb2 := hb.2
        rw [hus] at hb2
        simp only [Option.isSome_some, ↓reduceIte] at hb2
        simp only [Option.getD_some]
        rw [(hbound u hus).2 hb2]
    · intro _ j' h2 c2 hh2 ho2
      simp only [] at hh2
      have e : j ≠ j' := by
        intro e; subst e
        rw [ho] at ho2; cases ho2; exact hne rfl
      rw [getElem?_set_other _ _ _ _ e] at hh2
      exact hg.hu hco j' h2 c2 hh2 ho2
    · intro _ j' h2 hh2 hb2
      simp only [] at hh2
      by_cases e : j = j'
      · subst e
        rw [List.getElem?_set_self hjlt] at hh2
        cases hh2
        simp only []
        cases hus : h.usrc with
        | none => simp only [Option.isSome_none, Bool.false_eq_true, ↓reduceIte, Option.getD_none]
                  exact ⟨Nat.le_refl _, fun _ => by rw [hg.src]⟩
        | some u =>
          simp only [Option.isSome_some, ↓reduceIte, Option.getD_some]
          exact ⟨(hbound u hus).1, fun e => by rw [(hbound u hus).2 e]⟩
      · rw [getElem?_set_other _ _ _ _ e] at hh2
        exact hg.hgen hco j' h2 hh2 hb2

/-- a plain iterator of the CURRENT generation that the bookkeeping does not follow (created before a mutator, first
    advanced after it) is advanced on a machine `s0` that is the current one, possibly with that iterator just added:
    the object stays good -/
theorem good_run_extra {st : RSetState} {tr : Track} (hg : Good st tr) (hco : st.cacheOn = true) (j k : Nat)
    (hstale : ∀ c, tr.opened[j]? ≠ some (tr.muts, c)) (hjlt : j < st.handles.length)
    (s0 : Cache.State) (t : Tid) (it : Iter) (hi0 : Inv s0) (hp0 : ParkedAll s0) (he0 : s0.sh.endErr = none)
    (hsrc0 : s0.sh.src = st.cur.sh.src)
    (hold0 : ∀ t', t' < st.cur.its.length → t' ≠ t → s0.its[t']? = st.cur.its[t']?)
    (hit : s0.its[t]? = some it) (hq : it.q = .iterAll) (h' : Handle) (hgen' : h'.gen = st.old.length) (htid' : h'.tid = t)
    (hdist : ∀ (j' : Nat) (h2 : Handle), j' ≠ j → st.handles[j']? = some h2 → h2.gen = st.old.length → h2.tid ≠ t) :
    Good { st with cur := (takeVals s0 t k []).1, handles := st.handles.set j h' } tr := by
  have hsolo : Solo s0 t := ⟨hi0, fun t' it' _ h2 => hp0 t' it' h2⟩
  obtain ⟨hs', hsrc, hlen, hoth, it', hit', hq', hpk', _, _⟩ := takeVals_spec t k s0 it [] hsolo hit hq (hp0 _ it hit)
  have keep : ∀ (h2 : Handle) (it2 : Iter), h2.tid ≠ t → st.cur.its[h2.tid]? = some it2 →
      (takeVals s0 t k []).1.its[h2.tid]? = some it2 := by
    intro h2 it2 hne e2
    rw [hoth h2.tid hne, hold0 h2.tid (lt_of_getElem? e2) hne]; exact e2
  have other : ∀ (j' : Nat) (h2 : Handle), (st.handles.set j h')[j']? = some h2 → j' ≠ j → st.handles[j']? = some h2 := by
    intro j' h2 hh2 e
    rw [getElem?_set_other _ _ _ _ (Ne.symm e)] at hh2; exact hh2
  have notj : ∀ (j' c2 : Nat), tr.opened[j']? = some (tr.muts, c2) → j' ≠ j := by
    intro j' c2 ho2 e; subst e; exact hstale c2 ho2
  refine ⟨hg.m_eq, hg.msorted, hg.gens, ?_, (hsrc.trans hsrc0).trans hg.src, hg.older, ?_, fun h => by simp [hco] at h, ?_, ?_,
    fun h => by simp [hco] at h, fun h => by simp [hco] at h, ?_, ?_, ?_⟩
  · show (st.handles.set j h').length = tr.opened.length
    rw [List.length_set]; exact hg.hlen
  · intro _
    refine ⟨hs'.inv, fun t' it2 h2 => ?_, (takeVals_endErr t k s0 [] hi0).trans he0⟩
    by_cases e : t' = t
    · subst e
      rw [show (takeVals s0 t' k []).1.its[t']? = some it' from hit'] at h2
      cases h2; exact hpk'
    · exact hs'.parked t' it2 e h2
  · intro _ j' h2 c2 hh2 ho2
    have e := notj j' c2 ho2
    have hh2' := other j' h2 hh2 e
    obtain ⟨e1, it2, e2, e3, e4⟩ := hg.hc hco j' h2 c2 hh2' ho2
    exact ⟨e1, it2, keep h2 it2 (hdist j' h2 e hh2' (by rw [e1, hg.gens])) e2, e3, e4⟩
  · intro _ j1 j2 h1 h2 c1 c2 hh1 hh2 ho1 ho2 ht
    exact hg.hd hco j1 j2 h1 h2 c1 c2 (other j1 h1 hh1 (notj j1 c1 ho1)) (other j2 h2 hh2 (notj j2 c2 ho2)) ho1 ho2 ht
  · intro _ j' h2 hh2
    by_cases e : j' = j
    · subst e
      rw [List.getElem?_set_self hjlt] at hh2
      cases hh2; rw [hgen']; exact Nat.le_refl _
    · exact hg.hgle hco j' h2 (other j' h2 hh2 e)
  · intro _ j' h2 hh2 g2
    by_cases e : j' = j
    · subst e
      rw [List.getElem?_set_self hjlt] at hh2
      cases hh2
      exact ⟨it', by rw [htid']; exact hit', hq'⟩
    · have hh2' := other j' h2 hh2 e
      obtain ⟨it2, e2, e3⟩ := hg.hcg hco j' h2 hh2' g2
      exact ⟨it2, keep h2 it2 (hdist j' h2 e hh2' g2) e2, e3⟩
  · intro _ j1 j2 h1 h2 hh1 hh2 g1 g2 ht
    by_cases e1 : j1 = j <;> by_cases e2 : j2 = j
    · rw [e1, e2]
    · subst e1
      rw [List.getElem?_set_self hjlt] at hh1
      cases hh1
      exact absurd (ht.symm.trans htid') (hdist j2 h2 e2 (other j2 h2 hh2 e2) g2)
    · subst e2
      rw [List.getElem?_set_self hjlt] at hh2
      cases hh2
      exact absurd (ht.trans htid') (hdist j1 h1 e1 (other j1 h1 hh1 e1) g1)
    · exact hg.hdg hco j1 j2 h1 h2 (other j1 h1 hh1 e1) (other j2 h2 hh2 e2) g1 g2 ht

/-- an iterator of a cached set created before the latest mutator: whatever it does, the object stays good -/
theorem good_stale_cached {st : RSetState} {tr : Track} (hg : Good st tr) (hco : st.cacheOn = true)
    (j : Nat) (h : Handle) (k m0 c : Nat) (hh : st.handles[j]? = some h) (ho : tr.opened[j]? = some (m0, c)) (hne : m0 ≠ tr.muts) :
    Good (resumeCached st j h k).1 tr := by
  obtain ⟨hi, hp⟩ := hg.cinv hco
  have hjlt := lt_of_getElem? hh
  have hstale : ∀ c2, tr.opened[j]? ≠ some (tr.muts, c2) := by
    intro c2 e; rw [ho] at e; cases e; exact hne rfl
  unfold resumeCached
  simp only []
  by_cases hcur : h.gen = st.old.length
  · -- it belongs to the current generation already
    rw [if_pos hcur]
    obtain ⟨it, hit, hq⟩ := hg.hcg hco j h hh hcur
    have := good_run_extra hg hco j k hstale hjlt st.cur h.tid it hi hp.1 hp.2 rfl (fun _ _ _ => rfl) hit hq h hcur rfl
      (fun j' h2 e hh2 g2 e2 => e (hg.hdg hco j' j h2 h hh2 hh g2 hcur e2))
    rw [set_same _ _ _ hh] at this
    exact this
  · rw [if_neg hcur]
    split
    · exact hg
    · rename_i o ho'
      split
      · exact hg
      · rename_i it hit
        split
        · -- the generator body had not started: a fresh iterator of the current generation
          let it0 : Iter := { q := .iterAll, pc := .l125 }
          have hi0 : Inv { st.cur with its := st.cur.its ++ [it0] } :=
            inv_add_iter hi it0 ⟨rfl, rfl, rfl, rfl⟩ rfl
          have hp0 : ParkedAll { st.cur with its := st.cur.its ++ [it0] } := by
            intro t' it' h2
            rcases getElem?_snoc_cases _ _ _ _ h2 with ⟨_, h2'⟩ | ⟨_, e⟩
            · exact hp.1 t' it' h2'
            · subst e; rfl
          exact good_run_extra hg hco j k hstale hjlt { st.cur with its := st.cur.its ++ [it0] } st.cur.its.length it0 hi0 hp0 hp.2 rfl
            (fun t' hlt _ => by show (st.cur.its ++ [it0])[t']? = _; rw [List.getElem?_append_left hlt])
            (getElem?_append_new _ _) rfl _ rfl rfl
            (fun j' h2 _ hh2 g2 e2 => by
              obtain ⟨it2, e3, _⟩ := hg.hcg hco j' h2 hh2 g2
              have := lt_of_getElem? e3
              omega)
        · exact good_set_old hg _ _

/-- the observation of this op is not specified: it advances an iterator created before an earlier mutator -/
def staleAt (tr : Track) : Op → Bool
  | .resume j _ => match tr.opened[j]? with | some (m0, _) => m0 != tr.muts | none => false
  | _ => false

/-- one op, ANY op: the object stays good; the observation is the specified one unless the op advances a stale iterator -/
theorem good_step_any {st : RSetState} {tr : Track} (hg : Good st tr) (op : Op) (hs : opSorted op) (hfit : opFits tr op) :
    (staleAt tr op = false → (applyOp st op).2 = (specStep tr op).2) ∧ Good (applyOp st op).1 (specStep tr op).1 := by
  by_cases hst : staleAt tr op = false
  · have hf : opFresh tr op := by
      cases op with
      | resume j k =>
        intro m0 c ho
        simp only [staleAt, ho, bne_eq_false_iff_eq] at hst
        exact hst
      | _ => trivial
    exact ⟨fun _ => (good_step hg op hs hf hfit).1, (good_step hg op hs hf hfit).2⟩
  · refine ⟨fun h => absurd h hst, ?_⟩
    cases op with
    | resume j k =>
      simp only [staleAt] at hst
      cases ho : tr.opened[j]? with
      | none => rw [ho] at hst; exact absurd rfl hst
      | some mc =>
        obtain ⟨m0, c⟩ := mc
        rw [ho] at hst
        have hne : m0 ≠ tr.muts := by
          intro e; apply hst; simp [e]
        have hj : j < st.handles.length := by rw [hg.hlen]; exact lt_of_getElem? ho
        have hh : st.handles[j]? = some st.handles[j] := List.getElem?_eq_getElem hj
        simp only [applyOp, specStep, hh, ho]
        have hg' := good_retrack hg j m0 c (c + (((specL tr.m).drop c).take k).length) ho hne
        have ho' : ({ tr with opened := tr.opened.set j (m0, c + (((specL tr.m).drop c).take k).length) } : Track).opened[j]? =
            some (m0, c + (((specL tr.m).drop c).take k).length) := List.getElem?_set_self (lt_of_getElem? ho)
        cases hco : st.cacheOn with
        | true =>
          simp only [↓reduceIte]
          exact good_stale_cached hg' hco j _ k m0 _ hh ho' hne
        | false =>
          simp only [Bool.false_eq_true, ↓reduceIte]
          exact good_stale_uncached hg' hco j _ k m0 _ hh ho' hne
    | _ => simp [staleAt] at hst

/-- two observation lists agree wherever the op does not advance a stale iterator -/
def Agree : Track → List Op → List (Option Res) → List (Option Res) → Prop
  | _, [], [], [] => True
  | tr, op :: ops, a :: as, b :: bs => (staleAt tr op = false → a = b) ∧ Agree (specStep tr op).1 ops as bs
  | _, _, _, _ => False

/-- **history_inv without `NoStale`** for an arbitrary starting point of the invariant -/
theorem history_good_any : ∀ (ops : List Op) (st : RSetState) (tr : Track), Good st tr →
    (∀ op ∈ ops, opSorted op) → AllFit tr ops → Agree tr ops (runOps st ops) (specOps tr ops) := by
  intro ops
  induction ops with
  | nil => intro st tr _ _ _; trivial
  | cons op ops ih =>
    intro st tr hg hs hfit
    obtain ⟨r1, r2⟩ := good_step_any hg op (hs op (by simp)) hfit.1
    show Agree tr (op :: ops) ((applyOp st op).2 :: runOps (applyOp st op).1 ops) ((specStep tr op).2 :: specOps (specStep tr op).1 ops)
    exact ⟨r1, ih _ _ r2 (fun o ho => hs o (by simp [ho])) hfit.2⟩

/-- **history_inv** for an arbitrary starting point of the invariant -/
theorem history_good : ∀ (ops : List Op) (st : RSetState) (tr : Track), Good st tr →
    (∀ op ∈ ops, opSorted op) → NoStale tr ops → AllFit tr ops → runOps st ops = specOps tr ops := by
  intro ops
  induction ops with
  | nil => intro st tr _ _ _ _; rfl
  | cons op ops ih =>
    intro st tr hg hs hn hfit
    obtain ⟨r1, r2⟩ := good_step hg op (hs op (by simp)) hn.1 hfit.1
    show (applyOp st op).2 :: runOps (applyOp st op).1 ops = (specStep tr op).2 :: specOps (specStep tr op).1 ops
    rw [r1, ih _ _ r2 (fun o ho => hs o (by simp [ho])) hn.2 hfit.2]

end RSet
