/- Proofs/IsoGenLoop.lean — the translated `while` loop of `_parse_isotime` simulates the model's component loop
   (fuel 8 suffices), hence `Gen.parseIsotime` = model; then `Gen.isoparse` = model. -/
import DateutilVerif.Proofs.IsoGenEq
set_option linter.unusedSimpArgs false
namespace IsoGen
open Iso Py

/-- the `components` list of `_parse_isotime` for the model's record -/
def compsOf (c : TComps) : List BytesPy.Comp :=
  [.int c.h, .int c.m, .int c.s, .int c.us, match c.tz with | none => .none | some o => .tz o]

/-- model result ↦ what the translated loop reports (components, cursor position) -/
def loopOut (s : Bytes) (p : TComps × Bytes) : List BytesPy.Comp × Int :=
  (compsOf p.1, (s.length : Int) - (p.2.length : Int))

def proj (r : Int × List BytesPy.Comp × Int × Bool) : List BytesPy.Comp × Int := (r.2.1, r.2.2.1)

theorem map_ebind {α β γ} (f : β → γ) (r : Py.R α) (g : α → Py.R β) :
    Except.map f (Except.bind r g) = Except.bind r fun v => Except.map f (g v) := by
  cases r <;> rfl

theorem drop_cons_of_lt (s : Bytes) (p : Nat) (h : p < s.length) :
    ∃ b r, s.drop p = b :: r ∧ r = s.drop (p + 1) := by
  cases hd : s.drop p with
  | nil => have := List.drop_eq_nil_iff.mp hd; omega
  | cons b r =>
    refine ⟨b, r, rfl, ?_⟩
    have : s.drop (p + 1) = (s.drop p).drop 1 := by rw [List.drop_drop]
    rw [this, hd]; rfl

theorem slice1 (s : Bytes) (p : Nat) : BytesPy.slice s (p : Int) ((p : Int) + 1) = (s.drop p).take 1 := by
  simpa using slice_nat s p 1
theorem slice2 (s : Bytes) (p : Nat) : BytesPy.slice s (p : Int) ((p : Int) + 2) = (s.drop p).take 2 := by
  simpa using slice_nat s p 2

theorem isIn_tz (b : Nat) (r : Bytes) : BytesPy.isIn [b] [45, 43, 90, 122] = isTzStart (b :: r) := by
  simp only [BytesPy.isIn, isTzStart, cDash, cPlus, cZ, cz]
  by_cases h1 : b = 45
  · subst h1; decide
  by_cases h2 : b = 43
  · subst h2; decide
  by_cases h3 : b = 90
  · subst h3; decide
  by_cases h4 : b = 122
  · subst h4; decide
  have e1 : (45 == b) = false := by simp; omega
  have e2 : (43 == b) = false := by simp; omega
  have e3 : (90 == b) = false := by simp; omega
  have e4 : (122 == b) = false := by simp; omega
  simp [List.range_succ, h1, h2, h3, h4, e1, e2, e3, e4]

theorem lset_tz (c : TComps) (o : Off) :
    BytesPy.lset (compsOf c) (-1) (BytesPy.Comp.tz o) = compsOf { c with tz := some o } := by
  simp [BytesPy.lset, compsOf]

theorem lset_comp (c : TComps) (k : Nat) (hk : k ≤ 3) (v : Int) :
    BytesPy.lset (compsOf c) (k : Int) (BytesPy.Comp.int v) = compsOf (setComp c k v) := by
  have : k = 0 ∨ k = 1 ∨ k = 2 ∨ k = 3 := by omega
  rcases this with rfl | rfl | rfl | rfl <;> simp [BytesPy.lset, compsOf, setComp]


/-- the translated loop started at component `k`, cursor `p` (projected to components and cursor) -/
def G (s : Bytes) (fuel k p : Nat) (hs : Bool) (c : TComps) : Py.R (List BytesPy.Comp × Int) :=
  Except.map proj (Gen.parseIsotime_loop fuel (s.length : Int) s ((k : Int) - 1) (compsOf c) (p : Int) hs)

/-- the model's loop on the remaining suffix, reported the same way -/
def M (s : Bytes) (ks : List Nat) (p : Nat) (hs : Bool) (c : TComps) : Py.R (List BytesPy.Comp × Int) :=
  (Iso.timeLoop ks (s.drop p) hs c).map (loopOut s)

theorem sim_base (s : Bytes) (fuel p : Nat) (hs : Bool) (c : TComps) (hp : p ≤ s.length) :
    G s (fuel + 1) 6 p hs c = M s [] p hs c := by
  unfold G M
  simp only [Gen.parseIsotime_loop, timeLoop]
  simp [Except.map, proj, loopOut]
  omega

theorem sim_end (s : Bytes) (fuel k p : Nat) (hs : Bool) (c : TComps) (ks : List Nat) (hp : p = s.length) :
    G s (fuel + 1) k p hs c = M s (k :: ks) p hs c := by
  unfold G M
  simp only [Gen.parseIsotime_loop, timeLoop]
  have : ¬ ((p : Int) < (s.length : Int)) := by omega
  simp [Except.map, proj, loopOut, this, hp]

theorem sim_tz (s : Bytes) (fuel k p : Nat) (hs : Bool) (c : TComps) (ks : List Nat) (hk : k ≤ 5)
    (b : Nat) (r : Bytes) (hd : s.drop p = b :: r) (htz : isTzStart (b :: r) = true) :
    G s (fuel + 1) k p hs c = M s (k :: ks) p hs c := by
  have hlt : p < s.length := by
    by_cases h : p < s.length
    · exact h
    · rw [List.drop_eq_nil_of_le (by omega)] at hd; cases hd
  unfold G M
  simp only [Gen.parseIsotime_loop, timeLoop]
  have c1 : ((p : Int) < (s.length : Int) ∧ (k : Int) - 1 < 5) := by omega
  simp only [c1, if_true, Int.sub_add_cancel, slice1, sliceFrom_nat, hd, List.take_succ_cons, List.take_zero,
    isIn_tz b r, htz, parseTzstr_eq]
  by_cases k0 : k = 0
  · subst k0; simp [Except.map]
  · have : ¬ ((k : Int) = 0) := by omega
    simp only [this, if_false, reduceCtorEq]
    cases parseTzstr (b :: r) true with
    | error e => simp [Except.bind, Except.map, k0]
    | ok tz => simp [Except.bind, Except.map, proj, loopOut, lset_tz, k0]


theorem G_succ (s : Bytes) (fuel k p : Nat) (hs : Bool) (c : TComps) :
    Except.map proj (Gen.parseIsotime_loop fuel (s.length : Int) s (k : Int) (compsOf c) (p : Int) hs)
      = G s fuel (k + 1) p hs c := by
  unfold G
  rw [show ((k + 1 : Nat) : Int) - 1 = (k : Int) by omega]

theorem sim_hi (s : Bytes) (fuel k p : Nat) (hs : Bool) (c : TComps) (ks : List Nat) (hk4 : 4 ≤ k) (hk : k ≤ 5)
    (IH : ∀ p hs c, p ≤ s.length → G s fuel (k + 1) p hs c = M s ks p hs c)
    (b : Nat) (r : Bytes) (hd : s.drop p = b :: r) (htz : isTzStart (b :: r) = false) :
    G s (fuel + 1) k p hs c = M s (k :: ks) p hs c := by
  have hlt : p < s.length := by
    by_cases h : p < s.length
    · exact h
    · rw [List.drop_eq_nil_of_le (by omega)] at hd; cases hd
  have ih := IH p hs c (by omega)
  rw [← G_succ] at ih
  unfold M at ih; rw [hd] at ih
  unfold G M
  simp only [Gen.parseIsotime_loop, timeLoop]
  have c1 : ((p : Int) < (s.length : Int) ∧ (k : Int) - 1 < 5) := by omega
  have n1 : ¬ ((k : Int) = 1) := by omega
  have n2 : ¬ ((k : Int) = 2) := by omega
  have n3 : ¬ ((k : Int) < 3) := by omega
  have n4 : ¬ ((k : Int) = 3) := by omega
  have m1 : ¬ (k = 1) := by omega
  have m2 : ¬ (k = 2) := by omega
  have m3 : ¬ (k < 3) := by omega
  have m4 : ¬ (k = 3) := by omega
  simp only [c1, if_true, Int.sub_add_cancel, slice1, hd, List.take_succ_cons, List.take_zero,
    isIn_tz b r, htz, n1, n2, n3, n4, m1, m2, m3, m4, false_and, if_false, Except.bind, sepStep, reduceCtorEq,
    Bool.false_eq_true, and_self]
  exact ih


/-- after the separator bookkeeping: read a two-digit component at cursor `p1` -/
theorem sim_digits_at (s : Bytes) (fuel k p1 : Nat) (hs1 : Bool) (c : TComps) (ks : List Nat) (hk : k ≤ 2)
    (IH : ∀ p hs c, p ≤ s.length → G s fuel (k + 1) p hs c = M s ks p hs c) :
    Except.map proj
      (Except.bind (Except.bind (Gen.parseDigits (BytesPy.slice s (p1 : Int) ((p1 : Int) + 2)) 2) fun t2 =>
          Except.ok (BytesPy.lset (compsOf c) (k : Int) (BytesPy.Comp.int t2), (p1 : Int) + 2))
        fun x => Gen.parseIsotime_loop fuel (s.length : Int) s (k : Int) x.1 x.2 hs1)
    = match parseDigits ((s.drop p1).take 2) 2 with
      | .error e => .error e
      | .ok v => Except.map (loopOut s) (timeLoop ks ((s.drop p1).drop 2) hs1 (setComp c k v)) := by
  rw [slice2, parseDigits_eq2]
  cases hpd : parseDigits ((s.drop p1).take 2) 2 with
  | error e => rfl
  | ok v =>
    have hlen : p1 + 2 ≤ s.length := by
      have := ((parseDigits_ok_iff _ _ _ (by decide)).mp hpd).1
      simp at this; omega
    have ih := IH (p1 + 2) hs1 (setComp c k v) hlen
    rw [← G_succ] at ih
    unfold M at ih
    simp only [Except.bind, lset_comp c k (by omega) v]
    rw [show ((p1 : Int) + 2) = ((p1 + 2 : Nat) : Int) by omega, ih, List.drop_drop]


theorem sim_k0 (s : Bytes) (fuel p : Nat) (hs : Bool) (c : TComps) (ks : List Nat)
    (IH : ∀ p hs c, p ≤ s.length → G s fuel (0 + 1) p hs c = M s ks p hs c)
    (b : Nat) (r : Bytes) (hd : s.drop p = b :: r) (htz : isTzStart (b :: r) = false) :
    G s (fuel + 1) 0 p hs c = M s (0 :: ks) p hs c := by
  have hlt : p < s.length := by
    by_cases h : p < s.length
    · exact h
    · rw [List.drop_eq_nil_of_le (by omega)] at hd; cases hd
  have key := sim_digits_at s fuel 0 p hs c ks (by omega) IH
  have z : ((0 : Nat) : Int) = 0 := rfl
  rw [hd] at key
  unfold G M
  simp only [Gen.parseIsotime_loop, timeLoop]
  have c1 : ((p : Int) < (s.length : Int)) := by omega
  simp only [z] at key ⊢
  simp only [c1, Int.zero_sub, Int.reduceNeg, Int.reduceLT, and_self, if_true, Int.reduceAdd,
    slice1, hd, isIn_tz b r, htz, Bool.false_eq_true, if_false,
    Int.reduceEq, false_and, sepStep, reduceCtorEq, Nat.lt_irrefl,
    List.take_succ_cons, List.take_zero, Except.bind] at key ⊢
  rw [key]
  simp only [show (0 : Nat) < 3 by decide, if_true]
  cases parseDigits (b :: List.take 1 r) 2 <;> rfl


theorem drop_succ_of (s : Bytes) (p b : Nat) (r : Bytes) (hd : s.drop p = b :: r) : s.drop (p + 1) = r := by
  have : s.drop (p + 1) = (s.drop p).drop 1 := by rw [List.drop_drop]
  rw [this, hd]; rfl

theorem sim_k1 (s : Bytes) (fuel p : Nat) (hs : Bool) (c : TComps) (ks : List Nat)
    (IH : ∀ p hs c, p ≤ s.length → G s fuel (1 + 1) p hs c = M s ks p hs c)
    (b : Nat) (r : Bytes) (hd : s.drop p = b :: r) (htz : isTzStart (b :: r) = false) :
    G s (fuel + 1) 1 p hs c = M s (1 :: ks) p hs c := by
  have hlt : p < s.length := by
    by_cases h : p < s.length
    · exact h
    · rw [List.drop_eq_nil_of_le (by omega)] at hd; cases hd
  have z : ((1 : Nat) : Int) = 1 := rfl
  have c1 : ((p : Int) < (s.length : Int)) := by omega
  by_cases hcol : b = 58
  · subst hcol
    have hr := drop_succ_of s p 58 r hd
    have key := sim_digits_at s fuel 1 (p + 1) true c ks (by omega) IH
    rw [hr, show ((p + 1 : Nat) : Int) = (p : Int) + 1 by omega] at key
    unfold G M
    simp only [Gen.parseIsotime_loop, timeLoop]
    simp only [z] at key ⊢
    simp only [c1, Int.reduceSub, Int.reduceNeg, Int.reduceLT, and_self, if_true, Int.reduceAdd,
      slice1, hd, isIn_tz 58 r, htz, Bool.false_eq_true, if_false, Int.reduceEq, true_and, sepStep, reduceCtorEq,
      List.take_succ_cons, List.take_zero, Except.bind, cColon, List.drop_succ_cons, List.drop_zero] at key ⊢
    rw [key]
    simp only [show (1 : Nat) < 3 by decide, if_true]
    cases parseDigits (List.take 2 r) 2 <;> rfl
  · have key := sim_digits_at s fuel 1 p hs c ks (by omega) IH
    rw [hd] at key
    have hne : ¬ ([b] = [58]) := by simpa using hcol
    unfold G M
    simp only [Gen.parseIsotime_loop, timeLoop]
    simp only [z] at key ⊢
    simp only [c1, Int.reduceSub, Int.reduceNeg, Int.reduceLT, and_self, if_true, Int.reduceAdd,
      slice1, hd, isIn_tz b r, htz, Bool.false_eq_true, if_false, Int.reduceEq, true_and, false_and, and_false,
      sepStep, reduceCtorEq, hne, show ¬ ((1 : Nat) = 2) by decide,
      List.take_succ_cons, List.take_zero, Except.bind, cColon, List.drop_succ_cons, List.drop_zero] at key ⊢
    rw [key]
    simp only [show (1 : Nat) < 3 by decide, if_true]
    cases parseDigits (b :: List.take 1 r) 2 <;> rfl


theorem sim_k2 (s : Bytes) (fuel p : Nat) (hs : Bool) (c : TComps) (ks : List Nat)
    (IH : ∀ p hs c, p ≤ s.length → G s fuel (2 + 1) p hs c = M s ks p hs c)
    (b : Nat) (r : Bytes) (hd : s.drop p = b :: r) (htz : isTzStart (b :: r) = false) :
    G s (fuel + 1) 2 p hs c = M s (2 :: ks) p hs c := by
  have hlt : p < s.length := by
    by_cases h : p < s.length
    · exact h
    · rw [List.drop_eq_nil_of_le (by omega)] at hd; cases hd
  have z : ((2 : Nat) : Int) = 2 := rfl
  have c1 : ((p : Int) < (s.length : Int)) := by omega
  cases hs with
  | true =>
    by_cases hcol : b = 58
    · subst hcol
      have hr := drop_succ_of s p 58 r hd
      have key := sim_digits_at s fuel 2 (p + 1) true c ks (by omega) IH
      rw [hr, show ((p + 1 : Nat) : Int) = (p : Int) + 1 by omega] at key
      unfold G M
      simp only [Gen.parseIsotime_loop, timeLoop]
      simp only [z] at key ⊢
      simp only [c1, Int.reduceSub, Int.reduceNeg, Int.reduceLT, and_self, if_true, Int.reduceAdd,
        slice1, hd, isIn_tz 58 r, htz, Bool.false_eq_true, if_false, Int.reduceEq, true_and, false_and, sepStep,
        reduceCtorEq, show ¬ ((2 : Nat) = 1) by decide, ne_eq, not_true_eq_false,
        List.take_succ_cons, List.take_zero, Except.bind, cColon, List.drop_succ_cons, List.drop_zero] at key ⊢
      rw [key]
      simp only [show (2 : Nat) < 3 by decide, if_true]
      cases parseDigits (List.take 2 r) 2 <;> rfl
    · have hne : ¬ ([b] = [58]) := by simpa using hcol
      unfold G M
      simp only [Gen.parseIsotime_loop, timeLoop]
      simp only [z]
      simp only [c1, Int.reduceSub, Int.reduceNeg, Int.reduceLT, and_self, if_true, Int.reduceAdd,
        slice1, hd, isIn_tz b r, htz, Bool.false_eq_true, if_false, Int.reduceEq, true_and, false_and, sepStep,
        reduceCtorEq, show ¬ ((2 : Nat) = 1) by decide, ne_eq, hne, not_false_eq_true,
        List.take_succ_cons, List.take_zero, Except.bind, cColon]
      rfl
  | false =>
    have key := sim_digits_at s fuel 2 p false c ks (by omega) IH
    rw [hd] at key
    unfold G M
    simp only [Gen.parseIsotime_loop, timeLoop]
    simp only [z] at key ⊢
    simp only [c1, Int.reduceSub, Int.reduceNeg, Int.reduceLT, and_self, if_true, Int.reduceAdd,
      slice1, hd, isIn_tz b r, htz, Bool.false_eq_true, if_false, Int.reduceEq, true_and, false_and, and_false,
      sepStep, reduceCtorEq, show ¬ ((2 : Nat) = 1) by decide,
      List.take_succ_cons, List.take_zero, Except.bind, cColon, List.drop_succ_cons, List.drop_zero] at key ⊢
    rw [key]
    simp only [show (2 : Nat) < 3 by decide, if_true]
    cases parseDigits (b :: List.take 1 r) 2 <;> rfl


theorem fractionMatch_none (x : Bytes) (h : matchFraction x = none) : BytesPy.fractionMatch x = none := by
  cases x with
  | nil => rfl
  | cons b t =>
    simp only [matchFraction, BytesPy.fractionMatch, cDot, cComma] at h ⊢
    by_cases hb : b = 46 ∨ b = 44
    · simp only [hb, if_true] at h ⊢
      have e : List.takeWhile BytesPy.isDig t = List.takeWhile isDigit t := rfl
      rw [e]
      by_cases hd : List.takeWhile isDigit t = []
      · simp [hd]
      · simp [hd] at h
    · simp only [hb, if_false]

theorem fractionMatch_some (x ds rest : Bytes) (h : matchFraction x = some (ds, rest)) :
    ∃ mark, BytesPy.fractionMatch x = some (mark :: ds, ds) ∧ x = mark :: (ds ++ rest) ∧ ds ≠ [] ∧
      ds.all isDigit = true := by
  obtain ⟨mark, hmk, ex, hne, hd⟩ := matchFraction_inv x ds rest h
  refine ⟨mark, ?_, ex, hne, hd⟩
  subst ex
  simp only [matchFraction, cDot, cComma] at h
  simp only [BytesPy.fractionMatch]
  have hb : mark = 46 ∨ mark = 44 := hmk
  have e : List.takeWhile BytesPy.isDig (ds ++ rest) = List.takeWhile isDigit (ds ++ rest) := rfl
  simp only [hb, if_true, e] at h ⊢
  by_cases hd0 : List.takeWhile isDigit (ds ++ rest) = []
  · simp [hd0] at h
  · simp only [hd0, if_false, Option.some.injEq, Prod.mk.injEq] at h ⊢
    rw [h.1]; exact ⟨rfl, rfl⟩

theorem slice_0_6' {α} (l : List α) : BytesPy.slice l 0 6 = l.take 6 := by
  simpa using slice_lit l 0 6 (by omega)

theorem sim_k3 (s : Bytes) (fuel p : Nat) (hs : Bool) (c : TComps) (ks : List Nat)
    (IH : ∀ p hs c, p ≤ s.length → G s fuel (3 + 1) p hs c = M s ks p hs c)
    (b : Nat) (r : Bytes) (hd : s.drop p = b :: r) (htz : isTzStart (b :: r) = false) :
    G s (fuel + 1) 3 p hs c = M s (3 :: ks) p hs c := by
  have hlt : p < s.length := by
    by_cases h : p < s.length
    · exact h
    · rw [List.drop_eq_nil_of_le (by omega)] at hd; cases hd
  have z : ((3 : Nat) : Int) = 3 := rfl
  have c1 : ((p : Int) < (s.length : Int)) := by omega
  unfold G M
  simp only [Gen.parseIsotime_loop, timeLoop]
  simp only [z]
  simp only [c1, Int.reduceSub, Int.reduceNeg, Int.reduceLT, and_self, if_true, Int.reduceAdd,
    slice1, sliceFrom_nat, hd, isIn_tz b r, htz, Bool.false_eq_true, if_false, Int.reduceEq, true_and, false_and,
    and_false, sepStep, reduceCtorEq, show ¬ ((3 : Nat) = 1) by decide, show ¬ ((3 : Nat) = 2) by decide,
    show ¬ ((3 : Nat) < 3) by decide, List.take_succ_cons, List.take_zero, Except.bind, slice_0_6']
  cases hm : matchFraction (b :: r) with
  | none =>
    have ih := IH p hs c (by omega)
    rw [← G_succ] at ih
    unfold M at ih; rw [hd] at ih
    simp only [fractionMatch_none _ hm, ne_eq, not_true_eq_false, not_false_eq_true, if_true]
    exact ih
  | some q =>
    obtain ⟨ds, rest⟩ := q
    obtain ⟨mark, hfm, ex, hne, hdig⟩ := fractionMatch_some _ _ _ hm
    have hne6 : ds.take 6 ≠ [] := by
      cases ds with
      | nil => exact absurd rfl hne
      | cons a t => simp
    have hdig6 : (ds.take 6).all isDigit = true := by
      rw [List.all_eq_true] at hdig ⊢
      intro x hx; exact hdig x (List.mem_of_mem_take hx)
    have hlen6 : (ds.take 6).length ≤ 6 := by simp [List.length_take]; omega
    have hrest : s.drop (p + (1 + ds.length)) = rest := by
      rw [← List.drop_drop, hd, ex, show 1 + ds.length = ds.length + 1 by omega, List.drop_succ_cons,
        List.drop_left]
    have hple : p + (1 + ds.length) ≤ s.length := by
      have : (s.drop p).length = s.length - p := List.length_drop
      rw [hd, ex] at this; simp at this; omega
    have ih := IH (p + (1 + ds.length)) hs (setComp c 3 ((digitsVal (ds.take 6) * 10 ^ (6 - (ds.take 6).length) : Nat) : Int)) hple
    rw [← G_succ] at ih
    unfold M at ih; rw [hrest] at ih
    simp only [hfm, ne_eq, reduceCtorEq, not_false_eq_true, not_true_eq_false, if_false, BytesPy.mgroup,
      Int.reduceEq, if_true, pyInt_digits _ hne6 hdig6, BytesPy.len, List.length_cons]
    have hval : ((digitsVal (List.take 6 ds) : Nat) : Int) * BytesPy.ipow 10 (6 - ((List.take 6 ds).length : Int))
        = ((digitsVal (ds.take 6) * 10 ^ (6 - (ds.take 6).length) : Nat) : Int) := by
      unfold BytesPy.ipow
      rw [show (6 - ((List.take 6 ds).length : Int)).toNat = 6 - (List.take 6 ds).length by omega]
      simp
    rw [hval, show (3 : Int) = ((3 : Nat) : Int) from rfl, lset_comp c 3 (by omega)]
    rw [show (p : Int) + ((ds.length + 1 : Nat) : Int) = ((p + (1 + ds.length) : Nat) : Int) by omega]
    exact ih


theorem sim_step (s : Bytes) (fuel k : Nat) (ks : List Nat) (hk : k ≤ 5)
    (IH : ∀ p hs c, p ≤ s.length → G s fuel (k + 1) p hs c = M s ks p hs c) :
    ∀ p hs c, p ≤ s.length → G s (fuel + 1) k p hs c = M s (k :: ks) p hs c := by
  intro p hs c hp
  by_cases hlt : p < s.length
  · obtain ⟨b, r, hd, _⟩ := drop_cons_of_lt s p hlt
    cases htz : isTzStart (b :: r) with
    | true => exact sim_tz s fuel k p hs c ks hk b r hd htz
    | false =>
      have : k = 0 ∨ k = 1 ∨ k = 2 ∨ k = 3 ∨ 4 ≤ k := by omega
      rcases this with rfl | rfl | rfl | rfl | h4
      · exact sim_k0 s fuel p hs c ks IH b r hd htz
      · exact sim_k1 s fuel p hs c ks IH b r hd htz
      · exact sim_k2 s fuel p hs c ks IH b r hd htz
      · exact sim_k3 s fuel p hs c ks IH b r hd htz
      · exact sim_hi s fuel k p hs c ks h4 hk IH b r hd htz
  · exact sim_end s fuel k p hs c ks (by omega)

/-- THE LOOP SIMULATION: eight units of fuel suffice and the translated `while` loop computes what the model's
    component loop computes, from every cursor position -/
theorem sim_loop (s : Bytes) (p : Nat) (hs : Bool) (c : TComps) (hp : p ≤ s.length) :
    G s 8 0 p hs c = M s [0, 1, 2, 3, 4, 5] p hs c := by
  have h6 : ∀ p hs c, p ≤ s.length → G s 2 6 p hs c = M s [] p hs c := fun p hs c hp => sim_base s 1 p hs c hp
  have h5 := sim_step s 2 5 [] (by omega) h6
  have h4 := sim_step s 3 4 [5] (by omega) h5
  have h3 := sim_step s 4 3 [4, 5] (by omega) h4
  have h2 := sim_step s 5 2 [3, 4, 5] (by omega) h3
  have h1 := sim_step s 6 1 [2, 3, 4, 5] (by omega) h2
  have h0 := sim_step s 7 0 [1, 2, 3, 4, 5] (by omega) h1
  exact h0 p hs c hp

theorem bind_proj {β} (r : Py.R (Int × List BytesPy.Comp × Int × Bool)) (f : List BytesPy.Comp → Int → Py.R β) :
    (Except.bind r fun x => f x.2.1 x.2.2.1) = Except.bind (Except.map proj r) fun y => f y.1 y.2 := by
  cases r <;> rfl

theorem slice_comps (c : TComps) :
    BytesPy.slice (compsOf c) 1 4 = [.int c.m, .int c.s, .int c.us] := by
  have : BytesPy.slice (compsOf c) 1 4 = ((compsOf c).drop 1).take 3 := by
    simpa using slice_lit (compsOf c) 1 4 (by omega)
  rw [this]; rfl

theorem lget_comps0 (c : TComps) : BytesPy.lget (compsOf c) 0 = .int c.h := by
  simp [BytesPy.lget, compsOf]

theorem parseIsotime_eq (s : Bytes) : Gen.parseIsotime s = (Iso.parseIsotime s).map compsOf := by
  have hsim := sim_loop s 0 false {} (by omega)
  unfold G M at hsim
  simp only [List.drop_zero] at hsim
  unfold Gen.parseIsotime Iso.parseIsotime
  simp only [BytesPy.len]
  by_cases hl : s.length < 2
  · have : (s.length : Int) < 2 := by omega
    simp [hl, this, Except.map]
  have hli : ¬ (s.length : Int) < 2 := by omega
  simp only [hl, hli, if_false]
  have hsim' : Except.map proj (Gen.parseIsotime_loop 8 (s.length : Int) s (-1)
      [BytesPy.Comp.int 0, BytesPy.Comp.int 0, BytesPy.Comp.int 0, BytesPy.Comp.int 0, BytesPy.Comp.none] 0 false)
      = Except.map (loopOut s) (timeLoop [0, 1, 2, 3, 4, 5] s false {}) := hsim
  cases hg : Gen.parseIsotime_loop 8 (s.length : Int) s (-1)
      [BytesPy.Comp.int 0, BytesPy.Comp.int 0, BytesPy.Comp.int 0, BytesPy.Comp.int 0, BytesPy.Comp.none] 0 false with
  | error e =>
    rw [hg] at hsim'
    cases ht : timeLoop [0, 1, 2, 3, 4, 5] s false {} with
    | error e' => rw [ht] at hsim'; simp [Except.map] at hsim'; subst hsim'; rfl
    | ok v => rw [ht] at hsim'; simp [Except.map] at hsim'
  | ok x =>
    rw [hg] at hsim'
    cases ht : timeLoop [0, 1, 2, 3, 4, 5] s false {} with
    | error e' => rw [ht] at hsim'; simp [Except.map] at hsim'
    | ok v =>
      obtain ⟨c, rest⟩ := v
      obtain ⟨x1, x2, x3, x4⟩ := x
      rw [ht] at hsim'
      simp only [Except.map, proj, loopOut, Except.ok.injEq, Prod.mk.injEq] at hsim'
      obtain ⟨h1, h2⟩ := hsim'
      subst h1 h2
      simp only [Except.bind, Except.map]
      by_cases hr : rest = []
      · subst hr
        simp only [slice_comps, lget_comps0, List.length_nil, Int.natCast_zero, Int.sub_zero, Int.lt_irrefl, if_false,
          ne_eq, not_true_eq_false, BytesPy.Comp.int.injEq, List.any_cons, List.any_nil, Bool.or_false,
          decide_not, Bool.or_eq_true, Bool.not_eq_true', decide_eq_false_iff_not]
        by_cases h24 : c.h = 24 <;> by_cases hm : c.m = 0 <;> by_cases hs' : c.s = 0 <;> by_cases hu : c.us = 0 <;>
          simp [h24, hm, hs', hu]
      · have : ((s.length : Int) - (rest.length : Int) < (s.length : Int)) := by
          have : 0 < rest.length := List.length_pos_iff.mpr hr
          omega
        simp [hr, this]
theorem datetimeStar3 (y m d : Int) :
    BytesPy.datetimeStar [.int y, .int m, .int d] = mkDatetime y m d 0 0 0 0 none := rfl

theorem datetimeStar8 (y m d : Int) (c : TComps) :
    BytesPy.datetimeStar ([.int y, .int m, .int d] ++ compsOf c) = mkDatetime y m d c.h c.m c.s c.us c.tz := by
  cases c with
  | mk h mi s us tz => cases tz <;> rfl

theorem datetimeStar8z (y m d : Int) (c : TComps) :
    BytesPy.datetimeStar (BytesPy.lset ([.int y, .int m, .int d] ++ compsOf c) 3 (.int 0))
      = mkDatetime y m d 0 c.m c.s c.us c.tz := by
  cases c with
  | mk h mi s us tz => cases tz <;> rfl

theorem try_addDays (v : IsoT.Value) :
    BytesPy.tryExcept (Except.bind (BytesPy.dtAddDays v 1) fun t4 => Except.ok t4) .OverflowError (.error .ValueError)
      = (overflowToValue (v.dt.addDays 1)).bind fun t => .ok ⟨t, v.off⟩ := by
  unfold BytesPy.dtAddDays
  cases h : v.dt.addDays 1 with
  | ok t => rfl
  | error e => cases e <;> rfl

theorem ebind_ok {α β} (a : α) (f : α → Py.R β) : Except.bind (Except.ok a) f = f a := rfl
theorem ebind_err {α β} (e : PyErr) (f : α → Py.R β) : Except.bind (Except.error e : Py.R α) f = Except.error e := rfl

theorem lget3 (y m d : Int) (c : TComps) :
    BytesPy.lget ([BytesPy.Comp.int y, .int m, .int d] ++ compsOf c) 3 = .int c.h := by
  simp [BytesPy.lget, compsOf]

theorem isoparse_eq (cfg : Option Nat) (s : Bytes) :
    Gen.isoparse (cfg.map fun c => [c]) s = Iso.isoparse cfg s := by
  unfold Gen.isoparse Iso.isoparse
  rw [parseIsodate_eq]
  cases hp : Iso.parseIsodate s with
  | error e => rfl
  | ok q =>
    obtain ⟨⟨y, m, d⟩, rest⟩ := q
    obtain ⟨df, x, es, _⟩ := parseIsodate_inv s _ _ hp
    have hlen : rest.length ≤ s.length := by rw [es]; simp
    have hdrop : s.drop (s.length - rest.length) = rest := by
      have : s.length - rest.length = (IsoSpec.renderDate df x).length := by rw [es]; simp
      rw [this, es, List.drop_left]
    have hdrop1 : s.drop (s.length - rest.length + 1) = rest.drop 1 := by
      have : s.drop (s.length - rest.length + 1) = (s.drop (s.length - rest.length)).drop 1 := by
        rw [List.drop_drop]
      rw [this, hdrop]
    have hpos : ((s.length : Int) - (rest.length : Int)) = ((s.length - rest.length : Nat) : Int) := by omega
    simp only [Except.map, bind, ebind_ok, dateOut, hpos, BytesPy.len, slice1, hdrop]
    by_cases hr : rest = []
    · subst hr
      simp only [List.length_nil, Nat.sub_zero, gt_iff_lt, Int.lt_irrefl, if_false, ebind_ok, ne_eq, not_true_eq_false,
        List.length_cons, datetimeStar3]
      rw [if_neg (by intro h; omega)]
    · have hlt : ((s.length : Int) > ((s.length - rest.length : Nat) : Int)) := by
        have : 0 < rest.length := List.length_pos_iff.mpr hr
        omega
      rw [show (((s.length - rest.length : Nat) : Int) + 1) = ((s.length - rest.length + 1 : Nat) : Int) by omega,
        sliceFrom_nat, hdrop1, parseIsotime_eq]
      simp only [hlt, if_true, ne_eq, hr, not_false_eq_true]
      have hsep : (Option.map (fun c => [c]) cfg = none ∨ some (List.take 1 rest) = Option.map (fun c => [c]) cfg)
          ↔ (cfg = none ∨ List.take 1 rest = cfg.toList) := by
        cases cfg <;> simp
      by_cases hs : cfg = none ∨ List.take 1 rest = cfg.toList
      · simp only [hsep.mpr hs, hs, if_true]
        cases ht : Iso.parseIsotime (List.drop 1 rest) with
        | error e => rfl
        | ok c =>
          simp only [Except.map, ebind_ok, lget3, BytesPy.Comp.int.injEq]
          have hl8 : ((([BytesPy.Comp.int y, BytesPy.Comp.int m, BytesPy.Comp.int d] ++ compsOf c).length : Nat) : Int) > 3 := by
            simp [compsOf]
          by_cases h24 : c.h = 24
          · simp only [hl8, h24, and_self, if_true, datetimeStar8z]
            cases hm : mkDatetime y m d 0 c.m c.s c.us c.tz with
            | error e =>
              have := onlyVE_mkDatetime _ _ _ _ _ _ _ _ e hm
              subst this; rfl
            | ok v1 =>
              simp only [ebind_ok, try_addDays]
              have ho : v1.off = c.tz := (mkDatetime_inv _ _ _ _ _ _ _ _ _ hm).2 ▸ rfl
              rw [ho]
          · simp only [hl8, h24, and_false, if_false, datetimeStar8]
      · simp only [hs, (not_congr hsep).mpr hs, if_false]
        rfl

theorem parseTzstrEntry_eq (s : Bytes) (z : Bool) : Gen.parseTzstrEntry s z = Iso.parseTzstr s z := by
  unfold Gen.parseTzstrEntry; exact parseTzstr_eq s z

theorem parseIsodateEntry_eq (s : Bytes) :
    Gen.parseIsodateEntry s = (Iso.parseIsodateEntry s).map fun ymd => Cal.toOrdinal ymd.1 ymd.2.1 ymd.2.2 := by
  unfold Gen.parseIsodateEntry Iso.parseIsodateEntry
  rw [parseIsodate_eq]
  cases hp : Iso.parseIsodate s with
  | error e => rfl
  | ok q =>
    obtain ⟨⟨y, m, d⟩, rest⟩ := q
    obtain ⟨df, x, es, _⟩ := parseIsodate_inv s _ _ hp
    have hlen : rest.length ≤ s.length := by rw [es]; simp
    simp only [Except.map, bind, ebind_ok, Except.bind, dateOut, BytesPy.len]
    by_cases hr : rest = []
    · subst hr
      simp only [List.length_nil, Int.natCast_zero, Int.sub_zero, Int.lt_irrefl, if_false, ne_eq, not_true_eq_false,
        BytesPy.dateStar, BytesPy.date]
      split <;> rfl
    · have : ((s.length : Int) - (rest.length : Int) < (s.length : Int)) := by
        have : 0 < rest.length := List.length_pos_iff.mpr hr
        omega
      simp [this, hr]

theorem parseIsotimeEntry_eq (s : Bytes) :
    Gen.parseIsotimeEntry s = (Iso.parseIsotimeEntry s).map compsOf := by
  unfold Gen.parseIsotimeEntry Iso.parseIsotimeEntry
  rw [parseIsotime_eq]
  cases hp : Iso.parseIsotime s with
  | error e => rfl
  | ok c =>
    simp only [Except.map, bind, ebind_ok, Except.bind, lget_comps0, BytesPy.Comp.int.injEq]
    obtain ⟨h, mi, sec, us, tz⟩ := c
    by_cases h24 : h = 24
    · subst h24
      cases tz <;> simp [compsOf, BytesPy.lset, BytesPy.timeStar] <;> split <;> simp_all
    · cases tz <;> simp [h24, compsOf, BytesPy.timeStar] <;> split <;> simp_all

/-- the model's input kinds as values of the translated code -/
def toVal : Iso.PyInput → BytesPy.PyVal
  | .str c => .str c
  | .bytes b => .bytes b
  | .streamStr c => .streamStr c
  | .streamBytes b => .streamBytes b

theorem takesAscii_eq {α} (f : Bytes → Py.R α) (i : Iso.PyInput) :
    Gen.takesAscii f (toVal i) = Iso.takesAscii f i := by
  cases i with
  | str c =>
    simp only [Gen.takesAscii, toVal, BytesPy.readAll, BytesPy.isText, BytesPy.encodeAscii, Iso.takesAscii, if_true]
    by_cases h : c.any (fun c => decide (c ≥ 128)) = true <;> simp [h, BytesPy.tryExcept, Except.bind, BytesPy.asBytes]
  | bytes b => simp [Gen.takesAscii, toVal, BytesPy.readAll, BytesPy.isText, Iso.takesAscii, Except.bind, BytesPy.asBytes]
  | streamStr c =>
    simp only [Gen.takesAscii, toVal, BytesPy.readAll, BytesPy.isText, BytesPy.encodeAscii, Iso.takesAscii, if_true]
    by_cases h : c.any (fun c => decide (c ≥ 128)) = true <;> simp [h, BytesPy.tryExcept, Except.bind, BytesPy.asBytes]
  | streamBytes b =>
    simp [Gen.takesAscii, toVal, BytesPy.readAll, BytesPy.isText, Iso.takesAscii, Except.bind, BytesPy.asBytes]

end IsoGen
