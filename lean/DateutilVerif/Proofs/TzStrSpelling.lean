/-
  Proofs/TzStrSpelling.lean — the spellings of a TZ string covered by `tzstr_render`, as a datatype;
  `render`, the token list, and `tokens (render sp) = tokenList sp`.
-/
import DateutilVerif.Proofs.TzStrTokens

namespace TzStr

/-- a digit token and the value `int()` gives it -/
structure Num where
  tok : String
  val : Int

def Num.Ok (n : Num) : Prop := pyInt n.tok = some n.val

/-- the three spellings of an offset magnitude -/
inductive OffSp where
  | h (n : Num)                          -- `h` / `hh`
  | hhmm (t : String) (a b : Int)        -- four digits
  | colon (a b : Num)                    -- `hh:mm`

structure Off where
  sign : Option Bool                     -- `some true` = "+", `some false` = "-"
  sp : OffSp

inductive RuleSp where
  | M (m w d : Num)
  | J (n : Num)
  | N (n : Num)

inductive TimeSp where
  | h (n : Num)
  | hhmm (t : String) (a b : Int)
  | hm (a b : Num)
  | hms (a b c : Num)

structure Spelling where
  std : String
  stdOff : Off
  dst : String
  dstOff : Option Off
  startRule : RuleSp
  startTime : Option TimeSp
  endRule : RuleSp
  endTime : Option TimeSp

abbrev Chunk := CK × List Char

def numC (n : Num) : Chunk := (.digit, n.tok.toList)
def pC (c : Char) : Chunk := (.punct, [c])

def OffSp.chunks : OffSp → List Chunk
  | .h n => [numC n]
  | .hhmm t _ _ => [(.digit, t.toList)]
  | .colon a b => [numC a, pC ':', numC b]

def signChunks : Option Bool → List Chunk
  | none => []
  | some true => [(.other, ['+'])]
  | some false => [(.other, ['-'])]

def Off.chunks (o : Off) : List Chunk := signChunks o.sign ++ o.sp.chunks

def RuleSp.chunks : RuleSp → List Chunk
  | .M m w d => [(.alpha, ['M']), numC m, pC '.', numC w, pC '.', numC d]
  | .J n => [(.alpha, ['J']), numC n]
  | .N n => [numC n]

def TimeSp.body : TimeSp → List Chunk
  | .h n => [numC n]
  | .hhmm t _ _ => [(.digit, t.toList)]
  | .hm a b => [numC a, pC ':', numC b]
  | .hms a b c => [numC a, pC ':', numC b, pC ':', numC c]

def timeChunks : Option TimeSp → List Chunk
  | none => []
  | some t => (.other, ['/']) :: t.body

def optOffChunks : Option Off → List Chunk
  | none => []
  | some o => o.chunks

def Spelling.chunks (sp : Spelling) : List Chunk :=
  (.alpha, sp.std.toList) :: (sp.stdOff.chunks ++ ((.alpha, sp.dst.toList) :: (optOffChunks sp.dstOff ++
    (pC ',' :: (sp.startRule.chunks ++ (timeChunks sp.startTime ++
      (pC ',' :: (sp.endRule.chunks ++ timeChunks sp.endTime))))))))

def toksOf (cs : List Chunk) : List String := cs.map (fun p => String.ofList p.2)

/-- the string -/
def render (sp : Spelling) : String := String.ofList (sp.chunks.map (·.2)).flatten
/-- its tokens -/
def tokenList (sp : Spelling) : List String := toksOf sp.chunks

/-! ### well-formedness of the pieces -/

def IsAlpha (s : String) : Prop := s.toList ≠ [] ∧ ∀ c ∈ s.toList, ck c = .alpha
def IsDig (s : String) : Prop := s.toList ≠ [] ∧ ∀ c ∈ s.toList, ck c = .digit

def OffSp.Ok : OffSp → Prop
  | .h n => n.Ok ∧ n.tok.length ≤ 2
  | .hhmm t a b => IsDig t ∧ t.length = 4 ∧ pyInt (strTake t 2) = some a ∧ pyInt (strDrop t 2) = some b
  | .colon a b => a.Ok ∧ b.Ok ∧ a.tok.length ≠ 4 ∧ a.tok.length ≤ 2 ∧ b.tok.length ≤ 2     -- `hh:mm`

def RuleSp.Ok : RuleSp → Prop
  | .M m w d => m.Ok ∧ w.Ok ∧ d.Ok
  | .J n => n.Ok ∧ 1 ≤ n.val ∧ n.val ≤ 366
  | .N n => n.Ok ∧ n.val ≤ 365

def TimeSp.Ok : TimeSp → Prop
  | .h n => n.Ok ∧ n.tok.length ≤ 2
  | .hhmm t a b => IsDig t ∧ t.length = 4 ∧ pyInt (strTake t 2) = some a ∧ pyInt (strDrop t 2) = some b
  | .hm a b => a.Ok ∧ b.Ok ∧ a.tok.length ≠ 4
  | .hms a b c => a.Ok ∧ b.Ok ∧ c.Ok ∧ a.tok.length ≠ 4

def optOk {α} (p : α → Prop) : Option α → Prop
  | none => True
  | some x => p x

/-- digits ⇒ class digit -/
theorem ck_digit_of (c : Char) (h : '0' ≤ c ∧ c ≤ '9') : ck c = .digit := by
  unfold ck
  have h1 : (c == ',' || c == ':' || c == '.') = false := by
    have : c ≠ ',' ∧ c ≠ ':' ∧ c ≠ '.' := by
      refine ⟨?_, ?_, ?_⟩ <;> (intro e; subst e; revert h; decide)
    simp [this.1, this.2.1, this.2.2]
  have h2 : ¬ (('a' ≤ c ∧ c ≤ 'z') ∨ ('A' ≤ c ∧ c ≤ 'Z')) := by
    have a := h.1; have b := h.2
    simp only [Char.le_def] at *
    have : ('0' : Char).val.toNat = 48 := by decide
    have : ('9' : Char).val.toNat = 57 := by decide
    have : ('a' : Char).val.toNat = 97 := by decide
    have : ('A' : Char).val.toNat = 65 := by decide
    have : ('Z' : Char).val.toNat = 90 := by decide
    intro hh
    rcases hh with ⟨x, y⟩ | ⟨x, y⟩ <;> (simp only [UInt32.le_iff_toNat_le] at *; omega)
  simp [h1, h2, h]

theorem Num.isDig (n : Num) (h : n.Ok) : IsDig n.tok := by
  unfold Num.Ok pyInt at h
  by_cases hd : isDigits n.tok = true
  · unfold isDigits at hd
    simp only [Bool.and_eq_true, Bool.not_eq_true', List.all_eq_true, decide_eq_true_eq] at hd
    refine ⟨?_, fun c hc => ck_digit_of c (hd.2 c hc)⟩
    intro e
    have h1 := hd.1
    have : n.tok = "" := by rw [← String.ofList_toList (s := n.tok), e]
    rw [this] at h1; simp at h1
  · simp [hd] at h

structure WellFormed (sp : Spelling) : Prop where
  std : IsAlpha sp.std
  dst : IsAlpha sp.dst
  stdOff : sp.stdOff.sp.Ok
  dstOff : optOk (fun o : Off => o.sp.Ok) sp.dstOff
  startRule : sp.startRule.Ok
  startTime : optOk TimeSp.Ok sp.startTime
  endRule : sp.endRule.Ok
  endTime : optOk TimeSp.Ok sp.endTime

/-! ### the chunk list of a spelling is good -/

def lastIs (k : CK) (a : List Chunk) : Prop := ∀ x, a.getLast? = some x → x.1 = k
def headNot (k : CK) (b : List Chunk) : Prop := ∀ y, b.head? = some y → y.1 ≠ k

theorem good_cons (k : CK) (cs : List Char) (b : List Chunk) (h : Homog k cs) (hb : GoodChunks b)
    (hx : k = .punct ∨ headNot k b) : GoodChunks ((k, cs) :: b) := by
  cases b with
  | nil => exact h
  | cons q r =>
      obtain ⟨k', cs'⟩ := q
      refine ⟨h, ?_, hb⟩
      rcases hx with e | e
      · exact Or.inr e
      · exact Or.inl (fun e2 => e (k', cs') rfl e2.symm)

theorem good_append (k : CK) : ∀ (a b : List Chunk), GoodChunks a → GoodChunks b → lastIs k a → headNot k b →
    GoodChunks (a ++ b) := by
  intro a
  induction a with
  | nil => intro b _ hb _ _; exact hb
  | cons p t ih =>
      intro b ha hb hl hh
      obtain ⟨kp, cp⟩ := p
      cases t with
      | nil =>
          have e : kp = k := hl (kp, cp) rfl
          subst e
          exact good_cons kp cp b ha hb (Or.inr hh)
      | cons q r =>
          obtain ⟨kq, cq⟩ := q
          have hrec := ih b ha.2.2 hb (by intro x hx; exact hl x (by simpa using hx)) hh
          exact ⟨ha.1, ha.2.1, hrec⟩

theorem homog_dig (t : String) (h : IsDig t) : Homog .digit t.toList := ⟨h.1, h.2, by intro e; cases e⟩
theorem homog_alpha (t : String) (h : IsAlpha t) : Homog .alpha t.toList := ⟨h.1, h.2, by intro e; cases e⟩
theorem homog_num (n : Num) (h : n.Ok) : Homog .digit (numC n).2 := homog_dig _ (n.isDig h)
theorem homog_p (c : Char) (h : ck c = .punct) : Homog .punct [c] :=
  ⟨by simp, by intro x hx; simp at hx; rw [hx]; exact h, fun _ => rfl⟩
theorem homog_o (c : Char) (h : ck c = .other) : Homog .other [c] :=
  ⟨by simp, by intro x hx; simp at hx; rw [hx]; exact h, by intro e; cases e⟩
theorem homog_a (c : Char) (h : ck c = .alpha) : Homog .alpha [c] :=
  ⟨by simp, by intro x hx; simp at hx; rw [hx]; exact h, by intro e; cases e⟩

theorem getLast?_append_ne {α} (a b : List α) (h : b ≠ []) : (a ++ b).getLast? = b.getLast? := by
  cases b with
  | nil => exact absurd rfl h
  | cons x t =>
      rw [List.getLast?_append]
      have : (x :: t).getLast? = some ((x :: t).getLast (by simp)) := List.getLast?_eq_getLast (by simp)
      rw [this]; rfl

theorem offsp_good (o : OffSp) (h : o.Ok) :
    GoodChunks o.chunks ∧ lastIs .digit o.chunks ∧ headNot .alpha o.chunks ∧ o.chunks ≠ [] := by
  cases o with
  | h n => exact ⟨homog_num n h.1, by intro x hx; simp [OffSp.chunks, numC] at hx; rw [← hx],
                  by intro y hy; simp [OffSp.chunks, numC] at hy; rw [← hy]; simp, by simp [OffSp.chunks]⟩
  | hhmm t a b => exact ⟨homog_dig t h.1, by intro x hx; simp [OffSp.chunks] at hx; rw [← hx],
                  by intro y hy; simp [OffSp.chunks] at hy; rw [← hy]; simp, by simp [OffSp.chunks]⟩
  | colon a b =>
      refine ⟨⟨homog_num a h.1, Or.inl (by simp [numC, pC]), homog_p ':' (by decide), Or.inr rfl, homog_num b h.2.1⟩,
        by intro x hx; simp [OffSp.chunks, numC] at hx; rw [← hx],
        by intro y hy; simp [OffSp.chunks, numC] at hy; rw [← hy]; simp, by simp [OffSp.chunks]⟩

theorem off_good (o : Off) (h : o.sp.Ok) :
    GoodChunks o.chunks ∧ lastIs .digit o.chunks ∧ headNot .alpha o.chunks ∧ o.chunks ≠ [] := by
  obtain ⟨g, l, hd, ne⟩ := offsp_good o.sp h
  unfold Off.chunks
  have hdig : headNot .other o.sp.chunks := by
    intro y hy
    cases hsp : o.sp with
    | h n => rw [hsp] at hy; simp [OffSp.chunks, numC] at hy; rw [← hy]; simp
    | hhmm t a b => rw [hsp] at hy; simp [OffSp.chunks] at hy; rw [← hy]; simp
    | colon a b => rw [hsp] at hy; simp [OffSp.chunks, numC] at hy; rw [← hy]; simp
  cases hs : o.sign with
  | none => simpa [signChunks] using ⟨g, l, hd, ne⟩
  | some bsign =>
      have hl' : lastIs .digit (signChunks (some bsign) ++ o.sp.chunks) := by
        intro x hx
        rw [getLast?_append_ne _ _ ne] at hx
        exact l x hx
      cases bsign with
      | true =>
          refine ⟨good_cons .other ['+'] _ (homog_o '+' (by decide)) g (Or.inr hdig), hl', ?_, by simp [signChunks]⟩
          intro y hy; simp [signChunks] at hy; rw [← hy]; simp
      | false =>
          refine ⟨good_cons .other ['-'] _ (homog_o '-' (by decide)) g (Or.inr hdig), hl', ?_, by simp [signChunks]⟩
          intro y hy; simp [signChunks] at hy; rw [← hy]; simp

theorem rule_good (r : RuleSp) (h : r.Ok) : GoodChunks r.chunks ∧ lastIs .digit r.chunks ∧ r.chunks ≠ [] := by
  cases r with
  | M m w d =>
      refine ⟨⟨homog_a 'M' (by decide), Or.inl (by simp [numC]), homog_num m h.1, Or.inl (by simp [numC, pC]),
        homog_p '.' (by decide), Or.inr rfl, homog_num w h.2.1, Or.inl (by simp [numC, pC]),
        homog_p '.' (by decide), Or.inr rfl, homog_num d h.2.2⟩,
        by intro x hx; simp [RuleSp.chunks, numC] at hx; rw [← hx], by simp [RuleSp.chunks]⟩
  | J n =>
      exact ⟨⟨homog_a 'J' (by decide), Or.inl (by simp [numC]), homog_num n h.1⟩,
        by intro x hx; simp [RuleSp.chunks, numC] at hx; rw [← hx], by simp [RuleSp.chunks]⟩
  | N n =>
      exact ⟨homog_num n h.1, by intro x hx; simp [RuleSp.chunks, numC] at hx; rw [← hx], by simp [RuleSp.chunks]⟩

theorem body_good (t : TimeSp) (h : t.Ok) :
    GoodChunks t.body ∧ lastIs .digit t.body ∧ headNot .other t.body ∧ t.body ≠ [] := by
  cases t with
  | h n => exact ⟨homog_num n h.1, by intro x hx; simp [TimeSp.body, numC] at hx; rw [← hx],
                  by intro y hy; simp [TimeSp.body, numC] at hy; rw [← hy]; simp, by simp [TimeSp.body]⟩
  | hhmm t a b => exact ⟨homog_dig t h.1, by intro x hx; simp [TimeSp.body] at hx; rw [← hx],
                  by intro y hy; simp [TimeSp.body] at hy; rw [← hy]; simp, by simp [TimeSp.body]⟩
  | hm a b =>
      exact ⟨⟨homog_num a h.1, Or.inl (by simp [numC, pC]), homog_p ':' (by decide), Or.inr rfl, homog_num b h.2.1⟩,
        by intro x hx; simp [TimeSp.body, numC] at hx; rw [← hx],
        by intro y hy; simp [TimeSp.body, numC] at hy; rw [← hy]; simp, by simp [TimeSp.body]⟩
  | hms a b c =>
      exact ⟨⟨homog_num a h.1, Or.inl (by simp [numC, pC]), homog_p ':' (by decide), Or.inr rfl, homog_num b h.2.1,
          Or.inl (by simp [numC, pC]), homog_p ':' (by decide), Or.inr rfl, homog_num c h.2.2.1⟩,
        by intro x hx; simp [TimeSp.body, numC] at hx; rw [← hx],
        by intro y hy; simp [TimeSp.body, numC] at hy; rw [← hy]; simp, by simp [TimeSp.body]⟩

/-- optional `/time` in front of something that does not start with a digit -/
theorem time_then (t : Option TimeSp) (h : optOk TimeSp.Ok t) (rest : List Chunk) (hr : GoodChunks rest)
    (hd : headNot .digit rest) :
    GoodChunks (timeChunks t ++ rest) ∧ headNot .digit (timeChunks t ++ rest) := by
  cases t with
  | none => exact ⟨hr, hd⟩
  | some t =>
      obtain ⟨g, l, ho, ne⟩ := body_good t h
      have g2 := good_append .digit t.body rest g hr l hd
      refine ⟨good_cons .other ['/'] _ (homog_o '/' (by decide)) g2 (Or.inr ?_), ?_⟩
      · intro y hy
        cases hb : t.body with
        | nil => exact absurd hb ne
        | cons q r => rw [hb] at hy; simp at hy; rw [← hy]; exact ho q (by rw [hb]; rfl)
      · intro y hy; simp [timeChunks] at hy; rw [← hy]; simp

theorem comma_head (k : CK) (hk : k ≠ .punct) (rest : List Chunk) : headNot k (pC ',' :: rest) := by
  intro y hy; simp [pC] at hy; rw [← hy]; exact fun e => hk e.symm

/-- **the chunk list of a well-formed spelling is good** -/
theorem chunks_good (sp : Spelling) (h : WellFormed sp) : GoodChunks sp.chunks := by
  unfold Spelling.chunks
  obtain ⟨g5, h5⟩ := time_then sp.endTime h.endTime [] trivial (by intro y hy; simp at hy)
  simp only [List.append_nil] at g5 h5
  obtain ⟨gr2, lr2, _⟩ := rule_good sp.endRule h.endRule
  have g4 := good_append .digit _ _ gr2 g5 lr2 h5
  have g3 := good_cons .punct [','] _ (homog_p ',' (by decide)) g4 (Or.inl rfl)
  obtain ⟨g2, h2⟩ := time_then sp.startTime h.startTime _ g3 (comma_head .digit (by decide) _)
  obtain ⟨gr1, lr1, _⟩ := rule_good sp.startRule h.startRule
  have g1 := good_append .digit _ _ gr1 g2 lr1 h2
  have g0 := good_cons .punct [','] _ (homog_p ',' (by decide)) g1 (Or.inl rfl)
  have gy : GoodChunks (optOffChunks sp.dstOff ++ (pC ',' :: (sp.startRule.chunks ++ (timeChunks sp.startTime ++
      (pC ',' :: (sp.endRule.chunks ++ timeChunks sp.endTime)))))) ∧
      headNot .alpha (optOffChunks sp.dstOff ++ (pC ',' :: (sp.startRule.chunks ++ (timeChunks sp.startTime ++
      (pC ',' :: (sp.endRule.chunks ++ timeChunks sp.endTime)))))) := by
    cases hd : sp.dstOff with
    | none => exact ⟨g0, comma_head .alpha (by decide) _⟩
    | some o =>
        have ho : o.sp.Ok := by have := h.dstOff; rw [hd] at this; exact this
        obtain ⟨go, lo, hho, neo⟩ := off_good o ho
        refine ⟨good_append .digit _ _ go g0 lo (comma_head .digit (by decide) _), ?_⟩
        intro y hy
        cases hc : o.chunks with
        | nil => exact absurd hc neo
        | cons q r => simp [optOffChunks, hc] at hy; rw [← hy]; exact hho q (by rw [hc]; rfl)
  have gz := good_cons .alpha sp.dst.toList _ (homog_alpha _ h.dst) gy.1 (Or.inr gy.2)
  obtain ⟨gso, lso, hso, neso⟩ := off_good sp.stdOff h.stdOff
  have gw := good_append .digit _ _ gso gz lso (by intro y hy; simp at hy; rw [← hy]; simp)
  refine good_cons .alpha sp.std.toList _ (homog_alpha _ h.std) gw (Or.inr ?_)
  intro y hy
  cases hc : sp.stdOff.chunks with
  | nil => exact absurd hc neso
  | cons q r => simp [hc] at hy; rw [← hy]; exact hso q (by rw [hc]; rfl)

/-- **the tokenizer on a rendered spelling** -/
theorem tokens_render (sp : Spelling) (h : WellFormed sp) : tokens (render sp) = tokenList sp :=
  tokens_chunks sp.chunks (chunks_good sp h)

end TzStr
