/-
  Proofs/RRuleSorted.lean — `sortBy` of a duplicate-free list is strictly sorted; the time sets
  built by the model are strictly increasing lists of valid wall times.
-/
import DateutilVerif.Proofs.RRuleLists

namespace RRule

/-- a strict total order on the elements that matter -/
structure StrictOn {α} (lt : α → α → Bool) (P : α → Prop) : Prop where
  trans : ∀ a b c, lt a b = true → lt b c = true → lt a c = true
  irrefl : ∀ a, lt a a = false
  tri : ∀ a b, P a → P b → a ≠ b → lt a b = false → lt b a = true

theorem insertBy_pairwise {α} {lt : α → α → Bool} {P : α → Prop} (so : StrictOn lt P) (x : α) (hx : P x) :
    ∀ (l : List α), (∀ y ∈ l, P y) → (∀ y ∈ l, y ≠ x) → l.Pairwise (fun a b => lt a b = true) →
    (insertBy lt x l).Pairwise (fun a b => lt a b = true) := by
  intro l
  induction l with
  | nil => intro _ _ _; simp [insertBy]
  | cons z zs ih =>
    intro hP hne hs
    unfold insertBy
    rw [List.pairwise_cons] at hs
    split
    · rename_i hzx
      rw [List.pairwise_cons]
      refine ⟨?_, ih (fun y hy => hP y (List.mem_cons_of_mem _ hy))
                     (fun y hy => hne y (List.mem_cons_of_mem _ hy)) hs.2⟩
      intro y hy
      rcases (mem_insertBy lt x y zs).mp hy with rfl | hy
      · exact hzx
      · exact hs.1 y hy
    · rename_i hzx
      have hxz : lt x z = true :=
        so.tri z x (hP z (List.mem_cons_self ..)) hx (hne z (List.mem_cons_self ..)) (by simpa using hzx)
      rw [List.pairwise_cons]
      refine ⟨?_, List.pairwise_cons.mpr hs⟩
      intro y hy
      rcases List.mem_cons.mp hy with rfl | hy
      · exact hxz
      · exact so.trans _ _ _ hxz (hs.1 y hy)

theorem sortBy_pairwise {α} {lt : α → α → Bool} {P : α → Prop} (so : StrictOn lt P) :
    ∀ (l : List α), (∀ y ∈ l, P y) → l.Nodup → (sortBy lt l).Pairwise (fun a b => lt a b = true) := by
  intro l
  induction l with
  | nil => intro _ _; simp [sortBy]
  | cons x xs ih =>
    intro hP hnd
    rw [List.nodup_cons] at hnd
    have : sortBy lt (x :: xs) = insertBy lt x (sortBy lt xs) := rfl
    rw [this]
    apply insertBy_pairwise so x (hP x (List.mem_cons_self ..))
    · intro y hy; exact hP y (List.mem_cons_of_mem _ ((mem_sortBy lt y xs).mp hy))
    · intro y hy heq; subst heq; exact hnd.1 ((mem_sortBy lt y xs).mp hy)
    · exact ih (fun y hy => hP y (List.mem_cons_of_mem _ hy)) hnd.2

theorem pairwise_nodup {α} {lt : α → α → Bool} (irrefl : ∀ a, lt a a = false) (l : List α)
    (h : l.Pairwise (fun a b => lt a b = true)) : l.Nodup := by
  unfold List.Nodup
  exact h.imp (by intro a b hab heq; subst heq; rw [irrefl] at hab; cases hab)

theorem dedup_nodup {α} [BEq α] [LawfulBEq α] : ∀ (l acc : List α), acc.Nodup → (dedup acc l).Nodup := by
  intro l
  induction l with
  | nil =>
    intro acc h; unfold dedup
    exact (List.Perm.nodup_iff (List.reverse_perm acc)).mpr h
  | cons x xs ih =>
    intro acc h
    unfold dedup
    split
    · exact ih acc h
    · rename_i hc
      apply ih
      rw [List.nodup_cons]
      exact ⟨by intro hm; exact hc (List.contains_iff_mem.mpr hm), h⟩

/-! ### integers -/

theorem strictInt : StrictOn ltInt (fun _ => True) :=
  ⟨by intro a b c; simp [ltInt]; omega, by intro a; simp [ltInt], by intro a b _ _; simp [ltInt]; omega⟩

theorem sortedSet_pairwise (l : List Int) : (sortedSet l).Pairwise (fun a b => ltInt a b = true) :=
  sortBy_pairwise strictInt _ (fun _ _ => trivial) (dedup_nodup l [] List.nodup_nil)

theorem sortedSet_nodup (l : List Int) : (sortedSet l).Nodup :=
  pairwise_nodup (by intro a; simp [ltInt]) _ (sortedSet_pairwise l)

theorem sortBy_nodup_int (l : List Int) (h : l.Nodup) : (sortBy ltInt l).Nodup :=
  pairwise_nodup (by intro a; simp [ltInt]) _ (sortBy_pairwise strictInt l (fun _ _ => trivial) h)

theorem normUnit_nodup (freq lvl interval start : Int) (arg : Option (List Int)) (base : Int)
    (res : Option (List Int)) (h : normUnit freq lvl interval start arg base = .ok res) :
    (res.getD []).Nodup := by
  unfold normUnit at h
  split at h
  · injection h with h; subst h
    split <;> simp
  · rename_i l
    split at h
    · split at h
      · rename_i c hc
        injection h with h; subst h
        unfold constructByset at hc
        dsimp only at hc
        split at hc
        · cases hc
        · injection hc with hc; subst hc
          exact sortBy_nodup_int _ (dedup_nodup _ [] List.nodup_nil)
      · cases h
    · injection h with h; subst h
      exact sortedSet_nodup l

/-! ### wall times -/

def ValidHMS (t : HMS) : Prop := 0 ≤ t.1 ∧ t.1 ≤ 23 ∧ 0 ≤ t.2.1 ∧ t.2.1 ≤ 59 ∧ 0 ≤ t.2.2 ∧ t.2.2 ≤ 59

/-- seconds of the day -/
def tod (t : HMS) : Int := t.1 * 3600 + t.2.1 * 60 + t.2.2

theorem ltHMS_iff (a b : HMS) (ha : ValidHMS a) (hb : ValidHMS b) : ltHMS a b = true ↔ tod a < tod b := by
  obtain ⟨a1, a2, a3⟩ := a
  obtain ⟨b1, b2, b3⟩ := b
  unfold ValidHMS at ha hb
  simp only [ltHMS, tod, Bool.or_eq_true, decide_eq_true_eq, Bool.and_eq_true, beq_iff_eq] at *
  omega

theorem strictHMS : StrictOn ltHMS (fun _ => True) := by
  refine ⟨?_, ?_, ?_⟩
  · rintro ⟨a1, a2, a3⟩ ⟨b1, b2, b3⟩ ⟨c1, c2, c3⟩
    simp only [ltHMS, Bool.or_eq_true, decide_eq_true_eq, Bool.and_eq_true, beq_iff_eq]
    omega
  · rintro ⟨a1, a2, a3⟩; simp [ltHMS]
  · rintro ⟨a1, a2, a3⟩ ⟨b1, b2, b3⟩ _ _ hne
    simp only [ltHMS, Bool.or_eq_true, decide_eq_true_eq, Bool.and_eq_true, beq_iff_eq,
      Bool.or_eq_false_iff, Bool.and_eq_false_iff, decide_eq_false_iff_not, beq_eq_false_iff_ne]
    intro h
    have : ¬ (a1 = b1 ∧ a2 = b2 ∧ a3 = b3) := by
      intro ⟨e1, e2, e3⟩; exact hne (by rw [e1, e2, e3])
    omega

theorem checkTimes_ok : ∀ (l l' : List HMS), checkTimes l = .ok l' → l' = l ∧ ∀ t ∈ l, ValidHMS t := by
  intro l
  induction l with
  | nil => intro l' h; simp [checkTimes] at h; subst h; simp
  | cons t ts ih =>
    intro l' h
    unfold checkTimes at h
    unfold mkTime at h
    split at h
    · cases h
    · rename_i t' ht
      split at ht
      · rename_i hv
        injection ht with ht; subst ht
        split at h
        · cases h
        · rename_i l2 hl2
          injection h with h; subst h
          obtain ⟨e, hv2⟩ := ih l2 hl2
          subst e
          refine ⟨rfl, ?_⟩
          intro u hu
          rcases List.mem_cons.mp hu with rfl | hu
          · exact hv
          · exact hv2 u hu
      · cases ht

theorem productHMS_nodup (hs ms ss : List Int) (h1 : hs.Nodup) (h2 : ms.Nodup) (h3 : ss.Nodup) :
    (productHMS hs ms ss).Nodup := by
  unfold productHMS List.Nodup
  rw [List.pairwise_flatMap]
  refine ⟨?_, ?_⟩
  · intro h _
    rw [List.pairwise_flatMap]
    refine ⟨?_, ?_⟩
    · intro m _
      rw [List.pairwise_map]
      exact h3.imp (by intro a b hab heq; injection heq with _ e; injection e with _ e; exact hab e)
    · exact h2.imp (by
        intro a b hab x hx y hy heq
        simp only [List.mem_map] at hx hy
        obtain ⟨_, _, rfl⟩ := hx
        obtain ⟨_, _, rfl⟩ := hy
        injection heq with _ e; injection e with e _; exact hab e)
  · exact h1.imp (by
      intro a b hab x hx y hy heq
      simp only [List.mem_flatMap, List.mem_map] at hx hy
      obtain ⟨_, _, _, _, rfl⟩ := hx
      obtain ⟨_, _, _, _, rfl⟩ := hy
      injection heq with e _; exact hab e)

/-- a time set: strictly increasing valid wall times -/
def TsOk (ts : List HMS) : Prop := ts.Pairwise (fun a b => ltHMS a b = true) ∧ ∀ t ∈ ts, ValidHMS t

theorem buildTimeset_ok (hs ms ss : List Int) (ts : List HMS) (h1 : hs.Nodup) (h2 : ms.Nodup) (h3 : ss.Nodup)
    (h : buildTimeset hs ms ss = .ok ts) :
    TsOk ts ∧ ∀ t ∈ ts, t.1 ∈ hs ∧ t.2.1 ∈ ms ∧ t.2.2 ∈ ss := by
  unfold buildTimeset at h
  split at h
  · rename_i l hl
    injection h with h; subst h
    obtain ⟨e, hv⟩ := checkTimes_ok _ l hl
    subst e
    refine ⟨⟨sortBy_pairwise strictHMS _ (fun _ _ => trivial) (productHMS_nodup hs ms ss h1 h2 h3), ?_⟩, ?_⟩
    · intro t ht; exact hv t ((mem_sortBy ltHMS t _).mp ht)
    · intro t ht
      have := (mem_sortBy ltHMS t _).mp ht
      unfold productHMS at this
      simp only [List.mem_flatMap, List.mem_map] at this
      obtain ⟨h, hh, m, hm, s, hs', rfl⟩ := this
      exact ⟨hh, hm, hs'⟩
  · cases h

end RRule
