/-
  Proofs/RRuleRange.lean — a whole range of days at once: for a rule without the three computed
  masks and without BYSETPOS, the results of a period whose day set is an index range are the
  dates of that range passing the calendar predicate, each expanded by the time set; and the
  specification's `sel` in the same shape.
-/
import DateutilVerif.Proofs.RRuleFilter
import DateutilVerif.Proofs.RRuleMonoCal
import DateutilVerif.Proofs.RRuleTimes
import DateutilVerif.Proofs.RRuleRefine

namespace RRule
open Cal

variable {r : Rule} {y : Int} {info : Info}

/-! ### a whole range of days -/

theorem filterDays_simple (hs : SimpleRule r) (f : YearFacts r y info) (hnw : info.nwdaymask = none) :
    ∀ (ds : List Int), (∀ i ∈ ds, 0 ≤ i ∧ i < info.yearlen + 7) →
    ∃ fl, filterDays r info ds = .ok (ds.filter (fun i => simpleOk r (info.yearordinal + i)), fl) := by
  intro ds
  induction ds with
  | nil => intro _; exact ⟨false, rfl⟩
  | cons i is ih =>
    intro hb
    obtain ⟨fl, hfl⟩ := ih (fun j hj => hb j (List.mem_cons_of_mem _ hj))
    have hi := hb i (List.mem_cons_self ..)
    unfold filterDays
    rw [dayFiltered_simple hs f hnw i hi.1 hi.2, hfl]
    dsimp only
    by_cases c : simpleOk r (info.yearordinal + i) = true
    · simp only [c, Bool.not_true, Bool.false_eq_true, ↓reduceIte, List.filter_cons_of_pos]
      exact ⟨fl, rfl⟩
    · have c' : simpleOk r (info.yearordinal + i) = false := by simpa using c
      simp only [c', Bool.not_false, ↓reduceIte]
      rw [List.filter_cons_of_neg (by simp [c'])]
      exact ⟨true, rfl⟩

theorem expandDays_ok (yo : Int) (ts : List HMS) : ∀ (days : List Int),
    (∀ i ∈ days, 1 ≤ yo + i ∧ yo + i ≤ maxOrdinal) →
    expandDays yo ts days = (days.flatMap (fun i => ts.map (mkInst (yo + i))), none) := by
  intro days
  induction days with
  | nil => intro _; rfl
  | cons i is ih =>
    intro hb
    have hi := hb i (List.mem_cons_self ..)
    unfold expandDays checkOrd
    rw [if_pos hi]
    dsimp only
    rw [ih (fun j hj => hb j (List.mem_cons_of_mem _ hj))]
    rfl

theorem intRange_shift (c a b : Int) : (intRange a b).map (fun i => c + i) = intRange (c + a) (c + b) := by
  unfold intRange
  rw [List.map_map]
  have : (c + b - (c + a)).toNat = (b - a).toNat := by omega
  rw [this]
  apply List.map_congr_left
  intro k _; simp only [Function.comp]; omega

/-- the results of a period whose day set is the index range `[i0, i1)` (no BYSETPOS) -/
theorem periodResults_range (hs : SimpleRule r) (st : State) (f : YearFacts r y st.info)
    (hnw : st.info.nwdaymask = none) (hsp : r.bysetpos = none) (i0 i1 : Int)
    (hds : dayset r st.info st.cur = .ok (intRange i0 i1)) (h0 : 0 ≤ i0) (h1 : i1 ≤ st.info.yearlen + 7)
    (hlo : 1 ≤ st.info.yearordinal + i0) (hhi : st.info.yearordinal + i1 ≤ maxOrdinal + 1) :
    ∃ fl, periodResults r st = .ok
      (((intRange (st.info.yearordinal + i0) (st.info.yearordinal + i1)).filter (simpleOk r)).flatMap
        (fun o => st.timeset.map (mkInst o)), none, fl) := by
  have hb : ∀ i ∈ intRange i0 i1, 0 ≤ i ∧ i < st.info.yearlen + 7 := by
    intro i hi; have := (mem_intRange _ _ _).mp hi; omega
  obtain ⟨fl, hfl⟩ := filterDays_simple hs f hnw (intRange i0 i1) hb
  refine ⟨fl, ?_⟩
  unfold periodResults
  rw [hds]; dsimp only
  rw [hfl]; dsimp only
  rw [hsp]
  simp only [truthy, Bool.false_and, Bool.false_eq_true, ↓reduceIte]
  rw [expandDays_ok _ _ _ (by
    intro i hi
    have := (mem_intRange _ _ _).mp (List.mem_filter.mp hi).1
    omega)]
  rw [← intRange_shift, List.filter_map, List.flatMap_map]
  rfl


/-- the specification's candidates of period `k` (no BYSETPOS), given the period's day span -/
theorem sel_span (a : Args) (hsp0 : a.bysetpos = none) (k : Nat) (lo hi : Int)
    (hsp : Spec.RRule.periodSpan a (k * a.interval) = (lo, hi, none, none, none)) :
    Spec.RRule.sel a (k : Int) =
      ((intRange lo hi).filter (Spec.RRule.dateOk a)).flatMap
        (fun o => (Spec.RRule.timesOf a none none none).map (mkInst o)) := by
  unfold Spec.RRule.sel Spec.RRule.selOf Spec.RRule.cand Spec.RRule.candAt
  rw [hsp0, hsp]
  rfl

theorem sel_bounds (ts : List HMS) (lo hi : Int) (p : Int → Bool) (x : Inst)
    (hx : x ∈ ((intRange lo hi).filter p).flatMap (fun o => ts.map (mkInst o))) : lo ≤ x.ord ∧ x.ord < hi := by
  simp only [List.mem_flatMap, List.mem_filter, List.mem_map] at hx
  obtain ⟨o, ⟨ho, _⟩, _, _, rfl⟩ := hx
  exact (mem_intRange _ _ _).mp ho

theorem year_end_le (y : Int) (hy : y ≤ 9999) : toOrdinal y 1 1 + daysInYear y ≤ maxOrdinal + 1 := by
  rw [← toOrdinal_next_year]
  have := year_start_mono (y + 1) 10000 (by omega)
  have e : toOrdinal 10000 1 1 = maxOrdinal + 1 := by decide
  omega

end RRule
