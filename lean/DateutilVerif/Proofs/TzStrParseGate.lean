/-
  Proofs/TzStrParseGate.lean — the gate conditions of `parseTokens` on the tokens of a spelling:
  no ";" to rewrite, exactly two ",", at most two "/", every token after the first "," allowed.
-/
import DateutilVerif.Proofs.TzStrParseAbbr

namespace TzStr

def TokOK (t : String) : Prop := (t == ",") = false ∧ (t == ";") = false

def RuleTokOK (t : String) : Prop :=
  TokOK t ∧ (inSet t [",", "/", "J", "M", ".", "-", ":"] || allCharsIn t "0123456789") = true

theorem dig_ruleTok (t : String) (h : IsDig t) : RuleTokOK t ∧ (t == "/") = false := by
  have hd := digTok_of t h
  exact ⟨⟨⟨hd.comma, hd.semi⟩, by simp [hd.allDig]⟩, hd.slash⟩

theorem num_ruleTok (n : Num) (h : n.Ok) : RuleTokOK n.tok ∧ (n.tok == "/") = false := dig_ruleTok _ (n.isDig h)

theorem lit_ruleTok : (RuleTokOK "M" ∧ ("M" == "/") = false) ∧ (RuleTokOK "J" ∧ ("J" == "/") = false) ∧
    (RuleTokOK "." ∧ ("." == "/") = false) ∧ (RuleTokOK ":" ∧ (":" == "/") = false) ∧ RuleTokOK "/" := by
  unfold RuleTokOK TokOK; decide

theorem off_toks_ok (o : Off) (h : o.sp.Ok) : ∀ t ∈ toksOf o.chunks, TokOK t := by
  obtain ⟨sign, sp⟩ := o
  have hsign : ∀ t ∈ toksOf (signChunks sign), TokOK t := by
    intro t ht
    cases sign with
    | none => simp [signChunks, toksOf] at ht
    | some b => cases b <;> (simp [signChunks, toksOf] at ht; subst ht; unfold TokOK; decide)
  have hsp : ∀ t ∈ toksOf sp.chunks, TokOK t := by
    intro t ht
    cases sp with
    | h n => simp [OffSp.chunks, numC, toksOf] at ht; subst ht; exact (num_ruleTok n h.1).1.1
    | hhmm t' a b => simp [OffSp.chunks, toksOf] at ht; subst ht; exact (dig_ruleTok _ h.1).1.1
    | colon a b =>
        simp [OffSp.chunks, numC, pC, toksOf] at ht
        rcases ht with e | e | e
        · subst e; exact (num_ruleTok a h.1).1.1
        · subst e; unfold TokOK; decide
        · subst e; exact (num_ruleTok b h.2.1).1.1
  intro t ht
  simp only [Off.chunks, toksOf_append, List.mem_append] at ht
  rcases ht with e | e
  · exact hsign t e
  · exact hsp t e

theorem rule_toks_ok (r : RuleSp) (h : r.Ok) : ∀ t ∈ toksOf r.chunks, RuleTokOK t ∧ (t == "/") = false := by
  intro t ht
  have L := lit_ruleTok
  cases r with
  | M m w d =>
      simp [RuleSp.chunks, numC, pC, toksOf] at ht
      rcases ht with e | e | e | e | e | e
      · subst e; exact L.1
      · subst e; exact num_ruleTok m h.1
      · subst e; exact L.2.2.1
      · subst e; exact num_ruleTok w h.2.1
      · subst e; exact L.2.2.1
      · subst e; exact num_ruleTok d h.2.2
  | J n =>
      simp [RuleSp.chunks, numC, toksOf] at ht
      rcases ht with e | e
      · subst e; exact L.2.1
      · subst e; exact num_ruleTok n h.1
  | N n =>
      simp [RuleSp.chunks, numC, toksOf] at ht
      subst ht; exact num_ruleTok n h.1

theorem body_toks_ok (t : TimeSp) (h : t.Ok) : ∀ x ∈ toksOf t.body, RuleTokOK x ∧ (x == "/") = false := by
  intro x hx
  have L := lit_ruleTok
  cases t with
  | h n => simp [TimeSp.body, numC, toksOf] at hx; subst hx; exact num_ruleTok n h.1
  | hhmm t' a b => simp [TimeSp.body, toksOf] at hx; subst hx; exact dig_ruleTok _ h.1
  | hm a b =>
      simp [TimeSp.body, numC, pC, toksOf] at hx
      rcases hx with e | e | e
      · subst e; exact num_ruleTok a h.1
      · subst e; exact L.2.2.2.1
      · subst e; exact num_ruleTok b h.2.1
  | hms a b c =>
      simp [TimeSp.body, numC, pC, toksOf] at hx
      rcases hx with e | e | e | e | e
      · subst e; exact num_ruleTok a h.1
      · subst e; exact L.2.2.2.1
      · subst e; exact num_ruleTok b h.2.1
      · subst e; exact L.2.2.2.1
      · subst e; exact num_ruleTok c h.2.2.1

theorem filter_nil_of {p : String → Bool} {l : List String} (h : ∀ t ∈ l, p t = false) : l.filter p = [] := by
  rw [List.filter_eq_nil_iff]; intro t ht; simp [h t ht]

theorem time_toks_ok (tm : Option TimeSp) (h : optOk TimeSp.Ok tm) :
    (∀ x ∈ toksOf (timeChunks tm), RuleTokOK x) ∧
    ((toksOf (timeChunks tm)).filter (· == "/")).length ≤ 1 := by
  cases tm with
  | none => simp [timeChunks, toksOf]
  | some t =>
      have hb := body_toks_ok t h
      refine ⟨?_, ?_⟩
      · intro x hx
        simp only [timeChunks, toksOf_cons, List.mem_cons] at hx
        rcases hx with e | e
        · subst e; exact lit_ruleTok.2.2.2.2
        · exact (hb x e).1
      · simp only [timeChunks, toksOf_cons]
        rw [List.filter_cons, filter_nil_of (fun x hx => (hb x hx).2)]
        split <;> simp

end TzStr
