/- Proofs/TzStrDefs.lean — definitions shared by the C08 string tables. -/
import DateutilVerif.Model.TzStr
import DateutilVerif.Spec.Posix

namespace C08
open TzStr Posix

/-- the `Attr` the parser produces for a rule with an explicit `/time` -/
def attrOf : Rule → Option Int → Attr
  | .M m w d, t => { month := some m, week := some (if w == 5 then -1 else w), weekday := some (Py.fmod (d - 1) 7), time := t }
  | .J n, t => { jyday := some n, time := t }
  | .N n, t => { yday := some (n + 1), time := t }


def parsesTo (s : String) (start : Attr) : Bool :=
  match parse s with
  | .ok (some r) => r.start == start && !r.anyUnused && r.stdabbr == some "AAA" && r.dstabbr == some "BBB" &&
                    r.stdoffset == some (-18000) && r.«end» == attrOf (.M 10 5 0) none
  | _ => false

end C08
