/-
  Proofs/Islice.lean — `itertools.islice` (as modelled from its documentation) agrees with
  Python slicing on the arguments `__getitem__` routes to it (C12), proved pointwise:
  the k-th element of either side is `xs[start + k*step]` while that index is below the stop.
-/
import DateutilVerif.Model.Queries
import DateutilVerif.Spec.Queries

namespace Queries
open Py

theorem filterMap_all_some {α β} {f : α → Option β} {g : α → β} (l : List α)
    (h : ∀ x ∈ l, f x = some (g x)) : l.filterMap f = l.map g := by
  induction l with
  | nil => rfl
  | cons a l ih =>
    rw [List.filterMap_cons, h a (by simp), List.map_cons, ih (fun x hx => h x (by simp [hx]))]

theorem cnt_lt_iff (d st : Int) (k : Nat) (hst : 1 ≤ st) :
    (k : Int) < (d + st - 1) / st ↔ (k : Int) * st < d := by
  have hpos : 0 < st := by omega
  constructor
  · intro h
    have h1 : (k : Int) + 1 ≤ (d + st - 1) / st := by omega
    have h2 := (Int.le_ediv_iff_mul_le hpos).mp h1
    rw [Int.add_mul] at h2
    omega
  · intro h
    have h2 : ((k : Int) + 1) * st ≤ d + st - 1 := by rw [Int.add_mul]; omega
    have := (Int.le_ediv_iff_mul_le hpos).mpr h2
    omega

theorem rangeList_getElem? (l : List Int) (s e st : Nat) (k : Nat) (hst : 1 ≤ st) (he : e ≤ l.length) :
    ((rangeList (s : Int) (e : Int) (st : Int)).filterMap (fun i => l[i.toNat]?))[k]? =
      if s + k * st < e then l[s + k * st]? else none := by
  unfold rangeList
  have hpos : (st : Int) > 0 := by omega
  rw [if_pos hpos]
  simp only []
  generalize hc : (if (s : Int) < e then (((e : Int) - s + st - 1) / st).toNat else 0) = cnt
  have hcnt : ∀ j : Nat, j < cnt ↔ s + j * st < e := by
    intro j
    subst hc
    by_cases hlt : (s : Int) < e
    · rw [if_pos hlt]
      have := cnt_lt_iff ((e : Int) - s) st j (by omega)
      have e1 : ((j : Int) * (st : Int)) = ((j * st : Nat) : Int) := by push_cast; rfl
      rw [e1] at this
      constructor
      · intro h; have := this.mp (by omega); omega
      · intro h; have := this.mpr (by omega); omega
    · rw [if_neg hlt]
      have : e ≤ s := by omega
      have : e ≤ s + j * st := Nat.le_trans this (Nat.le_add_right _ _)
      omega
  rw [List.filterMap_map]
  rw [filterMap_all_some (g := fun j => l.getD (s + j * st) 0)]
  · rw [List.getElem?_map]
    by_cases hk : k < cnt
    · rw [List.getElem?_range hk, if_pos ((hcnt k).mp hk)]
      have : s + k * st < l.length := by have := (hcnt k).mp hk; omega
      simp [List.getD_eq_getElem?_getD, List.getElem?_eq_getElem this]
    · rw [List.getElem?_eq_none (by simpa using hk), if_neg (fun h => hk ((hcnt k).mpr h))]
      rfl
  · intro j hj
    have hj' : j < cnt := by simpa using hj
    have hlt : s + j * st < l.length := by have := (hcnt j).mp hj'; omega
    have e1 : ((s : Int) + (j : Int) * (st : Int)).toNat = s + j * st := by
      have : ((s : Int) + (j : Int) * (st : Int)) = ((s + j * st : Nat) : Int) := by push_cast; rfl
      rw [this, Int.toNat_natCast]
    simp only [Function.comp]
    rw [e1, List.getD_eq_getElem?_getD, List.getElem?_eq_getElem hlt]
    rfl

def allows (stop : Option Nat) (m : Nat) : Prop := match stop with | some s => m < s | none => True
instance (stop m) : Decidable (allows stop m) := by unfold allows; cases stop <;> infer_instance

theorem isliceGo_getElem? (stop : Option Nat) (step : Nat) (hstep : 1 ≤ step) (xs : List Int) :
    ∀ (cnt nexti k : Nat), cnt ≤ nexti →
      (isliceGo stop step xs cnt nexti)[k]? =
        if allows stop (nexti + k * step) then xs[nexti + k * step - cnt]? else none := by
  induction xs with
  | nil => intro cnt nexti k _; simp [isliceGo]
  | cons x xs ih =>
    intro cnt nexti k hle
    unfold isliceGo
    by_cases h1 : cnt < nexti
    · rw [if_pos h1, ih (cnt + 1) nexti k (by omega)]
      have : nexti + k * step - cnt = (nexti + k * step - (cnt + 1)) + 1 := by omega
      rw [this, List.getElem?_cons_succ]
    · rw [if_neg h1]
      have hcn : cnt = nexti := by omega
      subst hcn
      cases stop with
      | some s =>
        simp only []
        by_cases h2 : s ≤ cnt
        · have : ¬ allows (some s) (cnt + k * step) := by
            unfold allows; simp only []; omega
          simp [h2, this]
        · simp only [h2, decide_false, Bool.false_eq_true, ↓reduceIte]
          cases k with
          | zero =>
            have : allows (some s) cnt := by unfold allows; simp only []; omega
            simp [this]
          | succ k =>
            rw [List.getElem?_cons_succ, ih (cnt + 1) (cnt + step) k (by omega)]
            have e1 : cnt + (k + 1) * step = cnt + step + k * step := by rw [Nat.succ_mul]; omega
            have e2 : cnt + step + k * step - cnt = (cnt + step + k * step - (cnt + 1)) + 1 := by omega
            rw [e1, e2, List.getElem?_cons_succ]
      | none =>
        simp only [Bool.false_eq_true, ↓reduceIte]
        cases k with
        | zero => simp [allows]
        | succ k =>
          rw [List.getElem?_cons_succ, ih (cnt + 1) (cnt + step) k (by omega)]
          have e1 : cnt + (k + 1) * step = cnt + step + k * step := by rw [Nat.succ_mul]; omega
          have e2 : cnt + step + k * step - cnt = (cnt + step + k * step - (cnt + 1)) + 1 := by omega
          rw [e1, e2, List.getElem?_cons_succ]

def stopN (bN : Option Nat) (n : Nat) : Nat := match bN with | none => n | some b => min b n

theorem islice_core (xs : List Int) (a' : Nat) (bN : Option Nat) (step : Nat) (hstep : 1 ≤ step) :
    isliceGo bN step xs 0 a' =
      (rangeList ((min a' xs.length : Nat) : Int) ((stopN bN xs.length : Nat) : Int) (step : Int)).filterMap
        (fun i => xs[i.toNat]?) := by
  apply List.ext_getElem?
  intro k
  have he : stopN bN xs.length ≤ xs.length := by unfold stopN; cases bN <;> simp <;> omega
  rw [isliceGo_getElem? bN step hstep xs 0 a' k (by omega), rangeList_getElem? xs _ _ step k hstep he]
  simp only [Nat.sub_zero]
  by_cases hlt : a' + k * step < xs.length
  · have hm : min a' xs.length = a' := by
      have : a' ≤ a' + k * step := Nat.le_add_right _ _
      omega
    rw [hm]
    cases bN with
    | none => simp [allows, stopN, hlt]
    | some b =>
      simp only [allows, stopN]
      by_cases hb : a' + k * step < b
      · have : a' + k * step < min b xs.length := by omega
        simp [hb, this]
      · have : ¬ a' + k * step < min b xs.length := by omega
        simp [hb, this]
  · have hn : xs[a' + k * step]? = none := List.getElem?_eq_none (by omega)
    rw [hn]
    have : ¬ (min a' xs.length + k * step < stopN bN xs.length) := by
      intro h
      by_cases ha : a' ≤ xs.length
      · have : min a' xs.length = a' := by omega
        omega
      · have : min a' xs.length = xs.length := by omega
        have : xs.length ≤ xs.length + k * step := Nat.le_add_right _ _
        omega
    simp [this]

theorem optLt_false {o : Option Int} {k : Int} (h : optLt o k = false) (d : Int) (hd : k ≤ d) : k ≤ o.getD d := by
  cases o with
  | none => simpa using hd
  | some v => simp [optLt] at h ⊢; omega

theorem sliceIndices_nonneg (a b c : Option Int) (n : Nat)
    (ha : optLt a 0 = false) (hb : optLt b 0 = false) (hc : optLt c 1 = false) :
    sliceIndices a b c n =
      .ok (((min (a.getD 0).toNat n : Nat) : Int), ((stopN (b.map Int.toNat) n : Nat) : Int),
           (((c.getD 1).toNat : Nat) : Int)) := by
  have hstep : 1 ≤ c.getD 1 := optLt_false hc 1 (by omega)
  unfold sliceIndices
  have hne : ((c.getD 1) == 0) = false := by
    rw [beq_eq_false_iff_ne]; omega
  have hnl : ¬ (c.getD 1 < 0) := by omega
  simp only [hne, Bool.false_eq_true, ↓reduceIte, hnl]
  have e3 : (((c.getD 1).toNat : Nat) : Int) = c.getD 1 := by omega
  rw [e3]
  have cl : ∀ v : Int, ¬ v < 0 → (if v > (n : Int) then (n : Int) else v) = ((min v.toNat n : Nat) : Int) := by
    intro v hv; split <;> omega
  cases a with
  | none =>
    cases b with
    | none => simp [stopN]
    | some w =>
      have hw : ¬ w < 0 := by simpa [optLt] using hb
      simp [stopN, hw, cl]
  | some v =>
    have hv : ¬ v < 0 := by simpa [optLt] using ha
    cases b with
    | none => simp [stopN, hv, cl]
    | some w =>
      have hw : ¬ w < 0 := by simpa [optLt] using hb
      simp [stopN, hv, hw, cl]

theorem islice_eq_slice (xs : List Int) (a b c : Option Int) (h : sliceListPath a b c = false)
    (hbig : (optGt a maxsize || optGt b maxsize || optGt c maxsize) = false) :
    islice xs a b c = Py.slice xs a b c := by
  unfold sliceListPath at h
  simp only [Bool.or_eq_false_iff] at h
  obtain ⟨⟨hc, ha⟩, hb⟩ := h
  have hstep : 1 ≤ c.getD 1 := optLt_false hc 1 (by omega)
  unfold islice
  rw [ha, hb, hc, hbig]
  simp only [Bool.or_self, Bool.false_eq_true, ↓reduceIte]
  unfold Py.slice
  rw [sliceIndices_nonneg a b c xs.length ha hb hc, islice_core xs _ _ _ (by omega)]
  rfl

/-- `list(itertools.islice(L, k)) = L[:k]` -/
theorem islice_take (L : List Int) (k : Nat) (hk : (k : Int) ≤ maxsize) :
    islice L none (some (k : Int)) none = .ok (L.take k) := by
  unfold islice
  have h1 : optLt none 0 = false := rfl
  have h2 : optLt (some (k : Int)) 0 = false := by simp [optLt]
  have h3 : optLt none 1 = false := rfl
  have h4 : (optGt none maxsize || optGt (some (k : Int)) maxsize || optGt none maxsize) = false := by
    simp [optGt]; omega
  rw [h1, h2, h3, h4]
  simp only [Bool.or_self, Bool.false_eq_true, ↓reduceIte]
  congr 1
  apply List.ext_getElem?
  intro j
  rw [isliceGo_getElem? _ _ (by decide) L 0 _ j (by omega)]
  have e0 : ((none : Option Int).getD 0).toNat = 0 := rfl
  have e1 : ((none : Option Int).getD 1).toNat = 1 := rfl
  rw [e0, e1]
  simp only [allows, Option.map_some, Int.toNat_natCast, Nat.mul_one, Nat.sub_zero, Nat.zero_add,
    List.getElem?_take]

theorem rangeList_bigstep (s e st : Int) (hpos : 0 < st) (hbig : e - s ≤ st) :
    rangeList s e st = if s < e then [s] else [] := by
  unfold rangeList
  rw [if_pos hpos]
  by_cases hlt : s < e
  · simp only [hlt, ↓reduceIte]
    have h1 : 1 ≤ (e - s + st - 1) / st := (Int.le_ediv_iff_mul_le hpos).mpr (by omega)
    have h2 : (e - s + st - 1) / st < 2 := (Int.ediv_lt_iff_lt_mul hpos).mpr (by omega)
    have : ((e - s + st - 1) / st).toNat = 1 := by omega
    rw [this]; simp
  · simp [hlt]

theorem optGt_clamp (o : Option Int) : optGt (clampMax o) maxsize = false := by
  cases o with
  | none => rfl
  | some v => simp only [clampMax, Option.map_some, optGt]; split <;> simp <;> omega

theorem optLt_clamp (o : Option Int) (k : Int) (hk : k ≤ maxsize) : optLt (clampMax o) k = optLt o k := by
  cases o with
  | none => rfl
  | some v =>
    simp only [clampMax, Option.map_some, optLt]
    split
    · rename_i h; simp; constructor <;> intro <;> omega
    · rfl

theorem sliceListPath_clamp (a b c : Option Int) :
    sliceListPath (clampMax a) (clampMax b) (clampMax c) = sliceListPath a b c := by
  unfold sliceListPath
  rw [optLt_clamp c 1 (by decide), optLt_clamp a 0 (by decide), optLt_clamp b 0 (by decide)]

theorem clampMax_id (o : Option Int) (h : optGt o maxsize = false) : clampMax o = o := by
  cases o with
  | none => rfl
  | some v =>
    simp only [optGt, decide_eq_false_iff_not] at h
    simp [clampMax, h]


theorem getD_clamp (o : Option Int) (d : Int) (hd : d ≤ maxsize) :
    (clampMax o).getD d = if o.getD d > maxsize then maxsize else o.getD d := by
  cases o with
  | none => simp only [clampMax, Option.map_none, Option.getD_none]; rw [if_neg (by omega)]
  | some v => simp [clampMax]

theorem stopN_clamp (b : Option Int) (n : Nat) (hb : optLt b 0 = false) (hn : (n : Int) ≤ maxsize) :
    stopN ((clampMax b).map Int.toNat) n = stopN (b.map Int.toNat) n := by
  cases b with
  | none => rfl
  | some v =>
    have hv : ¬ v < 0 := by simpa [optLt] using hb
    simp only [clampMax, Option.map_some, stopN]
    unfold maxsize at *
    split <;> omega

/-- clamping the bounds to `sys.maxsize` does not change a slice of a sequence no longer than `sys.maxsize` -/
theorem slice_clamp (L : List Int) (a b c : Option Int) (hp : sliceListPath a b c = false)
    (hlen : (L.length : Int) ≤ maxsize) :
    Py.slice L (clampMax a) (clampMax b) (clampMax c) = Py.slice L a b c := by
  unfold sliceListPath at hp
  simp only [Bool.or_eq_false_iff] at hp
  obtain ⟨⟨hc, ha⟩, hb⟩ := hp
  have hc' := (optLt_clamp c 1 (by decide)).trans hc
  have ha' := (optLt_clamp a 0 (by decide)).trans ha
  have hb' := (optLt_clamp b 0 (by decide)).trans hb
  have hstep : 1 ≤ c.getD 1 := optLt_false hc 1 (by omega)
  have ha0 : 0 ≤ a.getD 0 := optLt_false ha 0 (by omega)
  unfold Py.slice
  rw [sliceIndices_nonneg _ _ _ L.length ha' hb' hc', sliceIndices_nonneg a b c L.length ha hb hc]
  rw [stopN_clamp b L.length hb hlen, getD_clamp a 0 (by decide), getD_clamp c 1 (by decide)]
  have e1 : min (if a.getD 0 > maxsize then maxsize else a.getD 0).toNat L.length = min (a.getD 0).toNat L.length := by
    unfold maxsize at *
    split <;> omega
  rw [e1]
  by_cases hbig : c.getD 1 > maxsize
  · rw [if_pos hbig]
    show Except.ok _ = Except.ok _
    congr 2
    have hs : ((stopN (b.map Int.toNat) L.length : Nat) : Int) ≤ L.length := by
      unfold stopN; cases b.map Int.toNat <;> simp <;> omega
    have e3 : ((maxsize.toNat : Nat) : Int) = maxsize := by decide
    have e4 : (((c.getD 1).toNat : Nat) : Int) = c.getD 1 := by omega
    rw [e3, e4, rangeList_bigstep _ _ maxsize (by decide) (by omega), rangeList_bigstep _ _ (c.getD 1) (by omega) (by omega)]
  · rw [if_neg hbig]


/-- **`rule[a:b:c]` on the generator path is `L[a:b:c]`**: list path by definition, islice path through the clamp -/
theorem gen_slice_eq (L : List Int) (a b c : Option Int) (h : fits (.slice a b c) L) :
    gen (.slice a b c) L = .ofRL (Py.slice L a b c) := by
  simp only [gen]
  cases hp : sliceListPath a b c with
  | true => simp
  | false =>
    simp only [Bool.false_eq_true, ↓reduceIte]
    rw [islice_eq_slice L _ _ _ ((sliceListPath_clamp a b c).trans hp)
      (by rw [optGt_clamp, optGt_clamp, optGt_clamp]; rfl)]
    rcases h with hs | hlen
    · simp only [small, hp, Bool.false_or, Bool.not_eq_true', Bool.or_eq_false_iff] at hs
      rw [clampMax_id a hs.1.1, clampMax_id b hs.1.2, clampMax_id c hs.2]
    · rw [slice_clamp L a b c hp hlen]

end Queries
