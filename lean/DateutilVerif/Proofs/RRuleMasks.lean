/-
  Proofs/RRuleMasks.lean — what `_iterinfo.rebuild` computes, in calendar terms: for the year `y`
  of the cursor, mask index `i` stands for the date with ordinal `toOrdinal y 1 1 + i`, and the
  month / month-day / negative month-day / weekday masks hold that date's month, day, day counted
  from the month's end, and weekday — for every index of the year and of the 7-day tail.
-/
import DateutilVerif.Proofs.RRuleTables
import DateutilVerif.Model.RRule
import DateutilVerif.Proofs.Calendar

namespace RRule
open Cal RRule.Tables

/-- the date at offset `i` from 1 January of year `y`, inside the year -/
theorem date_of_yday (y i : Int) (hy : 1 ≤ y) (h0 : 0 ≤ i) (h1 : i < daysInYear y) :
    fromOrdinal (toOrdinal y 1 1 + i) =
      (y, monthOfYday (isLeap y) i, (monthDayOfYday (isLeap y) i).2) := by
  have h := monthDay_spec y i h0 h1
  have e : toOrdinal y 1 1 + i =
      toOrdinal y (monthDayOfYday (isLeap y) i).1 (monthDayOfYday (isLeap y) i).2 := by
    unfold toOrdinal; rw [daysBeforeMonth_1]; omega
  rw [e, fromOrdinal_toOrdinal y _ _ hy h.2]
  rfl

theorem toOrdinal_next_year (y : Int) : toOrdinal (y + 1) 1 1 = toOrdinal y 1 1 + daysInYear y := by
  unfold toOrdinal; rw [daysBeforeYear_succ, daysBeforeMonth_1, daysBeforeMonth_1]; omega

theorem daysInYear_eq_ylen (y : Int) : daysInYear y = ylen (isLeap y) := by
  unfold daysInYear ylen; rfl

/-- the date at offset `i` from 1 January of year `y`, including the 7-day tail in year `y+1` -/
theorem date_of_index (y i : Int) (hy : 1 ≤ y) (h0 : 0 ≤ i) (h1 : i < daysInYear y + 7) :
    fromOrdinal (toOrdinal y 1 1 + i) =
      (if i < daysInYear y then (y, monthAt (isLeap y) i, mdayAt (isLeap y) i)
       else (y + 1, 1, i - daysInYear y + 1)) := by
  by_cases c : i < daysInYear y
  · rw [if_pos c, date_of_yday y i hy h0 c]
    have c' : i < ylen (isLeap y) := by rw [← daysInYear_eq_ylen]; exact c
    simp only [monthAt, mdayAt, if_pos c']
  · rw [if_neg c]
    have e : toOrdinal y 1 1 + i = toOrdinal (y + 1) 1 1 + (i - daysInYear y) := by
      rw [toOrdinal_next_year]; omega
    have hlt : i - daysInYear y < daysInYear (y + 1) := by
      have : 365 ≤ daysInYear (y + 1) := by unfold daysInYear; split <;> omega
      omega
    rw [e, date_of_yday (y + 1) (i - daysInYear y) (by omega) (by omega) hlt]
    have h7 : i - daysInYear y < 7 := by omega
    have hm : monthOfYday (isLeap (y + 1)) (i - daysInYear y) = 1 := by
      unfold monthOfYday; simp only []; rw [if_pos (by omega)]
    simp only [monthDayOfYday, hm]
    simp [dbmTable]

/-- the facts `rebuild` establishes about the year -/
structure YearFacts (r : Rule) (y : Int) (info : Info) : Prop where
  yearlen : info.yearlen = daysInYear y
  nextyearlen : info.nextyearlen = daysInYear (y + 1)
  yearordinal : info.yearordinal = toOrdinal y 1 1
  yearweekday : info.yearweekday = weekdayOfOrd (toOrdinal y 1 1)
  mmask : info.mmask = mmaskOf (isLeap y)
  mdaymask : info.mdaymask = mdaymaskOf (isLeap y)
  nmdaymask : info.nmdaymask = nmdaymaskOf (isLeap y)
  mrange : info.mrange = mrangeOf (isLeap y)
  wdaymask : info.wdaymask = Gen.WDAYMASK.drop (weekdayOfOrd (toOrdinal y 1 1)).toNat
  year_lo : 1 ≤ y
  year_hi : y ≤ 9999

theorem rebuild_facts (r : Rule) (y m : Int) (info : Info) (h : rebuild r y m = .ok info) :
    YearFacts r y info := by
  unfold rebuild at h
  split at h
  · cases h
  · rename_i hyr
    split at h
    · cases h
    · split at h
      · cases h
      · split at h
        · cases h
        · injection h with h
          subst h
          constructor <;> first
            | (simp only [baseInfo, daysInYear]; done)
            | (simp only [baseInfo, mmaskOf, mdaymaskOf, nmdaymaskOf, mrangeOf]; done)
            | rfl
            | omega

/-! ### the four table-backed masks in calendar terms -/

theorem getIdx_drop {α} (l : List α) (k : Nat) (i : Int) (h0 : 0 ≤ i) (h1 : i + k < l.length) :
    Py.getIdx (l.drop k) i = Py.getIdx l (i + k) := by
  unfold Py.getIdx
  have e1 : ((l.drop k).length : Int) = (l.length : Int) - k := by
    rw [List.length_drop]; omega
  simp only [e1]
  rw [if_neg (by omega), if_neg (by omega), if_neg (by omega), if_neg (by omega)]
  rw [List.getElem?_drop]
  have : (i + (k : Int)).toNat = k + i.toNat := by omega
  rw [this]

variable {r : Rule} {y : Int} {info : Info}

/-- `mmask[i]` is the month of the date at index `i` (year and 7-day tail) -/
theorem mmask_date (f : YearFacts r y info) (i : Int) (h0 : 0 ≤ i) (h1 : i < info.yearlen + 7) :
    Py.getIdx info.mmask i = .ok (fromOrdinal (info.yearordinal + i)).2.1 := by
  rw [f.yearlen] at h1
  rw [f.mmask, f.yearordinal, date_of_index y i f.year_lo h0 h1,
      mmask_spec _ i h0 (by rw [← daysInYear_eq_ylen]; exact h1)]
  unfold monthAt; rw [← daysInYear_eq_ylen]
  split <;> rfl

/-- `mdaymask[i]` is the day of the month of the date at index `i` -/
theorem mdaymask_date (f : YearFacts r y info) (i : Int) (h0 : 0 ≤ i) (h1 : i < info.yearlen + 7) :
    Py.getIdx info.mdaymask i = .ok (fromOrdinal (info.yearordinal + i)).2.2 := by
  rw [f.yearlen] at h1
  rw [f.mdaymask, f.yearordinal, date_of_index y i f.year_lo h0 h1,
      mdaymask_spec _ i h0 (by rw [← daysInYear_eq_ylen]; exact h1)]
  unfold mdayAt; rw [← daysInYear_eq_ylen]
  split <;> rfl

/-- `nmdaymask[i]` is the day counted from the end of its month (−1 = last day) -/
theorem nmdaymask_date (f : YearFacts r y info) (i : Int) (h0 : 0 ≤ i) (h1 : i < info.yearlen + 7) :
    Py.getIdx info.nmdaymask i =
      .ok ((fromOrdinal (info.yearordinal + i)).2.2 -
           daysInMonth (fromOrdinal (info.yearordinal + i)).1 (fromOrdinal (info.yearordinal + i)).2.1 - 1) := by
  rw [f.yearlen] at h1
  rw [f.nmdaymask, f.yearordinal, date_of_index y i f.year_lo h0 h1,
      nmdaymask_spec _ i h0 (by rw [← daysInYear_eq_ylen]; exact h1)]
  unfold nmdayAt; rw [← daysInYear_eq_ylen]
  split
  · simp only [daysInMonth_eq_dimL, mdayAt, monthAt, ← daysInYear_eq_ylen]
    rename_i hc; rw [if_pos hc, if_pos hc]
  · simp [daysInMonth]

/-- `wdaymask[i]` is the weekday of the date at index `i` -/
theorem wdaymask_date (f : YearFacts r y info) (i : Int) (h0 : 0 ≤ i) (h1 : i < 379) :
    Py.getIdx info.wdaymask i = .ok (weekdayOfOrd (info.yearordinal + i)) := by
  have hw := weekdayOfOrd_range (toOrdinal y 1 1)
  rw [f.wdaymask, f.yearordinal, getIdx_drop _ _ i h0 (by rw [lengths.2.2.2.2.2.2.1]; omega)]
  have e : ((weekdayOfOrd (toOrdinal y 1 1)).toNat : Int) = weekdayOfOrd (toOrdinal y 1 1) := by omega
  rw [e, wdaymask_spec _ (by omega) (by omega), weekdayOfOrd_add]
  congr 1; omega

end RRule
