/-
  Proofs/ParserGenNaive.lean — `parser._build_naive` re-translated from /repo's parser/_parser.py
  (Generated/ParserOps.lean: `Gen.P.buildNaive`) = `PM.buildNaive` (Model/Parser.lean): the `repl` dict built by the loop
  over the seven field names, the month-end clipping of the default's day, `default.replace(**repl)` and the bare-weekday
  shift.  `default.replace` (C-int conversion, field validation) and `naive + relativedelta(weekday=k)` are the named
  primitives `PM.dtReplace` / `PM.weekdayShift` on both sides.
-/
import DateutilVerif.Proofs.ParserGenSmall

namespace PGen
open PM Py
set_option linter.unusedSimpArgs false

theorem bind_assoc' {α β γ : Type} (x : R α) (f : α → R β) (g : β → R γ) :
    Except.bind (Except.bind x f) g = Except.bind x (fun a => Except.bind (f a) g) := by cases x <;> rfl

theorem natOfInt_dim (y m n : Int) (h : PM.monthrange y m = .ok n) : PPy.natOfInt n = .ok n.toNat :=
  natOfInt_toNat n (monthrange_nonneg h)

/-- `parser._build_naive` as written now = `PM.buildNaive` -/
theorem buildNaive_eq (info : Info) (res : Res) (dflt : DT) : Gen.P.buildNaive info res dflt = PM.buildNaive res dflt := by
  unfold Gen.P.buildNaive PM.buildNaive PM.clipDay PM.shiftBareWeekday
  rcases res with ⟨y, mo, d, wd, h, mi, s, us, tzn, tzo, ap, cs⟩
  cases h <;> cases mi <;> cases s <;> cases us <;> cases wd <;> cases d <;> cases y <;> cases mo <;>
    simp [bind_ok, bind_err, bind_eq, pure_eq, map_eq, PPy.optNat, PPy.truthyOptNat, PM.fieldOr, bind_ok_id, bind_assoc']
  all_goals
    generalize hmr : PM.monthrange _ _ = mr
    cases mr with
    | error e => first | rfl | simp [bind_err, bind_ok_id]
    | ok n =>
      have hn := natOfInt_dim _ _ _ hmr
      by_cases hd : n < dflt.d <;> simp [bind_ok, hn, hd, bind_ok_id, bind_assoc']


end PGen
