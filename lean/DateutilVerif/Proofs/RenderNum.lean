/-
  Proofs/RenderNum.lean — all-numeric dates `MM/DD/YYYY`, `DD/MM/YYYY` (dayfirst), `YYYY/MM/DD`, and their
  two-digit-year forms through `convertyear` (family 7 of C02).
-/
import DateutilVerif.Proofs.RenderMon

namespace PM
open Py PT

def numTokens (f : NumFmt) (y m d : Nat) : List Token :=
  let Y4 := y4 y; let Y2 := dtok [(y % 100) / 10, y % 100]; let M := dtok [m / 10, m]; let D := dtok [d / 10, d]
  match f with
  | .us => [M, ['/'], D, ['/'], Y4]
  | .eu => [D, ['/'], M, ['/'], Y4]
  | .yf => [Y4, ['/'], M, ['/'], D]
  | .us2 => [M, ['/'], D, ['/'], Y2]
  | .eu2 => [D, ['/'], M, ['/'], Y2]
  | .yf2 => [Y2, ['/'], M, ['/'], D]

/-- the flags each format is unambiguous under -/
def numFlagsOk (f : NumFmt) (dayfirst yearfirst : Bool) : Prop :=
  match f with
  | .us => dayfirst = false ∧ yearfirst = false
  | .eu => dayfirst = true ∧ yearfirst = false
  | .yf => dayfirst = false
  | .us2 => dayfirst = false ∧ yearfirst = false
  | .eu2 => dayfirst = true ∧ yearfirst = false
  | .yf2 => dayfirst = false ∧ yearfirst = true

set_option maxHeartbeats 4000000 in
theorem tok_num (cls : Char → CClass) [AsciiOK cls] (yfi : Bool) (year century : Int) (o : Opts) (tznames : List Token)
    (tzi : TzInfos) (hfz : o.fuzzy = false) (hfwt : o.fuzzyWithTokens = false) (htz1 : tzi.applies none = false)
    (dflt : DT) (f : NumFmt) (y m d h mi s us : Nat)
    (hflags : numFlagsOk f (o.dayfirst.getD false) (o.yearfirst.getD yfi))
    (hv : (DT.mk y m d h mi s us).Valid)
    (hyy : f.twoDigit = true → Gen.convertyear ⟨century, year⟩ ((y % 100 : Nat) : Int) false = .ok (y : Int))
    (hexp : dflt.hh = h ∧ dflt.mm = mi ∧ dflt.ss = s ∧ dflt.us = us) :
    parseResult cls (Info.default false yfi year century) o tznames tzi dflt (numTokens f y m d) =
      .ok { dt := DT.mk y m d h mi s us, tz := .naive, tokens := none } := by
  obtain ⟨⟨hy1, hy2, hm1, hm2, hd1, hd2⟩, hh1, hh2, hmi1, hmi2, hs1, hs2, hu1, hu2⟩ := hv
  dsimp only at *
  have hdim := (Cal.daysInMonth_bounds (y : Int) (m : Int)).2
  obtain ⟨e1, e2, e3, e4⟩ := hexp
  have hvalid : (DT.mk (y : Int) m d h mi s us).valid = true := by
    unfold DT.valid
    exact decide_eq_true ⟨⟨hy1, hy2, hm1, hm2, hd1, hd2⟩, hh1, hh2, hmi1, hmi2, hs1, hs2, hu1, hu2⟩
  mon_prep
  have m12 : ¬ 12 < m := by omega
  have m12' : m ≤ 12 := by omega
  have d31' : d ≤ 31 := by omega
  have byy : y % 100 < 100 := Nat.mod_lt _ (by omega)
  have yy31a : ∀ (h : 31 < y % 100), True := fun _ => trivial
  cases f <;> simp only [numFlagsOk] at hflags
  · obtain ⟨fd, fy⟩ := hflags
    psimpa [numTokens, y4]
  · obtain ⟨fd, fy⟩ := hflags
    psimpa [numTokens, y4]
  · psimpa [numTokens, y4]
  · obtain ⟨fd, fy⟩ := hflags
    have hc := hyy rfl
    have hc' : Gen.convertyear ⟨century, year⟩ ((y : Int) % 100) false = .ok (y : Int) := by simpa using hc
    psimpa [numTokens]
  · obtain ⟨fd, fy⟩ := hflags
    have hc := hyy rfl
    have hc' : Gen.convertyear ⟨century, year⟩ ((y : Int) % 100) false = .ok (y : Int) := by simpa using hc
    psimpa [numTokens]
  · obtain ⟨fd, fy⟩ := hflags
    have hc := hyy rfl
    have hc' : Gen.convertyear ⟨century, year⟩ ((y : Int) % 100) false = .ok (y : Int) := by simpa using hc
    psimpa [numTokens]

section
variable (cls : Char → CClass) [AsciiOK cls]

theorem lex_num3 (A B C : List Nat) (a b c : Nat) :
    lex cls (dtok (a :: A) ++ ['/'] ++ dtok (b :: B) ++ ['/'] ++ dtok (c :: C)) =
      [dtok (a :: A), ['/'], dtok (b :: B), ['/'], dtok (c :: C)] := by
  unfold lex
  have e : dtok (c :: C) = dtok (c :: C) ++ [] := by simp
  simp only [List.append_assoc, List.singleton_append, List.cons_append, List.nil_append]
  rw [lex_dtok cls _ _ _ (numEnds_ascii cls _ _ (by decide)), lex_punct cls '/' _ (by decide),
      lex_dtok cls _ _ _ (numEnds_ascii cls _ _ (by decide)), lex_punct cls '/' _ (by decide), e,
      lex_dtok cls _ _ [] (numEnds_nil cls)]
  simp [scan_init_nil]

theorem lex_renderNum (f : NumFmt) (t : DT) : lex cls (renderNum f t) = numTokens f t.y.toNat t.m.toNat t.d.toNat := by
  cases f <;> simp only [renderNum, numTokens, y4, pad2_dtok, pad4_dtok] <;> exact lex_num3 cls _ _ _ _ _ _

end
end PM
