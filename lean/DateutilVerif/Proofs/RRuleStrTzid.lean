/-
  Proofs/RRuleStrTzid.lean — the TZID pre-scan (`re.findall('TZID=(?P<name>[^:;]+)[:;]', text, re.IGNORECASE)`), the name
  table and the parameter loop of `_parse_date_value`: the name handed to the `tzids` lookup is the parameter value as
  written, whatever the letter case of `TZID` / of the name and wherever the parameter stands.
-/
import DateutilVerif.Proofs.RRuleStrText
import DateutilVerif.Proofs.RRuleStrGen

namespace RRuleStr
open ICal (upper)
open StrPy

/-! ### `findall`: fuel is irrelevant, skipping and matching -/

theorem findallAux_fuel (ic : Bool) (items : List ReItem) : ∀ (n : Nat) (s : Str), s.length < n → ∀ m, s.length < m →
    findallAux ic items n s = findallAux ic items m s := by
  intro n
  induction n with
  | zero => intro s h; omega
  | succ n ih =>
    intro s hn m hm
    obtain ⟨m', rfl⟩ : ∃ m', m = m' + 1 := ⟨m - 1, by omega⟩
    cases s with
    | nil => simp [findallAux]
    | cons c r =>
      have hr : r.length < n := by simp at hn; omega
      have hr' : r.length < m' := by simp at hm; omega
      unfold findallAux
      split
      · rename_i g rest _
        by_cases hl : rest.length < (c :: r).length
        · have h1 : rest.length < n := by simp at hl; omega
          have h2 : rest.length < m' := by simp at hl; omega
          simp only [hl, if_true, ih rest h1 m' h2]
        · simp only [hl, if_false, ih r hr m' hr']
      · exact ih r hr m' hr'

theorem findall_skip {ic : Bool} {items : List ReItem} {c : Char} {r : Str} (h : matchItems ic items (c :: r) = none) :
    findall ic items (c :: r) = findall ic items r := by
  unfold findall
  conv => lhs; unfold findallAux
  simp only [h, List.length_cons]

theorem findall_match {ic : Bool} {items : List ReItem} {c : Char} {r g rest : Str}
    (h : matchItems ic items (c :: r) = some (some g, rest)) (hl : rest.length < (c :: r).length) :
    findall ic items (c :: r) = g :: findall ic items rest := by
  unfold findall
  conv => lhs; unfold findallAux
  have hl' : rest.length < r.length + 1 := by simpa using hl
  simp only [h, List.length_cons, hl', if_true]
  rw [findallAux_fuel ic items (r.length + 1) rest hl' (rest.length + 1) (by omega)]

/-! ### the TZID pattern at a match -/

theorem up_eq_upperChar (c : Char) : up c = upperChar c := rfl

theorem up_eq_colon (c : Char) : up c = ':' ↔ c = ':' := by
  rw [up_eq_upperChar, char_eq_iff, upperChar_toNat, char_eq_iff]
  have : (':' : Char).toNat = 58 := by decide
  rw [this]; split <;> omega

theorem up_eq_semi (c : Char) : up c = ';' ↔ c = ';' := by
  rw [up_eq_upperChar, char_eq_iff, upperChar_toNat, char_eq_iff]
  have : (';' : Char).toNat = 59 := by decide
  rw [this]; split <;> omega

/-- the character class `[^:;]` under IGNORECASE -/
def nameChar (x : Char) : Bool := !([':', ';'].any (eqc true x))

theorem nameChar_iff (x : Char) : nameChar x = true ↔ (x ≠ ':' ∧ x ≠ ';') := by
  have h1 : up ':' = ':' := by decide
  have h2 : up ';' = ';' := by decide
  simp [nameChar, eqc, h1, h2, up_eq_colon, up_eq_semi]

theorem takeWhile_name (name post : List Char) (d : Char) (hname : ∀ c ∈ name, c ≠ ':' ∧ c ≠ ';') (hd : d = ':' ∨ d = ';') :
    (name ++ d :: post).takeWhile nameChar = name := by
  induction name with
  | nil =>
    have : nameChar d = false := by
      rw [Bool.eq_false_iff, Ne, nameChar_iff]; rcases hd with rfl | rfl <;> simp
    simp [List.takeWhile_cons, this]
  | cons c cs ih =>
    have hc : nameChar c = true := (nameChar_iff c).2 (hname c (by simp))
    simp only [List.cons_append, List.takeWhile_cons, hc, if_true]
    rw [ih (fun x hx => hname x (by simp [hx]))]

/-- `TZID=` in any letter case, a non-empty name without `:` `;`, then `:` or `;`: the pattern matches, the group is the name AS
    WRITTEN, and matching resumes behind the delimiter -/
theorem match_tzid (kw name post : List Char) (d : Char) (hkw : upper kw = lit "TZID=") (hne : name ≠ [])
    (hname : ∀ c ∈ name, c ≠ ':' ∧ c ≠ ';') (hd : d = ':' ∨ d = ';') :
    matchItems true tzidPattern (kw ++ name ++ d :: post) = some (some name, post) := by
  have hl : lit "TZID=" = ['T', 'Z', 'I', 'D', '='] := by decide
  rw [hl] at hkw
  rcases kw with _ | ⟨a, _ | ⟨b, _ | ⟨c, _ | ⟨e, _ | ⟨f, _ | ⟨g, r⟩⟩⟩⟩⟩⟩ <;> simp [upper] at hkw
  obtain ⟨ha, hb, hc, he, hf⟩ := hkw
  have ha' : up a = 'T' := ha
  have hb' : up b = 'Z' := hb
  have hc' : up c = 'I' := hc
  have he' : up e = 'D' := he
  have hf' : up f = '=' := hf
  have hT : up 'T' = 'T' := by decide
  have hZ : up 'Z' = 'Z' := by decide
  have hI : up 'I' = 'I' := by decide
  have hD : up 'D' = 'D' := by decide
  have hE : up '=' = '=' := by decide
  have htw := takeWhile_name name post d hname hd
  have hdd : [':', ';'].any (eqc true d) = true := by
    rcases hd with rfl | rfl <;> decide
  have hdrop : (name ++ d :: post).drop name.length = d :: post := by simp
  have hrun : (List.takeWhile (fun d => !([':', ';'].any (eqc true d))) (name ++ d :: post)) = name := htw
  simp only [tzidPattern, List.cons_append, List.nil_append, matchItems, eqc, if_true, ha', hb', hc', he', hf', hT, hZ, hI, hD, hE,
    beq_self_eq_true, hrun, hdrop]
  have hemp : name.isEmpty = false := by cases name <;> simp_all
  have hdd' : (eqc true d ':' = true ∨ eqc true d ';' = true) := by
    rcases hd with rfl | rfl <;> decide
  simp [hemp, hdd']

/-- no occurrence of the pattern STARTS inside the first `n` characters of `s` -/
def NoMatchBefore (n : Nat) (s : List Char) : Prop := ∀ k, k < n → matchItems true tzidPattern (s.drop k) = none

instance (n : Nat) (s : List Char) : Decidable (NoMatchBefore n s) := by unfold NoMatchBefore; exact inferInstance

/-- **the pre-scan finds the name as written**: in `pre ++ kw ++ name ++ d :: post` with `kw` = `TZID=` in any letter case, a
    non-empty `name` free of `:` `;`, `d` one of them, and no earlier occurrence starting inside `pre`, `re.findall` yields
    `name` first and goes on behind the delimiter -/
theorem findTzids_found (pre kw name post : List Char) (d : Char) (hkw : upper kw = lit "TZID=") (hne : name ≠ [])
    (hname : ∀ c ∈ name, c ≠ ':' ∧ c ≠ ';') (hd : d = ':' ∨ d = ';')
    (hpre : NoMatchBefore pre.length (pre ++ (kw ++ name ++ d :: post))) :
    findTzids (pre ++ (kw ++ name ++ d :: post)) = name :: findTzids post := by
  unfold findTzids
  induction pre with
  | nil =>
    have hm := match_tzid kw name post d hkw hne hname hd
    have hk : kw ≠ [] := by rintro rfl; revert hkw; decide
    obtain ⟨c, r, hcr⟩ : ∃ c r, kw ++ name ++ d :: post = c :: r := by
      cases kw with
      | nil => exact absurd rfl hk
      | cons c r => exact ⟨c, r ++ name ++ d :: post, by simp⟩
    simp only [List.nil_append]
    rw [hcr] at hm ⊢
    refine findall_match hm ?_
    rw [← hcr]; simp; omega
  | cons x pre ih =>
    have h0 := hpre 0 (by simp)
    simp only [List.drop_zero, List.cons_append] at h0
    simp only [List.cons_append]
    rw [findall_skip h0]
    exact ih (fun k hk => by
      have := hpre (k + 1) (by simp; omega)
      simpa using this)

/-! ### the name table and the lookup -/

theorem tzidLookup_cons (x : List Char × List Char) (t : List (List Char × List Char)) (k : List Char) :
    tzidLookup (x :: t) k = (tzidLookup t k).or (if x.1 == k then some x.2 else none) := by
  unfold tzidLookup
  simp only [List.reverse_cons, List.find?_append]
  cases h : t.reverse.find? (·.1 == k) with
  | some p => simp
  | none => by_cases hx : x.1 == k <;> simp [hx]

theorem tzidLookup_mem {t : List (List Char × List Char)} {k v : List Char} (h : tzidLookup t k = some v) : (k, v) ∈ t := by
  unfold tzidLookup at h
  cases hf : t.reverse.find? (·.1 == k) with
  | none => simp [hf] at h
  | some p =>
    simp [hf] at h
    have hm := List.mem_of_find?_eq_some hf
    have hp := List.find?_some hf
    simp at hp hm
    subst h; subst hp
    exact hm

/-- the table built from a text whose first occurrence is `name`: looking up `upper name` gives `name`, provided every later
    occurrence of the same name (up to letter case) is spelled the same way (a later entry overwrites an earlier one) -/
theorem tzidLookup_first (name : List Char) (later : List (List Char))
    (hsame : ∀ n ∈ later, upper n = upper name → n = name) :
    tzidLookup ((name :: later).map (fun n => (upper n, n))) (upper name) = some name := by
  rw [List.map_cons, tzidLookup_cons]
  cases h : tzidLookup (later.map (fun n => (upper n, n))) (upper name) with
  | none => simp
  | some v =>
    have hm := tzidLookup_mem h
    simp only [List.mem_map, Prod.mk.injEq] at hm
    obtain ⟨n, hn, hu, rfl⟩ := hm
    simp [hsame n hn hu]

/-! ### the parameter loop -/

/-- the body of the loop over `parms` -/
def tzStep (t : List (List Char × List Char)) (cur : Option (List Char)) (p : List Char) : Option (List Char) :=
  if startsWith p (lit "TZID=") then
    match tzidLookup t (afterLastTzid p) with
    | some n => some n
    | none => cur
  else cur

theorem resolveTzid_eq_foldl (t : List (List Char × List Char)) (parms : List (List Char)) :
    resolveTzid t parms = parms.foldl (tzStep t) none := rfl

theorem tzStep_foldl_skip (t : List (List Char × List Char)) (l : List (List Char)) (cur : Option (List Char))
    (h : ∀ p ∈ l, startsWith p (lit "TZID=") = false) : l.foldl (tzStep t) cur = cur := by
  induction l with
  | nil => rfl
  | cons p ps ih =>
    simp only [List.foldl_cons, tzStep, h p (by simp), Bool.false_eq_true, if_false]
    exact ih (fun q hq => h q (by simp [hq]))

/-- parameter order is irrelevant: with exactly one `TZID=` parameter, anywhere among other parameters, the loop looks up the
    text after its (last) `TZID=` -/
theorem resolveTzid_one (t : List (List Char × List Char)) (l1 l2 : List (List Char)) (p : List Char)
    (h1 : ∀ q ∈ l1, startsWith q (lit "TZID=") = false) (h2 : ∀ q ∈ l2, startsWith q (lit "TZID=") = false)
    (hp : startsWith p (lit "TZID=") = true) :
    resolveTzid t (l1 ++ p :: l2) = tzidLookup t (afterLastTzid p) := by
  rw [resolveTzid_eq_foldl, List.foldl_append, tzStep_foldl_skip t l1 none h1, List.foldl_cons, tzStep_foldl_skip t l2 _ h2]
  simp only [tzStep, hp, if_true]
  cases tzidLookup t (afterLastTzid p) <;> rfl

/-! ### the translated parameter loop of `_parse_date_value` is the model's `resolveTzid` / `dateParmsOk` -/

/-- which function does the lookup, by the kind of the `tzids` argument (`other`: neither None, callable nor a mapping) -/
def lookupOf : TzidsKind → Option Lookup
  | .none => some .gettz
  | .callable => some .call
  | .mapping => some .get
  | .other => none

def isValueParm (p : List Char) : Bool := p == lit "VALUE=DATE-TIME" || p == lit "VALUE=DATE"

/-- one iteration of `for parm in parms:` on the carried `(TZID, value_found)` -/
def stepSpec (lk : Lookup) (t : Dict) (st : Option Zone × Bool) (p : List Char) : Py.R (Option Zone × Bool) :=
  if startsWith p (lit "TZID=") then
    match tzidLookup t (afterLastTzid p) with
    | some n => .ok (some (.looked lk n), st.2)
    | none => .ok st
  else if !isValueParm p then .error .ValueError
  else if st.2 then .error .ValueError else .ok (st.1, true)

def restParms (parms : List (List Char)) : List (List Char) := parms.filter (fun p => !startsWith p (lit "TZID="))

def badParms (parms : List (List Char)) (vf : Bool) : Bool :=
  (restParms parms).any (fun p => !isValueParm p) || decide ((restParms parms).length + (if vf then 1 else 0) > 1)

def zStep (lk : Lookup) (t : Dict) (z : Option Zone) (p : List Char) : Option Zone :=
  if startsWith p (lit "TZID=") then
    match tzidLookup t (afterLastTzid p) with
    | some n => some (.looked lk n)
    | none => z
  else z

theorem foldlM_stepSpec (lk : Lookup) (t : Dict) : ∀ (parms : List (List Char)) (z : Option Zone) (vf : Bool),
    parms.foldlM (stepSpec lk t) (z, vf) =
      if badParms parms vf then .error .ValueError else .ok (parms.foldl (zStep lk t) z, vf || !(restParms parms).isEmpty) := by
  intro parms
  induction parms with
  | nil => intro z vf; cases vf <;> simp [badParms, restParms, pure, Except.pure]
  | cons p ps ih =>
    intro z vf
    rw [List.foldlM_cons]
    by_cases hp : startsWith p (lit "TZID=") = true
    · have hrest : restParms (p :: ps) = restParms ps := by simp [restParms, hp]
      have hbad : badParms (p :: ps) vf = badParms ps vf := by simp [badParms, hrest]
      cases hl : tzidLookup t (afterLastTzid p) with
      | none =>
        simp only [stepSpec, hp, if_true, hl, bind, Except.bind, ih, hbad, hrest, List.foldl_cons, zStep]
      | some n =>
        simp only [stepSpec, hp, if_true, hl, bind, Except.bind, ih, hbad, hrest, List.foldl_cons, zStep]
    · have hp' : startsWith p (lit "TZID=") = false := by simpa using hp
      have hrest : restParms (p :: ps) = p :: restParms ps := by simp [restParms, hp']
      by_cases hv : isValueParm p = true
      · cases vf with
        | true =>
          have : badParms (p :: ps) true = true := by simp [badParms, hrest]
          simp [stepSpec, hp', hv, bind, Except.bind, this]
        | false =>
          have hb : badParms (p :: ps) false = badParms ps true := by
            simp only [badParms, hrest, List.any_cons, hv, Bool.not_true, Bool.false_or, List.length_cons]
            congr 1
          simp [stepSpec, hp', hv, bind, Except.bind, ih, hb, hrest, zStep]
      · have hv' : isValueParm p = false := by simpa using hv
        have : badParms (p :: ps) vf = true := by simp [badParms, hrest, hv']
        simp [stepSpec, hp', hv', bind, Except.bind, this]

theorem zStep_foldl (lk : Lookup) (t : Dict) (parms : List (List Char)) (cur : Option (List Char)) :
    parms.foldl (zStep lk t) (cur.map (Zone.looked lk)) = (parms.foldl (tzStep t) cur).map (Zone.looked lk) := by
  induction parms generalizing cur with
  | nil => rfl
  | cons p ps ih =>
    simp only [List.foldl_cons]
    have : zStep lk t (cur.map (Zone.looked lk)) p = (tzStep t cur p).map (Zone.looked lk) := by
      unfold zStep tzStep
      by_cases hp : startsWith p (lit "TZID=") = true
      · simp only [hp, if_true]; cases tzidLookup t (afterLastTzid p) <;> rfl
      · simp only [hp, if_false]; rfl
    rw [this, ih]

theorem dateParmsOk_eq (parms : List (List Char)) :
    dateParmsOk parms = if badParms parms false then .error .ValueError else .ok () := by
  unfold dateParmsOk badParms restParms isValueParm
  simp only [Bool.false_eq_true, if_false, Nat.add_zero]
  by_cases h1 : ((parms.filter (fun p => !startsWith p (lit "TZID="))).any
      (fun p => !(p == lit "VALUE=DATE-TIME" || p == lit "VALUE=DATE"))) = true
  · simp only [h1, if_true, Bool.true_or]
  · have h1' : ((parms.filter (fun p => !startsWith p (lit "TZID="))).any
        (fun p => !(p == lit "VALUE=DATE-TIME" || p == lit "VALUE=DATE"))) = false := by simpa using h1
    simp only [h1', Bool.false_eq_true, if_false, Bool.false_or]
    by_cases h2 : (parms.filter (fun p => !startsWith p (lit "TZID="))).length > 1 <;> simp [h2]

/-- **the translated parameter loop is the model's**: for a `tzids` argument that is None, a callable or a mapping, the loop of
    `_parse_date_value` fails (ValueError) exactly when `dateParmsOk` does, and otherwise ends with the zone
    `<that lookup>(resolveTzid table parms)` (no zone when `resolveTzid` finds none) and `value_found` = "there was a VALUE parameter" -/
theorem gen_dateParms_eq_model (parms : List (List Char)) (t : Dict) (k : TzidsKind) (lk : Lookup) (hk : lookupOf k = some lk) :
    Gen.rrsDateParms parms t k =
      match dateParmsOk parms with
      | .error _ => .error .ValueError
      | .ok _ => .ok ((resolveTzid t parms).map (Zone.looked lk), !(restParms parms).isEmpty) := by
  have hfold : ∀ F : Option Zone × Bool → List Char → Py.R (Option Zone × Bool), (∀ st p, F st p = stepSpec lk t st p) →
      (parms.foldlM F (none, false) >>= fun (x : Option Zone × Bool) => (Except.ok (x.1, x.2) : Py.R (Option Zone × Bool))) =
      match dateParmsOk parms with
      | .error _ => .error .ValueError
      | .ok _ => .ok ((resolveTzid t parms).map (Zone.looked lk), !(restParms parms).isEmpty) := by
    intro F hF
    have : F = stepSpec lk t := by funext st p; exact hF st p
    subst this
    rw [foldlM_stepSpec, dateParmsOk_eq]
    by_cases hb : badParms parms false = true
    · simp [hb, bind, Except.bind]
    · have hb' : badParms parms false = false := by simpa using hb
      have hz := zStep_foldl lk t parms none
      simp only [Option.map_none] at hz
      simp [hb', bind, Except.bind, hz, resolveTzid_eq_foldl]
  unfold Gen.rrsDateParms
  refine hfold _ ?_
  rintro ⟨z, vf⟩ p
  cases k <;> simp [lookupOf] at hk <;> subst hk <;>
    (by_cases hp : StrPy.startsWith p ['T', 'Z', 'I', 'D', '='] = true
     · have hp' : startsWith p (lit "TZID=") = true := hp
       cases hl : tzidLookup t (afterLastTzid p) with
       | none =>
         have hd : dictGet t (afterLast ['T', 'Z', 'I', 'D', '='] p) = .error .KeyError := by
           unfold tzidLookup afterLastTzid at hl; unfold dictGet
           have hlit : lit "TZID=" = ['T', 'Z', 'I', 'D', '='] := by decide
           rw [hlit] at hl
           cases hf : t.reverse.find? (·.1 == afterLast ['T', 'Z', 'I', 'D', '='] p) <;> simp_all
         simp [stepSpec, hp, hp', hl, hd, bind, Except.bind]
       | some n =>
         have hd : dictGet t (afterLast ['T', 'Z', 'I', 'D', '='] p) = .ok n := by
           unfold tzidLookup afterLastTzid at hl; unfold dictGet
           have hlit : lit "TZID=" = ['T', 'Z', 'I', 'D', '='] := by decide
           rw [hlit] at hl
           cases hf : t.reverse.find? (·.1 == afterLast ['T', 'Z', 'I', 'D', '='] p) <;> simp_all
         simp [stepSpec, hp, hp', hl, hd, bind, Except.bind]
     · have hp1 : StrPy.startsWith p ['T', 'Z', 'I', 'D', '='] = false := by simpa using hp
       have hp' : startsWith p (lit "TZID=") = false := hp1
       have hv : isValueParm p = ([['V', 'A', 'L', 'U', 'E', '=', 'D', 'A', 'T', 'E', '-', 'T', 'I', 'M', 'E'],
           ['V', 'A', 'L', 'U', 'E', '=', 'D', 'A', 'T', 'E']].contains p) := by
         have h1 : lit "VALUE=DATE-TIME" = ['V', 'A', 'L', 'U', 'E', '=', 'D', 'A', 'T', 'E', '-', 'T', 'I', 'M', 'E'] := by decide
         have h2 : lit "VALUE=DATE" = ['V', 'A', 'L', 'U', 'E', '=', 'D', 'A', 'T', 'E'] := by decide
         unfold isValueParm; rw [h1, h2]
         simp only [List.contains, List.elem]
         cases (p == ['V', 'A', 'L', 'U', 'E', '=', 'D', 'A', 'T', 'E', '-', 'T', 'I', 'M', 'E']) <;>
           cases (p == ['V', 'A', 'L', 'U', 'E', '=', 'D', 'A', 'T', 'E']) <;> rfl
       simp only [stepSpec, hp1, hp', Bool.false_eq_true, if_false, hv])

/-! ### the whole of `_parse_date_value` -/

/-- **the WHOLE translated `_parse_date_value`**: it fails (ValueError) exactly when the parameters are unacceptable (`dateParmsOk`), and
    otherwise parses every `,`-separated value (`parse` = `parser.parse` with the caller's `ignoretz` / `tzinfos`, OverflowError turned
    into ValueError) and attaches the zone `<lookup>(resolveTzid table parms)` by the translated attach statement -/
theorem gen_parseDateValue_eq {D : Type} (parse : List Char → Py.R (D × Option Zone)) (value : List Char) (parms : List (List Char))
    (t : Dict) (k : TzidsKind) (lk : Lookup) (hk : lookupOf k = some lk) :
    Gen.rrsParseDateValue parse value parms t k =
      match dateParmsOk parms with
      | .error _ => .error .ValueError
      | .ok _ => (ICal.splitOnChar ',' value).mapM (fun d =>
          (match parse d with | .error .OverflowError => .error .ValueError | r => r) >>= fun date =>
          (Gen.rrsAttach ((resolveTzid t parms).map (Zone.looked lk)) date.2) >>= fun z => .ok (date.1, z)) := by
  unfold Gen.rrsParseDateValue
  rw [gen_dateParms_eq_model parms t k lk hk]
  cases dateParmsOk parms <;> rfl

theorem mapM_ok {α β : Type} (g : α → β) : ∀ (l : List α), l.mapM (fun a => (.ok (g a) : Py.R β)) = .ok (l.map g)
  | [] => rfl
  | a :: l => by rw [List.mapM_cons, mapM_ok g l]; rfl

/-- … in particular, for date texts that `parser.parse` reads as NAIVE datetimes (the compact form `__str__` prints: `date_text_read_back`),
    every value gets exactly the zone of the line's TZID parameter (none without one): the model's `(value, parms)` + `tzidOf` -/
theorem gen_parseDateValue_naive {D : Type} (f : List Char → D) (value : List Char) (parms : List (List Char))
    (t : Dict) (k : TzidsKind) (lk : Lookup) (hk : lookupOf k = some lk) (hp : dateParmsOk parms = .ok ()) :
    Gen.rrsParseDateValue (fun d => .ok (f d, none)) value parms t k =
      .ok ((ICal.splitOnChar ',' value).map (fun d => (f d, (resolveTzid t parms).map (Zone.looked lk)))) := by
  rw [gen_parseDateValue_eq _ value parms t k lk hk, hp]
  simp only [bind, Except.bind]
  have : ∀ z : Option Zone, Gen.rrsAttach z none = .ok z := by intro z; cases z <;> rfl
  simp only [this]
  exact mapM_ok _ _

end RRuleStr
