/-
  Proofs/RRuleStrFold.lean — RFC 5545 line folding and the unfold loop of `_rrulestr._parse_rfc`:
  unfolding a folded text gives the logical lines back, for every way of folding.
-/
import DateutilVerif.Proofs.RRuleStrGen

namespace RRuleStr
open ICal (isSpace isLineBreak rstrip splitLines splitLinesAux)

/-- one logical line cut into pieces: the first physical line and the continuation pieces (each is written on its own
    physical line behind ONE space) -/
structure Folded where
  first : List Char
  conts : List (List Char)
  deriving Repr

/-- the logical line -/
def Folded.logical (f : Folded) : List Char := f.first ++ f.conts.flatten

/-- its physical lines -/
def Folded.physical (f : Folded) : List (List Char) := f.first :: f.conts.map (' ' :: ·)

/-- a piece does not END in whitespace (the empty piece is allowed) -/
def NoTrailingSpace (p : List Char) : Prop := ∀ c, p.getLast? = some c → isSpace c = false

instance (p : List Char) : Decidable (NoTrailingSpace p) :=
  match h : p.getLast? with
  | none => isTrue (fun c hc => by rw [h] at hc; cases hc)
  | some x =>
    if hx : isSpace x = false then isTrue (fun c hc => by rw [h] at hc; cases hc; exact hx)
    else isFalse (fun hn => hx (hn x h))

/-- what the unfold loop needs of a folding: the first piece has a visible character and does not BEGIN with a space (it would
    be taken for a continuation), and no continuation piece ENDS in whitespace.  The first piece may end in whitespace
    (a fold right after a space), pieces may be empty or a single character, there may be any number of them. -/
structure Folded.ok (f : Folded) : Prop where
  first : ∃ c l, rstrip f.first = c :: l ∧ c ≠ ' '
  conts : ∀ p ∈ f.conts, NoTrailingSpace p

theorem rstrip_snoc (s : List Char) (c : Char) (h : isSpace c = false) : rstrip (s ++ [c]) = s ++ [c] := by
  unfold rstrip
  simp [List.reverse_append, List.dropWhile_cons, h]

theorem rstrip_space_cons {p : List Char} (hne : p ≠ []) (h : NoTrailingSpace p) : rstrip (' ' :: p) = ' ' :: p := by
  rcases List.eq_nil_or_concat p with rfl | ⟨init, last, hp⟩
  · exact absurd rfl hne
  · rw [List.concat_eq_append] at hp; subst hp
    have hl : isSpace last = false := h last (by simp)
    have := rstrip_snoc (' ' :: init) last hl
    simpa using this

theorem foldl_conts (conts : List (List Char)) (h : ∀ p ∈ conts, NoTrailingSpace p) (x : List Char) (acc : List (List Char)) :
    (conts.map (' ' :: ·)).foldl unfoldStep (x :: acc) = (x ++ conts.flatten) :: acc := by
  induction conts generalizing x with
  | nil => simp
  | cons p ps ih =>
    have hp := h p (by simp)
    have hps : ∀ q ∈ ps, NoTrailingSpace q := fun q hq => h q (by simp [hq])
    simp only [List.map_cons, List.foldl_cons, List.flatten_cons]
    by_cases hne : p = []
    · subst hne
      have : rstrip [' '] = [] := by decide
      rw [unfoldStep_empty this, ih hps]; simp
    · rw [unfoldStep_cont (rstrip_space_cons hne hp), ih hps]; simp

theorem foldl_physical (f : Folded) (hf : f.ok) (acc : List (List Char)) :
    f.physical.foldl unfoldStep acc = f.logical :: acc := by
  obtain ⟨c, l, hr, hc⟩ := hf.first
  unfold Folded.physical Folded.logical
  rw [List.foldl_cons, unfoldStep_keep hr hc, foldl_conts _ hf.conts]

theorem foldl_all (fs : List Folded) (h : ∀ f ∈ fs, f.ok) (acc : List (List Char)) :
    (fs.map Folded.physical).flatten.foldl unfoldStep acc = (fs.map Folded.logical).reverse ++ acc := by
  induction fs generalizing acc with
  | nil => simp
  | cons f fs ih =>
    simp only [List.map_cons, List.flatten_cons, List.foldl_append]
    rw [foldl_physical f (h f (by simp)), ih (fun g hg => h g (by simp [hg]))]
    simp

/-- **unfold ∘ fold = id on the lines**: whatever the number and the positions of the folds -/
theorem unfold_physical (fs : List Folded) (h : ∀ f ∈ fs, f.ok) :
    ICal.unfold (fs.map Folded.physical).flatten = fs.map Folded.logical := by
  rw [unfold_eq_foldl, foldl_all fs h]; simp

/-! ### from the text to the physical lines -/

/-- a line break as written: `\n` or `\r\n` -/
def brk (crlf : Bool) : List Char := if crlf then ['\r', '\n'] else ['\n']

theorem splitLinesAux_line : ∀ (l : List Char), (∀ c ∈ l, isLineBreak c = false) → ∀ (crlf : Bool) (rest cur : List Char) (acc : List (List Char)),
    splitLinesAux (l ++ brk crlf ++ rest) cur acc = splitLinesAux rest [] ((cur.reverse ++ l) :: acc) := by
  intro l
  induction l with
  | nil =>
    intro _ crlf rest cur acc
    cases crlf
    · simp only [brk, Bool.false_eq_true, if_false, List.nil_append, List.cons_append, List.append_nil]
      conv => lhs; unfold ICal.splitLinesAux
      simp [isLineBreak]
    · simp only [brk, if_true, List.nil_append, List.cons_append, List.append_nil]
      rw [splitLinesAux]
  | cons c l ih =>
    intro h crlf rest cur acc
    have hc : isLineBreak c = false := h c (by simp)
    have hcr : c ≠ '\r' := by rintro rfl; revert hc; decide
    simp only [List.cons_append]
    conv => lhs; unfold ICal.splitLinesAux
    have := ih (fun d hd => h d (by simp [hd])) crlf rest (c :: cur) acc
    split
    · rename_i heq; cases heq
    · rename_i heq; simp only [List.cons.injEq] at heq; exact absurd heq.1 hcr
    · rename_i c' cs _ heq
      simp only [List.cons.injEq] at heq
      obtain ⟨rfl, rfl⟩ := heq
      simp only [hc, Bool.false_eq_true, if_false]
      simpa [List.append_assoc] using this

/-- `str.splitlines()` of physical lines each followed by a line break (`\n` or `\r\n`, chosen per line) gives the lines back -/
theorem splitLines_terminated : ∀ (ls : List (List Char × Bool)), (∀ p ∈ ls, ∀ c ∈ p.1, isLineBreak c = false) →
    ∀ acc, splitLinesAux (ls.map (fun p => p.1 ++ brk p.2)).flatten [] acc = acc.reverse ++ ls.map (·.1) := by
  intro ls
  induction ls with
  | nil => intro _ acc; simp [splitLinesAux]
  | cons p ps ih =>
    intro h acc
    simp only [List.map_cons, List.flatten_cons]
    rw [splitLinesAux_line p.1 (h p (by simp)) p.2, ih (fun q hq => h q (by simp [hq]))]
    simp

end RRuleStr
