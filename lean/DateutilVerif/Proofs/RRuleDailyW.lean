/-
  Proofs/RRuleDailyW.lean — DAILY with BYWEEKNO (complement of D-C01c): the DAILY instance of the refinement
  over the BY-filter abstraction of Proofs/RRuleWFilter.lean.
-/
import DateutilVerif.Proofs.RRuleWFilter
import DateutilVerif.Proofs.RRuleHourly

namespace RRule
open Cal

/-- DAILY argument sets with BYWEEKNO absent or on the complement of D-C01c -/
structure DailyWArgs (a : Args) : Prop where
  freq : a.freq = 3
  interval : 1 ≤ a.interval
  valid : a.dtstart.Valid
  weekno : WArg a
  byeaster : a.byeaster = none
  monthday_nz : ∀ x ∈ a.bymonthday.getD [], x ≠ 0

variable {a : Args} {r : Rule}

theorem dw_dw (da : DailyWArgs a) : DWArgs (asDaily0 a) :=
  ⟨Or.inr rfl, da.interval, da.valid, rfl, da.byeaster, da.monthday_nz⟩

abbrev dailyWRuleOf (a : Args) (bh bm bs : Option (List Int)) : Rule :=
  { freq := a.freq, interval := a.interval, wkst := a.wkst.getD 0,
    dtstart := { a.dtstart with us := 0 }, tz := a.tz, count := a.count, untilDT := a.untilDT,
    bysetpos := a.bysetpos, bymonth := a.bymonth.map sortedSet, bymonthday := bymonthdayOf a,
    bynmonthday := bynmonthdayOf a, byyearday := a.byyearday.map sortedSet,
    byeaster := none, byweekno := a.byweekno.map sortedSet,
    byweekday := byweekdayOf a, bynweekday := bynweekdayOf a,
    byhour := bh, byminute := bm, bysecond := bs,
    timeset := some (Spec.RRule.timesOf a none none none) }

theorem dw_rule (da : DailyWArgs a) (h : construct a = .ok r) : ∃ bh bm bs, r = dailyWRuleOf a bh bm bs := by
  have hts := construct_timeset a r h (by rw [da.freq]; omega)
  obtain ⟨sp, bh, bm, bs, ts, h1, h2, h3, h4, h5, rfl⟩ := construct_ok a r h
  dsimp only at hts
  subst hts
  have hsp := (normBysetpos_ok a sp h1).1
  subst hsp
  have hne0 : (a.freq == 0) = false := by simp [da.freq]
  exact ⟨bh, bm, bs, by simp [dailyWRuleOf, hne0, da.byeaster, bymonthOf]⟩

theorem dw_cuts (da : DailyWArgs a) (h : construct a = .ok r) : CutsAgree a r := by
  obtain ⟨bh, bm, bs, hr⟩ := dw_rule da h
  rw [hr]; exact ⟨rfl, rfl, rfl⟩

theorem dw_wrule (da : DailyWArgs a) (h : construct a = .ok r) : WRule r := by
  have hd := construct_nth_demoted a r h (by rw [da.freq]; omega)
  obtain ⟨bh, bm, bs, hr⟩ := dw_rule da h
  rw [hr] at hd ⊢
  refine wrule_of a _ da.weekno rfl rfl ?_ rfl
  dsimp only at hd ⊢
  rcases hd with hd | hd <;> rw [hd] <;> rfl

theorem dw_bridge (da : DailyWArgs a) (h : construct a = .ok r) (ord : Int) (ho : 1 ≤ ord) :
    (simpleOk r ord && wclause r ord) = Spec.RRule.dateOk a ord := by
  obtain ⟨bh, bm, bs, hr⟩ := dw_rule da h
  rw [hr]
  exact wOk_eq_dateOk a _ (by rw [da.freq]; omega) (dw_dw da) rfl rfl rfl rfl rfl rfl rfl ord ho

structure DailyWGood (a : Args) (r : Rule) (k : Nat) (st : State) : Prop where
  facts : YearFacts r st.cur.year st.info
  inv : WInv r st.info
  valid : ValidYMD st.cur.year st.cur.month st.cur.day
  ord : curOrd st.cur = Spec.RRule.startOrd a + k * a.interval
  timeset : st.timeset = Spec.RRule.timesOf a none none none

theorem dw_span (da : DailyWArgs a) (k : Nat) :
    Spec.RRule.periodSpan a (k * a.interval) =
      (Spec.RRule.startOrd a + k * a.interval, Spec.RRule.startOrd a + k * a.interval + 1, none, none, none) := by
  unfold Spec.RRule.periodSpan; simp [da.freq]

theorem dw_results (da : DailyWArgs a) (h : construct a = .ok r) (k : Nat) (st : State)
    (hg : DailyWGood a r k st) (hle : Spec.RRule.startOrd a + k * a.interval ≤ maxOrdinal) :
    (∃ fl, periodResults r st = .ok (Spec.RRule.sel a (k : Int), none, fl)) ∧
    ∀ x ∈ Spec.RRule.sel a (k : Int), 0 ≤ x.ord ∧ x.ord ≤ maxOrdinal := by
  have hw := dw_wrule da h
  obtain ⟨bh, bm, bs, hr⟩ := dw_rule da h
  have hfreq : r.freq = 3 := by rw [hr]; exact da.freq
  have hsp := construct_bysetpos a r h
  have htsok : TsOk st.timeset := by
    have := construct_timeset_ok a r h (by rw [da.freq]; omega)
    rw [hr] at this; rw [hg.timeset]; exact this
  have hpos : 1 ≤ curOrd st.cur := toOrdinal_pos _ _ _ hg.facts.year_lo hg.valid
  have hord := hg.ord
  obtain ⟨fl, hres, _⟩ := periodResults_day_w hw st hg.facts hg.inv hg.valid (by omega)
    (by rw [hsp.1]; exact hsp.2) htsok (by omega)
  rw [hord] at hres
  have hbridge : (intRange (Spec.RRule.startOrd a + k * a.interval) (Spec.RRule.startOrd a + k * a.interval + 1)).filter
      (fun o => simpleOk r o && wclause r o) = (intRange (Spec.RRule.startOrd a + k * a.interval)
        (Spec.RRule.startOrd a + k * a.interval + 1)).filter (Spec.RRule.dateOk a) := by
    apply List.filter_congr
    intro o ho
    exact dw_bridge da h o (by have := (mem_intRange _ _ _).mp ho; omega)
  refine ⟨⟨fl, ?_⟩, ?_⟩
  · rw [hres, hg.timeset, sel_span_sp a k _ _ (dw_span da k), hbridge, hsp.1]
  · intro x hx
    rw [sel_span_sp a k _ _ (dw_span da k)] at hx
    have := sel_bounds _ _ _ _ x (applySetpos_subset _ _ x hx)
    omega

theorem dw_next (da : DailyWArgs a) (h : construct a = .ok r) (k : Nat) (st : State) (fl : Bool)
    (c : Option Int) (hg : DailyWGood a r k st)
    (hle : Spec.RRule.startOrd a + (k + 1 : Nat) * a.interval ≤ maxOrdinal) :
    ∃ st', advance r { st with count := c } fl = .ok st' ∧ DailyWGood a r (k + 1) st' := by
  have hw := dw_wrule da h
  obtain ⟨bh, bm, bs, hr⟩ := dw_rule da h
  have hfreq : r.freq = 3 := by rw [hr]; exact da.freq
  have hint : r.interval = a.interval := by rw [hr]
  have hi := da.interval
  obtain ⟨hm1, hm12, hd1, hd2⟩ := hg.valid
  have hex : ∃ st', advance r { st with count := c } fl = .ok st' ∧ WInv r st'.info := by
    unfold advance
    dsimp only
    rw [if_neg (by simp [hfreq]), if_neg (by simp [hfreq]), if_neg (by simp [hfreq]), if_pos (by simp [hfreq])]
    have hcur : curOrd { st.cur with day := st.cur.day + r.interval } ≤ maxOrdinal := by
      have : curOrd { st.cur with day := st.cur.day + r.interval } = curOrd st.cur + r.interval := by
        unfold curOrd toOrdinal; dsimp only; omega
      rw [this, hg.ord, hint]
      have e : ((k + 1 : Nat) : Int) * a.interval = k * a.interval + a.interval := by
        push_cast; rw [Int.add_mul]; omega
      omega
    exact fixDay_ok_w hw
      { cur := { st.cur with day := st.cur.day + r.interval }, info := st.info, timeset := st.timeset, count := c }
      true hm1 hm12 (by dsimp only; omega) hg.facts.year_lo hg.facts.year_hi hcur hg.inv
  obtain ⟨st', hadv, hinv⟩ := hex
  refine ⟨st', hadv, ?_⟩
  have sp := advance_daily r { st with count := c } st' fl hfreq (by omega) hg.valid hg.facts hadv
  obtain ⟨e, v, f', ts⟩ := sp
  refine ⟨f', hinv, v, ?_, ?_⟩
  · rw [e]; dsimp only; rw [hg.ord, hint]; push_cast; rw [Int.add_mul]; omega
  · rw [ts]; exact hg.timeset

theorem dw_init (da : DailyWArgs a) (h : construct a = .ok r) :
    ∃ st0, init r = .ok st0 ∧ DailyWGood a r 0 st0 ∧ st0.count = r.count := by
  have hw := dw_wrule da h
  have hv := da.valid
  unfold DT.Valid ValidDate at hv
  obtain ⟨info, hre, hinv⟩ := rebuild_w hw a.dtstart.y a.dtstart.m hv.1.1 hv.1.2.1
  obtain ⟨bh, bm, bs, hr⟩ := dw_rule da h
  have hd : r.dtstart = { a.dtstart with us := 0 } := by rw [hr]
  have hf : r.freq = 3 := by rw [hr]; exact da.freq
  have hts : r.timeset = some (Spec.RRule.timesOf a none none none) := by rw [hr]
  refine ⟨{ cur := { year := a.dtstart.y, month := a.dtstart.m, day := a.dtstart.d, hour := a.dtstart.hh,
                     minute := a.dtstart.mm, second := a.dtstart.ss, weekday := r.dtstart.weekday },
            info := info, timeset := Spec.RRule.timesOf a none none none, count := r.count }, ?_, ?_, rfl⟩
  · unfold init
    simp only [hd, bind, Except.bind, hre, hf, hts, pure, Except.pure]
    rfl
  · refine ⟨rebuild_facts r _ _ info hre, hinv, hv.1.2.2, ?_, rfl⟩
    unfold curOrd Spec.RRule.startOrd DT.ordinal; simp

/-- **`iter_eq_spec`, DAILY with BYWEEKNO** (absent, or on the complement of D-C01c with a week start 0..6) -/
theorem iter_eq_spec_daily_w (da : DailyWArgs a) (h : construct a = .ok r) (n : Nat)
    (hn : Spec.RRule.startOrd a + n * a.interval ≤ maxOrdinal) :
    (iter r n).1 = Spec.RRule.occ a n := by
  have hi := da.interval
  have hmono : ∀ k : Nat, k ≤ n → Spec.RRule.startOrd a + k * a.interval ≤ maxOrdinal := by
    intro k hk
    have : (k : Int) * a.interval ≤ n * a.interval :=
      Int.mul_le_mul_of_nonneg_right (by omega) (by omega)
    omega
  have sim : Simulation a r n (DailyWGood a r) := {
    agree := dw_cuts da h
    results := fun k st hk hg => by
      obtain ⟨⟨fl, hres⟩, hb⟩ := dw_results da h k st hg (hmono k (by omega))
      exact ⟨fl, [], _, hres, rfl, by simp, hb⟩
    next := fun k st fl c hk hg => dw_next da h k st fl c hg (hmono (k + 1) (by omega))
    }
  obtain ⟨st0, hinit, hg0, hc0⟩ := dw_init da h
  exact iter_refines sim st0 hinit hg0 hc0 n (by omega)

end RRule
