/-
  Proofs/RDApply.lean — `RDM.applyTo` (the model of `relativedelta.__add__`) against the documented
  semantics `RDSpec.apply`: the piecewise ±12 month carry is the total-month formula, the
  timedelta is the exact duration, the weekday jump is the nth-weekday search.
-/
import DateutilVerif.Proofs.RDAlgebra
import DateutilVerif.Spec.RelativeDelta
import DateutilVerif.Proofs.Time

namespace RDP
open RDM
set_option linter.unusedSimpArgs false

theorem orInt_getD (a : Option Int) (b : Int) (h : a ≠ some 0) : orInt a b = a.getD b := by
  unfold orInt
  cases a with
  | none => rfl
  | some v =>
    have : v ≠ 0 := fun e => h (by rw [e])
    simp [this]

/-- lines 366-376 compute the total-month formula whenever |months| ≤ 12 and the month is a month -/
theorem ymCarry_eq_shift (d : RD) (y m : Int) (hmo : -12 ≤ d.months ∧ d.months ≤ 12)
    (hm : 1 ≤ orInt d.month m ∧ orInt d.month m ≤ 12) :
    ymCarry d y m = .ok ((12 * (orInt d.year y) + (orInt d.month m - 1) + (12 * d.years + d.months)) / 12,
                         (12 * (orInt d.year y) + (orInt d.month m - 1) + (12 * d.years + d.months)) % 12 + 1) := by
  unfold ymCarry Py.iabs
  generalize orInt d.month m = m0 at *
  generalize orInt d.year y = y0 at *
  split
  · rw [if_neg (by split <;> omega)]
    split
    · congr 2 <;> omega
    · split
      · congr 2 <;> omega
      · congr 2 <;> omega
  · congr 2 <;> omega

theorem daysToNext_table : ∀ a b : Fin 7,
    RDSpec.daysToNext a.val b.val = (7 - (a.val : Int) + b.val) % 7 := by decide
theorem daysToPrev_table : ∀ a b : Fin 7,
    RDSpec.daysToPrev a.val b.val = ((a.val : Int) - b.val) % 7 := by decide

theorem nOf_eq (n : Option Int) : RDSpec.nOf n = orInt n 1 := by
  unfold RDSpec.nOf orInt
  cases n with
  | none => rfl
  | some v => by_cases h : v = 0 <;> simp [h]

/-- the code's jump formula is the nth-weekday search of the documentation -/
theorem jumpDays_eq_spec (w : Int) (n : Option Int) (r : Int) (hw : 0 ≤ w ∧ w ≤ 6) (hr : 0 ≤ r ∧ r < 7) :
    jumpDays w n r = RDSpec.nthWeekdayOffset r w (RDSpec.nOf n) := by
  rw [nOf_eq]
  have h1 := daysToNext_table ⟨r.toNat, by omega⟩ ⟨w.toNat, by omega⟩
  have h2 := daysToPrev_table ⟨r.toNat, by omega⟩ ⟨w.toNat, by omega⟩
  simp only [] at h1 h2
  have er : ((r.toNat : Nat) : Int) = r := by omega
  have ew : ((w.toNat : Nat) : Int) = w := by omega
  rw [er, ew] at h1 h2
  unfold jumpDays RDSpec.nthWeekdayOffset Py.iabs
  rw [h1, h2]
  generalize orInt n 1 = k
  split
  · split <;> omega
  · split <;> omega

theorem promote_t (d : RD) (x : Temporal) : (promote d x).t = x.t := by
  unfold promote; split <;> rfl

theorem hasTimeOf_ne_zero (d : RD) : hasTimeOf d ≠ 0 ↔ RDSpec.hasTimeInfo d = true := by
  unfold hasTimeOf RDSpec.hasTimeInfo
  simp only [Bool.or_eq_true, bne_iff_ne, ne_eq, Option.isSome_iff_ne_none]
  split
  · rename_i h
    refine ⟨fun _ => ?_, fun _ => by decide⟩
    simp only [or_assoc]; exact h
  · rename_i h
    refine ⟨fun c => absurd rfl c, fun c => ?_⟩
    simp only [or_assoc] at c; exact absurd c h

theorem promote_kind (d : RD) (x : Temporal) (hd : Normalised d) :
    (promote d x).kind = if x.kind = .date ∧ RDSpec.hasTimeInfo d = true then .naive else x.kind := by
  unfold promote
  rw [hd.2.2.2.2.2]
  by_cases h : RDSpec.hasTimeInfo d = true
  · have := (hasTimeOf_ne_zero d).2 h
    by_cases hk : x.kind = .date <;> simp [h, hk, this]
  · have : ¬ hasTimeOf d ≠ 0 := fun c => h ((hasTimeOf_ne_zero d).1 c)
    simp [h, this]

theorem deltaMicros_eq_duration (d : RD) (y m : Int) :
    deltaMicros d (daysWithLeap d y m) = RDSpec.duration d (decide (m > 2) && Cal.isLeap y) := by
  unfold deltaMicros daysWithLeap RDSpec.duration
  by_cases hl : d.leapdays = 0
  · simp only [hl, ne_eq, not_true_eq_false, false_and, ↓reduceIte]
    split <;> omega
  · by_cases hm : m > 2 <;> by_cases hy : Cal.isLeap y = true <;>
      simp only [hl, hm, hy, ne_eq, not_false_eq_true, true_and, and_true, and_false, false_and,
        ↓reduceIte, decide_true, decide_false, Bool.and_true, Bool.true_and, Bool.false_and,
        Bool.and_false, Bool.false_eq_true] <;> omega

theorem addDelta_eq (d : RD) (k : Kind) (base : DT) (leap : Bool)
    (hk : k = .date → d.hours = 0 ∧ d.minutes = 0 ∧ d.seconds = 0 ∧ d.microseconds = 0) :
    addDelta k base (RDSpec.duration d leap) = base.addMicros (RDSpec.duration d leap) := by
  unfold addDelta
  cases k with
  | date =>
    obtain ⟨h1, h2, h3, h4⟩ := hk rfl
    simp only []
    unfold DT.addDays
    congr 1
    unfold RDSpec.duration DT.usPerDay
    rw [h1, h2, h3, h4]
    generalize (d.days + if leap = true then d.leapdays else 0) = n
    omega
  | naive => rfl
  | aware z => rfl

theorem applyWeekday_eq (wd : Option (Int × Option Int)) (x2 : Int) (k : Kind)
    (h1 : ¬ (x2 < DT.minMicros ∨ x2 > DT.maxMicros))
    (hwd : ∀ w n, wd = some (w, n) → 0 ≤ w ∧ w ≤ 6) :
    Except.bind (applyWeekday wd (DT.ofMicros x2)) (fun v => (pure { kind := k, t := v } : Py.R Temporal)) =
    RDSpec.weekdayStep wd k x2 := by
  unfold RDSpec.weekdayStep
  cases wd with
  | none => rfl
  | some p =>
    obtain ⟨w, n⟩ := p
    have hw := hwd w n rfl
    have hx : DT.usPerDay ≤ x2 := by unfold DT.minMicros at h1; omega
    have ht := DT.toMicros_ofMicros x2 hx
    have hr := Cal.weekdayOfOrd_range (DT.ofMicros x2).ordinal
    have hj := jumpDays_eq_spec w n (DT.ofMicros x2).weekday hw hr
    simp only [applyWeekday, Except.bind]
    unfold DT.addDays DT.addMicros
    rw [ht, hj]
    have e : x2 + RDSpec.nthWeekdayOffset (DT.ofMicros x2).weekday w (RDSpec.nOf n) * DT.usPerDay
        = RDSpec.afterWeekday x2 w n := by
      unfold RDSpec.afterWeekday DT.usPerDay; rfl
    rw [e]
    by_cases hc : RDSpec.afterWeekday x2 w n < DT.minMicros ∨ RDSpec.afterWeekday x2 w n > DT.maxMicros
    · simp only [hc, ↓reduceIte]
    · simp only [hc, ↓reduceIte]; rfl

/-- steps after the month carry: the model's tail is the spec's tail -/
theorem applyTail_eq (d : RD) (k : Kind) (t0 : DT) (y m : Int) (hm : 1 ≤ m ∧ m ≤ 12)
    (hday : d.day ≠ some 0)
    (hk : k = .date → hasAbsTime d = false ∧ d.hours = 0 ∧ d.minutes = 0 ∧ d.seconds = 0 ∧ d.microseconds = 0)
    (hwd : ∀ w n, d.weekday = some (w, n) → 0 ≤ w ∧ w ≤ 6) :
    applyTail d k t0 y m =
      RDSpec.applyShifted d k t0 y m (min (d.day.getD t0.d) (Cal.daysInMonth y m)) := by
  unfold applyTail RDSpec.applyShifted
  have hmr : monthrange1 y m = .ok (Cal.daysInMonth y m) := by
    unfold monthrange1; rw [if_pos hm]
  rw [hmr, orInt_getD _ _ hday, Int.min_comm]
  simp only [bind]
  rw [show ∀ (f : Int → Py.R Temporal), Except.bind (Except.ok (Cal.daysInMonth y m)) f = f (Cal.daysInMonth y m) from fun _ => rfl]
  generalize min (Cal.daysInMonth y m) (d.day.getD t0.d) = dd
  -- replace
  have hrep : replaced d k t0 y m dd =
      if ¬ fitsCInt (RDSpec.shiftedDT d t0 y m dd) then .error .OverflowError
      else if (RDSpec.shiftedDT d t0 y m dd).Valid then .ok (RDSpec.shiftedDT d t0 y m dd) else .error .ValueError := by
    unfold replaced
    rw [if_neg]
    · simp only [DT.valid, decide_eq_true_eq]; rfl
    · intro ⟨h1, h2⟩; have := (hk h1).1; rw [this] at h2; exact absurd h2 (by decide)
  rw [hrep]
  by_cases hc : fitsCInt (RDSpec.shiftedDT d t0 y m dd) = true
  · simp only [hc, not_true_eq_false, ↓reduceIte]
    by_cases hv : (RDSpec.shiftedDT d t0 y m dd).Valid
    · simp only [hv, not_true_eq_false, ↓reduceIte, Except.bind]
      rw [deltaMicros_eq_duration, addDelta_eq d k _ _ (fun h => (hk h).2)]
      unfold DT.addMicros
      simp only []
      have ea : (RDSpec.shiftedDT d t0 y m dd).toMicros + RDSpec.duration d (decide (m > 2) && Cal.isLeap y)
          = RDSpec.afterDuration d t0 y m dd := rfl
      rw [ea]
      by_cases hr : RDSpec.afterDuration d t0 y m dd < DT.minMicros ∨ RDSpec.afterDuration d t0 y m dd > DT.maxMicros
      · simp only [hr, ↓reduceIte, Except.bind]
      · simp only [hr, ↓reduceIte]
        exact applyWeekday_eq d.weekday _ k hr hwd
    · simp only [hv, not_false_eq_true, ↓reduceIte, Except.bind]
  · rw [if_pos hc, if_pos hc]; rfl

/-- hypotheses of the property's domain on the delta: produced by the constructor (normalised),
    absolute year/month/day not 0 (falsy ⇒ ignored by the code), absolute month a month,
    weekday 0..6 -/
structure InDomain (d : RD) : Prop where
  norm : Normalised d
  year : d.year ≠ some 0
  month : ∀ v, d.month = some v → 1 ≤ v ∧ v ≤ 12
  day : d.day ≠ some 0
  wd : ∀ w n, d.weekday = some (w, n) → 0 ≤ w ∧ w ≤ 6

theorem hasTimeOf_zero (d : RD) (h : hasTimeOf d = 0) :
    hasAbsTime d = false ∧ d.hours = 0 ∧ d.minutes = 0 ∧ d.seconds = 0 ∧ d.microseconds = 0 := by
  unfold hasTimeOf at h
  split at h
  · exact absurd h (by decide)
  · rename_i hn
    simp only [not_or, ne_eq, Classical.not_not] at hn
    obtain ⟨h1, h2, h3, h4, h5, h6, h7, h8⟩ := hn
    refine ⟨?_, h1, h2, h3, h4⟩
    unfold hasAbsTime; rw [h5, h6, h7, h8]; rfl

theorem applyTo_eq_spec (d : RD) (x : Temporal) (hd : InDomain d) (hx : x.Valid) :
    applyTo d x = RDSpec.apply d x := by
  obtain ⟨hn, hy, hm, hday, hwd⟩ := hd
  obtain ⟨hxv, hxd⟩ := hx
  have hxm : 1 ≤ x.t.m ∧ x.t.m ≤ 12 := ⟨hxv.1.2.2.1, hxv.1.2.2.2.1⟩
  have em : orInt d.month x.t.m = d.month.getD x.t.m :=
    orInt_getD _ _ (fun e => by have := hm 0 e; omega)
  have hm0 : 1 ≤ orInt d.month x.t.m ∧ orInt d.month x.t.m ≤ 12 := by
    rw [em]; cases h : d.month with
    | none => exact hxm
    | some v => exact hm v h
  have hmo : -12 ≤ d.months ∧ d.months ≤ 12 := by have := hn.2.2.2.2.1; omega
  unfold applyTo RDSpec.apply
  rw [promote_t, ymCarry_eq_shift d _ _ hmo hm0, em, orInt_getD _ _ hy]
  simp only [bind, Except.bind, RDSpec.monthShift]
  rw [applyTail_eq d _ _ _ _ (by omega) hday ?_ hwd, promote_kind d x hn]
  intro hk
  rw [promote_kind d x hn] at hk
  have hz : hasTimeOf d = 0 := by
    apply Classical.byContradiction
    intro hc
    have := (hasTimeOf_ne_zero d).1 hc
    by_cases hkd : x.kind = .date
    · simp [hkd, this] at hk
    · simp [hkd] at hk
  exact hasTimeOf_zero d hz

theorem toMicros_range (t : DT) (h : t.Valid) : DT.minMicros ≤ t.toMicros ∧ t.toMicros ≤ DT.maxMicros := by
  have hr := DT.timeMicros_range t h
  obtain ⟨⟨hy1, hy2, hv⟩, _⟩ := h
  have h1 := Cal.toOrdinal_pos t.y t.m t.d hy1 hv
  have h2 : Cal.toOrdinal t.y t.m t.d ≤ Cal.maxOrdinal := by
    have e9 : Cal.toOrdinal 9999 12 31 = 3652059 := by decide
    unfold Cal.maxOrdinal
    by_cases hc : t.y = 9999 ∧ t.m = 12 ∧ t.d = 31
    · rw [hc.1, hc.2.1, hc.2.2, e9]; exact Int.le_refl _
    · have hlex : t.y < 9999 ∨ (t.y = 9999 ∧ (t.m < 12 ∨ (t.m = 12 ∧ t.d < 31))) := by
        have hd : t.d ≤ Cal.daysInMonth t.y t.m := hv.2.2.2
        have hm : t.m ≤ 12 := hv.2.1
        by_cases hy : t.y = 9999
        · right; refine ⟨hy, ?_⟩
          by_cases hm12 : t.m = 12
          · right; refine ⟨hm12, ?_⟩
            have : Cal.daysInMonth t.y 12 = 31 := by unfold Cal.daysInMonth; simp
            rw [hm12, this] at hd
            have : t.d ≠ 31 := fun e => hc ⟨hy, hm12, e⟩
            omega
          · left; omega
        · left; omega
      have := Cal.toOrdinal_lt_of_lex t.y t.m t.d 9999 12 31 hv (by decide) hlex
      omega
  unfold DT.toMicros DT.minMicros DT.maxMicros DT.ordinal DT.usPerDay Cal.maxOrdinal at *
  omega

/-- a delta with nothing but years and months (what `relativedelta(dt1, dt2)` adds in its loop) -/
def MonthsOnly (r : RD) : Prop :=
  r.days = 0 ∧ r.leapdays = 0 ∧ r.hours = 0 ∧ r.minutes = 0 ∧ r.seconds = 0 ∧ r.microseconds = 0 ∧
  r.year = none ∧ r.month = none ∧ r.day = none ∧ r.weekday = none ∧ r.hour = none ∧
  r.minute = none ∧ r.second = none ∧ r.microsecond = none ∧ r.hasTime = 0 ∧
  -11 ≤ r.months ∧ r.months ≤ 11

/-- `(y, m, d)` shifted by `k` whole months with the day clipped, other fields kept -/
def shiftDT (t : DT) (k : Int) : DT :=
  { t with y := (12 * t.y + (t.m - 1) + k) / 12, m := (12 * t.y + (t.m - 1) + k) % 12 + 1,
           d := min t.d (Cal.daysInMonth ((12 * t.y + (t.m - 1) + k) / 12) ((12 * t.y + (t.m - 1) + k) % 12 + 1)) }

theorem shiftDT_valid (t : DT) (k : Int) (h : t.Valid)
    (hy : 1 ≤ (12 * t.y + (t.m - 1) + k) / 12 ∧ (12 * t.y + (t.m - 1) + k) / 12 ≤ 9999) :
    (shiftDT t k).Valid := by
  obtain ⟨⟨_, _, _, _, hd1, _⟩, ht⟩ := h
  have hb := Cal.daysInMonth_bounds ((12 * t.y + (t.m - 1) + k) / 12) ((12 * t.y + (t.m - 1) + k) % 12 + 1)
  unfold shiftDT DT.Valid Cal.ValidDate Cal.ValidYMD
  simp only []
  refine ⟨⟨hy.1, hy.2, by omega, by omega, by omega, by omega⟩, ht⟩

theorem applyTo_months_only (r : RD) (x : Temporal) (hr : MonthsOnly r) (hx : x.Valid)
    (hy : 1 ≤ (12 * x.t.y + (x.t.m - 1) + (12 * r.years + r.months)) / 12 ∧
          (12 * x.t.y + (x.t.m - 1) + (12 * r.years + r.months)) / 12 ≤ 9999) :
    applyTo r x = .ok { kind := x.kind, t := shiftDT x.t (12 * r.years + r.months) } := by
  obtain ⟨h1, h2, h3, h4, h5, h6, h7, h8, h9, h10, h11, h12, h13, h14, h15, h16, h17⟩ := hr
  have hto : hasTimeOf r = 0 := by unfold hasTimeOf; simp [h3, h4, h5, h6, h11, h12, h13, h14]
  have hdom : InDomain r := by
    refine ⟨⟨by omega, by omega, by omega, by omega, by omega, by rw [h15, hto]⟩, by simp [h7], ?_, by simp [h9], ?_⟩
    · intro v hv; rw [h8] at hv; contradiction
    · intro w n hw; rw [h10] at hw; contradiction
  have hti : RDSpec.hasTimeInfo r = false := by
    cases hc : RDSpec.hasTimeInfo r with
    | false => rfl
    | true => exact absurd hto ((hasTimeOf_ne_zero r).2 hc)
  rw [applyTo_eq_spec r x hdom hx]
  unfold RDSpec.apply RDSpec.monthShift
  simp only [h7, h8, h9, hti, Option.getD_none, Bool.false_eq_true, and_false, ↓reduceIte]
  have hv := shiftDT_valid x.t (12 * r.years + r.months) hx.1 hy
  have es : RDSpec.shiftedDT r x.t ((12 * x.t.y + (x.t.m - 1) + (12 * r.years + r.months)) / 12)
      ((12 * x.t.y + (x.t.m - 1) + (12 * r.years + r.months)) % 12 + 1)
      (min x.t.d (Cal.daysInMonth ((12 * x.t.y + (x.t.m - 1) + (12 * r.years + r.months)) / 12)
        ((12 * x.t.y + (x.t.m - 1) + (12 * r.years + r.months)) % 12 + 1))) = shiftDT x.t (12 * r.years + r.months) := by
    unfold RDSpec.shiftedDT shiftDT; simp only [h11, h12, h13, h14, Option.getD_none]
  unfold RDSpec.applyShifted RDSpec.afterDuration
  rw [es]
  have hfit : fitsCInt (shiftDT x.t (12 * r.years + r.months)) = true := by
    obtain ⟨⟨a1, a2, a3, a4, a5, a6⟩, a7⟩ := hv
    have := Cal.daysInMonth_bounds (shiftDT x.t (12 * r.years + r.months)).y (shiftDT x.t (12 * r.years + r.months)).m
    unfold fitsCInt; apply decide_eq_true; omega
  have hdur : RDSpec.duration r (decide ((12 * x.t.y + (x.t.m - 1) + (12 * r.years + r.months)) % 12 + 1 > 2) &&
      Cal.isLeap ((12 * x.t.y + (x.t.m - 1) + (12 * r.years + r.months)) / 12)) = 0 := by
    unfold RDSpec.duration; rw [h1, h2, h3, h4, h5, h6]; split <;> omega
  have hrange := toMicros_range _ hv
  rw [hdur, Int.add_zero, if_neg (by simp [hfit]), if_neg (by simp [hv]), if_neg (by omega)]
  unfold RDSpec.weekdayStep
  rw [h10]
  simp only []
  rw [DT.ofMicros_toMicros _ hv]

/-- adding whole days to a valid datetime: the ordinal moves by `n`, the time of day stays -/
theorem addDays_ok (t r : DT) (n : Int) (ht : t.Valid) (h : t.addDays n = .ok r) :
    r.Valid ∧ r.ordinal = t.ordinal + n ∧ r.timeMicros = t.timeMicros ∧
    r.hh = t.hh ∧ r.mm = t.mm ∧ r.ss = t.ss ∧ r.us = t.us := by
  unfold DT.addDays DT.addMicros at h
  simp only [] at h
  split at h
  · contradiction
  · rename_i hr
    injection h with h
    have hx : DT.minMicros ≤ t.toMicros + n * DT.usPerDay ∧ t.toMicros + n * DT.usPerDay ≤ DT.maxMicros := by omega
    have hv := DT.ofMicros_valid _ hx.1 hx.2
    have hm := DT.toMicros_ofMicros (t.toMicros + n * DT.usPerDay) (by unfold DT.minMicros at hx; omega)
    rw [h] at hv hm
    have r1 := DT.timeMicros_range r hv
    have r2 := DT.timeMicros_range t ht
    have ho : r.ordinal = t.ordinal + n ∧ r.timeMicros = t.timeMicros := by
      unfold DT.toMicros DT.usPerDay at *
      omega
    refine ⟨hv, ho.1, ho.2, ?_⟩
    have e := ho.2
    obtain ⟨_, a1, a2, a3, a4, a5, a6, a7, a8⟩ := hv
    obtain ⟨_, b1, b2, b3, b4, b5, b6, b7, b8⟩ := ht
    unfold DT.timeMicros at e
    omega

end RDP
