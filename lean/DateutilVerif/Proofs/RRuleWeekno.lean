/-
  Proofs/RRuleWeekno.lean — the week-number mask of `_iterinfo.rebuild` (lines 1157-1222).
  Proved so far (not yet wired into the refinement): the marking loop
  `for j in range(7): mask[i] = 1; i += 1; if wdaymask[i] == wkst: break` (`markWeek_spec`, `markWeek_week`) and the
  main loop over BYWEEKNO (`weekLoop_spec`): an index is marked iff it lies in one of the listed, normalised,
  existing weeks.  Missing for `wnomask`: the next-year week 1 branch, the last-year branch (`lnumweeks`, D-C01c),
  and the bridge to the specification's `weekOf`.
-/
import DateutilVerif.Proofs.RRuleEasterYearly

namespace RRule
open Cal

variable {r : Rule} {y : Int} {info : Info}

/-- `markWeek` marks the indices from `i` up to (excluding) the next index whose weekday is `wkst`,
    at most `n` of them, and nothing else -/
theorem markWeek_spec (f : YearFacts r y info) (wkst : Int) : ∀ (n : Nat) (i : Int) (mask : List Int),
    0 ≤ i → i + n ≤ (mask.length : Int) → (mask.length : Int) ≤ 378 → 1 ≤ n →
    ∃ mask' e, markWeek info.wdaymask wkst n mask i = .ok mask' ∧ mask'.length = mask.length ∧
      i < e ∧ e ≤ i + n ∧
      (∀ j, i < j → j < e → weekdayOfOrd (info.yearordinal + j) ≠ wkst) ∧
      (e = i + n ∨ weekdayOfOrd (info.yearordinal + e) = wkst) ∧
      ∀ j : Int, 0 ≤ j → j < (mask.length : Int) →
        Py.getIdx mask' j = (if i ≤ j ∧ j < e then .ok 1 else Py.getIdx mask j) := by
  intro n
  induction n with
  | zero => intro i mask _ _ _ h; omega
  | succ k ih =>
    intro i mask h0 hn hlen _
    unfold markWeek
    obtain ⟨m1, hm1, hl1, _⟩ := getIdx_set mask i 0 1 ⟨h0, by omega⟩ ⟨by omega, by omega⟩
    rw [hm1]
    dsimp only
    rw [wdaymask_date f (i + 1) (by omega) (by omega)]
    dsimp only
    have hset : ∀ j : Int, 0 ≤ j → j < (mask.length : Int) →
        Py.getIdx m1 j = (if j = i then .ok 1 else Py.getIdx mask j) := by
      intro j hj0 hj1
      obtain ⟨m1', hm1', _, hg⟩ := getIdx_set mask i j 1 ⟨h0, by omega⟩ ⟨hj0, hj1⟩
      rw [hm1] at hm1'; injection hm1' with e; subst e
      exact hg
    by_cases hw : weekdayOfOrd (info.yearordinal + (i + 1)) = wkst
    · rw [if_pos (by simp [hw])]
      refine ⟨m1, i + 1, rfl, hl1, by omega, by omega, by intro j h1 h2; omega, Or.inr hw, ?_⟩
      intro j hj0 hj1
      rw [hset j hj0 hj1]
      by_cases c : j = i
      · rw [if_pos c, if_pos (by omega)]
      · rw [if_neg c, if_neg (by omega)]
    · rw [if_neg (by simp [hw])]
      by_cases hk : k = 0
      · subst hk
        refine ⟨m1, i + 1, by simp [markWeek], hl1, by omega, by omega, by intro j h1 h2; omega,
                Or.inl (by omega), ?_⟩
        intro j hj0 hj1
        rw [hset j hj0 hj1]
        by_cases c : j = i
        · rw [if_pos c, if_pos (by omega)]
        · rw [if_neg c, if_neg (by omega)]
      · obtain ⟨m2, e, h2, hl2, e1, e2, e3, e4, e5⟩ := ih (i + 1) m1 (by omega) (by rw [hl1]; push_cast at hn ⊢; omega)
          (by rw [hl1]; exact hlen) (by omega)
        refine ⟨m2, e, h2, by rw [hl2, hl1], by omega, by push_cast; omega, ?_, ?_, ?_⟩
        · intro j hj1 hj2
          by_cases c : j = i + 1
          · subst c; exact hw
          · exact e3 j (by omega) hj2
        · rcases e4 with e4 | e4
          · left; push_cast; omega
          · right; exact e4
        · intro j hj0 hj1
          rw [e5 j hj0 (by rw [hl1]; exact hj1), hset j hj0 hj1]
          by_cases c1 : i + 1 ≤ j ∧ j < e
          · rw [if_pos c1, if_pos (by omega)]
          · rw [if_neg c1]
            by_cases c2 : j = i
            · rw [if_pos c2, if_pos (by omega)]
            · rw [if_neg c2, if_neg (by omega)]

/-- with a week start in 0..6 and seven rounds, the loop stops exactly at the next week start -/
theorem markWeek_week (f : YearFacts r y info) (wkst : Int) (hw : 0 ≤ wkst ∧ wkst ≤ 6) (i : Int) (mask : List Int)
    (h0 : 0 ≤ i) (hn : i + 7 ≤ (mask.length : Int)) (hlen : (mask.length : Int) ≤ 378) :
    ∃ mask', markWeek info.wdaymask wkst 7 mask i = .ok mask' ∧ mask'.length = mask.length ∧
      ∀ j : Int, 0 ≤ j → j < (mask.length : Int) →
        Py.getIdx mask' j =
          (if i ≤ j ∧ j < i + ((wkst - weekdayOfOrd (info.yearordinal + i) - 1) % 7 + 1) then .ok 1
           else Py.getIdx mask j) := by
  obtain ⟨m, e, h1, h2, e1, e2, e3, e4, e5⟩ := markWeek_spec f wkst 7 i mask h0 (by omega) hlen (by omega)
  refine ⟨m, h1, h2, ?_⟩
  have hr := weekdayOfOrd_range (info.yearordinal + i)
  have hwd : ∀ j : Int, weekdayOfOrd (info.yearordinal + j) = (weekdayOfOrd (info.yearordinal + i) + (j - i)) % 7 := by
    intro j
    have e : info.yearordinal + j = info.yearordinal + i + (j - i) := by omega
    rw [e, weekdayOfOrd_add]
  have he : e = i + ((wkst - weekdayOfOrd (info.yearordinal + i) - 1) % 7 + 1) := by
    generalize hd : (wkst - weekdayOfOrd (info.yearordinal + i) - 1) % 7 + 1 = d
    have hdr : 1 ≤ d ∧ d ≤ 7 := by omega
    -- index i + d is a week start
    have hd_ws : weekdayOfOrd (info.yearordinal + (i + d)) = wkst := by rw [hwd]; omega
    by_cases c : e ≤ i + d
    · by_cases c2 : e = i + d
      · exact c2
      · exfalso
        rcases e4 with e4 | e4
        · omega
        · rw [hwd e] at e4; omega
    · exfalso
      exact e3 (i + d) (by omega) (by omega) hd_ws
  intro j hj0 hj1
  rw [e5 j hj0 hj1, he]

/-! ### Part 2: the loop over BYWEEKNO -/

/-- a week-number as the code normalises it: negative numbers count from `numweeks` -/
def normWeek (numweeks n : Int) : Int := if n < 0 then n + numweeks + 1 else n

/-- index `j` lies in week `n'` of the year whose week 1 starts at index `W1` (possibly negative) -/
def inWeek (W1 n' j : Int) : Prop := W1 + 7 * (n' - 1) ≤ j ∧ j < W1 + 7 * n'

instance (W1 n' j : Int) : Decidable (inWeek W1 n' j) := by unfold inWeek; exact inferInstance

/-- the main loop (lines 1171-1186) over a list of week numbers: an index `j ≥ 0` ends up marked iff
    it was marked before or lies in one of the listed (normalised, existing) weeks -/
theorem weekLoop_spec (f : YearFacts r y info) (wkst : Int) (hw : 0 ≤ wkst ∧ wkst ≤ 6)
    (no1wkst numweeks back : Int) (hno : 0 ≤ no1wkst ∧ no1wkst ≤ 3) (hback : back = 0 ∨ (no1wkst = 0 ∧ 1 ≤ back ∧ back ≤ 3))
    (hws : weekdayOfOrd (info.yearordinal + (no1wkst - back)) = wkst)
    (hfit : no1wkst - back + 7 * numweeks ≤ info.yearlen + 3) :
    ∀ (bw : List Int) (mask : List Int), (mask.length : Int) = info.yearlen + 7 →
    ∃ mask', bw.foldlM (wnoStep info.wdaymask wkst no1wkst numweeks back) mask = .ok mask' ∧
      mask'.length = mask.length ∧
      ∀ j : Int, 0 ≤ j → j < info.yearlen + 7 →
        Py.getIdx mask' j =
          (if ∃ n ∈ bw, 0 < normWeek numweeks n ∧ normWeek numweeks n ≤ numweeks ∧
                inWeek (no1wkst - back) (normWeek numweeks n) j
           then .ok 1 else Py.getIdx mask j) := by
  have hylen : 365 ≤ info.yearlen ∧ info.yearlen ≤ 366 := by rw [f.yearlen]; unfold daysInYear; split <;> omega
  intro bw
  induction bw with
  | nil => intro mask _; exact ⟨mask, rfl, rfl, by intro j _ _; simp⟩
  | cons n0 ns ih =>
    intro mask hlen
    rw [List.foldlM_cons]
    -- one step
    have hstep : ∃ m1, wnoStep info.wdaymask wkst no1wkst numweeks back mask n0 = .ok m1 ∧ m1.length = mask.length ∧
        ∀ j : Int, 0 ≤ j → j < info.yearlen + 7 →
          Py.getIdx m1 j = (if 0 < normWeek numweeks n0 ∧ normWeek numweeks n0 ≤ numweeks ∧
              inWeek (no1wkst - back) (normWeek numweeks n0) j then .ok 1 else Py.getIdx mask j) := by
      unfold wnoStep
      dsimp only
      have hnorm : (if n0 < 0 then n0 + numweeks + 1 else n0) = normWeek numweeks n0 := rfl
      rw [hnorm]
      generalize normWeek numweeks n0 = n'
      by_cases hin : 0 < n' ∧ n' ≤ numweeks
      · rw [if_neg (by simp; omega)]
        by_cases h1 : n' > 1
        · rw [if_pos h1]
          -- a full week starting on a week start
          have hi0 : 0 ≤ no1wkst + (n' - 1) * 7 - back := by rcases hback with h | h <;> omega
          obtain ⟨m1, hm1, hl1, hg⟩ := markWeek_week f wkst hw (no1wkst + (n' - 1) * 7 - back) mask hi0
            (by rw [hlen]; omega) (by rw [hlen]; omega)
          refine ⟨m1, hm1, hl1, ?_⟩
          intro j hj0 hj1
          rw [hg j hj0 (by rw [hlen]; exact hj1)]
          have hwd : weekdayOfOrd (info.yearordinal + (no1wkst + (n' - 1) * 7 - back)) = wkst := by
            have e : info.yearordinal + (no1wkst + (n' - 1) * 7 - back) =
                info.yearordinal + (no1wkst - back) + 7 * (n' - 1) := by omega
            rw [e, weekdayOfOrd_add, hws]; omega
          rw [hwd]
          have e7 : (wkst - wkst - 1) % 7 + 1 = 7 := by omega
          rw [e7]
          unfold inWeek
          by_cases c : no1wkst + (n' - 1) * 7 - back ≤ j ∧ j < no1wkst + (n' - 1) * 7 - back + 7
          · rw [if_pos c, if_pos ⟨hin.1, hin.2, by omega, by omega⟩]
          · rw [if_neg c, if_neg (by rintro ⟨_, _, h1, h2⟩; omega)]
        · rw [if_neg h1]
          have hn1 : n' = 1 := by omega
          subst hn1
          obtain ⟨m1, hm1, hl1, hg⟩ := markWeek_week f wkst hw no1wkst mask hno.1
            (by rw [hlen]; omega) (by rw [hlen]; omega)
          refine ⟨m1, hm1, hl1, ?_⟩
          intro j hj0 hj1
          rw [hg j hj0 (by rw [hlen]; exact hj1)]
          -- the first week: from no1wkst to the next week start, which is no1wkst − back + 7
          have hrange := weekdayOfOrd_range (info.yearordinal + no1wkst)
          have hwd : weekdayOfOrd (info.yearordinal + no1wkst) = (wkst + back) % 7 := by
            have e : info.yearordinal + no1wkst = info.yearordinal + (no1wkst - back) + back := by omega
            rw [e, weekdayOfOrd_add, hws]
          rw [hwd]
          have e7 : (wkst - (wkst + back) % 7 - 1) % 7 + 1 = 7 - back := by rcases hback with h | h <;> omega
          rw [e7]
          unfold inWeek
          by_cases c : no1wkst ≤ j ∧ j < no1wkst + (7 - back)
          · rw [if_pos c, if_pos ⟨by omega, hin.2, by omega, by omega⟩]
          · rw [if_neg c, if_neg (by rintro ⟨_, _, h1, h2⟩; rcases hback with h | h <;> omega)]
      · rw [if_pos (by simpa using hin)]
        refine ⟨mask, rfl, rfl, ?_⟩
        intro j _ _
        rw [if_neg (by rintro ⟨h1, h2, _⟩; exact hin ⟨h1, h2⟩)]
    obtain ⟨m1, hm1, hl1, hg1⟩ := hstep
    obtain ⟨m2, hm2, hl2, hg2⟩ := ih m1 (by rw [hl1]; exact hlen)
    refine ⟨m2, ?_, by rw [hl2, hl1], ?_⟩
    · simp only [bind, Except.bind]
      rw [hm1]
      exact hm2
    · intro j hj0 hj1
      rw [hg2 j hj0 hj1, hg1 j hj0 hj1]
      by_cases c1 : ∃ n ∈ ns, 0 < normWeek numweeks n ∧ normWeek numweeks n ≤ numweeks ∧
          inWeek (no1wkst - back) (normWeek numweeks n) j
      · rw [if_pos c1, if_pos]
        obtain ⟨n, hn, rest⟩ := c1
        exact ⟨n, List.mem_cons_of_mem _ hn, rest⟩
      · rw [if_neg c1]
        by_cases c2 : 0 < normWeek numweeks n0 ∧ normWeek numweeks n0 ≤ numweeks ∧
            inWeek (no1wkst - back) (normWeek numweeks n0) j
        · rw [if_pos c2, if_pos ⟨n0, List.mem_cons_self .., c2⟩]
        · rw [if_neg c2, if_neg]
          rintro ⟨n, hn, rest⟩
          rcases List.mem_cons.mp hn with rfl | hn
          · exact c2 rest
          · exact c1 ⟨n, hn, rest⟩

end RRule
