/-
  Proofs/RRuleWeekno.lean — the week-number mask of `_iterinfo.rebuild` (lines 1157-1222).
  Part 1: the marking loop `for j in range(7): mask[i] = 1; i += 1; if wdaymask[i] == wkst: break`.
-/
import DateutilVerif.Proofs.RRuleEasterYearly

namespace RRule
open Cal

variable {r : Rule} {y : Int} {info : Info}

/-- `markWeek` marks the indices from `i` up to (excluding) the next index whose weekday is `wkst`,
    at most `n` of them, and nothing else -/
theorem markWeek_spec (f : YearFacts r y info) (wkst : Int) : ∀ (n : Nat) (i : Int) (mask : List Int),
    0 ≤ i → i + n ≤ (mask.length : Int) → (mask.length : Int) ≤ 378 → 1 ≤ n →
    ∃ mask' e, markWeek info.wdaymask wkst n mask i = .ok mask' ∧ mask'.length = mask.length ∧
      i < e ∧ e ≤ i + n ∧
      (∀ j, i < j → j < e → weekdayOfOrd (info.yearordinal + j) ≠ wkst) ∧
      (e = i + n ∨ weekdayOfOrd (info.yearordinal + e) = wkst) ∧
      ∀ j : Int, 0 ≤ j → j < (mask.length : Int) →
        Py.getIdx mask' j = (if i ≤ j ∧ j < e then .ok 1 else Py.getIdx mask j) := by
  intro n
  induction n with
  | zero => intro i mask _ _ _ h; omega
  | succ k ih =>
    intro i mask h0 hn hlen _
    unfold markWeek
    obtain ⟨m1, hm1, hl1, _⟩ := getIdx_set mask i 0 1 ⟨h0, by omega⟩ ⟨by omega, by omega⟩
    rw [hm1]
    dsimp only
    rw [wdaymask_date f (i + 1) (by omega) (by omega)]
    dsimp only
    have hset : ∀ j : Int, 0 ≤ j → j < (mask.length : Int) →
        Py.getIdx m1 j = (if j = i then .ok 1 else Py.getIdx mask j) := by
      intro j hj0 hj1
      obtain ⟨m1', hm1', _, hg⟩ := getIdx_set mask i j 1 ⟨h0, by omega⟩ ⟨hj0, hj1⟩
      rw [hm1] at hm1'; injection hm1' with e; subst e
      exact hg
    by_cases hw : weekdayOfOrd (info.yearordinal + (i + 1)) = wkst
    · rw [if_pos (by simp [hw])]
      refine ⟨m1, i + 1, rfl, hl1, by omega, by omega, by intro j h1 h2; omega, Or.inr hw, ?_⟩
      intro j hj0 hj1
      rw [hset j hj0 hj1]
      by_cases c : j = i
      · rw [if_pos c, if_pos (by omega)]
      · rw [if_neg c, if_neg (by omega)]
    · rw [if_neg (by simp [hw])]
      by_cases hk : k = 0
      · subst hk
        refine ⟨m1, i + 1, by simp [markWeek], hl1, by omega, by omega, by intro j h1 h2; omega,
                Or.inl (by omega), ?_⟩
        intro j hj0 hj1
        rw [hset j hj0 hj1]
        by_cases c : j = i
        · rw [if_pos c, if_pos (by omega)]
        · rw [if_neg c, if_neg (by omega)]
      · obtain ⟨m2, e, h2, hl2, e1, e2, e3, e4, e5⟩ := ih (i + 1) m1 (by omega) (by rw [hl1]; push_cast at hn ⊢; omega)
          (by rw [hl1]; exact hlen) (by omega)
        refine ⟨m2, e, h2, by rw [hl2, hl1], by omega, by push_cast; omega, ?_, ?_, ?_⟩
        · intro j hj1 hj2
          by_cases c : j = i + 1
          · subst c; exact hw
          · exact e3 j (by omega) hj2
        · rcases e4 with e4 | e4
          · left; push_cast; omega
          · right; exact e4
        · intro j hj0 hj1
          rw [e5 j hj0 (by rw [hl1]; exact hj1), hset j hj0 hj1]
          by_cases c1 : i + 1 ≤ j ∧ j < e
          · rw [if_pos c1, if_pos (by omega)]
          · rw [if_neg c1]
            by_cases c2 : j = i
            · rw [if_pos c2, if_pos (by omega)]
            · rw [if_neg c2, if_neg (by omega)]

/-- with a week start in 0..6 and seven rounds, the loop stops exactly at the next week start -/
theorem markWeek_week (f : YearFacts r y info) (wkst : Int) (hw : 0 ≤ wkst ∧ wkst ≤ 6) (i : Int) (mask : List Int)
    (h0 : 0 ≤ i) (hn : i + 7 ≤ (mask.length : Int)) (hlen : (mask.length : Int) ≤ 378) :
    ∃ mask', markWeek info.wdaymask wkst 7 mask i = .ok mask' ∧ mask'.length = mask.length ∧
      ∀ j : Int, 0 ≤ j → j < (mask.length : Int) →
        Py.getIdx mask' j =
          (if i ≤ j ∧ j < i + ((wkst - weekdayOfOrd (info.yearordinal + i) - 1) % 7 + 1) then .ok 1
           else Py.getIdx mask j) := by
  obtain ⟨m, e, h1, h2, e1, e2, e3, e4, e5⟩ := markWeek_spec f wkst 7 i mask h0 (by omega) hlen (by omega)
  refine ⟨m, h1, h2, ?_⟩
  have hr := weekdayOfOrd_range (info.yearordinal + i)
  have hwd : ∀ j : Int, weekdayOfOrd (info.yearordinal + j) = (weekdayOfOrd (info.yearordinal + i) + (j - i)) % 7 := by
    intro j
    have e : info.yearordinal + j = info.yearordinal + i + (j - i) := by omega
    rw [e, weekdayOfOrd_add]
  have he : e = i + ((wkst - weekdayOfOrd (info.yearordinal + i) - 1) % 7 + 1) := by
    generalize hd : (wkst - weekdayOfOrd (info.yearordinal + i) - 1) % 7 + 1 = d
    have hdr : 1 ≤ d ∧ d ≤ 7 := by omega
    -- index i + d is a week start
    have hd_ws : weekdayOfOrd (info.yearordinal + (i + d)) = wkst := by rw [hwd]; omega
    by_cases c : e ≤ i + d
    · by_cases c2 : e = i + d
      · exact c2
      · exfalso
        rcases e4 with e4 | e4
        · omega
        · rw [hwd e] at e4; omega
    · exfalso
      exact e3 (i + d) (by omega) (by omega) hd_ws
  intro j hj0 hj1
  rw [e5 j hj0 hj1, he]

end RRule
