/-
  Proofs/RenderMonFinal.lean — lexer + token scan = `parse` on the month-name renderings.
-/
import DateutilVerif.Proofs.RenderMonCtime
import DateutilVerif.Proofs.RenderMonRfc

namespace PM
open Py PT

section
variable (cls : Char → CClass) [AsciiOK cls]

theorem lex_hms (h mi s : Nat) (rest : List Char) (he : NumEnds cls rest) :
    scan cls .init (pad2 h ++ [':'] ++ pad2 mi ++ [':'] ++ pad2 s ++ rest) =
      [dtok [h / 10, h], [':'], dtok [mi / 10, mi], [':'], dtok [s / 10, s]] ++ scan cls .init rest := by
  simp only [List.append_assoc, List.singleton_append, List.cons_append, List.nil_append]
  rw [lex_pad2 cls _ _ (numEnds_ascii cls _ _ (by decide)), lex_punct cls ':' _ (by decide),
      lex_pad2 cls _ _ (numEnds_ascii cls _ _ (by decide)), lex_punct cls ':' _ (by decide), lex_pad2 cls _ _ he]

theorem wordEnds_sp (r : List Char) : WordEnds cls (' ' :: r) := wordEnds_ascii cls _ _ (by decide)
theorem wordEnds_comma (r : List Char) : WordEnds cls (',' :: r) := wordEnds_ascii cls _ _ (by decide)
theorem wordEnds_dash (r : List Char) : WordEnds cls ('-' :: r) := wordEnds_ascii cls _ _ (by decide)
theorem numEnds_sp (r : List Char) : NumEnds cls (' ' :: r) := numEnds_ascii cls _ _ (by decide)

theorem lex_digit1 (d : Nat) (rest : List Char) (he : NumEnds cls rest) :
    scan cls .init (digitChar d :: rest) = dtok [d] :: scan cls .init rest := lex_dtok cls d [] rest he

theorem lex_dec12 (d : Nat) (rest : List Char) (he : NumEnds cls rest) :
    scan cls .init (dec12 d ++ rest) = dayTok d :: scan cls .init rest := by
  unfold dec12 dayTok
  split
  · exact lex_dtok cls d [] rest he
  · exact lex_pad2 cls d rest he

theorem monWord_abbr (yf : Bool) (year century : Int) (m : Nat) (h1 : 1 ≤ m) (h2 : m ≤ 12) :
    MonWord cls (Info.default false yf year century) (monAbbr m) m ∧ isAlphaWord (monAbbr m) = true := by
  obtain ⟨a1, _, a3, _, a5, _, a7, _, a9, _, a11, _, a13, _⟩ := mon_facts m h1 h2
  exact ⟨⟨floatOk_alpha cls _ a5 a7, a3, a1, a9, a11, a13, isDigitTok_alpha cls _ a5⟩, a5⟩

theorem monWord_full (yf : Bool) (year century : Int) (m : Nat) (h1 : 1 ≤ m) (h2 : m ≤ 12) :
    MonWord cls (Info.default false yf year century) (monFull m) m ∧ isAlphaWord (monFull m) = true := by
  obtain ⟨_, a2, _, a4, _, a6, _, a8, _, a10, _, a12, _, a14⟩ := mon_facts m h1 h2
  exact ⟨⟨floatOk_alpha cls _ a6 a8, a4, a2, a10, a12, a14, isDigitTok_alpha cls _ a6⟩, a6⟩

theorem wdWord_abbr (yf : Bool) (year century : Int) (w : Nat) (h : w < 7) :
    WdWord cls (Info.default false yf year century) (wdAbbr w) w ∧ isAlphaWord (wdAbbr w) = true := by
  obtain ⟨a1, a2, a3⟩ := wd_facts w h
  exact ⟨⟨floatOk_alpha cls _ a2 a3, a1⟩, a2⟩

theorem parse_mon (yf : Bool) (year century : Int) (o : Opts) (tznames : List Token) (tzi : TzInfos)
    (ho : PlainOpts o tzi) (dflt : DT) (hdv : dflt.Valid) (t : DT) (ht : t.Valid) (f : MonFmt) (hf : f.Dom t)
    (off : Off) (hoff : off.Dom) :
    parse cls (Info.default false yf year century) o tznames tzi dflt (renderMon f t off) =
      .ok { dt := f.expect t dflt,
            tz := match f with
              | .rfc2822 _ => if o.ignoretz then .naive else offDescr tznames off
              | _ => .naive,
            tokens := none } := by
  obtain ⟨⟨hy1, hy2, hm1, hm2, hd1, hd2⟩, hh1, hh2, hmi1, hmi2, hs1, hs2, hu1, hu2⟩ := ht
  obtain ⟨_, dh1, dh2, dm1, dm2, hds1, hds2, hdu1, hdu2⟩ := hdv
  have hdim := (Cal.daysInMonth_bounds t.y t.m).2
  have ey : ((t.y.toNat : Nat) : Int) = t.y := Int.toNat_of_nonneg (by omega)
  have em : ((t.m.toNat : Nat) : Int) = t.m := Int.toNat_of_nonneg (by omega)
  have ed : ((t.d.toNat : Nat) : Int) = t.d := Int.toNat_of_nonneg (by omega)
  have eh : ((t.hh.toNat : Nat) : Int) = t.hh := Int.toNat_of_nonneg (by omega)
  have emi : ((t.mm.toNat : Nat) : Int) = t.mm := Int.toNat_of_nonneg (by omega)
  have es : ((t.ss.toNat : Nat) : Int) = t.ss := Int.toNat_of_nonneg (by omega)
  have edh : ((dflt.hh.toNat : Nat) : Int) = dflt.hh := Int.toNat_of_nonneg (by omega)
  have edm : ((dflt.mm.toNat : Nat) : Int) = dflt.mm := Int.toNat_of_nonneg (by omega)
  have eds : ((dflt.ss.toNat : Nat) : Int) = dflt.ss := Int.toNat_of_nonneg (by omega)
  have edu : ((dflt.us.toNat : Nat) : Int) = dflt.us := Int.toNat_of_nonneg (by omega)
  have hm1' : 1 ≤ t.m.toNat := by omega
  have hm2' : t.m.toNat ≤ 12 := by omega
  obtain ⟨hMoA, hAlA⟩ := monWord_abbr cls yf year century t.m.toNat hm1' hm2'
  obtain ⟨hMoF, hAlF⟩ := monWord_full cls yf year century t.m.toNat hm1' hm2'
  have hvDate : (DT.mk (t.y.toNat : Nat) (t.m.toNat : Nat) (t.d.toNat : Nat) (dflt.hh.toNat : Nat) (dflt.mm.toNat : Nat)
      (dflt.ss.toNat : Nat) (dflt.us.toNat : Nat)).Valid := by
    rw [ey, em, ed, edh, edm, eds, edu]
    exact ⟨⟨hy1, hy2, hm1, hm2, hd1, hd2⟩, dh1, dh2, dm1, dm2, hds1, hds2, hdu1, hdu2⟩
  have hvTime : (DT.mk (t.y.toNat : Nat) (t.m.toNat : Nat) (t.d.toNat : Nat) (t.hh.toNat : Nat) (t.mm.toNat : Nat)
      (t.ss.toNat : Nat) ((0 : Nat) : Int)).Valid := by
    rw [ey, em, ed, eh, emi, es]
    exact ⟨⟨hy1, hy2, hm1, hm2, hd1, hd2⟩, hh1, hh2, hmi1, hmi2, hs1, hs2, by simp, by simp⟩
  have hexpD : dflt.hh = ((dflt.hh.toNat : Nat) : Int) ∧ dflt.mm = ((dflt.mm.toNat : Nat) : Int) ∧
      dflt.ss = ((dflt.ss.toNat : Nat) : Int) ∧ dflt.us = ((dflt.us.toNat : Nat) : Int) := ⟨edh.symm, edm.symm, eds.symm, edu.symm⟩
  unfold parse lex
  cases f with
  | ctime w =>
    obtain ⟨hw, hy100⟩ := hf
    obtain ⟨hWd, hAlW⟩ := wdWord_abbr cls yf year century w hw
    have hlex : scan cls .init (renderMon (.ctime w) t off) =
        monTokens (.ctime w) (wdAbbr w) (monAbbr t.m.toNat) t.y.toNat t.d.toNat t.hh.toNat t.mm.toNat t.ss.toNat := by
      have e4 : pad4 t.y.toNat = pad4 t.y.toNat ++ [] := by simp
      simp only [renderMon, hmsColon, List.append_assoc, List.singleton_append, List.cons_append, List.nil_append, monTokens, sp2]
      rw [lex_alpha cls _ _ hAlW (wordEnds_sp cls _), lex_sp, lex_alpha cls _ _ hAlA (wordEnds_sp cls _), lex_sp]
      have hrest : scan cls .init (' ' :: (pad2 t.hh.toNat ++ (':' :: (pad2 t.mm.toNat ++ (':' :: (pad2 t.ss.toNat ++ (' ' :: pad4 t.y.toNat))))))) =
          [[' '], dtok [t.hh.toNat / 10, t.hh.toNat], [':'], dtok [t.mm.toNat / 10, t.mm.toNat], [':'],
           dtok [t.ss.toNat / 10, t.ss.toNat], [' '], y4 t.y.toNat] := by
        rw [lex_sp, lex_pad2 cls _ _ (numEnds_ascii cls _ _ (by decide)), lex_punct cls ':' _ (by decide),
            lex_pad2 cls _ _ (numEnds_ascii cls _ _ (by decide)), lex_punct cls ':' _ (by decide),
            lex_pad2 cls _ _ (numEnds_sp cls _), lex_sp, e4, lex_pad4 cls _ _ (numEnds_nil cls)]
        rfl
      split
      · simp only [List.cons_append, List.nil_append]
        rw [lex_sp, lex_digit1 cls t.d.toNat _ (numEnds_sp cls _), hrest]
      · rw [lex_pad2 cls _ _ (numEnds_sp cls _), hrest]
        simp
    rw [hlex]
    have := tok_mon_ctime cls yf year century o tznames tzi ho dflt _ _ w _ _ _ _ _ _ 0 hWd hMoA hvTime (by omega) rfl
    rw [ey, em, ed, eh, emi, es] at this
    simpa [MonFmt.expect] using this
  | rfc2822 w =>
    obtain ⟨hw, hy100⟩ := hf
    obtain ⟨hWd, hAlW⟩ := wdWord_abbr cls yf year century w hw
    have hlex : scan cls .init (renderMon (.rfc2822 w) t off) =
        monTokens (.rfc2822 w) (wdAbbr w) (monAbbr t.m.toNat) t.y.toNat t.d.toNat t.hh.toNat t.mm.toNat t.ss.toNat ++ offTokens off := by
      simp only [renderMon, hmsColon, List.append_assoc, List.singleton_append, List.cons_append, List.nil_append, monTokens]
      rw [lex_alpha cls _ _ hAlW (wordEnds_comma cls _), lex_punct cls ',' _ (by decide), lex_sp,
          lex_pad2 cls _ _ (numEnds_sp cls _), lex_sp, lex_alpha cls _ _ hAlA (wordEnds_sp cls _), lex_sp,
          lex_pad4 cls _ _ (numEnds_sp cls _), lex_sp,
          lex_pad2 cls _ _ (numEnds_ascii cls _ _ (by decide)), lex_punct cls ':' _ (by decide),
          lex_pad2 cls _ _ (numEnds_ascii cls _ _ (by decide)), lex_punct cls ':' _ (by decide),
          lex_pad2 cls _ _ (numEnds_off cls off), lex_off]
      rfl
    rw [hlex]
    have := tok_mon_rfc cls yf year century o tznames tzi ho dflt _ _ w _ _ _ _ _ _ 0 hWd hMoA hvTime (by omega) rfl off hoff
    rw [ey, em, ed, eh, emi, es] at this
    simpa [MonFmt.expect] using this
  | longDate =>
    have hlex : scan cls .init (renderMon .longDate t off) =
        monTokens .longDate [] (monFull t.m.toNat) t.y.toNat t.d.toNat dflt.hh.toNat dflt.mm.toNat dflt.ss.toNat := by
      have e4 : pad4 t.y.toNat = pad4 t.y.toNat ++ [] := by simp
      simp only [renderMon, List.append_assoc, List.singleton_append, List.cons_append, List.nil_append, monTokens]
      rw [lex_alpha cls _ _ hAlF (wordEnds_sp cls _), lex_sp]
      have hcomma : cls ',' = .other := cls_other cls ',' (by decide)
      have hcn : (cls ',').isNum = false := by rw [hcomma]; rfl
      have hsp : cls ' ' = .space := cls_space cls ' ' (by decide)
      have htail : scan cls .init (' ' :: pad4 t.y.toNat) = [[' '], y4 t.y.toNat] := by
        rw [lex_sp, e4, lex_pad4 cls _ _ (numEnds_nil cls)]; rfl
      unfold dec12 dayTok
      split
      · have := lex_num1_comma cls (digitChar t.d.toNat) (' ' :: pad4 t.y.toNat) (drun_dtok cls [t.d.toNat]) hcomma
        simp only [List.cons_append, List.nil_append]
        rw [this, htail]; rfl
      · have := lex_num_comma cls (digitChar (t.d.toNat / 10)) [digitChar t.d.toNat] ' ' (pad4 t.y.toNat)
          (drun_dtok cls [t.d.toNat / 10, t.d.toNat]) (by simp) hcn (by decide) (by rw [hsp]; rfl) (by decide) (by rw [hsp]; rfl)
        simp only [pad2, List.cons_append, List.nil_append] at this ⊢
        rw [this, htail]; rfl
    rw [hlex]
    have := tok_mon_date cls yf year century o tznames tzi ho dflt .longDate (Or.inl rfl) [] _ _ _ _ _ _ _ _ hMoF hvDate
      (Or.inr (by have : (100:Int) ≤ t.y := hf; omega)) hexpD
    rw [ey, em, ed, edh, edm, eds, edu] at this
    simpa [MonFmt.expect] using this
  | dMonY =>
    have hlex : scan cls .init (renderMon .dMonY t off) =
        monTokens .dMonY [] (monAbbr t.m.toNat) t.y.toNat t.d.toNat dflt.hh.toNat dflt.mm.toNat dflt.ss.toNat := by
      have e4 : pad4 t.y.toNat = pad4 t.y.toNat ++ [] := by simp
      simp only [renderMon, List.append_assoc, List.singleton_append, List.cons_append, List.nil_append, monTokens]
      rw [lex_dec12 cls _ _ (numEnds_sp cls _), lex_sp, lex_alpha cls _ _ hAlA (wordEnds_sp cls _), lex_sp, e4,
          lex_pad4 cls _ _ (numEnds_nil cls)]
      rfl
    rw [hlex]
    have := tok_mon_date cls yf year century o tznames tzi ho dflt .dMonY (Or.inr (Or.inl rfl)) [] _ _ _ _ _ _ _ _ hMoA hvDate
      (Or.inr (by have : (100:Int) ≤ t.y := hf; omega)) hexpD
    rw [ey, em, ed, edh, edm, eds, edu] at this
    simpa [MonFmt.expect] using this
  | ddMonY =>
    have hlex : scan cls .init (renderMon .ddMonY t off) =
        monTokens .ddMonY [] (monAbbr t.m.toNat) t.y.toNat t.d.toNat dflt.hh.toNat dflt.mm.toNat dflt.ss.toNat := by
      have e4 : pad4 t.y.toNat = pad4 t.y.toNat ++ [] := by simp
      simp only [renderMon, List.append_assoc, List.singleton_append, List.cons_append, List.nil_append, monTokens]
      rw [lex_pad2 cls _ _ (numEnds_ascii cls _ _ (by decide)), lex_punct cls '-' _ (by decide),
          lex_alpha cls _ _ hAlA (wordEnds_dash cls _), lex_punct cls '-' _ (by decide), e4, lex_pad4 cls _ _ (numEnds_nil cls)]
      rfl
    rw [hlex]
    have := tok_mon_date cls yf year century o tznames tzi ho dflt .ddMonY (Or.inr (Or.inr rfl)) [] _ _ _ _ _ _ _ _ hMoA hvDate
      (Or.inl rfl) hexpD
    rw [ey, em, ed, edh, edm, eds, edu] at this
    simpa [MonFmt.expect] using this

end
end PM
