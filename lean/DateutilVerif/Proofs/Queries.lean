/-
  Proofs/Queries.lean — lemmas for C12: each loop of Model/Queries.lean equals its list
  specification (Spec/Queries.lean); early exits use only sortedness.
-/
import DateutilVerif.Model.Queries
import DateutilVerif.Spec.Queries

namespace Queries
open Py

/-! ### index -/

theorem nthNext_eq (xs : List Int) (k : Nat) :
    nthNext xs k = match xs[k]? with | some x => .ok x | none => .error .IndexError := by
  induction xs generalizing k with
  | nil => simp [nthNext]
  | cons x xs ih =>
    cases k with
    | zero => simp [nthNext]
    | succ k => simp [nthNext, ih]

theorem getIdx_nonneg (xs : List Int) (i : Int) (h : 0 ≤ i) :
    getIdx xs i = match xs[i.toNat]? with | some x => .ok x | none => .error .IndexError := by
  unfold getIdx
  simp only []
  have h1 : ¬ i < 0 := by omega
  rw [if_neg h1]
  by_cases h2 : i < 0 ∨ i ≥ (xs.length : Int)
  · rw [if_pos h2]
    have : xs[i.toNat]? = none := by
      apply List.getElem?_eq_none; omega
    rw [this]
  · rw [if_neg h2]
    cases xs[i.toNat]? <;> rfl

theorem nthNext_getIdx (xs : List Int) (i : Int) (h : 0 ≤ i) : nthNext xs i.toNat = getIdx xs i := by
  rw [nthNext_eq, getIdx_nonneg xs i h]

/-! ### contains -/

theorem containsLoop_eq (x : Int) (xs : List Int) (h : Sorted xs) :
    containsLoop x xs = decide (x ∈ xs) := by
  induction xs with
  | nil => simp [containsLoop]
  | cons i xs ih =>
    have hs := List.pairwise_cons.mp h
    unfold containsLoop
    by_cases e : i = x
    · simp [e]
    · have e' : (i == x) = false := by simpa using e
      rw [e']
      by_cases g : i > x
      · have : x ∉ xs := fun hm => by have := hs.1 x hm; omega
        simp [g, this, Ne.symm e]
      · simp only [g, ↓reduceIte, Bool.false_eq_true]
        rw [ih hs.2]
        simp [Ne.symm e]

/-! ### after -/

theorem afterLoop_eq (t : Int) (inc : Bool) (xs : List Int) :
    afterLoop t inc xs = firstAfter xs t inc := by
  unfold firstAfter
  induction xs with
  | nil => simp [afterLoop]
  | cons i xs ih =>
    unfold afterLoop
    have : (if inc then decide (i ≥ t) else decide (i > t)) = cmpAfter t inc i := rfl
    rw [this]
    by_cases c : cmpAfter t inc i = true
    · simp [c]
    · simp only [c, Bool.false_eq_true, ↓reduceIte]
      rw [ih, List.filter_cons_of_neg (by simpa using c)]

/-! ### before -/

theorem cmpBefore_mono {t : Int} {inc : Bool} {x y : Int} (h : x < y) (hy : cmpBefore t inc y = true) :
    cmpBefore t inc x = true := by
  unfold cmpBefore at *
  cases inc <;> simp at * <;> omega

theorem filter_before_nil {t : Int} {inc : Bool} {i : Int} {xs : List Int}
    (hi : cmpBefore t inc i = false) (hs : ∀ x ∈ xs, i < x) : xs.filter (cmpBefore t inc) = [] := by
  rw [List.filter_eq_nil_iff]
  intro x hx hc
  have := cmpBefore_mono (hs x hx) hc
  rw [hi] at this; cases this

theorem beforeLoop_eq (t : Int) (inc : Bool) (xs : List Int) (last : Option Int) (h : Sorted xs) :
    beforeLoop t inc xs last = ((xs.filter (cmpBefore t inc)).getLast?).or last := by
  induction xs generalizing last with
  | nil => simp [beforeLoop]
  | cons i xs ih =>
    have hs := List.pairwise_cons.mp h
    unfold beforeLoop
    have e : (if inc then decide (i > t) else decide (i ≥ t)) = !cmpBefore t inc i := by
      unfold cmpBefore
      cases inc
      · by_cases g : i < t <;> simp [g]
        omega
      · by_cases g : i ≤ t <;> simp [g]
        omega
    rw [e]
    by_cases c : cmpBefore t inc i = true
    · simp only [c, Bool.not_true, Bool.false_eq_true, ↓reduceIte]
      rw [ih _ hs.2, List.filter_cons_of_pos c]
      cases hf : xs.filter (cmpBefore t inc) with
      | nil => simp
      | cons a l =>
        have : (a :: l).getLast? = some ((a :: l).getLast (by simp)) := List.getLast?_eq_some_getLast _
        simp [this]
    · have c' : cmpBefore t inc i = false := by simpa using c
      simp only [c', Bool.not_false, ↓reduceIte]
      rw [List.filter_cons_of_neg (by simp [c']), filter_before_nil c' hs.1]
      simp

/-! ### xafter -/

theorem xafterLoop_none (t : Int) (inc : Bool) (xs : List Int) (n : Int) :
    xafterLoop t none inc xs n = xs.filter (cmpAfter t inc) := by
  induction xs generalizing n with
  | nil => simp [xafterLoop]
  | cons d xs ih =>
    unfold xafterLoop
    have : (if inc then decide (d ≥ t) else decide (d > t)) = cmpAfter t inc d := rfl
    rw [this]
    by_cases c : cmpAfter t inc d = true
    · simp [c, ih]
    · simp only [c, Bool.false_eq_true, ↓reduceIte]
      rw [ih, List.filter_cons_of_neg (by simpa using c)]

theorem xafterLoop_some (t c : Int) (inc : Bool) (xs : List Int) (n : Int) (hn : 0 ≤ n) :
    xafterLoop t (some c) inc xs n = (xs.filter (cmpAfter t inc)).take (c - n).toNat := by
  induction xs generalizing n with
  | nil => simp [xafterLoop]
  | cons d xs ih =>
    unfold xafterLoop
    have : (if inc then decide (d ≥ t) else decide (d > t)) = cmpAfter t inc d := rfl
    rw [this]
    by_cases m : cmpAfter t inc d = true
    · simp only [m, ↓reduceIte]
      rw [List.filter_cons_of_pos m]
      by_cases g : n + 1 > c
      · have : (c - n).toNat = 0 := by omega
        simp [g, this]
      · have : (c - n).toNat = (c - (n + 1)).toNat + 1 := by omega
        rw [if_neg g, ih (n + 1) (by omega), this, List.take_succ_cons]
    · simp only [m, Bool.false_eq_true, ↓reduceIte]
      rw [ih n hn, List.filter_cons_of_neg (by simpa using m)]

/-! ### between -/

theorem cmpAfter_mono {t : Int} {inc : Bool} {x y : Int} (h : x < y) (hx : cmpAfter t inc x = true) :
    cmpAfter t inc y = true := by
  unfold cmpAfter at *
  cases inc <;> simp at * <;> omega

theorem betweenLoop_eq (a b : Int) (inc : Bool) (xs : List Int) (started : Bool) (h : Sorted xs)
    (hst : started = true → ∀ x ∈ xs, cmpAfter a inc x = true) :
    betweenLoop a b inc xs started = xs.filter (fun x => cmpAfter a inc x && cmpBefore b inc x) := by
  induction xs generalizing started with
  | nil => simp [betweenLoop]
  | cons i xs ih =>
    have hs := List.pairwise_cons.mp h
    unfold betweenLoop
    have e1 : (if inc then decide (i > b) else decide (i ≥ b)) = !cmpBefore b inc i := by
      unfold cmpBefore
      cases inc
      · by_cases g : i < b <;> simp [g]
        omega
      · by_cases g : i ≤ b <;> simp [g]
        omega
    have e2 : (if inc then decide (i ≥ a) else decide (i > a)) = cmpAfter a inc i := rfl
    rw [e1, e2]
    by_cases cb : cmpBefore b inc i = true
    · simp only [cb, Bool.not_true, Bool.false_eq_true, ↓reduceIte]
      cases started with
      | false =>
        simp only [Bool.not_false, ↓reduceIte]
        by_cases ca : cmpAfter a inc i = true
        · simp only [ca, ↓reduceIte]
          rw [ih true hs.2 (fun _ x hx => cmpAfter_mono (hs.1 x hx) ca),
              List.filter_cons_of_pos (by simp [ca, cb])]
        · simp only [ca, Bool.false_eq_true, ↓reduceIte]
          rw [ih false hs.2 (by simp), List.filter_cons_of_neg (by simp [ca])]
      | true =>
        simp only [Bool.not_true, Bool.false_eq_true, ↓reduceIte]
        have ca : cmpAfter a inc i = true := hst rfl i (by simp)
        rw [ih true hs.2 (fun _ x hx => hst rfl x (by simp [hx])),
            List.filter_cons_of_pos (by simp [ca, cb])]
    · have cb' : cmpBefore b inc i = false := by simpa using cb
      simp only [cb', Bool.not_false, ↓reduceIte]
      symm
      rw [List.filter_eq_nil_iff]
      intro x hx hc
      simp only [Bool.and_eq_true] at hc
      rcases List.mem_cons.mp hx with rfl | hx
      · rw [cb'] at hc; exact Bool.noConfusion hc.2
      · have := cmpBefore_mono (hs.1 x hx) hc.2
        rw [cb'] at this; cases this

end Queries
