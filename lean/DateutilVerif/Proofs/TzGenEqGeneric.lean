/- Proofs/TzGenEqGeneric.lean — `_tzinfo.is_ambiguous/_fold_status/_fromutc/fromutc` TRANSLATED from tz/_common.py equal
   `TZ.GenericZone` of Model/Zones.lean (abstract utcoffset/dst; dynamic dispatch of `is_ambiguous`). -/
import DateutilVerif.Proofs.TzGenEqRange
set_option linter.unusedSimpArgs false
namespace TzGen
open TZ Py DtPy

theorem toWall_D (s f : Int) (fold att : Bool) (h0 : 0 ≤ f) (h1 : f < M) : DtPy.toWall (D s f fold att) = ⟨s, fold⟩ := by
  unfold DtPy.toWall D
  have : (s * M + f) / M = s := by unfold M at *; omega
  simp [this]

theorem generic_isAmbiguous_eq (z : GenericZone) (w f : Int) (fold att : Bool) (h0 : 0 ≤ f) (h1 : f < M) :
    Gen.tzinfo_isAmbiguous z (D w f fold att) = .ok (z.utcoffset ⟨w, false⟩ != z.utcoffset ⟨w, true⟩) := by
  have e0 : DtPy.toWall (DtPy.enfold (DtPy.attach (D w f fold att)) 0) = ⟨w, false⟩ := by
    have := toWall_D w f false true h0 h1; simpa [DtPy.enfold, DtPy.attach, D] using this
  have e1 : DtPy.toWall (DtPy.enfold (DtPy.attach (D w f fold att)) 1) = ⟨w, true⟩ := by
    have := toWall_D w f true true h0 h1; simpa [DtPy.enfold, DtPy.attach, D] using this
  unfold Gen.tzinfo_isAmbiguous
  simp only [e0, e1, tdSeconds]
  by_cases h : z.utcoffset ⟨w, false⟩ = z.utcoffset ⟨w, true⟩
  · simp [h, DtPy.enfold, DtPy.attach, DtPy.naive, D]
  · have : ¬ (z.utcoffset ⟨w, false⟩ * M = z.utcoffset ⟨w, true⟩ * M) := by unfold M; omega
    simp [h, this, DtPy.enfold, DtPy.attach, DtPy.naive, D]

theorem dispatch_eq (z : GenericZone) (w f : Int) (fold att : Bool) (h0 : 0 ≤ f) (h1 : f < M) :
    DtPy.dispatchAmbiguous z (Gen.tzinfo_isAmbiguous z) (D w f fold att) = .ok (z.isAmbiguous w) := by
  unfold DtPy.dispatchAmbiguous GenericZone.isAmbiguous
  cases z.ambiguousOverride with
  | none => exact generic_isAmbiguous_eq z w f fold att h0 h1
  | some ov => simp [toWall_D w f fold att h0 h1]

theorem generic_foldStatus_eq (z : GenericZone) (t w f : Int) (fw aw au : Bool) (h0 : 0 ≤ f) (h1 : f < M) :
    Gen.tzinfo_foldStatus z (D t f false au) (D w f fw aw) = .ok (DtPy.b2i (z.foldStatus t w)) := by
  unfold Gen.tzinfo_foldStatus GenericZone.foldStatus
  rw [dispatch_eq z w f fw aw h0 h1]
  simp only [Except.bind, toWall_D t f false au h0 h1]
  simp only [tdSeconds, subDt, D]
  cases z.isAmbiguous w with
  | false => simp [b2i]
  | true =>
    simp only [if_true]
    have : ((w * M + f - (t * M + f) = z.utcoffset ⟨t, false⟩ * M - z.dst ⟨t, false⟩ * M))
        ↔ (w - t = z.utcoffset ⟨t, false⟩ - z.dst ⟨t, false⟩) := by unfold M; omega
    simp [this]

theorem generic_fromutcWall_eq (z : GenericZone) (t f : Int) (att : Bool) (h0 : 0 ≤ f) (h1 : f < M) :
    Gen.tzinfo_fromutcWall z (D t f false att) = .ok (D (z.fromutcWall t) f false att) := by
  unfold Gen.tzinfo_fromutcWall GenericZone.fromutcWall
  simp only [toWall_D t f false att h0 h1]
  have e1 : DtPy.addTd (D t f false att) (tdSeconds (z.utcoffset ⟨t, false⟩) - tdSeconds (z.dst ⟨t, false⟩))
      = D (t + (z.utcoffset ⟨t, false⟩ - z.dst ⟨t, false⟩)) f false att := by
    simp only [DtPy.addTd, tdSeconds, D, M]; congr 1; omega
  rw [e1]
  have e2 : DtPy.toWall (DtPy.enfold (D (t + (z.utcoffset ⟨t, false⟩ - z.dst ⟨t, false⟩)) f false att) 1)
      = ⟨t + (z.utcoffset ⟨t, false⟩ - z.dst ⟨t, false⟩), true⟩ := by
    have := toWall_D (t + (z.utcoffset ⟨t, false⟩ - z.dst ⟨t, false⟩)) f true att h0 h1
    simpa [DtPy.enfold, D] using this
  rw [e2, addTd_D]

theorem generic_fromutc_eq (z : GenericZone) (t f : Int) (att : Bool) (h0 : 0 ≤ f) (h1 : f < M) :
    Gen.tzinfo_fromutc z (D t f false att) = .ok (D (z.fromutc t).wall f (z.fromutc t).fold att) := by
  unfold Gen.tzinfo_fromutc GenericZone.fromutc
  rw [generic_fromutcWall_eq z t f att h0 h1]
  simp only [Except.bind, generic_foldStatus_eq z t _ f false att att h0 h1]
  cases z.foldStatus t (z.fromutcWall t) <;> simp [DtPy.enfold, b2i, D]
end TzGen
