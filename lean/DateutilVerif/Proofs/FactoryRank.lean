/-
  Proofs/FactoryRank.lean — a variant that strictly decreases with every statement of a call
  (the `set_cache_size` loop is bounded by the length of the strong cache, which only the lock
  holder changes).
-/
import DateutilVerif.Proofs.FactoryStep

namespace Fact

variable {kd : Kind} {res : Key → Res}

def rank (g : Glob) (th : Thread) : Nat :=
  match th.pc with
  | .idle => 0
  | .lAcq => 13 | .lGet => 12 | .lTest => 11 | .lAlloc => 10 | .lInit => 9 | .lSdRead => 8 | .lSdWrite => 7
  | .xTouch => 6 | .xLen => 5 | .xEvict => 4 | .xRel => 3 | .xRet => 2 | .xRelX => 1
  | .gAcq => 16 | .gGet => 15 | .gTest => 14 | .gAlloc => 13 | .gInit => 12 | .gCheck => 11 | .gStore => 10
  | .gRelE => 3 | .gRetE => 2
  | .sAcq => 2 * g.strong.length + 5 | .sSet => 2 * g.strong.length + 4
  | .sLoop => 2 * g.strong.length + 3 | .sPop => 2 * g.strong.length + 2 | .sRel => 1
  | .cAcq => 5 | .cWeak => 4 | .cStrong => 3 | .cRel => 2
  | .fAlloc => 4 | .fInit => 3 | .fRet => 2
  | .uTest => 6 | .uAlloc => 5 | .uInit => 4 | .uStore => 3 | .uRet => 2

theorem rank_decreases {t : Tid} {g g' : Glob} {th th' : Thread} (hpc : th.pc ≠ .idle)
    (h : tstep kd res t g th = some (g', th')) : rank g' th' < rank g th := by
  cases hp : th.pc <;> simp only [hp, ne_eq, not_true_eq_false, reduceCtorEq, not_false_eq_true] at hpc <;>
    simp only [tstep, hp] at h
  all_goals (try (split at h)) <;> (try (split at h)) <;> (try (split at h)) <;> (try (split at h)) <;>
    (try simp only [Option.some.injEq, Prod.mk.injEq, reduceCtorEq] at h) <;>
    (try (obtain ⟨rfl, rfl⟩ := h)) <;> simp only [rank, hp] <;> (try split) <;>
    (try simp_all only [List.length_cons]) <;> omega

/-- while a thread holds the lock, statements of the other threads do not change its rank -/
theorem rank_stable {t t' : Tid} {g g' : Glob} {th2 : Thread} (hne : t ≠ t') (hl : g.lock = some t')
    (hGu : Guar kd t g g') : rank g' th2 = rank g th2 := by
  have : g.lock ≠ some t := by rw [hl]; intro h; cases h; exact hne rfl
  have hs := (hGu.noLock this).1
  simp only [rank, hs]

end Fact
