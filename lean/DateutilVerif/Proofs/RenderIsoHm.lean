/-
  Proofs/RenderIsoHm.lean — token scan of `YYYY-MM-DD<sep>HH:MM<offset>`, every offset spelling, through the schema
  (scan over the core with an arbitrary suffix behind it + `suffix_run` + `finish_tz`).
-/
import DateutilVerif.Proofs.RenderIsoX
import DateutilVerif.Proofs.RenderSchema

namespace PM
open Py PT

set_option maxHeartbeats 4000000 in
theorem run_iso_hm (cls : Char → CClass) [AsciiOK cls] (yf : Bool) (year century : Int) (y m d h mi s us : Nat) (S : Token)
    (hS : S = ['T'] ∨ S = [' ']) (hv : (DT.mk y m d h mi s us).Valid)
    (suf : List Token) (hs : Suf1 (Info.default false yf year century) suf) :
    parseLoop cls (Info.default false yf year century) false (suf.length + 9) (suf.length + 9) 0 0
      { l := isoDateTokens y m d S ++ [dtok [h / 10, h], [':'], dtok [mi / 10, mi]] ++ suf } =
    parseLoop cls (Info.default false yf year century) false (suf.length + 9) suf.length 9 0
      { l := isoDateTokens y m d S ++ [dtok [h / 10, h], [':'], dtok [mi / 10, mi]] ++ suf, ymd := { vals := [y, m, d], century := true, yIdx := some 0 },
        skipped := [5], res := { hour := some h, minute := some mi } } := by
  obtain ⟨⟨hy1, hy2, hm1, hm2, hd1, hd2⟩, hh1, hh2, hmi1, hmi2, hs1, hs2, hu1, hu2⟩ := hv
  dsimp only at *
  have hdim := (Cal.daysInMonth_bounds (y : Int) (m : Int)).2
  have by' : y < 10000 := by omega
  have bm : m < 100 := by omega
  have bd : d < 100 := by omega
  have bh : h < 100 := by omega
  have bmi : mi < 100 := by omega
  have bs : s < 100 := by omega
  generalize suf.length = k
  rcases hS with rfl | rfl <;> rcases hs with rfl | ⟨a, rest, rfl, a1, a2, a3⟩ <;> psimpa [isoDateTokens]

set_option maxHeartbeats 4000000 in
theorem fin_iso_hm (yf : Bool) (year century : Int) (o : Opts) (tznames : List Token) (tzi : TzInfos) (ho : PlainOpts o tzi) (dflt : DT)
    (y m d h mi s us : Nat) (hv : (DT.mk y m d h mi s us).Valid) (hds : dflt.ss = s) (hdu : dflt.us = us) :
    finishOf (Info.default false yf year century) o tznames tzi dflt { vals := [y, m, d], century := true, yIdx := some 0 }
      { hour := some h, minute := some mi } = .ok { dt := DT.mk y m d h mi s us, tz := .naive, tokens := none } := by
  obtain ⟨⟨hy1, hy2, hm1, hm2, hd1, hd2⟩, hh1, hh2, hmi1, hmi2, hs1, hs2, hu1, hu2⟩ := hv
  dsimp only at *
  have hdim := (Cal.daysInMonth_bounds (y : Int) (m : Int)).2
  obtain ⟨hfz, hfwt, hdf, htz1, htz2⟩ := ho
  have hvalid : (DT.mk (y : Int) m d h mi s us).valid = true := by
    unfold DT.valid
    exact decide_eq_true ⟨⟨hy1, hy2, hm1, hm2, hd1, hd2⟩, hh1, hh2, hmi1, hmi2, hs1, hs2, hu1, hu2⟩
  have n1 : ¬ (2147483647 : Int) < y := by omega
  have n2 : ¬ (2147483647 : Int) < m := by omega
  have n3 : ¬ (2147483647 : Int) < d := by omega
  have n4 : ¬ (2147483647 : Int) < h := by omega
  have n5 : ¬ (2147483647 : Int) < mi := by omega
  have n6 : ¬ (2147483647 : Int) < s := by omega
  have n7 : ¬ (2147483647 : Int) < us := by omega

  psimpa [finishOf, afterValidate]

theorem tok_iso_hm (cls : Char → CClass) [AsciiOK cls] (yf : Bool) (year century : Int) (o : Opts) (tznames : List Token)
    (tzi : TzInfos) (ho : PlainOpts o tzi) (dflt : DT) (y m d h mi : Nat) (s us : Nat) (S : Token) (hS : S = ['T'] ∨ S = [' '])
    (hv : (DT.mk y m d h mi s us).Valid) (off : Off) (hoff : off.Dom) (hds : dflt.ss = s) (hdu : dflt.us = us) :
    parseResult cls (Info.default false yf year century) o tznames tzi dflt
      (isoDateTokens y m d S ++ [dtok [h / 10, h], [':'], dtok [mi / 10, mi]] ++ offTokens off) =
      .ok { dt := DT.mk y m d h mi s us, tz := if o.ignoretz then .naive else offDescr tznames off, tokens := none } := by
  have hs : StrictOpts o tzi := ⟨ho.fz, ho.fwt, ho.tz1, ho.tz2⟩
  have hlen : (isoDateTokens y m d S ++ [dtok [h / 10, h], [':'], dtok [mi / 10, mi]]).length = 9 := by simp [isoDateTokens]
  have := tok_theorem cls false yf year century o tznames tzi hs dflt (isoDateTokens y m d S ++ [dtok [h / 10, h], [':'], dtok [mi / 10, mi]]) 9 hlen
    _ _ _ (DT.mk y m d h mi s us) off hoff
    (run_iso_hm cls yf year century y m d h mi s us S hS hv (offTokens off) (suf1_off false yf year century off))
    rfl rfl (Or.inl rfl) (fin_iso_hm yf year century o tznames tzi ho dflt y m d h mi s us hv hds hdu)
  simpa [offZone] using this

end PM
