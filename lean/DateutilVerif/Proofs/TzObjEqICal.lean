/- Proofs/TzObjEqICal.lean — `tzical._parse_offset`, `_tzicalvtz._find_compdt/_find_comp/utcoffset/dst` TRANSLATED from tz/tz.py
   (Generated/TzObjKernels.lean, regenerated on every run) equal the hand model of Model/ICal.lean: `parseOffset`,
   `findCompdt`, `findCompCached` (result AND both cache lists, entry by entry), `utcoffset`, `dst`. -/
import DateutilVerif.Generated.TzObjKernels
import DateutilVerif.Proofs.TzGenEqGeneric
import DateutilVerif.Proofs.ICal
set_option linter.unusedSimpArgs false
namespace TzGen
open Py DtPy ObjPy ICal

theorem sget0 (c : Char) (r : List Char) : ObjPy.sget (c :: r) 0 = .ok [c] := by
  simp [ObjPy.sget, DtPy.lgetR]

theorem pyInt_eq (x : List Char) :
    ObjPy.pyInt x = (match ICal.pyInt x with | some v => .ok v | none => .error .ValueError) := rfl

theorem take4drop2 (s : List Char) : (s.take 4).drop 2 = (s.drop 2).take 2 := by
  rw [List.drop_take]

theorem len4 (r : List Char) : ((r.length : Int) = 4) ↔ r.length = 4 := by omega
theorem len6 (r : List Char) : ((r.length : Int) = 6) ↔ r.length = 6 := by omega

theorem parseOffset_eq (s : List Char) : Gen.tzical_parseOffset s = ICal.parseOffset s := by
  unfold Gen.tzical_parseOffset ICal.parseOffset
  cases h : ICal.strip s with
  | nil => simp
  | cons c rest =>
    simp only [sget0, Except.bind, ne_eq, reduceCtorEq, not_false_eq_true, not_true_eq_false, if_false]
    have e4 := len4 rest
    have e6 := len6 rest
    have e4' := len4 (c :: rest)
    have e6' := len6 (c :: rest)
    by_cases h1 : c = '+'
    · subst h1
      simp [DtPy.lgetR, b2i, Except.bind, pyInt_eq, take4drop2]
      simp only [e4, e6]
      rfl
    · by_cases h2 : c = '-'
      · subst h2
        simp [DtPy.lgetR, b2i, Except.bind, pyInt_eq, take4drop2]
        simp only [e4, e6]
        rfl
      · have b1 : (c == '+') = false := by simp [h1]
        have b2 : (c == '-') = false := by simp [h2]
        have hc : ([c] = ['+'] ∨ [c] = ['-']) ↔ False := by simp [h1, h2]
        simp only [b1, b2, hc, Bool.false_eq_true, if_false]
        generalize c :: rest = s'
        have a4 := len4 s'
        have a6 := len6 s'
        simp [Except.bind, pyInt_eq, take4drop2]
        simp only [a4, a6]
        rfl

/-- the naive whole-second datetime `rrule.before` returns -/
def Dn0 (o : Int) : Dt := { us := o * M, fold := false, attached := false }

theorem div_D (w f : Int) (h0 : 0 ≤ f) (h1 : f < M) : (w * M + f) / M = w := by unfold M at *; omega

theorem findCompdt_eq (comps : List ZComp) (c : ZComp) (w f : Int) (fold att : Bool) (h0 : 0 ≤ f) (h1 : f < M) :
    Gen.tzicalvtz_findCompdt comps c (D w f fold att) = .ok ((ICal.findCompdt c w fold).map Dn0) := by
  unfold Gen.tzicalvtz_findCompdt ICal.findCompdt ObjPy.rruleBefore
  have hd : (c.diff * M < 0) ↔ c.diff < 0 := by unfold M; omega
  have e2 : (w * M + f + -(c.diff * M)) / M = w - c.diff := by
    have : w * M + f + -(c.diff * M) = (w - c.diff) * M + f := by rw [Int.sub_mul]; omega
    rw [this]; exact div_D _ f h0 h1
  cases fold <;> by_cases hneg : c.diff < 0 <;>
    simp [hd, hneg, foldOf, D, Except.bind, addTd, tdSeconds, div_D w f h0 h1, e2, Dn0] <;> rfl

/-! ### `_find_comp` -/

/-- Gen accumulators `(lastcompdt, lastcomp)` of the selection loop from the model's `Option (onset × index)` -/
def toGen (comps : List ZComp) : Option (Int × Nat) → Option Dt × Option ZComp
  | none => (none, none)
  | some (d, i) => (some (Dn0 d), some (comps.getD i default))

theorem scan_eq (comps : List ZComp) (w : Int) (fold : Bool)
    (step : Option Dt × Option ZComp → ZComp → R (Option Dt × Option ZComp))
    (hstep : ∀ acc c i, comps.getD i default = c →
      step (toGen comps acc) c = .ok (toGen comps (selStep w fold acc (c, i))))
    (l : List ZComp) (k : Nat) (hl : comps.drop k = l) (acc : Option (Int × Nat)) :
    List.foldlM step (toGen comps acc) l = .ok (toGen comps ((l.zipIdx k).foldl (selStep w fold) acc)) := by
  induction l generalizing k acc with
  | nil => rfl
  | cons c l ih =>
    have hk : comps.getD k default = c := by
      have := congrArg (fun x => x[0]?) hl
      simp at this
      simp [List.getD_eq_getElem?_getD, this]
    have hl' : comps.drop (k + 1) = l := by rw [← List.tail_drop, hl]; rfl
    simp only [List.foldlM_cons, List.zipIdx_cons, List.foldl_cons]
    rw [hstep acc c k hk]
    exact ih (k + 1) hl' _

theorem brk_stays (step : Bool × Option ZComp → ZComp → R (Bool × Option ZComp))
    (hstep : ∀ lc c, step (true, lc) c = .ok (true, lc)) (l : List ZComp) (lc : Option ZComp) :
    List.foldlM step (true, lc) l = .ok (true, lc) := by
  induction l with
  | nil => rfl
  | cons c l ih => simp only [List.foldlM_cons, hstep]; exact ih

theorem firstStd_eq (step : Bool × Option ZComp → ZComp → R (Bool × Option ZComp))
    (h1 : ∀ lc c, step (true, lc) c = .ok (true, lc))
    (h2 : ∀ lc c, step (false, lc) c = if ¬ (c.isdst = true) then .ok (true, some c) else .ok (false, lc))
    (l : List ZComp) (lc : Option ZComp) :
    List.foldlM step (false, lc) l =
      .ok (match l.find? (fun c => !c.isdst) with | some c => (true, some c) | none => (false, lc)) := by
  induction l with
  | nil => rfl
  | cons c l ih =>
    simp only [List.foldlM_cons, h2]
    by_cases hd : c.isdst = true
    · simp only [hd, not_true_eq_false, if_false, List.find?_cons, Bool.not_true]
      exact ih
    · have : c.isdst = false := by simpa using hd
      simp only [this, Bool.false_eq_true, not_false_eq_true, if_true, List.find?_cons, Bool.not_false]
      exact brk_stays step h1 l _

theorem find_findIdx {α} [Inhabited α] (l : List α) (p : α → Bool) :
    l.find? p = (l.findIdx? p).map (fun i => l.getD i default) := by
  induction l with
  | nil => rfl
  | cons a l ih =>
    by_cases h : p a = true
    · simp [List.find?_cons, List.findIdx?_cons, h]
    · have : p a = false := by simpa using h
      simp [List.find?_cons, List.findIdx?_cons, this, ih, Option.map_map, Function.comp_def]

/-- the cache lists of the implementation from the model's cache, for queries whose microsecond part is `f` -/
def keyOf (f : Int) (e : Int × Bool) : Dt × Int := ({ us := e.1 * M + f, fold := e.2, attached := false }, b2i e.2)
def cdOf (f : Int) (cache : Cache) : List (Dt × Int) := cache.map (fun e => keyOf f e.1)
def ccOf (comps : List ZComp) (cache : Cache) : List (Option ZComp) := cache.map (fun e => some (comps.getD e.2 default))

theorem key_beq (f : Int) (a q : Int × Bool) :
    ((keyOf f a).1.us == (keyOf f q).1.us && (keyOf f a).2 == (keyOf f q).2) = (a == q) := by
  obtain ⟨a1, a2⟩ := a; obtain ⟨q1, q2⟩ := q
  have hm : (a1 * M + f = q1 * M + f) ↔ a1 = q1 := by unfold M; omega
  cases a2 <;> cases q2 <;> simp [keyOf, b2i] <;> (rw [Bool.eq_iff_iff]; simp [hm])

theorem index_eq (f : Int) (cache : Cache) (q : Int × Bool) :
    ObjPy.index (cdOf f cache) (keyOf f q) =
      (match cache.findIdx? (fun e => e.1 == q) with | some i => .ok (i : Int) | none => .error .ValueError) := by
  unfold ObjPy.index cdOf
  have : (List.map (fun e => keyOf f e.1) cache).findIdx? (fun e => e.1.us == (keyOf f q).1.us && e.2 == (keyOf f q).2)
      = cache.findIdx? (fun e => e.1 == q) := by
    induction cache with
    | nil => rfl
    | cons a l ih => simp only [List.map_cons, List.findIdx?_cons, key_beq, ih]
  rw [this]
  cases cache.findIdx? (fun e => e.1 == q) <;> rfl

theorem findIdx_lt {α} (l : List α) (p : α → Bool) (i : Nat) (h : l.findIdx? p = some i) : i < l.length := by
  induction l generalizing i with
  | nil => simp at h
  | cons a l ih =>
    by_cases hp : p a = true
    · simp [List.findIdx?_cons, hp] at h; subst h; simp
    · have : p a = false := by simpa using hp
      simp only [List.findIdx?_cons, this, Bool.false_eq_true, if_false, Option.map_eq_some_iff] at h
      obtain ⟨j, hj, rfl⟩ := h
      have := ih j hj
      simp; omega

theorem map_dropLast' {α β} (g : α → β) (l : List α) : (l.map g).dropLast = l.dropLast.map g := by
  simp [List.dropLast_eq_take, List.map_take]

theorem findComp_eq (comps : List ZComp) (hne : comps ≠ []) (cache : Cache) (w f : Int) (fold att : Bool)
    (h0 : 0 ≤ f) (h1 : f < M) :
    Gen.tzicalvtz_findComp comps (cdOf f cache) (ccOf comps cache) (D w f fold att) =
      .ok (some (comps.getD (findCompCached comps cache w fold).1 default),
           cdOf f (findCompCached comps cache w fold).2, ccOf comps (findCompCached comps cache w fold).2) := by
  unfold Gen.tzicalvtz_findComp findCompCached
  by_cases hl : comps.length = 1
  · obtain ⟨c, rfl⟩ := List.length_eq_one_iff.mp hl
    simp [DtPy.lgetR, Except.bind]
  · have hl1 : ¬ ((comps.length : Int) = 1) := by omega
    have hl2 : (comps.length == 1) = false := by simpa using hl
    have hk : (DtPy.naive (D w f fold att), DtPy.foldOf (DtPy.naive (D w f fold att))) = keyOf f (w, fold) := by
      cases fold <;> rfl
    simp only [hl1, hl2, if_false, Bool.false_eq_true, hk, index_eq, find_findIdx cache]
    cases hfi : cache.findIdx? (fun e => e.1 == (w, fold)) with
    | some i =>
      have hi := findIdx_lt _ _ _ hfi
      have hget : DtPy.lgetR (ccOf comps cache) (i : Int) = .ok (some (comps.getD (cache.getD i default).2 default)) := by
        apply lgetR_nat
        simp [ccOf, List.getD_eq_getElem?_getD, List.getElem?_eq_getElem hi]
      simp [Except.bind, hget, ObjPy.tryExcept]
    | none =>
      have hscan : ∀ step : Option Dt × Option ZComp → ZComp → R (Option Dt × Option ZComp),
          (∀ acc c i, comps.getD i default = c → step (toGen comps acc) c = .ok (toGen comps (selStep w fold acc (c, i)))) →
          List.foldlM step (none, none) comps = .ok (toGen comps ((comps.zipIdx 0).foldl (selStep w fold) none)) :=
        fun step hs => scan_eq comps w fold step hs comps 0 (by simp) none
      simp only [ObjPy.tryExcept, Except.bind, if_true, Option.map_none]
      rw [hscan]
      · have hidx : findCompIdx comps w fold = (match List.foldl (selStep w fold) none comps.zipIdx with
            | some (_, i) => i
            | none => match comps.findIdx? (fun c => !c.isdst) with | some i => i | none => 0) := by
          unfold findCompIdx; simp only [hl2, Bool.false_eq_true, if_false]
          cases List.foldl (selStep w fold) none comps.zipIdx <;> rfl
        rw [hidx]
        cases hsel : List.foldl (selStep w fold) none comps.zipIdx with
        | some p =>
          obtain ⟨d, i⟩ := p
          by_cases hlen : cache.length + 1 > 10
          · have hz : (10 : Int) < (cache.length : Int) + 1 := by omega
            simp [toGen, hlen, hz, ObjPy.pop, cdOf, ccOf, map_dropLast']
          · have hz : ¬ ((10 : Int) < (cache.length : Int) + 1) := by omega
            simp [toGen, hlen, hz, ObjPy.pop, cdOf, ccOf, map_dropLast']
        | none =>
          simp only [toGen, ne_eq, not_true_eq_false, not_false_eq_true, if_true]
          rw [firstStd_eq _ (by intro lc c; rfl) (by intro lc c; rfl), find_findIdx]
          have h0' : DtPy.lgetR comps 0 = .ok (comps.getD 0 default) := by
            cases comps with
            | nil => exact absurd rfl hne
            | cons a l => simp [DtPy.lgetR]
          cases hfs : comps.findIdx? (fun c => !c.isdst) with
          | some i =>
            by_cases hlen : cache.length + 1 > 10
            · have hz : (10 : Int) < (cache.length : Int) + 1 := by omega
              simp [hlen, hz, ObjPy.pop, cdOf, ccOf, map_dropLast']
            · have hz : ¬ ((10 : Int) < (cache.length : Int) + 1) := by omega
              simp [hlen, hz, ObjPy.pop, cdOf, ccOf, map_dropLast']
          | none =>
            by_cases hlen : cache.length + 1 > 10
            · have hz : (10 : Int) < (cache.length : Int) + 1 := by omega
              simp [h0', hlen, hz, ObjPy.pop, cdOf, ccOf, map_dropLast']
            · have hz : ¬ ((10 : Int) < (cache.length : Int) + 1) := by omega
              simp [h0', hlen, hz, ObjPy.pop, cdOf, ccOf, map_dropLast']
      · intro acc c i hc
        have hc' : comps[i]?.getD default = c := by simpa [List.getD_eq_getElem?_getD] using hc
        have hn : DtPy.naive (D w f fold att) = D w f fold false := rfl
        rw [hn, findCompdt_eq comps _ w f fold false h0 h1]
        have hM : ∀ a b : Int, (a * M < b * M) ↔ a < b := by intro a b; unfold M; omega
        cases hcd : findCompdt c w fold with
        | none => cases acc <;> simp [toGen, selStep, hcd, hc']
        | some d =>
          cases acc with
          | none => simp [toGen, selStep, hcd, hc']
          | some p =>
            obtain ⟨bd, bi⟩ := p
            by_cases hlt : bd < d <;> simp [toGen, selStep, hcd, hc', ObjPy.cmpDt, Dn0, hM, hlt]

theorem ical_utcoffset_eq (comps : List ZComp) (hne : comps ≠ []) (cache : Cache) (hinv : CacheInv comps cache)
    (w f : Int) (fold att : Bool) (h0 : 0 ≤ f) (h1 : f < M) :
    Gen.tzicalvtz_utcoffset comps (cdOf f cache) (ccOf comps cache) (D w f fold att) =
      .ok (tdSeconds (ICal.utcoffset comps w fold),
           cdOf f (findCompCached comps cache w fold).2, ccOf comps (findCompCached comps cache w fold).2) := by
  unfold Gen.tzicalvtz_utcoffset ICal.utcoffset
  rw [findComp_eq comps hne cache w f fold att h0 h1, (findCompCached_spec comps cache w fold hinv).1]
  simp [Except.bind, DtPy.attr]

theorem ical_dst_eq (comps : List ZComp) (hne : comps ≠ []) (cache : Cache) (hinv : CacheInv comps cache)
    (w f : Int) (fold att : Bool) (h0 : 0 ≤ f) (h1 : f < M) :
    Gen.tzicalvtz_dst comps (cdOf f cache) (ccOf comps cache) (D w f fold att) =
      .ok (tdSeconds (ICal.dst comps w fold),
           cdOf f (findCompCached comps cache w fold).2, ccOf comps (findCompCached comps cache w fold).2) := by
  unfold Gen.tzicalvtz_dst ICal.dst
  rw [findComp_eq comps hne cache w f fold att h0 h1, (findCompCached_spec comps cache w fold hinv).1]
  generalize comps.getD (findCompIdx comps w fold) default = c
  cases h : c.isdst <;> simp [Except.bind, DtPy.attr, h, tdSeconds]

/-- `_tzicalvtz.tzname`: the TZNAME (an uninterpreted field `names` of the component objects) of the component the
    model's selection picks -/
theorem ical_tzname_eq (comps : List ZComp) (names : ZComp → Option (List Char)) (hne : comps ≠ []) (cache : Cache)
    (hinv : CacheInv comps cache) (w f : Int) (fold att : Bool) (h0 : 0 ≤ f) (h1 : f < M) :
    Gen.tzicalvtz_tzname comps names (cdOf f cache) (ccOf comps cache) (D w f fold att) =
      .ok (names (comps.getD (findCompIdx comps w fold) default),
           cdOf f (findCompCached comps cache w fold).2, ccOf comps (findCompCached comps cache w fold).2) := by
  unfold Gen.tzicalvtz_tzname
  rw [findComp_eq comps hne cache w f fold att h0 h1, (findCompCached_spec comps cache w fold hinv).1]
  simp [Except.bind, DtPy.attr]
end TzGen
