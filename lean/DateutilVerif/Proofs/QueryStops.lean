/-
  Proofs/QueryStops.lean — coherence of `stops` with `gen`: once the consumer has dropped its
  iterator after the values `ys`, the answer no longer depends on what the iterator would have
  yielded afterwards:  `stops q ys → gen q (ys ++ zs) = gen q ys`.
-/
import DateutilVerif.Proofs.Queries
import DateutilVerif.Proofs.Islice

namespace Queries
open Py

theorem isliceGo_append (stop : Nat) (step : Nat) (hstep : 1 ≤ step) (ys zs : List Int) (a' : Nat)
    (h : max a' stop ≤ ys.length) :
    isliceGo (some stop) step (ys ++ zs) 0 a' = isliceGo (some stop) step ys 0 a' := by
  apply List.ext_getElem?
  intro k
  rw [isliceGo_getElem? _ step hstep _ 0 a' k (by omega), isliceGo_getElem? _ step hstep _ 0 a' k (by omega)]
  by_cases hal : allows (some stop) (a' + k * step)
  · rw [if_pos hal, if_pos hal]
    have : a' + k * step < stop := hal
    rw [List.getElem?_append_left (by omega)]
  · rw [if_neg hal, if_neg hal]

theorem islice_append (ys zs : List Int) (a b c : Option Int) (bb : Int) (hb : b = some bb)
    (hp : sliceListPath a b c = false)
    (h : max (a.getD 0).toNat bb.toNat ≤ ys.length) :
    islice (ys ++ zs) a b c = islice ys a b c := by
  subst hb
  unfold sliceListPath at hp
  simp only [Bool.or_eq_false_iff] at hp
  obtain ⟨⟨hc, ha⟩, hb⟩ := hp
  have hstep : 1 ≤ c.getD 1 := optLt_false hc 1 (by omega)
  unfold islice
  rw [ha, hb, hc]
  simp only [Bool.or_self, Bool.false_eq_true, ↓reduceIte, Option.map_some]
  split
  · rfl
  · rw [isliceGo_append _ _ (by omega) _ _ _ h]

theorem nthNext_append (ys zs : List Int) (k : Nat) (h : k + 1 ≤ ys.length) :
    nthNext (ys ++ zs) k = nthNext ys k := by
  rw [nthNext_eq, nthNext_eq, List.getElem?_append_left (by omega)]

theorem containsLoop_append (x : Int) (ys zs : List Int) (h : ys.any (fun i => decide (i ≥ x)) = true) :
    containsLoop x (ys ++ zs) = containsLoop x ys := by
  induction ys with
  | nil => simp at h
  | cons i ys ih =>
    simp only [List.cons_append]
    unfold containsLoop
    by_cases e : i = x
    · simp [e]
    · have e' : (i == x) = false := by simpa using e
      rw [e']
      by_cases g : i > x
      · simp [g]
      · simp only [g, ↓reduceIte, Bool.false_eq_true]
        apply ih
        simp only [List.any_cons, Bool.or_eq_true, decide_eq_true_eq] at h
        rcases h with h | h
        · omega
        · exact h

theorem beforeLoop_append (t : Int) (inc : Bool) (ys zs : List Int) (last : Option Int)
    (h : ys.any (fun i => if inc then decide (i > t) else decide (i ≥ t)) = true) :
    beforeLoop t inc (ys ++ zs) last = beforeLoop t inc ys last := by
  induction ys generalizing last with
  | nil => simp at h
  | cons i ys ih =>
    simp only [List.cons_append]
    unfold beforeLoop
    by_cases c : (if inc then decide (i > t) else decide (i ≥ t)) = true
    · rw [if_pos c, if_pos c]
    · rw [if_neg c, if_neg c]
      apply ih
      simp only [List.any_cons, Bool.or_eq_true] at h
      rcases h with h | h
      · exact absurd h c
      · exact h

theorem afterLoop_append (t : Int) (inc : Bool) (ys zs : List Int)
    (h : ys.any (fun i => if inc then decide (i ≥ t) else decide (i > t)) = true) :
    afterLoop t inc (ys ++ zs) = afterLoop t inc ys := by
  induction ys with
  | nil => simp at h
  | cons i ys ih =>
    simp only [List.cons_append]
    unfold afterLoop
    by_cases c : (if inc then decide (i ≥ t) else decide (i > t)) = true
    · rw [if_pos c, if_pos c]
    · rw [if_neg c, if_neg c]
      apply ih
      simp only [List.any_cons, Bool.or_eq_true] at h
      rcases h with h | h
      · exact absurd h c
      · exact h

theorem betweenLoop_append (a b : Int) (inc : Bool) (ys zs : List Int) (started : Bool)
    (h : ys.any (fun i => if inc then decide (i > b) else decide (i ≥ b)) = true) :
    betweenLoop a b inc (ys ++ zs) started = betweenLoop a b inc ys started := by
  induction ys generalizing started with
  | nil => simp at h
  | cons i ys ih =>
    simp only [List.cons_append]
    unfold betweenLoop
    by_cases c : (if inc then decide (i > b) else decide (i ≥ b)) = true
    · rw [if_pos c, if_pos c]
    · rw [if_neg c, if_neg c]
      have h' : ys.any (fun i => if inc then decide (i > b) else decide (i ≥ b)) = true := by
        simp only [List.any_cons, Bool.or_eq_true] at h
        rcases h with h | h
        · exact absurd h c
        · exact h
      rw [ih true h', ih false h']

theorem xafterLoop_append (t c : Int) (inc : Bool) (ys zs : List Int)
    (h : (ys.filter (cmpAfter t inc)).length > c.toNat) :
    xafterLoop t (some c) inc (ys ++ zs) 0 = xafterLoop t (some c) inc ys 0 := by
  rw [xafterLoop_some _ _ _ _ 0 (by omega), xafterLoop_some _ _ _ _ 0 (by omega), List.filter_append]
  rw [List.take_append_of_le_length (by omega)]

/-- once the consumer has stopped, the rest of the sequence is irrelevant -/
theorem gen_stops (q : Query) (ys zs : List Int) (h : stops q ys = true) :
    gen q (ys ++ zs) = gen q ys := by
  cases q with
  | iterAll => simp [stops] at h
  | count => simp [stops] at h
  | take k =>
    simp only [stops, decide_eq_true_eq] at h
    simp only [gen]
    rw [islice_append ys zs none (some (k : Int)) none k rfl (by simp [sliceListPath, optLt]) (by simpa using h)]
  | index i =>
    simp only [stops, Bool.and_eq_true, decide_eq_true_eq] at h
    simp only [gen, if_pos h.1]
    rw [nthNext_append _ _ _ h.2]
  | slice a b c =>
    simp only [stops, Bool.and_eq_true, Bool.not_eq_true'] at h
    obtain ⟨hp, hn⟩ := h
    simp only [gen, hp, Bool.false_eq_true, ↓reduceIte]
    have hp' := (sliceListPath_clamp a b c).trans hp
    cases hb : clampMax b with
    | none => rw [hb] at hn; simp [isliceNeeds] at hn
    | some bb =>
      rw [hb] at hn hp'
      simp only [isliceNeeds, decide_eq_true_eq] at hn
      rw [islice_append ys zs (clampMax a) (some bb) (clampMax c) bb rfl hp' hn]
  | contains x => simp only [stops] at h; simp only [gen, containsLoop_append x ys zs h]
  | before t inc => simp only [stops] at h; simp only [gen, beforeLoop_append t inc ys zs none h]
  | after t inc => simp only [stops] at h; simp only [gen, afterLoop_append t inc ys zs h]
  | xafter t n inc =>
    cases n with
    | none => simp [stops] at h
    | some c =>
      simp only [stops, decide_eq_true_eq] at h
      simp only [gen]
      rw [xafterLoop_append t c inc ys zs h]
  | between a b inc => simp only [stops] at h; simp only [gen, betweenLoop_append a b inc ys zs false h]

end Queries
