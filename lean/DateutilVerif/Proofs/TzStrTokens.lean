/-
  Proofs/TzStrTokens.lean — the tokenizer on a concatenation of class-homogeneous chunks:
  `re.split(r'([,:.]|[a-zA-Z]+|[0-9]+)', s)` returns the chunks themselves when every chunk is a
  non-empty run of one character class (punctuation chunks being single characters) and adjacent
  chunks differ in class (or the left one is punctuation).
-/
import DateutilVerif.Model.TzStr

namespace TzStr

/-- a chunk: non-empty, all characters of class `k`, a single character when `k` is punctuation -/
def Homog (k : CK) (cs : List Char) : Prop :=
  cs ≠ [] ∧ (∀ c ∈ cs, ck c = k) ∧ (k = .punct → cs.length = 1)

/-- classes of consecutive chunks never merge -/
def GoodChunks : List (CK × List Char) → Prop
  | [] => True
  | [(k, cs)] => Homog k cs
  | (k, cs) :: (k', cs') :: rest => Homog k cs ∧ (k ≠ k' ∨ k = .punct) ∧ GoodChunks ((k', cs') :: rest)

theorem tokensAux_run (run rest : List Char) (k : CK) (cur : List Char) (acc : List String)
    (h : ∀ c ∈ run, ck c = k) (hk : k ≠ .punct) :
    tokensAux (run ++ rest) (some (k, cur)) acc = tokensAux rest (some (k, run.reverse ++ cur)) acc := by
  induction run generalizing cur with
  | nil => rfl
  | cons c cs ih =>
      have hc := h c (by simp)
      simp only [List.cons_append, tokensAux, hc, beq_self_eq_true, Bool.true_and]
      have : (k != CK.punct) = true := by simpa using hk
      rw [if_pos this, ih _ (fun x hx => h x (by simp [hx]))]
      simp

theorem tokensAux_switch (c : Char) (cs : List Char) (k₀ : CK) (cur : List Char) (acc : List String)
    (h : (ck c == k₀ && k₀ != CK.punct) = false) :
    tokensAux (c :: cs) (some (k₀, cur)) acc =
      tokensAux cs (some (ck c, [c])) (String.ofList cur.reverse :: acc) := by
  rw [tokensAux, if_neg (by rw [h]; simp)]

/-- with the previous chunk in progress (`cur`, class `k₀` which does not merge with the next) -/
theorem tokensAux_chunks : ∀ (chunks : List (CK × List Char)) (k₀ : CK) (cur : List Char) (acc : List String),
    GoodChunks chunks → (∀ k cs rest, chunks = (k, cs) :: rest → k₀ ≠ k ∨ k₀ = .punct) →
    tokensAux (chunks.map (·.2)).flatten (some (k₀, cur)) acc =
      acc.reverse ++ String.ofList cur.reverse :: chunks.map (fun p => String.ofList p.2) := by
  intro chunks
  induction chunks with
  | nil => intro k₀ cur acc _ _; simp [tokensAux]
  | cons p rest ih =>
      intro k₀ cur acc hg hne
      obtain ⟨k, cs⟩ := p
      have hh : Homog k cs := by
        cases rest with
        | nil => exact hg
        | cons q r => exact hg.1
      obtain ⟨hne0, hall, hp⟩ := hh
      cases cs with
      | nil => exact absurd rfl hne0
      | cons c cs' =>
          have hc : ck c = k := hall c (by simp)
          have hsplit := hne k (c :: cs') rest rfl
          have hcond : (ck c == k₀ && k₀ != CK.punct) = false := by
            rw [hc]
            rcases hsplit with h | h
            · have : (k == k₀) = false := by
                apply beq_eq_false_iff_ne.mpr; exact fun e => h e.symm
              simp [this]
            · subst h; simp
          simp only [List.map_cons, List.flatten_cons, List.cons_append]
          rw [tokensAux_switch c _ k₀ cur acc hcond, hc]
          -- now in state (k, [c]); consume the rest of this chunk, then recurse
          have hgr : GoodChunks rest := by
            cases rest with
            | nil => trivial
            | cons q r => exact hg.2.2
          have hnext : ∀ k' cs'' rest', rest = (k', cs'') :: rest' → k ≠ k' ∨ k = .punct := by
            intro k' cs'' rest' e
            subst e; exact hg.2.1
          by_cases hkp : k = .punct
          · have : cs' = [] := by
              have := hp hkp; simp at this; exact this
            subst this
            simp only [List.nil_append]
            rw [ih k [c] _ hgr hnext]
            simp
          · rw [tokensAux_run cs' _ k [c] _ (fun x hx => hall x (by simp [hx])) hkp, ih k _ _ hgr hnext]
            simp

/-- **tokenizer on chunks** -/
theorem tokens_chunks (chunks : List (CK × List Char)) (hg : GoodChunks chunks) :
    tokens (String.ofList (chunks.map (·.2)).flatten) = chunks.map (fun p => String.ofList p.2) := by
  unfold tokens
  rw [String.toList_ofList]
  cases chunks with
  | nil => rfl
  | cons p rest =>
      obtain ⟨k, cs⟩ := p
      have hh : Homog k cs := by
        cases rest with
        | nil => exact hg
        | cons q r => exact hg.1
      obtain ⟨hne0, hall, hp⟩ := hh
      cases cs with
      | nil => exact absurd rfl hne0
      | cons c cs' =>
          have hc : ck c = k := hall c (by simp)
          simp only [List.map_cons, List.flatten_cons, List.cons_append, tokensAux, hc]
          have hgr : GoodChunks rest := by
            cases rest with
            | nil => trivial
            | cons q r => exact hg.2.2
          have hnext : ∀ k' cs'' rest', rest = (k', cs'') :: rest' → k ≠ k' ∨ k = .punct := by
            intro k' cs'' rest' e
            subst e; exact hg.2.1
          by_cases hkp : k = .punct
          · have : cs' = [] := by
              have := hp hkp; simp at this; exact this
            subst this
            simp only [List.nil_append]
            rw [tokensAux_chunks rest k [c] [] hgr hnext]
            simp
          · rw [tokensAux_run cs' _ k [c] _ (fun x hx => hall x (by simp [hx])) hkp,
              tokensAux_chunks rest k _ [] hgr hnext]
            simp

end TzStr
