/-
  Proofs/CacheStep.lean — one statement of one thread preserves the shared invariant, moves the
  shared state only forwards, keeps the lock discipline and re-establishes the thread's own
  invariant; the invariants of the other threads are stable under forward moves (C11).
-/
import DateutilVerif.Proofs.CacheInv

namespace Cache
open Queries Py

theorem stepIter_sinv {sh sh' : Shared} {t : Tid} {it it' : Iter}
    (h : stepIter sh t it = some (sh', it')) (hs : SInv sh) (hl : LInv sh it) :
    SInv sh' ∧ Mono sh sh' := by
  unfold stepIter at h
  obtain ⟨_, hl⟩ := hl
  split at h
  all_goals try (simp only [Option.some.injEq, Prod.mk.injEq] at h; obtain ⟨rfl, rfl⟩ := h; exact ⟨hs, Mono.refl _⟩)
  · -- l132
    split at h
    · cases h
    · simp only [Option.some.injEq, Prod.mk.injEq] at h
      obtain ⟨rfl, rfl⟩ := h
      exact ⟨⟨hs.cache_eq, hs.pos_le, hs.len_ok, hs.none_len, hs.compl_none⟩, ⟨rfl, rfl, Nat.le_refl _, id, id, id⟩⟩
  · -- l138
    unfold step138 at h
    split at h
    · rename_i x hx
      simp only [Option.some.injEq, Prod.mk.injEq] at h
      obtain ⟨rfl, rfl⟩ := h
      have hlt : sh.genPos < sh.src.length := by
        by_cases hc : sh.genPos < sh.src.length
        · exact hc
        · rw [List.getElem?_eq_none (by omega)] at hx; cases hx
      refine ⟨⟨?_, ?_, ?_, hs.none_len, hs.compl_none⟩, ⟨rfl, rfl, by simp, ?_, id, id⟩⟩
      · simp only []
        rw [hs.cache_eq, take_snoc hx]
      · simp only []; omega
      · intro n hn
        have := hs.len_ok n hn
        simp only [] at this ⊢
        exfalso; omega
      · intro he; exact he
    · rename_i hx
      have hge : sh.src.length ≤ sh.genPos := by
        by_cases hc : sh.genPos < sh.src.length
        · rw [List.getElem?_eq_getElem hc] at hx; cases hx
        · omega
      have heq : sh.genPos = sh.src.length := by have := hs.pos_le; omega
      split at h
      · rename_i hne
        simp only [Option.some.injEq, Prod.mk.injEq] at h
        obtain ⟨rfl, rfl⟩ := h
        refine ⟨⟨hs.cache_eq, hs.pos_le, ?_, ?_, hs.compl_none⟩, ⟨rfl, rfl, Nat.le_refl _, ?_, id, id⟩⟩
        · intro n hn
          simp only [Option.some.injEq] at hn
          simp only []
          exact ⟨by omega, by omega, hne⟩
        · intro _; simp
        · intro _; simp only [Exh]; rw [heq]
      · -- the generator raises E: nothing of the shared state changes but the lock
        split at h <;> (
          simp only [Option.some.injEq, Prod.mk.injEq] at h
          obtain ⟨rfl, rfl⟩ := h
          exact ⟨⟨hs.cache_eq, hs.pos_le, hs.len_ok, hs.none_len, hs.compl_none⟩, ⟨rfl, rfl, Nat.le_refl _, id, id, id⟩⟩)
  · -- l140
    rename_i hpc
    rw [hpc] at hl
    simp only [Option.some.injEq, Prod.mk.injEq] at h
    obtain ⟨rfl, rfl⟩ := h
    have he : sh.len = some sh.src.length := hl.2
    refine ⟨⟨hs.cache_eq, hs.pos_le, hs.len_ok, ?_, ?_⟩, ⟨rfl, rfl, Nat.le_refl _, id, id, fun _ => rfl⟩⟩
    · intro _; simp only []; rw [he]; simp
    · intro _; rfl
  · -- l141
    rename_i hpc
    rw [hpc] at hl
    simp only [Option.some.injEq, Prod.mk.injEq] at h
    obtain ⟨rfl, rfl⟩ := h
    exact ⟨⟨hs.cache_eq, hs.pos_le, hs.len_ok, hs.none_len, fun _ => hl.2.2⟩, ⟨rfl, rfl, Nat.le_refl _, id, fun _ => rfl, id⟩⟩
  · -- l144
    simp only [Option.some.injEq, Prod.mk.injEq] at h
    obtain ⟨rfl, rfl⟩ := h
    exact ⟨⟨hs.cache_eq, hs.pos_le, hs.len_ok, hs.none_len, hs.compl_none⟩, ⟨rfl, rfl, Nat.le_refl _, id, id, id⟩⟩
  · cases h

/-- the lock changes hands only through `acquire()` on a free lock and `release()` by the owner -/
theorem stepIter_lock {sh sh' : Shared} {t : Tid} {it it' : Iter}
    (h : stepIter sh t it = some (sh', it')) (hown : it.pc.inCrit = true ↔ sh.lock = some t) :
    (it'.pc.inCrit = true ↔ sh'.lock = some t) ∧ (∀ t', t' ≠ t → (sh'.lock = some t' ↔ sh.lock = some t')) := by
  unfold stepIter at h
  split at h
  all_goals rename_i hpc
  all_goals rw [hpc] at hown
  all_goals simp only [PC.inCrit, Bool.false_eq_true, false_iff, true_iff] at hown
  all_goals try (
    simp only [Option.some.injEq, Prod.mk.injEq] at h
    obtain ⟨rfl, rfl⟩ := h
    refine ⟨?_, fun _ _ => Iff.rfl⟩
    simp only [receive, finish, crashWith]
    (repeat' split) <;> simp_all [PC.inCrit])
  · -- entry
    simp only [Option.some.injEq, Prod.mk.injEq] at h
    obtain ⟨rfl, rfl⟩ := h
    refine ⟨?_, fun _ _ => Iff.rfl⟩
    split <;> simp_all [PC.inCrit]
  · -- l132
    split at h
    · cases h
    · rename_i hl
      simp only [Option.some.injEq, Prod.mk.injEq] at h
      obtain ⟨rfl, rfl⟩ := h
      refine ⟨by simp [PC.inCrit], fun t' ht' => ?_⟩
      simp only [hl, Option.some.injEq, reduceCtorEq, iff_false]
      exact fun e => ht' e.symm
  · -- l137
    simp only [Option.some.injEq, Prod.mk.injEq] at h
    obtain ⟨rfl, rfl⟩ := h
    refine ⟨?_, fun _ _ => Iff.rfl⟩
    split <;> simp_all [PC.inCrit]
  · -- l138
    unfold step138 at h
    split at h
    · simp only [Option.some.injEq, Prod.mk.injEq] at h
      obtain ⟨rfl, rfl⟩ := h
      exact ⟨by simp [PC.inCrit, hown], fun _ _ => Iff.rfl⟩
    · split at h
      · simp only [Option.some.injEq, Prod.mk.injEq] at h
        obtain ⟨rfl, rfl⟩ := h
        exact ⟨by simp [PC.inCrit, hown], fun _ _ => Iff.rfl⟩
      · split at h
        · -- the generator raises and E escapes: the `finally` releases
          simp only [Option.some.injEq, Prod.mk.injEq] at h
          obtain ⟨rfl, rfl⟩ := h
          refine ⟨by simp [raiseTo, PC.inCrit], fun t' ht' => ?_⟩
          simp only [hown, Option.some.injEq, reduceCtorEq, false_iff]
          exact fun e => ht' e.symm
        · simp only [Option.some.injEq, Prod.mk.injEq] at h
          obtain ⟨rfl, rfl⟩ := h
          exact ⟨by simp [PC.inCrit, hown], fun _ _ => Iff.rfl⟩
  · -- l144
    simp only [Option.some.injEq, Prod.mk.injEq] at h
    obtain ⟨rfl, rfl⟩ := h
    refine ⟨?_, fun t' ht' => ?_⟩
    · split <;> simp [PC.inCrit]
    · simp only [hown, Option.some.injEq, reduceCtorEq, false_iff]
      exact fun e => ht' e.symm
  · cases h

theorem Y_mono {sh sh' : Shared} {it : Iter} {k : Nat} (hm : Mono sh sh') (h : Y sh it k) : Y sh' it k := by
  unfold Y at *; rw [hm.src_eq]; exact h

theorem LInv_mono {sh sh' : Shared} {it : Iter} (hm : Mono sh sh') (hl : LInv sh it) : LInv sh' it := by
  obtain ⟨hc, hl⟩ := hl
  refine ⟨hc, ?_⟩
  have hle := hm.cache_le
  have hsrc := hm.src_eq
  cases hpc : it.pc <;> rw [hpc] at hl <;> simp only [] at hl ⊢
  all_goals first
    | exact hl
    | (rw [hsrc]; exact hl)
    | (rw [hsrc, hm.err_eq]; exact hl)
    | (obtain ⟨h1, h2⟩ := hl; exact ⟨Y_mono hm h1, hm.len_keep h2⟩)
    | skip
  all_goals (
    have hy := fun k => @Y_mono sh sh' it k hm
    have h1 := hm.len_keep; have h2 := hm.compl_keep; have h3 := hm.none_keep
    grind)

theorem LInv_finish_stop {sh : Shared} {it : Iter} (zs : List Int) (hsrc : sh.src = it.yielded ++ zs)
    (hst : stops it.q it.yielded = true) (hc : it.crash = none) : LInv sh (finish sh it) := by
  unfold LInv finish
  refine ⟨hc, ?_, ?_, ?_⟩
  · simp only []; rw [hsrc]; exact List.prefix_append _ _
  · intro hq; simp only [] at hq; rw [hq] at hst; simp [stops] at hst
  · intro hsorted hq; simp only []; rw [answer_stop hsrc hst hsorted hq]
    have : stops it.q sh.src = true := by rw [hsrc]; exact stops_append _ _ _ hst
    rw [specE_of_stops _ this]

theorem LInv_finish_all {sh : Shared} {it : Iter} (hs : SInv sh) (hy : it.yielded = sh.src) (he : Exh sh)
    (hc : it.crash = none) : LInv sh (finish sh it) := by
  unfold LInv finish
  refine ⟨hc, ?_, ?_, ?_⟩
  · simp only []; rw [hy]; exact List.prefix_refl _
  · intro _; exact hy
  · intro hsorted hq; simp only []; rw [hy, answer_all he hsorted hq, hs.exh_noerr he]; rfl

/-- a `yield` of `src[k]` to a consumer that has received `src.take k` -/
theorem LInv_receive {sh : Shared} {it : Iter} {k : Nat} {x : Int} {next : PC}
    (hc : it.crash = none) (hy : it.yielded = sh.src.take k) (hx : sh.src[k]? = some x)
    (hnext : ∀ it2 : Iter, it2.crash = none → it2.pc = next → it2.yielded = sh.src.take (k + 1) →
        it2.res = it.res → it2.i = it.i → it2.hasGen = it.hasGen → it2.pending = it.pending →
        stops it2.q it2.yielded = false → LInv sh it2) :
    LInv sh (receive sh it x next) := by
  unfold receive
  simp only []
  have hy' : it.yielded ++ [x] = sh.src.take (k + 1) := by rw [hy, take_snoc hx]
  split
  · rename_i hst
    apply LInv_finish_stop (sh.src.drop (k + 1))
    · simp only []; rw [hy', List.take_append_drop]
    · exact hst
    · exact hc
  · rename_i hst
    exact hnext _ hc rfl hy' rfl rfl rfl rfl (by simpa using hst)


theorem stepIter_linv {sh sh' : Shared} {t : Tid} {it it' : Iter}
    (h : stepIter sh t it = some (sh', it')) (hs : SInv sh) (hl : LInv sh it) : LInv sh' it' := by
  obtain ⟨hc, hl⟩ := hl
  have e1 := @SInv.exh_of_none sh hs
  have e2 := @SInv.exh_of_complete sh hs
  have e3 := @SInv.cache_len_le sh hs
  unfold stepIter at h
  split at h
  all_goals rename_i hpc
  all_goals rw [hpc] at hl
  all_goals simp only [] at hl
  all_goals try (
    simp only [Option.some.injEq, Prod.mk.injEq] at h
    obtain ⟨rfl, rfl⟩ := h
    unfold LInv Y at *
    refine ⟨hc, ?_⟩
    (repeat' split) <;> simp_all <;> grind)
  · -- entry
    simp only [Option.some.injEq, Prod.mk.injEq] at h
    obtain ⟨rfl, rfl⟩ := h
    obtain ⟨hy, hr, hq⟩ := hl
    split
    · rename_i hk
      unfold LInv
      refine ⟨hc, ?_, ?_, ?_⟩
      · simp only []; rw [hy]; exact List.nil_prefix
      · intro hq'; simp only [] at hq'; rw [hq'] at hq; simp [hasEntryCheck] at hq
      · intro hsorted hsm
        simp only [] at hsm ⊢
        cases hq' : it.q with
        | count =>
          rw [hq'] at hk
          simp only [entryKnown, Option.isSome_iff_exists] at hk
          obtain ⟨n, hn⟩ := hk
          have := (hs.len_ok n hn).1
          simp only [entryRes, answer, hn, spec, this, (hs.len_ok n hn).2.2, specE]
        | iterAll => rw [hq'] at hq; simp [hasEntryCheck] at hq
        | take k => rw [hq'] at hq; simp [hasEntryCheck] at hq
        | _ =>
          rw [hq'] at hk
          simp only [entryKnown] at hk
          simp only [entryRes, hs.exh_cache (e2 hk)]
          rw [fast_eq_spec _ _ hsorted (by simpa [hq'] using hsm), hs.exh_noerr (e2 hk)]; rfl
    · unfold LInv; exact ⟨hc, hy, hr⟩
  · -- l107
    simp only [Option.some.injEq, Prod.mk.injEq] at h
    obtain ⟨rfl, rfl⟩ := h
    obtain ⟨hy, hr, hcm⟩ := hl
    have hcache := hs.exh_cache (e2 hcm)
    split
    · rename_i hst
      apply LInv_finish_stop sh.src
      · simp only []; rw [hy]; rfl
      · simp only []; rw [hy]; exact hst
      · exact hc
    · unfold LInv
      refine ⟨hc, ?_, hr, e2 hcm⟩
      simp only []; rw [hy, hcache]; rfl
  · -- l111
    simp only [Option.some.injEq, Prod.mk.injEq] at h
    obtain ⟨rfl, rfl⟩ := h
    obtain ⟨hy, hr⟩ := hl
    split
    · rename_i hst
      apply LInv_finish_stop sh.src
      · rw [hy]; rfl
      · rw [hy]; exact hst
      · exact hc
    · rename_i hst
      unfold LInv; exact ⟨hc, hy, hr, by simpa using hst⟩
  · -- listIter
    simp only [Option.some.injEq, Prod.mk.injEq] at h
    obtain ⟨rfl, rfl⟩ := h
    obtain ⟨hy, hr, he⟩ := hl
    split
    · rename_i hp
      rw [hp, List.append_nil] at hy
      exact LInv_finish_all hs hy he hc
    · rename_i x rest hp
      rw [hp] at hy
      have hyt : it.yielded = sh.src.take it.yielded.length := by
        rw [← hy, List.take_left']; rfl
      have hx : sh.src[it.yielded.length]? = some x := by
        rw [← hy]; simp
      apply LInv_receive (it := { it with pending := rest }) (k := it.yielded.length) hc hyt hx
      intro it2 hc2 hpc2 hy2 hr2 _ _ hp2 _
      unfold LInv
      refine ⟨hc2, ?_⟩
      rw [hpc2]
      simp only []
      refine ⟨?_, by rw [hr2]; exact hr, he⟩
      rw [hy2, hp2]
      simp only []
      have : sh.src = (it.yielded ++ [x]) ++ rest := by rw [← hy]; simp
      rw [this, List.take_left' (by simp)]
  · -- l132
    split at h
    · cases h
    · simp only [Option.some.injEq, Prod.mk.injEq] at h
      obtain ⟨rfl, rfl⟩ := h
      unfold LInv Y at *
      exact ⟨hc, hl⟩
  · -- l137
    simp only [Option.some.injEq, Prod.mk.injEq] at h
    obtain ⟨rfl, rfl⟩ := h
    obtain ⟨hy, hij, hg⟩ := hl
    split
    · rename_i hj
      unfold LInv; exact ⟨hc, hy, hij, hj, hg⟩
    · rename_i hj
      unfold LInv
      refine ⟨hc, hy, by simp, fun _ => ⟨?_, hg⟩⟩
      show it.i < sh.cache.length
      omega
  · -- l138
    obtain ⟨hy, hij, hj, hg⟩ := hl
    unfold step138 at h
    split at h
    · simp only [Option.some.injEq, Prod.mk.injEq] at h
      obtain ⟨rfl, rfl⟩ := h
      unfold LInv
      refine ⟨hc, hy, ?_, hg⟩
      simp only [List.length_append, List.length_cons, List.length_nil]; omega
    · rename_i hx
      have hge : sh.src.length ≤ sh.genPos := by
        by_cases hcc : sh.genPos < sh.src.length
        · rw [List.getElem?_eq_getElem hcc] at hx; cases hx
        · omega
      have heq : sh.genPos = sh.src.length := by have := hs.pos_le; omega
      have hclen : sh.cache.length = sh.src.length := by rw [hs.cache_eq, List.length_take]; omega
      split at h
      · simp only [Option.some.injEq, Prod.mk.injEq] at h
        obtain ⟨rfl, rfl⟩ := h
        unfold LInv
        refine ⟨hc, hy, ?_⟩
        simp only [Exh]; rw [heq]
      · rename_i e hee
        split at h
        · -- E escapes to a consumer that has received all of `src` and has not stopped: what the uncached object does
          rename_i hi
          simp only [Option.some.injEq, Prod.mk.injEq] at h
          obtain ⟨rfl, rfl⟩ := h
          have hi' : it.i = sh.src.length := by rw [← hclen]; exact beq_iff_eq.mp hi
          obtain ⟨hy1, _, hn⟩ := hy
          have hall : it.yielded = sh.src := by rw [hy1, hi', List.take_length]
          unfold LInv raiseTo
          refine ⟨hc, ?_, fun _ => hall, fun _ _ => ?_⟩
          · simp only []; rw [hall]; exact List.prefix_refl _
          · simp only []
            rw [hee]
            simp only [specE]
            rw [← hall, hn]; rfl
        · rename_i hi
          simp only [Option.some.injEq, Prod.mk.injEq] at h
          obtain ⟨rfl, rfl⟩ := h
          have hne : it.i ≠ sh.cache.length := by intro e; exact hi (beq_iff_eq.mpr e)
          unfold LInv
          refine ⟨hc, hy, ?_, fun _ => ⟨?_, hg⟩⟩
          · intro hb; simp at hb
          · show it.i < sh.cache.length
            omega
  · -- l140
    simp only [Option.some.injEq, Prod.mk.injEq] at h
    obtain ⟨rfl, rfl⟩ := h
    unfold LInv Y at *
    exact ⟨hc, hl.1, hl.2, rfl⟩
  · -- l141
    simp only [Option.some.injEq, Prod.mk.injEq] at h
    obtain ⟨rfl, rfl⟩ := h
    unfold LInv Y at *
    exact ⟨hc, hl.1, hl.2.1⟩
  · -- l144
    simp only [Option.some.injEq, Prod.mk.injEq] at h
    obtain ⟨rfl, rfl⟩ := h
    obtain ⟨hy, hb1, hb2⟩ := hl
    cases hb : it.brk with
    | true =>
      unfold LInv
      simp only [hb, ↓reduceIte]
      exact ⟨hc, hy, hb1 hb⟩
    | false =>
      unfold LInv
      simp only [hb, Bool.false_eq_true, ↓reduceIte]
      exact ⟨hc, hy, hb2 hb⟩
  · -- l145
    simp only [Option.some.injEq, Prod.mk.injEq] at h
    obtain ⟨rfl, rfl⟩ := h
    obtain ⟨⟨hy, hr, hn⟩, hi, hg⟩ := hl
    split
    · rename_i x hx
      apply LInv_receive hc hy (hs.cache_get hx)
      intro it2 hc2 hpc2 hy2 hr2 hi2 hg2 _ hn2
      unfold LInv
      refine ⟨hc2, ?_⟩
      rw [hpc2]
      simp only []
      rw [hi2, hg2]
      exact ⟨⟨hy2, by rw [hr2]; exact hr, hn2⟩, hi, hg⟩
    · rename_i hx
      rw [List.getElem?_eq_getElem hi] at hx; cases hx
  · -- l147
    simp only [Option.some.injEq, Prod.mk.injEq] at h
    obtain ⟨rfl, rfl⟩ := h
    obtain ⟨⟨hy, hr, hn⟩, he⟩ := hl
    have hcache := hs.exh_cache he
    split
    · rename_i hlt
      unfold LInv; exact ⟨hc, ⟨hy, hr, hn⟩, he, by rw [← hcache]; exact hlt⟩
    · rename_i hge
      apply LInv_finish_all hs _ he hc
      rw [hy, List.take_of_length_le (by rw [← hcache]; omega)]
  · -- l148
    simp only [Option.some.injEq, Prod.mk.injEq] at h
    obtain ⟨rfl, rfl⟩ := h
    obtain ⟨⟨hy, hr, hn⟩, he, hi⟩ := hl
    have hcache := hs.exh_cache he
    split
    · rename_i x hx
      apply LInv_receive hc hy (hs.cache_get hx)
      intro it2 hc2 hpc2 hy2 hr2 hi2 _ _ hn2
      unfold LInv
      refine ⟨hc2, ?_⟩
      rw [hpc2]
      simp only []
      rw [hi2]
      exact ⟨⟨hy2, by rw [hr2]; exact hr, hn2⟩, he, hi⟩
    · rename_i hx
      rw [hcache, List.getElem?_eq_getElem hi] at hx; cases hx
  · cases h

end Cache
