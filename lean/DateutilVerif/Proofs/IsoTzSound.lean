/- Proofs/IsoTzSound.lean — complete soundness of `_parse_tzstr`: accepted ⇒ rendering of an offset form. -/
import DateutilVerif.Proofs.IsoDigits
set_option linter.unusedSimpArgs false
namespace Iso
open IsoSpec Py

/-- the value `parse_tzstr(s, zero_as_utc)` must return for the rendering of an offset form -/
def offValue (z : Bool) (o : OffForm) (x : Fields) : Off :=
  match o with
  | .naive | .Z | .z => .utc
  | .hh => if z = true ∧ x.oh = 0 then .utc
           else .fixed ((if x.neg then -1 else 1) * ((x.oh : Int) * 3600))
  | .hhmm | .hhcmm =>
      if z = true ∧ x.oh = 0 ∧ x.om = 0 then .utc
      else .fixed ((if x.neg then -1 else 1) * ((x.oh : Int) * 3600 + (x.om : Int) * 60))

theorem len_cons (s : Bytes) (n : Nat) (h : s.length = n + 1) : ∃ a t, s = a :: t ∧ t.length = n := by
  cases s with
  | nil => simp at h
  | cons a t => exact ⟨a, t, rfl, by simpa using h⟩

theorem len3 (s : Bytes) (h : s.length = 3) : ∃ a b c, s = [a, b, c] := by
  obtain ⟨a, t1, rfl, h1⟩ := len_cons s 2 h
  obtain ⟨b, t2, rfl, h2⟩ := len_cons t1 1 h1
  obtain ⟨c, t3, rfl, h3⟩ := len_cons t2 0 h2
  have : t3 = [] := List.length_eq_zero_iff.mp h3
  subst this; exact ⟨a, b, c, rfl⟩

theorem len5 (s : Bytes) (h : s.length = 5) : ∃ a b c d e, s = [a, b, c, d, e] := by
  obtain ⟨a, t1, rfl, h1⟩ := len_cons s 4 h
  obtain ⟨b, t2, rfl, h2⟩ := len_cons t1 3 h1
  obtain ⟨c, d, e, rfl⟩ := len3 t2 h2
  exact ⟨a, b, c, d, e, rfl⟩

theorem len6 (s : Bytes) (h : s.length = 6) : ∃ a b c d e f, s = [a, b, c, d, e, f] := by
  obtain ⟨a, t1, rfl, h1⟩ := len_cons s 5 h
  obtain ⟨b, c, d, e, f, rfl⟩ := len5 t1 h1
  exact ⟨a, b, c, d, e, f, rfl⟩

theorem sign_cases (a : Nat) (m : Int)
    (h : (if [a] = [cDash] then (Except.ok (-1) : R Int) else if [a] = [cPlus] then .ok 1 else .error .ValueError) = .ok m) :
    (a = 45 ∧ m = -1) ∨ (a = 43 ∧ m = 1) := by
  by_cases h1 : a = 45
  · subst h1; simp [cDash] at h; exact Or.inl ⟨rfl, h.symm⟩
  · by_cases h2 : a = 43
    · subst h2; simp [cDash, cPlus] at h; exact Or.inr ⟨rfl, h.symm⟩
    · simp [cDash, cPlus, h1, h2] at h

theorem tz_tail (z : Bool) (m : Int) (v1 v2 : Nat) (v : Off)
    (h : (if z = true ∧ (v1 : Int) = 0 ∧ (v2 : Int) = 0 then (Except.ok IsoT.Off.utc : R IsoT.Off)
          else if (v2 : Int) > 59 then .error .ValueError
          else if (v1 : Int) > 23 then .error .ValueError
          else .ok (.fixed (m * ((v1 : Int) * 60 + (v2 : Int)) * 60))) = .ok v) :
    (z = true ∧ v1 = 0 ∧ v2 = 0 ∧ v = .utc) ∨
    (¬ (z = true ∧ v1 = 0 ∧ v2 = 0) ∧ v2 ≤ 59 ∧ v1 ≤ 23 ∧ v = .fixed (m * ((v1 : Int) * 60 + (v2 : Int)) * 60)) := by
  by_cases c : z = true ∧ (v1 : Int) = 0 ∧ (v2 : Int) = 0
  · rw [if_pos c] at h; cases h; left; exact ⟨c.1, by omega, by omega, rfl⟩
  · rw [if_neg c] at h
    by_cases c2 : (v2 : Int) > 59
    · rw [if_pos c2] at h; cases h
    · rw [if_neg c2] at h
      by_cases c3 : (v1 : Int) > 23
      · rw [if_pos c3] at h; cases h
      · rw [if_neg c3] at h; cases h
        right; exact ⟨fun hc => c ⟨hc.1, by omega, by omega⟩, by omega, by omega, rfl⟩

theorem tz_sound3 (a b c : Nat) (z : Bool) (v : Off) (h : parseTzstr [a, b, c] z = .ok v)
    (hz : ¬ ([a,b,c] = [cZ] ∨ [a,b,c] = [cz])) :
    ∃ o x, o ≠ OffForm.naive ∧ offWF o x = true ∧ [a,b,c] = renderOff o x ∧ v = offValue z o x := by
  unfold parseTzstr at h
  rw [if_neg hz, if_neg (by simp)] at h
  simp only [bind, Except.bind, List.take, List.drop, List.length_cons, List.length_nil] at h
  have hsign : a = 45 ∨ a = 43 := by
    by_cases h1 : a = 45
    · exact Or.inl h1
    · by_cases h2 : a = 43
      · exact Or.inr h2
      · simp [cDash, cPlus, h1, h2] at h
  cases hd : parseDigits [b, c] 2 with
  | error e => rcases hsign with rfl | rfl <;> simp [cDash, cPlus, hd] at h
  | ok v1 =>
    obtain ⟨_, hdig, rfl⟩ := (parseDigits_ok_iff _ _ _ (by decide)).mp hd
    simp at hdig
    have hp := pad2_digitsVal b c hdig.1 hdig.2
    refine ⟨.hh, { year := 0, neg := decide (a = 45), oh := digitsVal [b, c] }, by decide, ?_, ?_, ?_⟩
    · rcases hsign with rfl | rfl <;> simp [cDash, cPlus, hd] at h <;> simp [offWF] <;>
        (repeat' split at h) <;> simp_all <;> omega
    · simp only [renderOff, hp.1, signByte]
      rcases hsign with rfl | rfl <;> simp
    · simp only [offValue]
      rcases hsign with rfl | rfl <;> simp [cDash, cPlus, hd] at h <;>
        (repeat' split at h) <;> simp_all <;> first | omega | (intro; omega) | skip
      all_goals (rename_i hn _; subst h; rw [if_neg (fun hc => hn hc.1 hc.2)]; congr 1; omega)

theorem tz_sound5 (a b c d e : Nat) (z : Bool) (v : Off) (h : parseTzstr [a, b, c, d, e] z = .ok v) :
    ∃ o x, o ≠ OffForm.naive ∧ offWF o x = true ∧ [a,b,c,d,e] = renderOff o x ∧ v = offValue z o x := by
  unfold parseTzstr at h
  rw [if_neg (by simp), if_neg (by simp)] at h
  simp only [bind, Except.bind, List.take, List.drop, List.length_cons, List.length_nil] at h
  have hsign : a = 45 ∨ a = 43 := by
    by_cases h1 : a = 45
    · exact Or.inl h1
    · by_cases h2 : a = 43
      · exact Or.inr h2
      · simp [cDash, cPlus, h1, h2] at h
  cases hd : parseDigits [b, c] 2 with
  | error e0 => rcases hsign with rfl | rfl <;> simp [cDash, cPlus, hd] at h
  | ok v1 =>
    obtain ⟨_, hdig, rfl⟩ := (parseDigits_ok_iff _ _ _ (by decide)).mp hd
    simp at hdig
    have hp := pad2_digitsVal b c hdig.1 hdig.2
    by_cases hcol : d = 58
    · subst hcol
      have : parseDigits [e] 2 = .error .ValueError := by simp [parseDigits]
      rcases hsign with rfl | rfl <;> simp [cDash, cPlus, cColon, hd, this] at h
    · cases hm : parseDigits [d, e] 2 with
      | error e0 => rcases hsign with rfl | rfl <;> simp [cDash, cPlus, cColon, hd, hcol, hm] at h
      | ok v2 =>
        obtain ⟨_, hdig2, rfl⟩ := (parseDigits_ok_iff _ _ _ (by decide)).mp hm
        simp at hdig2
        have hp2 := pad2_digitsVal d e hdig2.1 hdig2.2
        refine ⟨.hhmm, { year := 0, neg := decide (a = 45), oh := digitsVal [b, c], om := digitsVal [d, e] },
          by decide, ?_, ?_, ?_⟩
        · rcases hsign with rfl | rfl <;> simp [cDash, cPlus, cColon, hd, hcol, hm] at h <;> simp [offWF] <;>
            (repeat' split at h) <;> simp_all <;> omega
        · simp only [renderOff, hp.1, hp2.1, signByte]
          rcases hsign with rfl | rfl <;> simp
        · simp only [offValue]
          rcases hsign with rfl | rfl <;> simp [cDash, cPlus, cColon, hd, hcol, hm] at h <;>
            (repeat' split at h) <;> simp_all <;> first | omega | (intro; omega) | skip
          all_goals (rename_i hn _ _; subst h; rw [if_neg (fun hc => hn hc.1 hc.2.1 hc.2.2)]; congr 1; omega)

theorem tz_sound6 (a b c d e f : Nat) (z : Bool) (v : Off) (h : parseTzstr [a, b, c, d, e, f] z = .ok v) :
    ∃ o x, o ≠ OffForm.naive ∧ offWF o x = true ∧ [a,b,c,d,e,f] = renderOff o x ∧ v = offValue z o x := by
  unfold parseTzstr at h
  rw [if_neg (by simp), if_neg (by simp)] at h
  simp only [bind, Except.bind, List.take, List.drop, List.length_cons, List.length_nil] at h
  have hsign : a = 45 ∨ a = 43 := by
    by_cases h1 : a = 45
    · exact Or.inl h1
    · by_cases h2 : a = 43
      · exact Or.inr h2
      · simp [cDash, cPlus, h1, h2] at h
  cases hd : parseDigits [b, c] 2 with
  | error e0 => rcases hsign with rfl | rfl <;> simp [cDash, cPlus, hd] at h
  | ok v1 =>
    obtain ⟨_, hdig, rfl⟩ := (parseDigits_ok_iff _ _ _ (by decide)).mp hd
    simp at hdig
    have hp := pad2_digitsVal b c hdig.1 hdig.2
    by_cases hcol : d = 58
    · subst hcol
      cases hm : parseDigits [e, f] 2 with
      | error e0 => rcases hsign with rfl | rfl <;> simp [cDash, cPlus, cColon, hd, hm] at h
      | ok v2 =>
        obtain ⟨_, hdig2, rfl⟩ := (parseDigits_ok_iff _ _ _ (by decide)).mp hm
        simp at hdig2
        have hp2 := pad2_digitsVal e f hdig2.1 hdig2.2
        refine ⟨.hhcmm, { year := 0, neg := decide (a = 45), oh := digitsVal [b, c], om := digitsVal [e, f] },
          by decide, ?_, ?_, ?_⟩
        · rcases hsign with rfl | rfl <;> simp [cDash, cPlus, cColon, hd, hm] at h <;> simp [offWF] <;>
            (repeat' split at h) <;> simp_all <;> omega
        · simp only [renderOff, hp.1, hp2.1, signByte]
          rcases hsign with rfl | rfl <;> simp
        · simp only [offValue]
          rcases hsign with rfl | rfl <;> simp [cDash, cPlus, cColon, hd, hm] at h <;>
            (repeat' split at h) <;> simp_all <;> first | omega | (intro; omega) | skip
          all_goals (rename_i hn _ _; subst h; rw [if_neg (fun hc => hn hc.1 hc.2.1 hc.2.2)]; congr 1; omega)
    · have : parseDigits [d, e, f] 2 = .error .ValueError := by simp [parseDigits]
      rcases hsign with rfl | rfl <;> simp [cDash, cPlus, cColon, hd, hcol, this] at h

theorem parseTzstr_sound (s : Bytes) (z : Bool) (v : Off) (h : parseTzstr s z = .ok v) :
    ∃ o x, o ≠ OffForm.naive ∧ offWF o x = true ∧ s = renderOff o x ∧ v = offValue z o x := by
  by_cases hz : s = [cZ] ∨ s = [cz]
  · have hv : v = .utc := by
      unfold parseTzstr at h; rw [if_pos hz] at h; cases h; rfl
    subst hv
    rcases hz with rfl | rfl
    · exact ⟨.Z, { year := 0 }, by decide, rfl, rfl, rfl⟩
    · exact ⟨.z, { year := 0 }, by decide, rfl, rfl, rfl⟩
  · by_cases hl : s.length = 3 ∨ s.length = 5 ∨ s.length = 6
    · rcases hl with hl | hl | hl
      · obtain ⟨a, b, c, rfl⟩ := len3 s hl; exact tz_sound3 a b c z v h hz
      · obtain ⟨a, b, c, d, e, rfl⟩ := len5 s hl; exact tz_sound5 a b c d e z v h
      · obtain ⟨a, b, c, d, e, f, rfl⟩ := len6 s hl; exact tz_sound6 a b c d e f z v h
    · unfold parseTzstr at h; rw [if_neg hz, if_pos hl] at h; cases h
end Iso
