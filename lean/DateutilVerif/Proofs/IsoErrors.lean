/- Proofs/IsoErrors.lean — the only exception kind the isoparser model raises is ValueError;
   a configured separator is exact. -/
import DateutilVerif.Proofs.IsoRender
set_option linter.unusedSimpArgs false
namespace Iso
open Cal Py

/-- the only exception kind a computation can raise is ValueError -/
def OnlyVE {α} (r : R α) : Prop := ∀ e, r = .error e → e = .ValueError

theorem onlyVE_ok {α} (a : α) : OnlyVE (.ok a : R α) := by intro e h; cases h
theorem onlyVE_pure {α} (a : α) : OnlyVE (pure a : R α) := by intro e h; cases h
theorem onlyVE_err {α} : OnlyVE (.error .ValueError : R α) := by intro e h; cases h; rfl
theorem onlyVE_bind {α β} (r : R α) (f : α → R β) (h1 : OnlyVE r) (h2 : ∀ a, OnlyVE (f a)) :
    OnlyVE (r >>= f) := by
  intro e h
  cases r with
  | error e' => simp [bind, Except.bind] at h; subst h; exact h1 _ rfl
  | ok a => exact h2 a e h
theorem onlyVE_ebind {α β} (r : R α) (f : α → R β) (h1 : OnlyVE r) (h2 : ∀ a, OnlyVE (f a)) :
    OnlyVE (r.bind f) := onlyVE_bind r f h1 h2
theorem onlyVE_ite {α} (c : Prop) [Decidable c] (a b : R α) (h1 : OnlyVE a) (h2 : OnlyVE b) :
    OnlyVE (if c then a else b) := by split <;> assumption
theorem onlyVE_match {α β} (r : R α) (f : α → R β) (h1 : OnlyVE r) (h2 : ∀ a, OnlyVE (f a)) :
    OnlyVE (match r with | .error e => .error e | .ok v => f v) := by
  cases r with
  | error e' => intro e h; cases h; exact h1 _ rfl
  | ok a => exact h2 a

theorem onlyVE_parseDigits (f : Bytes) (w : Nat) : OnlyVE (parseDigits f w) :=
  fun e h => parseDigits_err f w e h

/-- case split on the scrutinee of an `Except` match whose error branch re-raises -/
syntax "ve_cases " term " using " term : tactic
macro_rules
  | `(tactic| ve_cases $r using $hr) =>
    `(tactic| (cases hq : ($r)
               case error e' => (have hh := $hr e' hq; subst hh; exact onlyVE_err)
               simp only []))

macro "only_ve" : tactic =>
  `(tactic| repeat (first
      | exact onlyVE_err | exact onlyVE_ok _ | exact onlyVE_pure _ | exact onlyVE_parseDigits _ _
      | apply onlyVE_bind | apply onlyVE_ebind | apply onlyVE_ite | apply onlyVE_match | intro _))

theorem onlyVE_common (s : Bytes) : OnlyVE (parseIsodateCommon s) := by
  unfold parseIsodateCommon; only_ve

theorem onlyVE_overflowToValue_ordChecked (o : Int) : OnlyVE (overflowToValue (ordChecked o)) := by
  unfold ordChecked
  split
  · intro e h; simp [overflowToValue] at h; exact h.symm
  · exact onlyVE_ok _

theorem onlyVE_mkDateOrd (y m d : Int) : OnlyVE (mkDateOrd y m d) := by
  unfold mkDateOrd; only_ve

theorem onlyVE_calculateWeekdate (y w d : Int) : OnlyVE (calculateWeekdate y w d) := by
  unfold calculateWeekdate
  apply onlyVE_ite; exact onlyVE_err
  apply onlyVE_ite; exact onlyVE_err
  unfold mkDateOrd
  by_cases hv : validDate y 1 4 = true
  · have hy : 1 ≤ y ∧ y ≤ 9999 := by
      simp only [validDate, decide_eq_true_eq] at hv; exact ⟨hv.1, hv.2.1⟩
    have hp := w1_pos y hy.1
    have hw : isoWeek1Monday y ≤ maxOrdinal := by
      have f := w1_facts y
      have := dby_mono y 9999 hy.2
      have e : daysBeforeYear 9999 = 3651694 := by decide
      unfold maxOrdinal; omega
    simp only [hv, if_true, bind, Except.bind, jan4_week1, ordChecked]
    rw [if_neg (by omega)]
    simp only []
    have hov := onlyVE_overflowToValue_ordChecked (isoWeek1Monday y + ((w - 1) * 7 + (d - 1)))
    unfold ordChecked at hov
    ve_cases (overflowToValue (if isoWeek1Monday y + ((w - 1) * 7 + (d - 1)) < 1 ∨ isoWeek1Monday y + ((w - 1) * 7 + (d - 1)) > maxOrdinal then Except.error PyErr.OverflowError else Except.ok (isoWeek1Monday y + ((w - 1) * 7 + (d - 1))))) using hov
    only_ve
  · simp only [hv]; intro e h; simp [bind, Except.bind] at h; exact h.symm

theorem onlyVE_uncommon (s : Bytes) : OnlyVE (parseIsodateUncommon s) := by
  unfold parseIsodateUncommon
  apply onlyVE_ite; exact onlyVE_err
  apply onlyVE_bind; exact onlyVE_parseDigits _ _
  intro year
  apply onlyVE_ite
  · apply onlyVE_bind; exact onlyVE_parseDigits _ _
    intro weekno
    apply onlyVE_ite
    · apply onlyVE_ite; exact onlyVE_err
      apply onlyVE_bind; exact onlyVE_parseDigits _ _
      intro dayno
      apply onlyVE_bind; exact onlyVE_calculateWeekdate _ _ _
      intro b; exact onlyVE_ok _
    · apply onlyVE_bind; exact onlyVE_calculateWeekdate _ _ _
      intro b; exact onlyVE_ok _
  · apply onlyVE_ite; exact onlyVE_err
    apply onlyVE_bind; exact onlyVE_parseDigits _ _
    intro ord
    by_cases hr : ord < 1 ∨ ord > 365 + (if isLeap year then 1 else 0)
    · rw [if_pos hr]; exact onlyVE_err
    · rw [if_neg hr]
      unfold mkDateOrd
      by_cases hv : validDate year 1 1 = true
      · have hy : 1 ≤ year ∧ year ≤ 9999 := by
          simp only [validDate, decide_eq_true_eq] at hv; exact ⟨hv.1, hv.2.1⟩
        have hp := toOrdinal_pos year 1 1 hy.1 (by simp [ValidYMD, daysInMonth])
        have hle : toOrdinal year 1 1 + (ord - 1) ≤ maxOrdinal := by
          have s := daysBeforeYear_succ year
          have := dby_mono (year + 1) 10000 (by omega)
          have e : daysBeforeYear 10000 = 3652059 := by decide
          have hdy : daysInYear year = 365 + (if isLeap year then 1 else 0) := by
            unfold daysInYear; split <;> simp
          rw [toOrdinal_jan]
          unfold maxOrdinal; omega
        simp only [hv, if_true, bind, Except.bind, ordChecked]
        rw [if_neg (by omega)]
        exact onlyVE_ok _
      · simp only [hv]; intro e h; simp [bind, Except.bind] at h; exact h.symm

theorem onlyVE_parseIsodate (s : Bytes) : OnlyVE (parseIsodate s) := by
  unfold parseIsodate
  have hc := onlyVE_common s
  cases h : parseIsodateCommon s with
  | ok v => exact onlyVE_ok _
  | error e =>
    have := hc e h; subst this
    exact onlyVE_uncommon s

theorem onlyVE_parseTzstr (s : Bytes) (z : Bool) : OnlyVE (parseTzstr s z) := by
  unfold parseTzstr; only_ve

theorem onlyVE_timeLoop (ks : List Nat) (r : Bytes) (hs : Bool) (c : TComps) : OnlyVE (timeLoop ks r hs c) := by
  induction ks generalizing r hs c with
  | nil => unfold timeLoop; exact onlyVE_ok _
  | cons k ks ih =>
    unfold timeLoop
    apply onlyVE_ite; exact onlyVE_ok _
    apply onlyVE_ite
    · apply onlyVE_ite; exact onlyVE_err
      ve_cases (parseTzstr r true) using (onlyVE_parseTzstr r true)
      exact onlyVE_ok _
    · have hss : OnlyVE (sepStep k r hs) := by unfold sepStep; only_ve
      ve_cases (sepStep k r hs) using hss
      rename_i a _
      obtain ⟨r', hs'⟩ := a
      simp only []
      apply onlyVE_ite
      · ve_cases (parseDigits (List.take 2 r') 2) using (onlyVE_parseDigits _ _)
        exact ih _ _ _
      · apply onlyVE_ite
        · cases matchFraction r' with
          | none => exact ih _ _ _
          | some q => exact ih _ _ _
        · exact ih _ _ _

theorem onlyVE_parseIsotime (s : Bytes) : OnlyVE (parseIsotime s) := by
  unfold parseIsotime
  apply onlyVE_ite; exact onlyVE_err
  ve_cases (timeLoop [0, 1, 2, 3, 4, 5] s false {}) using (onlyVE_timeLoop _ _ _ _)
  rename_i a _
  obtain ⟨c, rest⟩ := a
  simp only []
  only_ve

theorem onlyVE_mkDatetime (y m d hh mm ss us : Int) (tz : Option Off) :
    OnlyVE (mkDatetime y m d hh mm ss us tz) := by
  unfold mkDatetime; only_ve

theorem onlyVE_overflowToValue_addDays (t : DT) (n : Int) : OnlyVE (overflowToValue (t.addDays n)) := by
  unfold DT.addDays DT.addMicros
  dsimp only
  split
  · intro e h; simp [overflowToValue] at h; exact h.symm
  · exact onlyVE_ok _

theorem onlyVE_isoparse (cfg : Option Nat) (s : Bytes) : OnlyVE (isoparse cfg s) := by
  unfold isoparse
  apply onlyVE_bind; exact onlyVE_parseIsodate s
  intro p
  apply onlyVE_ite
  · apply onlyVE_ite
    · apply onlyVE_bind; exact onlyVE_parseIsotime _
      intro c
      apply onlyVE_ite
      · apply onlyVE_bind; exact onlyVE_mkDatetime _ _ _ _ _ _ _ _
        intro v
        apply onlyVE_bind; exact onlyVE_overflowToValue_addDays _ _
        intro t; exact onlyVE_ok _
      · exact onlyVE_mkDatetime _ _ _ _ _ _ _ _
    · exact onlyVE_err
  · exact onlyVE_mkDatetime _ _ _ _ _ _ _ _

/-- with a configured separator no other byte between date and time is accepted -/
theorem sep_exact_core (c : Nat) (s : Bytes) (v : Result) (h : isoparse (some c) s = .ok v) :
    ∃ ymd rest, parseIsodate s = .ok (ymd, rest) ∧ (rest = [] ∨ ∃ r, rest = c :: r) := by
  unfold isoparse at h
  cases hp : parseIsodate s with
  | error e => simp [hp, bind, Except.bind] at h
  | ok p =>
    obtain ⟨ymd, rest⟩ := p
    refine ⟨ymd, rest, rfl, ?_⟩
    by_cases hr : rest = []
    · exact Or.inl hr
    · right
      simp only [hp, bind, Except.bind] at h
      rw [if_pos hr] at h
      by_cases hc : (some c : Option Nat) = none ∨ List.take 1 rest = (some c : Option Nat).toList
      · rcases hc with hc | hc
        · cases hc
        · cases rest with
          | nil => exact absurd rfl hr
          | cons b r => simp at hc; exact ⟨r, by rw [hc]⟩
      · rw [if_neg hc] at h; cases h

theorem onlyVE_mkSep (sep : Option (List Nat)) : OnlyVE (mkSep sep) := by
  unfold mkSep
  split
  · exact onlyVE_ok _
  · only_ve
  · exact onlyVE_err

theorem onlyVE_asciiGate {α} (isStr : Bool) (s : Bytes) (f : Bytes → R α) (hf : ∀ s, OnlyVE (f s)) :
    OnlyVE (asciiGate isStr s f) := by
  unfold asciiGate; apply onlyVE_ite; exact onlyVE_err; exact hf s

theorem onlyVE_isoparseFull (sep : Option (List Nat)) (isStr : Bool) (s : Bytes) :
    OnlyVE (isoparseFull sep isStr s) := by
  unfold isoparseFull
  apply onlyVE_bind; exact onlyVE_mkSep sep
  intro sp; exact onlyVE_asciiGate _ _ _ (onlyVE_isoparse sp)

theorem onlyVE_parseIsodateEntry (s : Bytes) : OnlyVE (parseIsodateEntry s) := by
  unfold parseIsodateEntry
  apply onlyVE_bind; exact onlyVE_parseIsodate s
  intro p; only_ve

theorem onlyVE_parseIsotimeEntry (s : Bytes) : OnlyVE (parseIsotimeEntry s) := by
  unfold parseIsotimeEntry
  apply onlyVE_bind; exact onlyVE_parseIsotime s
  intro c; only_ve

end Iso
