/-
  Proofs/RenderMon.lean — token scan of the month-name renderings (family 4 of C02): ctime, `Month D, YYYY`,
  `D Mon YYYY`, `DD-Mon-YYYY`.  Domain: year ≥ 100 wherever the year is read as a Decimal (D-C02).
-/
import DateutilVerif.Proofs.RenderWords

namespace PM
open Py PT

@[simp] theorem convertyear_ge100 (pi : Gen.PInfoYear) (y : Int) (h : 100 ≤ y) (cs : Bool) :
    Gen.convertyear pi y cs = .ok y := by
  unfold Gen.convertyear
  have hge : ¬ ¬ (y ≥ 0) := by omega
  have hlt : ¬ (y < 100) := by omega
  simp [hge, hlt]
@[simp] theorem dval_y100 : dval [0, 1, 10, 100] = 100 := by decide
@[simp] theorem dval_1 (n : Nat) (h : n < 10) : dval [n] = n := by simp [dval, dvalAcc]; omega

section
variable (df yf : Bool) (year century : Int)
@[simp] theorem pt_sp : (Info.default df yf year century).isPertain [' '] = false := by tbl
@[simp] theorem pt_comma : (Info.default df yf year century).isPertain [','] = false := by tbl
end

/-- what the scan needs to know about a month word and a weekday word -/
structure MonWord (cls : Char → CClass) (info : Info) (t : Token) (m : Nat) : Prop where
  float : floatOk cls t = false
  wd : info.weekdayOf t = none
  mo : info.monthOf t = some m
  hms : info.hmsOf t = none
  ampm : info.ampmOf t = none
  jump : info.isJump t = false
  isdig : isDigitTok cls t = false
structure WdWord (cls : Char → CClass) (info : Info) (t : Token) (w : Nat) : Prop where
  float : floatOk cls t = false
  wd : info.weekdayOf t = some w

/-- `'%d' % d` as a token -/
def dayTok (d : Nat) : Token := if d < 10 then dtok [d] else dtok [d / 10, d]
def y4 (y : Nat) : Token := dtok [y / 1000, y / 100, y / 10, y]

def monTokens (f : MonFmt) (W Mo : Token) (y d h mi s : Nat) : List Token :=
  match f with
  | .ctime _ => [W, [' '], Mo, [' ']] ++ (if d < 10 then [[' '], dtok [d]] else [dtok [d / 10, d]]) ++
      [[' '], dtok [h / 10, h], [':'], dtok [mi / 10, mi], [':'], dtok [s / 10, s], [' '], y4 y]
  | .rfc2822 _ => [W, [','], [' '], dtok [d / 10, d], [' '], Mo, [' '], y4 y, [' '], dtok [h / 10, h], [':'], dtok [mi / 10, mi],
      [':'], dtok [s / 10, s]]
  | .longDate => [Mo, [' '], dayTok d, [','], [' '], y4 y]
  | .dMonY => [dayTok d, [' '], Mo, [' '], y4 y]
  | .ddMonY => [dtok [d / 10, d], ['-'], Mo, ['-'], y4 y]

set_option hygiene false in
/-- common preparation: bounds and validity facts as hypotheses for the simp set -/
macro "mon_prep" : tactic => `(tactic| (
  have by' : y < 10000 := by omega
  have bm : m < 100 := by omega
  have bd : d < 100 := by omega
  have bh : h < 100 := by omega
  have bmi : mi < 100 := by omega
  have bs : s < 100 := by omega
  have n1 : ¬ (2147483647 : Int) < y := by omega
  have n2 : ¬ (2147483647 : Int) < m := by omega
  have n3 : ¬ (2147483647 : Int) < d := by omega
  have n4 : ¬ (2147483647 : Int) < h := by omega
  have n5 : ¬ (2147483647 : Int) < mi := by omega
  have n6 : ¬ (2147483647 : Int) < s := by omega
  have n7 : ¬ (2147483647 : Int) < us := by omega
  have d31 : ¬ 31 < d := by omega
  have m31 : ¬ 31 < m := by omega
  have m100 : ¬ 100 < m := by omega
  have d100 : ¬ 100 < d := by omega
  have d0 : ¬ d = 0 := by omega))

set_option maxHeartbeats 4000000 in
theorem tok_mon_date (cls : Char → CClass) [AsciiOK cls] (yf : Bool) (year century : Int) (o : Opts) (tznames : List Token)
    (tzi : TzInfos) (ho : PlainOpts o tzi) (dflt : DT) (f : MonFmt) (hf : f = .longDate ∨ f = .dMonY ∨ f = .ddMonY)
    (W Mo : Token) (y m d h mi s us : Nat)
    (hMo : MonWord cls (Info.default false yf year century) Mo m)
    (hv : (DT.mk y m d h mi s us).Valid) (hy : f = .ddMonY ∨ 100 ≤ y)
    (hexp : dflt.hh = h ∧ dflt.mm = mi ∧ dflt.ss = s ∧ dflt.us = us) :
    parseResult cls (Info.default false yf year century) o tznames tzi dflt (monTokens f W Mo y d h mi s) =
      .ok { dt := DT.mk y m d h mi s us, tz := .naive, tokens := none } := by
  obtain ⟨⟨hy1, hy2, hm1, hm2, hd1, hd2⟩, hh1, hh2, hmi1, hmi2, hs1, hs2, hu1, hu2⟩ := hv
  dsimp only at *
  have hdim := (Cal.daysInMonth_bounds (y : Int) (m : Int)).2
  obtain ⟨hfz, hfwt, hdf, htz1, htz2⟩ := ho
  obtain ⟨e1, e2, e3, e4⟩ := hexp
  have hvalid : (DT.mk (y : Int) m d h mi s us).valid = true := by
    unfold DT.valid
    exact decide_eq_true ⟨⟨hy1, hy2, hm1, hm2, hd1, hd2⟩, hh1, hh2, hmi1, hmi2, hs1, hs2, hu1, hu2⟩
  mon_prep
  obtain ⟨mf, mw, mm, mh, ma, mj, mdg⟩ := hMo
  rcases hf with rfl | rfl | rfl
  · -- Month D, YYYY
    have hy' : 100 ≤ y := by rcases hy with h | h; cases h; exact h
    by_cases hd10 : d < 10 <;> by_cases hy100 : y = 100
    all_goals (try subst hy100)
    all_goals (try (have hvalid100 : (DT.mk 100 (m : Int) d h mi s us).valid = true := by simpa using hvalid))
    all_goals (try (have hgt : 100 < y := by omega))
    all_goals psimpa [monTokens, dayTok, y4]
  · -- D Mon YYYY
    have hy' : 100 ≤ y := by rcases hy with h | h; cases h; exact h
    by_cases hd10 : d < 10 <;> by_cases hy100 : y = 100
    all_goals (try subst hy100)
    all_goals (try (have hvalid100 : (DT.mk 100 (m : Int) d h mi s us).valid = true := by simpa using hvalid))
    all_goals (try (have hgt : 100 < y := by omega))
    all_goals psimpa [monTokens, dayTok, y4]
  · -- DD-Mon-YYYY (every year)
    psimpa [monTokens, y4]

end PM
