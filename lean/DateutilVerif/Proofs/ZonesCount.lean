/-
  Proofs/ZonesCount.lean — the wall-clock structure of a coherent, well-formed zone by index:
  segment `c` (the instants with `c` transitions ≤ t) is read on the wall clock as the interval
  `[Lo (c-1), Hi c)`; the ends `Hi` and the starts `Lo` increase, and `Hi i < Lo (i+1)` (WF), so a
  wall time lies in at most two consecutive images.  `wall0 = Hi`, `wall1 = min Hi Lo`.
-/
import DateutilVerif.Proofs.Zones

namespace TZ
open Spec

/-- wall reading at which segment `i` ends (= `wall0[i]`) -/
def Hi (z : TzFile) (b : TType) (i : Nat) : Int := U z i + Bo z b i
/-- wall reading at which segment `i+1` starts -/
def Lo (z : TzFile) (b : TType) (i : Nat) : Int := U z i + Bo z b (i + 1)

theorem A_eq_Bo (z : TzFile) (b : TType) (i : Nat) : A z i = Bo z b (i + 1) := by
  simp [Bo]

theorem mono_of_step (f : Nat → Int) (n : Nat) (h : ∀ i, i + 1 < n → f i ≤ f (i + 1)) :
    ∀ i j, i ≤ j → j < n → f i ≤ f j := by
  intro i j hij hj
  induction j with
  | zero => have : i = 0 := by omega
            subst this; exact Int.le_refl _
  | succ k ih =>
      by_cases e : i = k + 1
      · subst e; exact Int.le_refl _
      · have := ih (by omega) (by omega)
        have := h k hj
        omega

theorem count_iff {l : List Int} (hs : SortedL l) (x : Int) (c : Nat) (hc : c ≤ l.length) :
    bisectRight l x = c ↔ ((0 < c → l.getD (c - 1) 0 ≤ x) ∧ (c < l.length → x < l.getD c 0)) := by
  constructor
  · intro h
    obtain ⟨_, h1, h2⟩ := bisectRight_spec x hs
    rw [h] at h1 h2
    exact ⟨fun h0 => h1 _ (by omega), fun hn => h2 c (Nat.le_refl _) hn⟩
  · intro ⟨h1, h2⟩
    exact bisectRight_eq hs (boundary_of_adjacent hs hc h1 h2)

section
variable {z : TzFile} {b s : TType} (hc : Coherent z b s) (hwf : WFz z b)
include hc hwf

theorem Coherent.step (i : Nat) (hi : i + 1 < z.utc.length) :
    neg (Bo z b (i + 1) - Bo z b i) + neg (Bo z b (i + 1 + 1) - Bo z b (i + 1)) < U z (i + 1) - U z i := by
  have := hc.wf_idx hwf i hi
  rw [A_eq_Bo z b i, A_eq_Bo z b (i + 1)] at this
  exact this

theorem Coherent.lo_step (i : Nat) (hi : i + 1 < z.utc.length) : Lo z b i < Lo z b (i + 1) := by
  have := hc.step hwf i hi
  simp only [neg, Lo] at this ⊢
  split at this <;> split at this <;> omega

theorem Coherent.hi_step (i : Nat) (hi : i + 1 < z.utc.length) : Hi z b i < Hi z b (i + 1) := by
  have := hc.step hwf i hi
  simp only [neg, Hi] at this ⊢
  split at this <;> split at this <;> omega

theorem Coherent.hi_lo (i : Nat) (hi : i + 1 < z.utc.length) : Hi z b i < Lo z b (i + 1) := by
  have := hc.step hwf i hi
  simp only [neg, Hi, Lo] at this ⊢
  split at this <;> split at this <;> omega

theorem Coherent.lo_mono (i j : Nat) (hij : i ≤ j) (hj : j < z.utc.length) : Lo z b i ≤ Lo z b j :=
  mono_of_step (Lo z b) z.utc.length (fun k hk => Int.le_of_lt (hc.lo_step hwf k hk)) i j hij hj

theorem Coherent.hi_mono (i j : Nat) (hij : i ≤ j) (hj : j < z.utc.length) : Hi z b i ≤ Hi z b j :=
  mono_of_step (Hi z b) z.utc.length (fun k hk => Int.le_of_lt (hc.hi_step hwf k hk)) i j hij hj

omit hwf in
theorem Coherent.w0_hi (i : Nat) (hi : i < z.utc.length) : z.wall0.getD i 0 = Hi z b i :=
  hc.w0_get i hi

omit hwf in
theorem Coherent.w1_lohi (i : Nat) (hi : i < z.utc.length) :
    z.wall1.getD i 0 = min (Hi z b i) (Lo z b i) := by
  rw [hc.w1_get i hi, A_eq_Bo z b i]
  simp only [Hi, Lo]; omega

/-- the UTC count of `t` is `c` iff `t` lies in segment `c` -/
theorem Coherent.count_utc (t : Int) (c : Nat) (hcn : c ≤ z.utc.length) :
    bisectRight z.utc t = c ↔ ((0 < c → U z (c - 1) ≤ t) ∧ (c < z.utc.length → t < U z c)) :=
  count_iff (hc.utc_sorted hwf) t c hcn

theorem Coherent.count_w0 (w : Int) (c : Nat) (hcn : c ≤ z.utc.length) :
    bisectRight z.wall0 w = c ↔ ((0 < c → Hi z b (c - 1) ≤ w) ∧ (c < z.utc.length → w < Hi z b c)) := by
  rw [count_iff (hc.w0_sorted hwf) w c (by rw [hc.w0_len]; exact hcn), hc.w0_len]
  constructor
  · intro ⟨h1, h2⟩
    exact ⟨fun h0 => by rw [← hc.w0_hi _ (by omega)]; exact h1 h0,
           fun hn => by rw [← hc.w0_hi _ hn]; exact h2 hn⟩
  · intro ⟨h1, h2⟩
    exact ⟨fun h0 => by rw [hc.w0_hi _ (by omega)]; exact h1 h0,
           fun hn => by rw [hc.w0_hi _ hn]; exact h2 hn⟩

theorem Coherent.count_w1 (w : Int) (c : Nat) (hcn : c ≤ z.utc.length) :
    bisectRight z.wall1 w = c ↔
      ((0 < c → min (Hi z b (c - 1)) (Lo z b (c - 1)) ≤ w) ∧
       (c < z.utc.length → w < min (Hi z b c) (Lo z b c))) := by
  rw [count_iff (hc.w1_sorted hwf) w c (by rw [hc.w1_len]; exact hcn), hc.w1_len]
  constructor
  · intro ⟨h1, h2⟩
    exact ⟨fun h0 => by rw [← hc.w1_lohi _ (by omega)]; exact h1 h0,
           fun hn => by rw [← hc.w1_lohi _ hn]; exact h2 hn⟩
  · intro ⟨h1, h2⟩
    exact ⟨fun h0 => by rw [hc.w1_lohi _ (by omega)]; exact h1 h0,
           fun hn => by rw [hc.w1_lohi _ hn]; exact h2 hn⟩

/-- **a pre-image lies in segment `k0` or `k0+1`**, `k0` the fold=0 wall count -/
theorem Coherent.pre_seg (w t : Int) (hp : w = t + Bo z b (bisectRight z.utc t)) :
    bisectRight z.utc t = bisectRight z.wall0 w ∨
    bisectRight z.utc t = bisectRight z.wall0 w + 1 := by
  have hcn := bisectRight_le z.utc t
  have hkn : bisectRight z.wall0 w ≤ z.utc.length := by rw [← hc.w0_len]; exact bisectRight_le _ _
  obtain ⟨c1, c2⟩ := (hc.count_utc hwf t _ hcn).mp rfl
  obtain ⟨k1, k2⟩ := (hc.count_w0 hwf w _ hkn).mp rfl
  generalize bisectRight z.utc t = c at *
  generalize bisectRight z.wall0 w = k at *
  by_cases h1 : c < k
  · exfalso
    have a := c2 (by omega)
    have m := hc.hi_mono hwf c (k - 1) (by omega) (by omega)
    have := k1 (by omega)
    simp only [Hi] at m this
    omega
  by_cases h2 : k + 2 ≤ c
  · exfalso
    have a := c1 (by omega)
    have k' := k2 (by omega)
    have hl := hc.hi_lo hwf k (by omega)
    have m := hc.lo_mono hwf (k + 1) (c - 1) (by omega) (by omega)
    have e : c - 1 + 1 = c := by omega
    simp only [Lo, Hi, e] at m hl k'
    omega
  omega

/-- segment `c` reads `w` ⇒ `w − offset(c)` is an instant of segment `c` -/
theorem Coherent.seg_pre (w : Int) (c : Nat) (hcn : c ≤ z.utc.length)
    (h1 : 0 < c → Lo z b (c - 1) ≤ w) (h2 : c < z.utc.length → w < Hi z b c) :
    bisectRight z.utc (w - Bo z b c) = c := by
  rw [hc.count_utc hwf _ c hcn]
  refine ⟨fun h0 => ?_, fun hn => ?_⟩
  · have := h1 h0
    have e : c - 1 + 1 = c := by omega
    simp only [Lo, e] at this; omega
  · have := h2 hn
    simp only [Hi] at this; omega

/-- the fold=1 wall count: one more than the fold=0 count exactly when the next segment reads `w` too -/
theorem Coherent.k1_eq (w : Int) :
    bisectRight z.wall1 w =
      if bisectRight z.wall0 w < z.utc.length ∧ Lo z b (bisectRight z.wall0 w) ≤ w
      then bisectRight z.wall0 w + 1 else bisectRight z.wall0 w := by
  have hkn : bisectRight z.wall0 w ≤ z.utc.length := by rw [← hc.w0_len]; exact bisectRight_le _ _
  obtain ⟨k1, k2⟩ := (hc.count_w0 hwf w _ hkn).mp rfl
  generalize bisectRight z.wall0 w = k at *
  by_cases hP : k < z.utc.length ∧ Lo z b k ≤ w
  · rw [if_pos hP, hc.count_w1 hwf w (k + 1) (by omega)]
    refine ⟨fun _ => ?_, fun hn => ?_⟩
    · simp only [Nat.add_sub_cancel]; omega
    · have a := k2 hP.1
      have m := hc.hi_step hwf k hn
      have l := hc.hi_lo hwf k hn
      omega
  · rw [if_neg hP, hc.count_w1 hwf w k hkn]
    refine ⟨fun h0 => ?_, fun hn => ?_⟩
    · have := k1 h0; omega
    · have := k2 hn
      have : ¬ Lo z b k ≤ w := fun h => hP ⟨hn, h⟩
      omega

end

end TZ
