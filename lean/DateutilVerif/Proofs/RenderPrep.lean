/-
  Proofs/RenderPrep.lean — the facts about a valid datetime `t` and a valid default `dflt` that the symbolic runs
  use (bounds of the rendered numbers, casts, C-int smallness, validity of every field mix).
-/
import DateutilVerif.Proofs.RenderSchema
import DateutilVerif.Proofs.RenderMon
import DateutilVerif.Proofs.RenderCompact
import DateutilVerif.Proofs.RenderClock
import DateutilVerif.Spec.ParserTemplatesGen
import DateutilVerif.Proofs.LexDot3

namespace PM
open Py PT

theorem digs_dtok (ks : List Nat) : digs ks = dtok ks := rfl
theorem dateDigits8_eq (y m d : Nat) : dateDigits8 y m d = date8 y m d := rfl
theorem weekday_lt7 (t : DT) : t.weekday.toNat < 7 := by
  have := Cal.weekdayOfOrd_range t.ordinal
  unfold DT.weekday; omega

theorem valid_mix (t : DT) (ht : t.Valid) (hh mm ss us : Int) (h1 : 0 ≤ hh) (h2 : hh ≤ 23) (h3 : 0 ≤ mm) (h4 : mm ≤ 59)
    (h5 : 0 ≤ ss) (h6 : ss ≤ 59) (h7 : 0 ≤ us) (h8 : us ≤ 999999) : (DT.mk t.y t.m t.d hh mm ss us).valid = true := by
  unfold DT.valid
  exact decide_eq_true ⟨ht.1, h1, h2, h3, h4, h5, h6, h7, h8⟩

@[simp] theorem convertyear_true (pi : Gen.PInfoYear) (y : Int) (h : 0 ≤ y) : Gen.convertyear pi y true = .ok y := by
  unfold Gen.convertyear
  have hge : ¬ ¬ (y ≥ 0) := by omega
  simp [hge]

@[simp] theorem dot_mem_dtok (ks : List Nat) : ('.' ∈ dtok ks) = False := by
  simp only [eq_iff_iff, iff_false]; exact dot_notin_dtok ks

@[simp] theorem dval_pad6 (n : Nat) (h : n < 1000000) : dval [n / 100000, n / 10000, n / 1000, n / 100, n / 10, n] = n := by
  simp [dval, dvalAcc]; omega

section
variable (cls : Char → CClass) [AsciiOK cls]
theorem numEnds_sp (r : List Char) : NumEnds cls (' ' :: r) := numEnds_ascii cls _ _ (by decide)
theorem wordEnds_sp (r : List Char) : WordEnds cls (' ' :: r) := wordEnds_ascii cls _ _ (by decide)

theorem lex_dec12' (d : Nat) (rest : List Char) (he : NumEnds cls rest) :
    scan cls .init (dec12 d ++ rest) = dayTok d :: scan cls .init rest := by
  unfold dec12 dayTok
  split
  · exact lex_dtok cls d [] rest he
  · exact lex_pad2 cls d rest he

/-- a day number directly followed by `, ` (`Month D, YYYY`): one digit — the comma ends the number at once; two digits — the comma
    is first taken into the number and split off again -/
theorem lex_dec12_comma_sp (d : Nat) (r : List Char) :
    scan cls .init (dec12 d ++ (',' :: (' ' :: r))) = dayTok d :: [','] :: scan cls .init (' ' :: r) := by
  have hcomma : cls ',' = .other := cls_other cls ',' (by decide)
  have hcn : (cls ',').isNum = false := by rw [hcomma]; rfl
  have hsp : cls ' ' = .space := cls_space cls ' ' (by decide)
  unfold dec12 dayTok
  split
  · exact lex_num1_comma cls (digitChar d) (' ' :: r) (drun_dtok cls [d]) hcomma
  · have := lex_num_comma cls (digitChar (d / 10)) [digitChar d] ' ' r
      (drun_dtok cls [d / 10, d]) (by simp) hcn (by decide) (by rw [hsp]; rfl) (by decide) (by rw [hsp]; rfl)
    simpa [pad2, dtok] using this

theorem fracEnds_of_numEnds (rest : List Char) (h : NumEnds cls rest) : FracEnds cls rest := by
  cases rest with
  | nil => trivial
  | cons c r => exact ⟨h.1, h.2.1, h.2.2.1⟩

/-- `DD.MM.YYYY`: one token to the state machine, five after the `[.,]` re-split -/
theorem lex_dot3_224 (a b c : Nat) (rest : List Char) (he : FracEnds cls rest) :
    scan cls .init (pad2 a ++ ('.' :: (pad2 b ++ ('.' :: (pad4 c ++ rest))))) =
      dtok [a / 10, a] :: ['.'] :: dtok [b / 10, b] :: ['.'] :: y4 c :: scan cls .init rest := by
  have hdot : (cls '.').isNum = false := by rw [AsciiOK.agree (cls := cls) '.' (by decide)]; decide
  have := lex_dot3 cls (digitChar (a / 10)) [digitChar a] (digitChar (b / 10)) [digitChar b]
    (digitChar (c / 1000)) [digitChar (c / 100), digitChar (c / 10), digitChar c] rest hdot
    (drun_dtok cls [a / 10, a]) (drun_dtok cls [b / 10, b]) (drun_dtok cls [c / 1000, c / 100, c / 10, c]) he
  simpa [pad2, pad4, dtok, y4] using this

/-- `YYYY.MM.DD` -/
theorem lex_dot3_422 (a b c : Nat) (rest : List Char) (he : FracEnds cls rest) :
    scan cls .init (pad4 a ++ ('.' :: (pad2 b ++ ('.' :: (pad2 c ++ rest))))) =
      y4 a :: ['.'] :: dtok [b / 10, b] :: ['.'] :: dtok [c / 10, c] :: scan cls .init rest := by
  have hdot : (cls '.').isNum = false := by rw [AsciiOK.agree (cls := cls) '.' (by decide)]; decide
  have := lex_dot3 cls (digitChar (a / 1000)) [digitChar (a / 100), digitChar (a / 10), digitChar a]
    (digitChar (b / 10)) [digitChar b] (digitChar (c / 10)) [digitChar c] rest hdot
    (drun_dtok cls [a / 1000, a / 100, a / 10, a]) (drun_dtok cls [b / 10, b]) (drun_dtok cls [c / 10, c]) he
  simpa [pad2, pad4, dtok, y4] using this

theorem monWordA (yf : Bool) (year century : Int) (m : Nat) (h1 : 1 ≤ m) (h2 : m ≤ 12) :
    MonWord cls (Info.default false yf year century) (monAbbr m) m ∧ isAlphaWord (monAbbr m) = true := by
  obtain ⟨a1, _, a3, _, a5, _, a7, _, a9, _, a11, _, a13, _⟩ := mon_facts m h1 h2
  exact ⟨⟨floatOk_alpha cls _ a5 a7, a3, a1, a9, a11, a13, isDigitTok_alpha cls _ a5⟩, a5⟩

theorem monWordF (yf : Bool) (year century : Int) (m : Nat) (h1 : 1 ≤ m) (h2 : m ≤ 12) :
    MonWord cls (Info.default false yf year century) (monFull m) m ∧ isAlphaWord (monFull m) = true := by
  obtain ⟨_, a2, _, a4, _, a6, _, a8, _, a10, _, a12, _, a14⟩ := mon_facts m h1 h2
  exact ⟨⟨floatOk_alpha cls _ a6 a8, a4, a2, a10, a12, a14, isDigitTok_alpha cls _ a6⟩, a6⟩

theorem wdWordA (yf : Bool) (year century : Int) (w : Nat) (h : w < 7) :
    WdWord cls (Info.default false yf year century) (wdAbbr w) w ∧ isAlphaWord (wdAbbr w) = true := by
  obtain ⟨a1, a2, a3⟩ := wd_facts w h
  exact ⟨⟨floatOk_alpha cls _ a2 a3, a1⟩, a2⟩

/-- a single ASCII letter as a word -/
theorem lex_letter (c : Char) (rest : List Char)
    (h : [c].all (fun c => decide (c.toNat < 128) && (asciiCls c).isWord && decide (c ≠ '\x00')) = true)
    (he : WordEnds cls rest) : scan cls .init (c :: rest) = [c] :: scan cls .init rest := by
  have := lex_aword cls c [] rest h he
  simpa using this

/-- a letter word after a number ends the number -/
theorem numEnds_word (w r : List Char) (h : isAlphaWord w = true) : NumEnds cls (w ++ r) := by
  cases w with
  | nil => simp [isAlphaWord] at h
  | cons a as =>
    simp only [isAlphaWord, Bool.and_eq_true, List.all_eq_true, decide_eq_true_eq] at h
    have ha := h.2 a List.mem_cons_self
    show _ ∧ _
    rw [AsciiOK.agree (cls := cls) a ha.1.1]
    have hnn : (asciiCls a).isNum = false := by cases hk : asciiCls a <;> simp_all [CClass.isWord, CClass.isNum]
    refine ⟨ha.2, hnn, ?_, ?_⟩
    · intro he; subst he; revert ha; decide
    · intro he; subst he; revert ha; decide

/-- a digit token after a word ends the word -/
theorem wordEnds_num (s r : List Char) (h : ∃ k ks, s = dtok (k :: ks)) : WordEnds cls (s ++ r) := by
  obtain ⟨k, ks, rfl⟩ := h
  exact wordEnds_dtok cls k ks r

/-- the offset suffixes that start with a space (or nothing) end a word -/
theorem wordEnds_off (off : Off) (h : off.Spaced) : WordEnds cls off.render := by
  rcases off with _ | sp | _ | ⟨sp, neg, oh⟩ | ⟨sp, neg, oh, om⟩ | ⟨sp, neg, oh, om⟩
  · exact trivial
  all_goals (try (simp only [Off.Spaced] at h; subst h))
  all_goals exact wordEnds_ascii cls _ _ (by decide)
end

/-! ### 12-hour clock words -/
section
variable (df yf : Bool) (year century : Int)
local notation "I" => Info.default df yf year century
@[simp] theorem wd_am : (I).weekdayOf ['a', 'm'] = none := by tbl
@[simp] theorem mo_am : (I).monthOf ['a', 'm'] = none := by tbl
@[simp] theorem ap_am : (I).ampmOf ['a', 'm'] = some 0 := by tbl
@[simp] theorem wd_pm : (I).weekdayOf ['p', 'm'] = none := by tbl
@[simp] theorem mo_pm : (I).monthOf ['p', 'm'] = none := by tbl
@[simp] theorem ap_pm : (I).ampmOf ['p', 'm'] = some 1 := by tbl
@[simp] theorem wd_AM : (I).weekdayOf ['A', 'M'] = none := by tbl
@[simp] theorem mo_AM : (I).monthOf ['A', 'M'] = none := by tbl
@[simp] theorem ap_AM : (I).ampmOf ['A', 'M'] = some 0 := by tbl
@[simp] theorem wd_PM : (I).weekdayOf ['P', 'M'] = none := by tbl
@[simp] theorem mo_PM : (I).monthOf ['P', 'M'] = none := by tbl
@[simp] theorem ap_PM : (I).ampmOf ['P', 'M'] = some 1 := by tbl
@[simp] theorem hms_am : (I).hmsOf ['a', 'm'] = none := by tbl
@[simp] theorem hms_pm : (I).hmsOf ['p', 'm'] = none := by tbl
@[simp] theorem hms_AM : (I).hmsOf ['A', 'M'] = none := by tbl
@[simp] theorem hms_PM : (I).hmsOf ['P', 'M'] = none := by tbl
@[simp] theorem jmp_am : (I).isJump ['a', 'm'] = false := by tbl
@[simp] theorem jmp_pm : (I).isJump ['p', 'm'] = false := by tbl
@[simp] theorem jmp_AM : (I).isJump ['A', 'M'] = false := by tbl
@[simp] theorem jmp_PM : (I).isJump ['P', 'M'] = false := by tbl
end
section
variable (cls : Char → CClass) [AsciiOK cls]
@[simp] theorem fl_am : floatOk cls ['a', 'm'] = false := by rw [floatOk_ascii cls _ (by decide)]; decide
@[simp] theorem fl_pm : floatOk cls ['p', 'm'] = false := by rw [floatOk_ascii cls _ (by decide)]; decide
@[simp] theorem fl_AM : floatOk cls ['A', 'M'] = false := by rw [floatOk_ascii cls _ (by decide)]; decide
@[simp] theorem fl_PM : floatOk cls ['P', 'M'] = false := by rw [floatOk_ascii cls _ (by decide)]; decide
end
theorem apLow_alpha (h : Nat) : isAlphaWord (apLow h) = true := by unfold apLow; split <;> decide
theorem apWord_alpha (h : Nat) : isAlphaWord (apWord h) = true := by unfold apWord; split <;> decide

theorem adj_am (h : Nat) (hlt : h < 12) : (Gen.adjustAmpm ((h12 h : Nat) : Int) 0).toNat = h := by
  have := adjustAmpm_h12 h (by omega); simpa [adjustAmpm, hlt] using this
theorem adj_pm (h : Nat) (hge : ¬ h < 12) (h24 : h < 24) : (Gen.adjustAmpm ((h12 h : Nat) : Int) 1).toNat = h := by
  have := adjustAmpm_h12 h h24; simpa [adjustAmpm, hge] using this
theorem h12_bounds (h : Nat) : 1 ≤ h12 h ∧ h12 h ≤ 12 := by unfold h12; split <;> omega

set_option hygiene false in
/-- from `ht : t.Valid`, `hdv : dflt.Valid` -/
macro "dt_facts" : tactic => `(tactic| (
  obtain ⟨⟨hy1, hy2, hm1, hm2, hd1, hd2⟩, hh1, hh2, hmi1, hmi2, hs1, hs2, hu1, hu2⟩ := id ht
  obtain ⟨_, dh1, dh2, dm1, dm2, hds1, hds2, hdu1, hdu2⟩ := id hdv
  have hdim := (Cal.daysInMonth_bounds t.y t.m).2
  have ey : ((t.y.toNat : Nat) : Int) = t.y := Int.toNat_of_nonneg (by omega)
  have em : ((t.m.toNat : Nat) : Int) = t.m := Int.toNat_of_nonneg (by omega)
  have ed : ((t.d.toNat : Nat) : Int) = t.d := Int.toNat_of_nonneg (by omega)
  have eh : ((t.hh.toNat : Nat) : Int) = t.hh := Int.toNat_of_nonneg (by omega)
  have emi : ((t.mm.toNat : Nat) : Int) = t.mm := Int.toNat_of_nonneg (by omega)
  have es : ((t.ss.toNat : Nat) : Int) = t.ss := Int.toNat_of_nonneg (by omega)
  have eu : ((t.us.toNat : Nat) : Int) = t.us := Int.toNat_of_nonneg (by omega)
  have y0 : 0 ≤ t.y := by omega
  have by' : t.y.toNat < 10000 := by omega
  have bm : t.m.toNat < 100 := by omega
  have bd : t.d.toNat < 100 := by omega
  have bh : t.hh.toNat < 100 := by omega
  have bmi : t.mm.toNat < 100 := by omega
  have bs : t.ss.toNat < 100 := by omega
  have bus : t.us.toNat < 1000000 := by omega
  have byy : t.y.toNat % 100 < 100 := Nat.mod_lt _ (by omega)
  have m12 : ¬ 12 < t.m.toNat := by omega
  have m12' : t.m.toNat ≤ 12 := by omega
  have m31 : ¬ 31 < t.m.toNat := by omega
  have m100 : ¬ 100 < t.m.toNat := by omega
  have d31 : ¬ 31 < t.d.toNat := by omega
  have d31' : t.d.toNat ≤ 31 := by omega
  have d100 : ¬ 100 < t.d.toNat := by omega
  have d0 : ¬ t.d.toNat = 0 := by omega
  have nY : ¬ (2147483647 : Int) < t.y := by omega
  have nM : ¬ (2147483647 : Int) < t.m := by omega
  have nD : ¬ (2147483647 : Int) < t.d := by omega
  have nH : ¬ (2147483647 : Int) < t.hh := by omega
  have nMi : ¬ (2147483647 : Int) < t.mm := by omega
  have nS : ¬ (2147483647 : Int) < t.ss := by omega
  have nU : ¬ (2147483647 : Int) < t.us := by omega
  have V1 := valid_mix t ht t.hh t.mm t.ss 0 hh1 hh2 hmi1 hmi2 hs1 hs2 (by omega) (by omega)
  have V2 := valid_mix t ht t.hh t.mm t.ss dflt.us hh1 hh2 hmi1 hmi2 hs1 hs2 hdu1 hdu2
  have V3 := valid_mix t ht t.hh t.mm dflt.ss dflt.us hh1 hh2 hmi1 hmi2 hds1 hds2 hdu1 hdu2
  have V4 := valid_mix t ht t.hh dflt.mm dflt.ss dflt.us hh1 hh2 dm1 dm2 hds1 hds2 hdu1 hdu2
  have V5 := valid_mix t ht dflt.hh dflt.mm dflt.ss dflt.us dh1 dh2 dm1 dm2 hds1 hds2 hdu1 hdu2
  have V6 := valid_mix t ht t.hh t.mm t.ss t.us hh1 hh2 hmi1 hmi2 hs1 hs2 hu1 hu2))

end PM
