/-
  Proofs/TzStrParseFacts.lean — what the parser's tests answer on digit and letter tokens, array
  indexing through a list decomposition, and the coverage invariant behind `anyUnused = false`.
-/
import DateutilVerif.Proofs.TzStrSpelling

namespace TzStr

/-- every index the parser has passed is used, or holds "," / ":" (which `finish` tolerates) -/
def Cov (l : Array String) (st : St) : Prop :=
  ∀ k, k < st.i → k < l.size → (k ∈ st.used ∨ l[k]? = some "," ∨ l[k]? = some ":")

theorem get_at {l : Array String} {pre tail : List String} (h : l.toList = pre ++ tail) (k : Nat) :
    l[pre.length + k]? = tail[k]? := by
  rw [← Array.getElem?_toList, h, List.getElem?_append_right (by omega)]
  congr 1; omega

theorem size_at {l : Array String} {pre tail : List String} (h : l.toList = pre ++ tail) :
    l.size = pre.length + tail.length := by
  rw [← Array.length_toList, h, List.length_append]

theorem toksOf_cons (c : Chunk) (cs : List Chunk) : toksOf (c :: cs) = String.ofList c.2 :: toksOf cs := rfl
theorem toksOf_nil : toksOf [] = [] := rfl
theorem toksOf_append (a b : List Chunk) : toksOf (a ++ b) = toksOf a ++ toksOf b := by simp [toksOf]

/-! ### characters -/

theorem digit_of_ck (c : Char) (h : ck c = .digit) : '0' ≤ c ∧ c ≤ '9' := by
  unfold ck at h
  split at h
  · cases h
  · split at h
    · cases h
    · split at h
      · assumption
      · cases h

theorem digit_cases (c : Char) (h : '0' ≤ c ∧ c ≤ '9') :
    c ∈ ['0', '1', '2', '3', '4', '5', '6', '7', '8', '9'] := by
  have a := h.1; have b := h.2
  simp only [Char.le_def, UInt32.le_iff_toNat_le] at a b
  have e0 : ('0' : Char).val.toNat = 48 := by decide
  have e9 : ('9' : Char).val.toNat = 57 := by decide
  rw [e0] at a; rw [e9] at b
  have key : ∀ d : Char, c.val.toNat = d.val.toNat → c = d := by
    intro d hd; exact Char.ext (UInt32.toNat_inj.mp hd)
  have : c.val.toNat = 48 ∨ c.val.toNat = 49 ∨ c.val.toNat = 50 ∨ c.val.toNat = 51 ∨ c.val.toNat = 52 ∨
      c.val.toNat = 53 ∨ c.val.toNat = 54 ∨ c.val.toNat = 55 ∨ c.val.toNat = 56 ∨ c.val.toNat = 57 := by omega
  rcases this with h|h|h|h|h|h|h|h|h|h
  · rw [key '0' (by rw [h]; decide)]; simp
  · rw [key '1' (by rw [h]; decide)]; simp
  · rw [key '2' (by rw [h]; decide)]; simp
  · rw [key '3' (by rw [h]; decide)]; simp
  · rw [key '4' (by rw [h]; decide)]; simp
  · rw [key '5' (by rw [h]; decide)]; simp
  · rw [key '6' (by rw [h]; decide)]; simp
  · rw [key '7' (by rw [h]; decide)]; simp
  · rw [key '8' (by rw [h]; decide)]; simp
  · rw [key '9' (by rw [h]; decide)]; simp

/-- a token all of whose characters have class `k` differs from a literal containing a character of
    another class -/
theorem ne_lit (t s : String) (k : CK) (h : ∀ c ∈ t.toList, ck c = k) (c : Char) (hc : c ∈ s.toList)
    (hk : ck c ≠ k) : (t == s) = false := by
  apply beq_eq_false_iff_ne.mpr
  intro e; subst e; exact hk (h c hc)

/-! ### digit tokens -/

structure DigTok (t : String) : Prop where
  plus : (t == "+") = false
  minus : (t == "-") = false
  eqJ : (t == "J") = false
  eqM : (t == "M") = false
  comma : (t == ",") = false
  semi : (t == ";") = false
  slash : (t == "/") = false
  first : firstIsDigit t = true
  hasOff : hasOffsetChar t = true
  allDig : allCharsIn t "0123456789" = true

theorem digTok_of (t : String) (h : IsDig t) : DigTok t := by
  obtain ⟨hne, hall⟩ := h
  have lit : ∀ (s : String) (c : Char), c ∈ s.toList → ck c ≠ .digit → (t == s) = false :=
    fun s c hc hk => ne_lit t s .digit hall c hc hk
  refine ⟨lit "+" '+' (by decide) (by decide), lit "-" '-' (by decide) (by decide),
    lit "J" 'J' (by decide) (by decide), lit "M" 'M' (by decide) (by decide),
    lit "," ',' (by decide) (by decide), lit ";" ';' (by decide) (by decide),
    lit "/" '/' (by decide) (by decide), ?_, ?_, ?_⟩
  · unfold firstIsDigit
    cases hc : t.toList with
    | nil => exact absurd hc hne
    | cons c cs =>
        have := digit_of_ck c (hall c (by rw [hc]; simp))
        simp [this]
  · unfold hasOffsetChar
    cases hc : t.toList with
    | nil => exact absurd hc hne
    | cons c cs =>
        have hd := digit_cases c (digit_of_ck c (hall c (by rw [hc]; simp)))
        rw [List.any_cons]
        have : "0123456789:,-+".toList.contains c = true := by
          simp only [List.mem_cons, List.not_mem_nil, or_false] at hd
          rcases hd with e|e|e|e|e|e|e|e|e|e <;> subst e <;> decide
        rw [this]; rfl
  · unfold allCharsIn
    rw [List.all_eq_true]
    intro c hc
    have hd := digit_cases c (digit_of_ck c (hall c hc))
    simp only [List.mem_cons, List.not_mem_nil, or_false] at hd
    rcases hd with e|e|e|e|e|e|e|e|e|e <;> subst e <;> decide

theorem strTake_short (t : String) (h : t.length ≤ 2) : strTake t 2 = t := by
  unfold strTake
  rw [List.take_of_length_le (by rw [String.length_toList]; exact h), String.ofList_toList]

/-! ### letter tokens -/

theorem alpha_noOffsetChar (a : String) (h : IsAlpha a) : hasOffsetChar a = false := by
  unfold hasOffsetChar
  rw [List.any_eq_false]
  intro c hc hcon
  have hk := h.2 c hc
  have : ∀ x ∈ "0123456789:,-+".toList, ck x ≠ .alpha := by decide
  exact this c (by simpa using hcon) hk

theorem alpha_isLetters (a : String) (h : IsAlpha a) : isLetters a = true := by
  unfold isLetters
  rw [List.all_eq_true]
  intro c hc
  simp [h.2 c hc]

/-- a token containing a digit, ':', ',', '-' or '+' is not a letter token -/
theorem offsetChar_not_letters (t : String) (h : hasOffsetChar t = true) : isLetters t = false := by
  unfold hasOffsetChar at h
  unfold isLetters
  rw [List.any_eq_true] at h
  obtain ⟨c, hc, hcon⟩ := h
  rw [List.all_eq_false]
  refine ⟨c, hc, ?_⟩
  have : ∀ x ∈ "0123456789:,-+".toList, ck x ≠ .alpha := by decide
  have := this c (by simpa using hcon)
  simpa using this

theorem alpha_ne_semi (a : String) (h : IsAlpha a) : (a == ";") = false :=
  ne_lit a ";" .alpha h.2 ';' (by decide) (by decide)

end TzStr
