/-
  Proofs/FactoryLive.lean — enabledness (no statement of the model can raise or get stuck except
  a lock acquisition while the lock is taken) and the frame lemmas of instance/nocache,
  set_cache_size, cache_clear.
-/
import DateutilVerif.Proofs.FactoryReach

namespace Fact

variable {kd : Kind} {res : Key → Res}

def isAcq : Pc → Bool
  | .lAcq | .gAcq | .sAcq | .cAcq => true
  | _ => false

theorem tstep_enabled {t : Tid} {g : Glob} {th : Thread} (hT : TI kd res t g th) (hf : th.finished = false) :
    (isAcq th.pc = true ∧ g.lock ≠ none) ∨ (tstep kd res t g th).isSome = true := by
  obtain ⟨hl, hk, _, _, _, hp⟩ := hT
  cases hpc : th.pc <;> simp only [hpc, inLocked, kindOK, pcInv, isAcq, Thread.finished] at hl hk hp hf ⊢ <;>
    simp only [tstep, hpc]
  case idle =>
    right
    cases htd : th.todo with
    | nil => simp [htd] at hf
    | cons op rest => cases op <;> simp <;> split <;> simp
  case lSdWrite =>
    right; obtain ⟨_, _, ⟨i, hi, _⟩, hsn⟩ := hp; simp [hi, hsn]
  case lInit =>
    right; obtain ⟨_, _, i, hi⟩ := hp; simp [hi]
  case xRelX => right; simp
  case lAlloc => right; split <;> simp
  case gAlloc => right; split <;> (try split) <;> simp
  case fAlloc => right; split <;> (try split) <;> (try split) <;> simp
  all_goals first
    | (right; simp; done)
    | (by_cases hlk : g.lock = none <;> simp [hlk]; done)
    | (right; obtain ⟨i, hi⟩ := hp; simp [hi]; done)
    | (right; obtain ⟨i, hi, _⟩ := hp; simp [hi]; done)
    | (right; obtain ⟨⟨i, hi, _⟩, _⟩ := hp; simp [hi]; done)
    | (right; obtain ⟨_, _, i, hi, _⟩ := hp; simp [hi]; done)
    | (right; obtain ⟨_, _, ⟨i, hi⟩, _⟩ := hp; simp [hi]; done)
    | (right; split <;> simp_all; done)
    | (right; cases hs : g.strong <;> simp_all; done)
    | (right; cases hs : g.single <;> simp_all; done)
    | (right; split <;> simp; done)
    | (right; rfl)
    | (right; obtain ⟨i, hi, _⟩ := hp; simp only [hi]; split <;> simp; done)

/-- `instance` / `nocache` (pcs fAlloc, fInit, fRet) never touch the maps -/
theorem fresh_frame {t : Tid} {g g' : Glob} {th th' : Thread}
    (hpc : th.pc = .fAlloc ∨ th.pc = .fInit ∨ th.pc = .fRet) (h : tstep kd res t g th = some (g', th')) :
    g'.weak = g.weak ∧ g'.strong = g.strong ∧ g'.cap = g.cap ∧ g'.lock = g.lock ∧ g'.held = g.held ∧
    g'.epoch = g.epoch ∧ g'.single = g.single := by
  rcases hpc with hpc | hpc | hpc <;> simp only [tstep, hpc] at h
  · split at h
    · simp only [Option.some.injEq, Prod.mk.injEq] at h; obtain ⟨rfl, rfl⟩ := h; simp
    · split at h
      · simp only [Option.some.injEq, Prod.mk.injEq] at h; obtain ⟨rfl, rfl⟩ := h; simp
      · split at h <;> simp only [Option.some.injEq, Prod.mk.injEq] at h <;> obtain ⟨rfl, rfl⟩ := h <;> simp
  · split at h
    · simp only [Option.some.injEq, Prod.mk.injEq] at h; obtain ⟨rfl, rfl⟩ := h; simp
    · cases h
  · simp only [Option.some.injEq, Prod.mk.injEq] at h; obtain ⟨rfl, rfl⟩ := h; simp

/-- for a key that does not resolve to a shared object, the id `instance` / `nocache` returns is
new: `g.next` (or nothing: `None`, or the constructor raised) -/
theorem fresh_alloc {t : Tid} {g g' : Glob} {th th' : Thread} (hpc : th.pc = .fAlloc)
    (hns : kd = .gettz → (res th.key).slot? = none)
    (h : tstep kd res t g th = some (g', th')) : th'.tmp = none ∨ th'.tmp = some g.next := by
  simp only [tstep, hpc] at h
  split at h
  · simp only [Option.some.injEq, Prod.mk.injEq] at h; obtain ⟨rfl, rfl⟩ := h; simp
  · split at h
    · simp only [Option.some.injEq, Prod.mk.injEq] at h; obtain ⟨rfl, rfl⟩ := h; simp
    · split at h
      · rename_i i heq
        by_cases hk : kd = .gettz
        · simp [hk, hns hk] at heq
        · simp [hk] at heq
      · simp only [Option.some.injEq, Prod.mk.injEq] at h; obtain ⟨rfl, rfl⟩ := h; simp

/-- `gettz.nocache(name)` for a name that resolves to an existing shared object (the constant UTC,
a vendored entry) returns THAT object and changes nothing: it is not a fresh constructor -/
theorem shared_alloc {t : Tid} {g g' : Glob} {th th' : Thread} {sl : Nat} {i : Id} (hpc : th.pc = .fAlloc)
    (hs : res th.key = .shared sl) (hl : g.shared.lookup sl = some i)
    (h : tstep .gettz res t g th = some (g', th')) : th'.tmp = some i ∧ th'.pc = .fRet ∧ g' = g := by
  simp only [tstep, hpc, hs, reduceCtorEq, if_false, and_false, Res.slot?, Option.bind_some, hl, if_true] at h
  simp only [Option.some.injEq, Prod.mk.injEq] at h
  obtain ⟨rfl, rfl⟩ := h
  simp

/-- `set_cache_size` (pcs sAcq … sRel) changes only the strong cache, its size and the lock -/
theorem setsize_frame {t : Tid} {g g' : Glob} {th th' : Thread}
    (hpc : th.pc = .sAcq ∨ th.pc = .sSet ∨ th.pc = .sLoop ∨ th.pc = .sPop ∨ th.pc = .sRel)
    (h : tstep kd res t g th = some (g', th')) :
    g'.weak = g.weak ∧ g'.held = g.held ∧ g'.epoch = g.epoch ∧ g'.single = g.single ∧ g'.next = g.next ∧
    g'.inited = g.inited := by
  rcases hpc with hpc | hpc | hpc | hpc | hpc <;> simp only [tstep, hpc] at h <;> (try split at h) <;>
    (try simp only [Option.some.injEq, Prod.mk.injEq, reduceCtorEq] at h) <;>
    (try (obtain ⟨rfl, rfl⟩ := h)) <;> simp_all

/-- `cache_clear` (pcs cAcq … cRel) keeps every reference callers hold, creates and destroys no
object — but (cWeak) it does reset the weak map and starts a new epoch (D-C18-clear) -/
theorem clear_frame {t : Tid} {g g' : Glob} {th th' : Thread}
    (hpc : th.pc = .cAcq ∨ th.pc = .cWeak ∨ th.pc = .cStrong ∨ th.pc = .cRel)
    (h : tstep kd res t g th = some (g', th')) :
    g'.held = g.held ∧ g'.single = g.single ∧ g'.next = g.next ∧ g'.inited = g.inited ∧ g'.cap = g.cap ∧
    (th.pc ≠ .cWeak → g'.weak = g.weak ∧ g'.epoch = g.epoch) := by
  rcases hpc with hpc | hpc | hpc | hpc <;> simp only [tstep, hpc] at h <;> (try split at h) <;>
    (try simp only [Option.some.injEq, Prod.mk.injEq, reduceCtorEq] at h) <;>
    (try (obtain ⟨rfl, rfl⟩ := h)) <;> simp_all


/-- only `self.__instances = WeakValueDictionary()` (cWeak) starts a new epoch -/
theorem tstep_epoch {t : Tid} {g g' : Glob} {th th' : Thread} (hpc : th.pc ≠ .cWeak)
    (h : tstep kd res t g th = some (g', th')) : g'.epoch = g.epoch := by
  cases hp : th.pc <;> simp only [hp, ne_eq, not_true_eq_false, reduceCtorEq, not_false_eq_true] at hpc <;>
    simp only [tstep, hp] at h
  all_goals (try (split at h)) <;> (try (split at h)) <;> (try (split at h)) <;>
    (try simp only [Option.some.injEq, Prod.mk.injEq, reduceCtorEq] at h) <;>
    (try (obtain ⟨rfl, rfl⟩ := h)) <;> (try rfl)
  all_goals (cases h)

/-- factories without `cache_clear` (tzoffset, tzstr; also the singleton) stay in epoch 0 -/
theorem epoch_zero {cap : Nat} {scripts : List (List Op)} {s : State} (hk : kd ≠ .gettz)
    (h : Reachable kd res (initState cap scripts) s) : s.g.epoch = 0 := by
  induction h with
  | init => rfl
  | @step s1 s2 l hr hs ih =>
    have hI := reachable_inv (init_inv (kd := kd) (res := res) cap scripts) hr
    cases l with
    | thr t =>
      simp only [step] at hs
      split at hs
      · cases hs
      · rename_i th hth
        split at hs
        · cases hs
        · rename_i g' th' hstep
          cases hs
          have hne : th.pc ≠ .cWeak := by
            intro hc
            have := (hI.ti t th hth).kind
            simp only [hc, kindOK] at this
            exact hk this
          simp only [tstep_epoch hne hstep, ih]
    | drop t n =>
      simp only [step] at hs
      split at hs
      · cases hs; exact ih
      · cases hs
    | collect k =>
      simp only [step] at hs
      split at hs
      · split at hs
        · cases hs
        · cases hs; exact ih
      · cases hs

end Fact
