/- Proofs/IsoSound.lean — soundness of `isoparse`: accepted ⇒ the input is `render f x` for well-formed fields
   and the value is `denote f x`. -/
import DateutilVerif.Proofs.IsoSoundTime
set_option linter.unusedSimpArgs false
namespace Iso
open Cal IsoSpec Py

/-- date fields from `xd`, time fields from `xt`, offset fields from `xo` -/
def mergeF (xd xt xo : Fields) : Fields :=
  { year := xd.year, a := xd.a, b := xd.b, hh := xt.hh, mm := xt.mm, ss := xt.ss, frac := xt.frac,
    neg := xo.neg, oh := xo.oh, om := xo.om }

theorem renderDate_merge (df : DateForm) (xd xt xo : Fields) : renderDate df (mergeF xd xt xo) = renderDate df xd := by
  cases df <;> rfl
theorem renderTime_merge (tf : TimeForm) (xd xt xo : Fields) : renderTime tf (mergeF xd xt xo) = renderTime tf xt := by
  cases tf <;> rfl
theorem renderOff_merge (o : OffForm) (xd xt xo : Fields) : renderOff o (mergeF xd xt xo) = renderOff o xo := by
  cases o <;> rfl
theorem dateWF_merge (b : Bool) (df : DateForm) (xd xt xo : Fields) : dateWF b df (mergeF xd xt xo) = dateWF b df xd := by
  cases df <;> rfl
theorem dateOrdinal_merge (df : DateForm) (xd xt xo : Fields) : dateOrdinal df (mergeF xd xt xo) = dateOrdinal df xd := by
  cases df <;> rfl
theorem timeShown_merge (tf : TimeForm) (xd xt xo : Fields) : timeShown tf (mergeF xd xt xo) = timeShown tf xt := rfl
theorem timeWF_merge (tf : TimeForm) (xd xt xo : Fields) : timeWF tf (mergeF xd xt xo) = timeWF tf xt := rfl
theorem offWF_merge (o : OffForm) (xd xt xo : Fields) : offWF o (mergeF xd xt xo) = offWF o xo := by
  cases o <;> rfl
theorem offDenote_merge (o : OffForm) (xd xt xo : Fields) : offDenote o (mergeF xd xt xo) = offDenote o xo := by
  cases o <;> rfl

theorem render_time (df : DateForm) (tf : TimeForm) (o : OffForm) (sep : Nat) (x : Fields) (htf : tf ≠ .none) :
    render ⟨df, tf, o, sep⟩ x = renderDate df x ++ (sep :: (renderTime tf x ++ renderOff o x)) := by
  cases tf <;> first | exact absurd rfl htf | simp [render]

theorem denoteOrdinal_merge (df : DateForm) (tf : TimeForm) (o : OffForm) (sep : Nat) (xd xt xo : Fields) :
    denoteOrdinal ⟨df, tf, o, sep⟩ (mergeF xd xt xo) =
      dateOrdinal df xd + (if (timeShown tf xt).1 = 24 then 1 else 0) := by
  show dateOrdinal df (mergeF xd xt xo) + _ = _
  rw [dateOrdinal_merge]; rfl

/-- a date alone -/
theorem final_dateonly (df : DateForm) (xd : Fields) (y m d : Int) (rest : Bytes)
    (hd : UncommonOK df xd (y, m, d) rest) :
    WFields ⟨df, .none, .naive, 84⟩ xd ∧ render ⟨df, .none, .naive, 84⟩ xd = renderDate df xd ∧
    denote ⟨df, .none, .naive, 84⟩ xd = ⟨{ y, m, d }, none⟩ := by
  obtain ⟨hwf, h1, h2, he, _⟩ := hd
  refine ⟨?_, rfl, ?_⟩
  · unfold WFields WFieldsB
    simp [IsoForm.ok, hwf, timeWF, timeShown, offWF, denoteOrdinal, TimeForm.hasFrac, TimeForm.hasM, TimeForm.hasS, h1, h2]
  · simp only [denote, denoteOrdinal, timeShown]
    simp [← he, offDenote, TimeForm.hasM, TimeForm.hasS, TimeForm.hasFrac]


theorem final_time (df : DateForm) (xd : Fields) (tf : TimeForm) (xt : Fields) (o : OffForm) (xo : Fields)
    (sep : Nat) (y m d : Int) (rest : Bytes)
    (hd : UncommonOK df xd (y, m, d) rest) (hcomp : df.complete = true) (hscan : TimeScan tf xt)
    (how : offWF o xo = true)
    (hrange : ((timeShown tf xt).1 ≤ 23 ∧ (timeShown tf xt).2.1 ≤ 59 ∧ (timeShown tf xt).2.2.1 ≤ 59) ∨
      ((timeShown tf xt).1 = 24 ∧ (timeShown tf xt).2.1 = 0 ∧ (timeShown tf xt).2.2.1 = 0 ∧
        (timeShown tf xt).2.2.2 = 0 ∧ dateOrdinal df xd + 1 ≤ maxOrdinal)) :
    WFields ⟨df, tf, o, sep⟩ (mergeF xd xt xo) := by
  obtain ⟨hwf, h1, h2, he, _⟩ := hd
  obtain ⟨htf, _, _, _, hfr⟩ := hscan
  unfold WFields WFieldsB
  simp only [Bool.and_eq_true, decide_eq_true_eq]
  refine ⟨⟨⟨⟨?_, ?_⟩, ?_⟩, ?_⟩, ?_⟩
  · simp [IsoForm.ok, htf, hcomp]
  · rw [dateWF_merge]; exact hwf
  · rw [timeWF_merge]
    simp only [timeWF, Bool.and_eq_true, Bool.or_eq_true, decide_eq_true_eq]
    refine ⟨?_, ?_⟩
    · rcases hrange with h | h
      · exact Or.inl h
      · exact Or.inr ⟨h.1, h.2.1, h.2.2.1, h.2.2.2.1⟩
    · cases hf : tf.hasFrac
      · simp
      · obtain ⟨hne, h9⟩ := hfr hf
        simp only [Bool.not_true, Bool.false_or, Bool.and_eq_true, bne_iff_ne, ne_eq, List.all_eq_true,
          decide_eq_true_eq]
        exact Or.inr ⟨hne, h9⟩
  · rw [offWF_merge]; exact how
  · rw [denoteOrdinal_merge]
    rcases hrange with h | h
    · split <;> omega
    · split <;> omega


theorem mkDatetime_inv (y m d hh mm ss us : Int) (tz : Option Off) (v : Result)
    (h : mkDatetime y m d hh mm ss us tz = .ok v) :
    DT.Valid { y, m, d, hh, mm, ss, us } ∧ v = ⟨{ y, m, d, hh, mm, ss, us }, tz⟩ := by
  unfold mkDatetime at h
  by_cases hv : ({ y, m, d, hh, mm, ss, us } : DT).valid = true
  · simp only [hv, if_true] at h; cases h
    exact ⟨by simpa [DT.valid] using hv, rfl⟩
  · simp [hv] at h

theorem addDays_midnight_inv (y m d : Int) (_hv : ValidDate y m d) (t : DT)
    (h : overflowToValue (DT.addDays { y, m, d, hh := 0, mm := 0, ss := 0, us := 0 } 1) = .ok t) :
    toOrdinal y m d + 1 ≤ maxOrdinal := by
  by_cases hle : toOrdinal y m d + 1 ≤ maxOrdinal
  · exact hle
  · exfalso
    have hx : ({ y, m, d, hh := 0, mm := 0, ss := 0, us := 0 } : DT).toMicros + 1 * DT.usPerDay
        = (toOrdinal y m d + 1) * DT.usPerDay := by
      simp only [DT.toMicros, DT.ordinal, DT.timeMicros, DT.usPerDay]; omega
    have : DT.addDays { y, m, d, hh := 0, mm := 0, ss := 0, us := 0 } 1 = .error .OverflowError := by
      unfold DT.addDays DT.addMicros
      dsimp only
      rw [hx]
      split
      · rfl
      · rename_i hn; exfalso; apply hn; right
        simp only [DT.maxMicros, DT.usPerDay]; unfold maxOrdinal at hle ⊢; omega
    rw [this] at h; simp [overflowToValue] at h

/-- THE SOUNDNESS THEOREM: whatever `isoparse` accepts is the rendering of a form with well-formed
    fields (strict ISO weeks), read with the configured separator, and the value is its denotation -/
theorem isoparse_sound_core (cfg : Option Nat) (s : Bytes) (v : Result) (h : isoparse cfg s = .ok v) :
    ∃ f x, WFields f x ∧ (f.time ≠ .none → (cfg = none ∨ cfg = some f.sep)) ∧
      s = render f x ∧ v = denote f x := by
  unfold isoparse at h
  cases hp : parseIsodate s with
  | error e => simp [hp, bind, Except.bind] at h
  | ok p =>
    obtain ⟨⟨y, m, d⟩, r⟩ := p
    simp only [hp, bind, Except.bind] at h
    obtain ⟨df, xd, es, hsc⟩ := parseIsodate_inv s _ _ hp
    by_cases hr : r = []
    · rw [if_neg (fun hn => hn hr)] at h
      obtain ⟨hval, rfl⟩ := mkDatetime_inv _ _ _ _ _ _ _ _ _ h
      have hd := dateScan_valid df xd y m d r hsc hval.1
      obtain ⟨hW, hR, hD⟩ := final_dateonly df xd y m d r hd
      refine ⟨⟨df, .none, .naive, 84⟩, xd, hW, fun hn => absurd rfl hn, ?_, ?_⟩
      · rw [hR, es, hr]; simp
      · rw [hD]
    · rw [if_pos hr] at h
      by_cases hsepc : cfg = none ∨ List.take 1 r = cfg.toList
      · rw [if_pos hsepc] at h
        cases r with
        | nil => exact absurd rfl hr
        | cons c0 r' =>
          simp only [List.drop_succ_cons, List.drop_zero] at h
          have hcfg : cfg = none ∨ cfg = some c0 := by
            rcases hsepc with hc | hc
            · exact Or.inl hc
            · cases cfg with
              | none => exact Or.inl rfl
              | some c => simp at hc; exact Or.inr (by rw [hc])
          cases ht : parseIsotime r' with
          | error e => simp [ht] at h
          | ok c =>
            simp only [ht] at h
            obtain ⟨tf, xt, o, xo, hscan, how, et, hc, h24rule⟩ := parseIsotime_inv r' c ht
            have hch : c.h = ((timeShown tf xt).1 : Int) := by rw [hc]; rfl
            have hcm : c.m = ((timeShown tf xt).2.1 : Int) := by rw [hc]; rfl
            have hcs : c.s = ((timeShown tf xt).2.2.1 : Int) := by rw [hc]; rfl
            have hcu : c.us = ((timeShown tf xt).2.2.2 : Int) := by rw [hc]; rfl
            have hctz : c.tz = offDenote o xo := by rw [hc]
            have hrender : s = render ⟨df, tf, o, c0⟩ (mergeF xd xt xo) := by
              rw [render_time _ _ _ _ _ hscan.1, renderDate_merge, renderTime_merge, renderOff_merge, es, et]
            by_cases h24 : c.h = 24
            · rw [if_pos h24] at h
              obtain ⟨z1, z2, z3⟩ := h24rule h24
              cases hmk : mkDatetime y m d 0 c.m c.s c.us c.tz with
              | error e => simp [hmk] at h
              | ok v0 =>
                simp only [hmk] at h
                obtain ⟨hval, rfl⟩ := mkDatetime_inv _ _ _ _ _ _ _ _ _ hmk
                have hd := dateScan_valid df xd y m d _ hsc hval.1
                have hcomp : df.complete = true := by
                  cases hcp : df.complete
                  · exact absurd (hd.2.2.2.2 hcp) (by simp)
                  · rfl
                simp only [z1, z2, z3] at h
                cases had : overflowToValue (DT.addDays { y, m, d, hh := 0, mm := 0, ss := 0, us := 0 } 1) with
                | error e => simp [had] at h
                | ok t =>
                  simp only [had] at h
                  cases h
                  have hle := addDays_midnight_inv y m d hval.1 t had
                  have hord : toOrdinal y m d = dateOrdinal df xd := by
                    have := hd.2.2.2.1
                    have e2 := (toOrdinal_fromOrdinal _ hd.2.1).1
                    rw [← this] at e2; exact e2
                  rw [addDays_midnight y m d hval.1 hle] at had
                  simp only [overflowToValue] at had
                  cases had
                  have hW := final_time df xd tf xt o xo c0 y m d _ hd hcomp hscan how
                    (Or.inr ⟨by omega, by omega, by omega, by omega, by omega⟩)
                  refine ⟨⟨df, tf, o, c0⟩, mergeF xd xt xo, hW, fun _ => hcfg, hrender, ?_⟩
                  have h24n : (timeShown tf xt).1 = 24 := by omega
                  simp only [denote, denoteOrdinal_merge, timeShown_merge, offDenote_merge, h24n, if_true, hord, hctz]
                  have a1 : (timeShown tf xt).2.1 = 0 := by omega
                  have a2 : (timeShown tf xt).2.2.1 = 0 := by omega
                  have a3 : (timeShown tf xt).2.2.2 = 0 := by omega
                  simp [a1, a2, a3]
            · rw [if_neg h24] at h
              obtain ⟨hval, rfl⟩ := mkDatetime_inv _ _ _ _ _ _ _ _ _ h
              have hd := dateScan_valid df xd y m d _ hsc hval.1
              have hcomp : df.complete = true := by
                cases hcp : df.complete
                · exact absurd (hd.2.2.2.2 hcp) (by simp)
                · rfl
              obtain ⟨_, v1, v2, v3, v4, v5, v6, v7, v8⟩ := hval
              simp only [] at v1 v2 v3 v4 v5 v6
              have hW := final_time df xd tf xt o xo c0 y m d _ hd hcomp hscan how
                (Or.inl ⟨by omega, by omega, by omega⟩)
              refine ⟨⟨df, tf, o, c0⟩, mergeF xd xt xo, hW, fun _ => hcfg, hrender, ?_⟩
              have h24n : ¬ (timeShown tf xt).1 = 24 := by omega
              simp only [denote, denoteOrdinal_merge, timeShown_merge, offDenote_merge, h24n, if_false, hctz,
                hch, hcm, hcs, hcu]
              simp [← hd.2.2.2.1]
      · rw [if_neg hsepc] at h; cases h
theorem timeWF_of (tf : TimeForm) (xt : Fields) (hscan : TimeScan tf xt)
    (hrange : ((timeShown tf xt).1 ≤ 23 ∧ (timeShown tf xt).2.1 ≤ 59 ∧ (timeShown tf xt).2.2.1 ≤ 59) ∨
      ((timeShown tf xt).1 = 24 ∧ (timeShown tf xt).2.1 = 0 ∧ (timeShown tf xt).2.2.1 = 0 ∧
        (timeShown tf xt).2.2.2 = 0)) : timeWF tf xt = true := by
  obtain ⟨htf, _, _, _, hfr⟩ := hscan
  simp only [timeWF, Bool.and_eq_true, Bool.or_eq_true, decide_eq_true_eq]
  refine ⟨hrange, ?_⟩
  cases hf : tf.hasFrac
  · simp
  · obtain ⟨hne, h9⟩ := hfr hf
    simp only [Bool.not_true, Bool.false_or, Bool.and_eq_true, bne_iff_ne, ne_eq, List.all_eq_true,
      decide_eq_true_eq]
    exact Or.inr ⟨hne, h9⟩

/-- COMPLETE soundness of `parse_isotime` -/
theorem parseIsotimeEntry_sound (s : Bytes) (c : TComps) (h : parseIsotimeEntry s = .ok c) :
    ∃ (tf : TimeForm) (o : OffForm) (x : Fields), tf ≠ .none ∧ timeWF tf x = true ∧ offWF o x = true ∧
      s = renderTime tf x ++ renderOff o x ∧
      c = { h := if (timeShown tf x).1 = 24 then 0 else ((timeShown tf x).1 : Int),
            m := (timeShown tf x).2.1, s := (timeShown tf x).2.2.1, us := (timeShown tf x).2.2.2,
            tz := offDenote o x } := by
  unfold parseIsotimeEntry at h
  cases ht : parseIsotime s with
  | error e => simp [ht, bind, Except.bind] at h
  | ok c0 =>
    simp only [ht, bind, Except.bind] at h
    obtain ⟨tf, xt, o, xo, hscan, how, et, hc, h24rule⟩ := parseIsotime_inv s c0 ht
    have hch : c0.h = ((timeShown tf xt).1 : Int) := by rw [hc]; rfl
    have hcm : c0.m = ((timeShown tf xt).2.1 : Int) := by rw [hc]; rfl
    have hcs : c0.s = ((timeShown tf xt).2.2.1 : Int) := by rw [hc]; rfl
    have hcu : c0.us = ((timeShown tf xt).2.2.2 : Int) := by rw [hc]; rfl
    have hctz : c0.tz = offDenote o xo := by rw [hc]
    let xd : Fields := { year := 0 }
    have fin : ∀ (hW : timeWF tf xt = true),
        ∃ (tf : TimeForm) (o : OffForm) (x : Fields), tf ≠ .none ∧ timeWF tf x = true ∧ offWF o x = true ∧
        s = renderTime tf x ++ renderOff o x ∧
        ({ c0 with h := if c0.h = 24 then 0 else c0.h } : TComps) =
          { h := if (timeShown tf x).1 = 24 then 0 else ((timeShown tf x).1 : Int),
            m := (timeShown tf x).2.1, s := (timeShown tf x).2.2.1, us := (timeShown tf x).2.2.2,
            tz := offDenote o x } := by
      intro hW
      refine ⟨tf, o, mergeF xd xt xo, hscan.1, by rw [timeWF_merge]; exact hW, by rw [offWF_merge]; exact how,
        by rw [renderTime_merge, renderOff_merge]; exact et, ?_⟩
      simp only [timeShown_merge, offDenote_merge, hctz, hcm, hcs, hcu, hch]
      by_cases h24 : (timeShown tf xt).1 = 24
      · simp [h24]
      · have : ¬ ((timeShown tf xt).1 : Int) = 24 := by omega
        simp [h24, this]
    by_cases h24 : c0.h = 24
    · obtain ⟨z1, z2, z3⟩ := h24rule h24
      simp only [h24, if_true] at h fin
      split at h
      · cases h
        exact fin (timeWF_of tf xt hscan (Or.inr ⟨by omega, by omega, by omega, by omega⟩))
      · cases h
    · simp only [h24, if_false] at h fin
      split at h
      · rename_i hr
        cases h
        exact fin (timeWF_of tf xt hscan (Or.inl ⟨by omega, by omega, by omega⟩))
      · cases h

/-- the separator byte of a form without a time part is irrelevant -/
theorem sep_irrelevant (f : IsoForm) (x : Fields) (c : Nat) (h : f.time = .none) :
    WFields { f with sep := c } x = WFields f x ∧ render { f with sep := c } x = render f x ∧
    denote { f with sep := c } x = denote f x := by
  obtain ⟨df, tf, o, sep⟩ := f
  simp only at h; subst h
  exact ⟨rfl, rfl, rfl⟩

/-- with a configured (non-digit) separator, the accepted strings are EXACTLY the renderings of
    well-formed fields with that separator, and the value is the denotation -/
theorem isoparse_accepts_iff (c : Nat) (hc : isDigit c = false) (s : Bytes) (v : Result) :
    isoparse (some c) s = .ok v ↔
      ∃ f x, WFields f x ∧ f.sep = c ∧ s = render f x ∧ v = denote f x := by
  constructor
  · intro h
    obtain ⟨f, x, hW, hs, er, ev⟩ := isoparse_sound_core (some c) s v h
    by_cases ht : f.time = .none
    · obtain ⟨e1, e2, e3⟩ := sep_irrelevant f x c ht
      exact ⟨{ f with sep := c }, x, by rw [e1]; exact hW, rfl, by rw [e2]; exact er, by rw [e3]; exact ev⟩
    · rcases hs ht with h0 | h0
      · cases h0
      · exact ⟨f, x, hW, by injection h0 with h0; exact h0.symm, er, ev⟩
  · rintro ⟨f, x, hW, rfl, rfl, rfl⟩
    exact isoparse_render_core f x (some f.sep) hW (fun _ _ => hc) (Or.inr rfl)

end Iso
