/-
  Proofs/TzStrParseRule.lean — `ruleTime` and `stdRule` on every spelling of a rule with an optional
  `/time`, over an abstract token array given by a list decomposition.
-/
import DateutilVerif.Proofs.TzStrParseOff

namespace TzStr

def ruleHead (l : Array String) (st : St) : P (Attr × List Nat × Nat) := do
  let i := st.i
  let t ← tok l i
  (if t == "J" then do
      let used := st.used ++ [i]
      let i := i + 1
      let n ← pyInt (← tok l i)
      pure (({ jyday := some n } : Attr), used, i)
    else if t == "M" then do
      let used := st.used ++ [i]
      let i := i + 1
      let m ← pyInt (← tok l i)
      let used := used ++ [i]
      let i := i + 1
      let s1 ← tok l i
      if !(s1 == "-" || s1 == ".") then none else
      let used := used ++ [i]
      let i := i + 1
      let w ← pyInt (← tok l i)
      let w := if w == 5 then -1 else w
      let used := used ++ [i]
      let i := i + 1
      let s2 ← tok l i
      if !(s2 == "-" || s2 == ".") then none else
      let used := used ++ [i]
      let i := i + 1
      let d ← pyInt (← tok l i)
      pure (({ month := some m, week := some w, weekday := some (Py.fmod (d - 1) 7) } : Attr), used, i)
    else do
      let n ← pyInt t
      pure (({ yday := some (n + 1) } : Attr), st.used, i))

def ruleTail (l : Array String) (x : Attr) (st : St) : P (Attr × St) := do
  let (x, st) ← (if st.i < l.size && l[st.i]? == some "/" then do
      let st := { st with used := st.used ++ [st.i], i := st.i + 1 }
      let (tm, st) ← ruleTime l st
      pure ({ x with time := some tm }, st)
    else pure (x, st))
  if !(st.i == l.size || l[st.i]? == some ",") then none else
  pure (x, { st with i := st.i + 1 })

theorem stdRule_eq (l : Array String) (st : St) :
    stdRule l st = (do
      let (x, used, i) ← ruleHead l st
      ruleTail l x { st with used := used ++ [i], i := i + 1 }) := by
  unfold stdRule ruleHead ruleTail
  simp only [bind, Option.bind, pure]
  cases tok l st.i with
  | none => rfl
  | some t =>
    by_cases hJ : (t == "J") = true
    · simp only [hJ, if_true]
    · simp only [hJ, Bool.false_eq_true, if_false]

def RuleSp.attr : RuleSp → Option Int → Attr
  | .M m w d, t => { month := some m.val, week := some (if w.val == 5 then -1 else w.val),
                     weekday := some (Py.fmod (d.val - 1) 7), time := t }
  | .J n, t => { jyday := some n.val, time := t }
  | .N n, t => { yday := some (n.val + 1), time := t }

theorem ruleTime_spec (t : TimeSp) (l : Array String) (pre post : List String) (st : St)
    (hl : l.toList = pre ++ (toksOf t.body ++ post)) (hi : st.i = pre.length) (hok : t.Ok)
    (hp : post.head? ≠ some ":") (hc : Cov l st) :
    ∃ st', ruleTime l st = some (t.val, st') ∧
      st'.i = pre.length + (toksOf t.body).length ∧ st'.res = st.res ∧ Cov l st' := by
  have hpc := not_colon_of_head hp
  have ec : String.ofList [':'] = ":" := rfl
  cases t with
  | h n =>
      obtain ⟨hn0, hlen⟩ := hok
      have hn : pyInt n.tok = some n.val := hn0
      simp only [TimeSp.body, numC, toksOf_cons, toksOf_nil, String.ofList_toList, List.cons_append,
        List.nil_append] at hl
      have g0 := get_at hl 0
      have g1 := get_at hl 1
      simp only [List.getElem?_cons_zero, List.getElem?_cons_succ, Nat.add_zero] at g0 g1
      have h4 : (n.tok.length == 4) = false := by apply beq_eq_false_iff_ne.mpr; omega
      refine ⟨{ st with used := st.used ++ [pre.length], i := pre.length + 1 }, ?_, by simp [TimeSp.body, toksOf], rfl, ?_⟩
      · unfold ruleTime
        simp only [tok, hi, g0, g1, bind, Option.bind, h4, hpc, Bool.and_false, Bool.false_eq_true, if_false,
          hlen, if_true, strTake_short n.tok hlen, hn, pure, TimeSp.val]
      · apply cov_step hc (by simp [hi]; try omega) (by intro k hk; simp [hk])
        intro k h1 h2 _
        have : k = pre.length := by simp at h2; omega
        left; simp [this]
  | hhmm t a b =>
      obtain ⟨hd, hlen, ha, hb⟩ := hok
      simp only [TimeSp.body, toksOf_cons, toksOf_nil, String.ofList_toList, List.cons_append,
        List.nil_append] at hl
      have g0 := get_at hl 0
      simp only [List.getElem?_cons_zero, Nat.add_zero] at g0
      have h4 : (t.length == 4) = true := by simp [hlen]
      refine ⟨{ st with used := st.used ++ [pre.length], i := pre.length + 1 }, ?_, by simp [TimeSp.body, toksOf], rfl, ?_⟩
      · unfold ruleTime
        simp only [tok, hi, g0, bind, Option.bind, h4, if_true, ha, hb, pure, TimeSp.val]
      · apply cov_step hc (by simp [hi]; try omega) (by intro k hk; simp [hk])
        intro k h1 h2 _
        have : k = pre.length := by simp at h2; omega
        left; simp [this]
  | hm a b =>
      obtain ⟨ha0, hb0, hlen⟩ := hok
      have ha : pyInt a.tok = some a.val := ha0
      have hb : pyInt b.tok = some b.val := hb0
      simp only [TimeSp.body, numC, pC, toksOf_cons, toksOf_nil, String.ofList_toList, List.cons_append,
        List.nil_append] at hl
      have g0 := get_at hl 0
      have g1 := get_at hl 1
      have g2 := get_at hl 2
      have g3 := get_at hl 3
      have hs := size_at hl
      simp only [List.getElem?_cons_zero, List.getElem?_cons_succ, Nat.add_zero, List.length_cons, ec] at g0 g1 g2 g3 hs
      have h4 : (a.tok.length == 4) = false := by apply beq_eq_false_iff_ne.mpr; exact hlen
      have hlt : decide (pre.length + 1 < l.size) = true := by simp; omega
      refine ⟨{ st with used := st.used ++ [pre.length] ++ [pre.length + 2], i := pre.length + 2 + 1 }, ?_,
        by simp [TimeSp.body, toksOf], rfl, ?_⟩
      · unfold ruleTime
        simp only [tok, hi, g0, g1, g2, g3, bind, Option.bind, h4, hlt, beq_self_eq_true, Bool.and_self, if_true,
          Bool.false_eq_true, if_false, ha, hb, pure, TimeSp.val, hpc, Bool.and_false]
      · apply cov_step hc (by simp [hi]; try omega) (by intro k hk; simp [hk])
        intro k h1 h2 _
        simp only [hi] at h1
        have : k = pre.length ∨ k = pre.length + 1 ∨ k = pre.length + 2 := by simp at h2; omega
        rcases this with e | e | e
        · left; simp [e]
        · right; right; rw [e]; exact g1
        · left; simp [e]
  | hms a b c =>
      obtain ⟨ha0, hb0, hc0, hlen⟩ := hok
      have ha : pyInt a.tok = some a.val := ha0
      have hb : pyInt b.tok = some b.val := hb0
      have hcc : pyInt c.tok = some c.val := hc0
      simp only [TimeSp.body, numC, pC, toksOf_cons, toksOf_nil, String.ofList_toList, List.cons_append,
        List.nil_append] at hl
      have g0 := get_at hl 0
      have g1 := get_at hl 1
      have g2 := get_at hl 2
      have g3 := get_at hl 3
      have g4 := get_at hl 4
      have hs := size_at hl
      simp only [List.getElem?_cons_zero, List.getElem?_cons_succ, Nat.add_zero, List.length_cons, ec] at g0 g1 g2 g3 g4 hs
      have h4 : (a.tok.length == 4) = false := by apply beq_eq_false_iff_ne.mpr; exact hlen
      have hlt : decide (pre.length + 1 < l.size) = true := by simp; omega
      have hlt2 : decide (pre.length + 2 + 1 < l.size) = true := by simp; omega
      refine ⟨{ st with used := st.used ++ [pre.length] ++ [pre.length + 2] ++ [pre.length + 2 + 2], i := pre.length + 2 + 2 + 1 }, ?_,
        by simp [TimeSp.body, toksOf], rfl, ?_⟩
      · unfold ruleTime
        simp only [tok, hi, g0, g1, g2, g3, g4, bind, Option.bind, h4, hlt, hlt2, beq_self_eq_true, Bool.and_self, if_true,
          Bool.false_eq_true, if_false, ha, hb, hcc, pure, TimeSp.val]
      · apply cov_step hc (by simp [hi]; try omega) (by intro k hk; simp [hk])
        intro k h1 h2 _
        simp only [hi] at h1
        have : k = pre.length ∨ k = pre.length + 1 ∨ k = pre.length + 2 ∨ k = pre.length + 3 ∨ k = pre.length + 4 := by
          simp at h2; omega
        rcases this with e | e | e | e | e
        · left; simp [e]
        · right; right; rw [e]; exact g1
        · left; simp [e]
        · right; right; rw [e]; exact g3
        · left; simp [e]


theorem ruleHead_spec (r : RuleSp) (l : Array String) (pre post : List String) (st : St)
    (hl : l.toList = pre ++ (toksOf r.chunks ++ post)) (hi : st.i = pre.length) (hok : r.Ok) (hc : Cov l st) :
    ∃ used' i', ruleHead l st = some (r.attr none, used', i') ∧
      i' + 1 = pre.length + (toksOf r.chunks).length ∧
      Cov l { st with used := used' ++ [i'], i := i' + 1 } := by
  have eM : String.ofList ['M'] = "M" := rfl
  have eJ : String.ofList ['J'] = "J" := rfl
  have eD : String.ofList ['.'] = "." := rfl
  cases r with
  | N n =>
      have hn : pyInt n.tok = some n.val := hok.1
      have hd := digTok_of n.tok (n.isDig hok.1)
      simp only [RuleSp.chunks, numC, toksOf_cons, toksOf_nil, String.ofList_toList, List.cons_append,
        List.nil_append] at hl
      have g0 := get_at hl 0
      simp only [List.getElem?_cons_zero, Nat.add_zero] at g0
      refine ⟨st.used, pre.length, ?_, by simp [RuleSp.chunks, toksOf], ?_⟩
      · unfold ruleHead
        simp only [tok, hi, g0, bind, Option.bind, hd.eqJ, hd.eqM, Bool.false_eq_true, if_false, hn, pure, RuleSp.attr]
      · apply cov_step hc (by simp [hi]) (by intro k hk; simp [hk])
        intro k h1 h2 _
        have : k = pre.length := by simp at h2; simp [hi] at h1; omega
        left; simp [this]
  | J n =>
      have hn : pyInt n.tok = some n.val := hok.1
      simp only [RuleSp.chunks, numC, toksOf_cons, toksOf_nil, String.ofList_toList, List.cons_append,
        List.nil_append, eJ] at hl
      have g0 := get_at hl 0
      have g1 := get_at hl 1
      simp only [List.getElem?_cons_zero, List.getElem?_cons_succ, Nat.add_zero] at g0 g1
      refine ⟨st.used ++ [pre.length], pre.length + 1, ?_, by simp [RuleSp.chunks, toksOf], ?_⟩
      · unfold ruleHead
        simp only [tok, hi, g0, g1, bind, Option.bind, beq_self_eq_true, if_true, hn, pure, RuleSp.attr]
      · apply cov_step hc (by simp [hi]; try omega) (by intro k hk; simp [hk])
        intro k h1 h2 _
        have : k = pre.length ∨ k = pre.length + 1 := by simp at h2; simp [hi] at h1; omega
        rcases this with e | e <;> (left; simp [e])
  | M m w d =>
      have hm : pyInt m.tok = some m.val := hok.1
      have hw : pyInt w.tok = some w.val := hok.2.1
      have hdd : pyInt d.tok = some d.val := hok.2.2
      simp only [RuleSp.chunks, numC, pC, toksOf_cons, toksOf_nil, String.ofList_toList, List.cons_append,
        List.nil_append, eM, eD] at hl
      have g0 := get_at hl 0
      have g1 := get_at hl 1
      have g2 := get_at hl 2
      have g3 := get_at hl 3
      have g4 := get_at hl 4
      have g5 := get_at hl 5
      simp only [List.getElem?_cons_zero, List.getElem?_cons_succ, Nat.add_zero] at g0 g1 g2 g3 g4 g5
      have hJ : ("M" == "J") = false := by decide
      have hdot : (!("." == "-" || "." == ".")) = false := by decide
      refine ⟨st.used ++ [pre.length] ++ [pre.length + 1] ++ [pre.length + 1 + 1] ++ [pre.length + 1 + 1 + 1] ++
          [pre.length + 1 + 1 + 1 + 1], pre.length + 1 + 1 + 1 + 1 + 1, ?_, by simp [RuleSp.chunks, toksOf], ?_⟩
      · unfold ruleHead
        simp only [tok, hi, g0, g1, g2, g3, g4, g5, bind, Option.bind, hJ, Bool.false_eq_true, if_false,
          beq_self_eq_true, if_true, hm, hw, hdd, pure, RuleSp.attr]
        simp
      · apply cov_step hc (by simp [hi]; try omega) (by intro k hk; simp [hk])
        intro k h1 h2 _
        have : k = pre.length ∨ k = pre.length + 1 ∨ k = pre.length + 2 ∨ k = pre.length + 3 ∨ k = pre.length + 4 ∨
            k = pre.length + 5 := by simp at h2; simp [hi] at h1; omega
        rcases this with e | e | e | e | e | e <;> (left; simp [e])

theorem ruleTail_spec (tm : Option TimeSp) (l : Array String) (pre post : List String) (x : Attr) (st : St)
    (hl : l.toList = pre ++ (toksOf (timeChunks tm) ++ post)) (hi : st.i = pre.length)
    (hend : post = [] ∨ post.head? = some ",") (hok : optOk TimeSp.Ok tm) (hc : Cov l st) :
    ∃ st', ruleTail l x st = some ((match tm with | none => x | some t => { x with time := some t.val }), st') ∧
      st'.i = pre.length + (toksOf (timeChunks tm)).length + 1 ∧ st'.res = st.res ∧ Cov l st' := by
  have hp : post.head? ≠ some ":" := by
    rcases hend with e | e
    · rw [e]; simp
    · rw [e]; simp
  have eS : String.ofList ['/'] = "/" := rfl
  cases tm with
  | none =>
      simp only [timeChunks, toksOf_nil, List.nil_append] at hl
      have g0 := get_at hl 0
      have hs := size_at hl
      simp only [Nat.add_zero] at g0
      have hslash : (decide (pre.length < l.size) && l[pre.length]? == some "/") = false := by
        rcases hend with e | e
        · subst e; simp at hs; simp [hs]
        · cases post with
          | nil => simp at e
          | cons q r => simp at e; subst e; simp [g0]
      have hfin : (!(pre.length == l.size || l[pre.length]? == some ",")) = false := by
        rcases hend with e | e
        · subst e; simp at hs; simp [hs]
        · cases post with
          | nil => simp at e
          | cons q r => simp at e; subst e; simp [g0]
      refine ⟨{ st with i := pre.length + 1 }, ?_, by simp [timeChunks, toksOf], rfl, ?_⟩
      · unfold ruleTail
        simp only [hi, hslash, Bool.false_eq_true, if_false, bind, Option.bind, pure, hfin]
      · apply cov_step hc (by simp [hi]) (by intro k hk; exact hk)
        intro k h1 h2 h3
        have : k = pre.length := by simp at h2; simp [hi] at h1; omega
        subst this
        rcases hend with e | e
        · subst e; simp at hs; omega
        · cases post with
          | nil => simp at e
          | cons q r => simp at e; subst e; right; left; simpa using g0
  | some t =>
      have hokt : t.Ok := hok
      simp only [timeChunks, toksOf_cons, eS, List.cons_append] at hl
      have g0 := get_at hl 0
      have hs := size_at hl
      simp only [List.getElem?_cons_zero, Nat.add_zero, List.length_cons] at g0 hs
      have hslash : (decide (pre.length < l.size) && l[pre.length]? == some "/") = true := by
        simp [g0]; omega
      have hl' : l.toList = (pre ++ ["/"]) ++ (toksOf t.body ++ post) := by rw [hl]; simp
      have hc' : Cov l { st with used := st.used ++ [pre.length], i := pre.length + 1 } := by
        apply cov_step hc (by simp [hi]) (by intro k hk; simp [hk])
        intro k h1 h2 _
        have : k = pre.length := by simp at h2; simp [hi] at h1; omega
        left; simp [this]
      obtain ⟨st2, r1, r2, r3, r4⟩ := ruleTime_spec t l (pre ++ ["/"]) post
        { st with used := st.used ++ [pre.length], i := pre.length + 1 } hl' (by simp) hokt hp hc'
      have hs2 : l.size = st2.i + post.length := by
        rw [r2, hs, List.length_append, List.length_append]; simp; omega
      have gE := get_at hl' (toksOf t.body).length
      rw [← r2] at gE
      have gE' : l[st2.i]? = post[0]? := by
        rw [gE, List.getElem?_append_right (Nat.le_refl _)]; simp
      have hfin : (!(st2.i == l.size || l[st2.i]? == some ",")) = false := by
        rcases hend with e | e
        · subst e; simp at hs2; simp [hs2]
        · cases post with
          | nil => simp at e
          | cons q r => simp at e; subst e; simp [gE']
      refine ⟨{ st2 with i := st2.i + 1 }, ?_, by simp [r2, timeChunks, toksOf]; omega, by simp [r3], ?_⟩
      · unfold ruleTail
        simp only [hi, hslash, if_true, bind, Option.bind, r1, pure, hfin, Bool.false_eq_true, if_false]
      · apply cov_step r4 (by simp) (by intro k hk; exact hk)
        intro k h1 h2 h3
        have : k = st2.i := by simp at h2; omega
        subst this
        rcases hend with e | e
        · subst e; simp at hs2; omega
        · cases post with
          | nil => simp at e
          | cons q r => simp at e; subst e; right; left; simpa using gE'

/-- **one rule with optional `/time`**, followed by "," or the end of the tokens -/
theorem stdRule_spec (r : RuleSp) (tm : Option TimeSp) (l : Array String) (pre post : List String) (st : St)
    (hl : l.toList = pre ++ (toksOf r.chunks ++ (toksOf (timeChunks tm) ++ post))) (hi : st.i = pre.length)
    (hend : post = [] ∨ post.head? = some ",") (hr : r.Ok) (ht : optOk TimeSp.Ok tm) (hc : Cov l st) :
    ∃ st', stdRule l st = some (r.attr (tm.map TimeSp.val), st') ∧
      st'.i = pre.length + (toksOf r.chunks).length + (toksOf (timeChunks tm)).length + 1 ∧
      st'.res = st.res ∧ Cov l st' := by
  obtain ⟨used', i', h1, h2, h3⟩ := ruleHead_spec r l pre _ st hl hi hr hc
  have hl' : l.toList = (pre ++ toksOf r.chunks) ++ (toksOf (timeChunks tm) ++ post) := by rw [hl]; simp
  obtain ⟨st', t1, t2, t3, t4⟩ := ruleTail_spec tm l (pre ++ toksOf r.chunks) post (r.attr none)
    { st with used := used' ++ [i'], i := i' + 1 } hl' (by simp; omega) hend ht h3
  refine ⟨st', ?_, by rw [t2]; simp, by simp [t3], t4⟩
  rw [stdRule_eq]
  simp only [h1, bind, Option.bind, t1]
  cases tm <;> cases r <;> rfl

end TzStr
