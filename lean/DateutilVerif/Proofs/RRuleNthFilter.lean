/-
  Proofs/RRuleNthFilter.lean — the BY-filter for rules whose BYDAY members are all nth weekdays
  (no plain member — D-C01a —, no BYWEEKNO, no BYEASTER), and the generic range lemmas
  parameterised by "the filter at index i is ¬P i".
-/
import DateutilVerif.Proofs.RRuleSetpos
import DateutilVerif.Proofs.RRuleNth

namespace RRule
open Cal

/-- only nth weekdays in BYDAY; no BYWEEKNO / BYEASTER -/
structure NthRule (r : Rule) : Prop where
  byweekno : truthy r.byweekno = false
  byeaster : truthy r.byeaster = false
  byweekday : r.byweekday = none

variable {r : Rule} {y : Int} {info : Info} {i0 i1 : Int}

/-- the BY-filter with an nth-weekday mask, inside the year -/
theorem dayFiltered_nth (hn : NthRule r) (f : YearFacts r y info) (mask : List Int)
    (hm : info.nwdaymask = some mask) (i : Int) (h0 : 0 ≤ i) (h1 : i < info.yearlen)
    (hlen : (mask.length : Int) = info.yearlen) :
    dayFiltered r info i =
      .ok (!(simpleOk r (info.yearordinal + i) && (mask[i.toNat]'(by omega) != 0))) := by
  have hlen' : info.yearlen ≤ 366 := by rw [f.yearlen]; unfold daysInYear; split <;> omega
  have hdate := date_of_index y i f.year_lo h0 (by rw [← f.yearlen]; omega)
  rw [← f.yearordinal] at hdate
  have hmask : Py.getIdx mask i = .ok (mask[i.toNat]'(by omega)) := getIdx_int mask i h0 (by omega)
  have hne : ∃ x xs, mask = x :: xs := by
    cases mask with
    | nil => simp at hlen; omega
    | cons x xs => exact ⟨x, xs, rfl⟩
  obtain ⟨x, xs, hxs⟩ := hne
  subst hxs
  unfold dayFiltered
  rw [mmask_date f i h0 (by omega), mdaymask_date f i h0 (by omega), nmdaymask_date f i h0 (by omega), hm]
  dsimp only
  rw [hmask]
  have htn : truthy (none : Option (List Int)) = false := rfl
  simp only [maskMiss, hn.byweekno, hn.byeaster, hn.byweekday, htn, Bool.false_eq_true, ↓reduceIte]
  have c' : i < daysInYear y := by rw [← f.yearlen]; exact h1
  have hyd : (decide (i < info.yearlen) && !memO (i + 1) r.byyearday && !memO (-info.yearlen + i) r.byyearday ||
      decide (i ≥ info.yearlen) && !memO (i + 1 - info.yearlen) r.byyearday &&
        !memO (-info.nextyearlen + i - info.yearlen) r.byyearday) =
      !(memO (info.yearordinal + i - toOrdinal (fromOrdinal (info.yearordinal + i)).1 1 1 + 1) r.byyearday ||
        memO (info.yearordinal + i - toOrdinal (fromOrdinal (info.yearordinal + i)).1 1 1 + 1 -
              daysInYear (fromOrdinal (info.yearordinal + i)).1 - 1) r.byyearday) := by
    rw [hdate, if_pos c']
    have e1 : info.yearordinal + i - toOrdinal y 1 1 + 1 = i + 1 := by rw [f.yearordinal]; omega
    have e2 : i + 1 - daysInYear y - 1 = -info.yearlen + i := by rw [f.yearlen]; omega
    dsimp only
    rw [e1, e2]
    have c2 : ¬ (i ≥ info.yearlen) := by omega
    simp [h1, c2]
  unfold simpleOk
  rw [hyd, hn.byweekday]
  have hmn : ∀ w, memO w (none : Option (List Int)) = false := fun _ => rfl
  simp only [htn, hmn]
  generalize memO (info.yearordinal + i - toOrdinal (fromOrdinal (info.yearordinal + i)).1 1 1 + 1) r.byyearday = ya
  generalize memO (info.yearordinal + i - toOrdinal (fromOrdinal (info.yearordinal + i)).1 1 1 + 1 -
              daysInYear (fromOrdinal (info.yearordinal + i)).1 - 1) r.byyearday = yb
  generalize (fromOrdinal (info.yearordinal + i)).2.1 = mo
  generalize (fromOrdinal (info.yearordinal + i)).2.2 = dd
  generalize (fromOrdinal (info.yearordinal + i)).1 = yy
  generalize ((x :: xs)[i.toNat]'(by have := hlen; omega)) = mv
  have hbne : (mv != 0) = !(mv == 0) := rfl
  rw [hbne]
  generalize (mv == 0) = mz
  cases truthy r.bymonth <;> cases memO mo r.bymonth <;>
    cases r.bymonthday.isEmpty <;> cases r.bynmonthday.isEmpty <;>
    cases r.bymonthday.contains dd <;> cases r.bynmonthday.contains (dd - daysInMonth yy mo - 1) <;>
    cases truthy r.byyearday <;> cases ya <;> cases yb <;> cases mz <;> rfl

theorem baseInfo_facts (r : Rule) (y : Int) (h1 : 1 ≤ y) (h2 : y ≤ 9999) : YearFacts r y (baseInfo y) := by
  constructor <;> first
    | (simp only [baseInfo, daysInYear]; done)
    | (simp only [baseInfo, Tables.mmaskOf, Tables.mdaymaskOf, Tables.nmdaymaskOf, Tables.mrangeOf]; done)
    | rfl
    | omega

/-- `rebuild` of a MONTHLY nth-weekday rule: succeeds for every year 1..9999 and month, and the
    nth-weekday mask marks exactly the nth weekdays of that month -/
theorem rebuild_nth (hn : NthRule r) (hf : r.freq = 1) (nwl : List (Int × Int)) (hne : nwl ≠ [])
    (hnw : r.bynweekday = some nwl) (hok : ∀ wn ∈ nwl, (0 ≤ wn.1 ∧ wn.1 ≤ 6) ∧ wn.2 ≠ 0)
    (y m : Int) (hy1 : 1 ≤ y) (hy2 : y ≤ 9999) (hm1 : 1 ≤ m) (hm12 : m ≤ 12) :
    ∃ info mask, rebuild r y m = .ok info ∧ info.nwdaymask = some mask ∧ (mask.length : Int) = info.yearlen ∧
      ∀ j : Int, 0 ≤ j → j < info.yearlen →
        Py.getIdx mask j = .ok (if ∃ wn ∈ nwl, marks info (daysBeforeMonth y m)
            (daysBeforeMonth y m + daysInMonth y m - 1) j wn then 1 else 0) := by
  have hw : wnomaskOf r y (baseInfo y) = .ok none := by
    unfold wnomaskOf; have := hn.byweekno
    split
    · rename_i h; rw [h] at this; simp [truthy] at this
    · rfl
  have he : eastermaskOf r y (baseInfo y) = .ok none := by
    unfold eastermaskOf; have := hn.byeaster
    split
    · rename_i h; rw [h] at this; simp [truthy] at this
    · rfl
  obtain ⟨mask, h1, h2, h3⟩ := nwdaymask_monthly (baseInfo_facts r y hy1 hy2) hf nwl hne hnw hok m hm1 hm12
  unfold rebuild
  rw [if_neg (by omega), hw]
  dsimp only
  rw [h1]
  dsimp only
  rw [he]
  exact ⟨_, mask, rfl, rfl, h2, h3⟩

/-! ### range lemmas for an arbitrary filter predicate -/

theorem filterDays_P (P : Int → Bool) : ∀ (ds : List Int),
    (∀ i ∈ ds, dayFiltered r info i = .ok (!P i)) →
    ∃ fl, filterDays r info ds = .ok (ds.filter P, fl) := by
  intro ds
  induction ds with
  | nil => intro _; exact ⟨false, rfl⟩
  | cons i is ih =>
    intro hb
    obtain ⟨fl, hfl⟩ := ih (fun j hj => hb j (List.mem_cons_of_mem _ hj))
    unfold filterDays
    rw [hb i (List.mem_cons_self ..), hfl]
    dsimp only
    by_cases c : P i = true
    · simp only [c, Bool.not_true, Bool.false_eq_true, ↓reduceIte, List.filter_cons_of_pos]
      exact ⟨fl, rfl⟩
    · have c' : P i = false := by simpa using c
      simp only [c', Bool.not_false, ↓reduceIte]
      rw [List.filter_cons_of_neg (by simp [c'])]
      exact ⟨true, rfl⟩

/-- the results of a period over the index range `[i0, i1)` when the filter is `¬P (yo + i)` there -/
theorem periodResults_range_P (st : State) (P : Int → Bool)
    (hfil : ∀ i, i0 ≤ i → i < i1 → dayFiltered r st.info i = .ok (!P (st.info.yearordinal + i)))
    (hnz : ∀ q ∈ r.bysetpos.getD [], q ≠ 0) (hts : TsOk st.timeset)
    (hds : dayset r st.info st.cur = .ok (intRange i0 i1))
    (hlo : 1 ≤ st.info.yearordinal + i0) (hhi : st.info.yearordinal + i1 ≤ maxOrdinal + 1) :
    ∃ fl, periodResults r st = .ok
      (applySetpos r.bysetpos
        (((intRange (st.info.yearordinal + i0) (st.info.yearordinal + i1)).filter P).flatMap
          (fun o => st.timeset.map (mkInst o))), none, fl) := by
  obtain ⟨fl, hfl⟩ := filterDays_P (r := r) (info := st.info) (fun i => P (st.info.yearordinal + i)) (intRange i0 i1)
    (by intro i hi; have := (mem_intRange _ _ _).mp hi; exact hfil i this.1 this.2)
  refine ⟨fl, ?_⟩
  have hord : ∀ i ∈ (intRange i0 i1).filter (fun i => P (st.info.yearordinal + i)),
      1 ≤ st.info.yearordinal + i ∧ st.info.yearordinal + i ≤ maxOrdinal := by
    intro i hi
    have := (mem_intRange _ _ _).mp (List.mem_filter.mp hi).1
    omega
  have hflat : flatOf st.info.yearordinal st.timeset
      ((intRange i0 i1).filter (fun i => P (st.info.yearordinal + i))) =
      ((intRange (st.info.yearordinal + i0) (st.info.yearordinal + i1)).filter P).flatMap
        (fun o => st.timeset.map (mkInst o)) := by
    unfold flatOf
    rw [← intRange_shift, List.filter_map, List.flatMap_map]
    rfl
  unfold periodResults
  rw [hds]; dsimp only
  rw [hfl]; dsimp only
  by_cases hc : (truthy r.bysetpos && !st.timeset.isEmpty) = true
  · rw [if_pos hc]
    simp only [Bool.and_eq_true, Bool.not_eq_true', List.isEmpty_eq_false_iff] at hc
    obtain ⟨hsp, hne⟩ := hc
    cases hb : r.bysetpos with
    | none => rw [hb] at hsp; simp [truthy] at hsp
    | some l =>
      cases l with
      | nil => rw [hb] at hsp; simp [truthy] at hsp
      | cons p ps =>
        rw [hb] at hnz
        simp only [Option.getD_some]
        rw [buildPoslist_eq _ _ _ hts (List.length_pos_iff.mpr hne) hord p ps hnz, hflat]
  · rw [if_neg hc]
    rw [expandDays_ok _ _ _ hord]
    have hflat' : ((intRange i0 i1).filter (fun i => P (st.info.yearordinal + i))).flatMap
        (fun i => st.timeset.map (mkInst (st.info.yearordinal + i))) =
        ((intRange (st.info.yearordinal + i0) (st.info.yearordinal + i1)).filter P).flatMap
          (fun o => st.timeset.map (mkInst o)) := hflat
    rw [hflat']
    dsimp only
    congr 2
    unfold applySetpos
    split
    · rename_i p ps hb
      have hte : st.timeset = [] := by
        rw [hb] at hc
        simpa [truthy] using hc
      rw [hte]
      have hnil : ∀ (l : List Int), l.flatMap (fun o => ([].map (mkInst o) : List Inst)) = [] := by
        intro l; induction l with
        | nil => rfl
        | cons a as ih => rw [List.flatMap_cons, ih]; rfl
      rw [hnil]
      have hpick : ∀ q, specPick [] q = none := by
        intro q; unfold specPick
        split
        · rfl
        · split <;> rfl
      have : (p :: ps).filterMap (specPick []) = [] := by
        apply List.filterMap_eq_nil_iff.mpr
        intro q _; exact hpick q
      rw [this]; rfl
    · rfl

end RRule
