/-
  Proofs/RRuleReplaceOrig.lean — the bridge between C12's `replaceFrom` (Model/RRuleReplace.lean) and
  C01's `origArgs` (Model/RRule.lean, the model of `self._original_rule` plus the scalar attributes
  `replace()` copies; checked against the real object by the `rrule.orig` correspondence op).

  For a rule `r = construct a`, `r.replace(**kw)` is `replaceFrom (origArgs a r) kw`; with no keyword it
  gives `r` back (`construct_origArgs`, Proofs/RRuleOrig.lean).  The only excluded input is the literal
  `bysetpos=()`, which the constructor stores as `()` but `_original_rule` does not record, so the
  rebuilt rule has `_bysetpos = None` (same occurrences, different attribute).
-/
import DateutilVerif.Model.RRuleReplace
import DateutilVerif.Proofs.RRuleOrig

namespace RRule

/-- `r.replace(**kw)` for the rule built from `a` -/
def replace (a : Args) (r : Rule) (kw : Kw) : Py.R Rule := replaceFrom (origArgs a r) kw

theorem replace_eq_replaceFrom (a : Args) (r : Rule) (kw : Kw) :
    replace a r kw = replaceFrom (origArgs a r) kw := rfl

theorem merge_nothing (o : Args) : merge o {} = o := rfl

/-- `r.replace()` is `r` -/
theorem replace_nothing_id (a : Args) (r : Rule) (h : construct a = .ok r) (hsp : a.bysetpos ≠ some []) :
    replace a r {} = .ok r := by
  show construct (merge (origArgs a r) {}) = .ok r
  rw [merge_nothing]; exact construct_origArgs a r h hsp

/-- `r.replace(**kw)` only depends on the recorded arguments: replacing twice with nothing in between
    is replacing once -/
theorem replace_replace_nothing (a : Args) (r r' : Rule) (h : construct a = .ok r) (hsp : a.bysetpos ≠ some [])
    (kw : Kw) (h' : replace a r {} = .ok r') : replace a r' kw = replace a r kw := by
  rw [replace_nothing_id a r h hsp] at h'
  cases h'; rfl

end RRule
