/-
  Proofs/RDFix.lean — the generated `_fix` (`Gen.fix`) field by field as a chain of `carry` steps,
  and the arithmetic facts about one carry.  If /repo's `_fix` changes (a threshold, a divisor, the
  order of the carries) the `fix_*` lemmas below stop checking.
-/
import DateutilVerif.Model.RelativeDelta

namespace RDP
open RDM

/-- one carry step of `_fix`: `(what stays in the field, what is carried up)`;
    `t` is the threshold tested (`abs(x) > t`), `k` the unit -/
def carry (x t k : Int) : Int × Int :=
  if Py.iabs x > t then ((x * Py.sign x) % k * Py.sign x, (x * Py.sign x) / k * Py.sign x) else (x, 0)

def cU (d : RD) := carry d.microseconds 999999 1000000
def cS (d : RD) := carry (d.seconds + (cU d).2) 59 60
def cM (d : RD) := carry (d.minutes + (cS d).2) 59 60
def cH (d : RD) := carry (d.hours + (cM d).2) 23 24
def cMo (d : RD) := carry d.months 11 12

set_option linter.unusedSimpArgs false

theorem fix_us (d : RD) : (Gen.fix d).microseconds = (cU d).1 := by
  unfold Gen.fix cU carry; simp only []; split <;> simp only [*, ↓reduceIte, Int.add_zero]
theorem fix_s (d : RD) : (Gen.fix d).seconds = (cS d).1 := by
  unfold Gen.fix cS cU carry; simp only []
  split <;> split <;> simp only [*, ↓reduceIte, Int.add_zero]
theorem fix_m (d : RD) : (Gen.fix d).minutes = (cM d).1 := by
  unfold Gen.fix cM cS cU carry; simp only []
  split <;> split <;> split <;> simp only [*, ↓reduceIte, Int.add_zero]
theorem fix_h (d : RD) : (Gen.fix d).hours = (cH d).1 := by
  unfold Gen.fix cH cM cS cU carry; simp only []
  split <;> split <;> split <;> split <;> simp only [*, ↓reduceIte, Int.add_zero]
theorem fix_d (d : RD) : (Gen.fix d).days = d.days + (cH d).2 := by
  unfold Gen.fix cH cM cS cU carry; simp only []
  split <;> split <;> split <;> split <;> simp only [*, ↓reduceIte, Int.add_zero]
theorem fix_mo (d : RD) : (Gen.fix d).months = (cMo d).1 := by
  unfold Gen.fix cMo carry; simp only []
  split <;> simp only [*, ↓reduceIte, Int.add_zero]
theorem fix_y (d : RD) : (Gen.fix d).years = d.years + (cMo d).2 := by
  unfold Gen.fix cMo carry; simp only []
  split <;> simp only [*, ↓reduceIte, Int.add_zero]

theorem fix_leapdays (d : RD) : (Gen.fix d).leapdays = d.leapdays := by
  unfold Gen.fix; simp only []
theorem fix_year (d : RD) : (Gen.fix d).year = d.year := by
  unfold Gen.fix; simp only []
theorem fix_month (d : RD) : (Gen.fix d).month = d.month := by
  unfold Gen.fix; simp only []
theorem fix_day (d : RD) : (Gen.fix d).day = d.day := by
  unfold Gen.fix; simp only []
theorem fix_weekday (d : RD) : (Gen.fix d).weekday = d.weekday := by
  unfold Gen.fix; simp only []
theorem fix_hour (d : RD) : (Gen.fix d).hour = d.hour := by
  unfold Gen.fix; simp only []
theorem fix_minute (d : RD) : (Gen.fix d).minute = d.minute := by
  unfold Gen.fix; simp only []
theorem fix_second (d : RD) : (Gen.fix d).second = d.second := by
  unfold Gen.fix; simp only []
theorem fix_microsecond (d : RD) : (Gen.fix d).microsecond = d.microsecond := by
  unfold Gen.fix; simp only []

end RDP

namespace RDP
open RDM

theorem fix_hasTime (d : RD) : (Gen.fix d).hasTime = hasTimeOf (Gen.fix d) := by
  unfold Gen.fix hasTimeOf; simp only []

/-- the arithmetic of one carry, for the four (threshold, unit) pairs `_fix` uses -/
theorem carry_facts (x t k : Int) (hk : k = 1000000 ∨ k = 60 ∨ k = 24 ∨ k = 12) (ht : t = k - 1) :
    (-t ≤ (carry x t k).1 ∧ (carry x t k).1 ≤ t) ∧
    (carry x t k).1 + k * (carry x t k).2 = x ∧
    (0 ≤ x → 0 ≤ (carry x t k).1 ∧ 0 ≤ (carry x t k).2) ∧
    (x ≤ 0 → (carry x t k).1 ≤ 0 ∧ (carry x t k).2 ≤ 0) := by
  rcases hk with rfl | rfl | rfl | rfl <;> subst ht <;>
  · unfold carry Py.iabs Py.sign
    refine ⟨?_, ?_, ?_, ?_⟩ <;>
    (repeat' split) <;> simp only [] <;> omega

theorem carry_small (x t k : Int) (h : -t ≤ x ∧ x ≤ t) : carry x t k = (x, 0) := by
  unfold carry Py.iabs
  rw [if_neg]
  split <;> omega

theorem carry_neg (x t k : Int) (hk : k = 1000000 ∨ k = 60 ∨ k = 24 ∨ k = 12) :
    carry (-x) t k = (-(carry x t k).1, -(carry x t k).2) := by
  have e : - -x = x := by omega
  rcases hk with rfl | rfl | rfl | rfl <;>
  · unfold carry Py.iabs Py.sign
    by_cases h0 : x < 0
    · have h1 : ¬ (-x < 0) := by omega
      simp only [h0, h1, ↓reduceIte, e]
      by_cases hc : -x > t
      · simp only [hc, ↓reduceIte, Prod.mk.injEq]; omega
      · simp [hc]
    · by_cases h2 : x = 0
      · subst h2; simp only [Int.neg_zero]; split <;> simp
      · have h1 : (-x < 0) := by omega
        simp only [h0, h1, ↓reduceIte, e]
        by_cases hc : x > t
        · simp only [hc, ↓reduceIte, Prod.mk.injEq]; omega
        · simp [hc]

end RDP
