/-
  Proofs/LexDot3.lean — the `[.,]` re-split: `digits . digits . digits` is ONE token to the state machine (state `'0.'`, two dots) and is
  split into five tokens when it is emitted (`DD.MM.YYYY`, `YYYY.MM.DD`).
-/
import DateutilVerif.Proofs.LexSeg

namespace PM

theorem splitDecimal_run (cls : Char → CClass) (ds : List Char) (h : DRun cls ds) : splitDecimal ds = [ds] := by
  induction ds with
  | nil => simp [splitDecimal]
  | cons a r ih =>
    have ha := h a List.mem_cons_self
    have hr : DRun cls r := fun c hc => h c (List.mem_cons_of_mem _ hc)
    have hne : ¬ (a = '.' ∨ a = ',') := by
      intro hh; rcases hh with hh | hh
      · exact ha.2.2.1 hh
      · exact ha.2.2.2 hh
    simp only [splitDecimal, hne, if_false, ih hr]

theorem splitDecimal_run_dot (cls : Char → CClass) (ds : List Char) (h : DRun cls ds) (rest : List Char) :
    splitDecimal (ds ++ '.' :: rest) = match splitDecimal rest with
      | [] => [ds, ['.']]
      | p :: ps => ds :: ['.'] :: p :: ps := by
  induction ds with
  | nil =>
    simp only [List.nil_append, splitDecimal, true_or, if_true]
    cases splitDecimal rest <;> rfl
  | cons a r ih =>
    have ha := h a List.mem_cons_self
    have hr : DRun cls r := fun c hc => h c (List.mem_cons_of_mem _ hc)
    have hne : ¬ (a = '.' ∨ a = ',') := by
      intro hh; rcases hh with hh | hh
      · exact ha.2.2.1 hh
      · exact ha.2.2.2 hh
    simp only [List.cons_append, splitDecimal, hne, if_false, ih hr]
    cases splitDecimal rest <;> rfl

theorem step_dot_nDot (cls : Char → CClass) (acc : List Char) :
    step cls { state := .nDot, tok := acc, seen := false } '.' = ([], { state := .nDot, tok := '.' :: acc, seen := false }) := by
  unfold step
  simp

/-- `A.B.C` followed by something that ends it: five tokens -/
theorem lex_dot3 (cls : Char → CClass) (a : Char) (as : List Char) (b : Char) (bs : List Char) (c : Char) (cs rest : List Char)
    (hdot : (cls '.').isNum = false)
    (ha : DRun cls (a :: as)) (hb : DRun cls (b :: bs)) (hc : DRun cls (c :: cs)) (he : FracEnds cls rest) :
    scan cls .init ((a :: as) ++ '.' :: ((b :: bs) ++ '.' :: ((c :: cs) ++ rest))) =
      (a :: as) :: ['.'] :: (b :: bs) :: ['.'] :: (c :: cs) :: scan cls .init rest := by
  rw [scan_run_init cls a as ha.digRun]
  have s1 : step cls { state := .n, tok := (a :: as).reverse, seen := false } '.' =
      ([], { state := .nDot, tok := '.' :: (a :: as).reverse, seen := false }) := by
    unfold step
    simp [hdot]
  simp only [scan, s1, List.nil_append]
  rw [scan_run_nDot cls (b :: bs) hb]
  simp only [scan, step_dot_nDot, List.nil_append]
  rw [scan_run_nDot cls (c :: cs) hc]
  have htok : (c :: cs).reverse ++ '.' :: ((b :: bs).reverse ++ '.' :: (a :: as).reverse) =
      ((a :: as) ++ '.' :: ((b :: bs) ++ '.' :: (c :: cs))).reverse := by simp
  rw [htok]
  -- the token as emitted
  have hlastc : ∃ l init, (c :: cs).reverse = l :: init ∧ l ≠ '.' ∧ l ≠ ',' := by
    cases hr : (c :: cs).reverse with
    | nil => simp at hr
    | cons x xs =>
      have hx : x ∈ (c :: cs) := by
        have : x ∈ (c :: cs).reverse := by rw [hr]; exact List.mem_cons_self
        exact List.mem_reverse.mp this
      exact ⟨x, xs, rfl, (hc x hx).2.2.1, (hc x hx).2.2.2⟩
  obtain ⟨l, init, hrev, hl1, hl2⟩ := hlastc
  have hrevall : ((a :: as) ++ '.' :: ((b :: bs) ++ '.' :: (c :: cs))).reverse =
      l :: (init ++ '.' :: ((b :: bs).reverse ++ '.' :: (a :: as).reverse)) := by
    rw [← htok, hrev]; rfl
  have hsep : lastIsSep (((a :: as) ++ '.' :: ((b :: bs) ++ '.' :: (c :: cs))).reverse) = false := by
    rw [hrevall]; simp [lastIsSep, hl1, hl2]
  have hcount : countDot ((a :: as) ++ '.' :: ((b :: bs) ++ '.' :: (c :: cs))) = 2 := by
    have c1 := countDot_drun cls (a :: as) ha
    have c2 := countDot_drun cls (b :: bs) hb
    have c3 := countDot_drun cls (c :: cs) hc
    unfold countDot at *
    simp only [List.count_append, List.count_cons_self, c1, c2, c3]
  have hsplit : resplit ((a :: as) ++ '.' :: ((b :: bs) ++ '.' :: (c :: cs))) =
      [(a :: as), ['.'], (b :: bs), ['.'], (c :: cs)] := by
    unfold resplit
    rw [splitDecimal_run_dot cls (a :: as) ha, splitDecimal_run_dot cls (b :: bs) hb, splitDecimal_run cls (c :: cs) hc]
    simp
  have hemit : emit { state := .nDot, tok := ((a :: as) ++ '.' :: ((b :: bs) ++ '.' :: (c :: cs))).reverse, seen := false } =
      [(a :: as), ['.'], (b :: bs), ['.'], (c :: cs)] := by
    rw [emit_nDot _ _ (List.reverse_reverse _) hsep, hcount, hsplit]
    simp
  cases rest with
  | nil =>
    simp only [scan, flush]
    rw [hemit]
    rfl
  | cons x r =>
    obtain ⟨h0, hn, h1⟩ := he
    rw [scan_init_cons cls x r h0]
    simp only [scan]
    have hne : (((a :: as) ++ '.' :: ((b :: bs) ++ '.' :: (c :: cs))).reverse).head? ≠ some '.' := by
      rw [hrevall]; simp; exact hl1
    have : step cls { state := .nDot, tok := ((a :: as) ++ '.' :: ((b :: bs) ++ '.' :: (c :: cs))).reverse, seen := false } x =
        ([(a :: as), ['.'], (b :: bs), ['.'], (c :: cs)] ++ (start cls x).1, (start cls x).2) := by
      unfold step pushBack
      simp only [h0, if_false, h1, hn, false_or, Bool.false_eq_true, hne, and_false]
      rw [hemit]
    rw [this]
    rfl

end PM
