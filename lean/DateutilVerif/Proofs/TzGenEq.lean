/- Proofs/TzGenEq.lean — the tzfile lookup functions TRANSLATED from tz/tz.py (Generated/TzKernels.lean, regenerated on
   every run) equal the hand model of Model/Zones.lean on every coherent zone, for datetimes with microseconds. -/
import DateutilVerif.Generated.TzKernels
import DateutilVerif.Proofs.Zones
set_option linter.unusedSimpArgs false
namespace TzGen
open TZ Py DtPy

/-- a datetime whose naive reading is `s` whole seconds plus `f` microseconds -/
def D (s f : Int) (fold att : Bool) : Dt := { us := s * M + f, fold, attached := att }

theorem cmp_lt (s f a : Int) (h0 : 0 ≤ f) (h1 : f < M) : (s * M + f < tsOfInt a) ↔ s < a := by
  unfold tsOfInt M at *; omega

theorem bisectGo_eq (l : List Int) (s f : Int) (h0 : 0 ≤ f) (h1 : f < M) (fuel lo hi : Nat) :
    DtPy.bisectGo l (s * M + f) fuel lo hi = TZ.bisectGo l s fuel lo hi := by
  induction fuel generalizing lo hi with
  | zero => rfl
  | succ n ih =>
    unfold DtPy.bisectGo TZ.bisectGo
    by_cases hlt : lo < hi
    · simp only [hlt, if_true, cmp_lt s f _ h0 h1]
      split <;> exact ih _ _
    · simp only [hlt, if_false]

theorem bisectRight_eq (l : List Int) (s f : Int) (h0 : 0 ≤ f) (h1 : f < M) :
    DtPy.bisectRight l (s * M + f) = (TZ.bisectRight l s : Int) := by
  unfold DtPy.bisectRight TZ.bisectRight; rw [bisectGo_eq l s f h0 h1]

theorem ts_eq (d : Dt) : Gen.datetimeToTimestamp d = .ok d.us := by
  simp [Gen.datetimeToTimestamp, totalSeconds, subDt, naive, EPOCH]

theorem isEmpty_iff (l : List Int) : (l.isEmpty = true) ↔ l = [] := by cases l <;> simp

theorem findLast_utc_eq (z : TzFile) (s f : Int) (fold att : Bool) (h0 : 0 ≤ f) (h1 : f < M) :
    Gen.tzfile_findLastTransition z (D s f fold att) true = .ok (findLastUtc z s) := by
  unfold Gen.tzfile_findLastTransition findLastUtc
  by_cases he : z.transList = []
  · simp [he]
  · have : z.transList.isEmpty = false := by cases h : z.transList <;> simp_all
    simp only [he, ne_eq, not_false_eq_true, not_true_eq_false, if_false, ts_eq, Except.bind, if_true, this,
      Bool.false_eq_true, D, bisectRight_eq _ s f h0 h1]

theorem findLast_wall_eq (z : TzFile) (s f : Int) (fold att : Bool) (h0 : 0 ≤ f) (h1 : f < M) :
    Gen.tzfile_findLastTransition z (D s f fold att) false = .ok (findLastWall z ⟨s, fold⟩) := by
  unfold Gen.tzfile_findLastTransition findLastWall
  by_cases he : z.transList = []
  · simp [he]
  · have : z.transList.isEmpty = false := by cases h : z.transList <;> simp_all
    cases fold <;>
      simp [he, ts_eq, Except.bind, this, D, bisectRight_eq _ s f h0 h1, wallList, foldOf, wallOf]


theorem lgetR_nat {α} (l : List α) (i : Nat) (x : α) (h : l[i]? = some x) : DtPy.lgetR l (i : Int) = .ok x := by
  unfold DtPy.lgetR
  have : ¬ ((i : Int) < 0) := by omega
  simp [this, h]

section
variable {z : TzFile} {b s0 : TType} (hc : Coherent z b s0)
include hc

/-- `_get_ttinfo` for the indices the lookups produce (`None`, or `-1 ≤ idx < len`) -/
theorem getTtinfo_some_eq (c : Nat) (hcn : c ≤ z.utc.length) :
    Gen.tzfile_getTtinfo z (some ((c : Int) - 1)) = .ok (getTtinfo z (some ((c : Int) - 1))) := by
  unfold Gen.tzfile_getTtinfo getTtinfo
  have hl := hc.ntl; have ht := hc.ntts
  simp only [hl]
  by_cases h1 : z.utc.length ≤ c
  · have h1' : ((c : Int) - 1 + 1 ≥ (z.utc.length : Int)) := by omega
    rw [if_pos h1', if_pos h1']
  · have h1' : ¬ ((c : Int) - 1 + 1 ≥ (z.utc.length : Int)) := by omega
    rw [if_neg h1', if_neg h1']
    by_cases h2 : ((c : Int) - 1 < 0)
    · rw [if_pos h2, if_pos h2]
    · rw [if_neg h2, if_neg h2]
      have e : ((c : Int) - 1) = ((c - 1 : Nat) : Int) := by omega
      have hx : z.tts[c - 1]? = some (z.tts.getD (c - 1) default) :=
        getElem?_eq_some_getD (by omega) default
      rw [e, lgetR_nat _ _ _ hx]
      simp only [Except.bind, Int.toNat_natCast, hx]

omit hc in
theorem getTtinfo_none_eq : Gen.tzfile_getTtinfo z none = .ok (getTtinfo z none) := by
  simp [Gen.tzfile_getTtinfo, getTtinfo]

theorem findTtinfo_eq (s f : Int) (fold att : Bool) (h0 : 0 ≤ f) (h1 : f < M) :
    Gen.tzfile_findTtinfo z (D s f fold att) = .ok (findTtinfo z ⟨s, fold⟩) := by
  unfold Gen.tzfile_findTtinfo Gen.tzfile_resolveAmbiguousTime findTtinfo
  rw [findLast_wall_eq z s f fold att h0 h1, hc.findLastWall_eq]
  simp only [Except.bind]
  have hle : TZ.bisectRight (wallOf z fold) s ≤ z.utc.length := by
    have := TZ.bisectRight_le (wallOf z fold) s
    have l0 := hc.w0_len; have l1 := hc.w1_len
    cases fold <;> simp [wallOf] at this ⊢ <;> omega
  exact getTtinfo_some_eq hc _ hle

theorem utcoffset_eq (s f : Int) (fold att : Bool) (h0 : 0 ≤ f) (h1 : f < M) :
    Gen.tzfile_utcoffset z (D s f fold att) = (TZ.utcoffset z ⟨s, fold⟩).map (· * M) := by
  unfold Gen.tzfile_utcoffset TZ.utcoffset
  rw [findTtinfo_eq hc s f fold att h0 h1, hc.hs]
  simp only [ne_eq, reduceCtorEq, not_false_eq_true, not_true_eq_false, if_false, Except.bind]
  cases findTtinfo z ⟨s, fold⟩ <;> simp [DtPy.attr, Except.map, tdSeconds]

theorem tzname_eq (s f : Int) (fold att : Bool) (h0 : 0 ≤ f) (h1 : f < M) :
    Gen.tzfile_tzname z (D s f fold att) = TZ.tzname z ⟨s, fold⟩ := by
  unfold Gen.tzfile_tzname TZ.tzname
  rw [findTtinfo_eq hc s f fold att h0 h1, hc.hs]
  simp only [ne_eq, reduceCtorEq, not_false_eq_true, not_true_eq_false, or_false, if_false, Except.bind]
  cases findTtinfo z ⟨s, fold⟩ <;> simp [DtPy.attr]

theorem dst_eq (s f : Int) (fold att : Bool) (h0 : 0 ≤ f) (h1 : f < M) :
    Gen.tzfile_dst z (D s f fold att) = (TZ.dst z ⟨s, fold⟩).map (· * M) := by
  unfold Gen.tzfile_dst TZ.dst
  cases hd : z.dst with
  | none => simp [Except.map]
  | some d =>
    rw [findTtinfo_eq hc s f fold att h0 h1]
    simp only [ne_eq, reduceCtorEq, not_false_eq_true, not_true_eq_false, if_false, Except.bind]
    cases findTtinfo z ⟨s, fold⟩ with
    | none => simp [DtPy.attr, Except.map]
    | some tt =>
      by_cases hi : tt.isdst = 0 <;> simp [DtPy.attr, Except.map, tdSeconds, hi]
end


theorem cmp_le (s f a : Int) (h0 : 0 ≤ f) (h1 : f < M) : (tsOfInt a ≤ s * M + f) ↔ a ≤ s := by
  have h1' : f < 1000000 := h1
  show a * 1000000 ≤ s * 1000000 + f ↔ a ≤ s
  omega

theorem wallList1 (z : TzFile) : DtPy.wallList z 1 = .ok z.wall1 := by simp [DtPy.wallList]
theorem wallList0 (z : TzFile) : DtPy.wallList z 0 = .ok z.wall0 := by simp [DtPy.wallList]

section
variable {z : TzFile} {b s0 : TType} (hc : Coherent z b s0)
include hc

theorem offsetBefore_eq (i : Nat) (hi : i < z.utc.length) :
    Gen.tzfile_offsetBefore z (i : Int) = .ok (Bo z b i) := by
  unfold Gen.tzfile_offsetBefore Bo
  by_cases h0 : i = 0
  · subst h0; simp [hc.hb, DtPy.attr, Except.bind]
  · have hx : z.tts[i - 1]? = some (z.tts.getD (i - 1) default) :=
      getElem?_eq_some_getD (by have := hc.ntts; omega) default
    have e : ((i : Int) - 1) = ((i - 1 : Nat) : Int) := by omega
    rw [if_pos (by omega), e, lgetR_nat _ _ _ hx]
    simp [Except.bind, h0, A]

/-- the ambiguity test at a transition index that exists -/
theorem isAmb_at (s f : Int) (fold att : Bool) (h0 : 0 ≤ f) (h1 : f < M) (c : Nat) (hcn : c ≤ z.utc.length) :
    Gen.tzfile_isAmbiguous z (D s f fold att) (some ((c : Int) - 1)) =
      .ok (isAmbiguousIdx z s (some ((c : Int) - 1))) := by
  rw [hc.isAmbiguousIdx_eq s c hcn]
  unfold Gen.tzfile_isAmbiguous
  have hne : z.transList ≠ [] := by
    intro e; have := hc.not_empty; simp [e] at this
  simp only [hne, ne_eq, not_false_eq_true, not_true_eq_false, if_false, ts_eq, Except.bind]
  by_cases hc0 : c = 0
  · subst hc0; simp
  · have hlt : ¬ ((c : Int) - 1 < 0) := by omega
    have e : ((c : Int) - 1) = ((c - 1 : Nat) : Int) := by omega
    have x1 : z.wall1[c - 1]? = some (z.wall1.getD (c - 1) 0) := getElem?_eq_some_getD (by rw [hc.w1_len]; omega) 0
    have x0 : z.wall0[c - 1]? = some (z.wall0.getD (c - 1) 0) := getElem?_eq_some_getD (by rw [hc.w0_len]; omega) 0
    have xt : z.tts[c - 1]? = some (z.tts.getD (c - 1) default) := getElem?_eq_some_getD (by rw [hc.ntts]; omega) default
    simp only [hlt, if_false, e, wallList1, wallList0, lgetR_nat _ _ _ x1, lgetR_nat _ _ _ x0, lgetR_nat _ _ _ xt,
      offsetBefore_eq hc (c - 1) (by omega), D, cmp_le s f _ h0 h1, cmp_lt s f _ h0 h1,
      hc.w0_get (c - 1) (by omega), hc.w1_get (c - 1) (by omega), A]
    have hpos : decide (0 < c) = true := by simp; omega
    rw [hpos]
    by_cases a1 : U z (c - 1) + min (Bo z b (c - 1)) (z.tts.getD (c - 1) default).off ≤ s <;>
    by_cases a2 : s < U z (c - 1) + Bo z b (c - 1) <;>
    by_cases a3 : Bo z b (c - 1) > (z.tts.getD (c - 1) default).off <;>
      (simp only [List.getD_eq_getElem?_getD] at a1 a2 a3 ⊢
       simp [a1, a2, a3, show ¬ (((c - 1 : Nat) : Int) < 0) by omega])
end


section
variable {z : TzFile} {b s0 : TType} (hc : Coherent z b s0)
include hc

/-- the public `is_ambiguous(dt)` -/
theorem isAmb_none (s f : Int) (fold att : Bool) (h0 : 0 ≤ f) (h1 : f < M) :
    Gen.tzfile_isAmbiguous z (D s f fold att) none = .ok (TZ.isAmbiguous z s) := by
  have hne : z.transList ≠ [] := by
    intro e; have := hc.not_empty; simp [e] at this
  have hc1 : TZ.bisectRight z.wall1 s ≤ z.utc.length := by
    have := TZ.bisectRight_le z.wall1 s; rw [hc.w1_len] at this; exact this
  have key := isAmb_at hc s f fold att h0 h1 (TZ.bisectRight z.wall1 s) hc1
  have hmodel : TZ.isAmbiguous z s =
      (if ((TZ.bisectRight z.wall1 s : Int) - 1 == (TZ.bisectRight z.wall0 s : Int) - 1) = true then false
       else isAmbiguousIdx z s (some ((TZ.bisectRight z.wall1 s : Int) - 1))) := by
    unfold TZ.isAmbiguous isAmbiguousIdx
    simp only [hc.not_empty, Bool.false_eq_true, if_false]
  rw [hmodel]
  unfold Gen.tzfile_isAmbiguous at key ⊢
  simp only [hne, ne_eq, not_false_eq_true, not_true_eq_false, if_false, ts_eq, Except.bind, wallList1, wallList0, D,
    bisectRight_eq _ s f h0 h1] at key ⊢
  by_cases heq : (TZ.bisectRight z.wall1 s : Int) - 1 = (TZ.bisectRight z.wall0 s : Int) - 1
  · simp [heq]
  · have : ((TZ.bisectRight z.wall1 s : Int) - 1 == (TZ.bisectRight z.wall0 s : Int) - 1) = false := by
      simp [heq]
    simp only [heq, if_false, this, Bool.false_eq_true]
    exact key

theorem fromutc_eq (s f : Int) (h0 : 0 ≤ f) (h1 : f < M) :
    Gen.tzfile_fromutc z (D s f false true) =
      (TZ.fromutc z s).map fun w => D w.wall f w.fold true := by
  have hle : TZ.bisectRight z.utc s ≤ z.utc.length := TZ.bisectRight_le z.utc s
  unfold Gen.tzfile_fromutc
  rw [findLast_utc_eq z s f false true h0 h1, hc.findLastUtc_eq, hc.fromutc_eq]
  simp only [D, not_true_eq_false, if_false, Bool.true_eq_false, Except.bind, getTtinfo_some_eq hc _ hle,
    hc.getTtinfo_eq _ hle, DtPy.attr]
  have hdt : DtPy.addTd { us := s * M + f, fold := false, attached := true } (tdSeconds (ttOf z b s0 (TZ.bisectRight z.utc s)).off)
      = D (s + (ttOf z b s0 (TZ.bisectRight z.utc s)).off) f false true := by
    simp only [DtPy.addTd, tdSeconds, D, M]; congr 1; omega
  rw [hdt, isAmb_at hc _ f false true h0 h1 _ hle]
  simp only [Except.map, DtPy.enfold, D, b2i]
  cases isAmbiguousIdx z (s + (ttOf z b s0 (TZ.bisectRight z.utc s)).off) (some ((TZ.bisectRight z.utc s : Int) - 1)) <;> simp
end
end TzGen
