/-
  Proofs/RRuleWeeknoYearly.lean — YEARLY with BYWEEKNO on the complement of D-C01c: the filter with
  the week-number mask, `rebuild`, the bridge to `dateOk` and the instance of the refinement.
-/
import DateutilVerif.Proofs.RRuleWeeknoMask

namespace RRule
open Cal

/-- BYWEEKNO is the only computed mask (plain BYDAY allowed) -/
structure WeeknoRule (r : Rule) : Prop where
  byweekno : truthy r.byweekno = true
  bynweekday : truthy r.bynweekday = false
  byeaster : truthy r.byeaster = false

variable {r : Rule} {y : Int} {info : Info}

/-- the BY-filter with a week-number mask, inside the year -/
theorem dayFiltered_weekno (hr : WeeknoRule r) (f : YearFacts r y info) (mask : List Int)
    (hnw : info.nwdaymask = none) (hm : info.wnomask = some mask) (i : Int) (h0 : 0 ≤ i) (h1 : i < info.yearlen)
    (hlen : info.yearlen ≤ (mask.length : Int)) :
    dayFiltered r info i =
      .ok (!(simpleOk r (info.yearordinal + i) && (mask[i.toNat]'(by omega) != 0))) := by
  have hlen' : info.yearlen ≤ 366 := by rw [f.yearlen]; unfold daysInYear; split <;> omega
  have hdate := date_of_index y i f.year_lo h0 (by rw [← f.yearlen]; omega)
  rw [← f.yearordinal] at hdate
  have hmask : Py.getIdx mask i = .ok (mask[i.toNat]'(by omega)) := getIdx_int mask i h0 (by omega)
  unfold dayFiltered
  rw [mmask_date f i h0 (by omega), wdaymask_date f i h0 (by omega), mdaymask_date f i h0 (by omega),
      nmdaymask_date f i h0 (by omega), hnw, hm]
  simp only [maskMiss, hr.byweekno, hr.byeaster, Bool.false_eq_true, ↓reduceIte, hmask]
  have c' : i < daysInYear y := by rw [← f.yearlen]; exact h1
  have hyd : (decide (i < info.yearlen) && !memO (i + 1) r.byyearday && !memO (-info.yearlen + i) r.byyearday ||
      decide (i ≥ info.yearlen) && !memO (i + 1 - info.yearlen) r.byyearday &&
        !memO (-info.nextyearlen + i - info.yearlen) r.byyearday) =
      !(memO (info.yearordinal + i - toOrdinal (fromOrdinal (info.yearordinal + i)).1 1 1 + 1) r.byyearday ||
        memO (info.yearordinal + i - toOrdinal (fromOrdinal (info.yearordinal + i)).1 1 1 + 1 -
              daysInYear (fromOrdinal (info.yearordinal + i)).1 - 1) r.byyearday) := by
    rw [hdate, if_pos c']
    have e1 : info.yearordinal + i - toOrdinal y 1 1 + 1 = i + 1 := by rw [f.yearordinal]; omega
    have e2 : i + 1 - daysInYear y - 1 = -info.yearlen + i := by rw [f.yearlen]; omega
    dsimp only
    rw [e1, e2]
    have c2 : ¬ (i ≥ info.yearlen) := by omega
    simp [h1, c2]
  unfold simpleOk
  rw [hyd]
  generalize memO (info.yearordinal + i - toOrdinal (fromOrdinal (info.yearordinal + i)).1 1 1 + 1) r.byyearday = ya
  generalize memO (info.yearordinal + i - toOrdinal (fromOrdinal (info.yearordinal + i)).1 1 1 + 1 -
              daysInYear (fromOrdinal (info.yearordinal + i)).1 - 1) r.byyearday = yb
  generalize (fromOrdinal (info.yearordinal + i)).2.1 = mo
  generalize (fromOrdinal (info.yearordinal + i)).2.2 = dd
  generalize (fromOrdinal (info.yearordinal + i)).1 = yy
  generalize weekdayOfOrd (info.yearordinal + i) = wd
  generalize (mask[i.toNat]'(by omega)) = mv
  have hbne : (mv != 0) = !(mv == 0) := rfl
  rw [hbne]
  generalize (mv == 0) = mz
  cases truthy r.bymonth <;> cases memO mo r.bymonth <;> cases truthy r.byweekday <;>
    cases memO wd r.byweekday <;> cases r.bymonthday.isEmpty <;> cases r.bynmonthday.isEmpty <;>
    cases r.bymonthday.contains dd <;> cases r.bynmonthday.contains (dd - daysInMonth yy mo - 1) <;>
    cases truthy r.byyearday <;> cases ya <;> cases yb <;> cases mz <;> rfl

/-- `rebuild` of a week-number rule on the complement of D-C01c: succeeds for every year 1..9999 -/
theorem rebuild_weekno (hr : WeeknoRule r) (wl : List Int) (hwl : r.byweekno = some wl) (hc : WnoOk wl)
    (hwk : 0 ≤ r.wkst ∧ r.wkst ≤ 6) (y m : Int) (hy1 : 1 ≤ y) (hy2 : y ≤ 9999) :
    ∃ info mask, rebuild r y m = .ok info ∧ info.nwdaymask = none ∧ info.wnomask = some mask ∧
      (mask.length : Int) = info.yearlen + 7 ∧
      ∀ j : Int, 0 ≤ j → j < info.yearlen →
        Py.getIdx mask j = .ok (if weekClause r.wkst wl (info.yearordinal + j) = true then 1 else 0) := by
  have hnwd : ∀ (yl : Int) (mr wd : List Int), buildNwdaymask r yl mr wd m = .ok none := by
    intro yl mr wd
    unfold buildNwdaymask
    have := hr.bynweekday
    split
    · rename_i h; rw [h] at this; simp [truthy] at this
    · rfl
  have he : eastermaskOf r y (baseInfo y) = .ok none := by
    unfold eastermaskOf; have := hr.byeaster
    split
    · rename_i h; rw [h] at this; simp [truthy] at this
    · rfl
  obtain ⟨mask, h1, h2, h3⟩ := buildWnomask_spec (baseInfo_facts r y hy1 hy2) r.wkst hwk wl hc
  have hne : ∃ w ws, wl = w :: ws := by
    have := hr.byweekno; rw [hwl] at this
    cases wl with
    | nil => simp [truthy] at this
    | cons w ws => exact ⟨w, ws, rfl⟩
  obtain ⟨w, ws, hwws⟩ := hne
  have hw : wnomaskOf r y (baseInfo y) = .ok (some mask) := by
    unfold wnomaskOf
    rw [hwl, hwws]
    dsimp only
    rw [← hwws, h1]
  unfold rebuild
  rw [if_neg (by omega), hw]
  dsimp only
  rw [hnwd]
  dsimp only
  rw [he]
  exact ⟨_, mask, rfl, rfl, rfl, h2, h3⟩

/-- YEARLY argument sets with BYWEEKNO on the complement of D-C01c -/
structure WeeknoYArgs (a : Args) : Prop where
  freq : a.freq = 0
  interval : 1 ≤ a.interval
  valid : a.dtstart.Valid
  wkst : 0 ≤ a.wkst.getD 0 ∧ a.wkst.getD 0 ≤ 6
  monthday_nz : ∀ x ∈ a.bymonthday.getD [], x ≠ 0
  byeaster : a.byeaster = none
  plain : ∀ w ∈ a.byweekday.getD [], w.2 = 0
  weekno : ∃ wl, a.byweekno = some wl ∧ wl ≠ [] ∧ WnoOk wl

variable {a : Args}

def weeknosOf (a : Args) : List Int := sortedSet (a.byweekno.getD [])

theorem wy_noDay (wa : WeeknoYArgs a) : noDayParts a = false := by
  obtain ⟨wl, hwl, _, _⟩ := wa.weekno
  unfold noDayParts; simp [hwl]

theorem wy_weeknos (wa : WeeknoYArgs a) :
    (∀ o, o ∈ weeknosOf a ↔ o ∈ a.byweekno.getD []) ∧ WnoOk (weeknosOf a) ∧ truthy (some (weeknosOf a)) = true := by
  obtain ⟨wl, hwl, hne, hok⟩ := wa.weekno
  have hmem : ∀ o, o ∈ weeknosOf a ↔ o ∈ wl := by
    intro o; unfold weeknosOf; rw [hwl, Option.getD_some, mem_sortedSet]
  refine ⟨by rw [hwl]; exact hmem, ⟨?_, ?_⟩, ?_⟩
  · intro h; simp only [hmem] at h ⊢; exact hok.last h
  · intro h; simp only [hmem] at h ⊢; exact hok.first h
  · rw [truthy_eq_not_isEmpty]; unfold weeknosOf
    rw [hwl, Option.getD_some, isEmpty_sortedSet]
    cases wl with
    | nil => exact absurd rfl hne
    | cons _ _ => rfl

/-- the same argument set without the parts that `YMArgs` excludes (for the BYDAY lemmas) -/
def stripW (a : Args) : Args := { a with byweekno := none, byeaster := none, bymonthday := none }

theorem wy_strip (wa : WeeknoYArgs a) : YMArgs (stripW a) :=
  { freq := Or.inl wa.freq, interval := wa.interval, valid := wa.valid, byweekno := rfl, byeaster := rfl,
    monthday_nz := by intro x hx; simp [stripW] at hx, plain := wa.plain }

theorem wy_weekdayArg (wa : WeeknoYArgs a) : weekdayArg a = a.byweekday := by
  unfold weekdayArg; simp [wa.freq]

theorem byweekdayOf_strip (wa : WeeknoYArgs a) : byweekdayOf (stripW a) = byweekdayOf a := by
  unfold byweekdayOf
  rw [wy_weekdayArg wa, ym_weekdayArg (wy_strip wa)]
  rfl

theorem wy_nwd (wa : WeeknoYArgs a) : truthy (bynweekdayOf a) = false := by
  unfold bynweekdayOf
  rw [wy_weekdayArg wa]
  cases hl : a.byweekday with
  | none => rfl
  | some l =>
    dsimp only
    have hnth : nthWeekdays a l = [] := by
      unfold nthWeekdays
      have : l.filter (fun w => !(w.2 == 0 || decide (a.freq > 1))) = [] := by
        apply List.filter_eq_nil_iff.mpr
        intro w hw
        have := wa.plain w (by rw [hl]; exact hw)
        simp [this]
      rw [this]; rfl
    rw [hnth]
    split
    · rfl
    · rfl

/-- the normalised rule, up to the three unit lists -/
abbrev weeknoRuleOf (a : Args) (bh bm bs : Option (List Int)) : Rule :=
  { freq := a.freq, interval := a.interval, wkst := a.wkst.getD 0,
    dtstart := { a.dtstart with us := 0 }, tz := a.tz, count := a.count, untilDT := a.untilDT,
    bysetpos := a.bysetpos, bymonth := a.bymonth.map sortedSet, bymonthday := bymonthdayOf a,
    bynmonthday := bynmonthdayOf a, byyearday := a.byyearday.map sortedSet,
    byeaster := none, byweekno := some (weeknosOf a),
    byweekday := byweekdayOf a, bynweekday := bynweekdayOf a,
    byhour := bh, byminute := bm, bysecond := bs,
    timeset := some (Spec.RRule.timesOf a none none none) }

theorem wy_rule (wa : WeeknoYArgs a) (h : construct a = .ok r) : ∃ bh bm bs, r = weeknoRuleOf a bh bm bs := by
  have hts := construct_timeset a r h (by rw [wa.freq]; omega)
  obtain ⟨sp, bh, bm, bs, ts, h1, h2, h3, h4, h5, rfl⟩ := construct_ok a r h
  dsimp only at hts
  subst hts
  have hsp := (normBysetpos_ok a sp h1).1
  subst hsp
  obtain ⟨wl, hwl, _, _⟩ := wa.weekno
  refine ⟨bh, bm, bs, ?_⟩
  have hbm : bymonthOf a = a.bymonth.map sortedSet := by unfold bymonthOf; simp [wy_noDay wa]
  have hws : a.byweekno.map sortedSet = some (weeknosOf a) := by unfold weeknosOf; rw [hwl]; rfl
  simp [weeknoRuleOf, hbm, hws, wa.byeaster]

theorem wy_cuts (wa : WeeknoYArgs a) (h : construct a = .ok r) : CutsAgree a r := by
  obtain ⟨bh, bm, bs, hr⟩ := wy_rule wa h
  rw [hr]; exact ⟨rfl, rfl, rfl⟩

theorem wy_weeknoRule (wa : WeeknoYArgs a) (h : construct a = .ok r) : WeeknoRule r := by
  obtain ⟨bh, bm, bs, hr⟩ := wy_rule wa h
  rw [hr]; exact ⟨(wy_weeknos wa).2.2, wy_nwd wa, rfl⟩

/-- **bridge**: inside the year `y`, calendar predicate ∧ week clause is `dateOk` -/
theorem wy_bridge (wa : WeeknoYArgs a) (h : construct a = .ok r) (info : Info) (y j : Int)
    (hy : 1 ≤ y) (hj0 : 0 ≤ j) (hj1 : j < daysInYear y) (hyo : info.yearordinal = toOrdinal y 1 1) :
    (simpleOk r (info.yearordinal + j) && weekClause r.wkst (weeknosOf a) (info.yearordinal + j)) =
      Spec.RRule.dateOk a (info.yearordinal + j) := by
  obtain ⟨bh, bm, bs, hr⟩ := wy_rule wa h
  obtain ⟨wl, hwl, hne, _⟩ := wa.weekno
  have hfo := date_of_yday y j hy hj0 hj1
  rw [← hyo] at hfo
  have hpos : 1 ≤ info.yearordinal + j := by
    rw [hyo]
    have := toOrdinal_pos y 1 1 hy ⟨by omega, by omega, by omega, by have := daysInMonth_bounds y 1; omega⟩
    omega
  obtain ⟨_, hvd, _⟩ := toOrdinal_fromOrdinal (info.yearordinal + j) hpos
  rw [hfo] at hvd
  obtain ⟨_, _, hd1, hd2⟩ := hvd
  dsimp only at hd1 hd2
  rw [hr]
  unfold simpleOk Spec.RRule.dateOk
  rw [hfo]
  dsimp only
  have hnd : Spec.RRule.noDayParts a = noDayParts a := rfl
  have hmonths : Spec.RRule.months a = a.bymonth.getD [] := by
    unfold Spec.RRule.months; cases a.bymonth <;> simp [hnd, wy_noDay wa]
  have hmda : monthdayArg a = a.bymonthday := by unfold monthdayArg; simp [wy_noDay wa]
  have hmd : Spec.RRule.monthdays a = a.bymonthday.getD [] := by
    unfold Spec.RRule.monthdays; simp [hnd, wy_noDay wa]
  have hmc := monthday_clause_core a (by rw [hmda]; exact wa.monthday_nz)
    (monthDayOfYday (isLeap y) j).2
    ((monthDayOfYday (isLeap y) j).2 - daysInMonth y (monthOfYday (isLeap y) j) - 1) (by omega) (by omega)
  rw [hmda] at hmc
  have hwds : Spec.RRule.weekdays a = a.byweekday.getD [] := by
    unfold Spec.RRule.weekdays; simp [hnd, wy_noDay wa]
  have hwc := weekday_clause_ym (wy_strip wa) (weekdayOfOrd (info.yearordinal + j))
    (fun wn => Spec.RRule.nthOk a (info.yearordinal + j) y (monthOfYday (isLeap y) j) wn.2)
  rw [byweekdayOf_strip wa] at hwc
  have hwc' : (!truthy (byweekdayOf a) || memO (weekdayOfOrd (info.yearordinal + j)) (byweekdayOf a)) =
      ((a.byweekday.getD []).isEmpty || (a.byweekday.getD []).any (fun wn =>
        wn.1 == weekdayOfOrd (info.yearordinal + j) &&
          (wn.2 == 0 || decide (a.freq > 1) ||
            Spec.RRule.nthOk a (info.yearordinal + j) y (monthOfYday (isLeap y) j) wn.2))) := hwc
  rw [hmonths, hmd, hwds, wa.byeaster, hwl, month_clause, hwc', hmc]
  have hwk : weekClause (a.wkst.getD 0) (weeknosOf a) (info.yearordinal + j) =
      (match some wl with
       | some (x :: xs) => (x :: xs).contains (Spec.RRule.weekOf (Spec.RRule.wkst a) (info.yearordinal + j)).1 ||
           (x :: xs).contains ((Spec.RRule.weekOf (Spec.RRule.wkst a) (info.yearordinal + j)).1 -
             (Spec.RRule.weekOf (Spec.RRule.wkst a) (info.yearordinal + j)).2 - 1)
       | _ => true) := by
    cases hq : wl with
    | nil => exact absurd hq hne
    | cons x xs =>
      dsimp only
      unfold weekClause weeknosOf
      rw [hwl, Option.getD_some, contains_sortedSet, contains_sortedSet, hq]
      rfl
  rw [hwk]
  have htn : truthy (none : Option (List Int)) = false := rfl
  have hmn : ∀ w, memO w (none : Option (List Int)) = false := fun _ => rfl
  simp only [htn, hmn, List.isEmpty_nil, Bool.not_true, Bool.or_false, Bool.not_false, Bool.true_or, Bool.and_true,
    Bool.or_self, List.contains_nil]
  generalize ((a.bymonth.getD []).isEmpty || (a.bymonth.getD []).contains (monthOfYday (isLeap y) j)) = b1
  generalize ((a.byweekday.getD []).isEmpty || _) = b2
  generalize ((a.bymonthday.getD []).isEmpty || _ || _) = b4
  cases hq : wl with
  | nil => exact absurd hq hne
  | cons x0 xs0 =>
    dsimp only
    generalize ((x0 :: xs0).contains _ || (x0 :: xs0).contains _) = b3
    rcases a.byyearday with _ | (_ | ⟨x, xs⟩)
    · cases b1 <;> cases b2 <;> cases b3 <;> cases b4 <;> rfl
    · cases b1 <;> cases b2 <;> cases b3 <;> cases b4 <;> rfl
    · rw [yearday_clause (some (x :: xs))]
      dsimp only
      cases b1 <;> cases b2 <;> cases b3 <;> cases b4 <;> simp

/-- "the model state at the start of period `k`" -/
structure WeeknoGood (a : Args) (r : Rule) (k : Nat) (st : State) : Prop where
  facts : YearFacts r st.cur.year st.info
  timeset : st.timeset = Spec.RRule.timesOf a none none none
  year : st.cur.year = a.dtstart.y + k * a.interval
  nwd : st.info.nwdaymask = none
  mask : ∃ mask, st.info.wnomask = some mask ∧ (mask.length : Int) = st.info.yearlen + 7 ∧
    ∀ j : Int, 0 ≤ j → j < st.info.yearlen →
      Py.getIdx mask j = .ok (if weekClause r.wkst (weeknosOf a) (st.info.yearordinal + j) = true then 1 else 0)

theorem wy_results (wa : WeeknoYArgs a) (h : construct a = .ok r) (k : Nat) (st : State) (hg : WeeknoGood a r k st) :
    ∃ fl pre cands, periodResults r st = .ok (cands, none, fl) ∧ Spec.RRule.sel a (k : Int) = pre ++ cands ∧
      (∀ x ∈ pre, x.micros < Spec.RRule.startMicros a ∧ Spec.RRule.afterUntil a x = false) ∧
      (∀ x ∈ cands, 0 ≤ x.ord ∧ x.ord ≤ maxOrdinal) := by
  have hwr := wy_weeknoRule wa h
  obtain ⟨bh, bm, bs, hr⟩ := wy_rule wa h
  have hfreq : r.freq = 0 := by rw [hr]; exact wa.freq
  have hsp := construct_bysetpos a r h
  have htsok : TsOk st.timeset := by
    have := construct_timeset_ok a r h (by rw [wa.freq]; omega)
    rw [hr] at this; rw [hg.timeset]; exact this
  have hyo := hg.facts.yearordinal
  have hyl := hg.facts.yearlen
  have hy1 := hg.facts.year_lo
  have hy2 := hg.facts.year_hi
  have hylen : 365 ≤ st.info.yearlen := by rw [hyl]; unfold daysInYear; split <;> omega
  have hpos : 1 ≤ toOrdinal st.cur.year 1 1 :=
    toOrdinal_pos _ _ _ hy1 ⟨by omega, by omega, by omega, by have := daysInMonth_bounds st.cur.year 1; omega⟩
  have hend := year_end_le st.cur.year hy2
  have hd : dayset r st.info st.cur = .ok (intRange 0 st.info.yearlen) := dayset_yearly st.cur hfreq
  obtain ⟨mask, hmask, hmlen, hmspec⟩ := hg.mask
  have hfil : ∀ i, 0 ≤ i → i < st.info.yearlen →
      dayFiltered r st.info i = .ok (!(Spec.RRule.dateOk a (st.info.yearordinal + i))) := by
    intro i hi0 hi1
    rw [dayFiltered_weekno hwr hg.facts mask hg.nwd hmask i hi0 hi1 (by omega)]
    have hgi := hmspec i hi0 hi1
    rw [getIdx_int mask i hi0 (by omega)] at hgi
    injection hgi with hgi
    have hbr := wy_bridge wa h st.info st.cur.year i hy1 hi0 (by rw [← hyl]; exact hi1) hyo
    rw [← hbr, hgi]
    congr 2
    by_cases c : weekClause r.wkst (weeknosOf a) (st.info.yearordinal + i) = true
    · rw [if_pos c, c]; rfl
    · rw [if_neg c]
      have : weekClause r.wkst (weeknosOf a) (st.info.yearordinal + i) = false := by
        cases hq : weekClause r.wkst (weeknosOf a) (st.info.yearordinal + i) with
        | false => rfl
        | true => exact absurd hq c
      rw [this]; rfl
  obtain ⟨fl, hres⟩ := periodResults_range_P st (Spec.RRule.dateOk a) hfil (by rw [hsp.1]; exact hsp.2) htsok hd
    (by rw [hyo]; omega) (by rw [hyo, hyl]; exact hend)
  have hspan : Spec.RRule.periodSpan a (k * a.interval) =
      (st.info.yearordinal + 0, st.info.yearordinal + st.info.yearlen, none, none, none) := by
    unfold Spec.RRule.periodSpan
    rw [if_pos (by simp [wa.freq])]
    dsimp only
    rw [← hg.year, hyo, hyl, toOrdinal_next_year]; simp
  refine ⟨fl, [], Spec.RRule.sel a (k : Int), ?_, rfl, by simp, ?_⟩
  · rw [hres, hg.timeset, sel_span_sp a k _ _ hspan, hsp.1]
  · intro x hx
    rw [sel_span_sp a k _ _ hspan] at hx
    have := sel_bounds _ _ _ _ x (applySetpos_subset _ _ x hx)
    rw [hyo, hyl] at this; omega

theorem wy_rebuild (wa : WeeknoYArgs a) (h : construct a = .ok r) (y m : Int) (hy1 : 1 ≤ y) (hy2 : y ≤ 9999) :
    ∃ info mask, rebuild r y m = .ok info ∧ info.nwdaymask = none ∧ info.wnomask = some mask ∧
      (mask.length : Int) = info.yearlen + 7 ∧
      ∀ j : Int, 0 ≤ j → j < info.yearlen →
        Py.getIdx mask j = .ok (if weekClause r.wkst (weeknosOf a) (info.yearordinal + j) = true then 1 else 0) := by
  have hwr := wy_weeknoRule wa h
  obtain ⟨bh, bm, bs, hr⟩ := wy_rule wa h
  have hwl : r.byweekno = some (weeknosOf a) := by rw [hr]
  have hwk : 0 ≤ r.wkst ∧ r.wkst ≤ 6 := by rw [hr]; exact wa.wkst
  exact rebuild_weekno hwr _ hwl (wy_weeknos wa).2.1 hwk y m hy1 hy2

theorem wy_next (wa : WeeknoYArgs a) (h : construct a = .ok r) (k : Nat) (st : State) (fl : Bool)
    (c : Option Int) (hg : WeeknoGood a r k st)
    (hy : a.dtstart.y + (k + 1 : Nat) * a.interval ≤ 9999) :
    ∃ st', advance r { st with count := c } fl = .ok st' ∧ WeeknoGood a r (k + 1) st' := by
  obtain ⟨bh, bm, bs, hr⟩ := wy_rule wa h
  have hfreq : r.freq = 0 := by rw [hr]; exact wa.freq
  have hint : r.interval = a.interval := by rw [hr]
  have hi := wa.interval
  have hyr := hg.year
  have hlo := hg.facts.year_lo
  have ek : ((k + 1 : Nat) : Int) * a.interval = k * a.interval + a.interval := by
    push_cast; rw [Int.add_mul]; omega
  have hk0 : (0 : Int) ≤ k * a.interval := Int.mul_nonneg (by omega) (by omega)
  have hle : st.cur.year + r.interval ≤ 9999 := by rw [hint]; omega
  obtain ⟨info, mask, hre, h2, h3, h4, h5⟩ := wy_rebuild wa h (st.cur.year + r.interval) st.cur.month
    (by rw [hint]; omega) hle
  have hadv : advance r { st with count := c } fl =
      .ok { cur := { st.cur with year := st.cur.year + r.interval }, info := info,
            timeset := st.timeset, count := c } := by
    unfold advance
    dsimp only
    rw [if_pos (by simp [hfreq]), if_neg (by omega), hre]
  exact ⟨_, hadv, ⟨rebuild_facts r _ _ info hre, hg.timeset, by dsimp only; rw [hyr, hint]; omega, h2, mask, h3, h4, h5⟩⟩

theorem wy_init (wa : WeeknoYArgs a) (h : construct a = .ok r) (hlo : 1 ≤ a.dtstart.y) (hhi : a.dtstart.y ≤ 9999) :
    ∃ st0, init r = .ok st0 ∧ WeeknoGood a r 0 st0 ∧ st0.count = r.count := by
  obtain ⟨bh, bm, bs, hr⟩ := wy_rule wa h
  have hfreq : r.freq = 0 := by rw [hr]; exact wa.freq
  obtain ⟨info, mask, hre, h2, h3, h4, h5⟩ := wy_rebuild wa h a.dtstart.y a.dtstart.m hlo hhi
  have hd : r.dtstart = { a.dtstart with us := 0 } := by rw [hr]
  have hf : r.freq < 4 := by omega
  have hts : r.timeset = some (Spec.RRule.timesOf a none none none) := by rw [hr]
  refine ⟨{ cur := { year := a.dtstart.y, month := a.dtstart.m, day := a.dtstart.d, hour := a.dtstart.hh,
                     minute := a.dtstart.mm, second := a.dtstart.ss, weekday := r.dtstart.weekday },
            info := info, timeset := Spec.RRule.timesOf a none none none, count := r.count }, ?_, ?_, rfl⟩
  · unfold init
    simp only [hd, bind, Except.bind, hre, hts, pure, Except.pure]
    rw [if_pos hf]
    rfl
  · exact ⟨rebuild_facts r _ _ info hre, rfl, by dsimp only; omega, h2, mask, h3, h4, h5⟩

/-- **`iter_eq_spec`, YEARLY with BYWEEKNO on the complement of D-C01c** (a listed 52/53 comes with −1,
    a listed −52/−53 comes with 1): FREQ=YEARLY, INTERVAL ≥ 1, a valid start, any week start, any
    BYMONTH / BYMONTHDAY (non-zero) / BYYEARDAY / plain BYDAY / BYHOUR / BYMINUTE / BYSECOND / BYSETPOS, any
    COUNT / UNTIL, no nth BYDAY / BYEASTER: exactly the specification's recurrence set (weeks of at least four
    days, numbered from the start or the end of the week-year). -/
theorem iter_eq_spec_yearly_weekno (wa : WeeknoYArgs a) (h : construct a = .ok r) (n : Nat)
    (hy : a.dtstart.y + n * a.interval ≤ 9999) :
    (iter r n).1 = Spec.RRule.occ a n := by
  have hi := wa.interval
  have hlo : 1 ≤ a.dtstart.y := by
    have hv := wa.valid
    unfold DT.Valid ValidDate ValidYMD at hv
    omega
  have hmono : ∀ k : Nat, k ≤ n → (k : Int) * a.interval ≤ n * a.interval := by
    intro k hk; exact Int.mul_le_mul_of_nonneg_right (by omega) (by omega)
  have hn0 : (0 : Int) ≤ n * a.interval := Int.mul_nonneg (by omega) (by omega)
  have sim : Simulation a r n (WeeknoGood a r) := {
    agree := wy_cuts wa h
    results := fun k st _ hg => wy_results wa h k st hg
    next := fun k st fl c hk hg => wy_next wa h k st fl c hg (by have := hmono (k + 1) (by omega); omega) }
  obtain ⟨st0, hinit, hg0, hc0⟩ := wy_init wa h hlo (by omega)
  exact iter_refines sim st0 hinit hg0 hc0 n (by omega)

end RRule
