/-
  Proofs/TzStrParseAll.lean — `_tzparser.parse` on a rendered spelling.
-/
import DateutilVerif.Proofs.TzStrParseGate

namespace TzStr

theorem zipIdx_map_id (f : String × Nat → String) :
    ∀ (L : List String) (n : Nat), (∀ t ∈ L, ∀ k, f (t, k) = t) → (L.zipIdx n).map f = L := by
  intro L
  induction L with
  | nil => intro n _; rfl
  | cons a t ih =>
      intro n h
      simp only [List.zipIdx_cons, List.map_cons]
      rw [h a (by simp) n, ih (n + 1) (fun x hx k => h x (by simp [hx]) k)]

/-- the tokens of a spelling, segment by segment -/
theorem tokenList_eq (sp : Spelling) :
    tokenList sp = sp.std :: (toksOf sp.stdOff.chunks ++ (sp.dst :: (toksOf (optOffChunks sp.dstOff) ++
      ("," :: (toksOf sp.startRule.chunks ++ (toksOf (timeChunks sp.startTime) ++
        ("," :: (toksOf sp.endRule.chunks ++ toksOf (timeChunks sp.endTime))))))))) := by
  have ec : String.ofList [','] = "," := rfl
  simp only [tokenList, Spelling.chunks, toksOf_cons, toksOf_append, String.ofList_toList, pC, ec]

def Spelling.res (sp : Spelling) : Res :=
  { stdabbr := some sp.std, stdoffset := some sp.stdOff.val, dstabbr := some sp.dst,
    dstoffset := sp.dstOff.map Off.val,
    start := sp.startRule.attr (sp.startTime.map TimeSp.val),
    «end» := sp.endRule.attr (sp.endTime.map TimeSp.val), anyUnused := false }

theorem optOff_toks_ok (o : Option Off) (h : optOk (fun o : Off => o.sp.Ok) o) : ∀ t ∈ toksOf (optOffChunks o), TokOK t := by
  cases o with
  | none => intro t ht; simp [optOffChunks, toksOf] at ht
  | some o => exact off_toks_ok o h

theorem alpha_tokOK (a : String) (h : IsAlpha a) : TokOK a :=
  ⟨ne_lit a "," .alpha h.2 ',' (by decide) (by decide), alpha_ne_semi a h⟩

theorem parse_render (sp : Spelling) (wf : WellFormed sp) : parse (render sp) = .ok (some sp.res) := by
  unfold parse
  rw [tokens_render sp wf]
  have hL := tokenList_eq sp
  generalize hl0 : (tokenList sp).toArray = l at *
  have hlist : l.toList = tokenList sp := by rw [← hl0]
  rw [hL] at hlist
  -- per-segment token facts
  have o1 := off_toks_ok sp.stdOff wf.stdOff
  have o2 := optOff_toks_ok sp.dstOff wf.dstOff
  have r1 := rule_toks_ok sp.startRule wf.startRule
  have r2 := rule_toks_ok sp.endRule wf.endRule
  obtain ⟨t1, s1⟩ := time_toks_ok sp.startTime wf.startTime
  obtain ⟨t2, s2⟩ := time_toks_ok sp.endTime wf.endTime
  have cstd := alpha_tokOK sp.std wf.std
  have cdst := alpha_tokOK sp.dst wf.dst
  obtain ⟨st, a1, a2, a3, a4⟩ := abbrLoop_spec sp wf l _ hlist
  -- every token differs from ";"
  have hsemi : ∀ t ∈ l.toList, (t == ";") = false := by
    intro t ht
    rw [hlist] at ht
    simp only [List.mem_cons, List.mem_append] at ht
    rcases ht with e | e | e | e | e | e | e | e | e | e
    · subst e; exact cstd.2
    · exact (o1 t e).2
    · subst e; exact cdst.2
    · exact (o2 t e).2
    · subst e; decide
    · exact (r1 t e).1.1.2
    · exact (t1 t e).1.2
    · subst e; decide
    · exact (r2 t e).1.1.2
    · exact (t2 t e).1.2
  have hmap : (l.toList.zipIdx.map (fun (t, k) => if k ≥ st.i && t == ";" then "," else t)).toArray = l := by
    rw [zipIdx_map_id _ l.toList 0 (fun t ht k => by simp [hsemi t ht])]
  -- positions
  have hlist' : l.toList = (sp.std :: (toksOf sp.stdOff.chunks ++ (sp.dst :: toksOf (optOffChunks sp.dstOff)))) ++
      ("," :: (toksOf sp.startRule.chunks ++ (toksOf (timeChunks sp.startTime) ++
        ("," :: (toksOf sp.endRule.chunks ++ toksOf (timeChunks sp.endTime)))))) := by
    rw [hlist]; simp
  have hpre : (sp.std :: (toksOf sp.stdOff.chunks ++ (sp.dst :: toksOf (optOffChunks sp.dstOff)))).length = st.i := by
    rw [a2]; simp; omega
  have gcomma := get_at hlist' 0
  have hsz := size_at hlist'
  rw [hpre] at gcomma hsz
  simp only [List.getElem?_cons_zero, Nat.add_zero, List.length_cons] at gcomma hsz
  have hlt : st.i < l.size := by omega
  obtain ⟨_, _, ner1⟩ := rule_good sp.startRule wf.startRule
  have hr1len : 0 < (toksOf sp.startRule.chunks).length := by
    cases hc : sp.startRule.chunks with
    | nil => exact absurd hc ner1
    | cons q r => simp [toksOf]
  have hlt2 : ¬ (st.i + 1 ≥ l.size) := by rw [hsz]; simp only [List.length_append, List.length_cons]; omega
  -- commas
  have hcommas : (l.toList.filter (· == ",")).length = 2 := by
    rw [hlist]
    simp only [List.filter_cons, List.filter_append, cstd.1, cdst.1, Bool.false_eq_true, if_false,
      filter_nil_of (fun t ht => (o1 t ht).1), filter_nil_of (fun t ht => (o2 t ht).1),
      filter_nil_of (fun t ht => (r1 t ht).1.1.1), filter_nil_of (fun t ht => (t1 t ht).1.1),
      filter_nil_of (fun t ht => (r2 t ht).1.1.1), filter_nil_of (fun t ht => (t2 t ht).1.1)]
    simp
  -- the tokens after the first ","
  have hlist2 : l.toList = ((sp.std :: (toksOf sp.stdOff.chunks ++ (sp.dst :: toksOf (optOffChunks sp.dstOff)))) ++ [","]) ++
      (toksOf sp.startRule.chunks ++ (toksOf (timeChunks sp.startTime) ++
        ("," :: (toksOf sp.endRule.chunks ++ toksOf (timeChunks sp.endTime))))) := by
    rw [hlist]; simp
  have hrest : l.toList.drop (st.i + 1) = toksOf sp.startRule.chunks ++ (toksOf (timeChunks sp.startTime) ++
        ("," :: (toksOf sp.endRule.chunks ++ toksOf (timeChunks sp.endTime)))) := by
    have := drop_pre ((sp.std :: (toksOf sp.stdOff.chunks ++ (sp.dst :: toksOf (optOffChunks sp.dstOff)))) ++ [","])
      (toksOf sp.startRule.chunks ++ (toksOf (timeChunks sp.startTime) ++
        ("," :: (toksOf sp.endRule.chunks ++ toksOf (timeChunks sp.endTime)))))
    rw [← hlist2, List.length_append, hpre] at this
    simpa using this
  have hall : (l.toList.drop (st.i + 1)).all (fun x => inSet x [",", "/", "J", "M", ".", "-", ":"] || allCharsIn x "0123456789") = true := by
    rw [hrest, List.all_eq_true]
    intro x hx
    simp only [List.mem_cons, List.mem_append] at hx
    rcases hx with e | e | e | e | e
    · exact (r1 x e).1.2
    · exact (t1 x e).2
    · subst e; decide
    · exact (r2 x e).1.2
    · exact (t2 x e).2
  have hslash : ((l.toList.drop (st.i + 1)).filter (· == "/")).length ≤ 2 := by
    rw [hrest]
    simp only [List.filter_cons, List.filter_append, filter_nil_of (fun t ht => (r1 t ht).2),
      filter_nil_of (fun t ht => (r2 t ht).2), List.length_append, List.nil_append]
    have : ("," == "/") = false := by decide
    simp only [this, Bool.false_eq_true, if_false]
    omega
  -- the two rules
  have hc1 : Cov l { st with i := st.i + 1 } := by
    apply cov_step (st' := { st with i := st.i + 1 }) a4 (by simp) (fun k hk => hk)
    intro k h1 h2 _
    have : k = st.i := by simp at h2; omega
    right; left; rw [this]; exact gcomma
  obtain ⟨st1, b1, b2, b3, b4⟩ := stdRule_spec sp.startRule sp.startTime l _ _ { st with i := st.i + 1 } hlist2
    (by rw [List.length_append, hpre]; rfl) (Or.inr rfl) wf.startRule wf.startTime hc1
  have hlist3 : l.toList = (((sp.std :: (toksOf sp.stdOff.chunks ++ (sp.dst :: toksOf (optOffChunks sp.dstOff)))) ++ [","]) ++
      (toksOf sp.startRule.chunks ++ (toksOf (timeChunks sp.startTime) ++ [","]))) ++
      (toksOf sp.endRule.chunks ++ (toksOf (timeChunks sp.endTime) ++ [])) := by
    rw [hlist]; simp
  have hi2 : st1.i = (((sp.std :: (toksOf sp.stdOff.chunks ++ (sp.dst :: toksOf (optOffChunks sp.dstOff)))) ++ [","]) ++
      (toksOf sp.startRule.chunks ++ (toksOf (timeChunks sp.startTime) ++ [","]))).length := by
    rw [b2]
    generalize (sp.std :: (toksOf sp.stdOff.chunks ++ (sp.dst :: toksOf (optOffChunks sp.dstOff)))) = PRE
    simp only [List.length_append, List.length_cons, List.length_nil]; omega
  obtain ⟨st2, c1, c2, c3, c4⟩ := stdRule_spec sp.endRule sp.endTime l _ [] st1 hlist3
    hi2 (Or.inl rfl) wf.endRule wf.endTime b4
  have hsz3 := size_at hlist3
  have hend : ¬ (st2.i < l.size) := by
    rw [c2, hsz3]; simp only [List.length_append, List.length_cons, List.length_nil]; omega
  have h8 : ¬ (8 ≤ (l.toList.filter (· == ",")).length) := by rw [hcommas]; omega
  unfold parseTokens
  simp only [a1, hlt, if_true, hmap, gcomma, beq_self_eq_true]
  simp only [ge_iff_le, Nat.not_le.mpr (Nat.lt_of_not_le hlt2), if_false, h8, false_and, hcommas, hall, hslash,
    and_self, if_true, b1, c1, hend, decide_true, true_and, Bool.true_and]
  have h82 : ¬ ((8 : Nat) ≤ 2) := by decide
  simp only [h82, false_and, if_false, beq_self_eq_true, hall, hslash, and_self, if_true, b1, c1, hend, decide_true,
    true_and, Bool.true_and]
  have hany : ((List.range l.size).filter (fun k => !st2.used.contains k)).any
      (fun k => !(l[k]? == some "," || l[k]? == some ":")) = false := by
    rw [List.any_eq_false]
    intro k hk
    simp only [List.mem_filter, List.mem_range] at hk
    obtain ⟨hk1, hk2⟩ := hk
    rcases c4 k (by omega) hk1 with u | u | u
    · simp [u] at hk2
    · simp [u]
    · simp [u]
  have hres : st2.res = st.res := by rw [c3, b3]
  simp only [hany, hres, a3]
  rfl

end TzStr
