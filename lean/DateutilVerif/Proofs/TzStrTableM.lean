/- Proofs/TzStrTableM.lean — a whole finite table of TZ-string spellings, by kernel evaluation. -/
import DateutilVerif.Proofs.TzStrDefs

namespace C08
open TzStr Posix

theorem tableM : ∀ m : Fin 12, ∀ w : Fin 5, ∀ d : Fin 7,
    parsesTo ("AAA5BBB,M" ++ toString (m.val + 1) ++ "." ++ toString (w.val + 1) ++ "." ++ toString d.val ++ ",M10.5.0")
      (attrOf (.M (m.val + 1) (w.val + 1) d.val) none) = true := by decide +kernel

end C08
