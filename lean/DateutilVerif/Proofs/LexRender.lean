/-
  Proofs/LexRender.lean — lexing the pieces the renderings are made of, for any classification that agrees
  with Python's on ASCII: digit tokens, the separators, offset suffixes.
-/
import DateutilVerif.Proofs.RenderIsoX

namespace PM
open Py PT

section
variable (cls : Char → CClass) [AsciiOK cls]

theorem lex_dtok (k : Nat) (ks : List Nat) (rest : List Char) (he : NumEnds cls rest) :
    scan cls .init (dtok (k :: ks) ++ rest) = dtok (k :: ks) :: scan cls .init rest :=
  lex_num cls (digitChar k) (ks.map digitChar) rest (drun_dtok cls (k :: ks)) he

theorem lex_pad2 (n : Nat) (rest : List Char) (he : NumEnds cls rest) :
    scan cls .init (pad2 n ++ rest) = dtok [n / 10, n] :: scan cls .init rest := lex_dtok cls (n / 10) [n] rest he
theorem lex_pad4 (n : Nat) (rest : List Char) (he : NumEnds cls rest) :
    scan cls .init (pad4 n ++ rest) = dtok [n / 1000, n / 100, n / 10, n] :: scan cls .init rest :=
  lex_dtok cls (n / 1000) [n / 100, n / 10, n] rest he

/-- a single ASCII punctuation character -/
theorem lex_punct (c : Char) (rest : List Char)
    (h : (decide (c.toNat < 128) && decide (asciiCls c = .other) && decide (c ≠ '\x00')) = true) :
    scan cls .init (c :: rest) = [c] :: scan cls .init rest := by
  simp only [Bool.and_eq_true, decide_eq_true_eq] at h
  exact lex_other cls c rest (cls_other cls c (by simp [h.1.1, h.1.2])) h.2

theorem lex_sp (rest : List Char) : scan cls .init (' ' :: rest) = [' '] :: scan cls .init rest :=
  lex_space cls ' ' rest (cls_space cls ' ' (by decide)) (by decide)

/-- an ASCII word (given as a literal) followed by something that ends it -/
theorem lex_aword (a : Char) (as rest : List Char)
    (h : (a :: as).all (fun c => decide (c.toNat < 128) && (asciiCls c).isWord && decide (c ≠ '\x00')) = true)
    (he : WordEnds cls rest) : scan cls .init ((a :: as) ++ rest) = (a :: as) :: scan cls .init rest :=
  lex_word cls a as rest (arun_ascii cls _ h) he

theorem numEnds_nil : NumEnds cls [] := trivial
theorem fracEnds_nil : FracEnds cls [] := trivial
theorem wordEnds_nil : WordEnds cls [] := trivial
theorem wordEnds_dtok (k : Nat) (ks : List Nat) (r : List Char) : WordEnds cls (dtok (k :: ks) ++ r) :=
  wordEnds_digit cls k _
theorem wordEnds_pad2 (n : Nat) (r : List Char) : WordEnds cls (pad2 n ++ r) := wordEnds_digit cls _ _
theorem wordEnds_pad4 (n : Nat) (r : List Char) : WordEnds cls (pad4 n ++ r) := wordEnds_digit cls _ _

/-! ### offset suffixes -/

theorem numEnds_off (off : Off) : NumEnds cls off.render := by
  rcases off with _ | sp | _ | ⟨sp, neg, h⟩ | ⟨sp, neg, h, m⟩ | ⟨sp, neg, h, m⟩
  all_goals (try cases sp) <;> (try cases neg)
  all_goals first
    | exact trivial
    | exact numEnds_ascii cls _ _ (by decide)

theorem fracEnds_off (off : Off) : FracEnds cls off.render := by
  rcases off with _ | sp | _ | ⟨sp, neg, h⟩ | ⟨sp, neg, h, m⟩ | ⟨sp, neg, h, m⟩
  all_goals (try cases sp) <;> (try cases neg)
  all_goals first
    | exact trivial
    | exact fracEnds_ascii cls _ _ (by decide)

theorem lex_off (off : Off) : scan cls .init off.render = offTokens off := by
  have hZ : scan cls .init ['Z'] = [['Z']] := by
    have := lex_aword cls 'Z' [] [] (by decide) trivial
    simpa [scan_init_nil] using this
  have hUTC : scan cls .init ['U', 'T', 'C'] = [['U', 'T', 'C']] := by
    have := lex_aword cls 'U' ['T', 'C'] [] (by decide) trivial
    simpa [scan_init_nil] using this
  have h2 : ∀ n, scan cls .init (pad2 n) = [dtok [n / 10, n]] := by
    intro n
    have := lex_pad2 cls n [] trivial
    simpa [scan_init_nil] using this
  have h22 : ∀ a b, scan cls .init (pad2 a ++ pad2 b) = [dtok [a / 10, a, b / 10, b]] := by
    intro a b
    have := lex_dtok cls (a / 10) [a, b / 10, b] [] trivial
    simpa [scan_init_nil, pad2_dtok] using this
  have h2c2 : ∀ a b, scan cls .init (pad2 a ++ ':' :: pad2 b) = [dtok [a / 10, a], [':'], dtok [b / 10, b]] := by
    intro a b
    rw [lex_pad2 cls a _ (numEnds_ascii cls _ _ (by decide)), lex_punct cls ':' _ (by decide), h2]
  rcases off with _ | sp | _ | ⟨sp, neg, h⟩ | ⟨sp, neg, h, m⟩ | ⟨sp, neg, h, m⟩
  all_goals (try cases sp) <;> (try cases neg)
  all_goals simp only [Off.render, offTokens, spc, spT, sgn, List.nil_append, List.cons_append, List.append_assoc,
    Bool.false_eq_true, if_false, if_true, List.singleton_append]
  all_goals first
    | rfl
    | (rw [lex_sp, lex_punct cls _ _ (by decide), h2c2])
    | (rw [lex_punct cls _ _ (by decide), h2c2])
    | (rw [lex_sp, lex_punct cls _ _ (by decide), h22])
    | (rw [lex_punct cls _ _ (by decide), h22])
    | (rw [lex_sp, lex_punct cls _ _ (by decide), h2])
    | (rw [lex_punct cls _ _ (by decide), h2])
    | (rw [lex_sp, hUTC])
    | (rw [lex_sp, hZ])
    | (rw [hZ])

end
end PM
