/-
  Proofs/RDGenEq.lean — the functions re-translated from /repo's relativedelta.py on every run
  (Generated/RDOps.lean, translator harness/translate_rd.py, primitives Model/RDPy.lean) are EQUAL to the
  hand-written model (Model/RelativeDelta.lean) that the C03 / C09 / C16 theorems are stated about.
  An edit of the source that changes the behaviour of a translated method changes Generated/RDOps.lean
  and the corresponding `*_eq` theorem here stops checking (or the translation itself fails).
-/
import DateutilVerif.Generated.RDOps
import DateutilVerif.Proofs.RDApply
import DateutilVerif.Proofs.RDDiff

namespace RDG
open RDM RDP
set_option linter.unusedSimpArgs false

theorem bind_ok {α β : Type} (v : α) (f : α → Py.R β) : Except.bind (Except.ok v : Py.R α) f = f v := rfl
theorem bind_err {α β : Type} (e : Py.PyErr) (f : α → Py.R β) :
    Except.bind (Except.error e : Py.R α) f = Except.error e := rfl

theorem promote_eq (self : RD) (other : Temporal) :
    (if ((self.hasTime ≠ 0) ∧ (¬ (RDPy.isDatetime other = true))) then RDPy.dateToDatetime other else other)
      = promote self other := by
  unfold promote RDPy.isDatetime RDPy.dateToDatetime
  by_cases h : other.kind = Kind.date <;> simp [h]

/-- `other.replace(**repl)` with the dict `__add__` builds = the model's `replaced` -/
theorem replace_eq (self : RD) (o : Temporal) (y m d : Int) (h mi s u : Option Int)
    (hh : self.hour = h) (hm : self.minute = mi) (hs : self.second = s) (hu : self.microsecond = u) :
    RDPy.replace o { year := some y, month := some m, day := some d, hour := h, minute := mi, second := s,
                     microsecond := u }
      = (replaced self o.kind o.t y m d).map (fun t => { kind := o.kind, t := t }) := by
  subst hh hm hs hu
  unfold RDPy.replace replaced hasAbsTime
  simp only [Option.getD_some]
  split
  · rfl
  · split
    · rfl
    · split <;> rfl

theorem addTd_eq (x : Temporal) (δ : Int) :
    RDPy.addTd x δ = (addDelta x.kind x.t δ).map (fun t => { kind := x.kind, t := t }) := rfl

theorem timedelta_days (j : Int) : RDPy.timedelta j 0 0 0 0 = j * DT.usPerDay := by
  unfold RDPy.timedelta DT.usPerDay; omega

theorem addDelta_days (k : Kind) (t : DT) (j : Int) : addDelta k t (j * DT.usPerDay) = t.addDays j := by
  unfold addDelta
  cases k with
  | date =>
    simp only []
    have : j * DT.usPerDay / DT.usPerDay = j := by unfold DT.usPerDay; omega
    rw [this]
  | naive => rfl
  | aware z o => rfl

/-- the weekday step of the translated `__add__` = the model's `applyWeekday` -/
theorem weekday_some_eq (w : Int) (n : Option Int) (x : Temporal) :
    Except.bind
        (RDPy.addTd x
          (RDPy.timedelta
            (if orInt n 1 > 0 then (Py.iabs (orInt n 1) - 1) * 7 + (7 - RDPy.weekdayOf x + w) % 7
            else ((Py.iabs (orInt n 1) - 1) * 7 + (RDPy.weekdayOf x - w) % 7) * -1)
            0 0 0 0))
        (fun x_14 => Except.ok x_14)
    = (applyWeekday (some (w, n)) x.t).map (fun r => { kind := x.kind, t := r }) := by
  simp only [applyWeekday, addTd_eq, timedelta_days, addDelta_days]
  have e : (if orInt n 1 > 0 then (Py.iabs (orInt n 1) - 1) * 7 + (7 - RDPy.weekdayOf x + w) % 7
            else ((Py.iabs (orInt n 1) - 1) * 7 + (RDPy.weekdayOf x - w) % 7) * -1) = jumpDays w n x.t.weekday := by
    unfold jumpDays RDPy.weekdayOf
    split <;> omega
  rw [e]
  cases x.t.addDays (jumpDays w n x.t.weekday) <;> rfl

/-- what follows the month carry in the translated `__add__` = `applyTail` -/
theorem tail_eq (self : RD) (o : Temporal) (y m : Int) (h mi s u : Option Int)
    (hh : self.hour = h) (hm : self.minute = mi) (hs : self.second = s) (hu : self.microsecond = u) :
    (Except.bind (RDPy.monthrange1 y m) fun dim_5 =>
        Except.bind
          (RDPy.replace o
            { year := some y, month := some m, day := some (min dim_5 (orInt self.day o.t.d)),
              hour := h, minute := mi, second := s, microsecond := u })
          fun x_11 =>
          Except.bind
            (RDPy.addTd x_11
              (RDPy.timedelta
                (if ¬self.leapdays = 0 ∧ m > 2 ∧ Cal.isLeap y = true then self.days + self.leapdays
                else self.days)
                self.hours self.minutes self.seconds self.microseconds))
            fun x_12 =>
            (match self.weekday with
                | none => Except.ok x_12
                | some wd_ =>
                  Except.bind
                    (RDPy.addTd x_12
                      (RDPy.timedelta
                        (if orInt wd_.snd 1 > 0 then
                          (Py.iabs (orInt wd_.snd 1) - 1) * 7 + (7 - RDPy.weekdayOf x_12 + wd_.fst) % 7
                        else ((Py.iabs (orInt wd_.snd 1) - 1) * 7 + (RDPy.weekdayOf x_12 - wd_.fst) % 7) * -1)
                        0 0 0 0))
                    fun x_14 => Except.ok x_14).bind
              fun x_14 => Except.ok x_14)
    = applyTail self o.kind o.t y m := by
  unfold applyTail
  simp only [bind, pure, Except.pure]
  show Except.bind (RDM.monthrange1 y m) _ = _
  cases hmr : RDM.monthrange1 y m with
  | error e => rfl
  | ok dim =>
    simp only [bind_ok]
    rw [replace_eq self o y m _ h mi s u hh hm hs hu]
    cases hrep : replaced self o.kind o.t y m (min dim (orInt self.day o.t.d)) with
    | error e => rfl
    | ok base =>
      simp only [Except.map, bind_ok]
      rw [addTd_eq]
      have hd : RDPy.timedelta (if ¬self.leapdays = 0 ∧ m > 2 ∧ Cal.isLeap y = true then self.days + self.leapdays
                else self.days) self.hours self.minutes self.seconds self.microseconds
          = deltaMicros self (daysWithLeap self y m) := by
        unfold RDPy.timedelta deltaMicros daysWithLeap; rfl
      rw [hd]
      cases hadd : addDelta o.kind base (deltaMicros self (daysWithLeap self y m)) with
      | error e => rfl
      | ok ret =>
        simp only [Except.map, bind_ok]
        cases hw : self.weekday with
        | none => rfl
        | some p =>
          obtain ⟨w, n⟩ := p
          simp only []
          rw [weekday_some_eq w n { kind := o.kind, t := ret }]
          cases applyWeekday (some (w, n)) ret <;> rfl

theorem addDt_eq (self : RD) (other : Temporal) : Gen.addDt self other = applyTo self other := by
  unfold Gen.addDt applyTo
  cases hh : self.hour <;> cases hm : self.minute <;> cases hs : self.second <;> cases hu : self.microsecond
  all_goals
    simp only [promote_eq, ne_eq, not_true_eq_false, not_false_eq_true, ↓reduceIte, reduceCtorEq, bind, RDPy.orOpt]
    generalize promote self other = o
    unfold ymCarry
    by_cases h0 : self.months = 0
    · simp only [h0, not_true_eq_false, ↓reduceIte, bind_ok, ne_eq]
      exact tail_eq self o _ _ _ _ _ _ hh hm hs hu
    · simp only [h0, not_false_eq_true, ↓reduceIte, ne_eq]
      by_cases h1 : (1 ≤ Py.iabs self.months ∧ Py.iabs self.months ≤ 12)
      · simp only [h1, and_self, not_true_eq_false, ↓reduceIte]
        by_cases h2 : orInt self.month o.t.m + self.months > 12
        · simp only [h2, ↓reduceIte, bind_ok]
          exact tail_eq self o _ _ _ _ _ _ hh hm hs hu
        · by_cases h3 : orInt self.month o.t.m + self.months < 1
          · simp only [h2, h3, ↓reduceIte, bind_ok]
            exact tail_eq self o _ _ _ _ _ _ hh hm hs hu
          · simp only [h2, h3, ↓reduceIte, bind_ok]
            exact tail_eq self o _ _ _ _ _ _ hh hm hs hu
      · simp only [h1, not_false_eq_true, ↓reduceIte, bind_err]

theorem truthy_none : RDPy.truthyOpt none = False := by unfold RDPy.truthyOpt; simp

/-- the translated keyword constructor on the arguments the operators pass (a weekday OBJECT or None,
    no yearday / nlyearday): it cannot raise and ends in the translated `_fix` -/
theorem initKw_plain (kw : Kw) (w : Option (Int × Option Int)) (hw : kw.weekday = RDPy.wdArgOfObj w)
    (hy : kw.yearday = none) (hn : kw.nlyearday = none) :
    Gen.initKw kw = .ok (Gen.fix
      { years := kw.years, months := kw.months, days := kw.days + kw.weeks * 7, leapdays := kw.leapdays,
        hours := kw.hours, minutes := kw.minutes, seconds := kw.seconds, microseconds := kw.microseconds,
        year := kw.year, month := kw.month, day := kw.day, weekday := w, hour := kw.hour, minute := kw.minute,
        second := kw.second, microsecond := kw.microsecond, hasTime := 0 }) := by
  unfold Gen.initKw
  have hi : RDPy.isIntArg kw.weekday = false := by
    rw [hw]; cases w <;> rfl
  have hwd : RDPy.wdOfArg kw.weekday = w := by
    rw [hw]; cases w <;> rfl
  simp only [hy, hn, hi, hwd, truthy_none, ne_eq, not_true_eq_false, or_self, ↓reduceIte, bind_ok,
    Bool.false_eq_true]

theorem neg_eq (self : RD) : Gen.neg self = .ok (RDM.neg self) := by
  unfold Gen.neg
  rw [initKw_plain _ self.weekday rfl rfl rfl]
  unfold RDM.neg
  simp only [bind_ok, Int.zero_mul, Int.add_zero]

theorem abs_eq (self : RD) : Gen.abs self = .ok (RDM.abs self) := by
  unfold Gen.abs
  rw [initKw_plain _ self.weekday rfl rfl rfl]
  unfold RDM.abs
  simp only [bind_ok, Int.zero_mul, Int.add_zero]

theorem mulInt_eq (self : RD) (k : Int) : Gen.mulInt self k = .ok (RDM.mulInt self k) := by
  unfold Gen.mulInt
  simp only []
  rw [initKw_plain _ self.weekday rfl rfl rfl]
  unfold RDM.mulInt
  simp only [bind_ok, Int.zero_mul, Int.add_zero]

theorem addTd_rd_eq (self : RD) (d s u : Int) : Gen.addTd self d s u = .ok (RDM.addTimedelta self d s u) := by
  unfold Gen.addTd
  rw [initKw_plain _ self.weekday rfl rfl rfl]
  unfold RDM.addTimedelta
  simp only [bind_ok, Int.zero_mul, Int.add_zero]

theorem firstSome_eq {α} (a b : Option α) : (if a ≠ none then a else b) = firstSome a b := by
  cases a <;> rfl

theorem addRd_eq (self other : RD) : Gen.addRd self other = .ok (RDM.add self other) := by
  unfold Gen.addRd
  rw [initKw_plain _ (if other.weekday ≠ none then other.weekday else self.weekday) rfl rfl rfl]
  unfold RDM.add
  simp only [bind_ok, Int.zero_mul, Int.add_zero, firstSome_eq, RDPy.orInts]

theorem subRd_eq (self other : RD) : Gen.subRd self other = .ok (RDM.sub self other) := by
  unfold Gen.subRd
  rw [initKw_plain _ (if self.weekday ≠ none then self.weekday else other.weekday) rfl rfl rfl]
  unfold RDM.sub
  simp only [bind_ok, Int.zero_mul, Int.add_zero, firstSome_eq, RDPy.orInts]

theorem raddDt_eq (self : RD) (x : Temporal) : Gen.raddDt self x = RDM.radd self x := by
  unfold Gen.raddDt RDM.radd
  rw [addDt_eq]
  cases applyTo self x <;> rfl

theorem rsubDt_eq (self : RD) (x : Temporal) : Gen.rsubDt self x = RDM.rsub self x := by
  unfold Gen.rsubDt RDM.rsub
  rw [neg_eq, bind_ok, raddDt_eq]
  cases RDM.radd (RDM.neg self) x <;> rfl

theorem hashKey_eq (self : RD) : Gen.hashKey self = .ok (RDM.hashList self) := by
  unfold Gen.hashKey RDM.hashList
  cases self.weekday <;> rfl

/-- the hashed tuple in source order carries the same information as the grouped `hashKey` -/
theorem hashList_eq_iff (a b : RD) : hashList a = hashList b ↔ hashKey a = hashKey b := by
  unfold hashList hashKey
  simp only [List.cons.injEq, HashElt.wd.injEq, HashElt.int.injEq, HashElt.opt.injEq, and_true, Prod.mk.injEq]
  constructor
  · rintro ⟨h0, h1, h2, h3, h4, h5, h6, h7, h8, h9, h10, h11, h12, h13, h14, h15⟩
    exact ⟨h0, ⟨h1, h2, h3, h4, h5, h6, h7, h8⟩, ⟨h9, h10, h11, h12, h13, h14, h15⟩⟩
  · rintro ⟨h0, ⟨h1, h2, h3, h4, h5, h6, h7, h8⟩, ⟨h9, h10, h11, h12, h13, h14, h15⟩⟩
    exact ⟨h0, h1, h2, h3, h4, h5, h6, h7, h8, h9, h10, h11, h12, h13, h14, h15⟩

theorem bool_eq (self : RD) : Gen.bool self = .ok (RDM.bool self) := by
  unfold Gen.bool RDM.bool
  congr 1
  rw [Bool.eq_iff_iff]
  simp only [ne_eq, Decidable.not_not, decide_eq_true_eq, Bool.not_eq_true', Bool.and_eq_false_imp, Bool.and_eq_true,
    beq_iff_eq, Option.isNone_iff_eq_none, Bool.not_eq_eq_eq_not, Bool.not_true, and_assoc]
  constructor
  · intro h a
    cases hm : self.microsecond.isNone with
    | false => rfl
    | true =>
      obtain ⟨a1, a2, a3, a4, a5, a6, a7, a8, a9, a10, a11, a12, a13, a14, a15⟩ := a
      exact absurd ⟨a1, a2, a3, a4, a5, a6, a7, a8, a9, a10, a11, a12, a13, a14, a15, Option.isNone_iff_eq_none.1 hm⟩ h
  · intro h hc
    obtain ⟨a1, a2, a3, a4, a5, a6, a7, a8, a9, a10, a11, a12, a13, a14, a15, a16⟩ := hc
    have := h ⟨a1, a2, a3, a4, a5, a6, a7, a8, a9, a10, a11, a12, a13, a14, a15⟩
    rw [a16] at this; contradiction

theorem fields_eq (a b : RD) :
    decide ((a.years = b.years) ∧ (a.months = b.months) ∧ (a.days = b.days) ∧ (a.hours = b.hours) ∧
      (a.minutes = b.minutes) ∧ (a.seconds = b.seconds) ∧ (a.microseconds = b.microseconds) ∧
      (a.leapdays = b.leapdays) ∧ (a.year = b.year) ∧ (a.month = b.month) ∧ (a.day = b.day) ∧ (a.hour = b.hour) ∧
      (a.minute = b.minute) ∧ (a.second = b.second) ∧ (a.microsecond = b.microsecond))
    = (a.years == b.years && a.months == b.months && a.days == b.days &&
   a.hours == b.hours && a.minutes == b.minutes && a.seconds == b.seconds &&
   a.microseconds == b.microseconds && a.leapdays == b.leapdays &&
   a.year == b.year && a.month == b.month && a.day == b.day &&
   a.hour == b.hour && a.minute == b.minute && a.second == b.second &&
   a.microsecond == b.microsecond) := by
  rw [Bool.eq_iff_iff]
  simp only [decide_eq_true_eq, Bool.and_eq_true, beq_iff_eq, and_assoc]

theorem truthy_iff (n : Option Int) : ¬ RDPy.truthyOpt n ∨ n = some 1 ↔ nTrivial n = true := by
  unfold RDPy.truthyOpt nTrivial
  cases n with
  | none => simp
  | some v => by_cases h0 : v = 0 <;> by_cases h1 : v = 1 <;> simp [h0, h1]

theorem eq_eq (self other : RD) : Gen.eq self other = .ok (RDM.eq self other) := by
  unfold Gen.eq RDM.eq
  rw [fields_eq]
  generalize (self.years == other.years && self.months == other.months && self.days == other.days &&
   self.hours == other.hours && self.minutes == other.minutes && self.seconds == other.seconds &&
   self.microseconds == other.microseconds && self.leapdays == other.leapdays &&
   self.year == other.year && self.month == other.month && self.day == other.day &&
   self.hour == other.hour && self.minute == other.minute && self.second == other.second &&
   self.microsecond == other.microsecond) = F
  cases ha : self.weekday with
  | none =>
    cases hb : other.weekday with
    | none => simp [wdEq]
    | some q => simp [wdEq]
  | some p =>
    cases hb : other.weekday with
    | none => simp [wdEq]
    | some q =>
      obtain ⟨w1, n1⟩ := p; obtain ⟨w2, n2⟩ := q
      simp only [ne_eq, reduceCtorEq, not_false_eq_true, or_self, ↓reduceIte, not_true_eq_false, RDPy.wdWeekday,
        RDPy.wdN, bind_ok, wdEq]
      by_cases hw : w1 = w2
      · simp only [hw, not_true_eq_false, ↓reduceIte]
        by_cases hn : n1 = n2
        · simp [hn]
        · have t1 := truthy_iff n1; have t2 := truthy_iff n2
          by_cases c1 : nTrivial n1 = true <;> by_cases c2 : nTrivial n2 = true <;>
            simp_all
      · simp [hw]

theorem setMonths_setMonths (r : RD) (m m' : Int) : Gen.setMonths (Gen.setMonths r m) m' = Gen.setMonths r m' := by
  unfold Gen.setMonths
  simp only []

theorem setMonths_hasTime (m : Int) : (Gen.setMonths empty m).hasTime = 0 := by
  unfold Gen.setMonths empty; simp only []

/-- the result of `x + delta` has the kind of the (possibly promoted) operand -/
theorem applyTo_kind (d : RD) (x r : Temporal) (h : applyTo d x = .ok r) : r.kind = (promote d x).kind := by
  unfold applyTo applyTail at h
  simp only [bind, Except.bind, pure, Except.pure] at h
  repeat' split at h
  all_goals first | contradiction | (injection h with h; rw [← h])

theorem applyTo_setMonths_kind (m : Int) (x r : Temporal) (h : applyTo (Gen.setMonths empty m) x = .ok r) :
    r.kind = x.kind := by
  rw [applyTo_kind _ _ _ h]
  unfold promote; rw [setMonths_hasTime]; simp

theorem comparable_symm (a b : Kind) : comparable a b = comparable b a := by
  unfold comparable
  cases a <;> cases b <;> simp only []
  rename_i z o z' o'
  by_cases h : z = z' ∧ o = o'
  · rw [if_pos h, if_pos ⟨h.1.symm, h.2.symm⟩]
  · rw [if_neg h, if_neg (fun c => h ⟨c.1.symm, c.2.symm⟩)]

theorem mode_beq (utc : Bool) : ((if utc then Cmp.utc else Cmp.wall) == Cmp.utc) = utc := by
  cases utc <;> rfl

theorem dtLt_eq (off : Nat → DT → Int) (utc : Bool) (a b : Temporal)
    (h : comparable a.kind b.kind = (if utc then Cmp.utc else Cmp.wall)) :
    RDPy.dtLt off a b = .ok (decide (cmpKey off utc a < cmpKey off utc b)) := by
  unfold RDPy.dtLt
  rw [h]
  cases utc <;> rfl

theorem dtSub_eq (off : Nat → DT → Int) (utc : Bool) (a b : Temporal)
    (h : comparable a.kind b.kind = (if utc then Cmp.utc else Cmp.wall)) :
    RDPy.dtSub off a b = .ok (cmpKey off utc a - cmpKey off utc b) := by
  unfold RDPy.dtSub
  rw [h]
  cases utc <;> rfl

theorem cmpApply_eq (off : Nat → DT → Int) (utc up : Bool) (dt1 dtm : Temporal)
    (h : comparable dt1.kind dtm.kind = (if utc then Cmp.utc else Cmp.wall)) :
    RDPy.cmpApply off (if up then RDPy.CmpOp.gt else RDPy.CmpOp.lt) dt1 dtm
      = .ok (decide (if up then cmpKey off utc dtm < cmpKey off utc dt1 else cmpKey off utc dt1 < cmpKey off utc dtm)) := by
  cases up
  · simp only [Bool.false_eq_true, ↓reduceIte, RDPy.cmpApply]; exact dtLt_eq off utc dt1 dtm h
  · simp only [↓reduceIte, RDPy.cmpApply]; exact dtLt_eq off utc dtm dt1 (by rw [comparable_symm]; exact h)

/-- what the translated loop returns, as a function of the model's loop -/
def loopResult (r : Option (Py.R (Int × Temporal))) : Py.R (RD × Int × Temporal) :=
  match r with
  | none => .error .NotImplemented
  | some (.error e) => .error e
  | some (.ok (m, dtm)) => .ok (Gen.setMonths empty m, m, dtm)

theorem loop_eq (off : Nat → DT → Int) (utc : Bool) (up : Bool) (dt1 dt2 : Temporal)
    (hmode : comparable dt1.kind dt2.kind = (if utc then Cmp.utc else Cmp.wall)) :
    ∀ (fuel : Nat) (months : Int) (dtm : Temporal), dtm.kind = dt2.kind →
      Gen.initDiff_loop fuel off (Gen.setMonths empty months) months dtm
          (if up then RDPy.CmpOp.gt else RDPy.CmpOp.lt) dt1 dt2 (if up then 1 else -1)
        = loopResult (diffLoop (cmpKey off utc) fuel up dt1 dt2 months dtm) := by
  intro fuel
  induction fuel with
  | zero =>
    intro months dtm hk
    rw [Gen.initDiff_loop, diffLoop, cmpApply_eq off utc up dt1 dtm (by rw [hk]; exact hmode), bind_ok]
    by_cases hc : (if up = true then cmpKey off utc dtm < cmpKey off utc dt1 else cmpKey off utc dt1 < cmpKey off utc dtm)
    · simp only [hc, decide_true, ↓reduceIte, loopResult]
    · simp only [hc, decide_false, Bool.false_eq_true, ↓reduceIte, loopResult]
  | succ n ih =>
    intro months dtm hk
    rw [Gen.initDiff_loop, diffLoop, cmpApply_eq off utc up dt1 dtm (by rw [hk]; exact hmode), bind_ok]
    by_cases hc : (if up = true then cmpKey off utc dtm < cmpKey off utc dt1 else cmpKey off utc dt1 < cmpKey off utc dtm)
    · simp only [hc, decide_true, ↓reduceIte, setMonths_setMonths, raddDt_eq, RDM.radd]
      have em : (months + if up = true then 1 else -1) = (if up = true then months + 1 else months - 1) := by
        cases up <;> simp <;> omega
      rw [em]
      cases hr : applyTo (Gen.setMonths empty (if up = true then months + 1 else months - 1)) dt2 with
      | error e => simp only [bind_err, loopResult]
      | ok r =>
        simp only [bind_ok]
        exact ih _ r (applyTo_setMonths_kind _ _ _ hr)
    · simp only [hc, decide_false, Bool.false_eq_true, ↓reduceIte, loopResult]

theorem coerce_eq (dt1 dt2 : Temporal) :
    (if RDPy.isDatetime dt1 ≠ RDPy.isDatetime dt2 then
        (if ¬ (RDPy.isDatetime dt1 = true) then (RDPy.dateToDatetime dt1, dt2)
         else (dt1, if ¬ (RDPy.isDatetime dt2 = true) then RDPy.dateToDatetime dt2 else dt2))
     else (dt1, dt2)) = coerce dt1 dt2 := by
  unfold coerce RDPy.isDatetime RDPy.dateToDatetime
  cases h1 : dt1.kind <;> cases h2 : dt2.kind <;> simp

theorem coerce_eq' (dt1 dt2 : Temporal) :
    (if RDPy.isDatetime dt1 ≠ RDPy.isDatetime dt2 then
        ((if ¬ (RDPy.isDatetime dt1 = true) then (RDPy.dateToDatetime dt1, dt2)
          else (dt1, if ¬ (RDPy.isDatetime dt2 = true) then RDPy.dateToDatetime dt2 else dt2)).fst,
         (if ¬ (RDPy.isDatetime dt1 = true) then (RDPy.dateToDatetime dt1, dt2)
          else (dt1, if ¬ (RDPy.isDatetime dt2 = true) then RDPy.dateToDatetime dt2 else dt2)).snd)
     else (dt1, dt2)) = coerce dt1 dt2 := by
  unfold coerce RDPy.isDatetime RDPy.dateToDatetime
  cases h1 : dt1.kind <;> cases h2 : dt2.kind <;> simp

/-- out of fuel is the distinguished error of the translation -/
def ofOption (r : Option (Py.R RD)) : Py.R RD :=
  match r with
  | none => .error .NotImplemented
  | some x => x

theorem td_split (δ : Int) : RDPy.tdSeconds δ + RDPy.tdDays δ * 86400 = δ / 1000000 ∧ RDPy.tdMicroseconds δ = δ % 1000000 := by
  unfold RDPy.tdSeconds RDPy.tdDays RDPy.tdMicroseconds; omega

theorem initDiff_eq (off : Nat → DT → Int) (fuel : Nat) (a b : Temporal) :
    Gen.initDiff off fuel a b = ofOption (diffN off fuel a b) := by
  unfold Gen.initDiff diffN
  have he : ({} : RD) = empty := rfl
  simp only [coerce_eq', he, raddDt_eq, RDM.radd]
  generalize coerce a b = p
  obtain ⟨dt1, dt2⟩ := p
  simp only []
  generalize hm0 : ((dt1.t.y - dt2.t.y) * 12 + (dt1.t.m - dt2.t.m)) = m0
  cases hap : applyTo (Gen.setMonths empty m0) dt2 with
  | error e => rfl
  | ok dtm =>
    have hk := applyTo_setMonths_kind _ _ _ hap
    simp only [bind_ok]
    cases hc : comparable dt1.kind dt2.kind with
    | typeError =>
      have : RDPy.dtLt off dt1 dt2 = .error .TypeError := by unfold RDPy.dtLt; rw [hc]
      rw [this]; rfl
    | wall =>
      have hmode : comparable dt1.kind dt2.kind = (if false then Cmp.utc else Cmp.wall) := hc
      rw [dtLt_eq off false dt1 dt2 hmode, bind_ok]
      simp only []
      have e1 : (if decide (cmpKey off false dt1 < cmpKey off false dt2) = true then (RDPy.CmpOp.gt, (1 : Int)) else (RDPy.CmpOp.lt, -1)).fst
          = (if decide (cmpKey off false dt1 < cmpKey off false dt2) = true then RDPy.CmpOp.gt else RDPy.CmpOp.lt) := by
        split <;> rfl
      have e2 : (if decide (cmpKey off false dt1 < cmpKey off false dt2) = true then (RDPy.CmpOp.gt, (1 : Int)) else (RDPy.CmpOp.lt, -1)).snd
          = (if decide (cmpKey off false dt1 < cmpKey off false dt2) = true then 1 else -1) := by
        split <;> rfl
      rw [e1, e2, loop_eq off false _ dt1 dt2 hmode fuel m0 dtm hk]
      have hb : (Cmp.wall == Cmp.utc) = false := rfl
      rw [hb]
      cases hl : diffLoop (cmpKey off false) fuel (decide (cmpKey off false dt1 < cmpKey off false dt2)) dt1 dt2 m0 dtm with
      | none => rfl
      | some r =>
        cases r with
        | error e => rfl
        | ok q =>
          obtain ⟨m', dtm'⟩ := q
          simp only [loopResult, bind_ok, ofOption]
          have hk' : dtm'.kind = dt2.kind := by
            rcases diffLoop_result _ _ _ _ _ _ _ m' dtm' hl with h' | ⟨k, h'⟩
            · rw [h']; exact hk
            · exact applyTo_setMonths_kind _ _ _ h'
          rw [dtSub_eq off false dt1 dtm' (by rw [hk']; exact hmode), bind_ok]
          have ts := td_split (cmpKey off false dt1 - cmpKey off false dtm')
          rw [ts.1, ts.2]
    | utc =>
      have hmode : comparable dt1.kind dt2.kind = (if true then Cmp.utc else Cmp.wall) := hc
      rw [dtLt_eq off true dt1 dt2 hmode, bind_ok]
      simp only []
      have e1 : (if decide (cmpKey off true dt1 < cmpKey off true dt2) = true then (RDPy.CmpOp.gt, (1 : Int)) else (RDPy.CmpOp.lt, -1)).fst
          = (if decide (cmpKey off true dt1 < cmpKey off true dt2) = true then RDPy.CmpOp.gt else RDPy.CmpOp.lt) := by
        split <;> rfl
      have e2 : (if decide (cmpKey off true dt1 < cmpKey off true dt2) = true then (RDPy.CmpOp.gt, (1 : Int)) else (RDPy.CmpOp.lt, -1)).snd
          = (if decide (cmpKey off true dt1 < cmpKey off true dt2) = true then 1 else -1) := by
        split <;> rfl
      rw [e1, e2, loop_eq off true _ dt1 dt2 hmode fuel m0 dtm hk]
      have hb : (Cmp.utc == Cmp.utc) = true := rfl
      rw [hb]
      cases hl : diffLoop (cmpKey off true) fuel (decide (cmpKey off true dt1 < cmpKey off true dt2)) dt1 dt2 m0 dtm with
      | none => rfl
      | some r =>
        cases r with
        | error e => rfl
        | ok q =>
          obtain ⟨m', dtm'⟩ := q
          simp only [loopResult, bind_ok, ofOption]
          have hk' : dtm'.kind = dt2.kind := by
            rcases diffLoop_result _ _ _ _ _ _ _ m' dtm' hl with h' | ⟨k, h'⟩
            · rw [h']; exact hk
            · exact applyTo_setMonths_kind _ _ _ h'
          rw [dtSub_eq off true dt1 dtm' (by rw [hk']; exact hmode), bind_ok]
          have ts := td_split (cmpKey off true dt1 - cmpKey off true dtm')
          rw [ts.1, ts.2]

theorem map_ok {α β : Type} (f : α → β) (v : α) : Except.map f (Except.ok v : Py.R α) = .ok (f v) := rfl
theorem map_err {α β : Type} (f : α → β) (e : Py.PyErr) : Except.map f (Except.error e : Py.R α) = .error e := rfl

theorem bind_ite {α β : Type} (c : Prop) [Decidable c] (a b : Py.R α) (f : α → Py.R β) :
    Except.bind (if c then a else b) f = if c then Except.bind a f else Except.bind b f := by
  split <;> rfl
theorem map_ite {α β : Type} (c : Prop) [Decidable c] (a b : Py.R α) (f : α → β) :
    Except.map f (if c then a else b) = if c then Except.map f a else Except.map f b := by
  split <;> rfl

/-- the model's table scan, unfolded: the 12-way chain of the source's `for idx, ydays in enumerate(ydayidx)` -/
theorem scan_eq (yday : Int) :
    ydayLookup yday ydayidx 0 0 =
      (if yday ≤ 31 then .ok (1, yday) else if yday ≤ 59 then .ok (2, yday - 31) else if yday ≤ 90 then .ok (3, yday - 59)
       else if yday ≤ 120 then .ok (4, yday - 90) else if yday ≤ 151 then .ok (5, yday - 120)
       else if yday ≤ 181 then .ok (6, yday - 151) else if yday ≤ 212 then .ok (7, yday - 181)
       else if yday ≤ 243 then .ok (8, yday - 212) else if yday ≤ 273 then .ok (9, yday - 243)
       else if yday ≤ 304 then .ok (10, yday - 273) else if yday ≤ 334 then .ok (11, yday - 304)
       else if yday ≤ 366 then .ok (12, yday - 334) else .error .ValueError) := by
  simp only [ydayidx, ydayLookup, Int.reduceAdd, ↓reduceIte, Int.reduceEq]

/-- the unrolled scan of the translated constructor, for any way `G` of completing the record -/
theorem chain_lemma (yday : Int) (G : Option Int → Option Int → RD) :
    (if yday ≤ 31 then (Except.ok (Gen.fix (G (some 1) (some yday))) : Py.R RD)
     else if yday ≤ 59 then .ok (Gen.fix (G (some 2) (some (yday - 31))))
     else if yday ≤ 90 then .ok (Gen.fix (G (some 3) (some (yday - 59))))
     else if yday ≤ 120 then .ok (Gen.fix (G (some 4) (some (yday - 90))))
     else if yday ≤ 151 then .ok (Gen.fix (G (some 5) (some (yday - 120))))
     else if yday ≤ 181 then .ok (Gen.fix (G (some 6) (some (yday - 151))))
     else if yday ≤ 212 then .ok (Gen.fix (G (some 7) (some (yday - 181))))
     else if yday ≤ 243 then .ok (Gen.fix (G (some 8) (some (yday - 212))))
     else if yday ≤ 273 then .ok (Gen.fix (G (some 9) (some (yday - 243))))
     else if yday ≤ 304 then .ok (Gen.fix (G (some 10) (some (yday - 273))))
     else if yday ≤ 334 then .ok (Gen.fix (G (some 11) (some (yday - 304))))
     else if yday ≤ 366 then .ok (Gen.fix (G (some 12) (some (yday - 334))))
     else .error .ValueError)
    = Except.bind ((ydayLookup yday ydayidx 0 0).map (fun md => (some md.1, some md.2)))
        (fun x => .ok (Gen.fix (G x.1 x.2))) := by
  rw [scan_eq]
  simp only [map_ite, bind_ite, map_ok, map_err, bind_ok, bind_err]
theorem truthy_some (v : Int) : RDPy.truthyOpt (some v) ↔ v ≠ 0 := by
  unfold RDPy.truthyOpt; simp

theorem initKw_eq_nnn (kw : Kw)  (hn : kw.nlyearday = none) (hy : kw.yearday = none) (hw : kw.weekday = none) :
    Gen.initKw kw = mk kw := by
  unfold Gen.initKw mk
  rw [hn, hy, hw]
  have _h := trivial
  all_goals
    simp only [truthy_none, truthy_some, RDPy.optVal, Option.getD_some, orInt, RDPy.isIntArg, RDPy.wdOfArg,
      RDPy.weekdaysGet, weekdayOfArg, ne_eq, not_true_eq_false, or_self, ↓reduceIte, bind_ok, bind, pure, Except.pure,
      Bool.false_eq_true]
  all_goals (try (by_cases hi : i < -7 ∨ i ≥ 7))
  all_goals (try (by_cases h0 : nv = 0))
  all_goals (try (by_cases h1 : yv = 0))
  all_goals (try (by_cases h2 : 59 < yv ∧ yv < 366))
  all_goals
    simp only [*, not_true_eq_false, not_false_eq_true, ↓reduceIte, map_ok, map_err, bind_ok, bind_err, true_and,
      and_true, and_self, and_false, false_and, Int.lt_irrefl, gt_iff_lt, if_false_left, if_true_left]
  all_goals first
    | exact chain_lemma _ (fun m d => ({ years := kw.years, months := kw.months, days := kw.days + kw.weeks * 7, leapdays := kw.leapdays, hours := kw.hours, minutes := kw.minutes, seconds := kw.seconds, microseconds := kw.microseconds, year := kw.year, month := m, day := d, weekday := none, hour := kw.hour, minute := kw.minute, second := kw.second, microsecond := kw.microsecond } : RD))
    | exact chain_lemma _ (fun m d => ({ years := kw.years, months := kw.months, days := kw.days + kw.weeks * 7, leapdays := kw.leapdays, hours := kw.hours, minutes := kw.minutes, seconds := kw.seconds, microseconds := kw.microseconds, year := kw.year, month := m, day := d, weekday := some (w, n), hour := kw.hour, minute := kw.minute, second := kw.second, microsecond := kw.microsecond } : RD))
    | exact chain_lemma _ (fun m d => ({ years := kw.years, months := kw.months, days := kw.days + kw.weeks * 7, leapdays := kw.leapdays, hours := kw.hours, minutes := kw.minutes, seconds := kw.seconds, microseconds := kw.microseconds, year := kw.year, month := m, day := d, weekday := some (if i < 0 then i + 7 else i, none), hour := kw.hour, minute := kw.minute, second := kw.second, microsecond := kw.microsecond } : RD))
    | exact chain_lemma _ (fun m d => ({ years := kw.years, months := kw.months, days := kw.days + kw.weeks * 7, leapdays := -1, hours := kw.hours, minutes := kw.minutes, seconds := kw.seconds, microseconds := kw.microseconds, year := kw.year, month := m, day := d, weekday := none, hour := kw.hour, minute := kw.minute, second := kw.second, microsecond := kw.microsecond } : RD))
    | exact chain_lemma _ (fun m d => ({ years := kw.years, months := kw.months, days := kw.days + kw.weeks * 7, leapdays := -1, hours := kw.hours, minutes := kw.minutes, seconds := kw.seconds, microseconds := kw.microseconds, year := kw.year, month := m, day := d, weekday := some (w, n), hour := kw.hour, minute := kw.minute, second := kw.second, microsecond := kw.microsecond } : RD))
    | exact chain_lemma _ (fun m d => ({ years := kw.years, months := kw.months, days := kw.days + kw.weeks * 7, leapdays := -1, hours := kw.hours, minutes := kw.minutes, seconds := kw.seconds, microseconds := kw.microseconds, year := kw.year, month := m, day := d, weekday := some (if i < 0 then i + 7 else i, none), hour := kw.hour, minute := kw.minute, second := kw.second, microsecond := kw.microsecond } : RD))


theorem initKw_eq_nni (kw : Kw) (i : Int) (hn : kw.nlyearday = none) (hy : kw.yearday = none) (hw : kw.weekday = some (WdArg.int i)) :
    Gen.initKw kw = mk kw := by
  unfold Gen.initKw mk
  rw [hn, hy, hw]
  have _h := trivial
  all_goals
    simp only [truthy_none, truthy_some, RDPy.optVal, Option.getD_some, orInt, RDPy.isIntArg, RDPy.wdOfArg,
      RDPy.weekdaysGet, weekdayOfArg, ne_eq, not_true_eq_false, or_self, ↓reduceIte, bind_ok, bind, pure, Except.pure,
      Bool.false_eq_true]
  all_goals (try (by_cases hi : i < -7 ∨ i ≥ 7))
  all_goals (try (by_cases h0 : nv = 0))
  all_goals (try (by_cases h1 : yv = 0))
  all_goals (try (by_cases h2 : 59 < yv ∧ yv < 366))
  all_goals
    simp only [*, not_true_eq_false, not_false_eq_true, ↓reduceIte, map_ok, map_err, bind_ok, bind_err, true_and,
      and_true, and_self, and_false, false_and, Int.lt_irrefl, gt_iff_lt, if_false_left, if_true_left]
  all_goals first
    | exact chain_lemma _ (fun m d => ({ years := kw.years, months := kw.months, days := kw.days + kw.weeks * 7, leapdays := kw.leapdays, hours := kw.hours, minutes := kw.minutes, seconds := kw.seconds, microseconds := kw.microseconds, year := kw.year, month := m, day := d, weekday := none, hour := kw.hour, minute := kw.minute, second := kw.second, microsecond := kw.microsecond } : RD))
    | exact chain_lemma _ (fun m d => ({ years := kw.years, months := kw.months, days := kw.days + kw.weeks * 7, leapdays := kw.leapdays, hours := kw.hours, minutes := kw.minutes, seconds := kw.seconds, microseconds := kw.microseconds, year := kw.year, month := m, day := d, weekday := some (w, n), hour := kw.hour, minute := kw.minute, second := kw.second, microsecond := kw.microsecond } : RD))
    | exact chain_lemma _ (fun m d => ({ years := kw.years, months := kw.months, days := kw.days + kw.weeks * 7, leapdays := kw.leapdays, hours := kw.hours, minutes := kw.minutes, seconds := kw.seconds, microseconds := kw.microseconds, year := kw.year, month := m, day := d, weekday := some (if i < 0 then i + 7 else i, none), hour := kw.hour, minute := kw.minute, second := kw.second, microsecond := kw.microsecond } : RD))
    | exact chain_lemma _ (fun m d => ({ years := kw.years, months := kw.months, days := kw.days + kw.weeks * 7, leapdays := -1, hours := kw.hours, minutes := kw.minutes, seconds := kw.seconds, microseconds := kw.microseconds, year := kw.year, month := m, day := d, weekday := none, hour := kw.hour, minute := kw.minute, second := kw.second, microsecond := kw.microsecond } : RD))
    | exact chain_lemma _ (fun m d => ({ years := kw.years, months := kw.months, days := kw.days + kw.weeks * 7, leapdays := -1, hours := kw.hours, minutes := kw.minutes, seconds := kw.seconds, microseconds := kw.microseconds, year := kw.year, month := m, day := d, weekday := some (w, n), hour := kw.hour, minute := kw.minute, second := kw.second, microsecond := kw.microsecond } : RD))
    | exact chain_lemma _ (fun m d => ({ years := kw.years, months := kw.months, days := kw.days + kw.weeks * 7, leapdays := -1, hours := kw.hours, minutes := kw.minutes, seconds := kw.seconds, microseconds := kw.microseconds, year := kw.year, month := m, day := d, weekday := some (if i < 0 then i + 7 else i, none), hour := kw.hour, minute := kw.minute, second := kw.second, microsecond := kw.microsecond } : RD))


theorem initKw_eq_nno (kw : Kw) (w : Int) (n : Option Int) (hn : kw.nlyearday = none) (hy : kw.yearday = none) (hw : kw.weekday = some (WdArg.obj w n)) :
    Gen.initKw kw = mk kw := by
  unfold Gen.initKw mk
  rw [hn, hy, hw]
  have _h := trivial
  all_goals
    simp only [truthy_none, truthy_some, RDPy.optVal, Option.getD_some, orInt, RDPy.isIntArg, RDPy.wdOfArg,
      RDPy.weekdaysGet, weekdayOfArg, ne_eq, not_true_eq_false, or_self, ↓reduceIte, bind_ok, bind, pure, Except.pure,
      Bool.false_eq_true]
  all_goals (try (by_cases hi : i < -7 ∨ i ≥ 7))
  all_goals (try (by_cases h0 : nv = 0))
  all_goals (try (by_cases h1 : yv = 0))
  all_goals (try (by_cases h2 : 59 < yv ∧ yv < 366))
  all_goals
    simp only [*, not_true_eq_false, not_false_eq_true, ↓reduceIte, map_ok, map_err, bind_ok, bind_err, true_and,
      and_true, and_self, and_false, false_and, Int.lt_irrefl, gt_iff_lt, if_false_left, if_true_left]
  all_goals first
    | exact chain_lemma _ (fun m d => ({ years := kw.years, months := kw.months, days := kw.days + kw.weeks * 7, leapdays := kw.leapdays, hours := kw.hours, minutes := kw.minutes, seconds := kw.seconds, microseconds := kw.microseconds, year := kw.year, month := m, day := d, weekday := none, hour := kw.hour, minute := kw.minute, second := kw.second, microsecond := kw.microsecond } : RD))
    | exact chain_lemma _ (fun m d => ({ years := kw.years, months := kw.months, days := kw.days + kw.weeks * 7, leapdays := kw.leapdays, hours := kw.hours, minutes := kw.minutes, seconds := kw.seconds, microseconds := kw.microseconds, year := kw.year, month := m, day := d, weekday := some (w, n), hour := kw.hour, minute := kw.minute, second := kw.second, microsecond := kw.microsecond } : RD))
    | exact chain_lemma _ (fun m d => ({ years := kw.years, months := kw.months, days := kw.days + kw.weeks * 7, leapdays := kw.leapdays, hours := kw.hours, minutes := kw.minutes, seconds := kw.seconds, microseconds := kw.microseconds, year := kw.year, month := m, day := d, weekday := some (if i < 0 then i + 7 else i, none), hour := kw.hour, minute := kw.minute, second := kw.second, microsecond := kw.microsecond } : RD))
    | exact chain_lemma _ (fun m d => ({ years := kw.years, months := kw.months, days := kw.days + kw.weeks * 7, leapdays := -1, hours := kw.hours, minutes := kw.minutes, seconds := kw.seconds, microseconds := kw.microseconds, year := kw.year, month := m, day := d, weekday := none, hour := kw.hour, minute := kw.minute, second := kw.second, microsecond := kw.microsecond } : RD))
    | exact chain_lemma _ (fun m d => ({ years := kw.years, months := kw.months, days := kw.days + kw.weeks * 7, leapdays := -1, hours := kw.hours, minutes := kw.minutes, seconds := kw.seconds, microseconds := kw.microseconds, year := kw.year, month := m, day := d, weekday := some (w, n), hour := kw.hour, minute := kw.minute, second := kw.second, microsecond := kw.microsecond } : RD))
    | exact chain_lemma _ (fun m d => ({ years := kw.years, months := kw.months, days := kw.days + kw.weeks * 7, leapdays := -1, hours := kw.hours, minutes := kw.minutes, seconds := kw.seconds, microseconds := kw.microseconds, year := kw.year, month := m, day := d, weekday := some (if i < 0 then i + 7 else i, none), hour := kw.hour, minute := kw.minute, second := kw.second, microsecond := kw.microsecond } : RD))


theorem initKw_eq_nyn (kw : Kw) (yv : Int) (hn : kw.nlyearday = none) (hy : kw.yearday = some yv) (hw : kw.weekday = none) :
    Gen.initKw kw = mk kw := by
  unfold Gen.initKw mk
  rw [hn, hy, hw]
  have _h := trivial
  all_goals
    simp only [truthy_none, truthy_some, RDPy.optVal, Option.getD_some, orInt, RDPy.isIntArg, RDPy.wdOfArg,
      RDPy.weekdaysGet, weekdayOfArg, ne_eq, not_true_eq_false, or_self, ↓reduceIte, bind_ok, bind, pure, Except.pure,
      Bool.false_eq_true]
  all_goals (try (by_cases hi : i < -7 ∨ i ≥ 7))
  all_goals (try (by_cases h0 : nv = 0))
  all_goals (try (by_cases h1 : yv = 0))
  all_goals (try (by_cases h2 : 59 < yv ∧ yv < 366))
  all_goals
    simp only [*, not_true_eq_false, not_false_eq_true, ↓reduceIte, map_ok, map_err, bind_ok, bind_err, true_and,
      and_true, and_self, and_false, false_and, Int.lt_irrefl, gt_iff_lt, if_false_left, if_true_left]
  all_goals first
    | exact chain_lemma _ (fun m d => ({ years := kw.years, months := kw.months, days := kw.days + kw.weeks * 7, leapdays := kw.leapdays, hours := kw.hours, minutes := kw.minutes, seconds := kw.seconds, microseconds := kw.microseconds, year := kw.year, month := m, day := d, weekday := none, hour := kw.hour, minute := kw.minute, second := kw.second, microsecond := kw.microsecond } : RD))
    | exact chain_lemma _ (fun m d => ({ years := kw.years, months := kw.months, days := kw.days + kw.weeks * 7, leapdays := kw.leapdays, hours := kw.hours, minutes := kw.minutes, seconds := kw.seconds, microseconds := kw.microseconds, year := kw.year, month := m, day := d, weekday := some (w, n), hour := kw.hour, minute := kw.minute, second := kw.second, microsecond := kw.microsecond } : RD))
    | exact chain_lemma _ (fun m d => ({ years := kw.years, months := kw.months, days := kw.days + kw.weeks * 7, leapdays := kw.leapdays, hours := kw.hours, minutes := kw.minutes, seconds := kw.seconds, microseconds := kw.microseconds, year := kw.year, month := m, day := d, weekday := some (if i < 0 then i + 7 else i, none), hour := kw.hour, minute := kw.minute, second := kw.second, microsecond := kw.microsecond } : RD))
    | exact chain_lemma _ (fun m d => ({ years := kw.years, months := kw.months, days := kw.days + kw.weeks * 7, leapdays := -1, hours := kw.hours, minutes := kw.minutes, seconds := kw.seconds, microseconds := kw.microseconds, year := kw.year, month := m, day := d, weekday := none, hour := kw.hour, minute := kw.minute, second := kw.second, microsecond := kw.microsecond } : RD))
    | exact chain_lemma _ (fun m d => ({ years := kw.years, months := kw.months, days := kw.days + kw.weeks * 7, leapdays := -1, hours := kw.hours, minutes := kw.minutes, seconds := kw.seconds, microseconds := kw.microseconds, year := kw.year, month := m, day := d, weekday := some (w, n), hour := kw.hour, minute := kw.minute, second := kw.second, microsecond := kw.microsecond } : RD))
    | exact chain_lemma _ (fun m d => ({ years := kw.years, months := kw.months, days := kw.days + kw.weeks * 7, leapdays := -1, hours := kw.hours, minutes := kw.minutes, seconds := kw.seconds, microseconds := kw.microseconds, year := kw.year, month := m, day := d, weekday := some (if i < 0 then i + 7 else i, none), hour := kw.hour, minute := kw.minute, second := kw.second, microsecond := kw.microsecond } : RD))


theorem initKw_eq_nyi (kw : Kw) (yv : Int) (i : Int) (hn : kw.nlyearday = none) (hy : kw.yearday = some yv) (hw : kw.weekday = some (WdArg.int i)) :
    Gen.initKw kw = mk kw := by
  unfold Gen.initKw mk
  rw [hn, hy, hw]
  have _h := trivial
  all_goals
    simp only [truthy_none, truthy_some, RDPy.optVal, Option.getD_some, orInt, RDPy.isIntArg, RDPy.wdOfArg,
      RDPy.weekdaysGet, weekdayOfArg, ne_eq, not_true_eq_false, or_self, ↓reduceIte, bind_ok, bind, pure, Except.pure,
      Bool.false_eq_true]
  all_goals (try (by_cases hi : i < -7 ∨ i ≥ 7))
  all_goals (try (by_cases h0 : nv = 0))
  all_goals (try (by_cases h1 : yv = 0))
  all_goals (try (by_cases h2 : 59 < yv ∧ yv < 366))
  all_goals
    simp only [*, not_true_eq_false, not_false_eq_true, ↓reduceIte, map_ok, map_err, bind_ok, bind_err, true_and,
      and_true, and_self, and_false, false_and, Int.lt_irrefl, gt_iff_lt, if_false_left, if_true_left]
  all_goals first
    | exact chain_lemma _ (fun m d => ({ years := kw.years, months := kw.months, days := kw.days + kw.weeks * 7, leapdays := kw.leapdays, hours := kw.hours, minutes := kw.minutes, seconds := kw.seconds, microseconds := kw.microseconds, year := kw.year, month := m, day := d, weekday := none, hour := kw.hour, minute := kw.minute, second := kw.second, microsecond := kw.microsecond } : RD))
    | exact chain_lemma _ (fun m d => ({ years := kw.years, months := kw.months, days := kw.days + kw.weeks * 7, leapdays := kw.leapdays, hours := kw.hours, minutes := kw.minutes, seconds := kw.seconds, microseconds := kw.microseconds, year := kw.year, month := m, day := d, weekday := some (w, n), hour := kw.hour, minute := kw.minute, second := kw.second, microsecond := kw.microsecond } : RD))
    | exact chain_lemma _ (fun m d => ({ years := kw.years, months := kw.months, days := kw.days + kw.weeks * 7, leapdays := kw.leapdays, hours := kw.hours, minutes := kw.minutes, seconds := kw.seconds, microseconds := kw.microseconds, year := kw.year, month := m, day := d, weekday := some (if i < 0 then i + 7 else i, none), hour := kw.hour, minute := kw.minute, second := kw.second, microsecond := kw.microsecond } : RD))
    | exact chain_lemma _ (fun m d => ({ years := kw.years, months := kw.months, days := kw.days + kw.weeks * 7, leapdays := -1, hours := kw.hours, minutes := kw.minutes, seconds := kw.seconds, microseconds := kw.microseconds, year := kw.year, month := m, day := d, weekday := none, hour := kw.hour, minute := kw.minute, second := kw.second, microsecond := kw.microsecond } : RD))
    | exact chain_lemma _ (fun m d => ({ years := kw.years, months := kw.months, days := kw.days + kw.weeks * 7, leapdays := -1, hours := kw.hours, minutes := kw.minutes, seconds := kw.seconds, microseconds := kw.microseconds, year := kw.year, month := m, day := d, weekday := some (w, n), hour := kw.hour, minute := kw.minute, second := kw.second, microsecond := kw.microsecond } : RD))
    | exact chain_lemma _ (fun m d => ({ years := kw.years, months := kw.months, days := kw.days + kw.weeks * 7, leapdays := -1, hours := kw.hours, minutes := kw.minutes, seconds := kw.seconds, microseconds := kw.microseconds, year := kw.year, month := m, day := d, weekday := some (if i < 0 then i + 7 else i, none), hour := kw.hour, minute := kw.minute, second := kw.second, microsecond := kw.microsecond } : RD))


theorem initKw_eq_nyo (kw : Kw) (yv : Int) (w : Int) (n : Option Int) (hn : kw.nlyearday = none) (hy : kw.yearday = some yv) (hw : kw.weekday = some (WdArg.obj w n)) :
    Gen.initKw kw = mk kw := by
  unfold Gen.initKw mk
  rw [hn, hy, hw]
  have _h := trivial
  all_goals
    simp only [truthy_none, truthy_some, RDPy.optVal, Option.getD_some, orInt, RDPy.isIntArg, RDPy.wdOfArg,
      RDPy.weekdaysGet, weekdayOfArg, ne_eq, not_true_eq_false, or_self, ↓reduceIte, bind_ok, bind, pure, Except.pure,
      Bool.false_eq_true]
  all_goals (try (by_cases hi : i < -7 ∨ i ≥ 7))
  all_goals (try (by_cases h0 : nv = 0))
  all_goals (try (by_cases h1 : yv = 0))
  all_goals (try (by_cases h2 : 59 < yv ∧ yv < 366))
  all_goals
    simp only [*, not_true_eq_false, not_false_eq_true, ↓reduceIte, map_ok, map_err, bind_ok, bind_err, true_and,
      and_true, and_self, and_false, false_and, Int.lt_irrefl, gt_iff_lt, if_false_left, if_true_left]
  all_goals first
    | exact chain_lemma _ (fun m d => ({ years := kw.years, months := kw.months, days := kw.days + kw.weeks * 7, leapdays := kw.leapdays, hours := kw.hours, minutes := kw.minutes, seconds := kw.seconds, microseconds := kw.microseconds, year := kw.year, month := m, day := d, weekday := none, hour := kw.hour, minute := kw.minute, second := kw.second, microsecond := kw.microsecond } : RD))
    | exact chain_lemma _ (fun m d => ({ years := kw.years, months := kw.months, days := kw.days + kw.weeks * 7, leapdays := kw.leapdays, hours := kw.hours, minutes := kw.minutes, seconds := kw.seconds, microseconds := kw.microseconds, year := kw.year, month := m, day := d, weekday := some (w, n), hour := kw.hour, minute := kw.minute, second := kw.second, microsecond := kw.microsecond } : RD))
    | exact chain_lemma _ (fun m d => ({ years := kw.years, months := kw.months, days := kw.days + kw.weeks * 7, leapdays := kw.leapdays, hours := kw.hours, minutes := kw.minutes, seconds := kw.seconds, microseconds := kw.microseconds, year := kw.year, month := m, day := d, weekday := some (if i < 0 then i + 7 else i, none), hour := kw.hour, minute := kw.minute, second := kw.second, microsecond := kw.microsecond } : RD))
    | exact chain_lemma _ (fun m d => ({ years := kw.years, months := kw.months, days := kw.days + kw.weeks * 7, leapdays := -1, hours := kw.hours, minutes := kw.minutes, seconds := kw.seconds, microseconds := kw.microseconds, year := kw.year, month := m, day := d, weekday := none, hour := kw.hour, minute := kw.minute, second := kw.second, microsecond := kw.microsecond } : RD))
    | exact chain_lemma _ (fun m d => ({ years := kw.years, months := kw.months, days := kw.days + kw.weeks * 7, leapdays := -1, hours := kw.hours, minutes := kw.minutes, seconds := kw.seconds, microseconds := kw.microseconds, year := kw.year, month := m, day := d, weekday := some (w, n), hour := kw.hour, minute := kw.minute, second := kw.second, microsecond := kw.microsecond } : RD))
    | exact chain_lemma _ (fun m d => ({ years := kw.years, months := kw.months, days := kw.days + kw.weeks * 7, leapdays := -1, hours := kw.hours, minutes := kw.minutes, seconds := kw.seconds, microseconds := kw.microseconds, year := kw.year, month := m, day := d, weekday := some (if i < 0 then i + 7 else i, none), hour := kw.hour, minute := kw.minute, second := kw.second, microsecond := kw.microsecond } : RD))


theorem initKw_eq_ynn (kw : Kw) (nv : Int) (hn : kw.nlyearday = some nv) (hy : kw.yearday = none) (hw : kw.weekday = none) :
    Gen.initKw kw = mk kw := by
  unfold Gen.initKw mk
  rw [hn, hy, hw]
  have _h := trivial
  all_goals
    simp only [truthy_none, truthy_some, RDPy.optVal, Option.getD_some, orInt, RDPy.isIntArg, RDPy.wdOfArg,
      RDPy.weekdaysGet, weekdayOfArg, ne_eq, not_true_eq_false, or_self, ↓reduceIte, bind_ok, bind, pure, Except.pure,
      Bool.false_eq_true]
  all_goals (try (by_cases hi : i < -7 ∨ i ≥ 7))
  all_goals (try (by_cases h0 : nv = 0))
  all_goals (try (by_cases h1 : yv = 0))
  all_goals (try (by_cases h2 : 59 < yv ∧ yv < 366))
  all_goals
    simp only [*, not_true_eq_false, not_false_eq_true, ↓reduceIte, map_ok, map_err, bind_ok, bind_err, true_and,
      and_true, and_self, and_false, false_and, Int.lt_irrefl, gt_iff_lt, if_false_left, if_true_left]
  all_goals first
    | exact chain_lemma _ (fun m d => ({ years := kw.years, months := kw.months, days := kw.days + kw.weeks * 7, leapdays := kw.leapdays, hours := kw.hours, minutes := kw.minutes, seconds := kw.seconds, microseconds := kw.microseconds, year := kw.year, month := m, day := d, weekday := none, hour := kw.hour, minute := kw.minute, second := kw.second, microsecond := kw.microsecond } : RD))
    | exact chain_lemma _ (fun m d => ({ years := kw.years, months := kw.months, days := kw.days + kw.weeks * 7, leapdays := kw.leapdays, hours := kw.hours, minutes := kw.minutes, seconds := kw.seconds, microseconds := kw.microseconds, year := kw.year, month := m, day := d, weekday := some (w, n), hour := kw.hour, minute := kw.minute, second := kw.second, microsecond := kw.microsecond } : RD))
    | exact chain_lemma _ (fun m d => ({ years := kw.years, months := kw.months, days := kw.days + kw.weeks * 7, leapdays := kw.leapdays, hours := kw.hours, minutes := kw.minutes, seconds := kw.seconds, microseconds := kw.microseconds, year := kw.year, month := m, day := d, weekday := some (if i < 0 then i + 7 else i, none), hour := kw.hour, minute := kw.minute, second := kw.second, microsecond := kw.microsecond } : RD))
    | exact chain_lemma _ (fun m d => ({ years := kw.years, months := kw.months, days := kw.days + kw.weeks * 7, leapdays := -1, hours := kw.hours, minutes := kw.minutes, seconds := kw.seconds, microseconds := kw.microseconds, year := kw.year, month := m, day := d, weekday := none, hour := kw.hour, minute := kw.minute, second := kw.second, microsecond := kw.microsecond } : RD))
    | exact chain_lemma _ (fun m d => ({ years := kw.years, months := kw.months, days := kw.days + kw.weeks * 7, leapdays := -1, hours := kw.hours, minutes := kw.minutes, seconds := kw.seconds, microseconds := kw.microseconds, year := kw.year, month := m, day := d, weekday := some (w, n), hour := kw.hour, minute := kw.minute, second := kw.second, microsecond := kw.microsecond } : RD))
    | exact chain_lemma _ (fun m d => ({ years := kw.years, months := kw.months, days := kw.days + kw.weeks * 7, leapdays := -1, hours := kw.hours, minutes := kw.minutes, seconds := kw.seconds, microseconds := kw.microseconds, year := kw.year, month := m, day := d, weekday := some (if i < 0 then i + 7 else i, none), hour := kw.hour, minute := kw.minute, second := kw.second, microsecond := kw.microsecond } : RD))


theorem initKw_eq_yni (kw : Kw) (nv : Int) (i : Int) (hn : kw.nlyearday = some nv) (hy : kw.yearday = none) (hw : kw.weekday = some (WdArg.int i)) :
    Gen.initKw kw = mk kw := by
  unfold Gen.initKw mk
  rw [hn, hy, hw]
  have _h := trivial
  all_goals
    simp only [truthy_none, truthy_some, RDPy.optVal, Option.getD_some, orInt, RDPy.isIntArg, RDPy.wdOfArg,
      RDPy.weekdaysGet, weekdayOfArg, ne_eq, not_true_eq_false, or_self, ↓reduceIte, bind_ok, bind, pure, Except.pure,
      Bool.false_eq_true]
  all_goals (try (by_cases hi : i < -7 ∨ i ≥ 7))
  all_goals (try (by_cases h0 : nv = 0))
  all_goals (try (by_cases h1 : yv = 0))
  all_goals (try (by_cases h2 : 59 < yv ∧ yv < 366))
  all_goals
    simp only [*, not_true_eq_false, not_false_eq_true, ↓reduceIte, map_ok, map_err, bind_ok, bind_err, true_and,
      and_true, and_self, and_false, false_and, Int.lt_irrefl, gt_iff_lt, if_false_left, if_true_left]
  all_goals first
    | exact chain_lemma _ (fun m d => ({ years := kw.years, months := kw.months, days := kw.days + kw.weeks * 7, leapdays := kw.leapdays, hours := kw.hours, minutes := kw.minutes, seconds := kw.seconds, microseconds := kw.microseconds, year := kw.year, month := m, day := d, weekday := none, hour := kw.hour, minute := kw.minute, second := kw.second, microsecond := kw.microsecond } : RD))
    | exact chain_lemma _ (fun m d => ({ years := kw.years, months := kw.months, days := kw.days + kw.weeks * 7, leapdays := kw.leapdays, hours := kw.hours, minutes := kw.minutes, seconds := kw.seconds, microseconds := kw.microseconds, year := kw.year, month := m, day := d, weekday := some (w, n), hour := kw.hour, minute := kw.minute, second := kw.second, microsecond := kw.microsecond } : RD))
    | exact chain_lemma _ (fun m d => ({ years := kw.years, months := kw.months, days := kw.days + kw.weeks * 7, leapdays := kw.leapdays, hours := kw.hours, minutes := kw.minutes, seconds := kw.seconds, microseconds := kw.microseconds, year := kw.year, month := m, day := d, weekday := some (if i < 0 then i + 7 else i, none), hour := kw.hour, minute := kw.minute, second := kw.second, microsecond := kw.microsecond } : RD))
    | exact chain_lemma _ (fun m d => ({ years := kw.years, months := kw.months, days := kw.days + kw.weeks * 7, leapdays := -1, hours := kw.hours, minutes := kw.minutes, seconds := kw.seconds, microseconds := kw.microseconds, year := kw.year, month := m, day := d, weekday := none, hour := kw.hour, minute := kw.minute, second := kw.second, microsecond := kw.microsecond } : RD))
    | exact chain_lemma _ (fun m d => ({ years := kw.years, months := kw.months, days := kw.days + kw.weeks * 7, leapdays := -1, hours := kw.hours, minutes := kw.minutes, seconds := kw.seconds, microseconds := kw.microseconds, year := kw.year, month := m, day := d, weekday := some (w, n), hour := kw.hour, minute := kw.minute, second := kw.second, microsecond := kw.microsecond } : RD))
    | exact chain_lemma _ (fun m d => ({ years := kw.years, months := kw.months, days := kw.days + kw.weeks * 7, leapdays := -1, hours := kw.hours, minutes := kw.minutes, seconds := kw.seconds, microseconds := kw.microseconds, year := kw.year, month := m, day := d, weekday := some (if i < 0 then i + 7 else i, none), hour := kw.hour, minute := kw.minute, second := kw.second, microsecond := kw.microsecond } : RD))


theorem initKw_eq_yno (kw : Kw) (nv : Int) (w : Int) (n : Option Int) (hn : kw.nlyearday = some nv) (hy : kw.yearday = none) (hw : kw.weekday = some (WdArg.obj w n)) :
    Gen.initKw kw = mk kw := by
  unfold Gen.initKw mk
  rw [hn, hy, hw]
  have _h := trivial
  all_goals
    simp only [truthy_none, truthy_some, RDPy.optVal, Option.getD_some, orInt, RDPy.isIntArg, RDPy.wdOfArg,
      RDPy.weekdaysGet, weekdayOfArg, ne_eq, not_true_eq_false, or_self, ↓reduceIte, bind_ok, bind, pure, Except.pure,
      Bool.false_eq_true]
  all_goals (try (by_cases hi : i < -7 ∨ i ≥ 7))
  all_goals (try (by_cases h0 : nv = 0))
  all_goals (try (by_cases h1 : yv = 0))
  all_goals (try (by_cases h2 : 59 < yv ∧ yv < 366))
  all_goals
    simp only [*, not_true_eq_false, not_false_eq_true, ↓reduceIte, map_ok, map_err, bind_ok, bind_err, true_and,
      and_true, and_self, and_false, false_and, Int.lt_irrefl, gt_iff_lt, if_false_left, if_true_left]
  all_goals first
    | exact chain_lemma _ (fun m d => ({ years := kw.years, months := kw.months, days := kw.days + kw.weeks * 7, leapdays := kw.leapdays, hours := kw.hours, minutes := kw.minutes, seconds := kw.seconds, microseconds := kw.microseconds, year := kw.year, month := m, day := d, weekday := none, hour := kw.hour, minute := kw.minute, second := kw.second, microsecond := kw.microsecond } : RD))
    | exact chain_lemma _ (fun m d => ({ years := kw.years, months := kw.months, days := kw.days + kw.weeks * 7, leapdays := kw.leapdays, hours := kw.hours, minutes := kw.minutes, seconds := kw.seconds, microseconds := kw.microseconds, year := kw.year, month := m, day := d, weekday := some (w, n), hour := kw.hour, minute := kw.minute, second := kw.second, microsecond := kw.microsecond } : RD))
    | exact chain_lemma _ (fun m d => ({ years := kw.years, months := kw.months, days := kw.days + kw.weeks * 7, leapdays := kw.leapdays, hours := kw.hours, minutes := kw.minutes, seconds := kw.seconds, microseconds := kw.microseconds, year := kw.year, month := m, day := d, weekday := some (if i < 0 then i + 7 else i, none), hour := kw.hour, minute := kw.minute, second := kw.second, microsecond := kw.microsecond } : RD))
    | exact chain_lemma _ (fun m d => ({ years := kw.years, months := kw.months, days := kw.days + kw.weeks * 7, leapdays := -1, hours := kw.hours, minutes := kw.minutes, seconds := kw.seconds, microseconds := kw.microseconds, year := kw.year, month := m, day := d, weekday := none, hour := kw.hour, minute := kw.minute, second := kw.second, microsecond := kw.microsecond } : RD))
    | exact chain_lemma _ (fun m d => ({ years := kw.years, months := kw.months, days := kw.days + kw.weeks * 7, leapdays := -1, hours := kw.hours, minutes := kw.minutes, seconds := kw.seconds, microseconds := kw.microseconds, year := kw.year, month := m, day := d, weekday := some (w, n), hour := kw.hour, minute := kw.minute, second := kw.second, microsecond := kw.microsecond } : RD))
    | exact chain_lemma _ (fun m d => ({ years := kw.years, months := kw.months, days := kw.days + kw.weeks * 7, leapdays := -1, hours := kw.hours, minutes := kw.minutes, seconds := kw.seconds, microseconds := kw.microseconds, year := kw.year, month := m, day := d, weekday := some (if i < 0 then i + 7 else i, none), hour := kw.hour, minute := kw.minute, second := kw.second, microsecond := kw.microsecond } : RD))


theorem initKw_eq_yyn (kw : Kw) (nv : Int) (yv : Int) (hn : kw.nlyearday = some nv) (hy : kw.yearday = some yv) (hw : kw.weekday = none) :
    Gen.initKw kw = mk kw := by
  unfold Gen.initKw mk
  rw [hn, hy, hw]
  have _h := trivial
  all_goals
    simp only [truthy_none, truthy_some, RDPy.optVal, Option.getD_some, orInt, RDPy.isIntArg, RDPy.wdOfArg,
      RDPy.weekdaysGet, weekdayOfArg, ne_eq, not_true_eq_false, or_self, ↓reduceIte, bind_ok, bind, pure, Except.pure,
      Bool.false_eq_true]
  all_goals (try (by_cases hi : i < -7 ∨ i ≥ 7))
  all_goals (try (by_cases h0 : nv = 0))
  all_goals (try (by_cases h1 : yv = 0))
  all_goals (try (by_cases h2 : 59 < yv ∧ yv < 366))
  all_goals
    simp only [*, not_true_eq_false, not_false_eq_true, ↓reduceIte, map_ok, map_err, bind_ok, bind_err, true_and,
      and_true, and_self, and_false, false_and, Int.lt_irrefl, gt_iff_lt, if_false_left, if_true_left]
  all_goals first
    | exact chain_lemma _ (fun m d => ({ years := kw.years, months := kw.months, days := kw.days + kw.weeks * 7, leapdays := kw.leapdays, hours := kw.hours, minutes := kw.minutes, seconds := kw.seconds, microseconds := kw.microseconds, year := kw.year, month := m, day := d, weekday := none, hour := kw.hour, minute := kw.minute, second := kw.second, microsecond := kw.microsecond } : RD))
    | exact chain_lemma _ (fun m d => ({ years := kw.years, months := kw.months, days := kw.days + kw.weeks * 7, leapdays := kw.leapdays, hours := kw.hours, minutes := kw.minutes, seconds := kw.seconds, microseconds := kw.microseconds, year := kw.year, month := m, day := d, weekday := some (w, n), hour := kw.hour, minute := kw.minute, second := kw.second, microsecond := kw.microsecond } : RD))
    | exact chain_lemma _ (fun m d => ({ years := kw.years, months := kw.months, days := kw.days + kw.weeks * 7, leapdays := kw.leapdays, hours := kw.hours, minutes := kw.minutes, seconds := kw.seconds, microseconds := kw.microseconds, year := kw.year, month := m, day := d, weekday := some (if i < 0 then i + 7 else i, none), hour := kw.hour, minute := kw.minute, second := kw.second, microsecond := kw.microsecond } : RD))
    | exact chain_lemma _ (fun m d => ({ years := kw.years, months := kw.months, days := kw.days + kw.weeks * 7, leapdays := -1, hours := kw.hours, minutes := kw.minutes, seconds := kw.seconds, microseconds := kw.microseconds, year := kw.year, month := m, day := d, weekday := none, hour := kw.hour, minute := kw.minute, second := kw.second, microsecond := kw.microsecond } : RD))
    | exact chain_lemma _ (fun m d => ({ years := kw.years, months := kw.months, days := kw.days + kw.weeks * 7, leapdays := -1, hours := kw.hours, minutes := kw.minutes, seconds := kw.seconds, microseconds := kw.microseconds, year := kw.year, month := m, day := d, weekday := some (w, n), hour := kw.hour, minute := kw.minute, second := kw.second, microsecond := kw.microsecond } : RD))
    | exact chain_lemma _ (fun m d => ({ years := kw.years, months := kw.months, days := kw.days + kw.weeks * 7, leapdays := -1, hours := kw.hours, minutes := kw.minutes, seconds := kw.seconds, microseconds := kw.microseconds, year := kw.year, month := m, day := d, weekday := some (if i < 0 then i + 7 else i, none), hour := kw.hour, minute := kw.minute, second := kw.second, microsecond := kw.microsecond } : RD))


set_option maxHeartbeats 600000 in
theorem initKw_eq_yyi (kw : Kw) (nv : Int) (yv : Int) (i : Int) (hn : kw.nlyearday = some nv) (hy : kw.yearday = some yv) (hw : kw.weekday = some (WdArg.int i)) :
    Gen.initKw kw = mk kw := by
  unfold Gen.initKw mk
  rw [hn, hy, hw]
  have _h := trivial
  all_goals
    simp only [truthy_none, truthy_some, RDPy.optVal, Option.getD_some, orInt, RDPy.isIntArg, RDPy.wdOfArg,
      RDPy.weekdaysGet, weekdayOfArg, ne_eq, not_true_eq_false, or_self, ↓reduceIte, bind_ok, bind, pure, Except.pure,
      Bool.false_eq_true]
  all_goals (try (by_cases hi : i < -7 ∨ i ≥ 7))
  all_goals (try (by_cases h0 : nv = 0))
  all_goals (try (by_cases h1 : yv = 0))
  all_goals (try (by_cases h2 : 59 < yv ∧ yv < 366))
  all_goals
    simp only [*, not_true_eq_false, not_false_eq_true, ↓reduceIte, map_ok, map_err, bind_ok, bind_err, true_and,
      and_true, and_self, and_false, false_and, Int.lt_irrefl, gt_iff_lt, if_false_left, if_true_left]
  all_goals first
    | exact chain_lemma _ (fun m d => ({ years := kw.years, months := kw.months, days := kw.days + kw.weeks * 7, leapdays := kw.leapdays, hours := kw.hours, minutes := kw.minutes, seconds := kw.seconds, microseconds := kw.microseconds, year := kw.year, month := m, day := d, weekday := none, hour := kw.hour, minute := kw.minute, second := kw.second, microsecond := kw.microsecond } : RD))
    | exact chain_lemma _ (fun m d => ({ years := kw.years, months := kw.months, days := kw.days + kw.weeks * 7, leapdays := kw.leapdays, hours := kw.hours, minutes := kw.minutes, seconds := kw.seconds, microseconds := kw.microseconds, year := kw.year, month := m, day := d, weekday := some (w, n), hour := kw.hour, minute := kw.minute, second := kw.second, microsecond := kw.microsecond } : RD))
    | exact chain_lemma _ (fun m d => ({ years := kw.years, months := kw.months, days := kw.days + kw.weeks * 7, leapdays := kw.leapdays, hours := kw.hours, minutes := kw.minutes, seconds := kw.seconds, microseconds := kw.microseconds, year := kw.year, month := m, day := d, weekday := some (if i < 0 then i + 7 else i, none), hour := kw.hour, minute := kw.minute, second := kw.second, microsecond := kw.microsecond } : RD))
    | exact chain_lemma _ (fun m d => ({ years := kw.years, months := kw.months, days := kw.days + kw.weeks * 7, leapdays := -1, hours := kw.hours, minutes := kw.minutes, seconds := kw.seconds, microseconds := kw.microseconds, year := kw.year, month := m, day := d, weekday := none, hour := kw.hour, minute := kw.minute, second := kw.second, microsecond := kw.microsecond } : RD))
    | exact chain_lemma _ (fun m d => ({ years := kw.years, months := kw.months, days := kw.days + kw.weeks * 7, leapdays := -1, hours := kw.hours, minutes := kw.minutes, seconds := kw.seconds, microseconds := kw.microseconds, year := kw.year, month := m, day := d, weekday := some (w, n), hour := kw.hour, minute := kw.minute, second := kw.second, microsecond := kw.microsecond } : RD))
    | exact chain_lemma _ (fun m d => ({ years := kw.years, months := kw.months, days := kw.days + kw.weeks * 7, leapdays := -1, hours := kw.hours, minutes := kw.minutes, seconds := kw.seconds, microseconds := kw.microseconds, year := kw.year, month := m, day := d, weekday := some (if i < 0 then i + 7 else i, none), hour := kw.hour, minute := kw.minute, second := kw.second, microsecond := kw.microsecond } : RD))


set_option maxHeartbeats 600000 in
theorem initKw_eq_yyo (kw : Kw) (nv : Int) (yv : Int) (w : Int) (n : Option Int) (hn : kw.nlyearday = some nv) (hy : kw.yearday = some yv) (hw : kw.weekday = some (WdArg.obj w n)) :
    Gen.initKw kw = mk kw := by
  unfold Gen.initKw mk
  rw [hn, hy, hw]
  have _h := trivial
  all_goals
    simp only [truthy_none, truthy_some, RDPy.optVal, Option.getD_some, orInt, RDPy.isIntArg, RDPy.wdOfArg,
      RDPy.weekdaysGet, weekdayOfArg, ne_eq, not_true_eq_false, or_self, ↓reduceIte, bind_ok, bind, pure, Except.pure,
      Bool.false_eq_true]
  all_goals (try (by_cases hi : i < -7 ∨ i ≥ 7))
  all_goals (try (by_cases h0 : nv = 0))
  all_goals (try (by_cases h1 : yv = 0))
  all_goals (try (by_cases h2 : 59 < yv ∧ yv < 366))
  all_goals
    simp only [*, not_true_eq_false, not_false_eq_true, ↓reduceIte, map_ok, map_err, bind_ok, bind_err, true_and,
      and_true, and_self, and_false, false_and, Int.lt_irrefl, gt_iff_lt, if_false_left, if_true_left]
  all_goals first
    | exact chain_lemma _ (fun m d => ({ years := kw.years, months := kw.months, days := kw.days + kw.weeks * 7, leapdays := kw.leapdays, hours := kw.hours, minutes := kw.minutes, seconds := kw.seconds, microseconds := kw.microseconds, year := kw.year, month := m, day := d, weekday := none, hour := kw.hour, minute := kw.minute, second := kw.second, microsecond := kw.microsecond } : RD))
    | exact chain_lemma _ (fun m d => ({ years := kw.years, months := kw.months, days := kw.days + kw.weeks * 7, leapdays := kw.leapdays, hours := kw.hours, minutes := kw.minutes, seconds := kw.seconds, microseconds := kw.microseconds, year := kw.year, month := m, day := d, weekday := some (w, n), hour := kw.hour, minute := kw.minute, second := kw.second, microsecond := kw.microsecond } : RD))
    | exact chain_lemma _ (fun m d => ({ years := kw.years, months := kw.months, days := kw.days + kw.weeks * 7, leapdays := kw.leapdays, hours := kw.hours, minutes := kw.minutes, seconds := kw.seconds, microseconds := kw.microseconds, year := kw.year, month := m, day := d, weekday := some (if i < 0 then i + 7 else i, none), hour := kw.hour, minute := kw.minute, second := kw.second, microsecond := kw.microsecond } : RD))
    | exact chain_lemma _ (fun m d => ({ years := kw.years, months := kw.months, days := kw.days + kw.weeks * 7, leapdays := -1, hours := kw.hours, minutes := kw.minutes, seconds := kw.seconds, microseconds := kw.microseconds, year := kw.year, month := m, day := d, weekday := none, hour := kw.hour, minute := kw.minute, second := kw.second, microsecond := kw.microsecond } : RD))
    | exact chain_lemma _ (fun m d => ({ years := kw.years, months := kw.months, days := kw.days + kw.weeks * 7, leapdays := -1, hours := kw.hours, minutes := kw.minutes, seconds := kw.seconds, microseconds := kw.microseconds, year := kw.year, month := m, day := d, weekday := some (w, n), hour := kw.hour, minute := kw.minute, second := kw.second, microsecond := kw.microsecond } : RD))
    | exact chain_lemma _ (fun m d => ({ years := kw.years, months := kw.months, days := kw.days + kw.weeks * 7, leapdays := -1, hours := kw.hours, minutes := kw.minutes, seconds := kw.seconds, microseconds := kw.microseconds, year := kw.year, month := m, day := d, weekday := some (if i < 0 then i + 7 else i, none), hour := kw.hour, minute := kw.minute, second := kw.second, microsecond := kw.microsecond } : RD))


/-- **the translated keyword constructor IS the model `mk`**, for every keyword set: yearday / nlyearday scan,
    integer / object / absent weekday, the IndexError and ValueError branches included -/
theorem initKw_eq (kw : Kw) : Gen.initKw kw = mk kw := by
  rcases hn : kw.nlyearday with _ | nv <;> rcases hy : kw.yearday with _ | yv <;>
    rcases hw : kw.weekday with _ | (i | ⟨w, n⟩)
  · exact initKw_eq_nnn kw  hn hy hw
  · exact initKw_eq_nni kw i hn hy hw
  · exact initKw_eq_nno kw w n hn hy hw
  · exact initKw_eq_nyn kw yv hn hy hw
  · exact initKw_eq_nyi kw yv i hn hy hw
  · exact initKw_eq_nyo kw yv w n hn hy hw
  · exact initKw_eq_ynn kw nv hn hy hw
  · exact initKw_eq_yni kw nv i hn hy hw
  · exact initKw_eq_yno kw nv w n hn hy hw
  · exact initKw_eq_yyn kw nv yv hn hy hw
  · exact initKw_eq_yyi kw nv yv i hn hy hw
  · exact initKw_eq_yyo kw nv yv w n hn hy hw

end RDG
