/-
  Proofs/RDYearday.lean — `relativedelta(yearday=…)` / `(nlyearday=…)`: the constructor's `ydayidx`
  scan (whole table, `decide +kernel`) and `x + relativedelta(month=, day=, leapdays=)`.
-/
import DateutilVerif.Proofs.RDDiff

namespace RDP
open RDM
set_option linter.unusedSimpArgs false

/-- the delta `relativedelta(yearday=…)` / `(nlyearday=…)` denotes after the table conversion -/
def mdl (m dd ld : Int) : RD := { month := some m, day := some dd, leapdays := ld }

theorem mdl_normalised (m dd ld : Int) : Normalised (mdl m dd ld) := by
  unfold Normalised mdl hasTimeOf; simp

theorem mdl_inDomain (m dd ld : Int) (hm : 1 ≤ m ∧ m ≤ 12) (hd : 1 ≤ dd) : InDomain (mdl m dd ld) := by
  refine ⟨mdl_normalised m dd ld, by simp [mdl], ?_, ?_, ?_⟩
  · intro v hv; simp only [mdl, Option.some.injEq] at hv; omega
  · simp only [mdl, ne_eq, Option.some.injEq]; omega
  · intro w n hw; simp [mdl] at hw

theorem ordinal_ofMicros (x : Int) (h1 : DT.minMicros ≤ x) (h2 : x ≤ DT.maxMicros) :
    (DT.ofMicros x).Valid ∧ (DT.ofMicros x).ordinal = x / DT.usPerDay ∧
    (DT.ofMicros x).timeMicros = x % DT.usPerDay := by
  have hv := DT.ofMicros_valid x h1 h2
  have hm := DT.toMicros_ofMicros x (by unfold DT.minMicros at h1; omega)
  have r := DT.timeMicros_range _ hv
  refine ⟨hv, ?_, ?_⟩ <;> (unfold DT.toMicros DT.usPerDay at *; omega)

/-- time-of-day fields are determined by `timeMicros` on valid datetimes -/
theorem time_fields_of_timeMicros (s t : DT) (hs : s.Valid) (ht : t.Valid) (h : s.timeMicros = t.timeMicros) :
    s.hh = t.hh ∧ s.mm = t.mm ∧ s.ss = t.ss ∧ s.us = t.us := by
  obtain ⟨_, a1, a2, a3, a4, a5, a6, a7, a8⟩ := hs
  obtain ⟨_, b1, b2, b3, b4, b5, b6, b7, b8⟩ := ht
  unfold DT.timeMicros at h
  omega

/-- `x + relativedelta(month=m, day=dd, leapdays=ld)` for a real month, `dd ≥ 1`, `ld ∈ {0, −1}`:
    the operand moved to (m, min dd len) of its own year, one day earlier when the leap day applies;
    kind and time of day unchanged. -/
theorem applyTo_mdl (m dd ld : Int) (x : Temporal) (hx : x.Valid) (hm : 1 ≤ m ∧ m ≤ 12) (hd : 1 ≤ dd)
    (hld : ld = 0 ∨ ld = -1) :
    ∃ res, applyTo (mdl m dd ld) x = .ok res ∧ res.kind = x.kind ∧ res.t.Valid ∧
      res.t.ordinal = Cal.toOrdinal x.t.y m (min dd (Cal.daysInMonth x.t.y m)) +
        (if ld ≠ 0 ∧ m > 2 ∧ Cal.isLeap x.t.y = true then ld else 0) ∧
      res.t.hh = x.t.hh ∧ res.t.mm = x.t.mm ∧ res.t.ss = x.t.ss ∧ res.t.us = x.t.us := by
  rw [applyTo_eq_spec _ x (mdl_inDomain m dd ld hm hd) hx]
  have hti : RDSpec.hasTimeInfo (mdl m dd ld) = false := by
    unfold RDSpec.hasTimeInfo mdl; simp
  unfold RDSpec.apply RDSpec.monthShift
  simp only [hti, Bool.false_eq_true, and_false, ↓reduceIte]
  have e0 : (mdl m dd ld).years = 0 ∧ (mdl m dd ld).months = 0 ∧ (mdl m dd ld).year = none ∧
      (mdl m dd ld).month = some m ∧ (mdl m dd ld).day = some dd := ⟨rfl, rfl, rfl, rfl, rfl⟩
  rw [e0.1, e0.2.1, e0.2.2.1, e0.2.2.2.1, e0.2.2.2.2]
  simp only [Option.getD_none, Option.getD_some]
  have y1 := hx.1.1.1; have y2 := hx.1.1.2.1
  have eY : (12 * x.t.y + (m - 1) + (12 * 0 + 0)) / 12 = x.t.y := by omega
  have eM : (12 * x.t.y + (m - 1) + (12 * 0 + 0)) % 12 + 1 = m := by omega
  rw [eY, eM]
  have hb := Cal.daysInMonth_bounds x.t.y m
  generalize hdd : min dd (Cal.daysInMonth x.t.y m) = d' at *
  have hd' : 1 ≤ d' ∧ d' ≤ Cal.daysInMonth x.t.y m := by omega
  -- the shifted datetime
  have hs : RDSpec.shiftedDT (mdl m dd ld) x.t x.t.y m d' = { x.t with m := m, d := d' } := by
    unfold RDSpec.shiftedDT mdl; simp
  have hv : DT.Valid { x.t with m := m, d := d' } := by
    obtain ⟨⟨_, _, _⟩, ht⟩ := hx.1
    exact ⟨⟨y1, y2, hm.1, hm.2, hd'.1, hd'.2⟩, ht⟩
  unfold RDSpec.applyShifted RDSpec.afterDuration
  rw [hs]
  have hdur : RDSpec.duration (mdl m dd ld) (decide (m > 2) && Cal.isLeap x.t.y) =
      (if ld ≠ 0 ∧ m > 2 ∧ Cal.isLeap x.t.y = true then ld else 0) * DT.usPerDay := by
    unfold RDSpec.duration mdl DT.usPerDay
    simp only [Int.zero_mul, Int.add_zero, Int.zero_add]
    by_cases h1 : m > 2 <;> by_cases h2 : Cal.isLeap x.t.y = true <;> by_cases h3 : ld = 0 <;>
      simp [h1, h2, h3]
  rw [hdur]
  generalize hL : (if ld ≠ 0 ∧ m > 2 ∧ Cal.isLeap x.t.y = true then ld else 0) = L
  have hLr : L = 0 ∨ (L = -1 ∧ m > 2) := by
    rw [← hL]; split
    · rename_i hc
      rcases hld with h | h
      · exact absurd h hc.1
      · exact Or.inr ⟨h, hc.2.1⟩
    · exact Or.inl rfl
  have hr := toMicros_range _ hv
  -- stays inside 1..9999: at worst one day back in a year ≥ 2
  have hord1 : 1 ≤ ({ x.t with m := m, d := d' } : DT).ordinal + L := by
    rcases hLr with h | ⟨h, hm2⟩
    · rw [h]; have := Cal.toOrdinal_pos x.t.y m d' y1 ⟨hm.1, hm.2, hd'.1, hd'.2⟩
      unfold DT.ordinal; simp only []; omega
    · rw [h]
      have := Cal.toOrdinal_lt_of_lex x.t.y 1 1 x.t.y m d' ⟨by omega, by omega, by omega, by have := Cal.daysInMonth_bounds x.t.y 1; omega⟩
        ⟨hm.1, hm.2, hd'.1, hd'.2⟩ (Or.inr ⟨rfl, Or.inl (by omega)⟩)
      have := Cal.toOrdinal_pos x.t.y 1 1 y1 ⟨by omega, by omega, by omega, by have := Cal.daysInMonth_bounds x.t.y 1; omega⟩
      unfold DT.ordinal; simp only []; omega
  have tr := DT.timeMicros_range _ hv
  have hin : ¬ (({ x.t with m := m, d := d' } : DT).toMicros + L * DT.usPerDay < DT.minMicros ∨
      ({ x.t with m := m, d := d' } : DT).toMicros + L * DT.usPerDay > DT.maxMicros) := by
    unfold DT.toMicros DT.minMicros DT.maxMicros DT.usPerDay at *
    rcases hLr with h | ⟨h, _⟩ <;> rw [h] at hord1 ⊢ <;> omega
  rw [if_neg (by simp [fits_of_valid _ hv]), if_neg (by simp [hv]), if_neg hin]
  unfold RDSpec.weekdayStep
  have hw : (mdl m dd ld).weekday = none := rfl
  rw [hw]
  simp only []
  have hadd : ({ x.t with m := m, d := d' } : DT).addDays L =
      .ok (DT.ofMicros (({ x.t with m := m, d := d' } : DT).toMicros + L * DT.usPerDay)) := by
    unfold DT.addDays DT.addMicros; simp only []; rw [if_neg hin]
  obtain ⟨a1, a2, a3, a4, a5, a6, a7⟩ := addDays_ok _ _ L hv hadd
  exact ⟨_, rfl, rfl, a1, a2, a4, a5, a6, a7⟩

/-- days of month `m` in a non-leap year -/
def nlDim (m : Int) : Int := if m == 2 then 28 else if m == 4 || m == 6 || m == 9 || m == 11 then 30 else 31

/-- what the table scan must return for day `yd` of a non-leap year -/
def ydayLookupOK (yd : Int) : Bool :=
  match ydayLookup yd ydayidx 0 0 with
  | .ok (m, d) => decide (1 ≤ m ∧ m ≤ 12 ∧ 1 ≤ d ∧ d ≤ nlDim m ∧ Cal.dbmTable m + d = yd ∧ (m > 2 ↔ yd ≥ 60))
  | .error _ => false

theorem ydayLookup_table : ∀ k : Fin 365, ydayLookupOK (1 + (k.val : Int)) = true := by decide +kernel

theorem ydayLookup_spec (yd : Int) (h1 : 1 ≤ yd) (h2 : yd ≤ 365) :
    ∃ m d, ydayLookup yd ydayidx 0 0 = .ok (m, d) ∧ 1 ≤ m ∧ m ≤ 12 ∧ 1 ≤ d ∧ d ≤ nlDim m ∧
      Cal.dbmTable m + d = yd ∧ (m > 2 ↔ yd ≥ 60) := by
  have hk : (yd - 1).toNat < 365 := by omega
  have := ydayLookup_table ⟨(yd - 1).toNat, hk⟩
  have e : 1 + (((yd - 1).toNat : Nat) : Int) = yd := by omega
  simp only [e, ydayLookupOK] at this
  split at this
  · rename_i m d heq
    refine ⟨m, d, heq, ?_⟩
    simpa using this
  · simp at this

theorem nlDim_le (y m : Int) : nlDim m ≤ Cal.daysInMonth y m := by
  unfold nlDim Cal.daysInMonth
  by_cases h2 : m = 2
  · subst h2; simp; split <;> omega
  · simp [h2]

theorem fix_mdl (m dd ld : Int) : Gen.fix (mdl m dd ld) = mdl m dd ld :=
  fix_of_normalised _ (mdl_normalised m dd ld)

theorem mk_yearday (y m dd : Int) (hy : y ≠ 0) (hl : ydayLookup y ydayidx 0 0 = .ok (m, dd)) :
    mk { yearday := some y } = .ok (mdl m dd (if 59 < y ∧ y < 366 then -1 else 0)) := by
  unfold mk
  simp only [orInt, hy, ne_eq, not_false_eq_true, ↓reduceIte, not_true_eq_false, bind, Except.bind, pure, Except.pure,
    hl, Except.map, true_and]
  rw [← fix_mdl]
  by_cases h : 59 < y ∧ y < 366 <;> simp only [h, ↓reduceIte] <;> rfl

theorem mk_nlyearday (n m dd : Int) (hn : n ≠ 0) (hl : ydayLookup n ydayidx 0 0 = .ok (m, dd)) :
    mk { nlyearday := some n } = .ok (mdl m dd 0) := by
  unfold mk
  simp only [orInt, hn, ne_eq, not_false_eq_true, ↓reduceIte, not_true_eq_false, bind, Except.bind, pure, Except.pure,
    hl, Except.map, false_and]
  rw [← fix_mdl]
  rfl

/-- a valid date whose ordinal lies in `[Jan 1 of Y, Jan 1 of Y+1)` is in year `Y` -/
theorem year_of_ordinal_in_year (t : DT) (Y : Int) (hv : t.Valid)
    (h1 : Cal.toOrdinal Y 1 1 ≤ t.ordinal) (h2 : t.ordinal < Cal.toOrdinal (Y + 1) 1 1) : t.y = Y := by
  have v := hv.1.2.2
  have j1 : ∀ z : Int, Cal.ValidYMD z 1 1 := fun z =>
    ⟨by omega, by omega, by omega, by have := Cal.daysInMonth_bounds z 1; omega⟩
  apply Classical.byContradiction
  intro hne
  by_cases hlt : t.y < Y
  · have := Cal.toOrdinal_lt_of_lex t.y t.m t.d Y 1 1 v (j1 Y) (Or.inl hlt)
    unfold DT.ordinal at h1; omega
  · by_cases he : t.y = Y + 1 ∧ t.m = 1 ∧ t.d = 1
    · unfold DT.ordinal at h2; rw [he.1, he.2.1, he.2.2] at h2; omega
    · have := Cal.toOrdinal_lt_of_lex (Y + 1) 1 1 t.y t.m t.d (j1 _) v (by
        have := v.1; have := v.2.2.1; omega)
      unfold DT.ordinal at h2; omega


end RDP
