/- Proofs/RangeZone.lean — the tzrangebase round trip for positive saving, away from year ends. -/
import DateutilVerif.Model.Zones

namespace TZ
namespace RangeZone

theorem naiveIsdst_iff (x a b : Int) :
    naiveIsdst x (a, b) = true ↔ (a < b ∧ a ≤ x ∧ x < b) ∨ (¬ a < b ∧ ¬ (b ≤ x ∧ x < a)) := by
  unfold naiveIsdst
  by_cases h : a < b <;> simp [h] <;> omega

theorem naiveIsdst_false_iff (x a b : Int) :
    naiveIsdst x (a, b) = false ↔ ¬ ((a < b ∧ a ≤ x ∧ x < b) ∨ (¬ a < b ∧ ¬ (b ≤ x ∧ x < a))) := by
  rw [← naiveIsdst_iff]; simp

/-- `utcoffset` of a wall reading in closed form, when the wall year has transitions `(on, off)` -/
theorem utcoffset_eq (z : RangeZone) (w : Wall) (on off : Int) (hd : z.hasdst = true)
    (htr : z.transitions (yearOf w.wall) = some (on, off)) :
    z.utcoffset w = .ok (if naiveIsdst w.wall (on, off) then z.dstOff
      else if (decide (off ≤ w.wall) && decide (w.wall < off + z.saving)) then
        (if w.fold then z.stdOff else z.dstOff) else z.stdOff) := by
  unfold utcoffset isdst isAmbiguous
  simp only [hd, htr, Bool.not_true, Bool.false_eq_true, if_false]
  cases h1 : naiveIsdst w.wall (on, off) with
  | true => simp; rfl
  | false =>
      cases h2 : (decide (off ≤ w.wall) && decide (w.wall < off + z.saving)) with
      | true => cases hf : w.fold <;> simp [bind, Except.bind, pure, Except.pure, h2, hf]
      | false => simp [bind, Except.bind, pure, Except.pure, h2]

end RangeZone
end TZ
