/- Proofs/RangeZone.lean — the tzrangebase round trip for positive saving, away from year ends. -/
import DateutilVerif.Model.Zones

namespace TZ
namespace RangeZone

theorem naiveIsdst_iff (x a b : Int) :
    naiveIsdst x (a, b) = true ↔ (a < b ∧ a ≤ x ∧ x < b) ∨ (¬ a < b ∧ ¬ (b ≤ x ∧ x < a)) := by
  unfold naiveIsdst
  by_cases h : a < b <;> simp [h] <;> omega

theorem naiveIsdst_false_iff (x a b : Int) :
    naiveIsdst x (a, b) = false ↔ ¬ ((a < b ∧ a ≤ x ∧ x < b) ∨ (¬ a < b ∧ ¬ (b ≤ x ∧ x < a))) := by
  rw [← naiveIsdst_iff]; simp

/-- `utcoffset` of a wall reading in closed form, when the wall year has transitions `(on, off)` -/
theorem utcoffset_eq (z : RangeZone) (w : Wall) (on off : Int) (hd : z.hasdst = true)
    (htr : z.transitions (yearOf w.wall) = some (on, off)) :
    z.utcoffset w = .ok (if naiveIsdst w.wall (on, off) then z.dstOff
      else if (decide (off ≤ w.wall) && decide (w.wall < off + z.saving)) then
        (if w.fold then z.stdOff else z.dstOff) else z.stdOff) := by
  unfold utcoffset isdst isAmbiguous
  simp only [hd, htr, Bool.not_true, Bool.false_eq_true, if_false]
  cases h1 : naiveIsdst w.wall (on, off) with
  | true => simp; rfl
  | false =>
      cases h2 : (decide (off ≤ w.wall) && decide (w.wall < off + z.saving)) with
      | true => cases hf : w.fold <;> simp [bind, Except.bind, pure, Except.pure, h2, hf]
      | false => simp [bind, Except.bind, pure, Except.pure, h2]

/-- `_isdst` of a wall reading in closed form -/
theorem isdst_eq (z : RangeZone) (w : Wall) (on off : Int) (hd : z.hasdst = true)
    (htr : z.transitions (yearOf w.wall) = some (on, off)) :
    z.isdst w = .ok (if naiveIsdst w.wall (on, off) then true
      else if (decide (off ≤ w.wall) && decide (w.wall < off + z.saving)) then !w.fold else false) := by
  unfold isdst isAmbiguous
  simp only [hd, htr, Bool.not_true, Bool.false_eq_true, if_false]
  cases h1 : naiveIsdst w.wall (on, off) with
  | true => simp
  | false =>
      cases h2 : (decide (off ≤ w.wall) && decide (w.wall < off + z.saving)) with
      | true => simp [bind, Except.bind, pure, Except.pure, h2]
      | false => simp [bind, Except.bind, pure, Except.pure, h2]

/-- **what `fromutc` decides.**  `(on, off)`: the pair of the UTC year; `(on₁, off₁)`, `(on₂, off₂)`:
    the pairs of the wall-clock years of `t + stdOff` and `t + dstOff`, each making at that wall
    reading the same two decisions (naive DST, repeated interval) as the UTC year's pair — the exact
    condition under which `tzrangebase`'s two year lookups cohere.  Then the converted datetime is
    daylight time exactly when `on − std ≤ t < off − std` (either order), and `_isdst` reports it. -/
theorem isdst_fromutc (z : RangeZone) (t on off on₁ off₁ on₂ off₂ : Int)
    (hsav : 0 < z.saving) (hd : z.hasdst = true)
    (htr : z.transitions (yearOf t) = some (on, off))
    (h₁ : z.transitions (yearOf (t + z.stdOff)) = some (on₁, off₁))
    (h₂ : z.transitions (yearOf (t + z.dstOff)) = some (on₂, off₂))
    (n₁ : naiveIsdst (t + z.stdOff) (on₁, off₁) = naiveIsdst (t + z.stdOff) (on, off))
    (a₁ : (decide (off₁ ≤ t + z.stdOff) && decide (t + z.stdOff < off₁ + z.saving)) =
          (decide (off ≤ t + z.stdOff) && decide (t + z.stdOff < off + z.saving)))
    (n₂ : naiveIsdst (t + z.dstOff) (on₂, off₂) = naiveIsdst (t + z.dstOff) (on, off))
    (a₂ : (decide (off₂ ≤ t + z.dstOff) && decide (t + z.dstOff < off₂ + z.saving)) =
          (decide (off ≤ t + z.dstOff) && decide (t + z.dstOff < off + z.saving))) :
    ∃ w, z.fromutc t = .ok w ∧
      w.wall = t + (if naiveIsdst t (on - z.stdOff, off - z.stdOff) then z.dstOff else z.stdOff) ∧
      z.isdst w = .ok (naiveIsdst t (on - z.stdOff, off - z.stdOff)) := by
  have hs : z.dstOff = z.stdOff + z.saving := by unfold RangeZone.saving; omega
  cases hdv : naiveIsdst t (on - z.stdOff, off - z.stdOff) with
  | true =>
      have hf : z.fromutc t = .ok ⟨t + z.dstOff, false⟩ := by
        unfold fromutc; simp only [htr, hdv, if_true]
      refine ⟨_, hf, by simp, ?_⟩
      rw [isdst_eq z ⟨t + z.dstOff, false⟩ on₂ off₂ hd h₂]
      simp only [n₂, a₂]
      rw [naiveIsdst_iff] at hdv
      cases hn : naiveIsdst (t + z.dstOff) (on, off) with
      | true => simp
      | false =>
          rw [naiveIsdst_false_iff] at hn
          have : (decide (off ≤ t + z.dstOff) && decide (t + z.dstOff < off + z.saving)) = true := by
            simp only [Bool.and_eq_true, decide_eq_true_eq]; omega
          simp [this]
  | false =>
      have hamb : z.isAmbiguous (t + z.stdOff) =
          .ok (decide (off ≤ t + z.stdOff) && decide (t + z.stdOff < off + z.saving)) := by
        unfold isAmbiguous; simp only [hd, h₁, Bool.not_true, Bool.false_eq_true, if_false, a₁]
      have hf : z.fromutc t = .ok ⟨t + z.stdOff,
          (decide (off ≤ t + z.stdOff) && decide (t + z.stdOff < off + z.saving))⟩ := by
        unfold fromutc
        simp only [htr, hdv, Bool.false_eq_true, if_false, hamb]
        rfl
      refine ⟨_, hf, by simp, ?_⟩
      rw [isdst_eq z ⟨t + z.stdOff, _⟩ on₁ off₁ hd h₁]
      simp only [n₁, a₁]
      rw [naiveIsdst_false_iff] at hdv
      have hn : naiveIsdst (t + z.stdOff) (on, off) = false := by
        rw [naiveIsdst_false_iff]; omega
      simp only [hn, Bool.false_eq_true, if_false]
      cases h2 : (decide (off ≤ t + z.stdOff) && decide (t + z.stdOff < off + z.saving)) <;> simp

/-- `utcoffset / dst / tzname` follow `_isdst` -/
theorem answers_of_isdst (z : RangeZone) (w : Wall) (d : Bool) (h : z.isdst w = .ok d) :
    z.utcoffset w = .ok (if d then z.dstOff else z.stdOff) ∧
    z.dst w = .ok (if d then z.saving else 0) ∧
    z.tzname w = .ok (if d then z.dstAbbr else z.stdAbbr) := by
  unfold utcoffset dst tzname
  simp only [h, bind, Except.bind, pure, Except.pure]
  cases d <;> simp

end RangeZone
end TZ
