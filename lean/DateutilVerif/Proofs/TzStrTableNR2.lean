import DateutilVerif.Proofs.TzStrNoRuleDefs
namespace C08
/-- whole table, hours 0..12 east of Greenwich (`-h`) on both sides (169 strings, kernel evaluation) -/
theorem norule_parse_table_mm : ∀ a b : Fin 13,
    noRuleRes (nrString "-" a.val "-" b.val) "AAA" "BBB" (nrVal "-" a.val) (some (nrVal "-" b.val)) = true := by
  decide +kernel
end C08
