/-
  Proofs/RRuleNthYearly.lean — YEARLY with nth weekdays counted inside the year ("the 20th Monday
  of the year", "the last Sunday of the year"; no BYMONTH): the mask, `rebuild`, the bridge and
  the instance of the refinement.
-/
import DateutilVerif.Proofs.RRuleNthMonthly

namespace RRule
open Cal

variable {r : Rule} {y : Int} {info : Info}

/-- **the nth-weekday mask of a YEARLY rule without BYMONTH**: one range, the whole year -/
theorem nwdaymask_yearly (f : YearFacts r y info) (hf : r.freq = 0) (hbm : truthy r.bymonth = false)
    (nwl : List (Int × Int)) (hne : nwl ≠ [])
    (hnw : r.bynweekday = some nwl) (hok : ∀ wn ∈ nwl, (0 ≤ wn.1 ∧ wn.1 ≤ 6) ∧ wn.2 ≠ 0) (month : Int) :
    ∃ mask, buildNwdaymask r info.yearlen info.mrange info.wdaymask month = .ok (some mask) ∧
      (mask.length : Int) = info.yearlen ∧
      ∀ j : Int, 0 ≤ j → j < info.yearlen →
        Py.getIdx mask j = .ok (if ∃ wn ∈ nwl, marks info 0 (info.yearlen - 1) j wn then 1 else 0) := by
  have hyl := f.yearlen
  have hylen : 365 ≤ info.yearlen ∧ info.yearlen ≤ 366 := by rw [hyl]; unfold daysInYear; split <;> omega
  unfold buildNwdaymask
  rw [hnw]
  cases nwl with
  | nil => exact absurd rfl hne
  | cons nw0 nws =>
    simp only [bind, Except.bind]
    rw [if_pos (by simp [hf]), hbm]
    have hlen0 : ((List.replicate info.yearlen.toNat (0 : Int)).length : Int) = info.yearlen := by
      rw [List.length_replicate]; omega
    obtain ⟨mask, h1, hl2, h3⟩ := markNth_fold f 0 (info.yearlen - 1) (by omega) (by omega) (nw0 :: nws) _ hlen0 hok
    simp only [pure, Except.pure, List.isEmpty_cons, Bool.false_eq_true, ↓reduceIte, List.foldlM_cons,
      List.foldlM_nil, bind, Except.bind] at h1 ⊢
    rw [h1]
    refine ⟨mask, rfl, by rw [hl2]; exact hlen0, ?_⟩
    intro j hj0 hj1
    rw [h3 j hj0 hj1]
    split
    · rfl
    · rw [getIdx_int _ j hj0 (by rw [hlen0]; exact hj1)]
      simp

theorem rebuild_nth_yearly (hn : NthRule r) (hf : r.freq = 0) (hbm : truthy r.bymonth = false)
    (nwl : List (Int × Int)) (hne : nwl ≠ [])
    (hnw : r.bynweekday = some nwl) (hok : ∀ wn ∈ nwl, (0 ≤ wn.1 ∧ wn.1 ≤ 6) ∧ wn.2 ≠ 0)
    (y m : Int) (hy1 : 1 ≤ y) (hy2 : y ≤ 9999) :
    ∃ info mask, rebuild r y m = .ok info ∧ info.nwdaymask = some mask ∧ (mask.length : Int) = info.yearlen ∧
      ∀ j : Int, 0 ≤ j → j < info.yearlen →
        Py.getIdx mask j = .ok (if ∃ wn ∈ nwl, marks info 0 (info.yearlen - 1) j wn then 1 else 0) := by
  have hw : wnomaskOf r y (baseInfo y) = .ok none := by
    unfold wnomaskOf; have := hn.byweekno
    split
    · rename_i h; rw [h] at this; simp [truthy] at this
    · rfl
  have he : eastermaskOf r y (baseInfo y) = .ok none := by
    unfold eastermaskOf; have := hn.byeaster
    split
    · rename_i h; rw [h] at this; simp [truthy] at this
    · rfl
  obtain ⟨mask, h1, h2, h3⟩ := nwdaymask_yearly (baseInfo_facts r y hy1 hy2) hf hbm nwl hne hnw hok m
  unfold rebuild
  rw [if_neg (by omega), hw]
  dsimp only
  rw [h1]
  dsimp only
  rw [he]
  exact ⟨_, mask, rfl, rfl, h2, h3⟩

/-- YEARLY argument sets whose BYDAY members are all nth weekdays, counted inside the year -/
structure NthYArgs (a : Args) : Prop where
  freq : a.freq = 0
  interval : 1 ≤ a.interval
  valid : a.dtstart.Valid
  byweekno : a.byweekno = none
  byeaster : a.byeaster = none
  monthday_nz : ∀ x ∈ a.bymonthday.getD [], x ≠ 0
  bymonth : a.bymonth = none
  weekdays : ∃ l, a.byweekday = some l ∧ l ≠ [] ∧ ∀ w ∈ l, (0 ≤ w.1 ∧ w.1 ≤ 6) ∧ w.2 ≠ 0

variable {a : Args}

theorem nthy_noDay (na : NthYArgs a) : noDayParts a = false := by
  obtain ⟨l, hl, _, _⟩ := na.weekdays
  unfold noDayParts; simp [hl]

theorem nthy_nwl (na : NthYArgs a) :
    nwlOf a ≠ [] ∧ (∀ wn, wn ∈ nwlOf a ↔ wn ∈ a.byweekday.getD []) ∧
    (∀ wn ∈ nwlOf a, (0 ≤ wn.1 ∧ wn.1 ≤ 6) ∧ wn.2 ≠ 0) ∧
    byweekdayOf a = none ∧ bynweekdayOf a = some (nwlOf a) := by
  obtain ⟨l, hl, hne, hok⟩ := na.weekdays
  have hwa : weekdayArg a = some l := by unfold weekdayArg; simp [nthy_noDay na, hl]
  have hfil : l.filter (fun w => !(w.2 == 0 || decide (a.freq > 1))) = l := by
    apply List.filter_eq_self.mpr; intro w hw
    have := (hok w hw).2
    simp [na.freq, this]
  have hfil2 : l.filter (fun w => w.2 == 0 || decide (a.freq > 1)) = [] := by
    apply List.filter_eq_nil_iff.mpr; intro w hw
    have := (hok w hw).2
    simp [na.freq, this]
  have hmem : ∀ wn, wn ∈ nwlOf a ↔ wn ∈ l := by
    intro wn; unfold nwlOf nthWeekdays; rw [hl, Option.getD_some, hfil, mem_sortBy, mem_dedup]
  have hplain : plainWeekdays a l = [] := by unfold plainWeekdays; rw [hfil2]; rfl
  refine ⟨?_, by rw [hl]; exact hmem, fun wn hwn => hok wn ((hmem wn).mp hwn), ?_, ?_⟩
  · intro hnil
    cases l with
    | nil => exact hne rfl
    | cons w ws => have := (hmem w).mpr (List.mem_cons_self ..); rw [hnil] at this; simp at this
  · unfold byweekdayOf; rw [hwa]; simp [hplain]
  · unfold bynweekdayOf; rw [hwa]; simp only [hplain, List.isEmpty_nil, ↓reduceIte]
    unfold nwlOf; rw [hl]; rfl

theorem nthy_rule (na : NthYArgs a) (h : construct a = .ok r) : ∃ bh bm bs, r = nthRuleOf a bh bm bs := by
  have hts := construct_timeset a r h (by rw [na.freq]; omega)
  obtain ⟨sp, bh, bm, bs, ts, h1, h2, h3, h4, h5, rfl⟩ := construct_ok a r h
  dsimp only at hts
  subst hts
  have hsp := (normBysetpos_ok a sp h1).1
  subst hsp
  obtain ⟨_, _, _, hwd, hnwd⟩ := nthy_nwl na
  refine ⟨bh, bm, bs, ?_⟩
  have hbm : bymonthOf a = a.bymonth.map sortedSet := by unfold bymonthOf; simp [nthy_noDay na]
  simp [nthRuleOf, hbm, hwd, hnwd, na.byweekno, na.byeaster]

/-- **bridge**: inside the year `y`, calendar predicate ∧ "marked by an nth-weekday pair" is `dateOk` -/
theorem nthy_bridge (na : NthYArgs a) (h : construct a = .ok r) (info : Info) (y j : Int)
    (hy : 1 ≤ y) (hj0 : 0 ≤ j) (hj1 : j < daysInYear y) (hyo : info.yearordinal = toOrdinal y 1 1)
    (hyl : info.yearlen = daysInYear y) :
    (simpleOk r (info.yearordinal + j) &&
      decide (∃ wn ∈ nwlOf a, marks info 0 (info.yearlen - 1) j wn)) =
      Spec.RRule.dateOk a (info.yearordinal + j) := by
  obtain ⟨bh, bm, bs, hr⟩ := nthy_rule na h
  obtain ⟨l, hl, hne, hok⟩ := na.weekdays
  obtain ⟨_, hmem, _, _, _⟩ := nthy_nwl na
  rw [hl, Option.getD_some] at hmem
  have hfo := date_of_yday y j hy hj0 hj1
  rw [← hyo] at hfo
  have hpos : 1 ≤ info.yearordinal + j := by
    rw [hyo]
    have := toOrdinal_pos y 1 1 hy ⟨by omega, by omega, by omega, by have := daysInMonth_bounds y 1; omega⟩
    omega
  obtain ⟨_, hvd, _⟩ := toOrdinal_fromOrdinal (info.yearordinal + j) hpos
  rw [hfo] at hvd
  obtain ⟨_, _, hd1, hd2⟩ := hvd
  dsimp only at hd1 hd2
  rw [hr]
  unfold simpleOk Spec.RRule.dateOk
  rw [hfo]
  dsimp only
  have hnd : Spec.RRule.noDayParts a = noDayParts a := rfl
  have hmonths : Spec.RRule.months a = [] := by
    unfold Spec.RRule.months; rw [na.bymonth]; simp [hnd, nthy_noDay na]
  have hmda : monthdayArg a = a.bymonthday := by unfold monthdayArg; simp [nthy_noDay na]
  have hmd : Spec.RRule.monthdays a = a.bymonthday.getD [] := by
    unfold Spec.RRule.monthdays; simp [hnd, nthy_noDay na]
  have hmc := monthday_clause_core a (by rw [hmda]; exact na.monthday_nz)
    (monthDayOfYday (isLeap y) j).2
    ((monthDayOfYday (isLeap y) j).2 - daysInMonth y (monthOfYday (isLeap y) j) - 1) (by omega) (by omega)
  rw [hmda] at hmc
  have hwds : Spec.RRule.weekdays a = l := by
    unfold Spec.RRule.weekdays; simp [hnd, nthy_noDay na, hl]
  rw [hmonths, hmd, hwds, na.byweekno, na.byeaster, na.bymonth, hmc]
  have htn : truthy (none : Option (List Int)) = false := rfl
  have hmn : ∀ w, memO w (none : Option (List Int)) = false := fun _ => rfl
  simp only [Option.map_none, htn, hmn, List.isEmpty_nil, Bool.not_true, Bool.or_false, Bool.not_false,
    Bool.true_or, Bool.and_true, Bool.or_self, List.contains_nil, Bool.true_and]
  have hwk : decide (∃ wn ∈ nwlOf a, marks info 0 (info.yearlen - 1) j wn) =
      (l.isEmpty || l.any (fun wn => wn.1 == weekdayOfOrd (info.yearordinal + j) &&
        (wn.2 == 0 || decide (a.freq > 1) ||
          Spec.RRule.nthOk a (info.yearordinal + j) y (monthOfYday (isLeap y) j) wn.2))) := by
    have hle : l.isEmpty = false := by cases l with | nil => exact absurd rfl hne | cons _ _ => rfl
    rw [hle, Bool.false_or, Bool.eq_iff_iff, decide_eq_true_eq, List.any_eq_true]
    have hlast : toOrdinal y 12 31 = info.yearordinal + (info.yearlen - 1) := by
      rw [hyo, hyl]
      have := toOrdinal_next_year y
      have e : toOrdinal (y + 1) 1 1 = toOrdinal y 12 31 + 1 := by
        have hs := daysBeforeMonth_succ y 12 (by omega) (by omega)
        have e13 : (12 : Int) + 1 = 13 := by omega
        rw [e13] at hs
        have h13 := daysBeforeMonth_13 y
        have hd : daysInMonth y 12 = 31 := by unfold daysInMonth; rfl
        have h1 := daysBeforeMonth_1 (y + 1)
        have hy := daysBeforeYear_succ y
        unfold toOrdinal
        omega
      omega
    have hcore : ∀ wn : Int × Int, wn.2 ≠ 0 →
        (marks info 0 (info.yearlen - 1) j wn ↔
         (wn.1 == weekdayOfOrd (info.yearordinal + j) &&
          (wn.2 == 0 || decide (a.freq > 1) ||
            Spec.RRule.nthOk a (info.yearordinal + j) y (monthOfYday (isLeap y) j) wn.2)) = true) := by
      intro wn hn0
      unfold marks nthAt Spec.RRule.nthOk
      rw [hmonths]
      simp only [na.freq, List.isEmpty_nil, Bool.not_true, Bool.and_false, Bool.or_false, Bool.false_eq_true,
        ↓reduceIte, hlast, ← hyo]
      have hf1 : decide ((0 : Int) > 1) = false := by decide
      have hf2 : ((0 : Int) == 1) = false := by decide
      simp only [hf1, hf2, Bool.or_false, Bool.and_eq_true, beq_iff_eq, Bool.or_eq_true, Bool.false_eq_true,
        ↓reduceIte]
      rw [hyl]
      constructor
      · rintro ⟨_, _, hw, hn⟩
        refine ⟨hw.symm, Or.inr ?_⟩
        split at hn
        · rename_i hp; rw [if_pos hp]; simp only [beq_iff_eq]; omega
        · rename_i hp; rw [if_neg hp]; simp only [beq_iff_eq]; omega
      · rintro ⟨hw, hn | hn⟩
        · exact absurd hn hn0
        · refine ⟨by omega, by omega, hw.symm, ?_⟩
          split
          · rename_i hp; rw [if_pos hp] at hn; simp only [beq_iff_eq] at hn; omega
          · rename_i hp; rw [if_neg hp] at hn; simp only [beq_iff_eq] at hn; omega
    constructor
    · rintro ⟨wn, hwn, hm⟩
      have hwl := (hmem wn).mp hwn
      exact ⟨wn, hwl, (hcore wn (hok wn hwl).2).mp hm⟩
    · rintro ⟨wn, hwl, hm⟩
      exact ⟨wn, (hmem wn).mpr hwl, (hcore wn (hok wn hwl).2).mpr hm⟩
  rw [hwk]
  generalize (l.isEmpty || _) = b2
  generalize ((a.bymonthday.getD []).isEmpty || _ || _) = b4
  rcases a.byyearday with _ | (_ | ⟨x, xs⟩)
  · cases b2 <;> cases b4 <;> rfl
  · cases b2 <;> cases b4 <;> rfl
  · rw [yearday_clause (some (x :: xs))]

theorem nthy_cuts (na : NthYArgs a) (h : construct a = .ok r) : CutsAgree a r := by
  obtain ⟨bh, bm, bs, hr⟩ := nthy_rule na h
  rw [hr]; exact ⟨rfl, rfl, rfl⟩

theorem nthy_nthRule (na : NthYArgs a) (h : construct a = .ok r) : NthRule r := by
  obtain ⟨bh, bm, bs, hr⟩ := nthy_rule na h
  rw [hr]; exact ⟨rfl, rfl, rfl⟩

/-- "the model state at the start of period `k`" -/
structure NthYGood (a : Args) (r : Rule) (k : Nat) (st : State) : Prop where
  facts : YearFacts r st.cur.year st.info
  timeset : st.timeset = Spec.RRule.timesOf a none none none
  year : st.cur.year = a.dtstart.y + k * a.interval
  mask : ∃ mask, st.info.nwdaymask = some mask ∧ (mask.length : Int) = st.info.yearlen ∧
    ∀ j : Int, 0 ≤ j → j < st.info.yearlen →
      Py.getIdx mask j = .ok (if ∃ wn ∈ nwlOf a, marks st.info 0 (st.info.yearlen - 1) j wn then 1 else 0)

theorem nthy_results (na : NthYArgs a) (h : construct a = .ok r) (k : Nat) (st : State) (hg : NthYGood a r k st) :
    ∃ fl pre cands, periodResults r st = .ok (cands, none, fl) ∧ Spec.RRule.sel a (k : Int) = pre ++ cands ∧
      (∀ x ∈ pre, x.micros < Spec.RRule.startMicros a ∧ Spec.RRule.afterUntil a x = false) ∧
      (∀ x ∈ cands, 0 ≤ x.ord ∧ x.ord ≤ maxOrdinal) := by
  have hn := nthy_nthRule na h
  obtain ⟨bh, bm, bs, hr⟩ := nthy_rule na h
  have hfreq : r.freq = 0 := by rw [hr]; exact na.freq
  have hsp := construct_bysetpos a r h
  have htsok : TsOk st.timeset := by
    have := construct_timeset_ok a r h (by rw [na.freq]; omega)
    rw [hr] at this; rw [hg.timeset]; exact this
  have hyo := hg.facts.yearordinal
  have hyl := hg.facts.yearlen
  have hy1 := hg.facts.year_lo
  have hy2 := hg.facts.year_hi
  have hpos : 1 ≤ toOrdinal st.cur.year 1 1 :=
    toOrdinal_pos _ _ _ hy1 ⟨by omega, by omega, by omega, by have := daysInMonth_bounds st.cur.year 1; omega⟩
  have hend := year_end_le st.cur.year hy2
  have hd : dayset r st.info st.cur = .ok (intRange 0 st.info.yearlen) := dayset_yearly st.cur hfreq
  obtain ⟨mask, hmask, hmlen, hmspec⟩ := hg.mask
  have hfil : ∀ i, 0 ≤ i → i < st.info.yearlen →
      dayFiltered r st.info i = .ok (!(Spec.RRule.dateOk a (st.info.yearordinal + i))) := by
    intro i hi0 hi1
    rw [dayFiltered_nth hn hg.facts mask hmask i hi0 hi1 hmlen]
    have hgi := hmspec i hi0 hi1
    rw [getIdx_int mask i hi0 (by omega)] at hgi
    injection hgi with hgi
    have hbr := nthy_bridge na h st.info st.cur.year i hy1 hi0 (by rw [← hyl]; exact hi1) hyo hyl
    rw [← hbr, hgi]
    congr 2
    by_cases c : ∃ wn ∈ nwlOf a, marks st.info 0 (st.info.yearlen - 1) i wn
    · rw [if_pos c]; simp [c]
    · rw [if_neg c]; simp [c]
  obtain ⟨fl, hres⟩ := periodResults_range_P st (Spec.RRule.dateOk a) hfil (by rw [hsp.1]; exact hsp.2) htsok hd
    (by rw [hyo]; omega) (by rw [hyo, hyl]; exact hend)
  have hspan : Spec.RRule.periodSpan a (k * a.interval) =
      (st.info.yearordinal + 0, st.info.yearordinal + st.info.yearlen, none, none, none) := by
    unfold Spec.RRule.periodSpan
    rw [if_pos (by simp [na.freq])]
    dsimp only
    rw [← hg.year, hyo, hyl, toOrdinal_next_year]; simp
  refine ⟨fl, [], Spec.RRule.sel a (k : Int), ?_, rfl, by simp, ?_⟩
  · rw [hres, hg.timeset, sel_span_sp a k _ _ hspan, hsp.1]
  · intro x hx
    rw [sel_span_sp a k _ _ hspan] at hx
    have := sel_bounds _ _ _ _ x (applySetpos_subset _ _ x hx)
    rw [hyo, hyl] at this; omega

theorem nthy_rebuild (na : NthYArgs a) (h : construct a = .ok r) (y m : Int) (hy1 : 1 ≤ y) (hy2 : y ≤ 9999) :
    ∃ info mask, rebuild r y m = .ok info ∧ info.nwdaymask = some mask ∧ (mask.length : Int) = info.yearlen ∧
      ∀ j : Int, 0 ≤ j → j < info.yearlen →
        Py.getIdx mask j = .ok (if ∃ wn ∈ nwlOf a, marks info 0 (info.yearlen - 1) j wn then 1 else 0) := by
  have hn := nthy_nthRule na h
  obtain ⟨bh, bm, bs, hr⟩ := nthy_rule na h
  have hfreq : r.freq = 0 := by rw [hr]; exact na.freq
  have hnw : r.bynweekday = some (nwlOf a) := by rw [hr]
  have hbm : truthy r.bymonth = false := by rw [hr]; show truthy (a.bymonth.map sortedSet) = false; rw [na.bymonth]; rfl
  obtain ⟨hne, _, hok, _, _⟩ := nthy_nwl na
  exact rebuild_nth_yearly hn hfreq hbm _ hne hnw hok y m hy1 hy2

theorem nthy_next (na : NthYArgs a) (h : construct a = .ok r) (k : Nat) (st : State) (fl : Bool)
    (c : Option Int) (hg : NthYGood a r k st) (hy : a.dtstart.y + (k + 1 : Nat) * a.interval ≤ 9999) :
    ∃ st', advance r { st with count := c } fl = .ok st' ∧ NthYGood a r (k + 1) st' := by
  obtain ⟨bh, bm, bs, hr⟩ := nthy_rule na h
  have hfreq : r.freq = 0 := by rw [hr]; exact na.freq
  have hint : r.interval = a.interval := by rw [hr]
  have hi := na.interval
  have hy1 := hg.facts.year_lo
  have hyr := hg.year
  have ek : ((k + 1 : Nat) : Int) * a.interval = k * a.interval + a.interval := by
    push_cast; rw [Int.add_mul]; omega
  have hle : st.cur.year + r.interval ≤ 9999 := by rw [hint]; omega
  obtain ⟨info, mask, hre, h2, h3, h4⟩ := nthy_rebuild na h (st.cur.year + r.interval) st.cur.month (by omega) hle
  have hadv : advance r { st with count := c } fl =
      .ok { cur := { st.cur with year := st.cur.year + r.interval }, info := info,
            timeset := st.timeset, count := c } := by
    unfold advance
    dsimp only
    rw [if_pos (by simp [hfreq]), if_neg (by omega), hre]
  exact ⟨_, hadv, ⟨rebuild_facts r _ _ info hre, hg.timeset, by dsimp only; rw [hyr, hint]; omega, mask, h2, h3, h4⟩⟩

theorem nthy_init (na : NthYArgs a) (h : construct a = .ok r) :
    ∃ st0, init r = .ok st0 ∧ NthYGood a r 0 st0 ∧ st0.count = r.count := by
  obtain ⟨bh, bm, bs, hr⟩ := nthy_rule na h
  have hfreq : r.freq = 0 := by rw [hr]; exact na.freq
  have hv := na.valid
  unfold DT.Valid ValidDate at hv
  obtain ⟨info, mask, hre, h2, h3, h4⟩ := nthy_rebuild na h a.dtstart.y a.dtstart.m hv.1.1 hv.1.2.1
  have hd : r.dtstart = { a.dtstart with us := 0 } := by rw [hr]
  have hf : r.freq < 4 := by omega
  have hts : r.timeset = some (Spec.RRule.timesOf a none none none) := by rw [hr]
  refine ⟨{ cur := { year := a.dtstart.y, month := a.dtstart.m, day := a.dtstart.d, hour := a.dtstart.hh,
                     minute := a.dtstart.mm, second := a.dtstart.ss, weekday := r.dtstart.weekday },
            info := info, timeset := Spec.RRule.timesOf a none none none, count := r.count }, ?_, ?_, rfl⟩
  · unfold init
    simp only [hd, bind, Except.bind, hre, hts, pure, Except.pure]
    rw [if_pos hf]
    rfl
  · exact ⟨rebuild_facts r _ _ info hre, rfl, by dsimp only; omega, mask, h2, h3, h4⟩

/-- **`iter_eq_spec`, YEARLY with nth weekdays counted inside the year.**  FREQ=YEARLY, INTERVAL ≥ 1, a
    valid start, no BYMONTH, BYDAY consisting of nth weekdays only (`MO(+20)`, `SU(-1)`, any magnitude
    up to ±53 and beyond), any BYYEARDAY / BYHOUR / BYMINUTE / BYSECOND / BYSETPOS, any COUNT / UNTIL, no
    BYMONTHDAY / BYWEEKNO / BYEASTER: exactly the specification's recurrence set. -/
theorem iter_eq_spec_yearly_nth (na : NthYArgs a) (h : construct a = .ok r) (n : Nat)
    (hy : a.dtstart.y + n * a.interval ≤ 9999) :
    (iter r n).1 = Spec.RRule.occ a n := by
  have hi := na.interval
  have hmono : ∀ k : Nat, k ≤ n → (k : Int) * a.interval ≤ n * a.interval := by
    intro k hk; exact Int.mul_le_mul_of_nonneg_right (by omega) (by omega)
  have sim : Simulation a r n (NthYGood a r) := {
    agree := nthy_cuts na h
    results := fun k st _ hg => nthy_results na h k st hg
    next := fun k st fl c hk hg => nthy_next na h k st fl c hg (by have := hmono (k + 1) (by omega); omega) }
  obtain ⟨st0, hinit, hg0, hc0⟩ := nthy_init na h
  exact iter_refines sim st0 hinit hg0 hc0 n (by omega)

end RRule
