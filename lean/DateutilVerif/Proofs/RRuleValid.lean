/-
  Proofs/RRuleValid.lean — every yielded value is a real datetime: its date ordinal lies in
  1..3652059 (`date.fromordinal` succeeded) and its wall time is valid; so `Inst.toDT` is a valid
  `datetime` with the same position on the time line, and the DT-level sequence is strictly increasing.
-/
import DateutilVerif.Proofs.RRuleMonoAll
import DateutilVerif.Proofs.Time

namespace RRule
open Cal

def OrdOk (x : Inst) : Prop := 1 ≤ x.ord ∧ x.ord ≤ maxOrdinal

theorem expandDays_ord (yo : Int) (ts : List HMS) : ∀ (days : List Int) (x : Inst),
    x ∈ (expandDays yo ts days).1 → OrdOk x := by
  intro days
  induction days with
  | nil => intro x hx; simp [expandDays] at hx
  | cons i is ih =>
    intro x hx
    unfold expandDays at hx
    unfold checkOrd at hx
    split at hx
    · simp at hx
    · rename_i o ho
      split at ho
      · rename_i hr
        injection ho with ho; subst ho
        dsimp only at hx
        rcases List.mem_append.mp hx with h | h
        · simp only [List.mem_map] at h
          obtain ⟨t, _, rfl⟩ := h
          exact hr
        · exact ih x h
      · cases ho

theorem selectPos_ord (yo : Int) (days : List Int) (ts : List HMS) (pos : Int) (x : Inst)
    (h : selectPos yo days ts pos = .ok (some x)) : OrdOk x := by
  unfold selectPos at h
  dsimp only at h
  split at h
  · unfold checkOrd at h
    split at h
    · rename_i o ho
      split at ho
      · rename_i hr
        injection ho with ho; subst ho
        injection h with h; injection h with h; subst h
        exact hr
      · cases ho
    · cases h
  · injection h with h; cases h

theorem poslistLoop_ord (yo : Int) (days : List Int) (ts : List HMS) : ∀ (sp : List Int) (acc res : List Inst),
    (∀ x ∈ acc, OrdOk x) → poslistLoop yo days ts sp acc = .ok res → ∀ x ∈ res, OrdOk x := by
  intro sp
  induction sp with
  | nil => intro acc res hacc h; simp [poslistLoop] at h; subst h; exact hacc
  | cons p ps ih =>
    intro acc res hacc h
    unfold poslistLoop at h
    split at h
    · cases h
    · rename_i y hx
      apply ih _ res _ h
      split
      · exact hacc
      · intro z hz
        rcases List.mem_append.mp hz with hz | hz
        · exact hacc z hz
        · simp at hz; subst hz; exact selectPos_ord yo days ts p _ hx
    · exact ih acc res hacc h

/-- every candidate of a period passed `date.fromordinal` -/
theorem periodResults_ord (r : Rule) (st : State) (cands : List Inst) (pend : Option Py.PyErr) (fl : Bool)
    (h : periodResults r st = .ok (cands, pend, fl)) : ∀ x ∈ cands, OrdOk x := by
  unfold periodResults at h
  split at h
  · cases h
  · split at h
    · cases h
    · split at h
      · split at h
        · cases h
        · rename_i l hl
          injection h with h; injection h with h1 _; subst h1
          unfold buildPoslist at hl
          split at hl
          · rename_i l0 hl0
            injection hl with hl; subst hl
            intro x hx
            exact poslistLoop_ord _ _ _ _ [] l0 (by simp) hl0 x ((mem_sortBy ltInst x l0).mp hx)
          · cases hl
      · injection h with h; injection h with h1 _; subst h1
        exact expandDays_ord _ _ _

/-- a yielded instant as a `datetime`: valid, and at the same place on the time line -/
theorem toDT_valid (x : Inst) (ho : OrdOk x) (ht : InstOk x) : x.toDT.Valid ∧ x.toDT.toMicros = x.micros := by
  obtain ⟨e, hv, hy1⟩ := toOrdinal_fromOrdinal x.ord ho.1
  have hy2 : (fromOrdinal x.ord).1 ≤ 9999 := by
    by_cases c : (fromOrdinal x.ord).1 ≤ 9999
    · exact c
    · exfalso
      have v1 : ValidYMD 10000 1 1 := by decide
      have hle : toOrdinal 10000 1 1 ≤ toOrdinal (fromOrdinal x.ord).1 (fromOrdinal x.ord).2.1 (fromOrdinal x.ord).2.2 := by
        by_cases c2 : (fromOrdinal x.ord).1 = 10000
        · have := hv
          rw [c2] at this ⊢
          obtain ⟨m1, m12, d1, _⟩ := this
          unfold toOrdinal
          have := daysBeforeMonth_mono 10000 1 (fromOrdinal x.ord).2.1 (by omega) m1 (by omega)
          rw [daysBeforeMonth_1] at this ⊢
          omega
        · have := toOrdinal_lt_of_lex 10000 1 1 _ _ _ v1 hv (Or.inl (by omega))
          omega
      have e2 : toOrdinal 10000 1 1 = maxOrdinal + 1 := by decide
      have := ho.2
      omega
  unfold InstOk ValidHMS at ht
  refine ⟨?_, ?_⟩
  · unfold DT.Valid ValidDate Inst.toDT
    dsimp only
    exact ⟨⟨hy1, hy2, hv⟩, ht.1, ht.2.1, ht.2.2.1, ht.2.2.2.1, ht.2.2.2.2.1, ht.2.2.2.2.2, by omega, by omega⟩
  · unfold DT.toMicros DT.ordinal DT.timeMicros DT.usPerDay Inst.toDT Inst.micros Inst.secs
    dsimp only
    rw [e]
    omega

/-- every candidate of a period carries a wall time of the period's time set -/
theorem periodResults_instOk (r : Rule) (st : State) (cands : List Inst) (pend : Option Py.PyErr) (fl : Bool)
    (hts : TsOk st.timeset) (h : periodResults r st = .ok (cands, pend, fl)) : ∀ x ∈ cands, InstOk x := by
  unfold periodResults at h
  split at h
  · cases h
  · split at h
    · cases h
    · rename_i days filtered _
      split at h
      · split at h
        · cases h
        · rename_i l hl
          injection h with h; injection h with h1 _; subst h1
          intro x hx
          obtain ⟨_, hm⟩ := buildPoslist_spec _ days st.timeset hts _ l hl
          obtain ⟨i, _, t, ht, rfl⟩ := hm x hx
          exact hts.2 t ht
      · injection h with h; injection h with h1 _; subst h1
        intro x hx
        obtain ⟨i, _, t, ht, rfl⟩ := expandDays_mem _ _ days x hx
        exact hts.2 t ht

theorem run_forall_inv (r : Rule) (I : State → Prop) (P : Inst → Prop)
    (hP : ∀ st, I st → ∀ x ∈ (step r st).1, P x)
    (hI : ∀ st st', I st → (step r st).2 = .ok st' → I st') :
    ∀ (n : Nat) (st : State), I st → ∀ x ∈ (run r n st).1, P x := by
  intro n
  induction n with
  | zero => intro st _ x hx; simp [run] at hx
  | succ n ih =>
    intro st hi x hx
    unfold run at hx
    have h1 := hP st hi
    have h2 := hI st
    generalize step r st = sr at hx h1 h2
    obtain ⟨out, res⟩ := sr
    cases res with
    | error s => exact h1 x hx
    | ok st' =>
      dsimp only at hx
      rcases List.mem_append.mp hx with h | h
      · exact h1 x h
      · exact ih st' (h2 st' hi rfl) x h

theorem step_valid (r : Rule) (st : State) (hts : TsOk st.timeset) : ∀ x ∈ (step r st).1, OrdOk x ∧ InstOk x := by
  intro x hx
  rcases step_sublist r st with h | ⟨cands, pend, fl, hres, hsub⟩
  · rw [h] at hx; simp at hx
  · exact ⟨periodResults_ord r st cands pend fl hres x (hsub.subset hx),
           periodResults_instOk r st cands pend fl hts hres x (hsub.subset hx)⟩

/-- **every yielded value is a real datetime** (all seven frequencies, every constructed rule) -/
theorem iter_valid_all (a : Args) (r : Rule) (h : construct a = .ok r) (hi : 1 ≤ a.interval)
    (hw : 0 ≤ a.wkst.getD 0 ∧ a.wkst.getD 0 ≤ 6) (hv : a.dtstart.Valid)
    (hf : 0 ≤ a.freq ∧ a.freq ≤ 6) (n : Nat) :
    ∀ x ∈ (iter r n).1, OrdOk x ∧ InstOk x := by
  have ok := construct_ruleOk a r h hi hw
  have hfr : r.freq = a.freq := (construct_fields a r h).1
  have hds : r.dtstart = { a.dtstart with us := 0 } := (construct_fields a r h).2.2.2.2.2.2.1
  have hv' : r.dtstart.Valid := by
    rw [hds]; unfold DT.Valid at hv ⊢; dsimp only
    exact ⟨hv.1, hv.2.1, hv.2.2.1, hv.2.2.2.1, hv.2.2.2.2.1, hv.2.2.2.2.2.1, hv.2.2.2.2.2.2.1, by omega, by omega⟩
  unfold iter
  split
  · intro x hx; simp at hx
  · rename_i st hinit
    by_cases hcal : a.freq ≤ 3
    · have inv := init_calInv r ok (by omega) hv' st hinit
      exact run_forall_inv r (CalInv r) _ (fun st inv => step_valid r st inv.ts)
        (fun st st' inv hst => by
          obtain ⟨_, _, _, _, hnext⟩ := cal_window r ok (by omega) st inv
          exact (hnext st' hst).1) n st inv
    · have inv := init_subInv r ok (by omega) hv' st hinit
      exact run_forall_inv r (SubInv r) _ (fun st inv => step_valid r st inv.ts)
        (fun st st' inv hst => (sub_next r ok (by omega) st st' inv hst).1) n st inv

/-- the DT-level sequence is strictly increasing, and every element is a valid datetime -/
theorem iterDT_strictMono_valid (a : Args) (r : Rule) (h : construct a = .ok r) (hi : 1 ≤ a.interval)
    (hw : 0 ≤ a.wkst.getD 0 ∧ a.wkst.getD 0 ≤ 6) (hv : a.dtstart.Valid)
    (hf : 0 ≤ a.freq ∧ a.freq ≤ 6) (n : Nat) :
    (iterDT r n).1.Pairwise (fun s t => s.toMicros < t.toMicros) ∧ ∀ t ∈ (iterDT r n).1, t.Valid ∧ t.us = 0 := by
  have hval := iter_valid_all a r h hi hw hv hf n
  have hmono := iter_strictMono_all a r h hi hw hv hf n
  unfold iterDT
  dsimp only
  refine ⟨?_, ?_⟩
  · rw [List.pairwise_map]
    exact List.Pairwise.imp_of_mem (by
      intro x y hx hy hxy
      rw [(toDT_valid x (hval x hx).1 (hval x hx).2).2, (toDT_valid y (hval y hy).1 (hval y hy).2).2]
      unfold secsLt at hxy
      unfold Inst.micros; omega) hmono
  · intro t ht
    simp only [List.mem_map] at ht
    obtain ⟨x, hx, rfl⟩ := ht
    exact ⟨(toDT_valid x (hval x hx).1 (hval x hx).2).1, rfl⟩

end RRule
