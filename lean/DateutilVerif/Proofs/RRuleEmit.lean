/-
  Proofs/RRuleEmit.lean — the emission loop (until / dtstart / count) and what it implies for the
  whole iteration, for EVERY rule and every fuel (no hypothesis on the rule).
-/
import DateutilVerif.Model.RRule

namespace RRule

/-! ### `emit` -/

theorem emit_sublist (r : Rule) : ∀ (l : List Inst) (c : Option Int), (emit r l c).1.Sublist l := by
  intro l
  induction l with
  | nil => intro c; simp [emit]
  | cons x xs ih =>
    intro c
    unfold emit
    split
    · exact List.nil_sublist _
    · split
      · cases c with
        | none => simpa using (ih none).cons₂ x
        | some n =>
          dsimp only
          split
          · exact List.nil_sublist _
          · simpa using (ih (some (n - 1))).cons₂ x
      · exact (ih c).cons x

theorem emit_ge_start (r : Rule) : ∀ (l : List Inst) (c : Option Int),
    ∀ x ∈ (emit r l c).1, r.dtstart.toMicros ≤ x.micros := by
  intro l
  induction l with
  | nil => intro c x hx; simp [emit] at hx
  | cons y ys ih =>
    intro c x hx
    unfold emit at hx
    split at hx
    · simp at hx
    · rename_i hu
      split at hx
      · rename_i hs
        cases c with
        | none =>
          simp only [List.mem_cons] at hx
          rcases hx with rfl | hx
          · exact hs
          · exact ih none x hx
        | some n =>
          dsimp only at hx
          split at hx
          · simp at hx
          · simp only [List.mem_cons] at hx
            rcases hx with rfl | hx
            · exact hs
            · exact ih _ x hx
      · exact ih c x hx

theorem emit_not_after_until (r : Rule) : ∀ (l : List Inst) (c : Option Int),
    ∀ x ∈ (emit r l c).1, afterUntil r x = false := by
  intro l
  induction l with
  | nil => intro c x hx; simp [emit] at hx
  | cons y ys ih =>
    intro c x hx
    unfold emit at hx
    split at hx
    · simp at hx
    · rename_i hu
      split at hx
      · cases c with
        | none =>
          simp only [List.mem_cons] at hx
          rcases hx with rfl | hx
          · simpa using hu
          · exact ih none x hx
        | some n =>
          dsimp only at hx
          split at hx
          · simp at hx
          · simp only [List.mem_cons] at hx
            rcases hx with rfl | hx
            · simpa using hu
            · exact ih _ x hx
      · exact ih c x hx

/-- with `count = n`: at most `n` values are yielded, and while the generator has not returned the
    remaining count is exactly `n − yielded` -/
theorem emit_count (r : Rule) : ∀ (l : List Inst) (n : Int),
    ((emit r l (some n)).1.length : Int) ≤ max n 0 ∧
    ((emit r l (some n)).2.1 = none →
      (emit r l (some n)).2.2 = some (n - (emit r l (some n)).1.length) ∧ ((emit r l (some n)).1.length : Int) ≤ n ∨
      (emit r l (some n)).1 = [] ∧ (emit r l (some n)).2.2 = some n) := by
  intro l
  induction l with
  | nil => intro n; simp [emit]; omega
  | cons y ys ih =>
    intro n
    unfold emit
    split
    · simp; omega
    · split
      · dsimp only
        split
        · simp; omega
        · rename_i hn
          have := ih (n - 1)
          simp only [List.length_cons]
          refine ⟨by omega, ?_⟩
          intro hnone
          rcases this.2 hnone with ⟨h1, h2⟩ | ⟨h1, h2⟩
          · left; rw [h1]; constructor
            · congr 1; push_cast; omega
            · push_cast; omega
          · left; rw [h2, h1]; simp; omega
      · exact ih n

/-! ### `advance` does not touch the count -/

theorem fixDay_count (r : Rule) (st st' : State) (b : Bool) (h : fixDay r st b = .ok st') :
    st'.count = st.count := by
  unfold fixDay at h
  dsimp only at h
  repeat' (split at h <;> try dsimp only at h)
  all_goals first
    | (cases h; done)
    | (cases h; rfl)

theorem advance_count (r : Rule) (st st' : State) (f : Bool) (h : advance r st f = .ok st') :
    st'.count = st.count := by
  unfold advance at h
  dsimp only at h
  repeat' (split at h <;> try dsimp only at h)
  all_goals first
    | (cases h; done)
    | (cases h; rfl)
    | (have := fixDay_count r _ st' _ h; exact this)

/-- `init` copies the rule's count -/
theorem init_count (r : Rule) (st : State) (h : init r = .ok st) : st.count = r.count := by
  unfold init at h
  simp only [bind, Except.bind, pure, Except.pure] at h
  repeat' split at h
  all_goals first
    | (cases h; done)
    | (injection h with h; subst h; rfl)

/-! ### one period and the whole iteration -/

theorem step_char (r : Rule) (st : State) :
    (∃ e, step r st = ([], .error e)) ∨
    ∃ cands, (step r st).1 = (emit r cands st.count).1 ∧
      ∀ st', (step r st).2 = .ok st' →
        (emit r cands st.count).2.1 = none ∧ st'.count = (emit r cands st.count).2.2 := by
  unfold step
  split
  · left; exact ⟨_, rfl⟩
  · rename_i cands pending filtered _
    right
    refine ⟨cands, ?_, ?_⟩
    · dsimp only
      split
      · rfl
      · split <;> rfl
    · intro st' h
      dsimp only at h
      split at h
      · cases h
      · rename_i hnone
        split at h
        · cases h
        · exact ⟨hnone, advance_count r _ st' _ h⟩

theorem step_ge_start (r : Rule) (st : State) : ∀ x ∈ (step r st).1, r.dtstart.toMicros ≤ x.micros := by
  intro x hx
  rcases step_char r st with ⟨e, he⟩ | ⟨cands, h1, _⟩
  · rw [he] at hx; simp at hx
  · rw [h1] at hx; exact emit_ge_start r _ _ x hx

theorem step_not_after_until (r : Rule) (st : State) : ∀ x ∈ (step r st).1, afterUntil r x = false := by
  intro x hx
  rcases step_char r st with ⟨e, he⟩ | ⟨cands, h1, _⟩
  · rw [he] at hx; simp at hx
  · rw [h1] at hx; exact emit_not_after_until r _ _ x hx

theorem run_forall (r : Rule) (P : Inst → Prop) (hP : ∀ st, ∀ x ∈ (step r st).1, P x) :
    ∀ (fuel : Nat) (st : State), ∀ x ∈ (run r fuel st).1, P x := by
  intro fuel
  induction fuel with
  | zero => intro st x hx; simp [run] at hx
  | succ n ih =>
    intro st x hx
    unfold run at hx
    have hs := hP st
    generalize step r st = sr at hx hs
    obtain ⟨out, res⟩ := sr
    cases res with
    | error s => exact hs x hx
    | ok st' =>
      dsimp only at hx
      rcases List.mem_append.mp hx with h | h
      · exact hs x h
      · exact ih st' x h

theorem run_count (r : Rule) : ∀ (fuel : Nat) (st : State) (n : Int), st.count = some n →
    ((run r fuel st).1.length : Int) ≤ max n 0 := by
  intro fuel
  induction fuel with
  | zero => intro st n _; simp [run]; omega
  | succ k ih =>
    intro st n hn
    unfold run
    rcases step_char r st with ⟨e, he⟩ | ⟨cands, h1, h2⟩
    · rw [he]; simp; omega
    · rw [hn] at h1 h2
      have hc := emit_count r cands n
      generalize hsr : step r st = sr at h1 h2
      obtain ⟨out, res⟩ := sr
      dsimp only at h1 h2
      subst h1
      cases res with
      | error s => dsimp only; exact hc.1
      | ok st' =>
        dsimp only
        obtain ⟨hnone, hcnt⟩ := h2 st' rfl
        rcases hc.2 hnone with ⟨e1, e2⟩ | ⟨e1, e2⟩
        · have := ih st' _ (hcnt.trans e1)
          simp only [List.length_append]; push_cast; omega
        · have := ih st' _ (hcnt.trans e2)
          rw [e1]; simpa using this

end RRule
